// apicov lists the exported functions and methods of the gmsm packages that no driver under /verif/props (or the
// hooks) mentions by name: a cheap audit for "rarely used but exported entry point" gaps. Name-based: a hit only
// means some selector with that name occurs in the drivers.
package main

import (
	"fmt"
	"go/ast"
	"go/parser"
	"go/token"
	"os"
	"path/filepath"
	"sort"
	"strings"
)

func main() {
	repo, verif := "/repo", "/verif"
	if len(os.Args) > 1 {
		repo = os.Args[1]
	}
	used := map[string]bool{}
	filepath.Walk(verif, func(p string, fi os.FileInfo, err error) error {
		if err != nil || fi.IsDir() || !strings.HasSuffix(p, ".go") {
			return nil
		}
		if !strings.Contains(p, "/props/") && !strings.Contains(p, "/hooks/") {
			return nil
		}
		f, err := parser.ParseFile(token.NewFileSet(), p, nil, 0)
		if err != nil {
			return nil
		}
		ast.Inspect(f, func(n ast.Node) bool {
			if s, ok := n.(*ast.SelectorExpr); ok {
				used[s.Sel.Name] = true
			}
			return true
		})
		return nil
	})
	type item struct{ pkg, name string }
	var missing []item
	total := 0
	filepath.Walk(repo, func(p string, fi os.FileInfo, err error) error {
		if err != nil {
			return nil
		}
		if fi.IsDir() {
			b := filepath.Base(p)
			if b == ".git" || b == "docs" || b == "testdata" || strings.HasPrefix(b, "zz_") {
				return filepath.SkipDir
			}
			return nil
		}
		if !strings.HasSuffix(p, ".go") || strings.HasSuffix(p, "_test.go") {
			return nil
		}
		rel, _ := filepath.Rel(repo, filepath.Dir(p))
		if strings.HasPrefix(rel, "internal/") && !strings.HasPrefix(rel, "internal/sm2ec") && !strings.HasPrefix(rel, "internal/sm9/bn256") && !strings.HasPrefix(rel, "internal/bigmod") {
			return nil
		}
		if strings.Contains(rel, "fiat") || strings.HasPrefix(rel, "cmd") {
			return nil
		}
		f, err := parser.ParseFile(token.NewFileSet(), p, nil, 0)
		if err != nil {
			return nil
		}
		for _, d := range f.Decls {
			fd, ok := d.(*ast.FuncDecl)
			if !ok || !fd.Name.IsExported() {
				continue
			}
			name := fd.Name.Name
			q := name
			if fd.Recv != nil && len(fd.Recv.List) == 1 {
				t := fd.Recv.List[0].Type
				if st, ok := t.(*ast.StarExpr); ok {
					t = st.X
				}
				if ix, ok := t.(*ast.IndexExpr); ok {
					t = ix.X
				}
				id, ok := t.(*ast.Ident)
				if !ok {
					continue
				}
				q = id.Name + "." + name
			}
			total++
			if !used[name] {
				missing = append(missing, item{rel, q})
			}
		}
		return nil
	})
	sort.Slice(missing, func(i, j int) bool {
		if missing[i].pkg != missing[j].pkg {
			return missing[i].pkg < missing[j].pkg
		}
		return missing[i].name < missing[j].name
	})
	seen := map[string]bool{}
	cur := ""
	n := 0
	for _, m := range missing {
		k := m.pkg + " " + m.name
		if seen[k] {
			continue
		}
		seen[k] = true
		n++
		if m.pkg != cur {
			cur = m.pkg
			fmt.Printf("\n%s:", cur)
		}
		fmt.Printf(" %s", m.name)
	}
	fmt.Printf("\n\n%d exported functions/methods, %d never mentioned by name in the drivers\n", total, n)
}
