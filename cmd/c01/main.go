package main

import (
	"verif/engine"
	"verif/props/c01"
)

func main() { engine.Main(c01.Prop{}) }
