package main

import (
	"verif/engine"
	"verif/props/c02"
)

func main() { engine.Main(c02.Prop{}) }
