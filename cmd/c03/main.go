package main

import (
	"verif/engine"
	"verif/props/c03"
)

func main() { engine.Main(c03.Prop{}) }
