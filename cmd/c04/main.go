package main

import (
	"verif/engine"
	"verif/props/c04"
)

func main() { engine.Main(c04.Prop{}) }
