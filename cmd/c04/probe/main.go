package main

import (
	"bytes"
	"fmt"

	smcipher "github.com/emmansun/gmsm/cipher"
	"github.com/emmansun/gmsm/sm4"
)

func main() {
	b, _ := sm4.NewCipher(make([]byte, 16))
	a, _ := smcipher.NewCCM(b)
	nonce := make([]byte, 12)
	pt := []byte("hello world")
	want := a.Seal(nil, nonce, pt, nil)
	buf := make([]byte, len(pt), len(pt)+16)
	copy(buf, pt)
	got := a.Seal(buf[:0], nonce, buf, nil) // documented in-place use: dst = plaintext[:0]
	fmt.Printf("disjoint: %x\nin place: %x\nequal: %v\n", want, got, bytes.Equal(got, want))
	_, err := a.Open(nil, nonce, got, nil)
	fmt.Println("Open(in-place sealed):", err)
}
