package main

import (
	"verif/engine"
	"verif/props/c05"
)

func main() { engine.Main(c05.Prop{}) }
