package main

import (
	"verif/engine"
	"verif/props/c06"
)

func main() { engine.Main(c06.Prop{}) }
