package main

import (
	"verif/engine"
	"verif/props/c07"
)

func main() { engine.Main(c07.Prop{}) }
