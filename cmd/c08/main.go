package main

import (
	"verif/engine"
	"verif/props/c08"
)

func main() { engine.Main(c08.Prop{}) }
