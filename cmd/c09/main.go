package main

import (
	"verif/engine"
	"verif/props/c09"
)

func main() { engine.Main(c09.Prop{}) }
