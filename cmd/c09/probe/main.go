package main

import (
	"fmt"
	"math/big"
	"time"

	vh "github.com/emmansun/gmsm/verifhook"
	"verif/ref/ecref"
)

func main() {
	c := ecref.SM9G1()
	// G1 suspect: coordinate + p accepted
	for k := int64(1); k < 40; k++ {
		pt := c.BaseMul(big.NewInt(k))
		lim := new(big.Int).Sub(new(big.Int).Lsh(big.NewInt(1), 256), c.P)
		if pt.X.Cmp(lim) < 0 {
			x2 := new(big.Int).Add(pt.X, c.P)
			enc := append(ecref.Bytes32(x2), ecref.Bytes32(pt.Y)...)
			g := new(vh.G1)
			rest, err := g.Unmarshal(enc)
			fmt.Printf("k=%d x+p: rest=%d err=%v remarshal-eq=%v\n", k, len(rest), err, string(g.Marshal()) == string(enc))
			cenc := append([]byte{2 | byte(pt.Y.Bit(0))}, ecref.Bytes32(x2)...)
			g2 := new(vh.G1)
			rest, err = g2.UnmarshalCompressed(cenc)
			fmt.Printf("k=%d compressed x+p: rest=%d err=%v\n", k, len(rest), err)
			break
		}
	}
	// p,p -> infinity?
	enc := append(ecref.Bytes32(c.P), ecref.Bytes32(c.P)...)
	g := new(vh.G1)
	_, err := g.Unmarshal(enc)
	fmt.Printf("(p,p): err=%v marshal=%x\n", err, g.Marshal()[:8])

	// timings
	k := make([]byte, 32)
	for i := range k {
		k[i] = byte(i*7 + 1)
	}
	k[0] = 0x30
	t0 := time.Now()
	for i := 0; i < 100; i++ {
		new(vh.G1).ScalarBaseMult(k)
	}
	fmt.Println("G1 base", time.Since(t0)/100)
	t0 = time.Now()
	for i := 0; i < 100; i++ {
		new(vh.G1).ScalarMult(vh.Gen1, k)
	}
	fmt.Println("G1 mult", time.Since(t0)/100)
	t0 = time.Now()
	for i := 0; i < 100; i++ {
		new(vh.G2).ScalarBaseMult(k)
	}
	fmt.Println("G2 base", time.Since(t0)/100)
	t0 = time.Now()
	for i := 0; i < 100; i++ {
		new(vh.G2).ScalarMult(vh.Gen2, k)
	}
	fmt.Println("G2 mult", time.Since(t0)/100)
	t0 = time.Now()
	var gt *vh.GT
	for i := 0; i < 20; i++ {
		gt = vh.Pair(vh.Gen1, vh.Gen2)
	}
	fmt.Println("pair", time.Since(t0)/20)
	t0 = time.Now()
	for i := 0; i < 20; i++ {
		vh.ScalarMultGT(gt, k)
	}
	fmt.Println("GT mult win", time.Since(t0)/20)
	kb := new(big.Int).SetBytes(k)
	t0 = time.Now()
	for i := 0; i < 20; i++ {
		new(vh.GT).ScalarMult(gt, kb)
	}
	fmt.Println("GT mult exp", time.Since(t0)/20)
	t0 = time.Now()
	tab := vh.GenerateGTFieldTable(gt)
	fmt.Println("GT table", time.Since(t0))
	t0 = time.Now()
	for i := 0; i < 20; i++ {
		vh.ScalarBaseMultGT(tab, k)
	}
	fmt.Println("GT base tab", time.Since(t0)/20)
	t0 = time.Now()
	for i := 0; i < 20; i++ {
		c.BaseMul(kb)
	}
	fmt.Println("ref mul", time.Since(t0)/20)
	t0 = time.Now()
	q := new(vh.G2).Set(vh.Gen2)
	for i := 0; i < 1000; i++ {
		q.Add(q, vh.Gen2)
	}
	fmt.Println("G2 add", time.Since(t0)/1000)
	t0 = time.Now()
	for i := 0; i < 1000; i++ {
		gt.Add(gt, gt)
	}
	fmt.Println("GT add", time.Since(t0)/1000)
	t0 = time.Now()
	for i := 0; i < 1000; i++ {
		q.Marshal()
	}
	fmt.Println("G2 marshal", time.Since(t0)/1000)
}
