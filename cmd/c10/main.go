package main

import (
	"verif/engine"
	"verif/props/c10"
)

func main() { engine.Main(c10.Prop{}) }
