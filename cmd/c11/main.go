package main

import (
	"verif/engine"
	"verif/props/c11"
)

func main() { engine.Main(c11.Prop{}) }
