package main

import (
	"bytes"
	"fmt"

	"github.com/emmansun/gmsm/zuc"
	"verif/ref/zucref"
)

func main() {
	key := make([]byte, 32)
	iv := make([]byte, 23)
	for i := range key {
		key[i] = byte(i*7 + 1)
	}
	for i := range iv {
		iv[i] = byte(i*13 + 5)
	}
	msg := make([]byte, 100)
	for i := range msg {
		msg[i] = byte(i*31+7) ^ byte(i>>3)
	}
	for _, ts := range []int{4, 8, 16} {
		bad := map[int]bool{}
		for nb := 0; nb <= 640; nb++ {
			h, _ := zuc.NewHash256(key, iv, ts)
			got := h.Finish(msg, nb)
			want := zucref.MAC256(key, iv, ts, msg, nb)
			if !bytes.Equal(got, want) {
				bad[nb%128] = true
			} else if bad[nb%128] {
				fmt.Println("inconsistent residue", ts, nb)
			}
		}
		var lo, hi = 999, -1
		n := 0
		for r := range bad {
			n++
			if r < lo {
				lo = r
			}
			if r > hi {
				hi = r
			}
		}
		fmt.Printf("tag %d: wrong residues mod 128: count=%d min=%d max=%d\n", ts, n, lo, hi)
	}
	// EIA3
	k16, iv16 := key[:16], iv[:16]
	nbad := 0
	for nb := 0; nb <= 640; nb++ {
		h, _ := zuc.NewHash(k16, iv16)
		got := h.Finish(msg, nb)
		want := zucref.EIA3(k16, iv16, msg, nb)
		if !bytes.Equal(got, want) {
			nbad++
		}
	}
	fmt.Println("eia3 bad:", nbad)
	// the repository's self-made vector
	m := []byte("emmansunshangmi1emmansun shangmiemmansun shangmi 12345")
	kf, ivf := bytes.Repeat([]byte{0xff}, 32), bytes.Repeat([]byte{0xff}, 23)
	for _, ts := range []int{4, 8, 16} {
		h, _ := zuc.NewHash256(kf, ivf, ts)
		fmt.Printf("TestEIA256_Finish tag %d: lib=%x ref=%x\n", ts, h.Finish(m, 8*53+4), zucref.MAC256(kf, ivf, ts, m, 8*53+4))
	}
}
