package main

import (
	"verif/engine"
	"verif/props/c12"
)

func main() { engine.Main(c12.Prop{}) }
