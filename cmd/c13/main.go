package main

import (
	"os"

	"verif/engine"
	"verif/props/c13"
)

func main() {
	// "gen-embedded" prints props/c13/embedded.go (artefacts that cannot be regenerated deterministically:
	// RSA keys, PKCS#7 SignedData with a signing-time attribute). Not used by any check.
	if len(os.Args) > 1 && os.Args[1] == "gen-embedded" {
		c13.GenEmbedded(os.Stdout)
		return
	}
	if len(os.Args) > 1 && os.Args[1] == "dump-seeds" { // development aid
		c13.DumpSeeds(os.Stdout)
		return
	}
	if len(os.Args) > 1 && os.Args[1] == "bench-short" { // development aid
		c13.BenchShort(os.Stdout)
		return
	}
	engine.Main(c13.Prop{})
}
