package main

import (
	"verif/engine"
	"verif/props/c14"
)

func main() { engine.Main(c14.Prop{}) }
