package main

import (
	"crypto/rsa"
	"crypto/x509"
	"encoding/pem"
	"fmt"

	"verif/engine"
)

func main() {
	for i, bits := range []int{1024, 2048} {
		k, err := rsa.GenerateKey(&engine.DetReader{Lane: byte(0x70 + i)}, bits)
		if err != nil {
			panic(err)
		}
		fmt.Printf("%s", pem.EncodeToMemory(&pem.Block{Type: "RSA PRIVATE KEY", Bytes: x509.MarshalPKCS1PrivateKey(k)}))
	}
}
