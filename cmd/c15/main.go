package main

import (
	"verif/engine"
	"verif/props/c15"
)

func main() { engine.Main(c15.Prop{}) }
