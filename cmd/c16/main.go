package main

import (
	"verif/engine"
	"verif/props/c16"
)

func main() { engine.Main(c16.Prop{}) }
