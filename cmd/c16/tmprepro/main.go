package main

import (
	"encoding/hex"
	"fmt"

	"github.com/emmansun/gmsm/pkcs7"
)

func try(name, h string) {
	defer func() {
		if r := recover(); r != nil {
			fmt.Printf("%-34s PANIC: %v\n", name, r)
		}
	}()
	b, err := hex.DecodeString(h)
	if err != nil {
		panic(err)
	}
	p7, err := pkcs7.Parse(b)
	if err != nil {
		fmt.Printf("%-34s parse err=%v\n", name, err)
		return
	}
	pt, err := p7.DecryptUsingPSK(make([]byte, 16))
	fmt.Printf("%-34s pt=%x err=%v\n", name, pt, err)
}

func main() {
	iv := "5060d0b8b6cb10b9deb98fb1297befff"
	ct := "db6cb2a90202a6b6bb30427b94527ff7fe2bf986bb13044882568c7c14aca1e5"
	oidEnc := "06092a864886f70d010706"
	oidData := "06092a864886f70d010701"
	cbc := "06082a811ccf55016802"
	ecb := "06082a811ccf55016801"
	// EncryptedData{0, {data, {SM4-CBC, IV}, [0] ct}} as produced by EncryptUsingPSK (all-zero key)
	try("original", "305f"+oidEnc+"a0523050020100304b"+oidData+"301c"+cbc+"0410"+iv+"8020"+ct)
	try("IV of 15 bytes", "305e"+oidEnc+"a051304f020100304a"+oidData+"301b"+cbc+"040f"+iv[:30]+"8020"+ct)
	try("IV empty", "304f"+oidEnc+"a0423040020100303b"+oidData+"300c"+cbc+"0400"+"8020"+ct)
	try("CBC ciphertext of 31 bytes", "305e"+oidEnc+"a051304f020100304a"+oidData+"301c"+cbc+"0410"+iv+"801f"+ct[:62])
	try("ECB ciphertext of 31 bytes", "304c"+oidEnc+"a03f303d0201003038"+oidData+"300a"+ecb+"801f"+ct[:62])
	try("truncated after length-of-length", "3082")
}
