package main

import (
	"verif/engine"
	"verif/props/c17"
)

func main() { engine.Main(c17.Prop{}) }
