package main

import (
	"verif/engine"
	"verif/props/c18"
)

func main() { engine.Main(c18.Prop{}) }
