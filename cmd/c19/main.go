package main

import (
	"verif/engine"
	"verif/props/c19"
)

func main() { engine.Main(c19.Prop{}) }
