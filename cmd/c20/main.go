package main

import (
	"verif/engine"
	"verif/props/c20"
)

func main() { engine.Main(c20.Prop{}) }
