// mkc20overlay writes rewritten copies of the library's source files for the C20 build and prints the
// go build -overlay "Replace" map for them: (1) the import "sync" of the packages under test is redirected to
// the virtual package github.com/emmansun/gmsm/verifsync (scheduler-aware Once/Mutex/RWMutex); (2) in
// orchestration-level files a verifsync.Yield() scheduling point is inserted at the start of every function
// body. The copies are regenerated from the current tree on every run, so edits to /repo are what is checked.
package main

import (
	"bytes"
	"encoding/json"
	"fmt"
	"go/ast"
	"go/parser"
	"go/token"
	"os"
	"path/filepath"
	"sort"
	"strings"
)

// packages whose "sync" import is redirected (every non-test file)
var syncPkgs = []string{"sm2", "sm2/sm2ec", "ecdh", "sm9", "internal/sm9", "internal/sm9/bn256", "internal/sm2ec", "smx509", "internal/randutil",
	"internal/sm4", "cipher", "internal/sm3", "sm3", "sm4", "kdf", "internal/cipher/xts", "cbcmac", "zuc", "internal/zuc", "drbg", "pkcs7", "pkcs8", "pkcs", "cfca", "padding"}

// files (or directories) that additionally get function-entry yields
var yieldPkgs = []string{"sm2", "ecdh", "sm9", "internal/sm9", "kdf", "sm3", "sm4", "cipher"}
var yieldFiles = []string{"smx509/cert_pool.go", "smx509/verify.go",
	"internal/sm4/cipher_asm.go", "internal/sm4/cipher.go", "internal/sm4/sm4_gcm_asm.go", "internal/sm4/gcm_cipher_asm.go", "internal/sm4/ctr_cipher_asm.go",
	"internal/sm4/cbc_cipher_asm.go", "internal/sm4/ecb_cipher_asm.go", "internal/sm4/sm4_xts.go", "internal/sm4/modes.go",
	"internal/sm3/sm3.go", "internal/sm3/kdf_amd64.go", "internal/sm3/kdf_mult4_asm.go", "internal/sm3/kdf_mult8_amd64.go", "internal/sm3/kdf_generic.go"}

// arithmetic-core functions that get a scheduling point at entry AND at exit (deferred): the structural operations
// that may normalise or fill a caller-visible object. A preemption right after such a function returned lets the
// race detector compare its stores with another thread's accesses while they are still in the detector's history
// (after a whole pairing they are not), and lets result comparison see a half-updated shared object.
// file -> receiver type ("" = plain functions) -> names ("*" = every exported method)
var exitYield = map[string]map[string][]string{
	"internal/sm9/bn256/g1.go":      {"G1": {"Marshal", "MarshalUncompressed", "MarshalCompressed", "Unmarshal", "UnmarshalCompressed", "ScalarMult", "ScalarBaseMult", "fillBytes"}},
	"internal/sm9/bn256/g2.go":      {"G2": {"Marshal", "MarshalUncompressed", "MarshalCompressed", "Unmarshal", "UnmarshalCompressed", "ScalarMult", "ScalarBaseMult", "fillBytes"}},
	"internal/sm9/bn256/gt.go":      {"": {"Pair", "Miller"}, "GT": {"Marshal", "Unmarshal", "Finalize"}},
	"internal/sm9/bn256/bn_pair.go": {"": {"miller", "pairing", "finalExponentiation"}},
	"internal/sm9/bn256/twist.go":   {"twistPoint": {"MakeAffine", "AffineFromJacobian"}},
	"internal/sm9/bn256/curve.go":   {"curvePoint": {"MakeAffine", "AffineFromJacobian", "AffineFromProjective"}},
	"internal/sm2ec/sm2p256_asm.go": {"SM2P256Point": {"ScalarMult", "ScalarBaseMult", "SetBytes", "Bytes", "BytesX", "BytesCompressed", "SetGenerator"}},
	"internal/sm2ec/sm2p256.go":     {"SM2P256Point": {"ScalarMult", "ScalarBaseMult", "SetBytes", "Bytes", "BytesX", "BytesCompressed", "SetGenerator"}},
}

// stmtYield lists files whose functions get a scheduling point before EVERY top-level statement: Go functions that
// orchestrate a chain of assembly calls over temporaries. The stores of those calls are invisible to the race detector,
// so a temporary hoisted to package scope there can only be seen through a wrong result, i.e. by pre-empting a thread
// between two of the calls.
var stmtYield = map[string]bool{
	"internal/sm2ec/p256_asm_ord.go": true,
	// helpers over process-wide modulus objects (the SM9 and SM2 group orders are package-level singletons handed to
	// every call): a helper that borrows the shared modulus as scratch and restores it is invisible to the race detector
	// (the functions are //go:norace) and to every sequential run
	"internal/bigmod/nat_extension.go": true,
}

// stmtYieldFuncs: the same, for single functions of larger files (field inversion and square-root chains, the curve
// polynomial of the on-curve check)
var stmtYieldFuncs = map[string]map[string]bool{
	"internal/sm2ec/sm2p256_asm.go": {"p256Sqrt": true, "p256Polynomial": true, "p256CheckOnCurve": true, "p256Inverse": true},
	"internal/sm2ec/p256_asm.go":    {"p256Inverse": true, "p256Sqrt": true},
}

func recvType(fd *ast.FuncDecl) string {
	if fd.Recv == nil || len(fd.Recv.List) == 0 {
		return ""
	}
	t := fd.Recv.List[0].Type
	if st, ok := t.(*ast.StarExpr); ok {
		t = st.X
	}
	if id, ok := t.(*ast.Ident); ok {
		return id.Name
	}
	return "?"
}

func wantsExitYield(rel string, fd *ast.FuncDecl) bool {
	m, ok := exitYield[rel]
	if !ok {
		return false
	}
	names, ok := m[recvType(fd)]
	if !ok {
		return false
	}
	for _, n := range names {
		if n == fd.Name.Name || (n == "*" && ast.IsExported(fd.Name.Name) && fd.Name.Name != "String") {
			return true
		}
	}
	return false
}

const hookPath = "github.com/emmansun/gmsm/verifsync"
const atomicHookPath = "github.com/emmansun/gmsm/verifatomic"

func main() {
	repo, gen := os.Args[1], os.Args[2]
	gen, _ = filepath.Abs(gen)
	out := filepath.Join(gen, "c20src")
	os.RemoveAll(out)
	replace := map[string]string{}
	yieldFile := map[string]bool{}
	for _, f := range yieldFiles {
		yieldFile[f] = true
	}
	yieldPkg := map[string]bool{}
	for _, p := range yieldPkgs {
		yieldPkg[p] = true
	}
	dirs := map[string]bool{}
	for _, p := range syncPkgs {
		dirs[p] = true
	}
	for _, f := range yieldFiles {
		dirs[filepath.Dir(f)] = true
	}
	for p := range yieldPkg {
		dirs[p] = true
	}
	for f := range exitYield {
		dirs[filepath.Dir(f)] = true
	}
	for f := range stmtYield {
		dirs[filepath.Dir(f)] = true
	}
	for f := range stmtYieldFuncs {
		dirs[filepath.Dir(f)] = true
	}
	var dl []string
	for d := range dirs {
		dl = append(dl, d)
	}
	sort.Strings(dl)
	nSync, nYield, nExit, nNorace := 0, 0, 0, 0
	for _, d := range dl {
		ents, err := os.ReadDir(filepath.Join(repo, d))
		if err != nil {
			continue
		}
		for _, e := range ents {
			name := e.Name()
			if e.IsDir() || !strings.HasSuffix(name, ".go") || strings.HasSuffix(name, "_test.go") {
				continue
			}
			rel := filepath.Join(d, name)
			src, err := os.ReadFile(filepath.Join(repo, rel))
			if err != nil {
				continue
			}
			if strings.Contains(string(src[:min(len(src), 400)]), "go:build ignore") {
				continue
			}
			fset := token.NewFileSet()
			f, err := parser.ParseFile(fset, rel, src, parser.ParseComments)
			if err != nil {
				fmt.Fprintf(os.Stderr, "mkc20overlay: skip %s: %v\n", rel, err)
				continue
			}
			type edit struct {
				off  int
				del  int
				text string
			}
			var edits []edit
			redirect := false
			for _, is := range f.Imports {
				if is.Path.Value == `"sync/atomic"` {
					// every atomic operation becomes a scheduling point (the operation itself stays the real one)
					redirect = true
					off := fset.Position(is.Path.Pos()).Offset
					txt := `"` + atomicHookPath + `"`
					if is.Name == nil {
						txt = "atomic " + txt
					}
					edits = append(edits, edit{off, len(is.Path.Value), txt})
					nSync++
				}
				if is.Path.Value == `"sync"` {
					redirect = true
					off := fset.Position(is.Path.Pos()).Offset
					txt := `"` + hookPath + `"`
					if is.Name == nil {
						txt = "sync " + txt
					}
					edits = append(edits, edit{off, len(is.Path.Value), txt})
					nSync++
				}
			}
			doYield := yieldPkg[d] || yieldFile[rel] || stmtYield[rel]
			stmtFiles := map[string]bool{}
			_, hasExit := exitYield[rel]
			inserted, stmtInserted := 0, 0
			if stmtYield[rel] || stmtYieldFuncs[rel] != nil {
				for _, decl := range f.Decls {
					fd, ok := decl.(*ast.FuncDecl)
					if !ok || fd.Body == nil || fd.Name.Name == "init" || len(fd.Body.List) < 2 {
						continue
					}
					if !stmtYield[rel] && !stmtYieldFuncs[rel][fd.Name.Name] {
						continue
					}
					stmtFiles[rel] = true
					for _, st := range fd.Body.List[1:] {
						if _, isDecl := st.(*ast.DeclStmt); isDecl {
							continue
						}
						edits = append(edits, edit{fset.Position(st.Pos()).Offset, 0, "verifsyncY_.Yield();"})
						nYield++
						stmtInserted++
					}
				}
			}
			if doYield || hasExit {
				for _, decl := range f.Decls {
					fd, ok := decl.(*ast.FuncDecl)
					if !ok || fd.Body == nil {
						continue
					}
					exitToo := wantsExitYield(rel, fd)
					if !doYield && !exitToo {
						continue
					}
					skip := false
					if fd.Doc != nil {
						for _, c := range fd.Doc.List {
							if strings.HasPrefix(c.Text, "//go:nosplit") || strings.HasPrefix(c.Text, "//go:norace") || strings.HasPrefix(c.Text, "//go:noescape") {
								skip = true
							}
						}
					}
					if fd.Name.Name == "init" || skip {
						continue
					}
					off := fset.Position(fd.Body.Lbrace).Offset + 1
					if exitToo {
						edits = append(edits, edit{off, 0, "verifsyncY_.Yield();defer verifsyncY_.Yield();"})
						nExit++
					} else {
						edits = append(edits, edit{off, 0, "verifsyncY_.Yield();"})
					}
					inserted++
				}
			}
			if inserted+stmtInserted > 0 {
				// add the import right after the package clause (same line: keeps line numbers)
				off := fset.Position(f.Name.End()).Offset
				edits = append(edits, edit{off, 0, `; import verifsyncY_ "` + hookPath + `"`})
				nYield += inserted
			}
			if !redirect && inserted+stmtInserted == 0 && !bytes.Contains(src, []byte("//go:norace")) {
				continue
			}
			// the blind spots the code under test declares for the race detector (//go:norace, there for speed) are removed
			// in the instrumented copy: same length, so no offset moves
			noraceRemoved := bytes.Count(src, []byte("//go:norace"))
			if noraceRemoved > 0 {
				src = bytes.ReplaceAll(src, []byte("//go:norace"), []byte("//xx:norace"))
				nNorace += noraceRemoved
			}
			sort.Slice(edits, func(i, j int) bool { return edits[i].off > edits[j].off })
			b := append([]byte{}, src...)
			for _, ed := range edits {
				b = append(b[:ed.off], append([]byte(ed.text), b[ed.off+ed.del:]...)...)
			}
			dst := filepath.Join(out, rel)
			os.MkdirAll(filepath.Dir(dst), 0o755)
			if err := os.WriteFile(dst, b, 0o644); err != nil {
				fmt.Fprintln(os.Stderr, err)
				os.Exit(1)
			}
			replace[filepath.Join(repo, rel)] = dst
		}
	}
	fmt.Fprintf(os.Stderr, "mkc20overlay: %d files rewritten, %d sync imports redirected, %d function-entry yields (%d of them with an exit yield too), %d //go:norace directives removed\n", len(replace), nSync, nYield, nExit, nNorace)
	json.NewEncoder(os.Stdout).Encode(replace)
}
