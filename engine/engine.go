// Package engine is the shared core of the bounded-exhaustive explorers: a deterministic case
// enumerator with crash-isolated, sharded worker sub-processes, one worker set per dispatch
// configuration, violation confirmation by re-execution, known-finding matching, replay files and
// evidence output. See /verif/DESIGN.md §2.
package engine

import (
	"bufio"
	"encoding/json"
	"fmt"
	"hash/fnv"
	"os"
	"os/exec"
	"path/filepath"
	"runtime"
	"runtime/debug"
	"sort"
	"strconv"
	"strings"
	"sync"
	"sync/atomic"
	"syscall"
	"time"
)

// Config is one dispatch configuration (DESIGN §2.2).
type Config struct {
	Name    string
	Env     []string
	Variant string // "default", "purego", "race"
}

var configs = map[string]Config{
	"c-default": {Name: "c-default", Variant: "default"},
	"c-noavx2":  {Name: "c-noavx2", Env: []string{"GODEBUG=cpu.avx2=off"}, Variant: "default"},
	"c-sse":     {Name: "c-sse", Env: []string{"GODEBUG=cpu.avx2=off,cpu.avx=off"}, Variant: "default"},
	"c-scalar":  {Name: "c-scalar", Env: []string{"GODEBUG=cpu.avx2=off,cpu.avx=off,cpu.ssse3=off"}, Variant: "default"},
	"c-nobmi2":  {Name: "c-nobmi2", Env: []string{"GODEBUG=cpu.bmi2=off,cpu.adx=off"}, Variant: "default"},
	// "inconsistent" single-flag settings (the cpu options do not cascade): AVX2 still on with AVX off, AVX on with SSSE3 off.
	// A dispatch that tests the flags in another order than the code that sizes its batches only shows here.
	"c-avxoff":   {Name: "c-avxoff", Env: []string{"GODEBUG=cpu.avx=off"}, Variant: "default"},
	"c-ssse3off": {Name: "c-ssse3off", Env: []string{"GODEBUG=cpu.ssse3=off"}, Variant: "default"},
	"c-nopclmul": {Name: "c-nopclmul", Env: []string{"GODEBUG=cpu.pclmulqdq=off"}, Variant: "default"},
	"c-noaes":    {Name: "c-noaes", Env: []string{"GODEBUG=cpu.aes=off"}, Variant: "default"},
	"c-aesni1":   {Name: "c-aesni1", Env: []string{"FORCE_SM4BLOCK_AESNI=1"}, Variant: "default"},
	"c-purego":   {Name: "c-purego", Variant: "purego"},
	"c-race":     {Name: "c-race", Variant: "race"},
	// race-detector build on other dispatch tiers (shared cipher/AEAD objects differ per tier)
	"c-race-nopclmul": {Name: "c-race-nopclmul", Env: []string{"GODEBUG=cpu.pclmulqdq=off"}, Variant: "race"},
	"c-race-noaes":    {Name: "c-race-noaes", Env: []string{"GODEBUG=cpu.aes=off"}, Variant: "race"},
	"c-race-noavx2":   {Name: "c-race-noavx2", Env: []string{"GODEBUG=cpu.avx2=off"}, Variant: "race"},
	"c-race-aesni1":   {Name: "c-race-aesni1", Env: []string{"FORCE_SM4BLOCK_AESNI=1"}, Variant: "race"},
	// race-detector build of the pure-Go code paths: there every store is visible to the detector (assembly is not instrumented)
	"c-race-purego": {Name: "c-race-purego", Variant: "racepurego"},
}

// AllTiers lists every dispatch configuration reachable on this host, in a fixed order.
var AllTiers = []string{"c-default", "c-noavx2", "c-sse", "c-scalar", "c-nobmi2", "c-nopclmul", "c-noaes", "c-aesni1", "c-purego", "c-avxoff"}

// Property is implemented by each per-property driver.
type Property interface {
	ID() string
	Level() string // exploration | fault_enumeration | model_checking
	Configs(tier string) []string
	SelfTest() error // validates the reference models against embedded standard vectors
	Run(c *Ctx)      // enumerates all cases (deterministically) through c.Case
	Rule() string
	Assumptions() []string
}

// Isolated may be implemented by a Property whose cases must each run in a process of their own (the race detector
// reports a given race once per process, so a report must not be able to hide behind an earlier case).
type Isolated interface{ IsolateCases() bool }

// Violation is one observed property violation.
type Violation struct {
	Config string `json:"config"`
	Case   string `json:"case"`
	Key    string `json:"key"`    // finding key: names the failing shape, not the single input
	Detail string `json:"detail"` // expected vs observed
}

// Stats is what a worker reports at its end.
type Stats struct {
	Cases       int              `json:"cases"`
	Evaluations int64            `json:"evaluations"`
	Nontrivial  []uint64         `json:"nontrivial"` // hashes of distinct non-trivial case classes
	Outcomes    []uint64         `json:"outcomes"`   // hashes of distinct observed outcomes
	States      int64            `json:"states"`
	Transitions int64            `json:"transitions"`
	Traces      int64            `json:"traces"`
	Samples     []any            `json:"samples"`
	Capped      bool             `json:"capped"`
	CapNote     string           `json:"cap_note,omitempty"`
	Extra       map[string]int64 `json:"extra,omitempty"`
}

// Ctx is handed to Property.Run inside a worker.
type Ctx struct {
	Tier     string
	Config   string
	Shard    int
	NShards  int
	Only     string // when set: run only the case of this name (replay)
	After    int    // skip all case indices <= After (restart after a crash)
	Deadline time.Time

	idx        int
	listOnly   bool
	out        *bufio.Writer
	stats      Stats
	nontrivial map[uint64]struct{}
	outcomes   map[uint64]struct{}
	cur        *T
	lastBeat   time.Time
}

// T is the per-case handle.
type T struct {
	c    *Ctx
	Name string
	viol []Violation
}

func h64(s string) uint64 { h := fnv.New64a(); h.Write([]byte(s)); return h.Sum64() }

// Quick reports whether the quick tier is running.
func (c *Ctx) Quick() bool { return c.Tier != "thorough" }

// Case runs fn as one crash-isolated, replayable case. Names must be deterministic and unique.
func (c *Ctx) Case(name string, fn func(t *T)) {
	i := c.idx
	c.idx++
	if c.listOnly {
		fmt.Fprintf(c.out, "L %d %s\n", i, name)
		return
	}
	if c.Only != "" {
		if name != c.Only {
			return
		}
	} else {
		if i%c.NShards != c.Shard || i <= c.After {
			return
		}
		if !c.Deadline.IsZero() && time.Now().After(c.Deadline) {
			if !c.stats.Capped {
				c.stats.Capped = true
				c.stats.CapNote = fmt.Sprintf("time budget reached before case #%d %s", i, name)
			}
			return
		}
	}
	fmt.Fprintf(c.out, "S %d %s\n", i, name)
	c.out.Flush()
	c.lastBeat = time.Now()
	t := &T{c: c, Name: name}
	c.cur = t
	func() {
		defer func() {
			if r := recover(); r != nil {
				fr := topFrame(debug.Stack())
				t.viol = append(t.viol, Violation{Key: "panic@" + fr, Detail: fmt.Sprintf("panic: %v", r)})
			}
		}()
		fn(t)
	}()
	c.stats.Cases++
	seen := map[string]bool{}
	for _, v := range t.viol {
		if seen[v.Key] { // one report per key and case
			continue
		}
		seen[v.Key] = true
		v.Case = name
		v.Config = c.Config
		b, _ := json.Marshal(v)
		fmt.Fprintf(c.out, "V %s\n", b)
	}
	fmt.Fprintf(c.out, "E %d %d %d\n", i, c.stats.Cases, c.stats.Evaluations)
	c.out.Flush()
}

// Fail records a violation under a finding key.
func (t *T) Fail(key, format string, a ...any) {
	d := fmt.Sprintf(format, a...)
	if len(d) > 1500 {
		d = d[:1500] + "…"
	}
	t.viol = append(t.viol, Violation{Key: key, Detail: d})
}

// Failed reports whether the case already has a violation.
func (t *T) Failed() bool { return len(t.viol) > 0 }

// Guard runs fn and converts a panic into a violation with key prefix+"/panic@frame". Returns true on panic.
func (t *T) Guard(prefix string, fn func()) (panicked bool) {
	defer func() {
		if r := recover(); r != nil {
			fr := topFrame(debug.Stack())
			t.Fail(prefix+"/panic@"+fr, "panic: %v", r)
			panicked = true
		}
	}()
	fn()
	return false
}

// Eval counts n evaluations (inputs tried / executions run).
//
// Every evaluation is also a sign of life: a case may enumerate for longer than the watchdog period as long as the
// library calls it makes keep returning. The watchdog is about a call that does not terminate, not about the size of
// an enumeration, so a heartbeat line (at most one per 10 s) re-arms it.
func (t *T) Eval(n int) {
	t.c.stats.Evaluations += int64(n)
	if now := time.Now(); now.Sub(t.c.lastBeat) > 10*time.Second {
		t.c.lastBeat = now
		if t.c.out != nil {
			fmt.Fprintf(t.c.out, "H 1\n")
			t.c.out.Flush()
		}
	}
}

// Nontrivial records a distinct non-trivial case class (counted distinct by its string).
func (t *T) Nontrivial(class string) { t.c.nontrivial[h64(class)] = struct{}{} }

// Outcome records a distinct observed outcome (guards against vacuous exploration).
func (t *T) Outcome(o string) { t.c.outcomes[h64(o)] = struct{}{} }

// Sample records an actual case (the first few are kept).
func (t *T) Sample(v any) {
	if len(t.c.stats.Samples) < 4 {
		t.c.stats.Samples = append(t.c.stats.Samples, v)
	}
}

// AddStates / AddTransitions / AddTraces are used by the explicit-state search.
func (t *T) AddStates(n int)      { t.c.stats.States += int64(n) }
func (t *T) AddTransitions(n int) { t.c.stats.Transitions += int64(n) }
func (t *T) AddTraces(n int)      { t.c.stats.Traces += int64(n) }
func (t *T) Extra(k string, n int) {
	if t.c.stats.Extra == nil {
		t.c.stats.Extra = map[string]int64{}
	}
	t.c.stats.Extra[k] += int64(n)
}
func (t *T) Cap(note string) { t.c.stats.Capped = true; t.c.stats.CapNote = note }
func (t *T) Quick() bool     { return t.c.Quick() }
func (t *T) Config() string  { return t.c.Config }

// topFrame extracts the innermost github.com/emmansun/gmsm frame (function name) of a stack dump,
// falling back to the innermost non-runtime, non-engine frame.
func topFrame(stack []byte) string {
	lines := strings.Split(string(stack), "\n")
	fallback := ""
	for _, l := range lines {
		if strings.HasPrefix(l, "\t") || l == "" || strings.HasPrefix(l, "goroutine ") {
			continue
		}
		fn := l
		if i := strings.LastIndex(fn, "("); i > 0 {
			fn = fn[:i]
		}
		if strings.HasPrefix(fn, "runtime") || strings.HasPrefix(fn, "panic") || strings.Contains(fn, "verif/engine") || strings.HasPrefix(fn, "created by") {
			continue
		}
		if strings.Contains(fn, "github.com/emmansun/gmsm/") {
			fn = strings.TrimPrefix(fn, "github.com/emmansun/gmsm/")
			// strip closure suffixes and generic instantiation noise
			fn = strings.TrimSuffix(fn, "[...]")
			return fn
		}
		if fallback == "" && !strings.HasPrefix(fn, "verif/") && !strings.HasPrefix(fn, "main.") {
			fallback = fn
		}
	}
	if fallback == "" {
		fallback = "unknown"
	}
	return fallback
}

// ---------------------------------------------------------------------------------------------
// worker side

func workerMain(p Property, args []string) {
	c := &Ctx{After: -1, NShards: 1, nontrivial: map[uint64]struct{}{}, outcomes: map[uint64]struct{}{}}
	for i := 0; i+1 < len(args); i += 2 {
		switch args[i] {
		case "--tier":
			c.Tier = args[i+1]
		case "--config":
			c.Config = args[i+1]
		case "--shard":
			fmt.Sscanf(args[i+1], "%d/%d", &c.Shard, &c.NShards)
		case "--only":
			c.Only = args[i+1]
		case "--list":
			c.listOnly = args[i+1] == "1"
		case "--after":
			c.After, _ = strconv.Atoi(args[i+1])
		case "--deadline":
			u, _ := strconv.ParseInt(args[i+1], 10, 64)
			if u > 0 {
				c.Deadline = time.Unix(u, 0)
			}
		}
	}
	c.out = bufio.NewWriterSize(os.Stdout, 1<<16)
	debug.SetTraceback("all")
	p.Run(c)
	c.stats.Nontrivial = keys(c.nontrivial)
	c.stats.Outcomes = keys(c.outcomes)
	b, _ := json.Marshal(c.stats)
	fmt.Fprintf(c.out, "R %s\n", b)
	c.out.Flush()
}

func keys(m map[uint64]struct{}) []uint64 {
	r := make([]uint64, 0, len(m))
	for k := range m {
		r = append(r, k)
	}
	return r
}

// ---------------------------------------------------------------------------------------------
// parent side

type knownFinding struct{ key, what string }

func loadKnown(id string) []knownFinding {
	var r []knownFinding
	b, err := os.ReadFile(filepath.Join(verifDir(), "KNOWN_FINDINGS.txt"))
	if err != nil {
		return nil
	}
	for _, l := range strings.Split(string(b), "\n") {
		l = strings.TrimSpace(l)
		if !strings.HasPrefix(l, "known:") {
			continue
		}
		f := strings.Fields(l)
		if len(f) < 3 || f[1] != "property="+id || !strings.HasPrefix(f[2], "key=") {
			continue
		}
		r = append(r, knownFinding{key: strings.TrimPrefix(f[2], "key="), what: strings.Join(f[3:], " ")})
	}
	return r
}

func verifDir() string {
	if d := os.Getenv("VERIF_DIR"); d != "" {
		return d
	}
	return "/verif"
}

func outDir() string {
	if d := os.Getenv("VERIF_OUT"); d != "" {
		return d
	}
	return verifDir()
}

func genDir() string {
	if d := os.Getenv("VERIF_GEN"); d != "" {
		return d
	}
	return filepath.Join(verifDir(), ".gen")
}

func binFor(variant string) string {
	self, _ := os.Executable()
	base := strings.TrimSuffix(self, filepath.Ext(self))
	// binaries are named <id>-<variant>
	if i := strings.LastIndex(base, "-"); i > 0 {
		return base[:i] + "-" + variant
	}
	return self
}

type workerResult struct {
	stats   []Stats
	viols   []Violation
	crashes int
}

const caseWatchdog = 300 * time.Second

// afterHangWatchdog applies to all workers once one hang has been observed in this run.
const afterHangWatchdog = 45 * time.Second

var hangSeen atomic.Bool

// confirmWatchdog applies when a single case is re-run alone (confirmation of a hang, replay)
const confirmWatchdog = 150 * time.Second

// runWorker runs one (config, shard) worker to completion, restarting it after crashes.
func runWorker(p Property, cfg Config, tier string, shard, nshards int, deadline time.Time, only string) workerResult {
	var res workerResult
	after := -1
	nHangs := 0
	for attempt := 0; attempt < 200; attempt++ {
		args := []string{"worker", "--tier", tier, "--config", cfg.Name, "--shard", fmt.Sprintf("%d/%d", shard, nshards), "--after", strconv.Itoa(after)}
		if !deadline.IsZero() {
			args = append(args, "--deadline", strconv.FormatInt(deadline.Unix(), 10))
		}
		if only != "" {
			args = append(args, "--only", only)
		}
		cmd := exec.Command(binFor(cfg.Variant), args...)
		cmd.Env = append(os.Environ(), cfg.Env...)
		cmd.Env = append(cmd.Env, "GOTRACEBACK=all")
		if !strings.HasPrefix(cfg.Variant, "race") {
			cmd.Env = append(cmd.Env, "GOMAXPROCS=2")
		} else {
			// controlled scheduler: one OS thread; race reports go to a per-process log the worker inspects after every execution
			dir := filepath.Join(genDir(), "race")
			os.MkdirAll(dir, 0o755)
			cmd.Env = append(cmd.Env, "GOMAXPROCS=1", "VERIF_RACE_LOG="+filepath.Join(dir, "r"),
				"GORACE=halt_on_error=0 exitcode=0 history_size=7 log_path="+filepath.Join(dir, "r"))
		}
		stdout, _ := cmd.StdoutPipe()
		var errBuf tailBuf
		cmd.Stderr = &errBuf
		if err := cmd.Start(); err != nil {
			fmt.Fprintf(os.Stderr, "HARNESS-ERROR cannot start worker %s: %v\n", binFor(cfg.Variant), err)
			os.Exit(2)
		}
		var mu sync.Mutex
		curIdx, curName, lastStart := -1, "", time.Now()
		inCase := false
		done := make(chan struct{})
		hung := false
		go func() {
			tk := time.NewTicker(2 * time.Second)
			defer tk.Stop()
			for {
				select {
				case <-done:
					return
				case <-tk.C:
					mu.Lock()
					wd := caseWatchdog
					if only != "" {
						wd = confirmWatchdog
					}
					if hangSeen.Load() && wd > afterHangWatchdog {
						wd = afterHangWatchdog // a hang has been demonstrated already: do not pay full price for every further one
					}
					if inCase && !hung && time.Since(lastStart) > wd {
						hung = true
						hangSeen.Store(true)
						cmd.Process.Signal(syscall.SIGQUIT) // goroutine dump on stderr names the frame that spins
						go func(p *os.Process) { time.Sleep(8 * time.Second); p.Signal(syscall.SIGKILL) }(cmd.Process)
					}
					mu.Unlock()
				}
			}
		}()
		gotR := false
		var partCases int
		var partEvals int64
		sc := bufio.NewScanner(stdout)
		sc.Buffer(make([]byte, 1<<20), 1<<28)
		for sc.Scan() {
			l := sc.Text()
			if len(l) < 2 {
				continue
			}
			if d := os.Getenv("VERIF_DEBUG_V"); d != "" && d != "1" && strings.Contains(only, d) {
				x := l
				if len(x) > 600 {
					x = x[:600]
				}
				fmt.Fprintf(os.Stderr, "DEBUG-L %s %s\n", cfg.Name, x)
			}
			switch l[0] {
			case 'S':
				f := strings.SplitN(l[2:], " ", 2)
				mu.Lock()
				curIdx, _ = strconv.Atoi(f[0])
				if len(f) > 1 {
					curName = f[1]
				}
				lastStart = time.Now()
				inCase = true
				mu.Unlock()
				if os.Getenv("VERIF_DEBUG_V") != "" {
					fmt.Fprintf(os.Stderr, "DEBUG-S config=%s %s env=%v\n", cfg.Name, l, cfg.Env)
				}
			case 'H':
				mu.Lock()
				lastStart = time.Now()
				mu.Unlock()
			case 'E':
				mu.Lock()
				inCase = false
				mu.Unlock()
				var ei int
				fmt.Sscanf(l[2:], "%d %d %d", &ei, &partCases, &partEvals)
			case 'V':
				var v Violation
				if json.Unmarshal([]byte(l[2:]), &v) == nil {
					res.viols = append(res.viols, v)
					if os.Getenv("VERIF_DEBUG_V") != "" {
						fmt.Fprintf(os.Stderr, "DEBUG-V config=%s case=%s key=%s\n", v.Config, v.Case, v.Key)
					}
				}
			case 'R':
				var s Stats
				if json.Unmarshal([]byte(l[2:]), &s) == nil {
					res.stats = append(res.stats, s)
					gotR = true
				}
			}
		}
		err := cmd.Wait()
		close(done)
		if gotR && err == nil {
			return res
		}
		// the worker died: attribute to the case in flight; keep the counts of what it had finished
		res.crashes++
		res.stats = append(res.stats, Stats{Cases: partCases, Evaluations: partEvals, Capped: true, CapNote: "worker died; distinct-class sets of that attempt are lost"})
		mu.Lock()
		ci, cn, ic := curIdx, curName, inCase
		mu.Unlock()
		if !ic && ci < 0 {
			fmt.Fprintf(os.Stderr, "HARNESS-ERROR worker %s shard %d died outside any case: %v\n%s\n", cfg.Name, shard, err, errBuf.String())
			os.Exit(2)
		}
		kind := "crash"
		if hung {
			kind = "hang"
		}
		tail := errBuf.String()
		os.MkdirAll(genDir(), 0o755)
		os.WriteFile(filepath.Join(genDir(), fmt.Sprintf("crash-%s-%s-%d-%d.log", p.ID(), cfg.Name, shard, attempt)), []byte(fmt.Sprintf("case #%d %s\nerr=%v\n%s", ci, cn, err, tail)), 0o644)
		key := kind + "@" + crashFrame(tail)
		res.viols = append(res.viols, Violation{Config: cfg.Name, Case: cn, Key: key, Detail: fmt.Sprintf("worker died (%v) while executing the case; stderr head: %s", err, firstLines(tail, 6))})
		if only != "" {
			return res
		}
		if hung {
			nHangs++
			if nHangs >= 6 {
				res.stats = append(res.stats, Stats{Capped: true, CapNote: fmt.Sprintf("shard %d of %s abandoned after %d hanging cases", shard, cfg.Name, nHangs)})
				return res
			}
		}
		after = ci
	}
	return res
}

type tailBuf struct {
	mu sync.Mutex
	b  []byte
}

func (t *tailBuf) Write(p []byte) (int, error) {
	t.mu.Lock()
	defer t.mu.Unlock()
	if len(t.b) < 1<<16 {
		t.b = append(t.b, p...)
	}
	return len(p), nil
}
func (t *tailBuf) String() string { t.mu.Lock(); defer t.mu.Unlock(); return string(t.b) }

func firstLines(s string, n int) string {
	l := strings.Split(s, "\n")
	if len(l) > n {
		l = l[:n]
	}
	return strings.Join(l, " | ")
}

// crashFrame finds the first gmsm frame in a fatal-error traceback.
func crashFrame(stderr string) string {
	i := strings.Index(stderr, "goroutine ")
	if i < 0 {
		return "unknown"
	}
	return topFrame([]byte(stderr[i:]))
}

// listCases asks a worker of the configuration for its case names (nothing is executed).
func listCases(cfg Config, tier string) ([]string, error) {
	cmd := exec.Command(binFor(cfg.Variant), "worker", "--tier", tier, "--config", cfg.Name, "--list", "1")
	cmd.Env = append(os.Environ(), cfg.Env...)
	out, err := cmd.Output()
	if err != nil {
		return nil, err
	}
	var names []string
	for _, l := range strings.Split(string(out), "\n") {
		if strings.HasPrefix(l, "L ") {
			f := strings.SplitN(l[2:], " ", 2)
			if len(f) == 2 {
				names = append(names, f[1])
			}
		}
	}
	return names, nil
}

// Main is the entry point of every per-property binary.
func Main(p Property) {
	if len(os.Args) < 2 {
		fmt.Fprintf(os.Stderr, "usage: %s check --tier quick|thorough | replay <file> | selftest | worker …\n", os.Args[0])
		os.Exit(2)
	}
	switch os.Args[1] {
	case "worker":
		workerMain(p, os.Args[2:])
	case "selftest":
		if err := p.SelfTest(); err != nil {
			fmt.Fprintf(os.Stderr, "HARNESS-ERROR reference self-test failed: %v\n", err)
			os.Exit(2)
		}
		fmt.Println("selftest ok")
	case "check":
		tier := "quick"
		if t := os.Getenv("VERIF_TIER"); t == "quick" || t == "thorough" {
			tier = t
		}
		for i := 2; i+1 < len(os.Args); i++ {
			if os.Args[i] == "--tier" {
				tier = os.Args[i+1]
			}
		}
		os.Exit(checkMain(p, tier))
	case "replay":
		if len(os.Args) < 3 {
			os.Exit(2)
		}
		os.Exit(replayMain(p, os.Args[2]))
	default:
		os.Exit(2)
	}
}

type replayFile struct {
	Property string `json:"property"`
	Tier     string `json:"tier"`
	Violation
	Replay string `json:"replay_cmd"`
}

func replayMain(p Property, path string) int {
	b, err := os.ReadFile(path)
	if err != nil {
		fmt.Fprintln(os.Stderr, err)
		return 2
	}
	var rf replayFile
	if err := json.Unmarshal(b, &rf); err != nil {
		fmt.Fprintln(os.Stderr, err)
		return 2
	}
	cfg, ok := configs[rf.Config]
	if !ok {
		fmt.Fprintf(os.Stderr, "unknown config %q\n", rf.Config)
		return 2
	}
	res := runWorker(p, cfg, rf.Tier, 0, 1, time.Time{}, rf.Case)
	hit := false
	for _, v := range res.viols {
		fmt.Printf("reproduced: config=%s case=%s key=%s\n  %s\n", v.Config, v.Case, v.Key, v.Detail)
		if v.Key == rf.Key {
			hit = true
		}
	}
	if hit {
		for _, kf := range loadKnown(p.ID()) {
			if kf.key == rf.Key {
				fmt.Printf("KNOWN-FINDING: property=%s key=%s %s (reproduced from %s)\n", p.ID(), kf.key, kf.what, path)
				return 0
			}
		}
		fmt.Printf("VIOLATION property=%s replay=%s\n", p.ID(), path)
		return 1
	}
	fmt.Println("not reproduced (property held on this case)")
	return 0
}

func checkMain(p Property, tier string) int {
	start := time.Now()
	id := p.ID()
	if err := p.SelfTest(); err != nil {
		fmt.Fprintf(os.Stderr, "HARNESS-ERROR reference self-test failed: %v\n", err)
		return 2
	}
	seed := 0
	if s := os.Getenv("VERIF_SEED"); s != "" {
		seed, _ = strconv.Atoi(s)
	}
	budget := 20 * time.Minute
	if tier == "thorough" {
		budget = 100 * time.Minute
	}
	if s := os.Getenv("VERIF_BUDGET_S"); s != "" {
		if n, err := strconv.Atoi(s); err == nil && n > 0 {
			budget = time.Duration(n) * time.Second
		}
	}
	deadline := start.Add(budget)
	cfgNames := p.Configs(tier)
	ncpu := runtime.NumCPU()
	nshards := (ncpu + len(cfgNames) - 1) / len(cfgNames)
	if nshards < 1 {
		nshards = 1
	}
	if s := os.Getenv("VERIF_SHARDS"); s != "" {
		if n, err := strconv.Atoi(s); err == nil && n > 0 {
			nshards = n
		}
	}
	type job struct {
		cfg   Config
		shard int
		only  string
	}
	var jobs []job
	for s := 0; s < nshards; s++ {
		for _, n := range cfgNames {
			cfg, ok := configs[n]
			if !ok {
				fmt.Fprintf(os.Stderr, "HARNESS-ERROR unknown config %s\n", n)
				return 2
			}
			jobs = append(jobs, job{cfg: cfg, shard: s})
		}
	}
	isolate := false
	if iso, ok := p.(Isolated); ok && iso.IsolateCases() {
		isolate = true
		jobs = jobs[:0]
		for _, n := range cfgNames {
			cfg := configs[n]
			names, err := listCases(cfg, tier)
			if err != nil {
				fmt.Fprintf(os.Stderr, "HARNESS-ERROR cannot list cases of %s: %v\n", n, err)
				return 2
			}
			for _, cn := range names {
				jobs = append(jobs, job{cfg: cfg, only: cn})
			}
		}
	}
	results := make([]workerResult, len(jobs))
	sem := make(chan struct{}, ncpu)
	var wg sync.WaitGroup
	for i, j := range jobs {
		wg.Add(1)
		sem <- struct{}{}
		go func(i int, j job) {
			defer wg.Done()
			defer func() { <-sem }()
			if isolate {
				results[i] = runWorker(p, j.cfg, tier, 0, 1, deadline, j.only)
			} else {
				results[i] = runWorker(p, j.cfg, tier, j.shard, nshards, deadline, "")
			}
		}(i, j)
	}
	wg.Wait()

	// merge
	var total Stats
	nontrivial := map[uint64]struct{}{}
	outcomes := map[uint64]struct{}{}
	perCfg := map[string]int64{}
	var viols []Violation
	crashes := 0
	for i, r := range results {
		crashes += r.crashes
		viols = append(viols, r.viols...)
		for _, s := range r.stats {
			total.Cases += s.Cases
			total.Evaluations += s.Evaluations
			total.States += s.States
			total.Transitions += s.Transitions
			total.Traces += s.Traces
			perCfg[jobs[i].cfg.Name] += s.Evaluations
			for _, k := range s.Nontrivial {
				nontrivial[k] = struct{}{}
			}
			for _, k := range s.Outcomes {
				outcomes[k] = struct{}{}
			}
			if len(total.Samples) < 6 {
				for _, x := range s.Samples {
					if len(total.Samples) < 6 {
						total.Samples = append(total.Samples, x)
					}
				}
			}
			if s.Capped {
				total.Capped = true
				total.CapNote = s.CapNote
			}
			for k, v := range s.Extra {
				if total.Extra == nil {
					total.Extra = map[string]int64{}
				}
				total.Extra[k] += v
			}
		}
	}

	// classify violations by key; confirm the first instance of each key 5x
	known := loadKnown(id)
	byKey := map[string][]Violation{}
	var keyOrder []string
	for _, v := range viols {
		if _, ok := byKey[v.Key]; !ok {
			keyOrder = append(keyOrder, v.Key)
		}
		byKey[v.Key] = append(byKey[v.Key], v)
	}
	sort.Strings(keyOrder)
	exit := 0
	nViol, nKnown, nDiscarded := 0, 0, 0
	knownPrinted := map[string]bool{}
	os.MkdirAll(filepath.Join(outDir(), "replays", id), 0o755)
	for _, k := range keyOrder {
		vs := byKey[k]
		var kf *knownFinding
		for i := range known {
			if known[i].key == k {
				kf = &known[i]
			}
		}
		if kf != nil {
			nKnown += len(vs)
			if !knownPrinted[k] {
				knownPrinted[k] = true
				// known findings stay replayable: the first instance is written out like a violation's
				kpath := filepath.Join(outDir(), "replays", id, "known-"+sanitize(k)+".json")
				krf := replayFile{Property: id, Tier: tier, Violation: vs[0], Replay: fmt.Sprintf("scripts/run.sh %s replay %s", id, kpath)}
				if kb, err := json.MarshalIndent(krf, "", " "); err == nil {
					os.WriteFile(kpath, kb, 0o644)
				}
				fmt.Printf("KNOWN-FINDING: property=%s key=%s %s (%d instances, e.g. config=%s case=%s; replay=%s)\n", id, k, kf.what, len(vs), vs[0].Config, vs[0].Case, kpath)
			}
			continue
		}
		// confirm by re-execution: the first instance, and if that does not reproduce, up to three further instances from
		// other (configuration, case) pairs — an observation that is flaky in one case may be deterministic in another
		reruns := 5
		if strings.HasPrefix(k, "hang@") {
			reruns = 2 // each confirmation of a hang costs a full watchdog period
		}
		var v Violation
		ok := false
		tried := map[string]bool{}
		for _, cand := range vs {
			id := cand.Config + "\x00" + cand.Case
			if tried[id] {
				continue
			}
			if len(tried) >= 4 {
				break
			}
			tried[id] = true
			confirmed := 0
			for r := 0; r < reruns; r++ {
				rr := runWorker(p, configs[cand.Config], tier, 0, 1, time.Time{}, cand.Case)
				hit := false
				for _, x := range rr.viols {
					if x.Key == cand.Key {
						hit = true
						break
					}
				}
				if !hit {
					break
				}
				confirmed++
			}
			if confirmed == reruns {
				v, ok = cand, true
				break
			}
			nDiscarded++
			fmt.Fprintf(os.Stderr, "discarded non-deterministic observation key=%s case=%s (%d/%d reproductions)\n", k, cand.Case, confirmed, reruns)
		}
		if !ok {
			continue
		}
		nViol += len(vs)
		path := filepath.Join(outDir(), "replays", id, sanitize(k)+".json")
		rf := replayFile{Property: id, Tier: tier, Violation: v, Replay: fmt.Sprintf("scripts/run.sh %s replay %s", id, path)}
		b, _ := json.MarshalIndent(rf, "", " ")
		os.WriteFile(path, b, 0o644)
		fmt.Printf("VIOLATION property=%s replay=%s\n", id, path)
		fmt.Printf("  key=%s instances=%d config=%s case=%s\n  %s\n", k, len(vs), v.Config, v.Case, v.Detail)
		exit = 1
	}

	exhaustive := !total.Capped && crashes == 0
	cov := map[string]any{
		"evaluations":                   total.Evaluations,
		"distinct_nontrivial":           len(nontrivial),
		"rule":                          p.Rule(),
		"samples":                       total.Samples,
		"exhaustive":                    exhaustive,
		"cases":                         total.Cases,
		"distinct_outcomes":             len(outcomes),
		"configurations":                cfgNames,
		"evaluations_per_configuration": perCfg,
		"worker_crashes":                crashes,
		"known_finding_instances":       nKnown,
		"discarded_nondeterministic":    nDiscarded,
	}
	if total.States > 0 {
		cov["states"] = total.States
		cov["transitions"] = total.Transitions
		cov["traces_validated_against_impl"] = total.Traces
	}
	if total.Capped {
		cov["cap_note"] = total.CapNote
	}
	for k, v := range total.Extra {
		cov[k] = v
	}
	ev := map[string]any{
		"property_id": id,
		"tier":        tier,
		"seed":        seed,
		"level":       p.Level(),
		"coverage":    cov,
		"assumptions": p.Assumptions(),
		"wall_s":      time.Since(start).Seconds(),
		"violations":  nViol,
	}
	b, _ := json.MarshalIndent(ev, "", " ")
	os.MkdirAll(filepath.Join(outDir(), "evidence"), 0o755)
	evName := id + ".json"
	if strings.Contains(total.CapNote, "DEV_FILTER") {
		evName = id + ".partial.json" // a development run restricted by a filter is not evidence: never overwrite the record
	}
	if err := os.WriteFile(filepath.Join(outDir(), "evidence", evName), append(b, '\n'), 0o644); err != nil {
		fmt.Fprintf(os.Stderr, "HARNESS-ERROR cannot write evidence: %v\n", err)
		return 2
	}
	fmt.Printf("%s %s: cases=%d evaluations=%d distinct_nontrivial=%d states=%d transitions=%d outcomes=%d configs=%d exhaustive=%v violations=%d known=%d wall=%.1fs\n",
		id, tier, total.Cases, total.Evaluations, len(nontrivial), total.States, total.Transitions, len(outcomes), len(cfgNames), exhaustive, nViol, nKnown, time.Since(start).Seconds())
	if total.Evaluations == 0 && exit == 0 {
		fmt.Fprintln(os.Stderr, "HARNESS-ERROR nothing was evaluated")
		return 2
	}
	return exit
}

func sanitize(s string) string {
	r := []rune(s)
	for i, c := range r {
		if !(c >= 'a' && c <= 'z' || c >= 'A' && c <= 'Z' || c >= '0' && c <= '9' || c == '-' || c == '.' || c == '_') {
			r[i] = '_'
		}
	}
	if len(r) > 120 {
		r = r[:120]
	}
	return string(r)
}
