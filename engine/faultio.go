package engine

import (
	"errors"
	"io"
)

// Kernel E4: scripted io.Reader whose answers are enumerated by the explorer.

// ErrInjected is the error served by fault answers.
var ErrInjected = errors.New("verif: injected reader fault")

// Answer kinds for one Read call.
const (
	AnsFull     = iota // fill the buffer from the stream
	AnsErr             // (0, ErrInjected)
	AnsEOF             // (0, io.EOF)
	AnsShortEOF        // half of the data, then io.EOF on the next call
	AnsZeroNil         // (0, nil) once, then continue normally (allowed by io.Reader)
	AnsShortNil        // half the data with nil error, then continue (legal short read)
)

// ScriptReader serves 32-byte-or-larger reads from Blocks in order (block lane) and 1-byte reads (the
// randutil.MaybeReadByte coin flip) from a separate lane, so that the block stream an operation sees does
// not depend on the coin. Fault maps the index of a block-lane Read call to a non-default answer.
type ScriptReader struct {
	Blocks [][]byte // consecutive block contents; concatenated they form the stream
	Fill   byte     // content after Blocks are exhausted (a deterministic filler block pattern)
	Fault  map[int]int

	stream   []byte
	pos      int
	Calls    int // number of block-lane Read calls made
	OneByte  int // number of 1-byte reads served
	Consumed int // bytes of the block stream consumed
	pendEOF  bool
	Log      []int // length of each block-lane read request
}

// NewScriptReader builds a reader over the given blocks.
func NewScriptReader(blocks ...[]byte) *ScriptReader {
	r := &ScriptReader{Blocks: blocks, Fill: 0x5a}
	for _, b := range blocks {
		r.stream = append(r.stream, b...)
	}
	return r
}

func (r *ScriptReader) next(n int) []byte {
	for len(r.stream) < r.pos+n {
		// deterministic filler: bytes are a function of the absolute position
		p := len(r.stream)
		r.stream = append(r.stream, r.Fill^byte(p*13+p>>8))
	}
	b := r.stream[r.pos : r.pos+n]
	r.pos += n
	r.Consumed = r.pos
	return b
}

func (r *ScriptReader) Read(p []byte) (int, error) {
	if len(p) == 0 {
		return 0, nil
	}
	if len(p) == 1 {
		// coin-flip lane (randutil.MaybeReadByte)
		r.OneByte++
		p[0] = 0
		return 1, nil
	}
	if r.pendEOF {
		return 0, io.EOF
	}
	call := r.Calls
	r.Calls++
	r.Log = append(r.Log, len(p))
	ans := AnsFull
	if r.Fault != nil {
		if a, ok := r.Fault[call]; ok {
			ans = a
		}
	}
	switch ans {
	case AnsErr:
		return 0, ErrInjected
	case AnsEOF:
		r.pendEOF = true
		return 0, io.EOF
	case AnsShortEOF:
		n := len(p) / 2
		copy(p, r.next(n))
		r.pendEOF = true
		return n, nil
	case AnsZeroNil:
		return 0, nil
	case AnsShortNil:
		n := len(p) / 2
		if n == 0 {
			n = 1
		}
		copy(p, r.next(n))
		return n, nil
	}
	copy(p, r.next(len(p)))
	return len(p), nil
}

// DetReader is a plain deterministic stream (function of position and a lane id), used wherever a check
// needs reproducible "randomness" without fault injection. 1-byte reads do not advance the main stream.
type DetReader struct {
	Lane byte
	pos  int
}

func (d *DetReader) Read(p []byte) (int, error) {
	if len(p) == 1 {
		p[0] = 0
		return 1, nil
	}
	for i := range p {
		x := uint32(d.pos+i)*2654435761 + uint32(d.Lane)*40503
		x ^= x >> 15
		x *= 2246822519
		x ^= x >> 13
		p[i] = byte(x >> 8)
	}
	d.pos += len(p)
	return len(p), nil
}
