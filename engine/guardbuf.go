package engine

import (
	"bytes"
	"fmt"
	"syscall"
)

const pageSize = 4096

// GuardBuf is a byte buffer whose usable slice ends exactly at a PROT_NONE page and is preceded by a
// canary region, so reads or writes past the end crash the worker (which the parent records as a
// violation of the case in flight) and writes before the start are detected by Check.
type GuardBuf struct {
	mem    []byte
	B      []byte
	canary []byte
}

const canaryLen = 64

// NewGuardBuf returns a buffer with len(B) == n (n may be 0).
func NewGuardBuf(n int) *GuardBuf {
	data := ((n + canaryLen + pageSize - 1) / pageSize) * pageSize
	if data == 0 {
		data = pageSize
	}
	mem, err := syscall.Mmap(-1, 0, data+pageSize, syscall.PROT_READ|syscall.PROT_WRITE, syscall.MAP_ANON|syscall.MAP_PRIVATE)
	if err != nil {
		panic(fmt.Sprintf("guardbuf mmap: %v", err))
	}
	if err := syscall.Mprotect(mem[data:], syscall.PROT_NONE); err != nil {
		panic(fmt.Sprintf("guardbuf mprotect: %v", err))
	}
	g := &GuardBuf{mem: mem}
	g.B = mem[data-n : data : data]
	g.canary = mem[data-n-canaryLen : data-n]
	for i := range g.canary {
		g.canary[i] = 0xC5 ^ byte(i)
	}
	return g
}

// Check reports whether the canary before the buffer is intact.
func (g *GuardBuf) Check() bool {
	for i := range g.canary {
		if g.canary[i] != 0xC5^byte(i) {
			return false
		}
	}
	return true
}

// Free unmaps the buffer.
func (g *GuardBuf) Free() {
	if g.mem != nil {
		syscall.Munmap(g.mem)
		g.mem, g.B, g.canary = nil, nil, nil
	}
}

// GuardCopy returns a guarded copy of b.
func GuardCopy(b []byte) *GuardBuf {
	g := NewGuardBuf(len(b))
	copy(g.B, b)
	return g
}

// Pool hands out guard buffers and frees them all at once (keeps the mmap count bounded per case).
type Pool struct{ bufs []*GuardBuf }

func (p *Pool) Get(n int) []byte {
	g := NewGuardBuf(n)
	p.bufs = append(p.bufs, g)
	return g.B
}
func (p *Pool) Copy(b []byte) []byte { d := p.Get(len(b)); copy(d, b); return d }

// Release checks all canaries, frees everything and reports whether all canaries were intact.
func (p *Pool) Release() bool {
	ok := true
	for _, g := range p.bufs {
		if !g.Check() {
			ok = false
		}
		g.Free()
	}
	p.bufs = p.bufs[:0]
	return ok
}

// Pattern fills: part of the content alphabet.
func Pattern(kind, n int) []byte {
	b := make([]byte, n)
	FillPattern(b, kind)
	return b
}

// FillPattern: 0 zero, 1 0xff, 2 counting, 3 fixed pseudo-chain (deterministic LCG, not random choice).
func FillPattern(b []byte, kind int) {
	switch kind {
	case 0:
		for i := range b {
			b[i] = 0
		}
	case 1:
		for i := range b {
			b[i] = 0xff
		}
	case 2:
		for i := range b {
			b[i] = byte(i + 1)
		}
	default:
		x := uint32(0x9E3779B9) * uint32(kind)
		for i := range b {
			x = x*1664525 + 1013904223
			b[i] = byte(x >> 24)
		}
	}
}

// Hex shortens a byte string for messages.
func Hex(b []byte) string {
	const max = 48
	if len(b) <= max {
		return fmt.Sprintf("%x", b)
	}
	return fmt.Sprintf("%x…(%d bytes)…%x", b[:24], len(b), b[len(b)-8:])
}

// FirstDiff returns the first index where a and b differ, or -1.
func FirstDiff(a, b []byte) int {
	if bytes.Equal(a, b) {
		return -1
	}
	n := len(a)
	if len(b) < n {
		n = len(b)
	}
	for i := 0; i < n; i++ {
		if a[i] != b[i] {
			return i
		}
	}
	return n
}
