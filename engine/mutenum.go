package engine

import (
	"fmt"
)

// Kernel E3: exhaustive enumeration of all 1-deviation mutants of a seed artefact.

// MutOpt selects the mutation classes.
type MutOpt struct {
	AllValues bool // every byte position x all 255 other values (else the small substitution set)
	NoTrunc   bool // skip truncations
	NoExtend  bool // skip extensions
	DER       bool // DER-aware structural edits
	// Protect marks byte ranges [from,to) that must not be mutated (cost parameters, §2.5 rule 7).
	Protect [][2]int
}

func (o MutOpt) protected(i int) bool {
	for _, r := range o.Protect {
		if i >= r[0] && i < r[1] {
			return true
		}
	}
	return false
}

// SmallSubs is the substitution set used for long artefacts.
func SmallSubs(b byte) []byte {
	cand := []byte{0x00, 0x01, 0x7f, 0x80, 0xff, b ^ 0x01, b ^ 0x80, b + 1, b - 1}
	var out []byte
	seen := map[byte]bool{b: true}
	for _, c := range cand {
		if !seen[c] {
			seen[c] = true
			out = append(out, c)
		}
	}
	return out
}

// EachMutant calls fn with every 1-deviation mutant of seed. The slice passed to fn is only valid during
// the call. desc identifies the mutation (deterministic), so a violation can be replayed.
func EachMutant(seed []byte, o MutOpt, fn func(desc string, m []byte)) int {
	n := 0
	buf := make([]byte, len(seed), len(seed)+64)
	// substitutions
	for i := range seed {
		if o.protected(i) {
			continue
		}
		copy(buf, seed)
		if o.AllValues {
			for v := 0; v < 256; v++ {
				if byte(v) == seed[i] {
					continue
				}
				buf[i] = byte(v)
				fn(fmt.Sprintf("sub@%d=%02x", i, v), buf)
				n++
			}
		} else {
			for _, v := range SmallSubs(seed[i]) {
				buf[i] = v
				fn(fmt.Sprintf("sub@%d=%02x", i, v), buf)
				n++
			}
		}
	}
	if !o.NoTrunc {
		for l := 0; l < len(seed); l++ {
			fn(fmt.Sprintf("trunc=%d", l), append([]byte{}, seed[:l]...))
			n++
		}
		// drop a prefix
		for _, l := range []int{1, 2, 4} {
			if l < len(seed) {
				fn(fmt.Sprintf("dropfront=%d", l), append([]byte{}, seed[l:]...))
				n++
			}
		}
	}
	if !o.NoExtend {
		for _, e := range [][]byte{{0}, {0xff}, {0x30, 0x00}, {0x05, 0x00}} {
			fn(fmt.Sprintf("extend=%x", e), append(append([]byte{}, seed...), e...))
			n++
		}
		if len(seed) > 0 && len(seed) < 1<<16 {
			fn("extend=self", append(append([]byte{}, seed...), seed...))
			n++
		}
	}
	if o.DER {
		n += eachDERMutant(seed, fn)
	}
	return n
}

// EachPair2 enumerates all 2-deviation substitution mutants within seed[:limit] using the small substitution set.
func EachPair2(seed []byte, limit int, fn func(desc string, m []byte)) int {
	if limit > len(seed) {
		limit = len(seed)
	}
	n := 0
	buf := make([]byte, len(seed))
	for i := 0; i < limit; i++ {
		for _, vi := range SmallSubs(seed[i]) {
			for j := i + 1; j < limit; j++ {
				for _, vj := range SmallSubs(seed[j]) {
					copy(buf, seed)
					buf[i], buf[j] = vi, vj
					fn(fmt.Sprintf("sub2@%d=%02x@%d=%02x", i, vi, j, vj), buf)
					n++
				}
			}
		}
	}
	return n
}

// EachShort enumerates all byte strings of length 0..maxLen.
func EachShort(maxLen int, fn func(b []byte)) int {
	n := 0
	fn([]byte{})
	n++
	for l := 1; l <= maxLen; l++ {
		b := make([]byte, l)
		total := 1
		for i := 0; i < l; i++ {
			total *= 256
		}
		for v := 0; v < total; v++ {
			x := v
			for i := l - 1; i >= 0; i-- {
				b[i] = byte(x)
				x >>= 8
			}
			fn(b)
			n++
		}
	}
	return n
}

// ---------------------------------------------------------------------------------------------
// DER tree

// DERNode is a leniently parsed TLV (definite lengths only).
type DERNode struct {
	Tag           []byte // identifier octets
	Children      []*DERNode
	Content       []byte // for primitive nodes (or constructed ones that do not parse)
	Off, Hdr, Len int    // position in the original encoding
	Constructed   bool
}

func parseDER(b []byte, base, depth int) ([]*DERNode, bool) {
	var nodes []*DERNode
	off := 0
	for off < len(b) {
		start := off
		if depth > 30 {
			return nil, false
		}
		t0 := b[off]
		off++
		if t0&0x1f == 0x1f {
			for {
				if off >= len(b) {
					return nil, false
				}
				c := b[off]
				off++
				if c&0x80 == 0 {
					break
				}
			}
		}
		tagEnd := off
		if off >= len(b) {
			return nil, false
		}
		l := int(b[off])
		off++
		if l&0x80 != 0 {
			k := l & 0x7f
			if k == 0 || k > 4 || off+k > len(b) {
				return nil, false
			}
			l = 0
			for i := 0; i < k; i++ {
				l = l<<8 | int(b[off+i])
			}
			off += k
		}
		if l < 0 || off+l > len(b) {
			return nil, false
		}
		n := &DERNode{Tag: append([]byte{}, b[start:tagEnd]...), Off: base + start, Hdr: off - start, Len: l, Constructed: t0&0x20 != 0}
		content := b[off : off+l]
		if n.Constructed {
			if ch, ok := parseDER(content, base+off, depth+1); ok {
				n.Children = ch
			} else {
				n.Content = append([]byte{}, content...)
			}
		} else {
			n.Content = append([]byte{}, content...)
			// OCTET STRING / BIT STRING wrapping nested DER is common (extensions, keys): descend when it parses completely
			if (t0 == 0x04 && l > 1) || (t0 == 0x03 && l > 2 && content[0] == 0) {
				inner := content
				skip := 0
				if t0 == 0x03 {
					inner = content[1:]
					skip = 1
				}
				if len(inner) >= 2 && (inner[0] == 0x30 || inner[0] == 0x31 || inner[0] == 0x02 || inner[0] == 0x04) {
					if ch, ok := parseDER(inner, base+off+skip, depth+1); ok && len(ch) == 1 {
						n.Children = ch
						if skip == 1 {
							n.Content = []byte{0} // marker: bit string prefix kept on serialisation
						} else {
							n.Content = nil
						}
					}
				}
			}
		}
		nodes = append(nodes, n)
		off += l
	}
	return nodes, true
}

func encLen(n int) []byte {
	switch {
	case n < 0x80:
		return []byte{byte(n)}
	case n < 0x100:
		return []byte{0x81, byte(n)}
	case n < 0x10000:
		return []byte{0x82, byte(n >> 8), byte(n)}
	case n < 0x1000000:
		return []byte{0x83, byte(n >> 16), byte(n >> 8), byte(n)}
	default:
		return []byte{0x84, byte(n >> 24), byte(n >> 16), byte(n >> 8), byte(n)}
	}
}

// Serialize re-encodes the node with minimal definite lengths.
func (n *DERNode) Serialize() []byte {
	var body []byte
	if n.Children != nil {
		if !n.Constructed && len(n.Content) == 1 { // BIT STRING wrapper
			body = append(body, n.Content[0])
		}
		for _, c := range n.Children {
			body = append(body, c.Serialize()...)
		}
	} else {
		body = n.Content
	}
	out := append([]byte{}, n.Tag...)
	out = append(out, encLen(len(body))...)
	return append(out, body...)
}

func serializeAll(ns []*DERNode) []byte {
	var out []byte
	for _, n := range ns {
		out = append(out, n.Serialize()...)
	}
	return out
}

type nodeRef struct {
	parent *[]*DERNode
	idx    int
	depth  int
}

func collect(ns *[]*DERNode, depth int, out *[]nodeRef) {
	for i := range *ns {
		*out = append(*out, nodeRef{ns, i, depth})
		n := (*ns)[i]
		if n.Children != nil {
			collect(&n.Children, depth+1, out)
		}
	}
}

var tagSwaps = []byte{0x01, 0x02, 0x03, 0x04, 0x05, 0x06, 0x0c, 0x13, 0x17, 0x18, 0x30, 0x31, 0x80, 0xa0, 0xa1, 0x24, 0x1f}

// eachDERMutant enumerates DER-aware single edits: per TLV raw length edits (±1, 0, 0x80 indefinite,
// non-minimal long form, huge), tag swaps, and — with ancestor lengths re-computed — deletion, duplication,
// emptying, one extra level of nesting, INTEGER sign/zero-prefix edits.
func eachDERMutant(seed []byte, fn func(desc string, m []byte)) int {
	roots, ok := parseDER(seed, 0, 0)
	if !ok || len(roots) == 0 {
		return 0
	}
	var refs []nodeRef
	collect(&roots, 0, &refs)
	cnt := 0
	emit := func(desc string, m []byte) { fn(desc, m); cnt++ }
	for ri, r := range refs {
		n := (*r.parent)[r.idx]
		id := fmt.Sprintf("der#%d@%d", ri, n.Off)
		// --- raw edits on the original bytes (lengths not fixed up)
		lenPos := n.Off + len(n.Tag)
		if lenPos < len(seed) {
			raw := func(desc string, repl []byte, oldLenBytes int) {
				m := append([]byte{}, seed[:lenPos]...)
				m = append(m, repl...)
				m = append(m, seed[lenPos+oldLenBytes:]...)
				emit(id+"/"+desc, m)
			}
			oldLB := n.Hdr - len(n.Tag)
			raw("len+1", encLen(n.Len+1), oldLB)
			if n.Len > 0 {
				raw("len-1", encLen(n.Len-1), oldLB)
				raw("len=0", []byte{0}, oldLB)
			}
			raw("len=indef", []byte{0x80}, oldLB)
			raw("len=huge", []byte{0x84, 0x7f, 0xff, 0xff, 0xff}, oldLB)
			raw("len=huge8", []byte{0x88, 0xff, 0xff, 0xff, 0xff, 0xff, 0xff, 0xff, 0xff}, oldLB)
			// the length as an integer at the widths and signs a reader may accumulate it in: 2^31 and 2^32-1 (negative as
			// int32), 2^63 and 2^63-1, 2^32 and 2^64 (truncate to 0), and 2^32+len / 2^64+len (truncate to the true length:
			// a reader without an overflow check takes a non-canonical encoding for the original)
			l4 := []byte{byte(n.Len >> 24), byte(n.Len >> 16), byte(n.Len >> 8), byte(n.Len)}
			raw("len=2^31", []byte{0x84, 0x80, 0, 0, 0}, oldLB)
			raw("len=2^32-1", []byte{0x84, 0xff, 0xff, 0xff, 0xff}, oldLB)
			raw("len=2^32", []byte{0x85, 1, 0, 0, 0, 0}, oldLB)
			raw("len=2^32+len", append([]byte{0x85, 1}, l4...), oldLB)
			raw("len=2^63-1", []byte{0x88, 0x7f, 0xff, 0xff, 0xff, 0xff, 0xff, 0xff, 0xff}, oldLB)
			raw("len=2^63", []byte{0x88, 0x80, 0, 0, 0, 0, 0, 0, 0}, oldLB)
			raw("len=2^63+len", append([]byte{0x88, 0x80, 0, 0, 0}, l4...), oldLB)
			raw("len=2^64", []byte{0x89, 1, 0, 0, 0, 0, 0, 0, 0, 0}, oldLB)
			raw("len=2^64+len", append([]byte{0x89, 1, 0, 0, 0, 0}, l4...), oldLB)
			raw("len=-len", []byte{0x88, 0xff, 0xff, 0xff, 0xff, ^l4[0], ^l4[1], ^l4[2], ^l4[3] + 1}, oldLB)
			if n.Len < 0x80 {
				raw("len=nonminimal", []byte{0x81, byte(n.Len)}, oldLB)
			} else if n.Len < 0x100 {
				raw("len=nonminimal2", []byte{0x82, 0, byte(n.Len)}, oldLB)
			}
			// indefinite length with proper end-of-contents (BER)
			if n.Constructed {
				m := append([]byte{}, seed[:lenPos]...)
				m = append(m, 0x80)
				m = append(m, seed[n.Off+n.Hdr:n.Off+n.Hdr+n.Len]...)
				m = append(m, 0, 0)
				m = append(m, seed[n.Off+n.Hdr+n.Len:]...)
				emit(id+"/ber-indef-eoc", m)
				// malformed end-of-contents: a single zero octet, three zero octets, 00 01
				for _, eoc := range [][]byte{{0}, {0, 0, 0}, {0, 1}, {}} {
					m2 := append([]byte{}, seed[:lenPos]...)
					m2 = append(m2, 0x80)
					m2 = append(m2, seed[n.Off+n.Hdr:n.Off+n.Hdr+n.Len]...)
					m2 = append(m2, eoc...)
					m2 = append(m2, seed[n.Off+n.Hdr+n.Len:]...)
					emit(fmt.Sprintf("%s/ber-indef-eoc=%x", id, eoc), m2)
				}
			}
		}
		for _, tg := range tagSwaps {
			if len(n.Tag) == 1 && n.Tag[0] == tg {
				continue
			}
			m := append([]byte{}, seed...)
			if tg == 0x1f {
				// high-tag-number form
				m = append(append(append([]byte{}, seed[:n.Off]...), 0x1f, 0x81, 0x00), seed[n.Off+len(n.Tag):]...)
			} else {
				m[n.Off] = tg
			}
			emit(fmt.Sprintf("%s/tag=%02x", id, tg), m)
		}
		// --- structural edits with ancestor lengths fixed up
		orig := *r.parent
		// delete
		*r.parent = append(append([]*DERNode{}, orig[:r.idx]...), orig[r.idx+1:]...)
		emit(id+"/delete", serializeAll(roots))
		// duplicate
		*r.parent = append(append(append([]*DERNode{}, orig[:r.idx+1]...), n), orig[r.idx+1:]...)
		emit(id+"/duplicate", serializeAll(roots))
		// swap with next sibling
		if r.idx+1 < len(orig) {
			sw := append([]*DERNode{}, orig...)
			sw[r.idx], sw[r.idx+1] = sw[r.idx+1], sw[r.idx]
			*r.parent = sw
			emit(id+"/swapnext", serializeAll(roots))
		}
		// empty
		e := &DERNode{Tag: n.Tag, Constructed: n.Constructed, Content: []byte{}}
		rep := append([]*DERNode{}, orig...)
		rep[r.idx] = e
		*r.parent = rep
		emit(id+"/empty", serializeAll(roots))
		// wrap in SEQUENCE / OCTET STRING / [0]
		for _, wt := range []byte{0x30, 0x04, 0xa0} {
			w := &DERNode{Tag: []byte{wt}, Constructed: wt&0x20 != 0}
			if w.Constructed {
				w.Children = []*DERNode{n}
			} else {
				w.Content = n.Serialize()
			}
			rep[r.idx] = w
			emit(fmt.Sprintf("%s/wrap=%02x", id, wt), serializeAll(roots))
		}
		// replace by NULL / by a huge INTEGER / by its first child
		rep[r.idx] = &DERNode{Tag: []byte{0x05}, Content: []byte{}}
		emit(id+"/null", serializeAll(roots))
		big := make([]byte, 600)
		for i := range big {
			big[i] = 0x7f
		}
		rep[r.idx] = &DERNode{Tag: []byte{0x02}, Content: big}
		emit(id+"/bigint", serializeAll(roots))
		if len(n.Children) > 0 {
			rep[r.idx] = n.Children[0]
			emit(id+"/unwrap", serializeAll(roots))
		}
		// primitive content edits
		if n.Children == nil && len(n.Tag) == 1 {
			switch n.Tag[0] {
			case 0x02: // INTEGER: negative, zero, leading zero, one byte shorter/longer
				for _, v := range [][]byte{{}, {0}, {0x80}, {0xff}, append([]byte{0}, n.Content...), append([]byte{0xff}, n.Content...), append(append([]byte{}, n.Content...), 0)} {
					rep[r.idx] = &DERNode{Tag: n.Tag, Content: v}
					emit(fmt.Sprintf("%s/int=%dB:%x", id, len(v), head(v, 2)), serializeAll(roots))
				}
				if len(n.Content) > 1 {
					rep[r.idx] = &DERNode{Tag: n.Tag, Content: n.Content[1:]}
					emit(id+"/int-dropfirst", serializeAll(roots))
					rep[r.idx] = &DERNode{Tag: n.Tag, Content: n.Content[:len(n.Content)-1]}
					emit(id+"/int-droplast", serializeAll(roots))
				}
			case 0x03, 0x04, 0x0c, 0x13, 0x06, 0x17:
				for _, v := range [][]byte{{0}, {7}, {0xff}, append([]byte{}, n.Content[:len(n.Content)/2]...), append(append([]byte{}, n.Content...), 0), append(append([]byte{}, n.Content...), n.Content...)} {
					rep[r.idx] = &DERNode{Tag: n.Tag, Content: v}
					emit(fmt.Sprintf("%s/prim=%dB:%x", id, len(v), head(v, 2)), serializeAll(roots))
				}
				if len(n.Content) > 1 {
					rep[r.idx] = &DERNode{Tag: n.Tag, Content: n.Content[1:]}
					emit(id+"/prim-dropfirst", serializeAll(roots))
					rep[r.idx] = &DERNode{Tag: n.Tag, Content: n.Content[:len(n.Content)-1]}
					emit(id+"/prim-droplast", serializeAll(roots))
				}
			}
		}
		// every OBJECT IDENTIFIER replaced by every identifier of a dictionary of the algorithm, curve, key-type, digest and
		// content-type identifiers the library knows (ancestor lengths fixed up): an artefact whose parts disagree about
		// the algorithm - a P-521 key labelled SM2-with-SM3, an RSA key under an ECDSA signature algorithm - is two or more
		// byte substitutions away from any valid seed but one "relabelling" away in this alphabet
		if n.Children == nil && len(n.Tag) == 1 && n.Tag[0] == 0x06 {
			for _, o := range oidDict {
				if string(o.enc) == string(n.Content) {
					continue
				}
				rep[r.idx] = &DERNode{Tag: n.Tag, Content: o.enc}
				emit(fmt.Sprintf("%s/oid=%s", id, o.dotted), serializeAll(roots))
			}
		}
		// every content length of a primitive (ancestor lengths fixed up): all proper prefixes and all proper suffixes.
		// A decoder that checks a fixed-layout blob with ">= k" instead of "== n", or slices before it has checked, is
		// only reached by the lengths in between. For contents above 640 bytes the lengths 0..320 and n-320..n-1.
		if n.Children == nil && len(n.Content) > 2 {
			L := len(n.Content)
			for k := 1; k < L; k++ {
				if L > 640 && k > 320 && k < L-320 {
					continue
				}
				rep[r.idx] = &DERNode{Tag: n.Tag, Content: n.Content[:k]}
				emit(fmt.Sprintf("%s/content-prefix=%d", id, k), serializeAll(roots))
				rep[r.idx] = &DERNode{Tag: n.Tag, Content: n.Content[L-k:]}
				emit(fmt.Sprintf("%s/content-suffix=%d", id, k), serializeAll(roots))
			}
		}
		*r.parent = orig
	}
	// the whole artefact re-encoded with indefinite lengths on every constructed element (BER), and every truncation
	// of that re-encoding (incomplete end-of-contents markers at every nesting level)
	if len(seed) <= 8192 {
		var enc func(n *DERNode) []byte
		enc = func(n *DERNode) []byte {
			if n.Children == nil || !n.Constructed {
				return n.Serialize()
			}
			out := append(append([]byte{}, n.Tag...), 0x80)
			for _, c := range n.Children {
				out = append(out, enc(c)...)
			}
			return append(out, 0, 0)
		}
		var ber []byte
		for _, r := range roots {
			ber = append(ber, enc(r)...)
		}
		emit("ber/all-indefinite", ber)
		lim := len(ber)
		for l := lim - 1; l >= 0 && l >= lim-600; l-- {
			emit(fmt.Sprintf("ber/all-indefinite/trunc=%d", l), append([]byte{}, ber[:l]...))
		}
	}
	// deep nesting probes
	for _, d := range []int{100, 10000} {
		m := make([]byte, 0, 6*d)
		inner := []byte{0x05, 0x00}
		m = append(m, inner...)
		for i := 0; i < d && len(m) < 60000; i++ {
			h := append([]byte{0x30}, encLen(len(m))...)
			m = append(h, m...)
		}
		emit(fmt.Sprintf("der/nest=%d", d), m)
		// indefinite-length nesting (BER)
		b := make([]byte, 0, 2*d+2)
		for i := 0; i < d; i++ {
			b = append(b, 0x30, 0x80)
		}
		emit(fmt.Sprintf("der/nest-indef-open=%d", d), b)
		for i := 0; i < d; i++ {
			b = append(b, 0, 0)
		}
		emit(fmt.Sprintf("der/nest-indef=%d", d), b)
	}
	return cnt
}

func head(b []byte, n int) []byte {
	if len(b) > n {
		return b[:n]
	}
	return b
}

// FindMutant re-generates the mutant with the given description (used by replays and tests).
func FindMutant(seed []byte, o MutOpt, desc string) []byte {
	var out []byte
	EachMutant(seed, o, func(d string, m []byte) {
		if d == desc && out == nil {
			out = append([]byte{}, m...)
		}
	})
	return out
}

// ---- dictionary of object identifiers for the relabelling edits

type oidEntry struct {
	dotted string
	enc    []byte
}

// every OBJECT IDENTIFIER literal that occurs in the non-test sources of the pinned repository (collected with grep,
// 113 entries), so that each identifier the library knows how to name is offered in every OID position of every seed
var oidDict = buildOIDDict([]string{
	"1.2.156.10197.1.104", "1.2.156.10197.1.104.1", "1.2.156.10197.1.104.2", "1.2.156.10197.1.104.8", "1.2.156.10197.1.301", "1.2.156.10197.1.301.1",
	"1.2.156.10197.1.301.3", "1.2.156.10197.1.302", "1.2.156.10197.1.302.1", "1.2.156.10197.1.302.3", "1.2.156.10197.1.401", "1.2.156.10197.1.401.2",
	"1.2.156.10197.1.501", "1.2.156.10197.1.502", "1.2.156.10197.1.503", "1.2.156.10197.6.1.4.2.1", "1.2.156.10197.6.1.4.2.2",
	"1.2.156.10197.6.1.4.2.3", "1.2.156.10197.6.1.4.2.4", "1.2.156.10197.6.1.4.2.5", "1.2.156.10197.6.1.4.4.1", "1.2.156.10197.6.1.4.4.2",
	"1.2.156.10197.6.1.4.4.3", "1.2.156.10197.6.1.4.4.4", "1.2.156.10197.6.1.4.4.5", "1.2.156.10197.6.4.1.5.1", "1.2.156.10197.6.4.1.5.2",
	"1.2.840.10040.4.1", "1.2.840.10040.4.3", "1.2.840.10045.2.1", "1.2.840.10045.3.1.7", "1.2.840.10045.4.1", "1.2.840.10045.4.3.2",
	"1.2.840.10045.4.3.3", "1.2.840.10045.4.3.4", "1.2.840.113549.1.1.1", "1.2.840.113549.1.1.10", "1.2.840.113549.1.1.11", "1.2.840.113549.1.1.12",
	"1.2.840.113549.1.1.13", "1.2.840.113549.1.1.2", "1.2.840.113549.1.1.4", "1.2.840.113549.1.1.5", "1.2.840.113549.1.1.8", "1.2.840.113549.1.5.1",
	"1.2.840.113549.1.5.10", "1.2.840.113549.1.5.11", "1.2.840.113549.1.5.12", "1.2.840.113549.1.5.13", "1.2.840.113549.1.5.2", "1.2.840.113549.1.5.3",
	"1.2.840.113549.1.5.4", "1.2.840.113549.1.5.6", "1.2.840.113549.1.7.1", "1.2.840.113549.1.7.2", "1.2.840.113549.1.7.3", "1.2.840.113549.1.7.4",
	"1.2.840.113549.1.7.5", "1.2.840.113549.1.7.6", "1.2.840.113549.1.9.14", "1.2.840.113549.1.9.3", "1.2.840.113549.1.9.4", "1.2.840.113549.1.9.5",
	"1.2.840.113549.1.9.63", "1.2.840.113549.1.9.7", "1.2.840.113549.2.10", "1.2.840.113549.2.11", "1.2.840.113549.2.12", "1.2.840.113549.2.13",
	"1.2.840.113549.2.7", "1.2.840.113549.2.8", "1.2.840.113549.2.9", "1.2.840.113549.3.7", "1.3.101.110", "1.3.101.112", "1.3.132.0.33",
	"1.3.132.0.34", "1.3.132.0.35", "1.3.14.3.2.26", "1.3.14.3.2.29", "1.3.14.3.2.7", "1.3.6.1.4.1.11591.4.11", "1.3.6.1.4.1.311.10.3.3",
	"1.3.6.1.4.1.311.2.1.22", "1.3.6.1.4.1.311.61.1.1", "1.3.6.1.5.5.7.1.1", "1.3.6.1.5.5.7.3.1", "1.3.6.1.5.5.7.3.2", "1.3.6.1.5.5.7.3.3",
	"1.3.6.1.5.5.7.3.4", "1.3.6.1.5.5.7.3.5", "1.3.6.1.5.5.7.3.6", "1.3.6.1.5.5.7.3.7", "1.3.6.1.5.5.7.3.8", "1.3.6.1.5.5.7.3.9", "1.3.6.1.5.5.7.48.1",
	"1.3.6.1.5.5.7.48.2", "2.16.840.1.101.3.4.1.2", "2.16.840.1.101.3.4.1.22", "2.16.840.1.101.3.4.1.26", "2.16.840.1.101.3.4.1.42",
	"2.16.840.1.101.3.4.1.46", "2.16.840.1.101.3.4.1.6", "2.16.840.1.101.3.4.2.1", "2.16.840.1.101.3.4.2.2", "2.16.840.1.101.3.4.2.3",
	"2.16.840.1.101.3.4.3.2", "2.16.840.1.113730.4.1", "2.3.4.5.6.7", "2.4.1.2.3", "2.5.29.14", "2.5.29.35", "2.5.29.37.0",
})

func buildOIDDict(dotted []string) []oidEntry {
	var out []oidEntry
	for _, d := range dotted {
		var arcs []uint64
		var cur uint64
		for i := 0; i <= len(d); i++ {
			if i == len(d) || d[i] == '.' {
				arcs = append(arcs, cur)
				cur = 0
				continue
			}
			cur = cur*10 + uint64(d[i]-'0')
		}
		if len(arcs) < 2 {
			continue
		}
		b128 := func(v uint64) []byte {
			r := []byte{byte(v & 0x7f)}
			for v >>= 7; v > 0; v >>= 7 {
				r = append([]byte{byte(v&0x7f) | 0x80}, r...)
			}
			return r
		}
		enc := b128(arcs[0]*40 + arcs[1])
		for _, a := range arcs[2:] {
			enc = append(enc, b128(a)...)
		}
		out = append(out, oidEntry{d, enc})
	}
	return out
}
