package engine

import "testing"

func TestDERMutants(t *testing.T) {
	seed := []byte{0x30, 0x0a, 0x02, 0x01, 0x05, 0x04, 0x05, 0x30, 0x03, 0x02, 0x01, 0x07}
	n := 0
	descs := map[string]bool{}
	EachMutant(seed, MutOpt{DER: true}, func(d string, m []byte) {
		n++
		if descs[d] {
			t.Fatalf("duplicate desc %s", d)
		}
		descs[d] = true
	})
	if n < 200 {
		t.Fatalf("only %d mutants", n)
	}
	roots, ok := parseDER(seed, 0, 0)
	if !ok || string(serializeAll(roots)) != string(seed) {
		t.Fatalf("reserialize mismatch %x", serializeAll(roots))
	}
	t.Log(n)
}
