package engine

import (
	"fmt"
	"strings"
)

// Machine describes an explicit-state search over operation histories on a real object (kernel E1).
// S bundles the implementation object and the reference-model state. Objects are not cloneable, so a
// successor is produced by replaying the history on a fresh instance and applying one more operation.
type Machine[S any] struct {
	Name string
	New  func() S
	Ops  []string
	// Step applies operation op to s (implementation and model), checks the oracle for this step and
	// reports violations through t.Fail. It returns false if the path must not be extended.
	Step func(s S, op int, t *T) bool
	// Key returns the canonical state key: a dump of the complete private state of the implementation
	// plus the model state. Two histories are merged only when their keys are equal.
	Key func(s S) string
}

func histName(m []string, h []int) string {
	var b strings.Builder
	for i, o := range h {
		if i > 0 {
			b.WriteByte(';')
		}
		b.WriteString(m[o])
	}
	return b.String()
}

// BFS explores all histories up to the given depth, merging identical states. Returns states, transitions.
func BFS[S any](t *T, m Machine[S], depth int) (int, int) {
	seen := map[string]struct{}{}
	s0 := m.New()
	seen[m.Key(s0)] = struct{}{}
	frontier := [][]int{{}}
	transitions, traces := 0, 0
	sampled := false
	for d := 0; d < depth && len(frontier) > 0; d++ {
		var next [][]int
		for _, h := range frontier {
			for op := range m.Ops {
				s := m.New()
				ok := true
				nfail := len(t.viol)
				for _, o := range h {
					if !m.Step(s, o, t) {
						ok = false
						break
					}
				}
				// violations on the prefix were reported when the prefix was first explored
				t.viol = t.viol[:nfail]
				if !ok {
					continue
				}
				cont := m.Step(s, op, t)
				transitions++
				traces++
				if len(t.viol) > nfail {
					hh := append(append([]int{}, h...), op)
					for i := nfail; i < len(t.viol); i++ {
						t.viol[i].Detail = fmt.Sprintf("[%s] history: %s — %s", m.Name, histName(m.Ops, hh), t.viol[i].Detail)
					}
					if len(t.viol) > 50 {
						return len(seen), transitions
					}
					continue
				}
				if !cont {
					continue
				}
				k := m.Key(s)
				if _, dup := seen[k]; dup {
					continue
				}
				seen[k] = struct{}{}
				t.Nontrivial(m.Name + "\x00" + k)
				hh := append(append([]int{}, h...), op)
				next = append(next, hh)
				if !sampled && d == depth-1 {
					sampled = true
					t.Sample(map[string]any{"machine": m.Name, "history": histName(m.Ops, hh)})
				}
			}
		}
		frontier = next
	}
	t.AddStates(len(seen))
	t.AddTransitions(transitions)
	t.AddTraces(traces)
	t.Eval(transitions)
	return len(seen), transitions
}

// Deviations explores every history of length horizon that consists of the default operation def with
// at most bound departures (any other op at any position). Each history runs on a fresh instance with the
// oracle evaluated at every step.
func Deviations[S any](t *T, m Machine[S], def, horizon, bound int) (int, int) {
	seen := map[string]struct{}{}
	transitions, traces := 0, 0
	h := make([]int, horizon)
	var rec func(pos, used int)
	run := func() {
		s := m.New()
		nfail := len(t.viol)
		for i, o := range h {
			cont := m.Step(s, o, t)
			transitions++
			if len(t.viol) > nfail {
				for j := nfail; j < len(t.viol); j++ {
					t.viol[j].Detail = fmt.Sprintf("[%s] history: %s — %s", m.Name, histName(m.Ops, h[:i+1]), t.viol[j].Detail)
				}
				break
			}
			if !cont {
				break
			}
			k := m.Key(s)
			if _, dup := seen[k]; !dup {
				seen[k] = struct{}{}
				t.Nontrivial(m.Name + "\x00" + k)
			}
		}
		traces++
		if traces == 2 {
			t.Sample(map[string]any{"machine": m.Name, "history": histName(m.Ops, h)})
		}
	}
	rec = func(pos, used int) {
		if len(t.viol) > 50 {
			return
		}
		if pos == horizon {
			run()
			return
		}
		h[pos] = def
		rec(pos+1, used)
		if used < bound {
			for op := range m.Ops {
				if op == def {
					continue
				}
				h[pos] = op
				rec(pos+1, used+1)
			}
		}
		h[pos] = def
	}
	rec(0, 0)
	t.AddStates(len(seen))
	t.AddTransitions(transitions)
	t.AddTraces(traces)
	t.Eval(transitions)
	return len(seen), transitions
}
