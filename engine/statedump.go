package engine

import (
	"encoding/binary"
	"fmt"
	"reflect"
	"unsafe"
)

// Dump serialises the complete (also unexported) state reachable from v into bytes: scalars, arrays
// (entirely, so stale buffer bytes are part of it), slices up to len (and, separately, len/cap),
// pointers and interfaces are followed (cycles cut by address). Function values are skipped.
func Dump(v any) []byte {
	d := &dumper{seen: map[uintptr]bool{}}
	d.walk(reflect.ValueOf(v), 0)
	return d.b
}

// DumpString is Dump as a string usable as a map key.
func DumpString(v any) string { return string(Dump(v)) }

type dumper struct {
	b    []byte
	seen map[uintptr]bool
}

func (d *dumper) u64(x uint64) { d.b = binary.LittleEndian.AppendUint64(d.b, x) }

func access(v reflect.Value) reflect.Value {
	if v.CanInterface() || !v.CanAddr() {
		return v
	}
	return reflect.NewAt(v.Type(), unsafe.Pointer(v.UnsafeAddr())).Elem()
}

func (d *dumper) walk(v reflect.Value, depth int) {
	if depth > 40 || !v.IsValid() {
		d.b = append(d.b, 0xfe)
		return
	}
	switch v.Kind() {
	case reflect.Bool:
		if v.Bool() {
			d.b = append(d.b, 1)
		} else {
			d.b = append(d.b, 0)
		}
	case reflect.Int, reflect.Int8, reflect.Int16, reflect.Int32, reflect.Int64:
		d.u64(uint64(v.Int()))
	case reflect.Uint, reflect.Uint8, reflect.Uint16, reflect.Uint32, reflect.Uint64, reflect.Uintptr:
		if v.Kind() == reflect.Uint8 {
			d.b = append(d.b, byte(v.Uint()))
		} else {
			d.u64(v.Uint())
		}
	case reflect.Float32, reflect.Float64:
		d.b = append(d.b, []byte(fmt.Sprint(v.Float()))...)
	case reflect.String:
		d.u64(uint64(v.Len()))
		d.b = append(d.b, v.String()...)
	case reflect.Array:
		if v.Type().Elem().Kind() == reflect.Uint8 && v.CanAddr() {
			p := unsafe.Slice((*byte)(unsafe.Pointer(v.UnsafeAddr())), v.Len())
			d.b = append(d.b, p...)
			return
		}
		for i := 0; i < v.Len(); i++ {
			d.walk(v.Index(i), depth+1)
		}
	case reflect.Slice:
		d.u64(uint64(v.Len()))
		if v.IsNil() {
			d.b = append(d.b, 0xfd)
			return
		}
		if v.Type().Elem().Kind() == reflect.Uint8 {
			if v.Len() > 0 {
				p := unsafe.Slice((*byte)(v.UnsafePointer()), v.Len())
				d.b = append(d.b, p...)
			}
			return
		}
		for i := 0; i < v.Len(); i++ {
			d.walk(v.Index(i), depth+1)
		}
	case reflect.Ptr:
		if v.IsNil() {
			d.b = append(d.b, 0xfd)
			return
		}
		p := v.Pointer()
		if d.seen[p] {
			d.b = append(d.b, 0xfc)
			return
		}
		d.seen[p] = true
		d.b = append(d.b, 0xfb)
		d.walk(v.Elem(), depth+1)
	case reflect.Interface:
		if v.IsNil() {
			d.b = append(d.b, 0xfd)
			return
		}
		e := access(v).Elem()
		d.b = append(d.b, e.Type().String()...)
		if e.Kind() != reflect.Ptr && !e.CanAddr() {
			// copy into addressable storage so unexported fields can be reached
			c := reflect.New(e.Type()).Elem()
			c.Set(e)
			e = c
		}
		d.walk(e, depth+1)
	case reflect.Struct:
		for i := 0; i < v.NumField(); i++ {
			f := v.Field(i)
			if !f.CanInterface() {
				if f.CanAddr() {
					f = reflect.NewAt(f.Type(), unsafe.Pointer(f.UnsafeAddr())).Elem()
				} else {
					c := reflect.New(v.Type()).Elem()
					c.Set(access(v))
					f = c.Field(i)
					f = reflect.NewAt(f.Type(), unsafe.Pointer(f.UnsafeAddr())).Elem()
				}
			}
			d.walk(f, depth+1)
		}
	case reflect.Map:
		d.u64(uint64(v.Len())) // content order is not canonical; only size is recorded
	case reflect.Func, reflect.Chan, reflect.UnsafePointer:
		d.b = append(d.b, 0xfa)
	default:
		d.b = append(d.b, 0xf9)
	}
}

// FieldByType returns an addressable reflect.Value of the first field (searched depth-first through
// embedded/nested structs and pointers) of the given type inside the struct that p points to.
func FieldByType(p any, typ reflect.Type) (reflect.Value, bool) {
	seen := map[uintptr]bool{}
	var find func(v reflect.Value, depth int) (reflect.Value, bool)
	find = func(v reflect.Value, depth int) (reflect.Value, bool) {
		if depth > 10 || !v.IsValid() {
			return reflect.Value{}, false
		}
		switch v.Kind() {
		case reflect.Ptr, reflect.Interface:
			if v.IsNil() {
				return reflect.Value{}, false
			}
			if v.Kind() == reflect.Ptr {
				if seen[v.Pointer()] {
					return reflect.Value{}, false
				}
				seen[v.Pointer()] = true
			}
			return find(access(v).Elem(), depth+1)
		case reflect.Struct:
			if v.Type() == typ && v.CanAddr() {
				return reflect.NewAt(typ, unsafe.Pointer(v.UnsafeAddr())).Elem(), true
			}
			for i := 0; i < v.NumField(); i++ {
				f := v.Field(i)
				if f.CanAddr() {
					f = reflect.NewAt(f.Type(), unsafe.Pointer(f.UnsafeAddr())).Elem()
				}
				if f.Type() == typ && f.CanAddr() {
					return f, true
				}
				if r, ok := find(f, depth+1); ok {
					return r, true
				}
			}
		}
		return reflect.Value{}, false
	}
	return find(reflect.ValueOf(p), 0)
}
