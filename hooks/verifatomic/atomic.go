//go:build verif

// Package verifatomic stands in for sync/atomic in the rewritten copies of the packages under test (C20): every
// operation is the real atomic operation - so the race detector sees exactly the happens-before edges the code has -
// with a scheduling point of the controlled scheduler before and after it. A thread can therefore be parked right
// after it has won a compare-and-swap or published a flag, which is where a hand-made "once" built from atomics
// goes wrong.
package verifatomic

import (
	"sync/atomic"
	"unsafe"

	vs "github.com/emmansun/gmsm/verifsync"
)

func pt() { vs.AtomicPoint() }

type Bool struct{ v atomic.Bool }

func (x *Bool) Load() bool                    { pt(); r := x.v.Load(); pt(); return r }
func (x *Bool) Store(n bool)                  { pt(); x.v.Store(n); pt() }
func (x *Bool) Swap(n bool) bool              { pt(); r := x.v.Swap(n); pt(); return r }
func (x *Bool) CompareAndSwap(o, n bool) bool { pt(); r := x.v.CompareAndSwap(o, n); pt(); return r }

type Pointer[T any] struct{ v atomic.Pointer[T] }

func (x *Pointer[T]) Load() *T     { pt(); r := x.v.Load(); pt(); return r }
func (x *Pointer[T]) Store(n *T)   { pt(); x.v.Store(n); pt() }
func (x *Pointer[T]) Swap(n *T) *T { pt(); r := x.v.Swap(n); pt(); return r }
func (x *Pointer[T]) CompareAndSwap(o, n *T) bool {
	pt()
	r := x.v.CompareAndSwap(o, n)
	pt()
	return r
}

type Value struct{ v atomic.Value }

func (x *Value) Load() any                    { pt(); r := x.v.Load(); pt(); return r }
func (x *Value) Store(n any)                  { pt(); x.v.Store(n); pt() }
func (x *Value) Swap(n any) any               { pt(); r := x.v.Swap(n); pt(); return r }
func (x *Value) CompareAndSwap(o, n any) bool { pt(); r := x.v.CompareAndSwap(o, n); pt(); return r }

func LoadPointer(a *unsafe.Pointer) unsafe.Pointer     { pt(); r := atomic.LoadPointer(a); pt(); return r }
func StorePointer(a *unsafe.Pointer, n unsafe.Pointer) { pt(); atomic.StorePointer(a, n); pt() }
func SwapPointer(a *unsafe.Pointer, n unsafe.Pointer) unsafe.Pointer {
	pt()
	r := atomic.SwapPointer(a, n)
	pt()
	return r
}
func CompareAndSwapPointer(a *unsafe.Pointer, o, n unsafe.Pointer) bool {
	pt()
	r := atomic.CompareAndSwapPointer(a, o, n)
	pt()
	return r
}

type Int32 struct{ v atomic.Int32 }

func (x *Int32) Load() int32                    { pt(); r := x.v.Load(); pt(); return r }
func (x *Int32) Store(n int32)                  { pt(); x.v.Store(n); pt() }
func (x *Int32) Swap(n int32) int32             { pt(); r := x.v.Swap(n); pt(); return r }
func (x *Int32) Add(d int32) int32              { pt(); r := x.v.Add(d); pt(); return r }
func (x *Int32) CompareAndSwap(o, n int32) bool { pt(); r := x.v.CompareAndSwap(o, n); pt(); return r }

func LoadInt32(a *int32) int32          { pt(); r := atomic.LoadInt32(a); pt(); return r }
func StoreInt32(a *int32, n int32)      { pt(); atomic.StoreInt32(a, n); pt() }
func SwapInt32(a *int32, n int32) int32 { pt(); r := atomic.SwapInt32(a, n); pt(); return r }
func AddInt32(a *int32, d int32) int32  { pt(); r := atomic.AddInt32(a, d); pt(); return r }
func CompareAndSwapInt32(a *int32, o, n int32) bool {
	pt()
	r := atomic.CompareAndSwapInt32(a, o, n)
	pt()
	return r
}

type Int64 struct{ v atomic.Int64 }

func (x *Int64) Load() int64                    { pt(); r := x.v.Load(); pt(); return r }
func (x *Int64) Store(n int64)                  { pt(); x.v.Store(n); pt() }
func (x *Int64) Swap(n int64) int64             { pt(); r := x.v.Swap(n); pt(); return r }
func (x *Int64) Add(d int64) int64              { pt(); r := x.v.Add(d); pt(); return r }
func (x *Int64) CompareAndSwap(o, n int64) bool { pt(); r := x.v.CompareAndSwap(o, n); pt(); return r }

func LoadInt64(a *int64) int64          { pt(); r := atomic.LoadInt64(a); pt(); return r }
func StoreInt64(a *int64, n int64)      { pt(); atomic.StoreInt64(a, n); pt() }
func SwapInt64(a *int64, n int64) int64 { pt(); r := atomic.SwapInt64(a, n); pt(); return r }
func AddInt64(a *int64, d int64) int64  { pt(); r := atomic.AddInt64(a, d); pt(); return r }
func CompareAndSwapInt64(a *int64, o, n int64) bool {
	pt()
	r := atomic.CompareAndSwapInt64(a, o, n)
	pt()
	return r
}

type Uint32 struct{ v atomic.Uint32 }

func (x *Uint32) Load() uint32         { pt(); r := x.v.Load(); pt(); return r }
func (x *Uint32) Store(n uint32)       { pt(); x.v.Store(n); pt() }
func (x *Uint32) Swap(n uint32) uint32 { pt(); r := x.v.Swap(n); pt(); return r }
func (x *Uint32) Add(d uint32) uint32  { pt(); r := x.v.Add(d); pt(); return r }
func (x *Uint32) CompareAndSwap(o, n uint32) bool {
	pt()
	r := x.v.CompareAndSwap(o, n)
	pt()
	return r
}

func LoadUint32(a *uint32) uint32           { pt(); r := atomic.LoadUint32(a); pt(); return r }
func StoreUint32(a *uint32, n uint32)       { pt(); atomic.StoreUint32(a, n); pt() }
func SwapUint32(a *uint32, n uint32) uint32 { pt(); r := atomic.SwapUint32(a, n); pt(); return r }
func AddUint32(a *uint32, d uint32) uint32  { pt(); r := atomic.AddUint32(a, d); pt(); return r }
func CompareAndSwapUint32(a *uint32, o, n uint32) bool {
	pt()
	r := atomic.CompareAndSwapUint32(a, o, n)
	pt()
	return r
}

type Uint64 struct{ v atomic.Uint64 }

func (x *Uint64) Load() uint64         { pt(); r := x.v.Load(); pt(); return r }
func (x *Uint64) Store(n uint64)       { pt(); x.v.Store(n); pt() }
func (x *Uint64) Swap(n uint64) uint64 { pt(); r := x.v.Swap(n); pt(); return r }
func (x *Uint64) Add(d uint64) uint64  { pt(); r := x.v.Add(d); pt(); return r }
func (x *Uint64) CompareAndSwap(o, n uint64) bool {
	pt()
	r := x.v.CompareAndSwap(o, n)
	pt()
	return r
}

func LoadUint64(a *uint64) uint64           { pt(); r := atomic.LoadUint64(a); pt(); return r }
func StoreUint64(a *uint64, n uint64)       { pt(); atomic.StoreUint64(a, n); pt() }
func SwapUint64(a *uint64, n uint64) uint64 { pt(); r := atomic.SwapUint64(a, n); pt(); return r }
func AddUint64(a *uint64, d uint64) uint64  { pt(); r := atomic.AddUint64(a, d); pt(); return r }
func CompareAndSwapUint64(a *uint64, o, n uint64) bool {
	pt()
	r := atomic.CompareAndSwapUint64(a, o, n)
	pt()
	return r
}

type Uintptr struct{ v atomic.Uintptr }

func (x *Uintptr) Load() uintptr          { pt(); r := x.v.Load(); pt(); return r }
func (x *Uintptr) Store(n uintptr)        { pt(); x.v.Store(n); pt() }
func (x *Uintptr) Swap(n uintptr) uintptr { pt(); r := x.v.Swap(n); pt(); return r }
func (x *Uintptr) Add(d uintptr) uintptr  { pt(); r := x.v.Add(d); pt(); return r }
func (x *Uintptr) CompareAndSwap(o, n uintptr) bool {
	pt()
	r := x.v.CompareAndSwap(o, n)
	pt()
	return r
}

func LoadUintptr(a *uintptr) uintptr            { pt(); r := atomic.LoadUintptr(a); pt(); return r }
func StoreUintptr(a *uintptr, n uintptr)        { pt(); atomic.StoreUintptr(a, n); pt() }
func SwapUintptr(a *uintptr, n uintptr) uintptr { pt(); r := atomic.SwapUintptr(a, n); pt(); return r }
func AddUintptr(a *uintptr, d uintptr) uintptr  { pt(); r := atomic.AddUintptr(a, d); pt(); return r }
func CompareAndSwapUintptr(a *uintptr, o, n uintptr) bool {
	pt()
	r := atomic.CompareAndSwapUintptr(a, o, n)
	pt()
	return r
}
