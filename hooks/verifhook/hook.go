//go:build verif

// Package verifhook is injected at build time (go build -tags verif -overlay …) as a virtual package of the
// gmsm module. It only re-exports internal APIs so that the external verification module can call them;
// it adds no code to existing packages and is never committed to the repository.
package verifhook

import (
	"github.com/emmansun/gmsm/internal/bigmod"
	"github.com/emmansun/gmsm/internal/sm2ec"
	"github.com/emmansun/gmsm/internal/sm9/bn256"
)

type (
	G1           = bn256.G1
	G2           = bn256.G2
	GT           = bn256.GT
	GTFieldTable = bn256.GTFieldTable
	Nat          = bigmod.Nat
	Modulus      = bigmod.Modulus
	SM2P256Point = sm2ec.SM2P256Point
)

var (
	Gen1                 = bn256.Gen1
	Gen2                 = bn256.Gen2
	Order                = bn256.Order
	OrderBytes           = bn256.OrderBytes
	Pair                 = bn256.Pair
	Miller               = bn256.Miller
	ScalarMultGT         = bn256.ScalarMultGT
	ScalarBaseMultGT     = bn256.ScalarBaseMultGT
	GenerateGTFieldTable = bn256.GenerateGTFieldTable
	NormalizeScalar      = bn256.NormalizeScalar
	RandomG1             = bn256.RandomG1
	RandomG2             = bn256.RandomG2
	RandomGT             = bn256.RandomGT
	NewSM2P256Point      = sm2ec.NewSM2P256Point
	P256OrdInverse       = sm2ec.P256OrdInverse
	P256OrdMul           = sm2ec.P256OrdMul
	ImplicitSig          = sm2ec.ImplicitSig
	NewNat               = bigmod.NewNat
	NewModulus           = bigmod.NewModulus
)
