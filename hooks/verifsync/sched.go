//go:build verif

// Package verifsync is injected at build time (go build -tags verif -overlay …) as a virtual package of the
// gmsm module. It provides (a) a cooperative, deterministic thread scheduler whose hand-offs are invisible
// to the race detector, and (b) drop-in shims for the sync primitives the library uses (Once, Mutex,
// RWMutex) that turn every synchronisation operation into a scheduling point while reproducing exactly the
// happens-before edges of the real primitives. The overlay redirects the import "sync" of the packages under
// test to this package; nothing is committed to the repository.
package verifsync

import (
	"fmt"
	"runtime"
	"runtime/debug"
	"sync"
)

// Re-exported primitives the shims do not model (not used by the library's shared objects).
type (
	WaitGroup = sync.WaitGroup
	Map       = sync.Map
	Locker    = sync.Locker
	Cond      = sync.Cond
)

func NewCond(l Locker) *Cond { return sync.NewCond(l) }

const (
	stRunnable = iota
	stBlocked
	stDone
)

// PointRec records one scheduling decision.
type PointRec struct {
	Enabled        []int // canonical order: the running thread first if still enabled, then ascending ids
	Chosen         int   // index into Enabled
	Running        int   // thread that reached the point (-1: controller / thread exit)
	RunningEnabled bool
	Kind           string
}

// Result is the outcome of one controlled execution.
type Result struct {
	Points     []PointRec
	Panics     []string // one entry per thread ("" = none)
	Deadlock   bool
	Diverged   bool // a choice of the replayed prefix was out of range: harness error
	Capped     bool // point cap hit
	AbortCause string
}

// scheduler state: touched only inside //go:norace functions, so the race detector sees no
// happens-before edge from hand-offs.
var (
	active     bool
	cur        int // thread holding the turn; -1 controller; -2 nobody (aborting)
	status     []int
	blockedOn  []any
	prefix     []int
	step       int
	points     []PointRec
	aborted    bool
	abortCause string
	deadlock   bool
	diverged   bool
	capped     bool
	maxPoints  int
	panics     []string
	trackOnces bool
	onceReg    []*Once
	yieldOn    bool
)

//go:norace
func isActive() bool { return active }

//go:norace
func curThread() int { return cur }

// schedule records a decision point reached by thread me (meEnabled tells whether me may continue) and
// hands the turn to the chosen thread.
//
//go:norace
func schedule(me int, meEnabled bool, kind string) {
	if aborted {
		return
	}
	var enabled []int
	if me >= 0 && meEnabled {
		enabled = append(enabled, me)
	}
	for i, s := range status {
		if s == stRunnable && i != me {
			enabled = append(enabled, i)
		}
	}
	if len(enabled) == 0 {
		all := true
		for _, s := range status {
			if s != stDone {
				all = false
			}
		}
		if !all {
			deadlock = true
			aborted = true
			abortCause = "deadlock: no enabled thread"
		}
		cur = -1
		return
	}
	if len(points) >= maxPoints {
		capped = true
		aborted = true
		abortCause = "point cap"
		cur = -1
		return
	}
	choice := 0
	if step < len(prefix) {
		choice = prefix[step]
		if choice < 0 || choice >= len(enabled) {
			diverged = true
			aborted = true
			abortCause = fmt.Sprintf("replay divergence at point %d: choice %d of %d", step, choice, len(enabled))
			cur = -1
			return
		}
	}
	step++
	points = append(points, PointRec{Enabled: enabled, Chosen: choice, Running: me, RunningEnabled: me >= 0 && meEnabled, Kind: kind})
	cur = enabled[choice]
}

// waitTurn spins (yielding the processor) until thread me holds the turn. On abort the goroutine exits.
//
//go:norace
func waitTurn(me int) {
	for cur != me {
		if aborted {
			runtime.Goexit()
		}
		runtime.Gosched()
	}
	if aborted {
		runtime.Goexit()
	}
}

//go:norace
func waitController() {
	for cur != -1 {
		runtime.Gosched()
	}
}

// point is a scheduling point of the running thread.
//
//go:norace
func point(kind string) {
	if !active {
		return
	}
	me := cur
	if me < 0 {
		return
	}
	schedule(me, true, kind)
	waitTurn(me)
}

// block parks the running thread on obj until wake(obj) makes it runnable and it is scheduled again.
//
//go:norace
func block(obj any, kind string) {
	me := cur
	status[me] = stBlocked
	blockedOn[me] = obj
	schedule(me, false, kind)
	waitTurn(me)
}

//go:norace
func wake(obj any) {
	for i := range status {
		if status[i] == stBlocked && blockedOn[i] == obj {
			status[i] = stRunnable
			blockedOn[i] = nil
		}
	}
}

//go:norace
func threadExit(me int, pmsg string) {
	panics[me] = pmsg
	status[me] = stDone
	if aborted {
		return
	}
	schedule(me, false, "exit")
}

//go:norace
func setup(n int, pre []int, maxPts int) {
	status = make([]int, n)
	blockedOn = make([]any, n)
	panics = make([]string, n)
	prefix = pre
	step = 0
	points = nil
	aborted, deadlock, diverged, capped = false, false, false, false
	abortCause = ""
	maxPoints = maxPts
	cur = -2
	active = true
}

//go:norace
func teardown() Result {
	active = false
	r := Result{Points: points, Panics: panics, Deadlock: deadlock, Diverged: diverged, Capped: capped, AbortCause: abortCause}
	points = nil
	return r
}

//go:norace
func isAborted() bool { return aborted }

// Yield is a scheduling point inserted at function entries of orchestration-level code.
func Yield() {
	if yieldEnabled() {
		point("yield")
	}
}

//go:norace
func yieldEnabled() bool { return active && yieldOn }

// SetYield switches the function-entry scheduling points on or off (sync points are always on).
//
//go:norace
func SetYield(on bool) { yieldOn = on }

// OpBoundary is a scheduling point the SCENARIO places between two library calls of a thread (always on). With it
// the explorer interleaves two threads at operation granularity, so that conflicting accesses of the same operation
// on two threads lie next to each other in time (the race detector reports a conflict that lies far back in a
// thread's history only sometimes).
func OpBoundary() { point("op") }

// Run executes the thread bodies under the controlled scheduler: choices are taken from pre, then the
// default (index 0: keep running the current thread). It returns after all threads have finished or the
// execution was aborted (deadlock, divergence, point cap).
func Run(fns []func(), pre []int, maxPts int) Result {
	var wg sync.WaitGroup
	setup(len(fns), pre, maxPts)
	for i := range fns {
		wg.Add(1)
		go func(id int) {
			defer wg.Done()
			pmsg := ""
			defer func() {
				if r := recover(); r != nil {
					pmsg = fmt.Sprintf("panic: %v\n%s", r, debug.Stack())
				}
				threadExit(id, pmsg)
			}()
			waitTurn(id)
			fns[id]()
		}(i)
	}
	schedule(-1, false, "start")
	waitController()
	wg.Wait() // real happens-before edge from every thread's end to the controller
	return teardown()
}

// TrackOnces makes every Once that runs its function register itself so that ResetOnces can return all of
// them (in particular package-level ones) to the not-done state between executions.
//
//go:norace
func TrackOnces(on bool) { trackOnces = on }

//go:norace
func registerOnce(o *Once) {
	if trackOnces {
		onceReg = append(onceReg, o)
	}
}

// ResetOnces resets every registered Once. Must be called from the controller between executions.
func ResetOnces() int {
	n := len(onceReg)
	for _, o := range onceReg {
		o.done.Store(0)
	}
	onceReg = nil
	return n
}

// AtomicPoint is the scheduling point of the sync/atomic shim (hooks/verifatomic): always on, like the sync points.
func AtomicPoint() { point("atomic") }
