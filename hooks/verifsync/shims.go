//go:build verif

package verifsync

import (
	"sync"
	"sync/atomic"
)

// Once is a scheduler-aware sync.Once. The done flag is a real atomic, so the race detector sees exactly the
// edge "completion of f happens-before return of every Do" that the real primitive gives; all other
// bookkeeping is invisible to it.
type Once struct {
	done    atomic.Uint32
	m       sync.Mutex // used only outside the scheduler
	running bool       // touched only in norace helpers
}

//go:norace
func (o *Once) isRunning() bool { return o.running }

//go:norace
func (o *Once) setRunning(v bool) { o.running = v }

func (o *Once) Do(f func()) {
	if !isActive() {
		if o.done.Load() == 1 {
			return
		}
		o.m.Lock()
		defer o.m.Unlock()
		if o.done.Load() == 0 {
			defer o.done.Store(1)
			registerOnce(o)
			f()
		}
		return
	}
	// A Do on a completed Once is an acquire-load that commutes with every later operation of every thread, so it
	// is not a scheduling point (sound partial-order reduction for data-race-free executions; races are reported
	// by the detector independently of the schedule).
	if o.done.Load() == 1 {
		return
	}
	point("once.do")
	if o.done.Load() == 1 {
		return
	}
	for o.isRunning() {
		block(o, "once.wait")
		if o.done.Load() == 1 {
			return
		}
	}
	if o.done.Load() == 1 {
		return
	}
	o.setRunning(true)
	registerOnce(o)
	// the initialisation is in progress: let the other threads observe this state (a Do that has to wait, a struct
	// copy taken meanwhile, a reader of the half-built cache)
	point("once.enter")
	defer func() {
		o.done.Store(1)
		o.setRunning(false)
		wake(o)
		if !isAborted() {
			point("once.done")
		}
	}()
	f()
}

// Mutex is a scheduler-aware sync.Mutex: the model decides who may take it, the embedded real mutex gives the
// race detector the release→acquire edge.
type Mutex struct {
	real   sync.Mutex
	locked bool
}

//go:norace
func (m *Mutex) isLocked() bool { return m.locked }

//go:norace
func (m *Mutex) setLocked(v bool) { m.locked = v }

func (m *Mutex) Lock() {
	if !isActive() {
		m.real.Lock()
		return
	}
	point("mutex.lock")
	for m.isLocked() {
		block(m, "mutex.wait")
	}
	m.setLocked(true)
	m.real.Lock()
}

func (m *Mutex) TryLock() bool {
	if !isActive() {
		return m.real.TryLock()
	}
	point("mutex.trylock")
	if m.isLocked() {
		return false
	}
	m.setLocked(true)
	m.real.Lock()
	return true
}

func (m *Mutex) Unlock() {
	if !isActive() {
		m.real.Unlock()
		return
	}
	m.real.Unlock()
	m.setLocked(false)
	wake(m)
	point("mutex.unlock")
}

// RWMutex is a scheduler-aware sync.RWMutex (writer preference is not modelled: any enabled order is explored).
type RWMutex struct {
	real    sync.RWMutex
	writer  bool
	readers int
}

//go:norace
func (m *RWMutex) canRead() bool { return !m.writer }

//go:norace
func (m *RWMutex) canWrite() bool { return !m.writer && m.readers == 0 }

//go:norace
func (m *RWMutex) addReader(d int) { m.readers += d }

//go:norace
func (m *RWMutex) setWriter(v bool) { m.writer = v }

func (m *RWMutex) RLock() {
	if !isActive() {
		m.real.RLock()
		return
	}
	point("rw.rlock")
	for !m.canRead() {
		block(m, "rw.rwait")
	}
	m.addReader(1)
	m.real.RLock()
}

func (m *RWMutex) RUnlock() {
	if !isActive() {
		m.real.RUnlock()
		return
	}
	m.real.RUnlock()
	m.addReader(-1)
	wake(m)
	point("rw.runlock")
}

func (m *RWMutex) Lock() {
	if !isActive() {
		m.real.Lock()
		return
	}
	point("rw.lock")
	for !m.canWrite() {
		block(m, "rw.wait")
	}
	m.setWriter(true)
	m.real.Lock()
}

func (m *RWMutex) Unlock() {
	if !isActive() {
		m.real.Unlock()
		return
	}
	m.real.Unlock()
	m.setWriter(false)
	wake(m)
	point("rw.unlock")
}

func (m *RWMutex) TryLock() bool {
	if !isActive() {
		return m.real.TryLock()
	}
	point("rw.trylock")
	if !m.canWrite() {
		return false
	}
	m.setWriter(true)
	m.real.Lock()
	return true
}

func (m *RWMutex) TryRLock() bool {
	if !isActive() {
		return m.real.TryRLock()
	}
	point("rw.tryrlock")
	if !m.canRead() {
		return false
	}
	m.addReader(1)
	m.real.RLock()
	return true
}

func (m *RWMutex) RLocker() sync.Locker { return (*rlocker)(m) }

type rlocker RWMutex

func (r *rlocker) Lock()   { (*RWMutex)(r).RLock() }
func (r *rlocker) Unlock() { (*RWMutex)(r).RUnlock() }

// OnceFunc / OnceValue / OnceValues built on the shim.
func OnceFunc(f func()) func() {
	var o Once
	return func() { o.Do(f) }
}

func OnceValue[T any](f func() T) func() T {
	var o Once
	var v T
	return func() T { o.Do(func() { v = f() }); return v }
}

func OnceValues[T1, T2 any](f func() (T1, T2)) func() (T1, T2) {
	var o Once
	var v1 T1
	var v2 T2
	return func() (T1, T2) { o.Do(func() { v1, v2 = f() }); return v1, v2 }
}

// Pool is a deterministic stand-in for sync.Pool. The real pool, when built with the race detector, drops a quarter of
// all Puts at random and keeps per-P caches - randomness the explorer does not own, which made a conflict on a pooled
// buffer reproduce in some worker processes and not in others. Here Put always keeps the item (LIFO) and Get always
// returns the most recently put one, which is also the schedule in which a buffer released too early is handed to the
// next user at once. The happens-before edges are the real pool's: Put(x) happens before the Get that returns x, for
// that x only (a per-item release/acquire pair); nothing else is ordered. The item list itself is manipulated in
// norace functions: the controlled scheduler runs one thread at a time.
type Pool struct {
	New   func() any
	items []*poolItem
}

type poolItem struct {
	v    any
	flag uint32
}

//go:norace
func (p *Pool) push(it *poolItem) { p.items = append(p.items, it) }

//go:norace
func (p *Pool) pop() *poolItem {
	if len(p.items) == 0 {
		return nil
	}
	it := p.items[len(p.items)-1]
	p.items = p.items[:len(p.items)-1]
	return it
}

// Put adds x to the pool.
func (p *Pool) Put(x any) {
	if x == nil {
		return
	}
	it := &poolItem{v: x}
	atomic.StoreUint32(&it.flag, 1) // release: everything the caller did to x so far
	p.push(it)
	point("pool.put")
}

// Get takes the most recently put item, or calls New.
func (p *Pool) Get() any {
	point("pool.get")
	if it := p.pop(); it != nil {
		atomic.LoadUint32(&it.flag) // acquire: pairs with the Put of this item
		return it.v
	}
	if p.New != nil {
		return p.New()
	}
	return nil
}
