// Package c01: SM3 digest histories (E1) and SM3-KDF shapes (E2) on every dispatch tier.
package c01

import (
	"bytes"
	"encoding"
	"fmt"
	"hash"

	"github.com/emmansun/gmsm/kdf"
	"github.com/emmansun/gmsm/sm3"

	"verif/engine"
	"verif/ref/sm3ref"
)

type Prop struct{}

func (Prop) ID() string    { return "C01" }
func (Prop) Level() string { return "model_checking" }
func (Prop) Configs(tier string) []string {
	// SM3 dispatch depends on avx2+bmi2 / avx|ssse3 / none, and the purego tag.
	// c-avxoff / c-ssse3off: single flags off while the wider ones stay on (the flags do not cascade)
	if tier == "thorough" {
		return []string{"c-default", "c-noavx2", "c-sse", "c-scalar", "c-nobmi2", "c-purego", "c-avxoff", "c-ssse3off"}
	}
	return []string{"c-default", "c-noavx2", "c-sse", "c-scalar", "c-nobmi2", "c-purego", "c-avxoff"}
}
func (Prop) SelfTest() error { return sm3ref.StreamSelfTest() } // includes sm3ref.SelfTest
func (Prop) Rule() string {
	return "E1: BFS (depth 4 quick / 5 thorough, sharded by first operation) plus deviation-bounded histories (default write to horizon 8 with <= 2 departures; thorough: horizon 14 with <= 2 and horizon 6 with <= 3) over {Write(c) for 22 chunk sizes, Reset, Marshal->Unmarshal into fresh / used object} on a real sm3.New() object, " +
		"oracle after every step = reference SM3 of the bytes since the last Reset via Sum(nil) and Sum(prefix), Sum must leave the private state dump unchanged; " +
		"states are merged only on identical full private state (h, x incl. stale bytes, nx, len) + model length. " +
		"KDF call histories: every ordered pair (z1, z2) over 14 residue classes x key lengths {97,225,300}^2, both calls compared with the reference (a result must not depend on an earlier call). E2: full product len(z) x keyLen for sm3.Kdf, kdf.Kdf(sm3.New), kdf.Kdf over wrappers hiding KdfInterface / BinaryMarshaler, against SM3(z||ct) concatenation. " +
		"distinct_nontrivial counts distinct reached states plus distinct (len(z) mod 64, output-block-count, partial-last-block) KDF classes. " +
		"In the machine every written buffer must come back unchanged and is overwritten at once; the importing object has been summed before. " +
		"Widened input dimensions (widen.go, widen_kdf.go, case names widen/...), each exhaustive over its alphabet: " +
		"place: messages of every length 0..1100 (thorough 0..4300, crossing a page) ending at an unmapped page, whole and split after 1/63/64 bytes, every address offset mod 64 x 19 lengths inside a dirty arena that must stay unchanged, single calls of 8 KiB..1 MiB+1; " +
		"split: full product buffered bytes 0..130 x next write 0..330 with Sum in between, and 0..64 x 0..130 x 8 third writes; " +
		"sum-cap: Sum(in) for nil / empty / 1 / 5 byte prefixes x 0,1,31,32,33,64 dirty spare bytes after 0..130 bytes: prefix and everything behind the appended digest unchanged, result overwritten to its capacity, four results held at once; " +
		"own: two exports held at once, overwritten to capacity, object dump unchanged by that, copies importable, exporter continues; AppendBinary for 2 prefixes x 7 capacity classes; exports of two objects held and swapped; " +
		"import: the argument inside a dirty record imported three times, unchanged; nil, every truncation, 3 extensions, 8 magic alterations: no panic, argument unchanged, then good import / Reset / same buffer repaired gives the right digests (whether such input is refused is not judged); " +
		"pair: all histories up to depth 4 (thorough 5) over 22 operations on two live objects (7 write sizes each, Reset, state copies both ways, digest of A fed to B, export of A held and imported later into A or B), both digests taken after every step; " +
		"values: 8 constant/extreme contents x every length 0..260 (thorough 0..700), appendix vectors of GB/T 32905 compared directly at every split; " +
		"len: exported states (layout verified against real exports, else skipped) continued with the length field set to 2^29-64 .. 2^61-256 x 5 buffered-byte classes x 2 chaining values, compared with the reference iteration continued from the same chaining value; thorough: a real message of 2^29+200 bytes with 12 checkpoints around bit length 2^32 and an export/import at 2^29-1; " +
		"kdf-arg: 5 entry points x 17 len(z) x 8 spare-capacity classes x 2 offsets x 5 key lengths, twice per record, record unchanged; nil/empty z; z ending at an unmapped page for len(z) 0..200; " +
		"kdf-own: result overwritten to capacity and call repeated, same slice with new contents, two results held; " +
		"kdf-method: the Kdf method of a hash object after 9 object histories x 14 len(z) x 6 key lengths, object usable after Reset; all ordered pairs (14 x 4)^2 on one object plus the first call again; interleave: a KDF call (4 entry points) between two writes of a running hash object; " +
		"kdf-lanes: len(z) 0..127 and 10 longer x output blocks 11..34 x {first byte, last byte, end} of the last block for the lane entry points, counters crossing 255|256 (9 len(z) x 10 key lengths x 5 entry points) and 65535|65536 (3 len(z)); " +
		"kdf-history: (14 len(z) x 7 lane classes)^2 x 3^2 ordered pairs of entry points, first call repeated after the second."
}
func (Prop) Assumptions() []string {
	return []string{
		"reference SM3 transcribed from GB/T 32905 and anchored by its two appendix vectors",
		"dispatch tiers are those reachable on this amd64 host via GODEBUG=cpu.*=off and -tags purego; arm64/ppc64le/s390x assembly is not covered",
		"bit lengths >= 2^32 are reached in the quick tier only through exported states whose length field the harness sets (sound for the state layout magic|h|x|len, which is verified against real exports first; the oracle is the standard's iteration continued from the same chaining value); a real 2^29+200 byte message runs in the thorough tier only; single Write calls of 4 GiB or more are not explored",
		"whether UnmarshalBinary refuses a byte string that no export produces is not judged (only: no panic, argument untouched, the object recovers by a good import or Reset)",
		"an appending call (Sum, AppendBinary) may use the spare capacity of its argument up to the end of what it appends; bytes behind the result must stay",
	}
}

var chunks = []int{0, 1, 3, 55, 56, 57, 63, 64, 65, 119, 120, 127, 128, 129, 191, 192, 193, 256, 511, 512, 513, 1031}

func content(pos int) byte { return byte(pos*7+3) ^ byte(pos>>8) ^ byte(pos>>5) }

func msgOf(n int) []byte {
	b := make([]byte, n)
	for i := range b {
		b[i] = content(i)
	}
	return b
}

var refCache = map[int][32]byte{}

func refSum(n int) [32]byte {
	if v, ok := refCache[n]; ok {
		return v
	}
	v := sm3ref.Sum(msgOf(n))
	refCache[n] = v
	return v
}

type state struct {
	h hash.Hash
	n int // bytes since last reset (model)
}

func machine() engine.Machine[*state] {
	ops := []string{}
	for _, c := range chunks {
		ops = append(ops, fmt.Sprintf("Write(%d)", c))
	}
	ops = append(ops, "Reset", "Marshal>UnmarshalFresh", "Marshal>UnmarshalUsed")
	nW := len(chunks)
	return engine.Machine[*state]{
		Name: "sm3.New",
		New:  func() *state { return &state{h: sm3.New()} },
		Ops:  ops,
		Step: func(s *state, op int, t *engine.T) bool {
			switch {
			case op < nW:
				c := chunks[op]
				buf := make([]byte, c)
				for i := range buf {
					buf[i] = content(s.n + i)
				}
				n, err := s.h.Write(buf)
				if n != c || err != nil {
					t.Fail("hash/write-return", "Write(%d) returned (%d,%v)", c, n, err)
					return false
				}
				// the written buffer stays the caller's: it must come back unchanged and is reused (overwritten) at once,
				// as io.Copy does with its buffer
				for i := range buf {
					if buf[i] != content(s.n+i) {
						t.Fail("hash/write-modifies-argument", "Write(%d) changed byte %d of its argument", c, i)
						return false
					}
					buf[i] = 0x5a
				}
				s.n += c
			case op == nW:
				s.h.Reset()
				s.n = 0
			default:
				m, ok := s.h.(encoding.BinaryMarshaler)
				if !ok {
					t.Fail("hash/no-marshaler", "sm3.New() does not implement BinaryMarshaler")
					return false
				}
				st, err := m.MarshalBinary()
				if err != nil {
					t.Fail("hash/marshal-error", "MarshalBinary: %v", err)
					return false
				}
				nh := sm3.New()
				if op == nW+2 {
					nh.Write(msgOf(100)[7:])
					nh.Sum(nil) // anything a Sum leaves behind in the importing object must not survive the import
				}
				// the exported state sits in a buffer with dirty spare capacity and is overwritten after the import
				stb := make([]byte, len(st)+16)
				for i := range stb {
					stb[i] = 0xa5
				}
				copy(stb, st)
				if err := nh.(encoding.BinaryUnmarshaler).UnmarshalBinary(stb[:len(st)]); err != nil {
					t.Fail("hash/unmarshal-error", "UnmarshalBinary of own state: %v", err)
					return false
				}
				for i := range stb {
					stb[i] = 0x5a
				}
				for i := range st {
					st[i] = 0x5a
				}
				s.h = nh
			}
			// oracle after every step
			before := engine.DumpString(s.h)
			got := s.h.Sum(nil)
			want := refSum(s.n)
			if !bytes.Equal(got, want[:]) {
				t.Fail("hash/digest-mismatch", "after %d bytes: Sum=%x want %x", s.n, got, want)
				return false
			}
			// Sum(prefix) for every capacity class of the prefix: none, one byte short of the digest, exact fit, ample;
			// the spare capacity is dirty, and every returned slice is overwritten afterwards (it belongs to the caller:
			// a digest handed out from inside the object would be corrupted for the next call)
			for i := range got {
				got[i] = 0x5a
			}
			for _, spare := range []int{0, 31, 32, 40} {
				buf := make([]byte, 5+spare)
				for i := range buf {
					buf[i] = 0xa5
				}
				pre := buf[:5]
				copy(pre, "abcde")
				got2 := s.h.Sum(pre)
				if len(got2) != 37 || string(got2[:5]) != "abcde" || !bytes.Equal(got2[5:], want[:]) {
					t.Fail(fmt.Sprintf("hash/sum-append/spare=%d", spare), "Sum(prefix with %d spare bytes) = %x want abcde||%x", spare, got2, want)
					return false
				}
				if string(pre) != "abcde" {
					t.Fail("hash/sum-append/prefix-modified", "Sum modified its argument")
					return false
				}
				for i := range got2 {
					got2[i] = 0x5a
				}
			}
			if engine.DumpString(s.h) != before {
				t.Fail("hash/sum-disturbs-state", "private state changed by Sum after %d bytes", s.n)
				return false
			}
			if s.h.Size() != 32 || s.h.BlockSize() != 64 {
				t.Fail("hash/size", "Size=%d BlockSize=%d", s.h.Size(), s.h.BlockSize())
			}
			return true
		},
		Key: func(s *state) string { return engine.DumpString(s.h) + fmt.Sprint(s.n) },
	}
}

// wrappers that hide the fast-path interfaces of the hash from kdf.Kdf
type plainHash struct{ h hash.Hash }

func (p plainHash) Write(b []byte) (int, error) { return p.h.Write(b) }
func (p plainHash) Sum(b []byte) []byte         { return p.h.Sum(b) }
func (p plainHash) Reset()                      { p.h.Reset() }
func (p plainHash) Size() int                   { return p.h.Size() }
func (p plainHash) BlockSize() int              { return p.h.BlockSize() }

type marshalHash struct{ plainHash }

func (m marshalHash) MarshalBinary() ([]byte, error) {
	return m.h.(encoding.BinaryMarshaler).MarshalBinary()
}
func (m marshalHash) UnmarshalBinary(b []byte) error {
	return m.h.(encoding.BinaryUnmarshaler).UnmarshalBinary(b)
}

func zClass(nz int) string {
	r := nz % 64
	switch {
	case r < 52:
		return "0..51"
	case r < 56:
		return "52..55"
	case r < 60:
		return "56..59"
	default:
		return "60..63"
	}
}
func laneClass(n int) string {
	bl := (n + 31) / 32
	switch {
	case bl < 4:
		return "<4"
	case bl < 8:
		return "4..7"
	default:
		return ">=8"
	}
}

func (Prop) Run(c *engine.Ctx) {
	// E1: BFS sharded by the first operation (one case per first op), remaining depth below it
	depth := 4
	if !c.Quick() {
		depth = 5
	}
	base := machine()
	for first := range base.Ops {
		first := first
		c.Case(fmt.Sprintf("hash/bfs/first=%s/depth=%d", base.Ops[first], depth), func(t *engine.T) {
			m := machine()
			inner := m.New
			m.Name = "sm3.New;" + m.Ops[first]
			m.New = func() *state {
				s := inner()
				if !m.Step(s, first, t) {
					t.Fail("hash/first-op-failed", "first operation %s failed", m.Ops[first])
				}
				return s
			}
			engine.BFS(t, m, depth-1)
		})
	}
	// deviation-bounded long histories: a default write repeated to the horizon with <= b departures
	hb := [][2]int{{8, 2}}
	if !c.Quick() {
		hb = [][2]int{{14, 2}, {6, 3}}
	}
	for _, x := range hb {
		h, b := x[0], x[1]
		for _, def := range []int{7, 1, 4} { // Write(64), Write(1), Write(56)
			def := def
			c.Case(fmt.Sprintf("hash/deviations/def=%s/h=%d/b=%d", base.Ops[def], h, b), func(t *engine.T) {
				engine.Deviations(t, machine(), def, h, b)
			})
		}
	}
	// one-shot sm3.Sum for all lengths 0..600 (every residue mod 64 across 1..9 blocks)
	c.Case("hash/oneshot/0..600", func(t *engine.T) {
		for n := 0; n <= 600; n++ {
			got := sm3.Sum(msgOf(n))
			if got != refSum(n) {
				t.Fail("hash/oneshot-mismatch", "sm3.Sum(len %d) = %x want %x", n, got, refSum(n))
				return
			}
			t.Eval(1)
			t.Nontrivial(fmt.Sprintf("oneshot/%d", n))
		}
	})
	// KDF call histories: the result must not depend on what an earlier call in the same process left behind
	// (pooled or hoisted scratch buffers): every ordered pair (z1, z2) over residue classes, both calls checked.
	histZ := []int{0, 8, 40, 51, 52, 55, 56, 59, 60, 63, 64, 100, 127, 192}
	histK := []int{97, 225, 300}
	for _, n1 := range histZ {
		n1 := n1
		c.Case(fmt.Sprintf("kdf/history/first-z=%d", n1), func(t *engine.T) {
			mk := func(n int) []byte {
				z := make([]byte, n)
				for i := range z {
					z[i] = content(i + 11)
				}
				return z
			}
			z1 := mk(n1)
			for _, n2 := range histZ {
				z2 := mk(n2)
				for _, k1 := range histK {
					for _, k2 := range histK {
						for _, api := range []struct {
							name string
							f    func(z []byte, n int) []byte
						}{{"sm3.Kdf", sm3.Kdf}, {"kdf.Kdf(sm3.New)", func(z []byte, n int) []byte { return kdf.Kdf(sm3.New, z, n) }}} {
							a := api.f(z1, k1)
							b := api.f(z2, k2)
							t.Eval(2)
							if w := sm3ref.KDF(z1, k1); !bytes.Equal(a, w) {
								t.Fail("kdf/history/first-call-mismatch", "%s(len(z)=%d, %d) = %s want %s", api.name, n1, k1, engine.Hex(a), engine.Hex(w))
							}
							if w := sm3ref.KDF(z2, k2); !bytes.Equal(b, w) {
								t.Fail(fmt.Sprintf("kdf/history/%s/second-call-depends-on-first", api.name), "%s(len(z)=%d, %d) after %s(len(z)=%d, %d): got %s want %s (first difference at byte %d)", api.name, n2, k2, api.name, n1, k1, engine.Hex(b), engine.Hex(w), engine.FirstDiff(b, w))
							}
						}
					}
				}
				t.Nontrivial(fmt.Sprintf("kdf-history/%d/%d", n1, n2))
			}
		})
	}
	// E2 KDF
	var zl []int
	for i := 0; i <= 200; i++ {
		zl = append(zl, i)
	}
	zl = append(zl, 255, 256, 257, 1000)
	maxKey := 300
	if !c.Quick() {
		maxKey = 1100
	}
	for _, nz := range zl {
		nz := nz
		c.Case(fmt.Sprintf("kdf/z=%d/keyLen=0..%d", nz, maxKey), func(t *engine.T) {
			z := make([]byte, nz)
			for i := range z {
				z[i] = content(i + 11)
			}
			want := sm3ref.KDF(z, maxKey)
			apis := []struct {
				name string
				f    func(n int) []byte
			}{
				{"sm3.Kdf", func(n int) []byte { return sm3.Kdf(z, n) }},
				{"kdf.Kdf(sm3.New)", func(n int) []byte { return kdf.Kdf(sm3.New, z, n) }},
				{"kdf.Kdf(marshal-only)", func(n int) []byte {
					return kdf.Kdf(func() hash.Hash { return marshalHash{plainHash{sm3.New()}} }, z, n)
				}},
				{"kdf.Kdf(plain)", func(n int) []byte {
					return kdf.Kdf(func() hash.Hash { return plainHash{sm3.New()} }, z, n)
				}},
			}
			zc := append([]byte{}, z...)
			for n := 0; n <= maxKey; n++ {
				for ai, a := range apis {
					if ai >= 2 && n%7 != 0 && n > 70 { // generic paths: every length up to 70, then every 7th
						continue
					}
					got := a.f(n)
					t.Eval(1)
					if len(got) != n || !bytes.Equal(got, want[:n]) {
						d := engine.FirstDiff(got, want[:n])
						t.Fail(fmt.Sprintf("kdf/%s/zmod64=%s/blocks%s", a.name, zClass(nz), laneClass(n)),
							"%s(len(z)=%d, keyLen=%d): first difference at byte %d (output block %d); got %s want %s", a.name, nz, n, d, d/32, engine.Hex(got), engine.Hex(want[:n]))
					}
				}
				t.Nontrivial(fmt.Sprintf("kdf/%d/%d/%d", nz%64, (n+31)/32, n%32))
			}
			if !bytes.Equal(z, zc) {
				t.Fail("kdf/input-modified", "z modified by Kdf")
			}
			if nz == 61 {
				t.Sample(map[string]any{"kdf": "sm3.Kdf", "len_z": nz, "keyLen": fmt.Sprintf("0..%d", maxKey)})
			}
		})
	}
	// the generic input dimensions of DESIGN.md 11.4 / 11.5 (widen.go, widen_kdf.go)
	runWiden(c)
}
