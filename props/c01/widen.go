package c01

// Widening of C01 in the generic input dimensions of DESIGN.md §11.4 / §11.5 (hash object and one-shot digest; the
// KDF families are in widen_kdf.go). Every family is a bounded exhaustive enumeration over the alphabet stated at
// its head; the oracle is always the reference SM3 of the bytes fed since the last Reset, plus what the property
// plainly implies for memory the caller owns:
//
//	place    the message sits directly in front of an unmapped page (a read past its end kills the worker) and at
//	         every address offset mod 64 inside a dirty arena (Write/Sum must not modify the message or anything
//	         around it);
//	split    every (buffered bytes nx, length of the next Write) pair and a three-way product, Sum between the writes;
//	sum-cap  capacity classes of Sum's argument (nil, empty, 1 and 5 byte prefix x no / one short / exact / ample
//	         dirty spare capacity), nothing behind the 32 appended bytes is written, the result is the caller's;
//	own      MarshalBinary / AppendBinary results are the caller's: two live exports do not alias each other or the
//	         object, also across two objects, the exporting object goes on undisturbed; AppendBinary capacity classes;
//	import   UnmarshalBinary leaves its argument alone, the same buffer imports twice, a refused import (every
//	         truncation, extension, altered magic, nil) neither panics nor prevents a later good import / Reset;
//	pair     two live objects used alternately incl. state copies in both directions and digests fed to the other;
//	values   constant and extreme message contents, the GB/T 32905 appendix vectors compared directly;
//	len      the 64-bit length field: states continued at 2^29, 2^32, 2^40, 2^56, 2^61-256 bytes (bit length
//	         crossing 2^32 and reaching the top of the field), and in the thorough tier a real 2^29+200 byte message.

import (
	"bytes"
	"encoding"
	"encoding/binary"
	"encoding/hex"
	"fmt"
	"hash"
	"unsafe"

	"github.com/emmansun/gmsm/sm3"

	"verif/engine"
	"verif/ref/sm3ref"
)

func runWiden(c *engine.Ctx) {
	widenPlace(c)
	widenSplit(c)
	widenSumCap(c)
	widenOwnState(c)
	widenImport(c)
	widenTwoObjects(c)
	widenValues(c)
	widenLength(c)
	widenKdfArgs(c)
	widenKdfOwn(c)
	widenKdfMethod(c)
	widenKdfLanes(c)
	widenKdfHistory(c)
}

func dirtyFill(b []byte, salt int) {
	for i := range b {
		b[i] = 0xD7 ^ byte(i*13) ^ byte(salt*29)
	}
}

func fill(b []byte, v byte) {
	for i := range b {
		b[i] = v
	}
}

func clone(b []byte) []byte { return append([]byte{}, b...) }

// contentRange returns content(from..from+n).
func contentRange(from, n int) []byte {
	b := make([]byte, n)
	for i := range b {
		b[i] = content(from + i)
	}
	return b
}

// reference digests of arbitrary byte strings, cached (bounded)
var refAny = map[string][32]byte{}

func refOf(m []byte) [32]byte {
	if v, ok := refAny[string(m)]; ok {
		return v
	}
	if len(refAny) > 40000 {
		refAny = map[string][32]byte{}
	}
	v := sm3ref.Sum(m)
	refAny[string(m)] = v
	return v
}

// digestIs compares a digest with the reference value and reports under key.
func digestIs(t *engine.T, key string, got []byte, want [32]byte, format string, a ...any) bool {
	if bytes.Equal(got, want[:]) {
		return true
	}
	t.Fail(key, "%s: got %x want %x", fmt.Sprintf(format, a...), got, want)
	return false
}

// ---------------------------------------------------------------------------------------------
// place: where the message lies in memory

func widenPlace(c *engine.Ctx) {
	maxN := 1100
	if !c.Quick() {
		maxN = 4300 // the message spans a page boundary
	}
	var lens []int
	for n := 0; n <= maxN; n++ {
		lens = append(lens, n)
	}
	if c.Quick() {
		lens = append(lens, 4095, 4096, 4097, 4159, 4160, 4161)
	}
	const group = 300
	for lo := 0; lo < len(lens); lo += group {
		hi := lo + group
		if hi > len(lens) {
			hi = len(lens)
		}
		part := lens[lo:hi]
		c.Case(fmt.Sprintf("widen/place/guard-end/len=%d..%d", part[0], part[len(part)-1]), func(t *engine.T) {
			for _, n := range part {
				var pool engine.Pool
				g := pool.Get(n)
				orig := msgOf(n)
				copy(g, orig)
				want := refSum(n)
				if got := sm3.Sum(g); got != want {
					t.Fail("place/guard-end/oneshot-mismatch", "sm3.Sum of %d bytes ending at a page end = %x want %x", n, got, want)
				}
				t.Eval(1)
				h := sm3.New()
				h.Write(g)
				digestIs(t, "place/guard-end/digest-mismatch", h.Sum(nil), want, "Write(%d bytes ending at a page end)", n)
				t.Eval(2)
				for _, k := range []int{1, 63, 64} {
					if k >= n {
						continue
					}
					h.Reset()
					h.Write(g[:k])
					h.Write(g[k:])
					digestIs(t, "place/guard-end/digest-mismatch", h.Sum(nil), want, "Write(%d) then Write(%d bytes ending at a page end)", k, n-k)
					t.Eval(4)
				}
				if !bytes.Equal(g, orig) {
					t.Fail("place/guard-end/input-modified", "message of %d bytes modified by Write/Sum (first difference at %d)", n, engine.FirstDiff(g, orig))
				}
				if !pool.Release() {
					t.Fail("place/guard-end/write-before-input", "bytes in front of the %d-byte message were written", n)
				}
				t.Nontrivial(fmt.Sprintf("place/guard/%d", n))
				if t.Failed() {
					return
				}
			}
			t.Outcome("place/guard-end/ok")
		})
	}
	c.Case("widen/place/large", func(t *engine.T) {
		// one call with many blocks (loop counters beyond 8 and 16 bits), ending at a page end
		for _, n := range []int{8191, 8192, 8193, 16383 + 64, 65535, 65536, 65599, 1<<20 + 1} {
			var pool engine.Pool
			g := pool.Get(n)
			for i := range g {
				g[i] = content(i)
			}
			want := sm3ref.Sum(g)
			if got := sm3.Sum(g); got != want {
				t.Fail("place/large/oneshot-mismatch", "sm3.Sum of %d bytes = %x want %x", n, got, want)
			}
			h := sm3.New()
			h.Write(g[:5])
			h.Write(g[5:])
			digestIs(t, "place/large/digest-mismatch", h.Sum(nil), want, "Write(5); Write(%d)", n-5)
			t.Eval(4)
			pool.Release()
			t.Nontrivial(fmt.Sprintf("place/large/%d", n))
			if t.Failed() {
				return
			}
		}
		t.Outcome("place/large/ok")
	})
	alens := []int{0, 1, 63, 64, 65, 127, 128, 129, 191, 192, 193, 255, 256, 257, 320, 448, 512, 513, 1031}
	for o0 := 0; o0 < 64; o0 += 16 {
		o0 := o0
		c.Case(fmt.Sprintf("widen/place/align/offset=%d..%d", o0, o0+15), func(t *engine.T) {
			for off := o0; off < o0+16; off++ {
				for _, n := range alens {
					for _, pre := range []int{0, 7} { // 7: the first block is completed inside the object's buffer
						arena := make([]byte, 64+off+n+96)
						base := (64 - int(uintptr(unsafe.Pointer(&arena[0]))%64)) % 64
						dirtyFill(arena, off+n)
						msg := arena[base+off : base+off+n] // capacity reaches to the end of the arena
						copy(msg, msgOf(n))
						snap := clone(arena)
						prefix := bytes.Repeat([]byte{0x33}, pre)
						want := refOf(append(clone(prefix), msg...))
						h := sm3.New()
						h.Write(prefix)
						if nn, err := h.Write(msg); nn != n || err != nil {
							t.Fail("place/align/write-return", "Write(%d) returned (%d,%v)", n, nn, err)
						}
						digestIs(t, "place/align/digest-mismatch", h.Sum(nil), want, "Write(%d) then Write(%d bytes at address = %d mod 64)", pre, n, off)
						t.Eval(3)
						if pre == 0 {
							if got := sm3.Sum(msg); got != want {
								t.Fail("place/align/oneshot-mismatch", "sm3.Sum(%d bytes at address = %d mod 64) = %x want %x", n, off, got, want)
							}
							t.Eval(1)
						}
						if !bytes.Equal(arena, snap) {
							d := engine.FirstDiff(arena, snap)
							where := "message"
							if d < base+off {
								where = "bytes-before"
							} else if d >= base+off+n {
								where = "bytes-behind"
							}
							t.Fail("place/align/caller-memory-modified/"+where, "Write/Sum of %d bytes at offset %d changed arena byte %d (message is [%d,%d))", n, off, d, base+off, base+off+n)
						}
						if t.Failed() {
							return
						}
					}
					t.Nontrivial(fmt.Sprintf("place/align/%d/%d", off, n))
				}
			}
			t.Outcome("place/align/ok")
		})
	}
}

// ---------------------------------------------------------------------------------------------
// split: every buffered-byte count x every length of the following Write

func widenSplit(c *engine.Ctx) {
	maxA, maxB := 130, 330
	for a0 := 0; a0 <= maxA; a0 += 11 {
		a0 := a0
		a1 := a0 + 10
		if a1 > maxA {
			a1 = maxA
		}
		c.Case(fmt.Sprintf("widen/split2/a=%d..%d/b=0..%d", a0, a1, maxB), func(t *engine.T) {
			all := msgOf(maxA + maxB)
			h := sm3.New()
			for a := a0; a <= a1; a++ {
				for b := 0; b <= maxB; b++ {
					h.Reset()
					h.Write(all[:a])
					if !digestIs(t, "split/sum-between-writes-mismatch", h.Sum(nil), refSum(a), "Write(%d); Sum", a) {
						return
					}
					h.Write(all[a : a+b])
					if !digestIs(t, fmt.Sprintf("split/two-writes-mismatch/nx=%s", nxClass(a)), h.Sum(nil), refSum(a+b), "Write(%d); Sum; Write(%d); Sum", a, b) {
						return
					}
					t.Eval(5)
				}
				t.Nontrivial(fmt.Sprintf("split2/%d", a))
			}
			t.Outcome("split2/ok")
		})
	}
	cs := []int{0, 1, 55, 56, 63, 64, 65, 128}
	for a0 := 0; a0 <= 64; a0 += 5 {
		a0 := a0
		a1 := a0 + 4
		c.Case(fmt.Sprintf("widen/split3/a=%d..%d/b=0..130", a0, a1), func(t *engine.T) {
			all := msgOf(64 + 130 + 128 + 8)
			h := sm3.New()
			for a := a0; a <= a1; a++ {
				for b := 0; b <= 130; b++ {
					for _, cc := range cs {
						h.Reset()
						h.Write(all[:a])
						h.Write(all[a : a+b])
						h.Write(all[a+b : a+b+cc])
						if !digestIs(t, "split/three-writes-mismatch", h.Sum(nil), refSum(a+b+cc), "Write(%d); Write(%d); Write(%d)", a, b, cc) {
							return
						}
						t.Eval(5)
					}
				}
				t.Nontrivial(fmt.Sprintf("split3/%d", a))
			}
			t.Outcome("split3/ok")
		})
	}
}

func nxClass(n int) string {
	r := n % 64
	switch {
	case r == 0:
		return "0"
	case r < 56:
		return "1..55"
	default:
		return "56..63"
	}
}

// ---------------------------------------------------------------------------------------------
// sum-cap: capacity classes of Sum's argument

func widenSumCap(c *engine.Ctx) {
	for n0 := 0; n0 <= 130; n0 += 33 {
		n0 := n0
		n1 := n0 + 32
		if n1 > 130 {
			n1 = 130
		}
		c.Case(fmt.Sprintf("widen/sum-cap/len=%d..%d", n0, n1), func(t *engine.T) {
			for n := n0; n <= n1; n++ {
				h := sm3.New()
				h.Write(msgOf(n))
				want := refSum(n)
				before := engine.DumpString(h)
				for _, plen := range []int{0, 1, 5} {
					for _, spare := range []int{-1, 0, 1, 31, 32, 33, 64} { // -1: a nil slice
						if spare < 0 && plen > 0 {
							continue
						}
						var buf, in []byte
						if spare >= 0 {
							buf = make([]byte, plen+spare)
							dirtyFill(buf, n+spare)
							in = buf[:plen]
							for i := range in {
								in[i] = byte('a' + i)
							}
						}
						snap := clone(buf)
						cls := fmt.Sprintf("prefix=%d/spare=%d", plen, spare)
						if spare < 0 {
							cls = "nil"
						}
						out := h.Sum(in)
						t.Eval(1)
						if len(out) != plen+32 || !bytes.Equal(out[:plen], snap[:plen]) || !bytes.Equal(out[plen:], want[:]) {
							t.Fail("sum-cap/result-mismatch/"+cls, "after %d bytes Sum(%d-byte prefix, %d spare) = %x want prefix||%x", n, plen, spare, out, want)
							return
						}
						// the argument up to its length, and everything behind the 32 appended bytes, stays as it was
						if !bytes.Equal(buf[:plen], snap[:plen]) {
							t.Fail("sum-cap/argument-modified/"+cls, "Sum changed the bytes of its argument")
							return
						}
						if spare >= 32 && !bytes.Equal(buf[plen+32:], snap[plen+32:]) {
							t.Fail("sum-cap/written-behind-digest/"+cls, "Sum wrote behind the appended digest (spare capacity byte %d)", plen+32+engine.FirstDiff(buf[plen+32:], snap[plen+32:]))
							return
						}
						// (a spare capacity too small for the digest may or may not be written: an appending function owns it)
						// the result belongs to the caller
						fill(out[:cap(out)], 0x5a)
						out2 := h.Sum(nil)
						t.Eval(1)
						if !digestIs(t, "sum-cap/result-not-owned/"+cls, out2, want, "Sum after the previous result was overwritten (%d bytes hashed)", n) {
							return
						}
						fill(out2, 0xa5)
						t.Nontrivial("sum-cap/" + cls + "/" + nxClass(n))
					}
				}
				if engine.DumpString(h) != before {
					t.Fail("sum-cap/sum-disturbs-state", "private state changed by Sum calls after %d bytes", n)
					return
				}
				// several results alive at once: none of them may change when the object is used further
				keepA := h.Sum(nil)
				keepB := h.Sum([]byte{})
				h.Write(contentRange(n, 70))
				keepC := h.Sum(nil)
				if !digestIs(t, "sum-cap/continue-mismatch", keepC, refSum(n+70), "Write(%d); Sum x many; Write(70)", n) {
					return
				}
				other := sm3.New()
				other.Write(msgOf(9))
				keepD := other.Sum(nil)
				t.Eval(6)
				if !digestIs(t, "sum-cap/results-alias", keepA, want, "Sum(nil) after %d bytes, read after later Sum calls", n) ||
					!digestIs(t, "sum-cap/results-alias", keepB, want, "Sum(empty) after %d bytes, read after later Sum calls", n) ||
					!digestIs(t, "sum-cap/results-alias", keepD, refSum(9), "Sum(nil) of another object") ||
					!digestIs(t, "sum-cap/results-alias", keepC, refSum(n+70), "Sum(nil) after %d bytes, read after another object's Sum", n+70) {
					return
				}
			}
			t.Outcome("sum-cap/ok")
		})
	}
}

// ---------------------------------------------------------------------------------------------
// own: exported states belong to the caller

type binaryAppender interface {
	AppendBinary([]byte) ([]byte, error)
}

var ownLens = []int{0, 1, 55, 56, 63, 64, 65, 100, 128, 200}

// importAndFinish imports st into an object that has already been used, writes the 70 bytes that follow position n
// and compares the digest.
func importAndFinish(t *engine.T, key string, st []byte, n int, what string) bool {
	nh := sm3.New()
	nh.Write([]byte("thirty-seven bytes of earlier input.."))
	nh.Sum(nil)
	if err := nh.(encoding.BinaryUnmarshaler).UnmarshalBinary(st); err != nil {
		t.Fail(key+"/import-error", "%s: UnmarshalBinary of an exported state: %v", what, err)
		return false
	}
	nh.Write(contentRange(n, 70))
	t.Eval(4)
	return digestIs(t, key+"/import-mismatch", nh.Sum(nil), refSum(n+70), "%s: import of the state after %d bytes, then 70 more", what, n)
}

func widenOwnState(c *engine.Ctx) {
	c.Case("widen/own/marshal", func(t *engine.T) {
		for _, n := range ownLens {
			h := sm3.New()
			h.Write(msgOf(n))
			mar := h.(encoding.BinaryMarshaler)
			m1, err1 := mar.MarshalBinary()
			m2, err2 := mar.MarshalBinary()
			t.Eval(3)
			if err1 != nil || err2 != nil {
				t.Fail("own/marshal/error", "MarshalBinary: %v / %v", err1, err2)
				return
			}
			c1, c2 := clone(m1), clone(m2)
			d1 := engine.DumpString(h)
			fill(m1[:cap(m1)], 0x5a)
			if !bytes.Equal(m2, c2) {
				t.Fail("own/marshal/results-alias", "overwriting the first exported state changed the second (after %d bytes)", n)
				return
			}
			fill(m2[:cap(m2)], 0xa5)
			if engine.DumpString(h) != d1 {
				t.Fail("own/marshal/result-aliases-object", "overwriting exported states changed the object's private state (after %d bytes)", n)
				return
			}
			m3, _ := mar.MarshalBinary()
			c3 := clone(m3)
			fill(m3[:cap(m3)], 0x5a)
			for i, st := range [][]byte{c1, c2, c3} {
				if !importAndFinish(t, "own/marshal", st, n, fmt.Sprintf("export #%d", i+1)) {
					return
				}
			}
			h.Write(contentRange(n, 70))
			t.Eval(2)
			if !digestIs(t, "own/marshal/exporting-object-disturbed", h.Sum(nil), refSum(n+70), "Write(%d); 3 exports overwritten; Write(70)", n) {
				return
			}
			t.Nontrivial(fmt.Sprintf("own/marshal/%d", n))
		}
		t.Outcome("own/marshal/ok")
	})
	c.Case("widen/own/append-binary", func(t *engine.T) {
		for _, n := range ownLens {
			h := sm3.New()
			h.Write(msgOf(n))
			ab, ok := h.(binaryAppender)
			if !ok {
				t.Outcome("own/append-binary/not-implemented")
				return
			}
			ref, _ := h.(encoding.BinaryMarshaler).MarshalBinary()
			sl := len(ref)
			for _, plen := range []int{0, 5} {
				for _, spare := range []int{-1, 0, 1, sl - 1, sl, sl + 1, sl + 92} {
					if spare < 0 && plen > 0 {
						continue
					}
					var buf, in []byte
					if spare >= 0 {
						buf = make([]byte, plen+spare)
						dirtyFill(buf, n+spare)
						in = buf[:plen]
					}
					snap := clone(buf)
					cls := fmt.Sprintf("prefix=%d/spare=%s", plen, spareClass(spare, sl))
					out, err := ab.AppendBinary(in)
					t.Eval(1)
					if err != nil {
						t.Fail("own/append-binary/error", "AppendBinary: %v", err)
						return
					}
					if len(out) < plen || !bytes.Equal(out[:plen], snap[:plen]) || !bytes.Equal(buf[:plen], snap[:plen]) {
						t.Fail("own/append-binary/prefix-modified/"+cls, "AppendBinary changed the bytes in front of the state")
						return
					}
					st := clone(out[plen:])
					if spare >= len(st) && !bytes.Equal(buf[plen+len(st):], snap[plen+len(st):]) {
						t.Fail("own/append-binary/written-behind-state/"+cls, "AppendBinary wrote behind the appended state")
						return
					}
					// (a spare capacity too small for the state is the appending function's to use: it fills it piecewise)
					fill(out[:cap(out)], 0x5a)
					if !importAndFinish(t, "own/append-binary/"+cls, st, n, "AppendBinary") {
						return
					}
					t.Nontrivial("own/append-binary/" + cls + "/" + nxClass(n))
				}
			}
			h.Write(contentRange(n, 70))
			t.Eval(2)
			if !digestIs(t, "own/append-binary/exporting-object-disturbed", h.Sum(nil), refSum(n+70), "Write(%d); exports overwritten; Write(70)", n) {
				return
			}
		}
		t.Outcome("own/append-binary/ok")
	})
	c.Case("widen/own/two-objects-export", func(t *engine.T) {
		// exports of two live objects are held at the same time, then imported crosswise
		for _, na := range ownLens {
			for _, nb := range ownLens {
				a, b := sm3.New(), sm3.New()
				a.Write(msgOf(na))
				b.Write(msgOf(nb))
				ma, _ := a.(encoding.BinaryMarshaler).MarshalBinary()
				mb, _ := b.(encoding.BinaryMarshaler).MarshalBinary()
				t.Eval(4)
				if !importAndFinish(t, "own/two-objects/first-export-after-second", ma, na, "export of A read after B exported") ||
					!importAndFinish(t, "own/two-objects/second-export", mb, nb, "export of B") {
					return
				}
				// swap the two objects' states through the exports
				if err := a.(encoding.BinaryUnmarshaler).UnmarshalBinary(mb); err != nil {
					t.Fail("own/two-objects/import-error", "UnmarshalBinary: %v", err)
					return
				}
				if err := b.(encoding.BinaryUnmarshaler).UnmarshalBinary(ma); err != nil {
					t.Fail("own/two-objects/import-error", "UnmarshalBinary: %v", err)
					return
				}
				fill(ma[:cap(ma)], 0x5a)
				fill(mb[:cap(mb)], 0x5a)
				a.Write(contentRange(nb, 9))
				b.Write(contentRange(na, 70))
				t.Eval(6)
				if !digestIs(t, "own/two-objects/swapped-state-mismatch", a.Sum(nil), refSum(nb+9), "A after importing B's state (%d bytes) and 9 more", nb) ||
					!digestIs(t, "own/two-objects/swapped-state-mismatch", b.Sum(nil), refSum(na+70), "B after importing A's state (%d bytes) and 70 more", na) {
					return
				}
				t.Nontrivial(fmt.Sprintf("own/two/%d/%d", na, nb))
			}
		}
		t.Outcome("own/two-objects/ok")
	})
}

func spareClass(spare, stateLen int) string {
	switch {
	case spare < 0:
		return "nil"
	case spare == 0:
		return "0"
	case spare == 1:
		return "1"
	case spare == stateLen-1:
		return "one-short"
	case spare == stateLen:
		return "exact"
	case spare == stateLen+1:
		return "exact+1"
	default:
		return "ample"
	}
}

// ---------------------------------------------------------------------------------------------
// import: the argument of UnmarshalBinary, refused imports

func widenImport(c *engine.Ctx) {
	c.Case("widen/import/argument-integrity", func(t *engine.T) {
		for _, n := range ownLens {
			h := sm3.New()
			h.Write(msgOf(n))
			st, _ := h.(encoding.BinaryMarshaler).MarshalBinary()
			// the state lies in the middle of a dirty record; it is imported twice from the same buffer into two
			// objects and once into the object it came from
			rec := make([]byte, 9+len(st)+40)
			dirtyFill(rec, n)
			arg := rec[9 : 9+len(st)]
			copy(arg, st)
			snap := clone(rec)
			o1, o2 := sm3.New(), sm3.New()
			o2.Write(msgOf(77))
			o1.Sum(nil) // whatever a Sum may have left in the importing objects must not survive the import
			o2.Sum(nil)
			h.Sum(nil)
			for i, o := range []hash.Hash{o1, o2, h} {
				if err := o.(encoding.BinaryUnmarshaler).UnmarshalBinary(arg); err != nil {
					t.Fail("import/own-state-refused", "UnmarshalBinary #%d of an exported state: %v", i+1, err)
					return
				}
				t.Eval(1)
				if !bytes.Equal(rec, snap) {
					t.Fail("import/argument-modified", "UnmarshalBinary changed its argument or the bytes around it (record byte %d)", engine.FirstDiff(rec, snap))
					return
				}
			}
			fill(rec, 0x5a)
			// the three objects now go different ways
			o1.Write(contentRange(n, 1))
			o2.Write(contentRange(n, 64))
			h.Write(contentRange(n, 130))
			t.Eval(6)
			if !digestIs(t, "import/after-import-mismatch", o1.Sum(nil), refSum(n+1), "import(%d) into a fresh object; Write(1)", n) ||
				!digestIs(t, "import/after-import-mismatch", o2.Sum(nil), refSum(n+64), "import(%d) into a used object; Write(64)", n) ||
				!digestIs(t, "import/after-import-mismatch", h.Sum(nil), refSum(n+130), "import(%d) into the exporting object; Write(130)", n) {
				return
			}
			t.Nontrivial(fmt.Sprintf("import/integrity/%d", n))
		}
		t.Outcome("import/integrity/ok")
	})
	c.Case("widen/import/refused-then-good", func(t *engine.T) {
		for _, n := range []int{0, 1, 63, 64, 100} {
			src := sm3.New()
			src.Write(msgOf(n))
			good, _ := src.(encoding.BinaryMarshaler).MarshalBinary()
			type bad struct {
				name string
				b    []byte
			}
			var bads []bad
			bads = append(bads, bad{"nil", nil})
			for l := 0; l < len(good); l++ {
				bads = append(bads, bad{"truncated", clone(good[:l])})
			}
			for _, extra := range []int{1, 8, 64} {
				bads = append(bads, bad{"extended", append(clone(good), make([]byte, extra)...)})
			}
			for i := 0; i < 4 && i < len(good); i++ {
				for _, x := range []byte{0x01, 0x80} {
					b := clone(good)
					b[i] ^= x
					bads = append(bads, bad{"magic-altered", b})
				}
			}
			for _, bd := range bads {
				for _, after := range []string{"good-import", "reset", "fixed-in-place"} {
					if after == "fixed-in-place" && bd.name != "magic-altered" {
						continue
					}
					o := sm3.New()
					o.Write(msgOf(41))
					o.Sum(nil)
					arg := clone(bd.b)
					if bd.b == nil {
						arg = nil
					}
					var err error
					if t.Guard("import/refused/"+bd.name, func() { err = o.(encoding.BinaryUnmarshaler).UnmarshalBinary(arg) }) {
						return
					}
					t.Eval(1)
					if !bytes.Equal(arg, bd.b) {
						t.Fail("import/refused/argument-modified/"+bd.name, "UnmarshalBinary changed a %d-byte argument it did not accept", len(arg))
						return
					}
					if err != nil {
						t.Outcome("import/" + bd.name + "/refused")
					} else {
						t.Outcome("import/" + bd.name + "/accepted") // nothing is demanded of such a state
					}
					switch after {
					case "good-import":
						if e := o.(encoding.BinaryUnmarshaler).UnmarshalBinary(good); e != nil {
							t.Fail("import/good-after-refused/error/"+bd.name, "a good import after a %s one failed: %v", bd.name, e)
							return
						}
						o.Write(contentRange(n, 70))
						t.Eval(3)
						if !digestIs(t, "import/good-after-refused/mismatch/"+bd.name, o.Sum(nil), refSum(n+70), "%s import (%d bytes), good import (%d hashed), Write(70)", bd.name, len(arg), n) {
							return
						}
					case "reset":
						o.Reset()
						o.Write(msgOf(70))
						t.Eval(3)
						if !digestIs(t, "import/reset-after-refused/mismatch/"+bd.name, o.Sum(nil), refSum(70), "%s import (%d bytes), Reset, Write(70)", bd.name, len(arg)) {
							return
						}
					case "fixed-in-place":
						copy(arg, good) // same buffer, now right
						if e := o.(encoding.BinaryUnmarshaler).UnmarshalBinary(arg); e != nil {
							t.Fail("import/same-buffer-repaired/error", "import of a repaired buffer failed: %v", e)
							return
						}
						o.Write(contentRange(n, 70))
						t.Eval(3)
						if !digestIs(t, "import/same-buffer-repaired/mismatch", o.Sum(nil), refSum(n+70), "altered magic, repaired in place, import (%d hashed), Write(70)", n) {
							return
						}
					}
				}
				t.Nontrivial(fmt.Sprintf("import/%s/%d/%d", bd.name, len(bd.b), n))
			}
		}
	})
}

// ---------------------------------------------------------------------------------------------
// pair: two live objects used alternately

func widenTwoObjects(c *engine.Ctx) {
	sizes := []int{1, 55, 56, 63, 64, 65, 129}
	var ops []string
	for _, s := range sizes {
		ops = append(ops, fmt.Sprintf("A.Write(%d)", s))
	}
	for _, s := range sizes {
		ops = append(ops, fmt.Sprintf("B.Write(%d)", s))
	}
	// E is an exported state that the caller keeps while both objects go on
	ops = append(ops, "A.Reset", "B.Reset", "A>B", "B>A", "B.Write(A.Sum)", "E=A.Marshal", "A.Unmarshal(E)", "B.Unmarshal(E)")
	nS := len(sizes)
	depth := 4
	if !c.Quick() {
		depth = 5
	}
	streamByte := func(obj, pos int) byte {
		if obj == 0 {
			return content(pos)
		}
		return byte(pos*5+1) ^ byte(pos>>3) ^ 0xC3
	}
	for first := range ops {
		first := first
		c.Case(fmt.Sprintf("widen/pair/first=%s/depth=%d", ops[first], depth), func(t *engine.T) {
			seq := make([]int, 0, depth)
			// run replays seq on two new objects; the digests of both objects are taken after every operation (so
			// every later operation meets objects that have been summed) and compared after the last one: every
			// prefix of seq is a sequence of its own
			run := func() bool {
				objs := [2]hash.Hash{sm3.New(), sm3.New()}
				var model [2][]byte
				var held, heldModel []byte
				var last [2][]byte
				for _, op := range seq {
					switch {
					case op < 2*nS:
						o := op / nS
						n := sizes[op%nS]
						w := make([]byte, n)
						for i := range w {
							w[i] = streamByte(o, len(model[o])+i)
						}
						objs[o].Write(w)
						model[o] = append(model[o], w...)
						fill(w, 0x5a)
					case op == 2*nS:
						objs[0].Reset()
						model[0] = nil
					case op == 2*nS+1:
						objs[1].Reset()
						model[1] = nil
					case op == 2*nS+2 || op == 2*nS+3:
						from, to := 0, 1
						if op == 2*nS+3 {
							from, to = 1, 0
						}
						st, err := objs[from].(encoding.BinaryMarshaler).MarshalBinary()
						if err == nil {
							err = objs[to].(encoding.BinaryUnmarshaler).UnmarshalBinary(st)
						}
						if err != nil {
							t.Fail("pair/state-copy-error", "copying the state between two objects: %v", err)
							return false
						}
						fill(st[:cap(st)], 0x5a)
						model[to] = clone(model[from])
					case op == 2*nS+4:
						d := objs[0].Sum(nil)
						objs[1].Write(d)
						model[1] = append(model[1], d...)
						fill(d, 0x5a)
					case op == 2*nS+5:
						st, err := objs[0].(encoding.BinaryMarshaler).MarshalBinary()
						if err != nil {
							t.Fail("pair/state-copy-error", "MarshalBinary: %v", err)
							return false
						}
						held, heldModel = st, clone(model[0])
					default:
						if held == nil {
							return true // nothing exported yet: not a history
						}
						o := op - (2*nS + 6)
						if err := objs[o].(encoding.BinaryUnmarshaler).UnmarshalBinary(held); err != nil {
							t.Fail("pair/held-state-refused", "UnmarshalBinary of a state exported earlier: %v (history %s)", err, pairHist(ops, seq))
							return false
						}
						model[o] = clone(heldModel)
					}
					last[0], last[1] = objs[0].Sum(nil), objs[1].Sum(nil)
					t.Eval(3)
				}
				for o := 0; o < 2; o++ {
					if !digestIs(t, fmt.Sprintf("pair/object-%c-mismatch", 'A'+o), last[o], refOf(model[o]), "history %s", pairHist(ops, seq)) {
						return false
					}
				}
				return true
			}
			var rec func() bool
			rec = func() bool {
				if !run() {
					return false
				}
				if len(seq) == depth {
					return true
				}
				for op := range ops {
					seq = append(seq, op)
					ok := rec()
					seq = seq[:len(seq)-1]
					if !ok {
						return false
					}
				}
				return true
			}
			seq = append(seq, first)
			if rec() {
				t.Outcome("pair/ok")
			}
			t.Nontrivial("pair/" + ops[first])
		})
	}
}

func pairHist(ops []string, seq []int) string {
	s := ""
	for i, o := range seq {
		if i > 0 {
			s += "; "
		}
		s += ops[o]
	}
	return s
}

// ---------------------------------------------------------------------------------------------
// values: extreme and constant contents, standard vectors directly

func patternMsg(kind string, n int) []byte {
	b := make([]byte, n)
	for i := range b {
		switch kind {
		case "00":
		case "ff":
			b[i] = 0xff
		case "80":
			b[i] = 0x80
		case "7f":
			b[i] = 0x7f
		case "55aa":
			b[i] = 0x55
			if i%2 == 1 {
				b[i] = 0xaa
			}
		case "count":
			b[i] = byte(i + 1)
		case "abcd":
			b[i] = "abcd"[i%4]
		case "pad-like": // looks like SM3 padding itself: 80 00 .. 00
			if i%64 == 0 {
				b[i] = 0x80
			}
		}
	}
	return b
}

var patternKinds = []string{"00", "ff", "80", "7f", "55aa", "count", "abcd", "pad-like"}

func widenValues(c *engine.Ctx) {
	c.Case("widen/values/standard-vectors", func(t *engine.T) {
		vec := []struct{ in, out string }{
			{"abc", "66c7f0f462eeedd9d1f2d46bdc10e4e24167c4875cf2f7a2297da02b8f4ba8e0"},
			{"abcdabcdabcdabcdabcdabcdabcdabcdabcdabcdabcdabcdabcdabcdabcdabcd", "debe9ff92275b8a138604889c18e5a4d6fdb70e5387e5765293dcba39c0c5732"},
		}
		for _, v := range vec {
			want, _ := hex.DecodeString(v.out)
			got := sm3.Sum([]byte(v.in))
			if !bytes.Equal(got[:], want) {
				t.Fail("values/standard-vector/oneshot", "sm3.Sum(%q) = %x want %s", v.in, got, v.out)
			}
			for cut := 0; cut <= len(v.in); cut++ {
				h := sm3.New()
				h.Write([]byte(v.in[:cut]))
				h.Write([]byte(v.in[cut:]))
				if g := h.Sum(nil); !bytes.Equal(g, want) {
					t.Fail("values/standard-vector/streamed", "%q split at %d = %x want %s", v.in, cut, g, v.out)
				}
				t.Eval(3)
			}
			t.Nontrivial("values/vector/" + v.in[:3])
		}
		// nil and empty arguments
		empty := sm3ref.Sum(nil)
		if got := sm3.Sum(nil); got != empty {
			t.Fail("values/nil-argument/oneshot", "sm3.Sum(nil) = %x want %x", got, empty)
		}
		h := sm3.New()
		h.Write(nil)
		digestIs(t, "values/nil-argument/streamed", h.Sum(nil), empty, "Write(nil); Sum(nil)")
		h.Write(msgOf(63))
		h.Write(nil)
		h.Write([]byte{})
		h.Write(contentRange(63, 66))
		h.Write(nil)
		digestIs(t, "values/nil-argument/streamed", h.Sum(nil), refSum(129), "Write(63); Write(nil); Write(empty); Write(66); Write(nil)")
		t.Eval(9)
		t.Outcome("values/vectors/ok")
	})
	maxN := 260
	if !c.Quick() {
		maxN = 700
	}
	for _, kind := range patternKinds {
		kind := kind
		c.Case(fmt.Sprintf("widen/values/content=%s/len=0..%d", kind, maxN), func(t *engine.T) {
			all := patternMsg(kind, maxN)
			h := sm3.New()
			for n := 0; n <= maxN; n++ {
				m := all[:n]
				want := sm3ref.Sum(m)
				if got := sm3.Sum(m); got != want {
					t.Fail("values/oneshot-mismatch/content="+kind, "sm3.Sum(%d bytes of %s) = %x want %x", n, kind, got, want)
					return
				}
				for _, cut := range []int{n / 2, 63} {
					if cut > n {
						continue
					}
					h.Reset()
					h.Write(m[:cut])
					h.Write(m[cut:])
					if !digestIs(t, "values/streamed-mismatch/content="+kind, h.Sum(nil), want, "%d bytes of %s split at %d", n, kind, cut) {
						return
					}
				}
				t.Eval(7)
				t.Nontrivial(fmt.Sprintf("values/%s/%d", kind, n))
			}
			t.Outcome("values/" + kind + "/ok")
		})
	}
}

// ---------------------------------------------------------------------------------------------
// len: the 64-bit length field

// exported state layout as this version writes it; verified against real exports before it is relied upon
const (
	stMagic = 4
	stH     = 32
	stX     = 64
	stLen   = 8
)

func widenLength(c *engine.Ctx) {
	c.Case("widen/len/continued-state", func(t *engine.T) {
		bigs := []struct {
			name string
			l    uint64
		}{
			{"2^29-64", 1<<29 - 64}, {"2^29", 1 << 29}, {"2^32-64", 1<<32 - 64}, {"2^32", 1 << 32},
			{"2^40", 1 << 40}, {"2^56", 1 << 56}, {"2^61-256", 1<<61 - 256},
		}
		for _, blocks := range []int{1, 2} {
			for _, r := range []int{0, 1, 55, 56, 63} {
				n := 64*blocks + r
				msg := msgOf(n)
				src := sm3.New()
				src.Write(msg)
				st, err := src.(encoding.BinaryMarshaler).MarshalBinary()
				t.Eval(2)
				if err != nil {
					t.Fail("len/marshal-error", "MarshalBinary: %v", err)
					return
				}
				st = clone(st) // later exports must not be able to reach it
				// recognise the layout magic | h (8 big-endian words) | x | length; if the library writes anything
				// else the family has nothing to stand on and says so instead of guessing
				if len(st) != stMagic+stH+stX+stLen || binary.BigEndian.Uint64(st[stMagic+stH+stX:]) != uint64(n) ||
					!bytes.Equal(st[stMagic+stH:stMagic+stH+r], msg[n-r:]) {
					t.Outcome("len/state-layout-not-recognised")
					return
				}
				var v [8]uint32
				for i := range v {
					v[i] = binary.BigEndian.Uint32(st[stMagic+4*i:])
				}
				probe := &sm3ref.Stream{V: v, Tail: clone(msg[n-r:]), N: uint64(n)}
				if probe.Sum() != refSum(n) {
					t.Outcome("len/state-layout-not-recognised")
					return
				}
				for _, big := range bigs {
					total := big.l + uint64(r)
					forged := clone(st)
					binary.BigEndian.PutUint64(forged[stMagic+stH+stX:], total)
					o := sm3.New()
					if err := o.(encoding.BinaryUnmarshaler).UnmarshalBinary(forged); err != nil {
						t.Outcome("len/continued-state-refused") // a library may refuse states it cannot have exported itself
						continue
					}
					ref := &sm3ref.Stream{V: v, Tail: clone(msg[n-r:]), N: total}
					key := "len/continued-state/digest-mismatch/bytes=" + big.name
					w := ref.Sum()
					if !digestIs(t, key, o.Sum(nil), w, "state with chaining value after %d blocks, %d buffered bytes, length %s+%d", blocks, r, big.name, r) {
						return
					}
					t.Eval(2)
					pos := n
					for _, k := range []int{1, 64 - r, 100} {
						wr := contentRange(pos, k)
						o.Write(wr)
						ref.Write(wr)
						w = ref.Sum()
						if !digestIs(t, key, o.Sum(nil), w, "the same state after %d more bytes", k) {
							return
						}
						t.Eval(2)
						pos += k
					}
					// export/import at the large length
					st2, _ := o.(encoding.BinaryMarshaler).MarshalBinary()
					o2 := sm3.New()
					if err := o2.(encoding.BinaryUnmarshaler).UnmarshalBinary(st2); err != nil {
						t.Fail("len/continued-state/reimport-error/bytes="+big.name, "UnmarshalBinary of an own export: %v", err)
						return
					}
					o2.Write([]byte("tail"))
					ref.Write([]byte("tail"))
					w = ref.Sum()
					if !digestIs(t, "len/continued-state/reimport-mismatch/bytes="+big.name, o2.Sum(nil), w, "export/import at length %s+..", big.name) {
						return
					}
					t.Eval(4)
					t.Nontrivial(fmt.Sprintf("len/continued/%s/%d/%d", big.name, blocks, r))
					t.Outcome("len/continued-state/ok")
				}
			}
		}
	})
	if c.Quick() {
		return
	}
	c.Case("widen/len/real-message-2^29+200-bytes", func(t *engine.T) {
		const mb = 1 << 20
		h := sm3.New()
		ref := sm3ref.NewStream()
		buf := make([]byte, mb)
		written := uint64(0)
		writeBoth := func(n int) {
			for i := 0; i < n; i++ {
				buf[i] = content(int(written&0xfffff)+i) ^ byte(written>>20)
			}
			h.Write(buf[:n])
			ref.Write(buf[:n])
			written += uint64(n)
			t.Eval(1)
		}
		for written < 1<<29-mb {
			writeBoth(mb)
		}
		writeBoth(mb - 200)
		// checkpoints around the point where the bit length needs 33 bits
		var other hash.Hash
		for _, at := range []uint64{1<<29 - 200, 1<<29 - 65, 1<<29 - 64, 1<<29 - 9, 1<<29 - 8, 1<<29 - 1, 1 << 29, 1<<29 + 1, 1<<29 + 55, 1<<29 + 56, 1<<29 + 64, 1<<29 + 200} {
			writeBoth(int(at - written))
			w := ref.Sum()
			if !digestIs(t, "len/real-message/digest-mismatch", h.Sum(nil), w, "after 2^29%+d bytes", int64(at)-(1<<29)) {
				return
			}
			if at == 1<<29-1 {
				st, _ := h.(encoding.BinaryMarshaler).MarshalBinary()
				other = sm3.New()
				if err := other.(encoding.BinaryUnmarshaler).UnmarshalBinary(st); err != nil {
					t.Fail("len/real-message/import-error", "UnmarshalBinary: %v", err)
					return
				}
				h, other = other, h // go on with the imported copy
			}
			t.Nontrivial(fmt.Sprintf("len/real/%d", int64(at)-(1<<29)))
		}
		t.Outcome("len/real-message/ok")
	})
}
