package c01

// Widening of the SM3-KDF part of C01 (see widen.go for the hash part). Oracle everywhere: the reference
// SM3(z||1)||SM3(z||2)||... cut to keyLen, computed from the bytes z held when the call was made.
//
//	kdf-arg      z in capacity classes (0,1,3,4,5,8,64,256 dirty spare bytes: room for less than / exactly / more
//	             than the counter), behind 0 or 7 other bytes of the same array, nil and empty, twice over the same
//	             record, and directly in front of an unmapped page; nothing outside the result may be written;
//	kdf-own      results are the caller's (overwritten to their capacity, call repeated), the same slice with new
//	             contents gives the new key, two results do not alias;
//	kdf-method   the exported Kdf method of the hash object (kdf.KdfInterface) on objects with a history (written
//	             to, summed, imported into, used for another KDF) and every ordered pair of calls on one object;
//	             the object must be usable after Reset;
//	interleave   a KDF call between two writes of a running hash object;
//	kdf-lanes    output block counts 11..34 (8k+0..7 for k = 1..4: second and later rounds of the 8-lane code, the
//	             4-lane tail, the scalar remainder) x first byte / last byte / end of the last block for every
//	             len(z) mod 64 also in the quick tier, long z; counter values crossing 255|256 and 65535|65536;
//	kdf-history  ordered pairs of calls over 14 residue classes of len(z) x 7 lane classes of keyLen x every ordered
//	             pair of three entry points, followed by the first call again.

import (
	"bytes"
	"fmt"
	"hash"

	"github.com/emmansun/gmsm/kdf"
	"github.com/emmansun/gmsm/sm3"

	"verif/engine"
	"verif/ref/sm3ref"
)

type kdfAPI struct {
	name string
	f    func(z []byte, n int) []byte
}

// kdfMethodOf returns the Kdf method of a hash object if it has one.
func kdfMethodOf(h hash.Hash) (func(z []byte, n int) []byte, bool) {
	m, ok := h.(kdf.KdfInterface)
	if !ok {
		return nil, false
	}
	return m.Kdf, true
}

func kdfAPIs() []kdfAPI {
	apis := []kdfAPI{
		{"sm3.Kdf", sm3.Kdf},
		{"kdf.Kdf(sm3.New)", func(z []byte, n int) []byte { return kdf.Kdf(sm3.New, z, n) }},
		{"kdf.Kdf(marshal-only)", func(z []byte, n int) []byte {
			return kdf.Kdf(func() hash.Hash { return marshalHash{plainHash{sm3.New()}} }, z, n)
		}},
		{"kdf.Kdf(plain)", func(z []byte, n int) []byte {
			return kdf.Kdf(func() hash.Hash { return plainHash{sm3.New()} }, z, n)
		}},
	}
	if _, ok := kdfMethodOf(sm3.New()); ok {
		apis = append(apis, kdfAPI{"sm3.New().Kdf", func(z []byte, n int) []byte {
			f, _ := kdfMethodOf(sm3.New())
			return f(z, n)
		}})
	}
	return apis
}

func zOf(n int) []byte {
	z := make([]byte, n)
	for i := range z {
		z[i] = content(i + 11)
	}
	return z
}

var kdfRefCache = map[string][]byte{}

// kdfRef returns the reference key of length n for z (cached per z, computed in steps of 1100 bytes).
func kdfRef(z []byte, n int) []byte {
	v := kdfRefCache[string(z)]
	if len(v) < n {
		m := 1100
		if n > m {
			m = n
		}
		if len(kdfRefCache) > 4000 {
			kdfRefCache = map[string][]byte{}
		}
		v = sm3ref.KDF(z, m)
		kdfRefCache[string(z)] = v
	}
	return v[:n]
}

func kdfIs(t *engine.T, key string, got, want []byte, format string, a ...any) bool {
	if len(got) == len(want) && bytes.Equal(got, want) {
		return true
	}
	d := engine.FirstDiff(got, want)
	t.Fail(key, "%s: first difference at byte %d (output block %d); got %s want %s", fmt.Sprintf(format, a...), d, d/32+1, engine.Hex(got), engine.Hex(want))
	return false
}

// ---------------------------------------------------------------------------------------------
// kdf-arg

func widenKdfArgs(c *engine.Ctx) {
	nzs := []int{0, 1, 31, 32, 51, 52, 55, 56, 59, 60, 63, 64, 65, 100, 127, 128, 192}
	spares := []int{0, 1, 3, 4, 5, 8, 64, 256}
	ks := []int{32, 33, 129, 257, 400}
	for _, api := range kdfAPIs() {
		api := api
		c.Case("widen/kdf-arg/layout/"+api.name, func(t *engine.T) {
			for _, nz := range nzs {
				for _, spare := range spares {
					for _, pre := range []int{0, 7} {
						arena := make([]byte, pre+nz+spare)
						dirtyFill(arena, nz+spare)
						z := arena[pre : pre+nz] // capacity reaches to the end of the record
						copy(z, zOf(nz))
						snap := clone(arena)
						cls := fmt.Sprintf("spare=%d", spare)
						for pass := 1; pass <= 2; pass++ {
							for _, k := range ks {
								got := api.f(z, k)
								t.Eval(1)
								if !kdfIs(t, fmt.Sprintf("kdf-arg/%s/result-mismatch/%s/zmod64=%s/blocks%s", api.name, cls, zClass(nz), laneClass(k)), got, kdfRef(snap[pre:pre+nz], k),
									"%s(z of %d bytes behind %d bytes with %d spare bytes, %d), pass %d", api.name, nz, pre, spare, k, pass) {
									return
								}
								if !bytes.Equal(arena, snap) {
									d := engine.FirstDiff(arena, snap)
									where := "z-modified"
									if d < pre {
										where = "bytes-before-z-modified"
									} else if d >= pre+nz {
										where = "spare-capacity-modified"
									}
									t.Fail(fmt.Sprintf("kdf-arg/%s/%s/%s", api.name, where, cls), "%s(z of %d bytes, %d) changed record byte %d (z is [%d,%d), record has %d bytes)", api.name, nz, k, d, pre, pre+nz, len(arena))
									return
								}
							}
						}
						t.Nontrivial(fmt.Sprintf("kdf-arg/%s/%d/%d/%d", api.name, nz%64, spare, pre))
					}
				}
			}
			// nil and empty z
			for _, k := range append([]int{0, 1}, ks...) {
				w := kdfRef(nil, k)
				if !kdfIs(t, "kdf-arg/"+api.name+"/nil-z-mismatch", api.f(nil, k), w, "%s(nil, %d)", api.name, k) ||
					!kdfIs(t, "kdf-arg/"+api.name+"/empty-z-mismatch", api.f([]byte{}, k), w, "%s([]byte{}, %d)", api.name, k) {
					return
				}
				t.Eval(2)
			}
			t.Outcome("kdf-arg/layout/ok")
		})
	}
	for z0 := 0; z0 <= 200; z0 += 67 {
		z0 := z0
		z1 := z0 + 66
		c.Case(fmt.Sprintf("widen/kdf-arg/guard-end/z=%d..%d", z0, z1), func(t *engine.T) {
			apis := kdfAPIs()
			for nz := z0; nz <= z1; nz++ {
				var pool engine.Pool
				z := pool.Get(nz)
				orig := zOf(nz)
				copy(z, orig)
				for _, api := range apis {
					if api.name == "kdf.Kdf(marshal-only)" || api.name == "kdf.Kdf(plain)" {
						continue
					}
					for _, k := range []int{33, 129, 257} {
						got := api.f(z, k)
						t.Eval(1)
						if !kdfIs(t, fmt.Sprintf("kdf-arg/%s/guard-end/result-mismatch/zmod64=%s/blocks%s", api.name, zClass(nz), laneClass(k)), got, kdfRef(orig, k), "%s(z of %d bytes ending at a page end, %d)", api.name, nz, k) {
							return
						}
					}
				}
				if !bytes.Equal(z, orig) {
					t.Fail("kdf-arg/guard-end/z-modified", "z of %d bytes modified", nz)
				}
				if !pool.Release() {
					t.Fail("kdf-arg/guard-end/write-before-z", "bytes in front of z (%d bytes) were written", nz)
				}
				t.Nontrivial(fmt.Sprintf("kdf-arg/guard/%d", nz))
				if t.Failed() {
					return
				}
			}
			t.Outcome("kdf-arg/guard-end/ok")
		})
	}
}

// ---------------------------------------------------------------------------------------------
// kdf-own

func widenKdfOwn(c *engine.Ctx) {
	for _, api := range kdfAPIs() {
		api := api
		c.Case("widen/kdf-own/"+api.name, func(t *engine.T) {
			for _, nz := range []int{0, 8, 52, 60, 64, 100} {
				for _, n := range []int{0, 1, 32, 33, 97, 161, 225, 300, 513} {
					z := zOf(nz)
					w1 := clone(kdfRef(z, n))
					k1 := api.f(z, n)
					t.Eval(1)
					cls := fmt.Sprintf("zmod64=%s/blocks%s", zClass(nz), laneClass(n))
					if !kdfIs(t, "kdf-own/"+api.name+"/first-call-mismatch/"+cls, k1, w1, "%s(len(z)=%d, %d)", api.name, nz, n) {
						return
					}
					fill(k1[:cap(k1)], 0x5a)
					k2 := api.f(z, n)
					t.Eval(1)
					if !kdfIs(t, "kdf-own/"+api.name+"/result-not-owned/"+cls, k2, w1, "%s(len(z)=%d, %d) again after the first result was overwritten", api.name, nz, n) {
						return
					}
					// the same slice now holds another secret
					for i := range z {
						z[i] ^= 0x77
					}
					k3 := api.f(z, n)
					t.Eval(1)
					if nz > 0 && !kdfIs(t, "kdf-own/"+api.name+"/same-slice-new-content/"+cls, k3, kdfRef(z, n), "%s on the same slice (len %d) with new contents, %d", api.name, nz, n) {
						return
					}
					if !kdfIs(t, "kdf-own/"+api.name+"/results-alias/"+cls, k2, w1, "earlier result of %s(len(z)=%d, %d) read after a later call", api.name, nz, n) {
						return
					}
					fill(k2[:cap(k2)], 0x5a)
					if nz > 0 && !kdfIs(t, "kdf-own/"+api.name+"/results-alias/"+cls, k3, kdfRef(z, n), "later result of %s read after the earlier one was overwritten", api.name) {
						return
					}
					t.Nontrivial(fmt.Sprintf("kdf-own/%s/%d/%d", api.name, nz, n))
				}
			}
			t.Outcome("kdf-own/ok")
		})
	}
}

// ---------------------------------------------------------------------------------------------
// kdf-method, interleave

var histZ = []int{0, 8, 40, 51, 52, 55, 56, 59, 60, 63, 64, 100, 127, 192}

func widenKdfMethod(c *engine.Ctx) {
	if _, ok := kdfMethodOf(sm3.New()); !ok {
		c.Case("widen/kdf-method/not-implemented", func(t *engine.T) { t.Outcome("kdf-method/not-implemented") })
	} else {
		type pre struct {
			name string
			do   func(h hash.Hash)
		}
		pres := []pre{
			{"fresh", func(h hash.Hash) {}},
			{"Write(1)", func(h hash.Hash) { h.Write(msgOf(1)) }},
			{"Write(63)", func(h hash.Hash) { h.Write(msgOf(63)) }},
			{"Write(64)", func(h hash.Hash) { h.Write(msgOf(64)) }},
			{"Write(100)", func(h hash.Hash) { h.Write(msgOf(100)) }},
			{"Write(100);Sum", func(h hash.Hash) { h.Write(msgOf(100)); h.Sum(nil) }},
			{"Kdf(z60,300)", func(h hash.Hash) { f, _ := kdfMethodOf(h); f(zOf(60), 300) }},
			{"Kdf(z8,33)", func(h hash.Hash) { f, _ := kdfMethodOf(h); f(zOf(8), 33) }},
			{"import(70)", func(h hash.Hash) {
				o := sm3.New()
				o.Write(msgOf(70))
				st, _ := o.(interface{ MarshalBinary() ([]byte, error) }).MarshalBinary()
				h.(interface{ UnmarshalBinary([]byte) error }).UnmarshalBinary(st)
			}},
		}
		for _, p := range pres {
			p := p
			c.Case("widen/kdf-method/object-history="+p.name, func(t *engine.T) {
				for _, nz := range histZ {
					z := zOf(nz)
					for _, n := range []int{33, 97, 161, 225, 300, 400} {
						h := sm3.New()
						p.do(h)
						f, _ := kdfMethodOf(h)
						got := f(z, n)
						t.Eval(2)
						if !kdfIs(t, fmt.Sprintf("kdf-method/result-depends-on-object-history/zmod64=%s/blocks%s", zClass(nz), laneClass(n)), got, kdfRef(z, n), "%s; Kdf(len(z)=%d, %d) on the same object", p.name, nz, n) {
							return
						}
						h.Reset()
						h.Write(msgOf(70))
						t.Eval(2)
						if !digestIs(t, "kdf-method/object-unusable-after-kdf", h.Sum(nil), refSum(70), "%s; Kdf(len(z)=%d, %d); Reset; Write(70)", p.name, nz, n) {
							return
						}
					}
					t.Nontrivial(fmt.Sprintf("kdf-method/%s/%d", p.name, nz))
				}
				t.Outcome("kdf-method/history/ok")
			})
		}
		ks := []int{33, 97, 225, 400}
		for _, n1 := range histZ {
			n1 := n1
			c.Case(fmt.Sprintf("widen/kdf-method/pairs-on-one-object/first-z=%d", n1), func(t *engine.T) {
				z1 := zOf(n1)
				for _, n2 := range histZ {
					z2 := zOf(n2)
					for _, k1 := range ks {
						for _, k2 := range ks {
							h := sm3.New()
							f, _ := kdfMethodOf(h)
							a := f(z1, k1)
							b := f(z2, k2)
							cc := f(z1, k1)
							t.Eval(3)
							if !kdfIs(t, "kdf-method/pair/first-call-mismatch", a, kdfRef(z1, k1), "Kdf(len(z)=%d, %d) on a fresh object (read after two later calls)", n1, k1) ||
								!kdfIs(t, "kdf-method/pair/second-call-depends-on-first", b, kdfRef(z2, k2), "Kdf(len(z)=%d, %d) after Kdf(len(z)=%d, %d) on one object", n2, k2, n1, k1) ||
								!kdfIs(t, "kdf-method/pair/third-call-depends-on-history", cc, kdfRef(z1, k1), "Kdf(len(z)=%d, %d) again after Kdf(len(z)=%d, %d) on one object", n1, k1, n2, k2) {
								return
							}
						}
					}
					t.Nontrivial(fmt.Sprintf("kdf-method/pair/%d/%d", n1, n2))
				}
				t.Outcome("kdf-method/pair/ok")
			})
		}
	}
	for _, api := range kdfAPIs() {
		api := api
		if api.name == "kdf.Kdf(marshal-only)" {
			continue
		}
		c.Case("widen/interleave/hash-with-"+api.name, func(t *engine.T) {
			for _, a := range []int{0, 1, 55, 56, 63, 64, 100} {
				for _, b := range []int{0, 1, 9, 64, 100} {
					for _, nz := range []int{8, 52, 60, 64} {
						z := zOf(nz)
						for _, n := range []int{33, 129, 257, 400} {
							h := sm3.New()
							h.Write(msgOf(a))
							k := api.f(z, n)
							if !kdfIs(t, "interleave/kdf-mismatch", k, kdfRef(z, n), "%s(len(z)=%d, %d) while a hash object holds %d bytes", api.name, nz, n, a) {
								return
							}
							if !digestIs(t, "interleave/hash-disturbed-by-kdf", h.Sum(nil), refSum(a), "Write(%d); %s(len(z)=%d, %d); Sum", a, api.name, nz, n) {
								return
							}
							h.Write(contentRange(a, b))
							if !digestIs(t, "interleave/hash-disturbed-by-kdf", h.Sum(nil), refSum(a+b), "Write(%d); %s(len(z)=%d, %d); Write(%d); Sum", a, api.name, nz, n, b) {
								return
							}
							t.Eval(5)
						}
					}
					t.Nontrivial(fmt.Sprintf("interleave/%s/%d/%d", api.name, a, b))
				}
			}
			t.Outcome("interleave/ok")
		})
	}
}

// ---------------------------------------------------------------------------------------------
// kdf-lanes

func widenKdfLanes(c *engine.Ctx) {
	var nzs []int
	for i := 0; i <= 127; i++ {
		nzs = append(nzs, i)
	}
	nzs = append(nzs, 191, 192, 255, 256, 1000, 4095, 4096, 4100, 4148, 4156)
	const group = 23
	for lo := 0; lo < len(nzs); lo += group {
		hi := lo + group
		if hi > len(nzs) {
			hi = len(nzs)
		}
		part := nzs[lo:hi]
		c.Case(fmt.Sprintf("widen/kdf-lanes/z=%d..%d/blocks=11..34", part[0], part[len(part)-1]), func(t *engine.T) {
			apis := kdfAPIs()
			for _, nz := range part {
				z := zOf(nz)
				zc := clone(z)
				for b := 11; b <= 34; b++ {
					for _, n := range []int{32*b - 31, 32*b - 1, 32 * b} {
						for _, api := range apis {
							generic := api.name == "kdf.Kdf(marshal-only)" || api.name == "kdf.Kdf(plain)"
							if generic && !(n == 32*b-1 && (b == 12 || b == 16 || b == 33)) {
								continue
							}
							got := api.f(z, n)
							t.Eval(1)
							if !kdfIs(t, fmt.Sprintf("kdf-lanes/%s/zmod64=%s/blocks=8k+%d", api.name, zClass(nz), b%8), got, kdfRef(zc, n), "%s(len(z)=%d, keyLen=%d = %d blocks)", api.name, nz, n, b) {
								return
							}
						}
						t.Nontrivial(fmt.Sprintf("kdf/%d/%d/%d", nz%64, (n+31)/32, n%32))
					}
				}
				if !bytes.Equal(z, zc) {
					t.Fail("kdf-lanes/input-modified", "z modified by Kdf")
					return
				}
			}
			t.Outcome("kdf-lanes/ok")
		})
	}
	c.Case("widen/kdf-lanes/counter=255|256", func(t *engine.T) {
		apis := kdfAPIs()
		for _, nz := range []int{0, 8, 52, 55, 56, 60, 63, 64, 100} {
			z := zOf(nz)
			for _, n := range []int{8129, 8160, 8161, 8191, 8192, 8193, 8224, 8225, 8320, 8449} {
				for _, api := range apis {
					got := api.f(z, n)
					t.Eval(1)
					if !kdfIs(t, fmt.Sprintf("kdf-lanes/%s/counter>=256/zmod64=%s", api.name, zClass(nz)), got, kdfRef(z, n), "%s(len(z)=%d, keyLen=%d: counter up to %d)", api.name, nz, n, (n+31)/32) {
						return
					}
				}
				t.Nontrivial(fmt.Sprintf("kdf-counter/%d/%d", nz, n))
			}
		}
		t.Outcome("kdf-lanes/counter-256/ok")
	})
	c.Case("widen/kdf-lanes/counter=65535|65536", func(t *engine.T) {
		apis := kdfAPIs()
		n := 65537*32 - 31 // counters 1 .. 65537, one byte of the last block
		for _, nz := range []int{8, 60, 100} {
			z := zOf(nz)
			want := sm3ref.KDF(z, n)
			for _, api := range apis {
				if api.name == "kdf.Kdf(sm3.New)" || api.name == "sm3.New().Kdf" {
					continue // same code as sm3.Kdf for this size
				}
				got := api.f(z, n)
				t.Eval(1)
				if !kdfIs(t, fmt.Sprintf("kdf-lanes/%s/counter>=65536/zmod64=%s", api.name, zClass(nz)), got, want, "%s(len(z)=%d, keyLen=%d: counter up to 65537)", api.name, nz, n) {
					return
				}
			}
			t.Nontrivial(fmt.Sprintf("kdf-counter16/%d", nz))
		}
		t.Outcome("kdf-lanes/counter-65536/ok")
	})
}

// ---------------------------------------------------------------------------------------------
// kdf-history

func widenKdfHistory(c *engine.Ctx) {
	ks := []int{33, 97, 161, 225, 300, 400, 513}
	for _, n1 := range histZ {
		n1 := n1
		c.Case(fmt.Sprintf("widen/kdf-history/first-z=%d", n1), func(t *engine.T) {
			all := kdfAPIs()
			var apis []kdfAPI
			for _, a := range all {
				if a.name == "sm3.Kdf" || a.name == "kdf.Kdf(sm3.New)" || a.name == "kdf.Kdf(plain)" {
					apis = append(apis, a)
				}
			}
			z1 := zOf(n1)
			for _, n2 := range histZ {
				z2 := zOf(n2)
				for _, k1 := range ks {
					for _, k2 := range ks {
						for _, f1 := range apis {
							for _, f2 := range apis {
								a := f1.f(z1, k1)
								b := f2.f(z2, k2)
								cc := f1.f(z1, k1)
								t.Eval(3)
								if !kdfIs(t, "kdf-history/first-result-mismatch-or-changed-by-later-call", a, kdfRef(z1, k1), "%s(len(z)=%d, %d), read after two later calls", f1.name, n1, k1) ||
									!kdfIs(t, fmt.Sprintf("kdf-history/%s/after-%s/second-call-depends-on-first", f2.name, f1.name), b, kdfRef(z2, k2), "%s(len(z)=%d, %d) after %s(len(z)=%d, %d)", f2.name, n2, k2, f1.name, n1, k1) ||
									!kdfIs(t, fmt.Sprintf("kdf-history/%s/repeated-after-%s/depends-on-history", f1.name, f2.name), cc, kdfRef(z1, k1), "%s(len(z)=%d, %d) repeated after %s(len(z)=%d, %d)", f1.name, n1, k1, f2.name, n2, k2) {
									return
								}
							}
						}
					}
				}
				t.Nontrivial(fmt.Sprintf("kdf-history-wide/%d/%d", n1, n2))
			}
			t.Outcome("kdf-history/ok")
		})
	}
}
