// Package c02: SM4 block function against GB/T 32907 on every dispatch tier (kernel E2).
package c02

import (
	"bytes"
	"crypto/cipher"
	"fmt"

	gcipher "github.com/emmansun/gmsm/cipher"
	"github.com/emmansun/gmsm/sm4"

	"verif/engine"
	"verif/ref/sm4ref"
)

type Prop struct{}

func (Prop) ID() string                   { return "C02" }
func (Prop) Level() string                { return "exploration" }
func (Prop) Configs(tier string) []string { return engine.AllTiers }
func (Prop) SelfTest() error              { return sm4ref.SelfTest() }
func (Prop) Rule() string {
	return "E2 full products on the real sm4.NewCipher block, every buffer a guard buffer ending at a PROT_NONE page: " +
		"(a) single block: structured key set x structured block set (zero, ones, the standard key, all 128 single-bit values, 16 positions x {01,80,ff,a5}, " +
		"then a fixed LCG chain; 515x515 quick; thorough additionally every value with exactly two bits set: 8643x8643) x {Encrypt,Decrypt} x {disjoint, dst==src}, oracle = reference SM4 and Decrypt(Encrypt(b))=b; " +
		"(b) batch placement: ECB over n=1..40 blocks with a distinguished block at every position p (820 (n,p) pairs) and an all-distinct filling, x 16 keys x {enc,dec} x {dst==src, disjoint}, " +
		"through gmsm cipher.NewECB*(block) (fused assembly where the tier has it), through the same constructor over a wrapper hiding every fast-path interface, " +
		"and through the block's own EncryptBlocks/DecryptBlocks (Concurrency() and 2*Concurrency() blocks) where offered; oracle = reference SM4 per block, bytes outside the slices unchanged (canary + guard page), source unchanged when disjoint; " +
		"(c) sm4.NewCipher with every key length 0..40: error iff length != 16, no panic. " +
		"(d) widened input dimensions (widen*.go), same reference oracle plus: nothing outside the destination handed over is written, the source of a disjoint call and the caller's key are unchanged: " +
		"layout/ = every path x both directions x block counts on both sides of every kernel threshold x argument arrangements (dst and src at every pair of 24 start addresses: every residue mod 16 and the addresses differing mod 32/64; in place at each, dst||src and src||dst in one record with capacities reaching to its end or cut to the length, dst longer than src by 1..256 bytes disjoint / in place / in one record, src longer than a block), every byte of both dirty arenas compared with its expected image; " +
		"ctor/ = key at every address mod 16, ending at an unmapped page, as head of a record key||block, unchanged by NewCipher, overwritten after AND before the first use of the object, slice reused for a second constructor with both objects alive, all objects probed on every path; key lengths nil, 0..80 and up to 65536 ending at an unmapped page, len != cap shapes, good constructor after a rejected one; " +
		"history/ = one block with its fused and generic ECB objects of both directions and its batch methods plus a second block: every ordered pair a;b;a (thorough: triple) over ~65 operations incl. sizes up and down, re-created mode objects, other constructors, rejected keys and panicking calls, each history with fresh content per call and with the same content in every call; " +
		"len/ = ECB over 41..80 blocks (distinguished block at kernel boundaries; thorough: every position) and around 96..1025 blocks, batch methods with every source length Concurrency()..4*Concurrency() blocks (first batch right, later blocks right or untouched, nothing behind len(src) written, guard pages behind src and dst), empty calls; " +
		"values/ = every byte value at every byte position on zero and on ones background and all equal-byte values (8448) as key x 4 blocks + 9-block ECB, and as one message under 8 keys taken through every lane of every kernel (whole message after 0..15 filler blocks, chunks of 1,2,3,4,8 blocks after every offset, batch methods in chunks of one and two batches after every offset, generic ECB, single calls); " +
		"contract/ = short source / short destination / partial-block calls (the API panics): judged only for stores outside dst[:len(dst)] (slices ending at an unmapped page, and slices with dirty capacity behind them) and for the object still working afterwards. " +
		"distinct_nontrivial counts distinct (key index, block class) pairs, (path, n, p) placements, key lengths, (path, direction, n, arrangement) layouts, key placements, histories, lengths, values and short shapes; every configuration is compared with the same reference, which implies cross-tier equality."
}
func (Prop) Assumptions() []string {
	return []string{
		"reference SM4 transcribed from GB/T 32907-2016, anchored by its single-block and 1,000,000-iteration vectors",
		"the 2^256 key x block space beyond the structured alphabet is not covered (no sampling is used)",
		"dispatch tiers are those reachable on this amd64 host via GODEBUG=cpu.*=off, FORCE_SM4BLOCK_AESNI=1 and -tags purego; arm64 (NEON, SM4-NI), ppc64le and s390x assembly are not covered",
		"reads before the start of a buffer are not observable (only the end is guarded by a protected page; the front has a write canary)",
		"a buffer cannot both start at an address that is not a multiple of 16 and end at an unmapped page (lengths are whole blocks): unaligned arguments are checked for stores outside the destination by comparing the surrounding dirty arena, reads behind them are only seen through a wrong result",
		"calls the crypto/cipher contract answers with a panic (partial blocks, destination shorter than the source, inexact overlap) have no defined result; only memory safety is judged for the short-argument shapes, inexactly overlapping arguments are not enumerated; the batch methods with a destination shorter than the source are not enumerated either (unwritten contract)",
		"the batch methods EncryptBlocks/DecryptBlocks have no written contract for more than Concurrency() blocks: beyond the first batch a block may be processed or left untouched",
	}
}

// value returns the i-th element of the structured 16-byte alphabet and its class.
func value(i int) ([]byte, string) {
	b := make([]byte, 16)
	switch {
	case i == 0:
		return b, "zero"
	case i == 1:
		for j := range b {
			b[j] = 0xff
		}
		return b, "ones"
	case i == 2:
		copy(b, []byte{0x01, 0x23, 0x45, 0x67, 0x89, 0xab, 0xcd, 0xef, 0xfe, 0xdc, 0xba, 0x98, 0x76, 0x54, 0x32, 0x10})
		return b, "standard"
	case i < 3+128:
		k := i - 3
		b[k/8] = 0x80 >> (k % 8)
		return b, "single-bit"
	case i < 3+128+64:
		k := i - 3 - 128
		b[k/4] = []byte{0x01, 0x80, 0xff, 0xa5}[k%4]
		return b, "one-byte"
	case twoBit && i < structured+twoBitCount:
		// every value with exactly two bits set (thorough tier): C(128,2) = 8128
		k := i - structured
		a := 0
		for k >= 127-a {
			k -= 127 - a
			a++
		}
		bb := a + 1 + k
		b[a/8] |= 0x80 >> (a % 8)
		b[bb/8] |= 0x80 >> (bb % 8)
		return b, "two-bit"
	default:
		if twoBit {
			i -= twoBitCount
		}
		return engine.Pattern(3+i, 16), "chain"
	}
}

const structured = 3 + 128 + 64 // 195; + 64 chain values = 259
const twoBitCount = 128 * 127 / 2

// twoBit is switched on by the thorough tier before any value is drawn.
var twoBit bool

type plainBlock struct{ b cipher.Block }

func (p plainBlock) BlockSize() int          { return p.b.BlockSize() }
func (p plainBlock) Encrypt(dst, src []byte) { p.b.Encrypt(dst, src) }
func (p plainBlock) Decrypt(dst, src []byte) { p.b.Decrypt(dst, src) }

type concurrentBlocks interface {
	Concurrency() int
	EncryptBlocks(dst, src []byte)
	DecryptBlocks(dst, src []byte)
}

func (Prop) Run(c *engine.Ctx) {
	nvals := structured + 64 + 256 // 515
	if !c.Quick() {
		twoBit = true
		nvals = structured + twoBitCount + 64 + 256 // 8643: every one- and two-bit key x every one- and two-bit block
	}
	// (a) single block product
	const keysPerCase = 8
	for k0 := 0; k0 < nvals; k0 += keysPerCase {
		k0 := k0
		k1 := k0 + keysPerCase
		if k1 > nvals {
			k1 = nvals
		}
		c.Case(fmt.Sprintf("single/keys=%d..%d/blocks=0..%d", k0, k1-1, nvals-1), func(t *engine.T) {
			var pool engine.Pool
			src := pool.Get(16)
			dst := pool.Get(16)
			for ki := k0; ki < k1; ki++ {
				key, kclass := value(ki)
				blk, err := sm4.NewCipher(key)
				if err != nil {
					t.Fail("newcipher/16-byte-key-rejected", "sm4.NewCipher(%x): %v", key, err)
					continue
				}
				if blk.BlockSize() != 16 {
					t.Fail("block/blocksize", "BlockSize() = %d", blk.BlockSize())
				}
				t.Outcome(fmt.Sprintf("type=%T", blk))
				ref := sm4ref.New(key)
				want := make([]byte, 16)
				bad := false
				fail := func(key, format string, a ...any) { bad = true; t.Fail(key, format, a...) }
				for bi := 0; bi < nvals; bi++ {
					b, bclass := value(bi)
					ref.Encrypt(want, b)
					// disjoint encrypt
					copy(src, b)
					engine.FillPattern(dst, 1)
					blk.Encrypt(dst, src)
					if !bytes.Equal(dst, want) {
						fail("single/encrypt/"+kclass+"-key", "key %x block %x: Encrypt = %x, reference %x", key, b, dst, want)
					}
					if !bytes.Equal(src, b) {
						fail("single/encrypt/source-modified", "key %x block %x: source became %x", key, b, src)
					}
					// in-place decrypt of the reference ciphertext
					copy(dst, want)
					blk.Decrypt(dst, dst)
					if !bytes.Equal(dst, b) {
						fail("single/decrypt-inplace/"+kclass+"-key", "key %x ct %x: Decrypt in place = %x, want %x", key, want, dst, b)
					}
					// in-place encrypt
					copy(src, b)
					blk.Encrypt(src, src)
					if !bytes.Equal(src, want) {
						fail("single/encrypt-inplace/"+kclass+"-key", "key %x block %x: Encrypt in place = %x, reference %x", key, b, src, want)
					}
					// disjoint decrypt of what the library produced
					engine.FillPattern(dst, 0)
					blk.Decrypt(dst, src)
					if !bytes.Equal(dst, b) {
						fail("single/roundtrip/"+kclass+"-key", "key %x block %x: Decrypt(Encrypt(b)) = %x", key, b, dst)
					}
					t.Eval(4)
					t.Nontrivial(fmt.Sprintf("single/k%d/%s", ki, bclass))
					t.Outcome(fmt.Sprintf("ct0=%02x", want[0]))
					if bad {
						break // the first (smallest-index) failing block of this key is the counterexample; one report per key class
					}
				}
				if ki == 2 {
					t.Sample(map[string]any{"kind": "single", "key": fmt.Sprintf("%x", key), "blocks": nvals, "cipher_type": fmt.Sprintf("%T", blk)})
				}
			}
			if !pool.Release() {
				t.Fail("single/write-before-buffer", "canary in front of a 16-byte buffer was overwritten")
			}
		})
	}

	// (b) batch placement
	batchKeys := []int{0, 1, 2, 3, 10, 66, 130, 131, 134, 190, 195, 196, 197, 198, 199, 200}
	for _, ki := range batchKeys {
		ki := ki
		for _, path := range []string{"ecb", "ecb-hidden", "blocks"} {
			path := path
			c.Case(fmt.Sprintf("batch/%s/key=%d/n=1..40", path, ki), func(t *engine.T) {
				batchCase(t, path, ki)
			})
		}
	}

	// (c) key lengths
	c.Case("newcipher/keylen=0..40", func(t *engine.T) {
		for n := 0; n <= 40; n++ {
			key := engine.Pattern(2, n)
			var blk cipher.Block
			var err error
			if t.Guard(fmt.Sprintf("newcipher/keylen=%d", n), func() { blk, err = sm4.NewCipher(key) }) {
				continue
			}
			t.Eval(1)
			t.Nontrivial(fmt.Sprintf("keylen/%d", n))
			if n == 16 {
				if err != nil || blk == nil {
					t.Fail("newcipher/16-byte-key-rejected", "sm4.NewCipher(16 bytes): %v", err)
				}
				t.Outcome("keylen-accepted")
				continue
			}
			t.Outcome("keylen-rejected")
			if err == nil {
				t.Fail("newcipher/bad-key-length-accepted", "sm4.NewCipher accepted a %d-byte key", n)
			}
		}
	})

	// (d) widened input dimensions (widen*.go)
	widen(c)
}

func dir2(dec bool) string {
	if dec {
		return "dec"
	}
	return "enc"
}

func batchCase(t *engine.T, path string, ki int) {
	key, _ := value(ki)
	raw, err := sm4.NewCipher(key)
	if err != nil {
		t.Fail("newcipher/16-byte-key-rejected", "sm4.NewCipher(%x): %v", key, err)
		return
	}
	ref := sm4ref.New(key)
	bg, _ := value(structured + 7 + ki%5) // background block
	ds, _ := value(structured + 20 + ki%7)
	refOf := func(dec bool, in []byte) []byte {
		out := make([]byte, len(in))
		for o := 0; o < len(in); o += 16 {
			if dec {
				ref.Decrypt(out[o:o+16], in[o:o+16])
			} else {
				ref.Encrypt(out[o:o+16], in[o:o+16])
			}
		}
		return out
	}
	// crypt runs one library call on guarded buffers and checks it
	var pool engine.Pool
	run := func(what string, n, p int, dec bool, call func(dst, src []byte)) {
		in := make([]byte, 16*n)
		if p >= 0 {
			for j := 0; j < n; j++ {
				copy(in[16*j:], bg)
			}
			copy(in[16*p:], ds)
		} else { // all blocks distinct
			for j := 0; j < n; j++ {
				v, _ := value(structured + 30 + j)
				copy(in[16*j:], v)
			}
		}
		want := refOf(dec, in)
		dir := "enc"
		if dec {
			dir = "dec"
		}
		for _, inplace := range []bool{false, true} {
			src := pool.Copy(in)
			dst := src
			alias := "inplace"
			if !inplace {
				dst = pool.Get(len(in))
				engine.FillPattern(dst, 1)
				alias = "disjoint"
			}
			if t.Guard(fmt.Sprintf("batch/%s/%s/%s", path, dir, alias), func() { call(dst, src) }) {
				continue
			}
			t.Eval(1)
			if !bytes.Equal(dst, want) {
				d := engine.FirstDiff(dst, want)
				t.Fail(fmt.Sprintf("batch/%s/%s/%s/wrong-block", path, dir, alias),
					"%s n=%d distinguished position %d: first wrong byte %d (block %d of %d); got %s want %s", what, n, p, d, d/16, n, engine.Hex(dst), engine.Hex(want))
			}
			if !inplace && !bytes.Equal(src, in) {
				t.Fail(fmt.Sprintf("batch/%s/%s/source-modified", path, dir), "%s n=%d: source changed", what, n)
			}
		}
		if !pool.Release() {
			t.Fail(fmt.Sprintf("batch/%s/%s/write-before-buffer", path, dir), "%s n=%d p=%d: canary in front of a buffer was overwritten", what, n, p)
		}
		t.Nontrivial(fmt.Sprintf("batch/%s/%s/%d/%d", path, dir, n, p))
	}
	switch path {
	case "ecb", "ecb-hidden":
		var blk cipher.Block = raw
		if path == "ecb-hidden" {
			blk = plainBlock{raw}
		}
		for _, dec := range []bool{false, true} {
			var mode cipher.BlockMode
			if dec {
				mode = gcipher.NewECBDecrypter(blk)
			} else {
				mode = gcipher.NewECBEncrypter(blk)
			}
			t.Outcome(fmt.Sprintf("%s-type=%T", path, mode))
			if mode.BlockSize() != 16 {
				t.Fail("batch/"+path+"/blocksize", "BlockSize() = %d", mode.BlockSize())
			}
			for n := 1; n <= 40; n++ {
				for p := -1; p < n; p++ {
					run(fmt.Sprintf("%T.CryptBlocks", mode), n, p, dec, mode.CryptBlocks)
				}
			}
			// zero-length call is a no-op
			t.Guard("batch/"+path+"/empty", func() { mode.CryptBlocks(nil, nil) })
		}
		if ki == 2 {
			t.Sample(map[string]any{"kind": "batch", "path": path, "key": fmt.Sprintf("%x", key), "n": "1..40", "positions": "all"})
		}
	case "blocks":
		cb, ok := raw.(concurrentBlocks)
		if !ok {
			t.Outcome("no-concurrentBlocks")
			t.Eval(1) // the type assertion itself is the observation on this tier
			return
		}
		conc := cb.Concurrency()
		t.Outcome(fmt.Sprintf("concurrency=%d", conc))
		// n == conc: exactly one batch, every lane position distinguished.
		for p := -1; p < conc; p++ {
			run("EncryptBlocks", conc, p, false, cb.EncryptBlocks)
			run("DecryptBlocks", conc, p, true, cb.DecryptBlocks)
		}
		// n == 2*conc: the contract is not written down (the assembly processes a double batch when handed
		// exactly 2*conc blocks). Required here: the first conc blocks are right, and every later block is either
		// right or untouched.
		n := 2 * conc
		for _, dec := range []bool{false, true} {
			for p := -1; p < n; p++ {
				in := make([]byte, 16*n)
				for j := 0; j < n; j++ {
					v, _ := value(structured + 30 + j)
					if p >= 0 {
						v = bg
						if j == p {
							v = ds
						}
					}
					copy(in[16*j:], v)
				}
				want := refOf(dec, in)
				for _, inplace := range []bool{false, true} {
					src := pool.Copy(in)
					dst := src
					before := in
					if !inplace {
						dst = pool.Get(len(in))
						engine.FillPattern(dst, 1)
						before = append([]byte{}, dst...)
					}
					call := cb.EncryptBlocks
					dir := "enc"
					if dec {
						call = cb.DecryptBlocks
						dir = "dec"
					}
					if t.Guard("batch/blocks2x/"+dir, func() { call(dst, src) }) {
						continue
					}
					t.Eval(1)
					if !bytes.Equal(dst[:16*conc], want[:16*conc]) {
						t.Fail("batch/blocks2x/"+dir+"/first-batch-wrong", "2*Concurrency() blocks, distinguished position %d: first batch %s want %s", p, engine.Hex(dst[:16*conc]), engine.Hex(want[:16*conc]))
					}
					for j := conc; j < n; j++ {
						o := dst[16*j : 16*j+16]
						if !bytes.Equal(o, want[16*j:16*j+16]) && !bytes.Equal(o, before[16*j:16*j+16]) {
							t.Fail("batch/blocks2x/"+dir+"/second-batch-garbage", "2*Concurrency() blocks, distinguished position %d: block %d is neither processed nor untouched: %x", p, j, o)
						}
					}
					if bytes.Equal(dst[16*conc:], want[16*conc:]) {
						t.Outcome("blocks2x-processes-double-batch")
					} else {
						t.Outcome("blocks2x-processes-single-batch")
					}
				}
				if !pool.Release() {
					t.Fail("batch/blocks2x/"+dir2(dec)+"/write-before-buffer", "canary overwritten")
				}
				t.Nontrivial(fmt.Sprintf("batch/blocks2x/%v/%d", dec, p))
			}
		}
		// Destination window longer than the source (the shape the CTR stream uses: dst = out[remain:]): the
		// blocks produced for dst[:len(src)] must be the ones an exact-size call produces, nothing may be stored
		// at or after dst[len(src)], and nothing may be read after the end of src (src ends at a guard page).
		for _, nb := range []int{conc, 2 * conc} {
			for _, extra := range []int{16, 16 * conc, 32 * conc, 48 * conc} {
				for _, dec := range []bool{false, true} {
					for _, inplace := range []bool{false, true} {
						in := make([]byte, 16*nb)
						for j := 0; j < nb; j++ {
							v, _ := value(structured + 30 + j)
							copy(in[16*j:], v)
						}
						call, dir := cb.EncryptBlocks, "enc"
						if dec {
							call, dir = cb.DecryptBlocks, "dec"
						}
						// exact-size reference run of the library itself
						exact := pool.Copy(in)
						if t.Guard("batch/blocks-wide-dst/"+dir+"/exact", func() { call(exact, exact) }) {
							pool.Release()
							continue
						}
						exactOut := append([]byte{}, exact...)
						var dst, src []byte
						if inplace {
							dst = pool.Get(len(in) + extra)
							engine.FillPattern(dst, 3)
							copy(dst, in)
							src = dst[:len(in)]
						} else {
							src = pool.Copy(in)
							dst = pool.Get(len(in) + extra)
							engine.FillPattern(dst, 3)
						}
						tail := append([]byte{}, dst[len(in):]...)
						key := fmt.Sprintf("batch/blocks-wide-dst/%s/%s", dir, map[bool]string{true: "inplace", false: "disjoint"}[inplace])
						if t.Guard(key, func() { call(dst, src) }) {
							pool.Release()
							continue
						}
						t.Eval(1)
						if !bytes.Equal(dst[:len(in)], exactOut) {
							d := engine.FirstDiff(dst[:len(in)], exactOut)
							t.Fail(key+"/differs-from-exact-size-call", "%d blocks into a %d-byte destination: block %d differs from what the same call with len(dst)==len(src) produces; got %s want %s", nb, len(dst), d/16, engine.Hex(dst[:len(in)]), engine.Hex(exactOut))
						}
						if !bytes.Equal(dst[len(in):], tail) {
							d := engine.FirstDiff(dst[len(in):], tail)
							t.Fail(key+"/stores-past-source-length", "%d blocks into a %d-byte destination: byte %d after dst[len(src)] was overwritten", nb, len(dst), d)
						}
						if !inplace && !bytes.Equal(src, in) {
							t.Fail(key+"/source-modified", "%d blocks into a %d-byte destination: source changed", nb, len(dst))
						}
						if !pool.Release() {
							t.Fail(key+"/write-before-buffer", "canary overwritten")
						}
						t.Nontrivial(fmt.Sprintf("batch/blocks-wide-dst/%d/%d/%v/%v", nb, extra, dec, inplace))
					}
				}
			}
		}
	}
}
