package c02

// Widening of the C02 alphabet in the input dimensions of DESIGN §11.4 (files widen*.go). The oracle is always the
// reference SM4 of /verif/ref/sm4ref per block plus what the statement plainly implies: nothing outside the destination
// the call was given is written, the source of a disjoint call is unchanged, caller-owned keys stay caller-owned, the
// same call gives the same answer whatever was called before.
//
//	layout/…    argument layout (this file): dst and src at every pair of 24 start addresses (every residue mod 16 and the
//	            addresses that differ mod 32 and 64), in place at those addresses, dst‖src and src‖dst carved
//	            from one record with capacities reaching to the end of the record, destination longer than the source by
//	            1…256 bytes (disjoint, in place and in one record), source longer than one block for the single-block
//	            calls; every byte of both arenas is compared with its expected image afterwards
//	ctor/…      (widen_ctor.go) the key belongs to the caller: key at every address mod 16, ending at an unmapped page,
//	            as the head of a record key‖block, with spare capacity; unchanged by NewCipher; overwritten afterwards and
//	            handed to the next NewCipher while the first object lives on; nil / long / len≠cap keys
//	history/…   (widen_history.go) every ordered pair a;b;a of 60-odd operations on ONE block object, its fused and generic
//	            ECB objects of both directions, its batch methods and a second block under another key, incl. failing calls
//	len/…       (widen_len.go) ECB over 41…80 blocks and the power-of-two neighbourhoods up to 1025 blocks, EncryptBlocks/
//	            DecryptBlocks with every source length from Concurrency() to 4*Concurrency() blocks, empty and nil calls
//	values/…    (widen_values.go) every byte value at every byte position (on a zero and on an all-ones background) and all
//	            equal-byte values as key and as block; every such block in every lane of every batch kernel
//	contract/…  (widen_contract.go) calls the API answers with a panic (short source / destination, partial blocks): only
//	            memory safety is judged (nothing outside the destination that was handed over is written, the worker does
//	            not die) and that the object still works afterwards

import (
	"bytes"
	"crypto/cipher"
	"fmt"

	gcipher "github.com/emmansun/gmsm/cipher"
	"github.com/emmansun/gmsm/sm4"

	"verif/engine"
	"verif/ref/sm4ref"
)

// widen registers all widened families after the original cases (so their case indices stay what they were).
func widen(c *engine.Ctx) {
	widenLayout(c)
	widenCtor(c)
	widenHistory(c)
	widenLen(c)
	widenValues(c)
	widenContract(c)
}

// refBlocks applies the reference block function to every 16-byte block of in.
func refBlocks(ref *sm4ref.Cipher, dec bool, in []byte) []byte {
	out := make([]byte, len(in))
	for o := 0; o+16 <= len(in); o += 16 {
		if dec {
			ref.Decrypt(out[o:o+16], in[o:o+16])
		} else {
			ref.Encrypt(out[o:o+16], in[o:o+16])
		}
	}
	return out
}

// distinctBlocks returns n*16 bytes in which all blocks differ (deterministic, salt selects the stream).
func distinctBlocks(n, salt int) []byte {
	b := make([]byte, 16*n)
	engine.FillPattern(b, 11+salt)
	for j := 0; j < n; j++ { // make the blocks pairwise distinct whatever the stream does
		b[16*j] = byte(j)
		b[16*j+1] = byte(j >> 8)
	}
	return b
}

// tryCall runs fn and reports a panic instead of propagating it (used where the API is allowed to panic).
func tryCall(fn func()) (panicked bool, msg string) {
	defer func() {
		if r := recover(); r != nil {
			panicked = true
			msg = fmt.Sprint(r)
		}
	}()
	fn()
	return
}

// path is one way to reach the SM4 block function with a batch of blocks.
type path struct {
	name string
	// call returns the function processing a batch in the given direction (nil: not offered on this tier).
	call func(dec bool) func(dst, src []byte)
	// sizes returns the block counts the path is driven with.
	sizes func(quick bool) []int
	// firstOnly: only the first block of src is processed whatever its length (cipher.Block contract)
	firstOnly bool
	// lenientFrom(n) is the block index from which "left untouched" is also accepted (unwritten contract of the double
	// batch, see c02.go); n for strict paths
	lenientFrom func(n int) int
}

var ecbSizesQuick = []int{1, 2, 3, 4, 5, 7, 8, 9, 12, 15, 16, 17, 20, 23, 24, 31, 32, 33, 40}

func ecbSizes(quick bool) []int {
	if quick {
		return ecbSizesQuick
	}
	s := make([]int, 0, 48)
	for n := 1; n <= 48; n++ {
		s = append(s, n)
	}
	return s
}

// pathsFor builds the paths over one block object.
func pathsFor(raw cipher.Block) []path {
	strict := func(n int) int { return n }
	ps := []path{
		{name: "single", firstOnly: true, lenientFrom: strict,
			call: func(dec bool) func(dst, src []byte) {
				if dec {
					return raw.Decrypt
				}
				return raw.Encrypt
			},
			sizes: func(bool) []int { return []int{1} }},
		{name: "ecb", lenientFrom: strict,
			call: func(dec bool) func(dst, src []byte) {
				if dec {
					return gcipher.NewECBDecrypter(raw).CryptBlocks
				}
				return gcipher.NewECBEncrypter(raw).CryptBlocks
			},
			sizes: ecbSizes},
		{name: "ecb-hidden", lenientFrom: strict,
			call: func(dec bool) func(dst, src []byte) {
				if dec {
					return gcipher.NewECBDecrypter(plainBlock{raw}).CryptBlocks
				}
				return gcipher.NewECBEncrypter(plainBlock{raw}).CryptBlocks
			},
			sizes: ecbSizes},
	}
	if cb, ok := raw.(concurrentBlocks); ok {
		conc := cb.Concurrency()
		ps = append(ps, path{name: "blocks",
			lenientFrom: func(n int) int { return conc },
			call: func(dec bool) func(dst, src []byte) {
				if dec {
					return cb.DecryptBlocks
				}
				return cb.EncryptBlocks
			},
			sizes: func(bool) []int { return []int{conc, 2 * conc} }})
	}
	return ps
}

// spot is a slice carved out of an arena: arena[off : off+n : off+capn] (capn < 0: capacity up to the end of the
// used part of the arena).
type spot struct{ arena, off, n, capn int }

// arrangement places the two arguments of one call.
type arrangement struct {
	class string // coarse class (part of the finding key)
	name  string // full name (message, nontrivial class)
	d, s  spot
	used  [2]int // used bytes of arena 0 / 1 (multiple of 64)
}

func up64(n int) int { return (n + 63) &^ 63 }

// arrangements enumerates the placements of a call that processes m bytes. single: cipher.Block call (16 bytes).
func arrangements(m int, single bool) []arrangement {
	var out []arrangement
	const lead = 64   // dirty bytes in front of every argument
	const slack = 256 // dirty bytes behind every record
	// start addresses mod 64: every residue mod 16 (unaligned for the 128-bit kernels), 16 and 48 (unaligned for the
	// 256-bit kernels only), 32, and the neighbours of the 32- and 64-byte boundaries
	offs := []int{0, 1, 2, 3, 4, 5, 6, 7, 8, 9, 10, 11, 12, 13, 14, 15, 16, 17, 31, 32, 33, 47, 48, 63}
	// separate arenas, every pair of start addresses
	for _, a := range offs {
		for _, b := range offs {
			out = append(out, arrangement{class: "separate-arenas", name: fmt.Sprintf("separate/dst@%d/src@%d", a, b),
				d: spot{0, lead + a, m, -1}, s: spot{1, lead + b, m, -1},
				used: [2]int{up64(lead + a + m + slack), up64(lead + b + m + slack)}})
		}
	}
	// in place
	for _, a := range offs {
		out = append(out, arrangement{class: "inplace", name: fmt.Sprintf("inplace@%d", a),
			d: spot{0, lead + a, m, -1}, s: spot{0, lead + a, m, -1}, used: [2]int{up64(lead + a + m + slack), 0}})
	}
	// one record, capacities reaching to the end of the record (+ dirty slack)
	for _, a := range []int{0, 1, 8} {
		out = append(out,
			arrangement{class: "record-dst-src", name: fmt.Sprintf("record@%d/dst||src", a),
				d: spot{0, lead + a, m, -1}, s: spot{0, lead + a + m, m, -1}, used: [2]int{up64(lead + a + 2*m + slack), 0}},
			arrangement{class: "record-src-dst", name: fmt.Sprintf("record@%d/src||dst", a),
				d: spot{0, lead + a + m, m, -1}, s: spot{0, lead + a, m, -1}, used: [2]int{up64(lead + a + 2*m + slack), 0}},
			// exact capacities (three-index slices): no spare capacity at all although live bytes follow
			arrangement{class: "record-dst-src", name: fmt.Sprintf("record@%d/dst||src/cap=len", a),
				d: spot{0, lead + a, m, m}, s: spot{0, lead + a + m, m, m}, used: [2]int{up64(lead + a + 2*m + slack), 0}},
		)
	}
	// destination longer than the source
	for _, extra := range []int{1, 15, 16, 17, 64, 256} {
		for _, a := range []int{0, 1} {
			out = append(out,
				arrangement{class: "dst-longer", name: fmt.Sprintf("dst-longer-by-%d/separate@%d", extra, a),
					d: spot{0, lead + a, m + extra, -1}, s: spot{1, lead, m, -1},
					used: [2]int{up64(lead + a + m + extra + slack), up64(lead + m + slack)}},
				arrangement{class: "dst-longer-inplace", name: fmt.Sprintf("dst-longer-by-%d/inplace@%d", extra, a),
					d: spot{0, lead + a, m + extra, -1}, s: spot{0, lead + a, m, -1},
					used: [2]int{up64(lead + a + m + extra + slack), 0}},
				// src‖dst with the longer destination behind the source; dst‖src with the source right behind the window
				arrangement{class: "dst-longer-record", name: fmt.Sprintf("dst-longer-by-%d/record@%d/src||dst", extra, a),
					d: spot{0, lead + a + m, m + extra, -1}, s: spot{0, lead + a, m, m},
					used: [2]int{up64(lead + a + 2*m + extra + slack), 0}},
				arrangement{class: "dst-longer-record", name: fmt.Sprintf("dst-longer-by-%d/record@%d/dst||src", extra, a),
					d: spot{0, lead + a, m + extra, -1}, s: spot{0, lead + a + m + extra, m, -1},
					used: [2]int{up64(lead + a + 2*m + extra + slack), 0}},
			)
		}
	}
	if single {
		// cipher.Block processes the first block of a longer source
		for _, extra := range []int{1, 16, 48, 112, 240} {
			out = append(out,
				arrangement{class: "src-longer", name: fmt.Sprintf("src-longer-by-%d/separate", extra),
					d: spot{0, lead, m, -1}, s: spot{1, lead + 1, m + extra, -1},
					used: [2]int{up64(lead + m + slack), up64(lead + 1 + m + extra + slack)}},
				arrangement{class: "src-longer-inplace", name: fmt.Sprintf("both-longer-by-%d/inplace", extra),
					d: spot{0, lead + 1, m + extra, -1}, s: spot{0, lead + 1, m + extra, -1},
					used: [2]int{up64(lead + 1 + m + extra + slack), 0}},
			)
		}
	}
	return out
}

// arenas holds the two guarded arenas of a case and their snapshots.
type arenas struct {
	mem  [2][]byte
	snap [2][]byte
}

func newArenas(pool *engine.Pool, size int) *arenas {
	size = (size + 4095) &^ 4095 // whole pages: the arena starts page-aligned, so offsets are addresses mod 64
	a := &arenas{}
	for i := range a.mem {
		a.mem[i] = pool.Get(size)
		a.snap[i] = make([]byte, size)
	}
	return a
}

func (a *arenas) cut(s spot, used [2]int) []byte {
	end := used[s.arena]
	if s.capn >= 0 {
		end = s.off + s.capn
	}
	return a.mem[s.arena][s.off : s.off+s.n : end]
}

// exec runs one call in one arrangement and compares every byte of both arenas with its expected image.
// in: content of the source slice (len == ar.s.n); want: expected content of dst[:len(want)]; blocks of want with index
// >= lenientFrom may also be left as they were. Returns false if a violation was recorded.
func (a *arenas) exec(t *engine.T, key string, ar arrangement, salt int, in, want []byte, lenientFrom int, call func(dst, src []byte)) bool {
	for i := range a.mem {
		engine.FillPattern(a.mem[i][:ar.used[i]], 40+salt+i)
	}
	copy(a.mem[ar.s.arena][ar.s.off:], in)
	for i := range a.mem {
		copy(a.snap[i], a.mem[i][:ar.used[i]])
	}
	dst, src := a.cut(ar.d, ar.used), a.cut(ar.s, ar.used)
	if t.Guard(key, func() { call(dst, src) }) {
		return false
	}
	t.Eval(1)
	ok := true
	// expected images
	for i := range a.mem {
		exp := a.snap[i][:ar.used[i]]
		got := a.mem[i][:ar.used[i]]
		if i == ar.d.arena {
			for o := 0; o+16 <= len(want); o += 16 {
				p := ar.d.off + o
				if o/16 >= lenientFrom && bytes.Equal(got[p:p+16], exp[p:p+16]) {
					continue // left untouched, admitted
				}
				copy(exp[p:], want[o:o+16])
			}
		}
		if bytes.Equal(got, exp) {
			continue
		}
		ok = false
		d := engine.FirstDiff(got, exp)
		switch {
		case i == ar.d.arena && d >= ar.d.off && d < ar.d.off+len(want):
			t.Fail(key+"/wrong-block", "%s: %d bytes processed, block %d of the destination is wrong (first wrong byte %d): got %s want %s",
				ar.name, len(want), (d-ar.d.off)/16, d-ar.d.off, engine.Hex(got[ar.d.off:ar.d.off+len(want)]), engine.Hex(exp[ar.d.off:ar.d.off+len(want)]))
		case i == ar.d.arena && d >= ar.d.off+len(want) && d < ar.d.off+ar.d.n:
			t.Fail(key+"/stores-past-processed-length", "%s: %d bytes processed, byte dst[%d] (inside the longer destination, behind the processed part) was changed", ar.name, len(want), d-ar.d.off)
		case i == ar.s.arena && d >= ar.s.off && d < ar.s.off+ar.s.n:
			t.Fail(key+"/source-modified", "%s: source byte %d was changed", ar.name, d-ar.s.off)
		default:
			t.Fail(key+"/stores-outside-destination", "%s: arena %d byte %d was changed; destination is arena %d [%d,%d), source arena %d [%d,%d)",
				ar.name, i, d, ar.d.arena, ar.d.off, ar.d.off+ar.d.n, ar.s.arena, ar.s.off, ar.s.off+ar.s.n)
		}
	}
	return ok
}

// layoutKeys: the standard key, a single-bit key, a chain key.
var layoutKeys = []int{2, 10, 197}

func widenLayout(c *engine.Ctx) {
	for _, ki := range layoutKeys {
		ki := ki
		for _, pname := range []string{"single", "ecb", "ecb-hidden", "blocks"} {
			pname := pname
			c.Case(fmt.Sprintf("layout/%s/key=%d", pname, ki), func(t *engine.T) {
				key, _ := value(ki)
				raw, err := sm4.NewCipher(key)
				if err != nil {
					t.Fail("newcipher/16-byte-key-rejected", "sm4.NewCipher(%x): %v", key, err)
					return
				}
				ref := sm4ref.New(key)
				var p *path
				for _, q := range pathsFor(raw) {
					if q.name == pname {
						q := q
						p = &q
					}
				}
				if p == nil {
					t.Outcome("no-concurrentBlocks")
					t.Eval(1)
					return
				}
				var pool engine.Pool
				ar := newArenas(&pool, 64+63+2*16*64+256+256+64)
				salt := 0
				for _, dec := range []bool{false, true} {
					call := p.call(dec)
					for _, n := range p.sizes(t.Quick()) {
						m := 16 * n
						for _, arr := range arrangements(m, p.firstOnly) {
							salt++
							in := distinctBlocks((arr.s.n+15)/16, salt%23)[:arr.s.n]
							want := refBlocks(ref, dec, in[:m])
							key := fmt.Sprintf("layout/%s/%s/%s", p.name, dir2(dec), arr.class)
							ar.exec(t, key, arr, salt%7, in, want, p.lenientFrom(n), call)
							t.Nontrivial(fmt.Sprintf("layout/%s/%v/%d/%s", p.name, dec, n, arr.name))
						}
					}
				}
				t.Outcome("layout-" + p.name + "-done")
				if ki == 2 {
					t.Sample(map[string]any{"kind": "layout", "path": p.name, "sizes": p.sizes(t.Quick()), "arrangements": len(arrangements(16, p.firstOnly))})
				}
				if !pool.Release() {
					t.Fail("layout/"+p.name+"/write-before-arena", "canary in front of an arena was overwritten")
				}
			})
		}
	}
}
