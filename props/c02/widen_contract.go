package c02

// contract/…: calls the API answers with a panic (source or destination shorter than a block / a batch / the source,
// partial blocks). The property says nothing about their result, so nothing is required of it: the call may panic or
// return. What is judged is memory safety only - "the library must not write to caller memory outside the destination
// it was given" and must not take the process down - and that the object still gives the reference answers afterwards
// (a failing call followed by a good one).
//
// Every shape is run in two placements: (a) each slice ends exactly at an unmapped page (an access behind len() kills
// the worker, which the engine reports as a violation of this case), (b) each slice lies in a dirty arena with
// capacity reaching far behind its length (a store behind len(dst) lands in live caller memory and is seen by the
// byte-for-byte comparison of the arena).

import (
	"bytes"
	"crypto/cipher"
	"fmt"

	gcipher "github.com/emmansun/gmsm/cipher"
	"github.com/emmansun/gmsm/sm4"

	"verif/engine"
	"verif/ref/sm4ref"
)

type shortShape struct{ dlen, slen int }

func widenContract(c *engine.Ctx) {
	c.Case("contract/short-arguments", func(t *engine.T) {
		key, _ := value(2)
		raw, err := sm4.NewCipher(key)
		if err != nil {
			t.Fail("newcipher/16-byte-key-rejected", "sm4.NewCipher(%x): %v", key, err)
			return
		}
		ref := sm4ref.New(key)
		var pool, gpool, ppool engine.Pool
		arena := pool.Get(8192)
		snap := make([]byte, len(arena))
		type target struct {
			name   string
			call   func(dst, src []byte)
			shapes []shortShape
		}
		var targets []target
		var single []shortShape
		for k := 0; k < 16; k++ {
			single = append(single, shortShape{16, k}, shortShape{k, 16}, shortShape{k, k}, shortShape{32, k}, shortShape{k, 32})
		}
		targets = append(targets, target{"single/enc", raw.Encrypt, single}, target{"single/dec", raw.Decrypt, single})
		var ecbShapes []shortShape
		for _, n := range []int{1, 2, 3, 4, 8, 9, 16, 17, 33} {
			m := 16 * n
			for _, k := range []int{1, 15, 16, 17, m} {
				if k <= m {
					ecbShapes = append(ecbShapes, shortShape{m - k, m}) // destination shorter than the source
				}
			}
			ecbShapes = append(ecbShapes, shortShape{m + 16, m - 1}, shortShape{m + 16, m + 1}, shortShape{m + 16, m - 15}, shortShape{m - 1, m - 1}) // partial blocks
		}
		for _, hidden := range []bool{false, true} {
			var b cipher.Block = raw
			name := "ecb"
			if hidden {
				b, name = plainBlock{raw}, "ecb-hidden"
			}
			targets = append(targets,
				target{name + "/enc", gcipher.NewECBEncrypter(b).CryptBlocks, ecbShapes},
				target{name + "/dec", gcipher.NewECBDecrypter(b).CryptBlocks, ecbShapes})
		}
		if cb, ok := raw.(concurrentBlocks); ok {
			bs := 16 * cb.Concurrency()
			var sh []shortShape
			for _, k := range []int{0, 1, 16, bs - 16, bs - 1} {
				sh = append(sh, shortShape{bs, k}, shortShape{k, bs}, shortShape{k, k}, shortShape{2 * bs, k}, shortShape{k, 2 * bs})
			}
			targets = append(targets, target{"blocks/enc", cb.EncryptBlocks, sh}, target{"blocks/dec", cb.DecryptBlocks, sh})
		} else {
			t.Outcome("no-concurrentBlocks")
		}
		for _, tg := range targets {
			for _, sh := range tg.shapes {
				if sh.dlen < 0 || sh.slen < 0 {
					continue
				}
				content := distinctBlocks(sh.slen/16+1, sh.slen%23)[:sh.slen]
				// (a) both slices end at an unmapped page
				{
					src := gpool.Copy(content)
					dst := gpool.Get(sh.dlen)
					panicked, _ := tryCall(func() { tg.call(dst, src) })
					t.Eval(1)
					t.Outcome(fmt.Sprintf("contract/%s/panicked=%v", tg.name, panicked))
					if !bytes.Equal(src, content) && sh.slen > 0 {
						t.Fail("contract/"+tg.name+"/source-modified", "dst %d bytes, src %d bytes (page-end placement): the source was changed", sh.dlen, sh.slen)
					}
					if !gpool.Release() {
						t.Fail("contract/"+tg.name+"/write-before-buffer", "dst %d bytes, src %d bytes: canary in front of a buffer was overwritten", sh.dlen, sh.slen)
					}
				}
				// (b) arena: dst at 64, src behind it, dirty bytes everywhere, capacities reaching to the end
				{
					const dOff = 64
					sOff := dOff + sh.dlen + 512
					used := sOff + sh.slen + 512
					engine.FillPattern(arena[:used], 9)
					copy(arena[sOff:], content)
					copy(snap, arena[:used])
					dst := arena[dOff : dOff+sh.dlen : used]
					src := arena[sOff : sOff+sh.slen : used]
					panicked, _ := tryCall(func() { tg.call(dst, src) })
					t.Eval(1)
					t.Outcome(fmt.Sprintf("contract/%s/panicked=%v", tg.name, panicked))
					// whatever the call did inside dst[:len(dst)] is its business
					copy(snap[dOff:dOff+sh.dlen], arena[dOff:dOff+sh.dlen])
					if d := engine.FirstDiff(arena[:used], snap[:used]); d >= 0 {
						where := "outside both arguments"
						switch {
						case d >= dOff+sh.dlen && d < sOff:
							where = fmt.Sprintf("%d bytes behind the end of the destination (inside its capacity)", d-dOff-sh.dlen)
						case d >= sOff && d < sOff+sh.slen:
							where = "inside the source"
						}
						t.Fail("contract/"+tg.name+"/stores-outside-destination", "dst %d bytes, src %d bytes (call %s): a byte %s was changed",
							sh.dlen, sh.slen, map[bool]string{true: "panicked", false: "returned"}[panicked], where)
					}
				}
				t.Nontrivial(fmt.Sprintf("contract/%s/%d/%d", tg.name, sh.dlen, sh.slen))
			}
			// a good call after the failing ones
			if m := probe(t, &ppool, raw, ref, 3); m != "" {
				t.Fail("contract/"+tg.name+"/object-broken-after-failing-call", "after the short-argument calls of %s: %s", tg.name, m)
			}
		}
		if !pool.Release() {
			t.Fail("contract/write-before-buffer", "canary in front of a buffer was overwritten")
		}
	})
}
