package c02

// ctor/…: the key handed to sm4.NewCipher belongs to the caller.
//
//   - placement: the 16 key bytes at every start address mod 16 (and the addresses that differ mod 32/64) inside a dirty
//     arena, ending exactly at an unmapped page, with no spare capacity although live bytes follow, and as the head of a
//     record key‖block whose second half is the block that is then encrypted in place behind the key;
//   - NewCipher must not change the key nor any byte around it;
//   - afterwards the harness overwrites the key (ones, zero, another key) - in one pass after the object has been used,
//     in a second pass BEFORE its first use (an object that expands the key lazily is only wrong then): the object must
//     keep giving the reference answers of the ORIGINAL key on every path (single block, fused ECB, generic ECB, batch
//     methods);
//   - the same slice, now holding another key, goes to the next NewCipher while the first object lives on: both objects,
//     used alternately, follow their own key; then the slice is overwritten again.
//   - key length: nil, every length 0…80 and the power-of-two neighbourhoods up to 65536, each ending at an unmapped
//     page (a constructor that reads 16 bytes before looking at the length dies there), and len ≠ cap shapes
//     (len 16 with spare capacity is a key; len 15 / 8 / 0 with capacity ≥ 16 is not; len 17 / 32 is not); a rejected
//     key is not modified and does not disturb the next good constructor call.

import (
	"bytes"
	"crypto/cipher"
	"fmt"

	gcipher "github.com/emmansun/gmsm/cipher"
	"github.com/emmansun/gmsm/sm4"

	"verif/engine"
	"verif/ref/sm4ref"
)

// probe drives one block object over every path with a small deterministic workload and returns the description of
// the first answer that differs from the reference ("" if all agree). All buffers are guard buffers.
func probe(t *engine.T, pool *engine.Pool, blk cipher.Block, ref *sm4ref.Cipher, salt int) string {
	in := distinctBlocks(33, salt%23)
	for _, dec := range []bool{false, true} {
		want := refBlocks(ref, dec, in)
		// single block, disjoint and in place
		for j := 0; j < 3; j++ {
			src := pool.Copy(in[16*j : 16*j+16])
			dst := pool.Get(16)
			if dec {
				blk.Decrypt(dst, src)
			} else {
				blk.Encrypt(dst, src)
			}
			t.Eval(1)
			if !bytes.Equal(dst, want[16*j:16*j+16]) {
				return fmt.Sprintf("single %s of %x = %x, reference %x", dir2(dec), src, dst, want[16*j:16*j+16])
			}
			if dec {
				blk.Decrypt(src, src)
			} else {
				blk.Encrypt(src, src)
			}
			t.Eval(1)
			if !bytes.Equal(src, want[16*j:16*j+16]) {
				return fmt.Sprintf("single in-place %s = %x, reference %x", dir2(dec), src, want[16*j:16*j+16])
			}
		}
		// ECB over 33 blocks (two 16-block rounds and a single block; 8+... on the narrower tiers), fused and generic
		for _, hidden := range []bool{false, true} {
			var b cipher.Block = blk
			if hidden {
				b = plainBlock{blk}
			}
			var mode cipher.BlockMode
			if dec {
				mode = gcipher.NewECBDecrypter(b)
			} else {
				mode = gcipher.NewECBEncrypter(b)
			}
			buf := pool.Copy(in)
			mode.CryptBlocks(buf, buf)
			t.Eval(1)
			if !bytes.Equal(buf, want) {
				d := engine.FirstDiff(buf, want)
				return fmt.Sprintf("%T.CryptBlocks (%s, 33 blocks in place): block %d wrong", mode, dir2(dec), d/16)
			}
		}
		if cb, ok := blk.(concurrentBlocks); ok {
			n := cb.Concurrency()
			src := pool.Copy(in[:16*n])
			dst := pool.Get(16 * n)
			if dec {
				cb.DecryptBlocks(dst, src)
			} else {
				cb.EncryptBlocks(dst, src)
			}
			t.Eval(1)
			if !bytes.Equal(dst, want[:16*n]) {
				d := engine.FirstDiff(dst, want[:16*n])
				return fmt.Sprintf("%sBlocks(%d blocks): block %d wrong", map[bool]string{false: "Encrypt", true: "Decrypt"}[dec], n, d/16)
			}
		}
	}
	pool.Release()
	return ""
}

type keyPlacement struct {
	class, name string
	off, capn   int  // offset in the arena; capn as in spot
	guard       bool // the key ends at an unmapped page instead
	record      bool // key||block record
}

func keyPlacements() []keyPlacement {
	var out []keyPlacement
	out = append(out, keyPlacement{class: "page-end", name: "page-end", guard: true})
	for _, a := range []int{0, 1, 2, 3, 4, 5, 6, 7, 8, 9, 10, 11, 12, 13, 14, 15, 16, 17, 31, 32, 33, 47, 48, 63} {
		out = append(out, keyPlacement{class: "arena", name: fmt.Sprintf("arena@%d", a), off: 64 + a, capn: -1})
	}
	for _, a := range []int{0, 1, 8} {
		out = append(out,
			keyPlacement{class: "arena-cap=len", name: fmt.Sprintf("arena@%d/cap=len", a), off: 64 + a, capn: 16},
			keyPlacement{class: "record-key-block", name: fmt.Sprintf("record@%d/key||block", a), off: 64 + a, capn: -1, record: true})
	}
	return out
}

func widenCtor(c *engine.Ctx) {
	ctorKeys := []int{0, 1, 2, 3, 130, 131, 194, 195, 200, 210}
	for _, ki := range ctorKeys {
		ki := ki
		c.Case(fmt.Sprintf("ctor/key-ownership/key=%d", ki), func(t *engine.T) {
			key1, _ := value(ki)
			key2, _ := value(structured + 40 + ki%17)
			ref1, ref2 := sm4ref.New(key1), sm4ref.New(key2)
			var pool, ppool engine.Pool
			const used = 512
			for pi2, pl := range append(keyPlacements(), keyPlacements()...) {
				// second pass over the placements: the key buffer is overwritten BEFORE the object is used for the first time
				early := pi2 >= len(keyPlacements())
				pi := pi2 % len(keyPlacements())
				var mem, ks []byte
				if pl.guard {
					ks = pool.Copy(key1)
				} else {
					mem = pool.Get(4096)
					engine.FillPattern(mem[:used], 50+pi%5)
					copy(mem[pl.off:], key1)
					end := used
					if pl.capn >= 0 {
						end = pl.off + pl.capn
					}
					ks = mem[pl.off : pl.off+16 : end]
				}
				snap := append([]byte{}, mem...)
				var blk cipher.Block
				var err error
				if t.Guard("ctor/"+pl.class, func() { blk, err = sm4.NewCipher(ks) }) {
					pool.Release()
					continue
				}
				t.Eval(1)
				t.Nontrivial(fmt.Sprintf("ctor/k%d/%s/%v", ki, pl.name, early))
				if err != nil || blk == nil {
					t.Fail("newcipher/16-byte-key-rejected", "key placement %s: sm4.NewCipher(%x): %v", pl.name, key1, err)
					pool.Release()
					continue
				}
				if !bytes.Equal(ks, key1) {
					t.Fail("ctor/key-modified-by-constructor", "key placement %s: key %x became %x", pl.name, key1, ks)
					copy(ks, key1)
				}
				if mem != nil {
					copy(snap[pl.off:], key1)
					if d := engine.FirstDiff(mem, snap); d >= 0 {
						t.Fail("ctor/constructor-stores-outside-key", "key placement %s: arena byte %d (key at [%d,%d)) was changed by sm4.NewCipher", pl.name, d, pl.off, pl.off+16)
					}
				}
				if pl.record && !early {
					// the block right behind the key, encrypted in place through a slice whose capacity is the record's
					blkbuf := mem[pl.off+16 : pl.off+32 : used]
					b, _ := value(structured + 3)
					copy(blkbuf, b)
					want := refBlocks(ref1, false, b)
					blk.Encrypt(blkbuf, blkbuf)
					t.Eval(1)
					if !bytes.Equal(blkbuf, want) {
						t.Fail("ctor/record-key-block/ref-mismatch", "key||block record: Encrypt in place = %x, reference %x", blkbuf, want)
					}
					if !bytes.Equal(ks, key1) {
						t.Fail("ctor/record-key-block/key-modified", "key||block record: key became %x after encrypting the block behind it", ks)
						copy(ks, key1)
					}
				}
				if !early {
					if m := probe(t, &ppool, blk, ref1, pi); m != "" {
						t.Fail("ctor/"+pl.class+"/ref-mismatch", "key placement %s, key %x: %s", pl.name, key1, m)
					}
				}
				// the caller reuses its key buffer
				for fi, fill := range [][]byte{bytes.Repeat([]byte{0xff}, 16), make([]byte, 16), key2} {
					copy(ks, fill)
					if m := probe(t, &ppool, blk, ref1, pi+fi+1); m != "" {
						t.Fail("ctor/object-follows-caller-key-buffer", "key placement %s: after the caller overwrote its key buffer (%x -> %x; object used before that: %v) the object built from it answers differently: %s", pl.name, key1, fill, !early, m)
						break
					}
				}
				// the same slice, holding key2, for the next constructor; both objects live
				var blk2 cipher.Block
				if t.Guard("ctor/"+pl.class+"/second", func() { blk2, err = sm4.NewCipher(ks) }) || err != nil {
					if err != nil {
						t.Fail("newcipher/16-byte-key-rejected", "second constructor on the same slice: %v", err)
					}
					pool.Release()
					continue
				}
				t.Eval(1)
				for round := 0; round < 2; round++ {
					if m := probe(t, &ppool, blk2, ref2, pi+round); m != "" {
						t.Fail("ctor/second-object/ref-mismatch", "key placement %s: object built from the reused key slice (now %x): %s", pl.name, key2, m)
						break
					}
					if m := probe(t, &ppool, blk, ref1, pi+round); m != "" {
						t.Fail("ctor/second-constructor-disturbs-first-object", "key placement %s: after a second NewCipher on the same key slice (now %x) the first object (key %x): %s", pl.name, key2, key1, m)
						break
					}
					copy(ks, key1) // and back: blk2 must not follow
					if round == 1 {
						engine.FillPattern(ks, 1)
					}
				}
				t.Outcome("ctor-ownership-ok")
				if !pool.Release() {
					t.Fail("ctor/write-before-key", "canary in front of the key buffer was overwritten (placement %s)", pl.name)
				}
			}
			if ki == 2 {
				t.Sample(map[string]any{"kind": "ctor", "key": fmt.Sprintf("%x", key1), "placements": len(keyPlacements())})
			}
		})
	}

	c.Case("ctor/keylen-shapes", func(t *engine.T) {
		var pool, ppool engine.Pool
		good, _ := value(2)
		refGood := sm4ref.New(good)
		lens := []int{}
		for n := 0; n <= 80; n++ {
			lens = append(lens, n)
		}
		lens = append(lens, 96, 127, 128, 129, 255, 256, 257, 511, 512, 513, 1024, 4095, 4096, 4097, 65535, 65536)
		check := func(shape string, ks []byte) {
			before := append([]byte{}, ks[:cap(ks)]...)
			var blk cipher.Block
			var err error
			if t.Guard("newcipher/"+shape, func() { blk, err = sm4.NewCipher(ks) }) {
				return
			}
			t.Eval(1)
			t.Nontrivial(fmt.Sprintf("ctor/keylen/%s/%d/%d", shape, len(ks), cap(ks)))
			if !bytes.Equal(ks[:cap(ks)], before) {
				t.Fail("ctor/key-modified-by-constructor", "%s: key buffer len %d cap %d was changed by sm4.NewCipher", shape, len(ks), cap(ks))
			}
			if len(ks) == 16 {
				if err != nil || blk == nil {
					t.Fail("newcipher/16-byte-key-rejected", "%s: sm4.NewCipher(len 16, cap %d): %v", shape, cap(ks), err)
					return
				}
				t.Outcome("keylen-accepted")
				if m := probe(t, &ppool, blk, sm4ref.New(ks), len(ks)+cap(ks)); m != "" {
					t.Fail("ctor/"+shape+"/ref-mismatch", "%s: key len 16 cap %d: %s", shape, cap(ks), m)
				}
				return
			}
			t.Outcome("keylen-rejected")
			if err == nil {
				t.Fail("newcipher/bad-key-length-accepted", "%s: sm4.NewCipher accepted a key of len %d cap %d", shape, len(ks), cap(ks))
			}
			// a rejected call leaves nothing behind: the next good constructor works
			blk, err = sm4.NewCipher(good)
			t.Eval(1)
			if err != nil {
				t.Fail("newcipher/16-byte-key-rejected", "after a rejected %d-byte key: %v", len(ks), err)
				return
			}
			src, dst := pool.Copy(good), pool.Get(16)
			blk.Encrypt(dst, src)
			if want := refBlocks(refGood, false, good); !bytes.Equal(dst, want) {
				t.Fail("ctor/good-after-rejected/ref-mismatch", "after a rejected %d-byte key: Encrypt = %x, reference %x", len(ks), dst, want)
			}
		}
		t.Guard("newcipher/nil", func() {
			_, err := sm4.NewCipher(nil)
			t.Eval(1)
			t.Nontrivial("ctor/keylen/nil")
			if err == nil {
				t.Fail("newcipher/bad-key-length-accepted", "sm4.NewCipher accepted a nil key")
			}
		})
		for _, n := range lens {
			// ending at an unmapped page, no spare capacity
			ks := pool.Get(n)
			engine.FillPattern(ks, 2)
			check("page-end", ks)
			pool.Release()
		}
		// len != cap: the length decides, not the capacity; the bytes behind len are not key material
		type lc struct{ l, c int }
		for _, s := range []lc{{16, 17}, {16, 24}, {16, 32}, {16, 64}, {16, 4096}, {0, 16}, {1, 16}, {8, 16}, {15, 16}, {15, 32}, {12, 16}, {17, 32}, {24, 32}, {32, 64}, {31, 32}} {
			mem := pool.Get(s.c)
			engine.FillPattern(mem, 3)
			check("len<cap", mem[:s.l])
			pool.Release()
		}
		// the same 16 bytes as a key with and without dirty spare capacity give the same object
		t.Sample(map[string]any{"kind": "keylen", "lengths": len(lens)})
	})
}
