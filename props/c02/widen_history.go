package c02

// history/…: call history on one object and on process-wide state.
//
// One block object A (and everything derived from it: a fused ECB encrypter and decrypter, generic ECB objects over a
// wrapper hiding the fast-path interfaces, the batch methods) and a second block B under another key live for the whole
// case. The alphabet has ~60 operations: single-block calls in both directions, ECB calls of both directions for block
// counts on both sides of every kernel threshold (sizes go up and down), batch calls of one and two batches, the same on
// B, re-creation of the mode objects and of a block from the same key, constructors with other keys and with rejected
// keys, and calls the API answers with a panic (nothing is required of those here). Quick: every ordered pair a;b
// followed by a again (the same call on the same object after b must give the reference answer again); thorough: every
// ordered triple. Every history is run twice: with content of its own for every call, and with the same leading blocks
// in every call (so that identical input recurs in the other direction, in another size class, on the other object, and
// the repeated call sees exactly its first input again). Every call is compared with the reference SM4, block by block.

import (
	"bytes"
	"crypto/cipher"
	"fmt"

	gcipher "github.com/emmansun/gmsm/cipher"
	"github.com/emmansun/gmsm/sm4"

	"verif/engine"
	"verif/ref/sm4ref"
)

type hobj struct {
	key []byte
	blk cipher.Block
	ref *sm4ref.Cipher
	ecb [2]cipher.BlockMode // fused (where the tier has it): enc, dec
	hid [2]cipher.BlockMode // generic over the hiding wrapper
	cb  concurrentBlocks
}

func newHobj(key []byte) (*hobj, error) {
	blk, err := sm4.NewCipher(key)
	if err != nil {
		return nil, err
	}
	o := &hobj{key: key, blk: blk, ref: sm4ref.New(key)}
	o.ecb = [2]cipher.BlockMode{gcipher.NewECBEncrypter(blk), gcipher.NewECBDecrypter(blk)}
	o.hid = [2]cipher.BlockMode{gcipher.NewECBEncrypter(plainBlock{blk}), gcipher.NewECBDecrypter(plainBlock{blk})}
	o.cb, _ = blk.(concurrentBlocks)
	return o, nil
}

type hist struct {
	t    *engine.T
	pool engine.Pool
	o    [2]*hobj
	step int
	// fixed >= 0: every call of the current history works on the SAME leading blocks (stream number fixed), so the same
	// input recurs across operations, sizes, directions and objects and the repeated call sees exactly its first
	// input again; fixed < 0: every call gets content of its own
	fixed int
}

type hop struct {
	kind string // coarse class, part of the finding key
	name string
	run  func(h *hist) string // "" or the description of the wrong answer
}

func b2i(b bool) int {
	if b {
		return 1
	}
	return 0
}

// content returns the n distinct blocks the current step works on.
func (h *hist) content(n int) []byte {
	h.step++
	if h.fixed >= 0 {
		return distinctBlocks(n, h.fixed%23)
	}
	in := distinctBlocks(n, h.step%23)
	for j := 0; j < n; j++ {
		in[16*j+2] = byte(h.step)
		in[16*j+3] = byte(h.step >> 8)
	}
	return in
}

// batch runs call on n fresh blocks (disjoint when step is even, in place when odd) and compares with the reference;
// blocks from index lenient on may also be left untouched.
func (h *hist) batch(o *hobj, what string, n int, dec bool, lenient int, call func(dst, src []byte)) string {
	in := h.content(n)
	want := refBlocks(o.ref, dec, in)
	src := h.pool.Copy(in)
	dst := src
	before := in
	if h.step%2 == 0 {
		dst = h.pool.Get(len(in))
		engine.FillPattern(dst, 1)
		before = append([]byte{}, dst...)
	}
	call(dst, src)
	h.t.Eval(1)
	msg := ""
	for j := 0; j < n && msg == ""; j++ {
		g := dst[16*j : 16*j+16]
		if bytes.Equal(g, want[16*j:16*j+16]) || (j >= lenient && bytes.Equal(g, before[16*j:16*j+16])) {
			continue
		}
		msg = fmt.Sprintf("%s over %d blocks (%s, key %x): block %d = %x, reference %x", what, n, dir2(dec), o.key, j, g, want[16*j:16*j+16])
	}
	if msg == "" && h.step%2 == 0 && !bytes.Equal(src, in) {
		msg = fmt.Sprintf("%s over %d blocks: source modified", what, n)
	}
	if !h.pool.Release() && msg == "" {
		msg = fmt.Sprintf("%s over %d blocks: canary in front of a buffer overwritten", what, n)
	}
	return msg
}

func historyOps(conc int) []hop {
	var ops []hop
	add := func(kind, name string, run func(h *hist) string) { ops = append(ops, hop{kind, name, run}) }
	for oi, on := range []string{"A", "B"} {
		oi := oi
		for _, dec := range []bool{false, true} {
			dec := dec
			add("single-"+dir2(dec), on+".single-"+dir2(dec), func(h *hist) string {
				o := h.o[oi]
				f := o.blk.Encrypt
				if dec {
					f = o.blk.Decrypt
				}
				return h.batch(o, "cipher.Block", 1, dec, 1, f)
			})
		}
		ecbN := []int{1, 2, 3, 4, 5, 8, 9, 16, 17, 33}
		hidN := []int{1, 17}
		if oi == 1 {
			ecbN = []int{8, 17}
			hidN = []int{3}
		}
		for _, dec := range []bool{false, true} {
			dec := dec
			for _, n := range ecbN {
				n := n
				add("ecb-"+dir2(dec), fmt.Sprintf("%s.ecb-%s(%d)", on, dir2(dec), n), func(h *hist) string {
					o := h.o[oi]
					return h.batch(o, fmt.Sprintf("%T.CryptBlocks", o.ecb[b2i(dec)]), n, dec, n, o.ecb[b2i(dec)].CryptBlocks)
				})
			}
			for _, n := range hidN {
				n := n
				add("ecb-hidden-"+dir2(dec), fmt.Sprintf("%s.ecb-hidden-%s(%d)", on, dir2(dec), n), func(h *hist) string {
					o := h.o[oi]
					return h.batch(o, fmt.Sprintf("%T.CryptBlocks", o.hid[b2i(dec)]), n, dec, n, o.hid[b2i(dec)].CryptBlocks)
				})
			}
			if conc > 0 {
				mult := []int{1, 2}
				if oi == 1 {
					mult = []int{1}
				}
				for _, k := range mult {
					k := k
					add("blocks-"+dir2(dec), fmt.Sprintf("%s.blocks-%s(%dx)", on, dir2(dec), k), func(h *hist) string {
						o := h.o[oi]
						f := o.cb.EncryptBlocks
						if dec {
							f = o.cb.DecryptBlocks
						}
						return h.batch(o, "batch method", k*conc, dec, conc, f)
					})
				}
			}
		}
	}
	// re-creation of derived objects on A: the new object and the old ones of the other direction stay right
	for _, dec := range []bool{false, true} {
		dec := dec
		add("renew-ecb-"+dir2(dec), "A.renew-ecb-"+dir2(dec), func(h *hist) string {
			o := h.o[0]
			if dec {
				o.ecb[1] = gcipher.NewECBDecrypter(o.blk)
			} else {
				o.ecb[0] = gcipher.NewECBEncrypter(o.blk)
			}
			if m := h.batch(o, "fresh ECB object", 9, dec, 9, o.ecb[b2i(dec)].CryptBlocks); m != "" {
				return m
			}
			return h.batch(o, "older ECB object of the other direction, after a new mode object was made from the block", 9, !dec, 9, o.ecb[b2i(!dec)].CryptBlocks)
		})
	}
	// process-wide state: constructors in between
	add("renew-block", "A.renew-block-same-key", func(h *hist) string {
		o, err := newHobj(h.o[0].key)
		if err != nil {
			return "NewCipher: " + err.Error()
		}
		old := h.o[0]
		h.o[0] = o
		if m := h.batch(o, "block rebuilt from the same key", 5, false, 5, o.ecb[0].CryptBlocks); m != "" {
			return m
		}
		return h.batch(old, "previous block object of the same key", 1, true, 1, old.blk.Decrypt)
	})
	add("other-constructor", "newcipher(third key)+use", func(h *hist) string {
		k, _ := value(structured + 55)
		o, err := newHobj(k)
		if err != nil {
			return "NewCipher: " + err.Error()
		}
		return h.batch(o, "third block", 4, false, 4, o.ecb[0].CryptBlocks)
	})
	for _, n := range []int{0, 15, 17, 32} {
		n := n
		add("rejected-constructor", fmt.Sprintf("newcipher(%d bytes)", n), func(h *hist) string {
			h.t.Eval(1)
			if _, err := sm4.NewCipher(engine.Pattern(2, n)); err == nil {
				return fmt.Sprintf("NewCipher accepted %d bytes", n)
			}
			return ""
		})
	}
	// calls the API answers with a panic; nothing is required of them here (see contract/…), the buffers are ordinary
	// heap memory with room behind them
	fail := func(name string, f func(h *hist, dst, src []byte)) {
		add("panicking-call", name, func(h *hist) string {
			mem := make([]byte, 1024)
			h.t.Eval(1)
			tryCall(func() { f(h, mem[:512:512], mem[512:]) })
			return ""
		})
	}
	fail("A.single-enc(short src)", func(h *hist, d, s []byte) { h.o[0].blk.Encrypt(d[:16], s[:15]) })
	fail("A.single-dec(short dst)", func(h *hist, d, s []byte) { h.o[0].blk.Decrypt(d[:8], s[:16]) })
	fail("A.ecb-enc(partial block)", func(h *hist, d, s []byte) { h.o[0].ecb[0].CryptBlocks(d[:48], s[:33]) })
	fail("A.ecb-dec(short dst)", func(h *hist, d, s []byte) { h.o[0].ecb[1].CryptBlocks(d[:16], s[:32]) })
	if conc > 0 {
		fail("A.blocks-enc(short src)", func(h *hist, d, s []byte) { h.o[0].cb.EncryptBlocks(d[:16*conc], s[:16*conc-16]) })
	}
	return ops
}

func widenHistory(c *engine.Ctx) {
	// The operation list depends on whether the tier offers the batch methods; the case list must not (it has to be
	// the same in every configuration): cases are indexed by a fixed upper bound of first operations.
	const groups = 8
	for g := 0; g < groups; g++ {
		g := g
		c.Case(fmt.Sprintf("history/first-op-group=%d/%d", g, groups), func(t *engine.T) {
			keyA, _ := value(2)
			keyB, _ := value(structured + 9)
			a, err := newHobj(keyA)
			if err != nil {
				t.Fail("newcipher/16-byte-key-rejected", "%v", err)
				return
			}
			b, _ := newHobj(keyB)
			h := &hist{t: t, o: [2]*hobj{a, b}}
			conc := 0
			if a.cb != nil {
				conc = a.cb.Concurrency()
			}
			ops := historyOps(conc)
			t.Outcome(fmt.Sprintf("history-ops=%d", len(ops)))
			run := func(op hop, trail string) bool {
				if m := op.run(h); m != "" {
					t.Fail("history/"+op.kind+"/ref-mismatch", "history %s: %s", trail, m)
					return false
				}
				return true
			}
			hno := 0
			for i := g; i < len(ops); i += groups {
				for j := range ops {
					var third []int
					if t.Quick() {
						third = []int{i} // a ; b ; a
					} else {
						for k := range ops {
							third = append(third, k)
						}
					}
					for _, k := range third {
						trail := ops[i].name + " ; " + ops[j].name + " ; " + ops[k].name
						for _, same := range []bool{false, true} {
							hno++
							h.fixed = -1
							tr := trail + " (fresh content per call)"
							if same {
								h.fixed = hno
								tr = trail + " (same content in every call)"
							}
							if !(run(ops[i], tr+" [1st]") && run(ops[j], tr+" [2nd]") && run(ops[k], tr+" [3rd]")) {
								return // the objects may be in a broken state; later histories would repeat the report
							}
						}
						t.Nontrivial("history/" + trail)
					}
				}
			}
			if g == 0 {
				t.Sample(map[string]any{"kind": "history", "operations": len(ops), "depth": 3, "third": map[bool]string{true: "first operation again", false: "every operation"}[t.Quick()]})
			}
		})
	}
}
