package c02

// len/…: length classes beyond the original 1…40 blocks.
//
//   - ECB (fused and generic) over every block count 41…80 (three to five rounds of the 16-block kernel followed by every
//     combination of the 8-, 4- and 1…3-block tails) with an all-distinct filling and a distinguished block at the
//     kernel boundaries (thorough: at every position), and over the neighbourhoods of the powers of two up to 1025
//     blocks (a message of several pages); disjoint and in place, every buffer ending at an unmapped page.
//   - The batch methods with EVERY source length from Concurrency() to 4*Concurrency() blocks (the original check
//     has exactly one and exactly two batches). The contract for more than one batch is not written down (c02.go):
//     required is that the first batch is right, that every later block is right or untouched, that nothing behind
//     len(src) is written in a destination that is longer, and - through the guard pages - that nothing behind the
//     source is read and nothing behind the destination is written.
//   - Empty calls: CryptBlocks with nil and with empty slices, and with an empty source in front of a non-empty
//     destination, returns without touching anything.

import (
	"bytes"
	"crypto/cipher"
	"fmt"

	gcipher "github.com/emmansun/gmsm/cipher"
	"github.com/emmansun/gmsm/sm4"

	"verif/engine"
	"verif/ref/sm4ref"
)

func widenLen(c *engine.Ctx) {
	lenKeys := []int{2, 66, 198}
	for _, ki := range lenKeys {
		ki := ki
		for _, pname := range []string{"ecb", "ecb-hidden"} {
			pname := pname
			c.Case(fmt.Sprintf("len/%s/key=%d/n=41..1025", pname, ki), func(t *engine.T) {
				key, _ := value(ki)
				raw, err := sm4.NewCipher(key)
				if err != nil {
					t.Fail("newcipher/16-byte-key-rejected", "sm4.NewCipher(%x): %v", key, err)
					return
				}
				ref := sm4ref.New(key)
				var blk cipher.Block = raw
				if pname == "ecb-hidden" {
					blk = plainBlock{raw}
				}
				bg, _ := value(structured + 8 + ki%5)
				ds, _ := value(structured + 21 + ki%7)
				refBg := [2][]byte{refBlocks(ref, false, bg), refBlocks(ref, true, bg)}
				refDs := [2][]byte{refBlocks(ref, false, ds), refBlocks(ref, true, ds)}
				var pool engine.Pool
				for _, dec := range []bool{false, true} {
					var mode cipher.BlockMode
					if dec {
						mode = gcipher.NewECBDecrypter(blk)
					} else {
						mode = gcipher.NewECBEncrypter(blk)
					}
					one := func(n, p int, in, want []byte) {
						for _, inplace := range []bool{false, true} {
							src := pool.Copy(in)
							dst := src
							alias := "inplace"
							if !inplace {
								dst = pool.Get(len(in))
								engine.FillPattern(dst, 1)
								alias = "disjoint"
							}
							key := fmt.Sprintf("len/%s/%s/%s", pname, dir2(dec), alias)
							if t.Guard(key, func() { mode.CryptBlocks(dst, src) }) {
								pool.Release()
								continue
							}
							t.Eval(1)
							if !bytes.Equal(dst, want) {
								d := engine.FirstDiff(dst, want)
								t.Fail(key+"/wrong-block", "%T.CryptBlocks over %d blocks, distinguished position %d: block %d is wrong (after %d rounds of 16 blocks, tail of %d): got %x want %x",
									mode, n, p, d/16, d/256, n%16, dst[d/16*16:d/16*16+16], want[d/16*16:d/16*16+16])
							}
							if !inplace && !bytes.Equal(src, in) {
								t.Fail(fmt.Sprintf("len/%s/%s/source-modified", pname, dir2(dec)), "%d blocks: source changed", n)
							}
							if !pool.Release() {
								t.Fail(fmt.Sprintf("len/%s/%s/write-before-buffer", pname, dir2(dec)), "%d blocks: canary in front of a buffer was overwritten", n)
							}
						}
						t.Nontrivial(fmt.Sprintf("len/%s/%v/%d/%d", pname, dec, n, p))
					}
					sizes := []int{}
					for n := 41; n <= 80; n++ {
						sizes = append(sizes, n)
					}
					sizes = append(sizes, 95, 96, 97, 127, 128, 129, 255, 256, 257, 511, 512, 513, 1023, 1024, 1025)
					for _, n := range sizes {
						in := distinctBlocks(n, n%23)
						one(n, -1, in, refBlocks(ref, dec, in))
						var pos []int
						switch {
						case n > 80:
							pos = []int{0, n - 1}
						case t.Quick():
							for _, p := range []int{0, 15, 16, 31, 32, 47, 48, 63, 64, 71, 72, 75, 76, n - 4, n - 3, n - 2, n - 1} {
								if p < n {
									pos = append(pos, p)
								}
							}
						default:
							for p := 0; p < n; p++ {
								pos = append(pos, p)
							}
						}
						seen := map[int]bool{}
						for _, p := range pos {
							if seen[p] {
								continue
							}
							seen[p] = true
							in := bytes.Repeat(bg, n)
							want := bytes.Repeat(refBg[b2i(dec)], n)
							copy(in[16*p:], ds)
							copy(want[16*p:], refDs[b2i(dec)])
							one(n, p, in, want)
						}
					}
					// empty calls
					for _, e := range []struct {
						name     string
						dst, src []byte
					}{
						{"nil,nil", nil, nil},
						{"empty,empty", []byte{}, []byte{}},
						{"nil-dst,empty-src", nil, []byte{}},
						{"dst32,nil-src", engine.Pattern(4, 32), nil},
						{"dst32,empty-src-with-capacity", engine.Pattern(4, 32), engine.Pattern(5, 64)[:0]},
					} {
						before := append([]byte{}, e.dst...)
						spare := append([]byte{}, e.src[:cap(e.src)]...)
						if t.Guard("len/"+pname+"/empty-call", func() { mode.CryptBlocks(e.dst, e.src) }) {
							continue
						}
						t.Eval(1)
						t.Nontrivial("len/" + pname + "/empty/" + e.name + dir2(dec))
						if !bytes.Equal(e.dst, before) || !bytes.Equal(e.src[:cap(e.src)], spare) {
							t.Fail("len/"+pname+"/empty-call/stores", "CryptBlocks(%s) changed a buffer although there is nothing to process", e.name)
						}
					}
				}
				t.Outcome("len-" + pname + "-done")
			})
		}
		c.Case(fmt.Sprintf("len/blocks/key=%d/src=1x..4x", ki), func(t *engine.T) {
			key, _ := value(ki)
			raw, err := sm4.NewCipher(key)
			if err != nil {
				t.Fail("newcipher/16-byte-key-rejected", "sm4.NewCipher(%x): %v", key, err)
				return
			}
			cb, ok := raw.(concurrentBlocks)
			if !ok {
				t.Outcome("no-concurrentBlocks")
				t.Eval(1)
				return
			}
			ref := sm4ref.New(key)
			conc := cb.Concurrency()
			var pool engine.Pool
			for _, dec := range []bool{false, true} {
				call, dir := cb.EncryptBlocks, "enc"
				if dec {
					call, dir = cb.DecryptBlocks, "dec"
				}
				for n := conc; n <= 4*conc; n++ {
					in := distinctBlocks(n, n%23)
					want := refBlocks(ref, dec, in)
					for _, extra := range []int{0, 16, 16 * conc} {
						for _, inplace := range []bool{false, true} {
							var dst, src []byte
							if inplace {
								dst = pool.Get(len(in) + extra)
								engine.FillPattern(dst, 3)
								copy(dst, in)
								src = dst[:len(in)]
							} else {
								src = pool.Copy(in)
								dst = pool.Get(len(in) + extra)
								engine.FillPattern(dst, 3)
							}
							before := append([]byte{}, dst...)
							key := fmt.Sprintf("len/blocks/%s/%s", dir, map[bool]string{true: "inplace", false: "disjoint"}[inplace])
							if t.Guard(key, func() { call(dst, src) }) {
								pool.Release()
								continue
							}
							t.Eval(1)
							if !bytes.Equal(dst[:16*conc], want[:16*conc]) {
								d := engine.FirstDiff(dst[:16*conc], want[:16*conc])
								t.Fail(key+"/first-batch-wrong", "source of %d blocks (Concurrency() = %d), destination %d bytes longer: block %d of the first batch is wrong", n, conc, extra, d/16)
							}
							processed := conc
							for j := conc; j < n; j++ {
								o := dst[16*j : 16*j+16]
								switch {
								case bytes.Equal(o, want[16*j:16*j+16]):
									processed = j + 1
								case bytes.Equal(o, before[16*j:16*j+16]):
								default:
									t.Fail(key+"/later-block-garbage", "source of %d blocks (Concurrency() = %d): block %d is neither processed nor untouched: %x", n, conc, j, o)
								}
							}
							t.Outcome(fmt.Sprintf("blocks-src=%d-processed=%d", n, processed))
							if !bytes.Equal(dst[len(in):], before[len(in):]) {
								t.Fail(key+"/stores-past-source-length", "source of %d blocks into a destination %d bytes longer: bytes behind dst[len(src)] were changed", n, extra)
							}
							if !inplace && !bytes.Equal(src, in) {
								t.Fail(key+"/source-modified", "source of %d blocks: source changed", n)
							}
							if !pool.Release() {
								t.Fail(key+"/write-before-buffer", "canary overwritten")
							}
							t.Nontrivial(fmt.Sprintf("len/blocks/%v/%d/%d/%v", dec, n, extra, inplace))
						}
					}
				}
			}
		})
	}
}
