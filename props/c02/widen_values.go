package c02

// values/…: the byte-structured part of the key × block quantifier, completed, and taken through every batch kernel.
//
// Alphabet V (8448 values): every byte value 0…255 at every one of the 16 byte positions on an all-zero background
// and on an all-ones background, and the 256 values whose bytes are all equal (the original alphabet has four byte
// values per position on the zero background only).
//
//   - values/key: every v ∈ V as KEY (through the constructor's key schedule of the tier) × 4 blocks: single-block
//     Encrypt / in-place Decrypt and one fused ECB call over 9 blocks, against the reference.
//   - values/block: V as one message of 8448 blocks under 8 keys. The original batch cases push ~75 different block
//     values through the assembly kernels; here every v ∈ V visits EVERY LANE of EVERY kernel: the message is processed
//     as a whole (16-block rounds) after 0…15 filler blocks, and in chunks of c = 1, 2, 3, 4, 8 blocks (the single-,
//     2-, 3-, 4- and 8-block kernels) after 0…c-1 filler blocks, through fused ECB; through the batch methods in chunks
//     of one and two batches; through generic ECB and through cipher.Block one block at a time. Both directions.
//     Oracle: reference SM4 per block (computed once per key and direction).

import (
	"bytes"
	"crypto/cipher"
	"fmt"

	gcipher "github.com/emmansun/gmsm/cipher"
	"github.com/emmansun/gmsm/sm4"

	"verif/engine"
	"verif/ref/sm4ref"
)

const nByteValues = 2*16*256 + 256

// byteValue returns the i-th value of V and its class.
func byteValue(i int) ([]byte, string) {
	b := make([]byte, 16)
	switch {
	case i < 4096:
		b[i/256] = byte(i)
		return b, "byte-on-zero"
	case i < 8192:
		for j := range b {
			b[j] = 0xff
		}
		i -= 4096
		b[i/256] = byte(i)
		return b, "byte-on-ones"
	default:
		for j := range b {
			b[j] = byte(i - 8192)
		}
		return b, "equal-bytes"
	}
}

func widenValues(c *engine.Ctx) {
	// keys
	const perCase = 1056 // 8 cases
	for k0 := 0; k0 < nByteValues; k0 += perCase {
		k0 := k0
		c.Case(fmt.Sprintf("values/key/%d..%d", k0, k0+perCase-1), func(t *engine.T) {
			var pool engine.Pool
			blocks := distinctBlocks(9, 5)
			z, _ := value(0)
			o, _ := value(1)
			copy(blocks[0:], z)
			copy(blocks[16:], o)
			for ki := k0; ki < k0+perCase && ki < nByteValues; ki++ {
				key, kclass := byteValue(ki)
				ks := pool.Copy(key) // the key ends at an unmapped page
				blk, err := sm4.NewCipher(ks)
				if err != nil {
					t.Fail("newcipher/16-byte-key-rejected", "sm4.NewCipher(%x): %v", key, err)
					pool.Release()
					continue
				}
				ref := sm4ref.New(key)
				want := refBlocks(ref, false, blocks)
				src, dst := pool.Get(16), pool.Get(16)
				for j := 0; j < 4; j++ {
					copy(src, blocks[16*j:])
					blk.Encrypt(dst, src)
					if !bytes.Equal(dst, want[16*j:16*j+16]) {
						t.Fail("values/key/"+kclass+"/encrypt", "key %x block %x: Encrypt = %x, reference %x", key, src, dst, want[16*j:16*j+16])
						break
					}
					blk.Decrypt(dst, dst)
					if !bytes.Equal(dst, src) {
						t.Fail("values/key/"+kclass+"/decrypt-inplace", "key %x ct %x: Decrypt in place = %x, want %x", key, want[16*j:16*j+16], dst, src)
						break
					}
					t.Eval(2)
				}
				buf := pool.Copy(blocks)
				gcipher.NewECBEncrypter(blk).CryptBlocks(buf, buf)
				t.Eval(1)
				if !bytes.Equal(buf, want) {
					t.Fail("values/key/"+kclass+"/ecb", "key %x: fused ECB over 9 blocks: block %d wrong", key, engine.FirstDiff(buf, want)/16)
				}
				gcipher.NewECBDecrypter(blk).CryptBlocks(buf, buf)
				t.Eval(1)
				if !bytes.Equal(buf, blocks) {
					t.Fail("values/key/"+kclass+"/ecb-roundtrip", "key %x: fused ECB decryption of 9 blocks: block %d wrong", key, engine.FirstDiff(buf, blocks)/16)
				}
				if !bytes.Equal(ks, key) {
					t.Fail("ctor/key-modified-by-constructor", "key %x became %x", key, ks)
				}
				t.Nontrivial(fmt.Sprintf("values/key/%d", ki))
				t.Outcome(fmt.Sprintf("vct0=%02x", want[0]))
				if !pool.Release() {
					t.Fail("values/key/write-before-buffer", "canary overwritten")
				}
			}
		})
	}

	// blocks through every lane of every kernel
	for _, ki := range []int{2, 0, 1, 3, 130, 131, 194, 199} {
		ki := ki
		for _, dec := range []bool{false, true} {
			dec := dec
			c.Case(fmt.Sprintf("values/block/key=%d/%s", ki, dir2(dec)), func(t *engine.T) {
				key, _ := value(ki)
				raw, err := sm4.NewCipher(key)
				if err != nil {
					t.Fail("newcipher/16-byte-key-rejected", "sm4.NewCipher(%x): %v", key, err)
					return
				}
				ref := sm4ref.New(key)
				const maxFill = 32
				msg := make([]byte, 16*(maxFill+nByteValues))
				filler := distinctBlocks(maxFill, 3)
				for i := 0; i < nByteValues; i++ {
					v, _ := byteValue(i)
					copy(msg[16*(maxFill+i):], v)
				}
				copy(msg, filler)
				want := refBlocks(ref, dec, msg)
				dir := dir2(dec)
				var pool engine.Pool
				// sweep runs call over msg[16*(maxFill-fill):] in chunks of c blocks (c == 0: one call); the last chunk
				// is whatever remains (block counts below c reach the smaller tails once more)
				sweep := func(pname string, c, fill int, call func(dst, src []byte), wholeOnly bool, lenientFrom int) {
					in := msg[16*(maxFill-fill):]
					w := want[16*(maxFill-fill):]
					buf := pool.Copy(in)
					step := 16 * c
					if c == 0 {
						step = len(buf)
					}
					key := fmt.Sprintf("values/block/%s/%s/chunk=%d", pname, dir, c)
					bad := false
					for o := 0; o < len(buf) && !bad; o += step {
						e := o + step
						if e > len(buf) {
							if wholeOnly { // the batch methods take whole batches only
								break
							}
							e = len(buf)
						}
						if t.Guard(key, func() { call(buf[o:e:e], buf[o:e:e]) }) {
							bad = true
							break
						}
						t.Eval(1)
						if bytes.Equal(buf[o:e], w[o:e]) {
							continue
						}
						for d := o; d < e; d += 16 {
							if bytes.Equal(buf[d:d+16], w[d:d+16]) {
								continue
							}
							lane := (d - o) / 16
							if lenientFrom >= 0 && lane >= lenientFrom && bytes.Equal(buf[d:d+16], in[d:d+16]) {
								continue // second batch left untouched: admitted (unwritten contract, see c02.go)
							}
							bi := d/16 - fill
							cls := "filler"
							if bi >= 0 {
								_, cls = byteValue(bi)
							}
							t.Fail(key+"/wrong-block", "chunks of %d blocks after %d filler blocks: lane %d of the chunk, value #%d (%s) %x -> %x, reference %x",
								c, fill, lane, bi, cls, in[d:d+16], buf[d:d+16], w[d:d+16])
							bad = true
							break
						}
					}
					t.Nontrivial(fmt.Sprintf("values/block/%s/%d/%d", pname, c, fill))
					if !pool.Release() {
						t.Fail(key+"/write-before-buffer", "canary overwritten")
					}
				}
				var mode, hidden cipher.BlockMode
				single := raw.Encrypt
				if dec {
					mode, hidden, single = gcipher.NewECBDecrypter(raw), gcipher.NewECBDecrypter(plainBlock{raw}), raw.Decrypt
				} else {
					mode, hidden = gcipher.NewECBEncrypter(raw), gcipher.NewECBEncrypter(plainBlock{raw})
				}
				for fill := 0; fill < 16; fill++ {
					sweep("ecb", 0, fill, mode.CryptBlocks, false, -1)
				}
				for _, c := range []int{1, 2, 3, 4, 8} {
					for fill := 0; fill < c; fill++ {
						sweep("ecb", c, fill, mode.CryptBlocks, false, -1)
					}
				}
				sweep("ecb-hidden", 0, 0, hidden.CryptBlocks, false, -1)
				sweep("single", 1, 0, single, false, -1)
				if cb, ok := raw.(concurrentBlocks); ok {
					conc := cb.Concurrency()
					call := cb.EncryptBlocks
					if dec {
						call = cb.DecryptBlocks
					}
					for fill := 0; fill < conc; fill++ {
						sweep("blocks", conc, fill, call, true, -1)
					}
					// the double batch: first half strict, second half right or untouched (as in the original check)
					for fill := 0; fill < 2*conc; fill++ {
						sweep("blocks", 2*conc, fill, call, true, conc)
					}
				} else {
					t.Outcome("no-concurrentBlocks")
				}
				t.Outcome("values-block-done")
				if ki == 2 {
					t.Sample(map[string]any{"kind": "values/block", "values": nByteValues, "dir": dir})
				}
			})
		}
	}
}
