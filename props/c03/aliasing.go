package c03

// Constructor arguments belong to the caller: after a mode object has been constructed the caller may overwrite its
// key / IV / tweak / hash-key slices (or hand the same slices to the next constructor), and the object must go on
// working with the values it was given; constructors must not modify their arguments. One object per mode and code
// path; each is constructed, its arguments are overwritten, then it is used in two calls and compared with the
// reference computed from the ORIGINAL values.

import (
	"bytes"
	"crypto/cipher"
	"fmt"

	smcipher "github.com/emmansun/gmsm/cipher"

	"verif/engine"
	"verif/ref/modesref"
)

type ctorCase struct {
	name string
	// build constructs the object from the given (caller-owned) slices and returns a function that processes one
	// whole message in two calls (split at a block boundary) and the reference output for the original values
	build func(w string, key, key2, iv []byte) (run func(src []byte) []byte, err error)
	ref   func(key, key2, iv, src []byte) []byte
	// msgLen must be a multiple of 32 for the two-call split
}

func twoCallsBM(m cipher.BlockMode) func(src []byte) []byte {
	return func(src []byte) []byte {
		dst := make([]byte, len(src))
		h := len(src) / 2
		m.CryptBlocks(dst[:h], src[:h])
		m.CryptBlocks(dst[h:], src[h:])
		return dst
	}
}

func twoCallsStream(s cipher.Stream) func(src []byte) []byte {
	return func(src []byte) []byte {
		dst := make([]byte, len(src))
		h := len(src)/2 + 3
		s.XORKeyStream(dst[:h], src[:h])
		s.XORKeyStream(dst[h:], src[h:])
		return dst
	}
}

func ctorCases() []ctorCase {
	rb := func(k []byte) modesref.Block { return refBlock(k) }
	return []ctorCase{
		{"cbc-enc", func(w string, k, _, iv []byte) (func([]byte) []byte, error) {
			return twoCallsBM(cipher.NewCBCEncrypter(mustBlock(k, w), iv)), nil
		}, func(k, _, iv, src []byte) []byte { return modesref.CBCEncrypt(rb(k), iv, src) }},
		{"cbc-dec", func(w string, k, _, iv []byte) (func([]byte) []byte, error) {
			return twoCallsBM(cipher.NewCBCDecrypter(mustBlock(k, w), iv)), nil
		}, func(k, _, iv, src []byte) []byte { return modesref.CBCDecrypt(rb(k), iv, src) }},
		{"ctr", func(w string, k, _, iv []byte) (func([]byte) []byte, error) {
			return twoCallsStream(cipher.NewCTR(mustBlock(k, w), iv)), nil
		}, func(k, _, iv, src []byte) []byte { return modesref.CTR(rb(k), iv, src) }},
		{"cfb-enc", func(w string, k, _, iv []byte) (func([]byte) []byte, error) {
			return twoCallsStream(cipher.NewCFBEncrypter(mustBlock(k, w), iv)), nil
		}, func(k, _, iv, src []byte) []byte { return modesref.CFBEncrypt(rb(k), iv, src) }},
		{"ofb", func(w string, k, _, iv []byte) (func([]byte) []byte, error) {
			return twoCallsStream(cipher.NewOFB(mustBlock(k, w), iv)), nil
		}, func(k, _, iv, src []byte) []byte { return modesref.OFB(rb(k), iv, src) }},
		{"bc-enc", func(w string, k, _, iv []byte) (func([]byte) []byte, error) {
			return twoCallsBM(smcipher.NewBCEncrypter(mustBlock(k, w), iv)), nil
		}, func(k, _, iv, src []byte) []byte { return modesref.BCEncrypt(rb(k), iv, src) }},
		{"bc-dec", func(w string, k, _, iv []byte) (func([]byte) []byte, error) {
			return twoCallsBM(smcipher.NewBCDecrypter(mustBlock(k, w), iv)), nil
		}, func(k, _, iv, src []byte) []byte { return modesref.BCDecrypt(rb(k), iv, src) }},
		{"ofbnlf-enc", func(w string, k, _, iv []byte) (func([]byte) []byte, error) {
			m, err := smcipher.NewOFBNLFEncrypter(creator(w), k, iv)
			if err != nil {
				return nil, err
			}
			return twoCallsBM(m), nil
		}, func(k, _, iv, src []byte) []byte { return modesref.OFBNLFEncrypt(rb, k, iv, src) }},
		{"xts-ieee-enc", func(w string, k, k2, iv []byte) (func([]byte) []byte, error) {
			m, err := smcipher.NewXTSEncrypter(creator(w), k, k2, iv)
			if err != nil {
				return nil, err
			}
			return twoCallsBM(m), nil
		}, func(k, k2, iv, src []byte) []byte { return modesref.XTSEncrypt(rb(k), rb(k2), iv, false, src) }},
		{"xts-gb-dec", func(w string, k, k2, iv []byte) (func([]byte) []byte, error) {
			m, err := smcipher.NewGBXTSDecrypter(creator(w), k, k2, iv)
			if err != nil {
				return nil, err
			}
			return twoCallsBM(m), nil
		}, func(k, k2, iv, src []byte) []byte { return modesref.XTSDecrypt(rb(k), rb(k2), iv, true, src) }},
		{"hctr-enc", func(w string, k, k2, iv []byte) (func([]byte) []byte, error) {
			m, err := smcipher.NewHCTR(mustBlock(k, w), iv, k2)
			if err != nil {
				return nil, err
			}
			return func(src []byte) []byte {
				dst := make([]byte, len(src))
				m.EncryptBytes(dst, src)
				d2 := make([]byte, len(src))
				m.EncryptBytes(d2, src) // a second message on the same object must give the same bytes
				if !bytes.Equal(dst, d2) {
					return append(dst, 0xEE)
				}
				return dst
			}, nil
		}, func(k, k2, iv, src []byte) []byte { return modesref.HCTREncrypt(rb(k), iv, k2, src) }},
	}
}

func runCtorAliasing(c *engine.Ctx) {
	for _, w := range []string{"fused", "hidden", "conc"} {
		w := w
		c.Case("ctor-arguments/"+w, func(t *engine.T) {
			for _, cc := range ctorCases() {
				for _, n := range []int{64, 160, 288} { // whole blocks, multiples of 32: below one batch, above, several
					key, key2, iv := append([]byte{}, engine.Pattern(3, 16)...), append([]byte{}, engine.Pattern(4, 16)...), append([]byte{}, engine.Pattern(5, 16)...)
					k0, k20, iv0 := append([]byte{}, key...), append([]byte{}, key2...), append([]byte{}, iv...)
					src := append([]byte{}, msg(n)...)
					what := fmt.Sprintf("%s (%s path), %d bytes", cc.name, w, n)
					var run func([]byte) []byte
					var err error
					if t.Guard("ctor-arguments/"+cc.name, func() { run, err = cc.build(w, key, key2, iv) }) {
						continue
					}
					if err != nil {
						t.Fail("ctor-arguments/"+cc.name+"/constructor-error", "%s: %v", what, err)
						continue
					}
					if !bytes.Equal(key, k0) || !bytes.Equal(key2, k20) || !bytes.Equal(iv, iv0) {
						t.Fail("ctor-arguments/"+cc.name+"/constructor-modifies-argument", "%s: key %x->%x, second key %x->%x, iv/tweak %x->%x", what, k0, key, k20, key2, iv0, iv)
					}
					// the caller re-uses its slices
					for i := range key {
						key[i], key2[i], iv[i] = 0xA5, 0x5A, 0xC3
					}
					var got []byte
					if t.Guard("ctor-arguments/"+cc.name, func() { got = run(src) }) {
						continue
					}
					t.Eval(1)
					want := cc.ref(k0, k20, iv0, src)
					if !bytes.Equal(got, want) {
						t.Fail("ctor-arguments/"+cc.name+"/object-depends-on-callers-slices", "%s: after the caller overwrote the key/IV/tweak slices it had passed to the constructor the output differs from the reference at byte %d", what, engine.FirstDiff(got, want))
					}
					t.Nontrivial("ctor-arguments/" + w + "/" + cc.name + "/" + fmt.Sprint(n))
				}
			}
			t.Outcome("ctor-arguments/" + w)
		})
	}
}
