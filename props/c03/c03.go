// Package c03: cipher modes over SM4 (ECB, CBC, CFB, OFB, CTR, XTS IEEE/GB, BC, OFBNLF, HCTR) against one-shot
// reference modes: every length (E2), every call split up to a depth (E1), in place / disjoint / longer dst, on
// guard buffers, on every dispatch tier and through the fused, generic and batched code paths; widen*.go add the
// argument-layout, shared-block, call-pair, set-up-argument and boundary-value dimensions.
package c03

import (
	"fmt"

	"verif/engine"
	"verif/ref/modesref"
)

type Prop struct{}

func (Prop) ID() string                   { return "C03" }
func (Prop) Level() string                { return "model_checking" }
func (Prop) Configs(tier string) []string { return engine.AllTiers }

func (Prop) SelfTest() error {
	if err := modesref.SelfTest(); err != nil {
		return err
	}
	// the drivers rely on reference round trips (decryption inputs are reference ciphertexts) and on the prefix property
	for _, s := range specs() {
		for _, p := range params() {
			plain := msg(16 * 40)
			ct := s.refEnc(p, plain)
			if string(s.refDec(p, ct)) != string(plain) {
				return fmt.Errorf("c03: reference %s does not round-trip (%s)", s.name, p.name)
			}
			for _, n := range []int{0, 16, 48, 320} {
				if string(s.refEnc(p, plain[:n])) != string(ct[:n]) {
					return fmt.Errorf("c03: reference %s is not prefix-stable at %d bytes", s.name, n)
				}
			}
		}
	}
	return nil
}

func (Prop) Rule() string {
	return "Constructor arguments: for 11 mode constructors x 3 code paths the key / IV / tweak / hash-key slices are overwritten by the caller after construction (and must not have been modified by it); two calls on the object must still equal the reference for the original values. " +
		"E2 (full products, a fresh mode object per call): ECB/CBC/BC/OFBNLF 0..40 blocks; CFB/OFB/CTR every byte length 0..600 (thorough 0..2100); XTS IEEE and GB, enc and dec, every byte length 16..527 (thorough 16..2100), " +
		"one case per length up to 143 and per 16-length window above so that a worker crash is attributed to its length; HCTR every length 16..300 (thorough 16..600). " +
		"Each x {disjoint, dst==src, dst 32 bytes longer than src} with src and dst ending at a PROT_NONE page and sentinel bytes in front " +
		"x {key set A with IV/tweak 0^128 and 1^128, key set B with a pattern IV}; CTR additionally with the 72 counters 2^k-j (k in 32,64,96,128; j=0..17) " +
		"x wrappers {fused: the block as sm4.NewCipher returns it; hidden: a struct exposing only BlockSize/Encrypt/Decrypt; conc (XTS, HCTR): only concurrentBlocks visible, the library's own EncryptBlocks/DecryptBlocks underneath, " +
		"a 4-block emulation on tiers whose block has none}. Oracle: one-shot reference mode over reference SM4 (decryption input = reference ciphertext, so Dec(Enc(m))=m is implied), source unchanged, nothing outside dst[:len(src)] changed, no panic, no crash. " +
		"HCTR additionally: library-only round trip, all wrappers agree, object state dump unchanged by a call, and for every length and each of the 128 tweak bits: flipping the bit must change the ciphertext / must stop decryption from returning the plaintext (reported only after the reference confirms the two tweaks differ in result). " +
		"E1 (engine.BFS on the real mode object, depth 3 quick / 4 thorough, states merged only on identical full private state dump + stream position): CryptBlocks(k blocks), k in {0,1,2,3,4,5,7,8,9,15,16,17,31,32,33}; " +
		"XORKeyStream(c), c in {0,1,15,16,17,63,64,65,127,128,129,511,512,513}; SetIV(initial / other IV) where offered; XTS: non-final calls of 1..33 whole blocks, final calls of 16k+r bytes (k in 1,2,4,5,8,9,16,17; r in 1,8,15); disjoint and in-place machines; " +
		"oracle per call = matching window of the one-call reference. distinct_nontrivial counts distinct (mode, direction, wrapper, IV class, length) tuples plus distinct reached machine states. " +
		"Widened input dimensions (all against the same references, all 10 modes behind one table, every admitted wrapper and direction): " +
		"layout: 26 argument arrangements x a length list per mode (whole-block modes 0..40 blocks; byte-granular 0..84, 120..136, 250..262, 505..520; XTS 16..300; HCTR 16..100, 136..168, 264..296; thorough: every length to 560, HCTR to 320 and 520..560) - src||dst and dst||src carved from one array at odd addresses with capacities reaching to the end of the record, src/dst at 8 pairs of addresses mod 64 and dst==src at 1,8,15,17 mod 64 with dirty spare capacity, buffers that start right after a PROT_NONE page (disjoint, in place), len(dst)=len(src)+k for k in 1,15,16,17,64,256 and the same with dst starting at src for k in 1,16,64, nil slices; oracle: reference (HCTR lengths under the known finding: the library's own result with ordinary arrays), every byte of every surrounding array outside dst[:len(src)] unchanged. " +
		"shared-block: one cipher.Block object per key, every ordered pair of the 18 (mode, direction) objects over it used alternately (3 calls each, sizes 288/48/16 resp. 291/45/20, XTS 288/48/21, HCTR 288/56/24), and all 36 objects round robin; XTS and OFBNLF through a CipherCreator returning the same block object for the same key. " +
		"history/dst-longer: three calls on one object (sizes down and up), each with len(dst)=len(src)+k, k in 1,16,33. " +
		"split-pairs: CFB/OFB/CTR (fused and generic, CTR also from counter 2^64-3): fresh object, calls of a, b, 40 bytes for every a in 0..130 and 480..530, b in 0..40 and 495..530 (thorough a in 0..600, b in 0..80, 340..400, 430..470, 495..530), disjoint and in place; XTS: first call of 1..9,15,16,17 blocks then a final call of every length 16..175 (thorough ..300), all wrappers. " +
		"ctor-record / setiv-argument: all 18 slice-taking constructors and the 4 XTS sector-number constructors with key||iv||second key||message in one record, capacities to the end; the same slices re-used for a second constructor, then overwritten; the two objects used alternately; SetIV with a slice directly in front of the message of the following in-place call, overwritten after SetIV. " +
		"values: 13 HCTR hash keys entering every branch of the key-table set-up (incl. 0) x 2 tweaks x 10 lengths; 13 XTS tweaks chosen as D_K2(T) so that the encrypted tweak T is 0, all ones, or a single bit at either end of either 64-bit half x 30 lengths; CTR counters 2^(8k)-j for every byte boundary, j=0..17; all-zero / all-ones keys, IVs and message contents for every mode (also decryption OF such content); messages of 4096, 4113, 8200 bytes (thorough 16384, 65553)."
}

func (Prop) Assumptions() []string {
	return []string{
		"reference modes written from SP 800-38A, IEEE 1619, GB/T 17964-2021 and the HCTR paper over a reference SM4; anchored by SP 800-38A AES vectors, IEEE 1619 XTS-AES vectors, the GB/T 17964-2021 SM4 examples for XTS(GB), BC, OFBNLF and the whole-block HCTR examples, and by agreement with crypto/cipher over AES for byte-granular lengths and counter carries",
		"keys and IVs/tweaks are a small fixed alphabet (two key sets, IV 0^128, 1^128, one pattern, 72+216 carry counters for CTR, all-zero and all-ones keys, 13 boundary hash keys for HCTR, 13 boundary values of the encrypted XTS tweak); the property's 'every key, IV' is not covered beyond it",
		"every length up to 2100 bytes, beyond that only 4096, 4113, 8200, 16384 and 65553 bytes in single calls; data units of 2^20 blocks and counters advancing by more than 4097 blocks are not explored",
		"dispatch tiers are those reachable on this amd64 host via GODEBUG=cpu.*=off, FORCE_SM4BLOCK_AESNI=1 and -tags purego; arm64, ppc64le and s390x assembly are not covered; the 'conc' wrapper reaches the batched Go loops that are the production XTS path on ppc64le",
		"out-of-slice access past the end of a buffer kills the worker and is reported as crash@<frame>; access in front of a buffer does the same only in the front-guard arrangements of the layout family (elsewhere writes in front are seen through sentinels, reads in front are not observable)",
		"a cipher.Block is taken to be shareable between mode objects used one after the other in one goroutine (concurrent use is the subject of C20); the CipherCreator handed to XTS/OFBNLF may return the same block object for the same key",
		"calls violating documented preconditions (partial blocks to a BlockMode, XTS/HCTR input shorter than a block, dst shorter than src, partial overlap, wrong IV length) are not enumerated",
		"CBC/CFB/OFB/CTR over the 'hidden' wrapper execute Go standard library code over the SM4 block; CFB and OFB have no fused path and are run with the plain block only",
	}
}

func (Prop) Run(c *engine.Ctx) {
	runCtorAliasing(c)
	quick := c.Quick()
	streamMax, xtsMax, hctrMax, depth := 600, 527, 300, 3
	if !quick {
		streamMax, xtsMax, hctrMax, depth = 2100, 2100, 600, 4
	}

	// ---- (a)/(c)/(d) E2, prefix-stable modes
	for _, s := range specs() {
		s := s
		lengths := rangeInts(0, streamMax, 1)
		if s.blockwise {
			lengths = rangeInts(0, 40*16, 16)
		}
		dirs := []bool{false, true}
		if s.symmetric {
			dirs = []bool{false}
		}
		for _, dec := range dirs {
			dec := dec
			for _, w := range s.wrappers {
				w := w
				if s.blockwise {
					c.Case(fmt.Sprintf("e2/%s/%s/%s/blocks=0..40", s.name, dirName(dec), w), func(t *engine.T) {
						e2Prefix(t, s, dec, w, params(), lengths)
					})
					continue
				}
				ps := params()
				if s.name == "ctr" {
					ps = append(ps, ctrCarryIVs()...)
				}
				for _, p := range ps {
					p := p
					c.Case(fmt.Sprintf("e2/%s/%s/%s/%s/len=0..%d", s.name, dirName(dec), w, p.name, streamMax), func(t *engine.T) {
						e2Prefix(t, s, dec, w, []param{p}, lengths)
					})
				}
			}
		}
	}

	// ---- E2, XTS: one case per length up to 143, then one per 16-length window
	xtsW := []string{wFused, wHidden, wConc}
	for lo := 16; lo <= xtsMax; {
		hi := lo
		if lo > 143 {
			hi = lo + 15
			if hi > xtsMax {
				hi = xtsMax
			}
		}
		for _, w := range xtsW {
			for _, dec := range []bool{false, true} {
				for _, gb := range []bool{false, true} {
					lo, hi, w, dec, gb := lo, hi, w, dec, gb
					name := fmt.Sprintf("e2/%s/%s/%s/len=%d", xtsName(gb), dirName(dec), w, lo)
					if hi != lo {
						name = fmt.Sprintf("e2/%s/%s/%s/len=%d..%d", xtsName(gb), dirName(dec), w, lo, hi)
					}
					c.Case(name, func(t *engine.T) { e2XTS(t, gb, dec, w, lo, hi) })
				}
			}
		}
		lo = hi + 1
	}
	c.Case("e2/xts/with-sector-constructors", e2XTSSector)

	// ---- E2, HCTR (+ tweak dependence)
	for _, p := range params() {
		p := p
		for lo := 16; lo <= hctrMax; lo += 48 {
			lo := lo
			hi := lo + 47
			if hi > hctrMax {
				hi = hctrMax
			}
			c.Case(fmt.Sprintf("e2/hctr/%s/len=%d..%d", p.name, lo, hi), func(t *engine.T) { e2HCTR(t, p, lo, hi) })
			c.Case(fmt.Sprintf("e2/hctr-tweak-dependence/%s/len=%d..%d", p.name, lo, hi), func(t *engine.T) { hctrTweakDependence(t, p, lo, hi) })
		}
	}

	// ---- (b) E1 call splits
	pA := params()[0]
	carry := param{name: "A/iv=2^64-3", k1: keyA, k2: keyA2, iv: []byte{0, 0, 0, 0, 0, 0, 0, 0, 0xff, 0xff, 0xff, 0xff, 0xff, 0xff, 0xff, 0xfd}}
	for _, s := range specs() {
		s := s
		dirs := []bool{false, true}
		if s.symmetric {
			dirs = []bool{false}
		}
		ps := []param{pA}
		if s.name == "ctr" {
			ps = append(ps, carry)
		}
		for _, dec := range dirs {
			for _, w := range s.wrappers {
				for _, alias := range []int{aDisjoint, aInPlace} {
					for _, p := range ps {
						dec, w, alias, p := dec, w, alias, p
						c.Case(fmt.Sprintf("e1/%s/%s/%s/%s/%s/depth=%d", s.name, dirName(dec), w, aliasName[alias], p.name, depth), func(t *engine.T) {
							ar := newArena(33 * 16)
							defer ar.free()
							engine.BFS(t, splitMachine(s, dec, w, alias, p, depth, ar), depth)
						})
					}
				}
			}
		}
	}
	// XTS: the final-call alphabet is partitioned over several machines (a history contains at most one final call,
	// so the union of the machines' histories is the set of histories over the whole alphabet): one machine with the
	// final calls whose whole-block count is not a multiple of 4, and one machine per remaining final call.
	var finalSets [][][2]int
	var rest [][2]int
	for _, k := range xtsFinalK {
		for _, r := range xtsFinalR {
			if k%4 == 0 {
				finalSets = append(finalSets, [][2]int{{k, r}})
			} else {
				rest = append(rest, [2]int{k, r})
			}
		}
	}
	finalSets = append([][][2]int{rest}, finalSets...)
	for _, w := range xtsW {
		for _, alias := range []int{aDisjoint, aInPlace} {
			for fi, fs := range finalSets {
				for _, dec := range []bool{false, true} {
					for _, gb := range []bool{false, true} {
						w, alias, fi, fs, dec, gb := w, alias, fi, fs, dec, gb
						c.Case(fmt.Sprintf("e1/%s/%s/%s/%s/finals#%d/depth=%d", xtsName(gb), dirName(dec), w, aliasName[alias], fi, depth), func(t *engine.T) {
							ar := newArena(34 * 16)
							defer ar.free()
							engine.BFS(t, xtsMachine(gb, dec, w, alias, pA, depth, fs, ar), depth)
						})
					}
				}
			}
		}
	}

	// ---- widened input dimensions (widen*.go)
	runWiden(c)
}
