package c03

// Calls that violate the documented precondition len(dst) >= len(src) with a destination that is a SHORT WINDOW of a
// larger caller buffer (len(dst) < len(src) <= cap(dst)): a check that merely re-slices dst[:len(src)] does not trip,
// and a fused assembly body then stores len(src) bytes through the window into the caller's adjacent data. What the
// call does is not demanded (the documentation promises a panic); judged is only what the property plainly implies:
// nothing outside dst[:len(dst)] is written, and the object still continues the message correctly afterwards if the
// call panicked before consuming anything, or not at all (both accepted) - i.e. only memory outside the destination.

import (
	"bytes"
	"fmt"

	"verif/engine"
)

func runContract(c *engine.Ctx) {
	p := params()[2]
	ms := append(umodes(), sectorModes()...)
	for _, m := range ms {
		m := m
		for _, w := range m.wrappers {
			w := w
			c.Case(fmt.Sprintf("contract/short-dst-window/%s/%s", m.name, w), func(t *engine.T) {
				for _, dec := range m.dirs() {
					for _, n := range []int{16, 32, 64, 128, 144, 256, 272, 512} {
						if n < m.min {
							continue
						}
						for _, short := range []int{1, 16, n} {
							if short > n {
								continue
							}
							plain := engine.Pattern(3, n)
							in, _ := m.io(p, dec, plain)
							buf := make([]byte, n+64)
							engine.FillPattern(buf, 2)
							before := append([]byte{}, buf...)
							dst := buf[: n-short : len(buf)]
							src := append([]byte{}, in...)
							call := m.mk(p, w, dec)
							panicked := false
							func() {
								defer func() {
									if recover() != nil {
										panicked = true
									}
								}()
								call(dst, src)
							}()
							t.Eval(1)
							dir := dirName(dec)
							if !bytes.Equal(buf[len(dst):], before[len(dst):]) {
								d := engine.FirstDiff(buf[len(dst):], before[len(dst):])
								t.Fail(fmt.Sprintf("contract/%s/%s/%s/stores-outside-short-destination", m.name, dir, w),
									"%d source bytes, destination window of %d bytes inside a %d-byte buffer (panicked=%v): byte %d behind the window was overwritten", n, len(dst), len(buf), panicked, d)
							}
							if !bytes.Equal(src, in) {
								t.Fail(fmt.Sprintf("contract/%s/%s/%s/source-modified", m.name, dir, w), "%d source bytes, short destination: the source changed", n)
							}
							if panicked {
								t.Outcome("contract/" + m.name + "/panics")
							} else {
								t.Outcome("contract/" + m.name + "/returns")
							}
							t.Nontrivial(fmt.Sprintf("contract/%s/%s/%v/%d/%d", m.name, w, dec, n, short))
						}
					}
				}
			})
		}
	}
}
