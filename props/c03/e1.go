package c03

import (
	"bytes"
	"fmt"

	"verif/engine"
	"verif/ref/modesref"
)

var (
	blockChunks  = []int{0, 1, 2, 3, 4, 5, 7, 8, 9, 15, 16, 17, 31, 32, 33}          // blocks per CryptBlocks call
	streamChunks = []int{0, 1, 15, 16, 17, 63, 64, 65, 127, 128, 129, 511, 512, 513} // bytes per XORKeyStream call
	xtsFinalK    = []int{1, 2, 4, 5, 8, 9, 16, 17}                                   // whole blocks in a final XTS call
	xtsFinalR    = []int{1, 8, 15}                                                   // bytes of its partial block
)

type splitState struct {
	obj   any
	crypt func(dst, src []byte)
	ivID  int // IV governing the current segment (0: the constructor's, 1: the alternative)
	pos   int // bytes processed since the segment started
}

type ivSetter interface{ SetIV([]byte) }

// splitMachine: E1 machine for a prefix-stable mode. The message of a segment is the fixed content stream
// from offset 0; the oracle for every call is the matching window of the one-call reference output.
func splitMachine(s modeSpec, dec bool, w string, alias int, p param, depth int, ar *arena) engine.Machine[*splitState] {
	chunks := streamChunks
	unit := 1
	if s.blockwise {
		chunks = blockChunks
		unit = 16
	}
	maxChunk := chunks[len(chunks)-1] * unit
	total := depth * maxChunk
	ivs := [][]byte{p.iv, engine.Pattern(11, 16)}
	plain := msg(total)
	var cts [2][]byte
	for i := range ivs {
		q := p
		q.iv = ivs[i]
		cts[i] = s.refEnc(q, plain)
	}
	var ops []string
	call := "XORKeyStream"
	if s.blockwise {
		call = "CryptBlocks"
	}
	for _, c := range chunks {
		ops = append(ops, fmt.Sprintf("%s(%d bytes)", call, c*unit))
	}
	nChunk := len(ops)
	probe, _ := s.mk(p, w, dec)
	if _, ok := probe.(ivSetter); ok && s.setIV {
		ops = append(ops, "SetIV(initial IV)", "SetIV(other IV)")
	}
	base := s.name + "/" + dirName(dec) + "/" + w
	prefix := base + "/split"
	shapeOf := func(n int) string {
		sh := lenClass(n)
		if s.blockwise {
			sh = blocksClass(n / 16)
		}
		if s.name == "ctr" {
			sh = ivClass(p)
		}
		return sh
	}
	return engine.Machine[*splitState]{
		Name: fmt.Sprintf("%s/%s/%s/%s/%s", s.name, dirName(dec), w, aliasName[alias], p.name),
		New: func() *splitState {
			o, f := s.mk(p, w, dec)
			return &splitState{obj: o, crypt: f}
		},
		Ops: ops,
		Step: func(st *splitState, op int, t *engine.T) bool {
			if op >= nChunk {
				id := op - nChunk
				if t.Guard(prefix+"/setiv", func() { st.obj.(ivSetter).SetIV(ivs[id]) }) {
					return false
				}
				st.ivID, st.pos = id, 0
				return true
			}
			n := chunks[op] * unit
			in, want := plain[st.pos:st.pos+n], cts[st.ivID][st.pos:st.pos+n]
			if dec {
				in, want = want, in
			}
			var out []byte
			var probs []string
			if t.Guard(prefix, func() { out, probs = ar.run(in, alias, st.crypt) }) {
				return false
			}
			for _, pr := range probs {
				t.Fail(prefix+"/"+pr, "%d-byte call at stream offset %d, %s: %s", n, st.pos, aliasName[alias], pr)
			}
			if !bytes.Equal(out, want) {
				key := base + "/ref-mismatch/" + shapeOf(n)
				if st.pos > 0 || st.ivID != 0 {
					// the same call on a fresh object: a failure there is a one-call shape, otherwise it is the history
					fin, fwant := plain[:n], cts[0][:n]
					if dec {
						fin, fwant = fwant, fin
					}
					_, ff := s.mk(p, w, dec)
					var fout []byte
					freshBad := t.Guard(base, func() { fout, _ = ar.run(fin, alias, ff) }) || !bytes.Equal(fout, fwant)
					if !freshBad {
						key = base + "/split/ref-mismatch"
					}
				}
				d := engine.FirstDiff(out, want)
				t.Fail(key, "%d-byte call at stream offset %d (%s, %s): output differs from the one-call reference at byte %d of the call; got %s want %s",
					n, st.pos, aliasName[alias], p.name, d, engine.Hex(out), engine.Hex(want))
				return false
			}
			st.pos += n
			return true
		},
		Key: func(st *splitState) string {
			return engine.DumpString(st.obj) + fmt.Sprintf("|%d|%d", st.ivID, st.pos)
		},
	}
}

type xtsState struct {
	obj   any
	crypt func(dst, src []byte)
	pos   int
}

// xtsMachine: streaming over one XTS mode object. Non-final calls carry whole blocks (1..33); a final call carries
// 16k+r bytes for the (k, r) pairs in finals and ends the history. Oracle: the concatenation of all outputs equals
// the one-call reference over the concatenated input.
func xtsMachine(gb, dec bool, w string, alias int, p param, depth int, finals [][2]int, ar *arena) engine.Machine[*xtsState] {
	var ops []string
	var sizes []int
	for _, c := range blockChunks {
		if c == 0 {
			continue // an empty call is below the documented minimum of one block
		}
		ops = append(ops, fmt.Sprintf("CryptBlocks(%d bytes)", 16*c))
		sizes = append(sizes, 16*c)
	}
	nWhole := len(ops)
	for _, f := range finals {
		ops = append(ops, fmt.Sprintf("final CryptBlocks(%d bytes = %d blocks + %d)", 16*f[0]+f[1], f[0], f[1]))
		sizes = append(sizes, 16*f[0]+f[1])
	}
	prefix := xtsPrefix(gb, dec, w)
	k1, k2 := refBlock(p.k1), refBlock(p.k2)
	total := depth * 33 * 16
	wholeCT := modesref.XTSEncrypt(k1, k2, p.iv, gb, msg(total)) // whole-block prefix property
	name := fmt.Sprintf("%s/%s/%s/%s/finals=%v", xtsName(gb), dirName(dec), w, aliasName[alias], finals)
	return engine.Machine[*xtsState]{
		Name: name,
		New: func() *xtsState {
			m := newXTS(gb, dec, w, p)
			return &xtsState{obj: m, crypt: m.CryptBlocks}
		},
		Ops: ops,
		Step: func(st *xtsState, op int, t *engine.T) bool {
			n := sizes[op]
			final := op >= nWhole
			plain := msg(st.pos + n)[st.pos:]
			var ct []byte
			if final {
				ct = modesref.XTSEncrypt(k1, k2, p.iv, gb, msg(st.pos+n))[st.pos:]
			} else {
				ct = wholeCT[st.pos : st.pos+n]
			}
			in, want := plain, ct
			if dec {
				in, want = ct, plain
			}
			var out []byte
			var probs []string
			if t.Guard(prefix, func() { out, probs = ar.run(in, alias, st.crypt) }) {
				return false
			}
			shape := xtsShape(n)
			for _, pr := range probs {
				t.Fail(prefix+"/"+pr+"/"+shape, "%d-byte call at unit offset %d, %s: %s", n, st.pos, aliasName[alias], pr)
			}
			if !bytes.Equal(out, want) {
				// is this a property of the call shape alone (the same call on a fresh object fails too), or of the history?
				key := prefix + "/ref-mismatch/" + shape
				fp := msg(n)
				fc := modesref.XTSEncrypt(k1, k2, p.iv, gb, fp)
				fin, fwant := fp, fc
				if dec {
					fin, fwant = fc, fp
				}
				freshBad := func(al int) bool {
					var fout []byte
					return t.Guard(prefix, func() { fout, _ = ar.run(fin, al, newXTS(gb, dec, w, p).CryptBlocks) }) || !bytes.Equal(fout, fwant)
				}
				switch {
				case st.pos > 0 && !freshBad(alias):
					key = prefix + "/split/ref-mismatch/" + shape
				case alias == aInPlace && !freshBad(aDisjoint):
					key += "/only-inplace"
				}
				d := engine.FirstDiff(out, want)
				t.Fail(key, "%d-byte call at unit offset %d (%s): output differs from the one-call reference at byte %d of the call; got %s want %s",
					n, st.pos, aliasName[alias], d, engine.Hex(out), engine.Hex(want))
				return false
			}
			st.pos += n
			return !final
		},
		Key: func(st *xtsState) string { return engine.DumpString(st.obj) + fmt.Sprintf("|%d", st.pos) },
	}
}
