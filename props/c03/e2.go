package c03

import (
	"bytes"
	stdcipher "crypto/cipher"
	"fmt"
	"math/big"
	"strings"

	gcipher "github.com/emmansun/gmsm/cipher"

	"verif/engine"
	"verif/ref/modesref"
)

// modeSpec describes one of the seven "prefix-stable" modes (the output for a prefix of the input is a
// prefix of the output): ECB, CBC, CFB, OFB, CTR, BC, OFBNLF.
type modeSpec struct {
	name      string
	blockwise bool     // input must be a whole number of blocks
	symmetric bool     // encryption and decryption are the same function (OFB, CTR)
	wrappers  []string // wrappers that select different code in the constructors
	setIV     bool     // the mode object offers SetIV
	// mk builds a fresh library mode object and returns it with its crypt function
	mk func(p param, w string, dec bool) (any, func(dst, src []byte))
	// refEnc / refDec are the one-shot references
	refEnc func(p param, in []byte) []byte
	refDec func(p param, in []byte) []byte
}

func blockMode(m stdcipher.BlockMode) (any, func(dst, src []byte)) { return m, m.CryptBlocks }
func streamMode(s stdcipher.Stream) (any, func(dst, src []byte))   { return s, s.XORKeyStream }

func specs() []modeSpec {
	refNew := func(key []byte) modesref.Block { return refBlock(key) }
	return []modeSpec{
		{name: "ecb", blockwise: true, wrappers: []string{wFused, wHidden},
			mk: func(p param, w string, dec bool) (any, func(dst, src []byte)) {
				if dec {
					return blockMode(gcipher.NewECBDecrypter(mustBlock(p.k1, w)))
				}
				return blockMode(gcipher.NewECBEncrypter(mustBlock(p.k1, w)))
			},
			refEnc: func(p param, in []byte) []byte { return modesref.ECBEncrypt(refBlock(p.k1), in) },
			refDec: func(p param, in []byte) []byte { return modesref.ECBDecrypt(refBlock(p.k1), in) }},
		{name: "cbc", blockwise: true, wrappers: []string{wFused, wHidden}, setIV: true,
			mk: func(p param, w string, dec bool) (any, func(dst, src []byte)) {
				if dec {
					return blockMode(stdcipher.NewCBCDecrypter(mustBlock(p.k1, w), p.iv))
				}
				return blockMode(stdcipher.NewCBCEncrypter(mustBlock(p.k1, w), p.iv))
			},
			refEnc: func(p param, in []byte) []byte { return modesref.CBCEncrypt(refBlock(p.k1), p.iv, in) },
			refDec: func(p param, in []byte) []byte { return modesref.CBCDecrypt(refBlock(p.k1), p.iv, in) }},
		{name: "cfb", wrappers: []string{wFused},
			mk: func(p param, w string, dec bool) (any, func(dst, src []byte)) {
				if dec {
					return streamMode(stdcipher.NewCFBDecrypter(mustBlock(p.k1, w), p.iv))
				}
				return streamMode(stdcipher.NewCFBEncrypter(mustBlock(p.k1, w), p.iv))
			},
			refEnc: func(p param, in []byte) []byte { return modesref.CFBEncrypt(refBlock(p.k1), p.iv, in) },
			refDec: func(p param, in []byte) []byte { return modesref.CFBDecrypt(refBlock(p.k1), p.iv, in) }},
		{name: "ofb", symmetric: true, wrappers: []string{wFused},
			mk: func(p param, w string, dec bool) (any, func(dst, src []byte)) {
				return streamMode(stdcipher.NewOFB(mustBlock(p.k1, w), p.iv))
			},
			refEnc: func(p param, in []byte) []byte { return modesref.OFB(refBlock(p.k1), p.iv, in) },
			refDec: func(p param, in []byte) []byte { return modesref.OFB(refBlock(p.k1), p.iv, in) }},
		{name: "ctr", symmetric: true, wrappers: []string{wFused, wHidden},
			mk: func(p param, w string, dec bool) (any, func(dst, src []byte)) {
				return streamMode(stdcipher.NewCTR(mustBlock(p.k1, w), p.iv))
			},
			refEnc: func(p param, in []byte) []byte { return modesref.CTR(refBlock(p.k1), p.iv, in) },
			refDec: func(p param, in []byte) []byte { return modesref.CTR(refBlock(p.k1), p.iv, in) }},
		{name: "bc", blockwise: true, wrappers: []string{wFused, wHidden}, setIV: true,
			mk: func(p param, w string, dec bool) (any, func(dst, src []byte)) {
				if dec {
					return blockMode(gcipher.NewBCDecrypter(mustBlock(p.k1, w), p.iv))
				}
				return blockMode(gcipher.NewBCEncrypter(mustBlock(p.k1, w), p.iv))
			},
			refEnc: func(p param, in []byte) []byte { return modesref.BCEncrypt(refBlock(p.k1), p.iv, in) },
			refDec: func(p param, in []byte) []byte { return modesref.BCDecrypt(refBlock(p.k1), p.iv, in) }},
		{name: "ofbnlf", blockwise: true, wrappers: []string{wFused, wHidden}, setIV: true,
			mk: func(p param, w string, dec bool) (any, func(dst, src []byte)) {
				var m stdcipher.BlockMode
				var err error
				if dec {
					m, err = gcipher.NewOFBNLFDecrypter(creator(w), p.k1, p.iv)
				} else {
					m, err = gcipher.NewOFBNLFEncrypter(creator(w), p.k1, p.iv)
				}
				if err != nil {
					panic(fmt.Sprintf("NewOFBNLF* with 16-byte key and IV: %v", err))
				}
				return blockMode(m)
			},
			refEnc: func(p param, in []byte) []byte { return modesref.OFBNLFEncrypt(refNew, p.k1, p.iv, in) },
			refDec: func(p param, in []byte) []byte { return modesref.OFBNLFDecrypt(refNew, p.k1, p.iv, in) }},
	}
}

func dirName(dec bool) string {
	if dec {
		return "dec"
	}
	return "enc"
}

// ctrCarryIVs is the CTR counter alphabet: 2^k - j (mod 2^128) for k in {32,64,96,128}, j = 0..17, so that the
// carry out of each 32-bit word happens at every block position 0..17 (all lanes of the first two 8-block
// batches and the first blocks after them).
func ctrCarryIVs() []param {
	var out []param
	mod := new(big.Int).Lsh(big.NewInt(1), 128)
	for _, k := range []uint{32, 64, 96, 128} {
		for j := int64(0); j <= 17; j++ {
			v := new(big.Int).Lsh(big.NewInt(1), k)
			v.Sub(v, big.NewInt(j))
			v.Mod(v, mod)
			iv := make([]byte, 16)
			v.FillBytes(iv)
			out = append(out, param{name: fmt.Sprintf("A/iv=2^%d-%d", k, j), k1: keyA, k2: keyA2, iv: iv})
		}
	}
	return out
}

func ivClass(p param) string {
	var k, j int
	if n, _ := fmt.Sscanf(p.name, "A/iv=2^%d-%d", &k, &j); n == 2 {
		return fmt.Sprintf("iv-carry-2^%d", k)
	}
	return "iv-plain"
}

// callSet runs the three aliasing variants of one library call (a fresh mode object each) against want.
// keyPrefix names mode/direction/wrapper, shape the length class. Returns the outputs per alias (nil where
// the call panicked).
func callSet(t *engine.T, ar *arena, once map[string]bool, keyPrefix, shape, what string, in, want []byte, mk func() func(dst, src []byte)) [nAlias][]byte {
	// once != nil: per problem class only the first (smallest) failing input of the case is reported, so that the key
	// carries the minimal failing shape class
	fail := func(problem, suffix, format string, a ...any) {
		if once != nil {
			if once[keyPrefix+"/"+problem] {
				return
			}
			once[keyPrefix+"/"+problem] = true
		}
		t.Fail(keyPrefix+"/"+problem+"/"+shape+suffix, format, a...)
	}
	var outs [nAlias][]byte
	bad := 0
	var firstBad int
	for alias := 0; alias < nAlias; alias++ {
		f := mk()
		var out []byte
		var probs []string
		if t.Guard(keyPrefix+"/"+shape, func() { out, probs = ar.run(in, alias, f) }) {
			continue
		}
		t.Eval(1)
		outs[alias] = out
		for _, p := range probs {
			fail(p, "", "%s, %d bytes, %s: %s", what, len(in), aliasName[alias], p)
		}
		if !bytes.Equal(out, want) {
			if bad == 0 {
				firstBad = alias
			}
			bad++
		}
	}
	if bad > 0 && bad < nAlias {
		// some buffer arrangements are right: name the odd one out
		suffix := ""
		for alias := 0; alias < nAlias; alias++ {
			wrong := outs[alias] != nil && !bytes.Equal(outs[alias], want)
			if bad == 1 && wrong {
				suffix = "/only-" + aliasName[alias]
			}
			if bad == nAlias-1 && !wrong {
				suffix = "/except-" + aliasName[alias]
			}
		}
		out := outs[firstBad]
		d := engine.FirstDiff(out, want)
		fail("ref-mismatch", suffix, "%s, %d bytes, %s: first difference at byte %d (block %d); got %s want %s (not all buffer arrangements fail)",
			what, len(in), aliasName[firstBad], d, d/16, engine.Hex(out), engine.Hex(want))
	} else if bad > 0 {
		out := outs[firstBad]
		d := engine.FirstDiff(out, want)
		fail("ref-mismatch", "", "%s, %d bytes, all buffer arrangements: first difference at byte %d (block %d); got %s want %s",
			what, len(in), d, d/16, engine.Hex(out), engine.Hex(want))
	}
	return outs
}

// e2Prefix enumerates (length x aliasing) for one prefix-stable mode, direction, wrapper and parameter list.
func e2Prefix(t *engine.T, s modeSpec, dec bool, w string, ps []param, lengths []int) {
	maxLen := lengths[len(lengths)-1]
	ar := newArena(maxLen)
	defer ar.free()
	prefix := s.name + "/" + dirName(dec) + "/" + w
	once := map[string]bool{}
	for _, p := range ps {
		p := p
		plain := msg(maxLen)
		ct := s.refEnc(p, plain)
		in, want := plain, ct
		if dec {
			in, want = ct, plain
		}
		obj, _ := s.mk(p, w, dec)
		t.Outcome(fmt.Sprintf("%s:%T", prefix, obj))
		for _, n := range lengths {
			shape := lenClass(n)
			if s.blockwise {
				shape = blocksClass(n / 16)
			}
			if s.name == "ctr" {
				shape = ivClass(p) // the counter class is the shape; the minimal failing length is in the detail
			}
			callSet(t, ar, once, prefix, shape, s.name+" "+p.name, in[:n], want[:n], func() func(dst, src []byte) {
				_, f := s.mk(p, w, dec)
				return f
			})
			t.Nontrivial(fmt.Sprintf("%s/%s/%d", prefix, ivClass(p), n))
		}
		if len(want) > 0 {
			t.Outcome(fmt.Sprintf("%s:%02x", s.name, want[len(want)-1]))
		}
	}
	t.Sample(map[string]any{"kind": "E2", "mode": prefix, "params": len(ps), "lengths": fmt.Sprintf("%d..%d (%d values)", lengths[0], maxLen, len(lengths)), "buffers": "disjoint, in place, dst longer"})
}

func rangeInts(lo, hi, step int) []int {
	var r []int
	for i := lo; i <= hi; i += step {
		r = append(r, i)
	}
	return r
}

// ---------------------------------------------------------------------------------------------
// XTS

func xtsName(gb bool) string {
	if gb {
		return "xts-gb"
	}
	return "xts-ieee"
}

func newXTS(gb, dec bool, w string, p param) stdcipher.BlockMode {
	var m stdcipher.BlockMode
	var err error
	switch {
	case !gb && !dec:
		m, err = gcipher.NewXTSEncrypter(creator(w), p.k1, p.k2, p.iv)
	case !gb && dec:
		m, err = gcipher.NewXTSDecrypter(creator(w), p.k1, p.k2, p.iv)
	case gb && !dec:
		m, err = gcipher.NewGBXTSEncrypter(creator(w), p.k1, p.k2, p.iv)
	default:
		m, err = gcipher.NewGBXTSDecrypter(creator(w), p.k1, p.k2, p.iv)
	}
	if err != nil {
		panic(fmt.Sprintf("NewXTS* with 16-byte keys and tweak: %v", err))
	}
	return m
}

// xtsShape: whether the data unit ends in a partial block (ciphertext stealing) or not.
func xtsShape(n int) string {
	if n%16 != 0 {
		return "partial"
	}
	return "whole"
}

// xtsImpl names the implementation behind an XTS mode object: "asm" for the fused SM4 assembly
// (internal/sm4.xts), "go" for the generic composition of internal/cipher/xts over single-block calls,
// "go-batched" for the same code when the block offers concurrentBlocks.
func xtsImpl(mode any, blk stdcipher.Block) string {
	ty := fmt.Sprintf("%T", mode)
	if strings.Contains(ty, "sm4.") {
		return "asm"
	}
	if batchOf(blk) > 0 {
		return "go-batched"
	}
	return "go"
}

func xtsPrefix(gb, dec bool, w string) string {
	return xtsName(gb) + "/" + dirName(dec) + "/" + xtsImpl(newXTS(gb, dec, w, params()[0]), mustBlock(keyA, w))
}

func e2XTS(t *engine.T, gb, dec bool, w string, lo, hi int) {
	ar := newArena(hi)
	defer ar.free()
	prefix := xtsPrefix(gb, dec, w)
	for n := lo; n <= hi; n++ {
		for _, p := range params() {
			p := p
			plain := msg(n)
			ct := modesref.XTSEncrypt(refBlock(p.k1), refBlock(p.k2), p.iv, gb, plain)
			in, want := plain, ct
			if dec {
				in, want = ct, plain
			}
			callSet(t, ar, nil, prefix, xtsShape(n), xtsName(gb)+" "+p.name, in, want, func() func(dst, src []byte) {
				return newXTS(gb, dec, w, p).CryptBlocks
			})
			t.Outcome(fmt.Sprintf("xts:%02x", ct[n-1]))
		}
		t.Nontrivial(fmt.Sprintf("%s/%s/%d", prefix, w, n))
	}
	if lo == 16 || lo%256 == 0 {
		m := newXTS(gb, dec, w, params()[0])
		t.Outcome(fmt.Sprintf("%s:%s:%T", prefix, w, m))
		if lo == 16 {
			t.Sample(map[string]any{"kind": "E2", "mode": prefix, "wrapper": w, "length": lo, "type": fmt.Sprintf("%T", m), "batch_blocks": batchOf(mustBlock(keyA, w))})
		}
	}
}

// e2XTSSector: the WithSector constructors are the same modes with the tweak set to the little-endian sector number.
func e2XTSSector(t *engine.T) {
	ar := newArena(100)
	defer ar.free()
	for _, sector := range []uint64{0, 1, 0xff, 0x3333333333, 1 << 63, ^uint64(0)} {
		tw := make([]byte, 16)
		for i := 0; i < 8; i++ {
			tw[i] = byte(sector >> (8 * i))
		}
		for _, gb := range []bool{false, true} {
			for _, n := range []int{16, 17, 32, 47, 80, 95} {
				plain := msg(n)
				ct := modesref.XTSEncrypt(refBlock(keyA), refBlock(keyA2), tw, gb, plain)
				for _, dec := range []bool{false, true} {
					in, want := plain, ct
					if dec {
						in, want = ct, plain
					}
					gb, dec, sector := gb, dec, sector
					callSet(t, ar, nil, xtsPrefix(gb, dec, wFused), xtsShape(n), "WithSector constructor", in, want, func() func(dst, src []byte) {
						var m stdcipher.BlockMode
						var err error
						switch {
						case !gb && !dec:
							m, err = gcipher.NewXTSEncrypterWithSector(creator(wFused), keyA, keyA2, sector)
						case !gb && dec:
							m, err = gcipher.NewXTSDecrypterWithSector(creator(wFused), keyA, keyA2, sector)
						case gb && !dec:
							m, err = gcipher.NewGBXTSEncrypterWithSector(creator(wFused), keyA, keyA2, sector)
						default:
							m, err = gcipher.NewGBXTSDecrypterWithSector(creator(wFused), keyA, keyA2, sector)
						}
						if err != nil {
							panic(err)
						}
						return m.CryptBlocks
					})
				}
			}
		}
	}
}
