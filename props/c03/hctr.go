package c03

import (
	"bytes"
	"fmt"

	gcipher "github.com/emmansun/gmsm/cipher"

	"verif/engine"
	"verif/ref/modesref"
)

// hctrClass: "full" when the part after the first block is a whole number of blocks, "partial8" when its last
// block has exactly 8 bytes, otherwise "partial". (The tweak is appended to that part before hashing, so the class
// decides how the 16 tweak bytes straddle hash blocks.)
func hctrClass(n int) string {
	switch n % 16 {
	case 0:
		return "full"
	case 8:
		return "partial8"
	}
	return "partial"
}

func newHCTR(p param, w string) gcipher.LengthPreservingMode {
	// tweak = p.iv, hash key = p.k2 (never zero in the alphabet)
	m, err := gcipher.NewHCTR(mustBlock(p.k1, w), p.iv, p.k2)
	if err != nil {
		panic(fmt.Sprintf("NewHCTR with 16-byte tweak and hash key: %v", err))
	}
	return m
}

var hctrWrappers = []string{wFused, wHidden, wConc}

// e2HCTR: lengths lo..hi x {enc,dec} x wrappers x aliasing against the reference, plus oracles that hold
// independently of the hash-input layout: Dec(Enc(m)) = m, all wrappers agree, the object keeps no state.
func e2HCTR(t *engine.T, p param, lo, hi int) {
	ar := newArena(hi)
	defer ar.free()
	for n := lo; n <= hi; n++ {
		cl := hctrClass(n)
		plain := msg(n)
		ct := modesref.HCTREncrypt(refBlock(p.k1), p.iv, p.k2, plain)
		var encOut, decOut [][]byte // per wrapper: library output (disjoint buffers)
		for _, w := range hctrWrappers {
			for _, dec := range []bool{false, true} {
				in, want := plain, ct
				if dec {
					in, want = ct, plain
				}
				prefix := "hctr/" + cl + "/" + dirName(dec) + "/" + w
				obj := newHCTR(p, w)
				before := engine.DumpString(obj)
				var outs [nAlias][]byte
				for alias := 0; alias < nAlias; alias++ {
					f := obj.EncryptBytes
					if dec {
						f = obj.DecryptBytes
					}
					var out []byte
					var probs []string
					if t.Guard(prefix, func() { out, probs = ar.run(in, alias, f) }) {
						continue
					}
					t.Eval(1)
					outs[alias] = out
					for _, pr := range probs {
						t.Fail(prefix+"/"+pr, "HCTR %s, %d bytes, %s: %s", p.name, n, aliasName[alias], pr)
					}
				}
				if engine.DumpString(obj) != before {
					t.Fail(prefix+"/object-state-changed", "HCTR %s, %d bytes: the mode object's private state changed during a call", p.name, n)
				}
				if outs[aDisjoint] != nil && outs[aInPlace] != nil && !bytes.Equal(outs[aDisjoint], outs[aInPlace]) {
					t.Fail(prefix+"/inplace-differs", "HCTR %s, %d bytes: in-place output differs from the disjoint-buffer output at byte %d", p.name, n, engine.FirstDiff(outs[aDisjoint], outs[aInPlace]))
				}
				if outs[aDisjoint] != nil && outs[aSlack] != nil && !bytes.Equal(outs[aDisjoint], outs[aSlack]) {
					t.Fail("hctr/"+dirName(dec)+"/dst-longer/output-differs", "HCTR %s %s via %s block, %d bytes: with len(dst) = len(src)+%d the first len(src) output bytes differ from the equal-length call at byte %d (got %s, equal-length call gives %s)",
						dirName(dec), p.name, w, n, slack, engine.FirstDiff(outs[aDisjoint], outs[aSlack]), engine.Hex(outs[aSlack]), engine.Hex(outs[aDisjoint]))
				}
				out := outs[0]
				if out == nil {
					continue
				}
				if !bytes.Equal(out, want) {
					key := prefix + "/ref-mismatch"
					if cl == "partial" {
						key = "hctr/partial/ref-mismatch"
					}
					d := engine.FirstDiff(out, want)
					t.Fail(key, "HCTR %s %s via %s block, %d bytes ((len-16) mod 16 = %d): first difference from the reference at byte %d; got %s want %s",
						dirName(dec), p.name, w, n, n%16, d, engine.Hex(out), engine.Hex(want))
				}
				if dec {
					decOut = append(decOut, out)
				} else {
					encOut = append(encOut, out)
				}
			}
			// round trip on the library alone
			obj := newHCTR(p, w)
			c := make([]byte, n)
			back := make([]byte, n)
			if !t.Guard("hctr/"+cl+"/roundtrip/"+w, func() { obj.EncryptBytes(c, plain); obj.DecryptBytes(back, c) }) {
				t.Eval(2)
				if !bytes.Equal(back, plain) {
					t.Fail("hctr/"+cl+"/roundtrip/"+w, "HCTR %s via %s block, %d bytes: Decrypt(Encrypt(m)) differs from m at byte %d", p.name, w, n, engine.FirstDiff(back, plain))
				}
			}
		}
		for i := 1; i < len(encOut); i++ {
			if !bytes.Equal(encOut[0], encOut[i]) {
				t.Fail("hctr/"+cl+"/enc/paths-disagree", "HCTR %s, %d bytes: %s and %s blocks give different ciphertexts (byte %d)", p.name, n, hctrWrappers[0], hctrWrappers[i], engine.FirstDiff(encOut[0], encOut[i]))
			}
		}
		for i := 1; i < len(decOut); i++ {
			if !bytes.Equal(decOut[0], decOut[i]) {
				t.Fail("hctr/"+cl+"/dec/paths-disagree", "HCTR %s, %d bytes: %s and %s blocks give different plaintexts (byte %d)", p.name, n, hctrWrappers[0], hctrWrappers[i], engine.FirstDiff(decOut[0], decOut[i]))
			}
		}
		t.Nontrivial(fmt.Sprintf("hctr/%s/%d", p.name, n))
		t.Outcome(fmt.Sprintf("hctr:%02x", ct[0]))
	}
	if lo == 16 {
		t.Outcome(fmt.Sprintf("hctr:batch=%d/%d", batchOf(mustBlock(keyA, wFused)), batchOf(mustBlock(keyA, wConc))))
		t.Sample(map[string]any{"kind": "E2", "mode": "hctr", "params": p.name, "lengths": fmt.Sprintf("%d..%d", lo, hi), "wrappers": hctrWrappers})
	}
}

func flipBit(tw []byte, bit int) []byte {
	o := append([]byte{}, tw...)
	o[bit/8] ^= 0x80 >> (bit % 8)
	return o
}

// hctrTweakDependence: HCTR with two tweaks differing in one bit must not map the same message to the same
// ciphertext (the two hash inputs differ in one bit, the hash is a polynomial in a non-zero key, so the masks of
// the first block differ; equality of the whole ciphertext would need E(x) xor E(x xor d) = d for the specific d,
// which the reference is consulted about before anything is reported). Enumerated: every length x every one of
// the 128 tweak bits, encryption and decryption.
func hctrTweakDependence(t *engine.T, p param, lo, hi int) {
	for n := lo; n <= hi; n++ {
		cl := hctrClass(n)
		plain := msg(n)
		base := newHCTR(p, wFused)
		c0 := make([]byte, n)
		if t.Guard("hctr/"+cl+"/enc/"+wFused, func() { base.EncryptBytes(c0, plain) }) {
			continue
		}
		var sameEnc, sameDec []int // tweak bits whose flip left the library's result unchanged
		for bit := 0; bit < 128; bit++ {
			q := p
			q.iv = flipBit(p.iv, bit)
			m := newHCTR(q, wFused)
			c1 := make([]byte, n)
			p1 := make([]byte, n)
			if t.Guard("hctr/"+cl+"/enc/"+wFused, func() { m.EncryptBytes(c1, plain); m.DecryptBytes(p1, c0) }) {
				continue
			}
			t.Eval(2)
			if bytes.Equal(c1, c0) {
				sameEnc = append(sameEnc, bit)
			}
			if bytes.Equal(p1, plain) {
				sameDec = append(sameDec, bit)
			}
		}
		// consult the definition for the first and the last such bit: do the two tweaks really give different results?
		var ignoredEnc, ignoredDec []int
		if len(sameEnc) > 0 {
			r0 := modesref.HCTREncrypt(refBlock(p.k1), p.iv, p.k2, plain)
			for _, bit := range []int{sameEnc[0], sameEnc[len(sameEnc)-1]} {
				if !bytes.Equal(r0, modesref.HCTREncrypt(refBlock(p.k1), flipBit(p.iv, bit), p.k2, plain)) {
					ignoredEnc = sameEnc
				}
			}
		}
		if len(sameDec) > 0 {
			for _, bit := range []int{sameDec[0], sameDec[len(sameDec)-1]} {
				if !bytes.Equal(plain, modesref.HCTRDecrypt(refBlock(p.k1), flipBit(p.iv, bit), p.k2, c0)) {
					ignoredDec = sameDec
				}
			}
		}
		key := "hctr/" + cl + "/tweak-bit-ignored"
		if cl == "partial" {
			key = "hctr/partial/tweak-bytes-ignored"
		}
		if len(ignoredEnc) > 0 {
			t.Fail(key, "HCTR %s, %d bytes ((len-16) mod 16 = %d): flipping any of %d tweak bits (bit %d..%d, i.e. tweak bytes %d..%d) leaves the ciphertext unchanged (the definition, consulted for the first and last of them, requires a change)",
				p.name, n, n%16, len(ignoredEnc), ignoredEnc[0], ignoredEnc[len(ignoredEnc)-1], ignoredEnc[0]/8, ignoredEnc[len(ignoredEnc)-1]/8)
		}
		if len(ignoredDec) > 0 {
			t.Fail(key, "HCTR %s, %d bytes ((len-16) mod 16 = %d): decryption under a tweak differing in any of %d bits (tweak bytes %d..%d) still returns the plaintext",
				p.name, n, n%16, len(ignoredDec), ignoredDec[0]/8, ignoredDec[len(ignoredDec)-1]/8)
		}
		if len(ignoredEnc) == 0 && len(ignoredDec) == 0 {
			t.Outcome("hctr:every-tweak-bit-matters")
		} else {
			t.Outcome("hctr:some-tweak-bits-ignored")
		}
		t.Nontrivial(fmt.Sprintf("hctr-tweak/%s/%d", p.name, n))
	}
	if lo == 16 {
		t.Sample(map[string]any{"kind": "E2", "mode": "hctr tweak dependence", "params": p.name, "lengths": fmt.Sprintf("%d..%d", lo, hi), "tweak_bits": 128})
	}
}
