package main

import (
	"fmt"
	"os"
	"strconv"

	gcipher "github.com/emmansun/gmsm/cipher"
	"github.com/emmansun/gmsm/sm4"
	"verif/engine"
)

func main() {
	key := []byte("0123456789abcdef")
	tk := []byte("fedcba9876543210")
	tw := make([]byte, 16)
	n, _ := strconv.Atoi(os.Args[1])
	src := engine.NewGuardBuf(n).B
	dst := src
	if len(os.Args) > 2 {
		dst = engine.NewGuardBuf(n).B
	}
	d, _ := gcipher.NewXTSDecrypter(sm4.NewCipher, key, tk, tw)
	d.CryptBlocks(dst, src)
	fmt.Println("done")
}
