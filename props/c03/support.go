package c03

import (
	"bytes"
	"crypto/cipher"
	"fmt"

	"github.com/emmansun/gmsm/sm4"

	"verif/engine"
	"verif/ref/modesref"
	"verif/ref/sm4ref"
)

// ---------------------------------------------------------------------------------------------
// cipher.Block wrappers: which fast-path interfaces of the SM4 block the mode constructors can see

// plainBlock hides every optional interface (ecbEncAble, cbcEncAble, ctrAble, gcmAble, xtsEncAble,
// concurrentBlocks ...): the mode constructors fall back to their generic single-block compositions.
type plainBlock struct{ b cipher.Block }

func (p plainBlock) BlockSize() int          { return p.b.BlockSize() }
func (p plainBlock) Encrypt(dst, src []byte) { p.b.Encrypt(dst, src) }
func (p plainBlock) Decrypt(dst, src []byte) { p.b.Decrypt(dst, src) }

type concurrentBlocks interface {
	Concurrency() int
	EncryptBlocks(dst, src []byte)
	DecryptBlocks(dst, src []byte)
}

// concBlock exposes only cipher.Block + concurrentBlocks, which is how the batched Go loops of
// internal/cipher/xts and cipher/hctr.go are reached on a tier whose block also offers fused modes.
// The batch calls are handed to the library's own EncryptBlocks/DecryptBlocks with exactly the slices
// the library's loop passes.
type concBlock struct {
	plainBlock
	c concurrentBlocks
}

func (p concBlock) Concurrency() int              { return p.c.Concurrency() }
func (p concBlock) EncryptBlocks(dst, src []byte) { p.c.EncryptBlocks(dst, src) }
func (p concBlock) DecryptBlocks(dst, src []byte) { p.c.DecryptBlocks(dst, src) }

// emuConc offers concurrentBlocks over a block that has none (table-driven Go / purego tiers): four
// blocks per batch through single-block calls, so the batched Go loops (and the generic doubleTweaks of
// the purego build) are executed there as well.
type emuConc struct{ plainBlock }

const emuBatch = 4

func (p emuConc) Concurrency() int { return emuBatch }
func (p emuConc) EncryptBlocks(dst, src []byte) {
	for i := 0; i < emuBatch; i++ {
		p.b.Encrypt(dst[16*i:16*i+16], src[16*i:16*i+16])
	}
}
func (p emuConc) DecryptBlocks(dst, src []byte) {
	for i := 0; i < emuBatch; i++ {
		p.b.Decrypt(dst[16*i:16*i+16], src[16*i:16*i+16])
	}
}

// wrappers, in a fixed order
const (
	wFused  = "fused"  // the block exactly as sm4.NewCipher returns it
	wHidden = "hidden" // every optional interface hidden
	wConc   = "conc"   // only concurrentBlocks visible
)

func wrap(b cipher.Block, w string) cipher.Block {
	switch w {
	case wHidden:
		return plainBlock{b}
	case wConc:
		if c, ok := b.(concurrentBlocks); ok {
			return concBlock{plainBlock{b}, c}
		}
		return emuConc{plainBlock{b}}
	}
	return b
}

// creator returns a CipherCreator producing wrapped SM4 blocks.
func creator(w string) func(key []byte) (cipher.Block, error) {
	return func(key []byte) (cipher.Block, error) {
		b, err := sm4.NewCipher(key)
		if err != nil {
			return nil, err
		}
		return wrap(b, w), nil
	}
}

func mustBlock(key []byte, w string) cipher.Block {
	b, err := creator(w)(key)
	if err != nil {
		panic(fmt.Sprintf("sm4.NewCipher(16-byte key): %v", err))
	}
	return b
}

// batchOf reports the batch size (in blocks) the wrapped block announces, 0 if none.
func batchOf(b cipher.Block) int {
	if c, ok := b.(concurrentBlocks); ok {
		return c.Concurrency()
	}
	return 0
}

// ---------------------------------------------------------------------------------------------
// alphabet of keys, IVs and message content

var (
	keyA  = []byte{0x01, 0x23, 0x45, 0x67, 0x89, 0xab, 0xcd, 0xef, 0xfe, 0xdc, 0xba, 0x98, 0x76, 0x54, 0x32, 0x10}
	keyA2 = engine.Pattern(2, 16) // 01 02 .. 10: tweak key / hash key of set A
	keyB  = engine.Pattern(7, 16)
	keyB2 = engine.Pattern(8, 16)
	ivPat = engine.Pattern(9, 16)
)

// param is one (key set, IV/tweak) choice of the alphabet.
type param struct {
	name   string
	k1, k2 []byte
	iv     []byte
}

func params() []param {
	return []param{
		{"A/iv=zero", keyA, keyA2, engine.Pattern(0, 16)},
		{"A/iv=ones", keyA, keyA2, engine.Pattern(1, 16)},
		{"B/iv=pat", keyB, keyB2, ivPat},
	}
}

func refBlock(key []byte) modesref.Block { return sm4ref.New(key) }

const maxStream = 2200

var stream = func() []byte {
	b := make([]byte, maxStream)
	for i := range b {
		b[i] = byte(i*7+3) ^ byte(i>>8) ^ byte(i>>5)
	}
	return b
}()

// msg returns the first n bytes of the fixed content stream.
func msg(n int) []byte { return stream[:n] }

// ---------------------------------------------------------------------------------------------
// guarded call execution

const (
	aDisjoint = iota // dst and src are different buffers of equal length
	aInPlace         // dst == src
	aSlack           // dst is a different buffer, 32 bytes longer than src: dst[len(src):] must stay untouched
	nAlias
)

var aliasName = [nAlias]string{"disjoint", "inplace", "dst-longer"}

const slack = 32

// arena owns two guard buffers; every slice handed to the library ends exactly at a PROT_NONE page.
type arena struct {
	capn int
	a, b *engine.GuardBuf
}

func newArena(maxLen int) *arena {
	c := maxLen + slack
	return &arena{capn: c, a: engine.NewGuardBuf(c), b: engine.NewGuardBuf(c)}
}

func (ar *arena) free() { ar.a.Free(); ar.b.Free() }

const (
	fillFront = 0xA7
	fillDst   = 0x5C
)

func fill(b []byte, v byte) {
	for i := range b {
		b[i] = v
	}
}
func allEq(b []byte, v byte) bool {
	for _, x := range b {
		if x != v {
			return false
		}
	}
	return true
}

// run executes f(dst, src) once with src holding a copy of in and returns a copy of dst[:len(in)] together
// with the list of memory-discipline problems observed: "source-modified" (disjoint source changed),
// "write-before-buffer" (bytes in front of dst or src changed, sentinel area or canary),
// "dst-beyond-len-src-modified" (dst longer than src and dst[len(src):] changed).
// Reads or writes past the end of either slice hit the protected page and kill the worker.
func (ar *arena) run(in []byte, alias int, f func(dst, src []byte)) (out []byte, problems []string) {
	n := len(in)
	if n+slack > ar.capn {
		panic("arena too small")
	}
	A, B := ar.a.B, ar.b.B
	src := A[ar.capn-n:]
	fill(A[:ar.capn-n], fillFront)
	copy(src, in)
	dst := src
	dn := n
	switch alias {
	case aDisjoint:
		dst = B[ar.capn-n:]
	case aSlack:
		dn = n + slack
		dst = B[ar.capn-dn:]
	}
	if alias != aInPlace {
		fill(B[:ar.capn-dn], fillFront)
		fill(dst, fillDst)
	}
	f(dst, src)
	out = append([]byte{}, dst[:n]...)
	if alias != aInPlace {
		if !bytes.Equal(src, in) {
			problems = append(problems, "source-modified")
		}
		if !allEq(B[:ar.capn-dn], fillFront) || !ar.b.Check() {
			problems = append(problems, "write-before-buffer")
		}
		if alias == aSlack && !allEq(dst[n:], fillDst) {
			problems = append(problems, "dst-beyond-len-src-modified")
		}
	}
	if !allEq(A[:ar.capn-n], fillFront) || !ar.a.Check() {
		problems = append(problems, "write-before-buffer")
	}
	return out, problems
}

// lenClass names the length class of a byte-granular input (thresholds of the bulk loops in the code base).
func lenClass(n int) string {
	c := ""
	switch {
	case n == 0:
		return "len=0"
	case n < 16:
		c = "len<16"
	case n < 64:
		c = "len<64"
	case n < 128:
		c = "len<128"
	case n < 256:
		c = "len<256"
	case n < 512:
		c = "len<512"
	default:
		c = "len>=512"
	}
	if n%16 != 0 {
		c += "+tail"
	}
	return c
}

func blocksClass(nb int) string {
	switch {
	case nb == 0:
		return "blocks=0"
	case nb < 4:
		return "blocks<4"
	case nb < 8:
		return "blocks<8"
	case nb < 16:
		return "blocks<16"
	default:
		return "blocks>=16"
	}
}
