package c03

// Widening of the C03 alphabet in the input dimensions of DESIGN §11.4 (files widen*.go):
//
//	layout/…        argument layout: misaligned buffers, src and dst carved from one record, spare capacity with dirty
//	                bytes, buffers that start right after an unmapped page, destination windows longer than the source by
//	                1..256 bytes (also starting at the source), nil slices
//	shared-block/…  two mode objects over ONE cipher.Block object used alternately (every ordered pair of modes)
//	history/…       three successive calls on one object, every call with a destination longer than its source
//	split-pairs/…   every ordered pair (first call a bytes, second call b bytes) of the stream modes around the block and
//	                key-stream-buffer boundaries; XTS: every final-call length after every first-call block count
//	ctor-…/setiv-…  all 18 slice-taking constructors and the 4 sector-number constructors of XTS with their arguments carved from one record, the same slices handed to
//	                a second constructor while the first object lives on, objects used alternately; SetIV arguments
//	values/…        boundary values: HCTR hash keys that enter every branch of the key-table set-up, XTS tweaks chosen so
//	                that the ENCRYPTED tweak is a boundary value of the GF(2^128) doubling, CTR counters 2^(8k)-j for every
//	                byte boundary, extreme keys / message contents
//
// Every family is described next to its code. All of them use the one-shot references of /verif/ref/modesref.

import (
	stdcipher "crypto/cipher"
	"fmt"

	gcipher "github.com/emmansun/gmsm/cipher"

	"verif/engine"
	"verif/ref/modesref"
)

// umode is one of the ten modes behind a uniform interface.
type umode struct {
	name      string // ecb cbc cfb ofb ctr bc ofbnlf xts-ieee xts-gb hctr
	blockwise bool   // only whole blocks are admitted
	min       int    // smallest admitted length
	symmetric bool   // decryption is the same function as encryption
	oneShot   bool   // every call is a message of its own (HCTR); otherwise successive calls continue the message
	wrappers  []string
	// on builds the mode object from blocks delivered by get (a fresh block per call, or one shared block object)
	on func(get func(key []byte) stdcipher.Block, p param, dec bool) func(dst, src []byte)
	// one-shot references
	enc, dec func(p param, in []byte) []byte
	// trusted reports whether the reference is the yardstick for this length (false: HCTR lengths hit by the known
	// finding hctr/partial/ref-mismatch; there only library-internal oracles are used)
	trusted func(n int) bool
}

func (m umode) dirs() []bool {
	if m.symmetric {
		return []bool{false}
	}
	return []bool{false, true}
}

// mk builds a fresh object over a fresh wrapped block.
func (m umode) mk(p param, w string, dec bool) func(dst, src []byte) {
	return m.on(func(key []byte) stdcipher.Block { return mustBlock(key, w) }, p, dec)
}

// io returns input and expected output of a call in the given direction for the plaintext plain.
func (m umode) io(p param, dec bool, plain []byte) (in, want []byte) {
	ct := m.enc(p, plain)
	if dec {
		return ct, plain
	}
	return plain, ct
}

var allW = []string{wFused, wHidden, wConc}

func must(bm stdcipher.BlockMode, err error) stdcipher.BlockMode {
	if err != nil {
		panic(fmt.Sprintf("mode constructor with 16-byte keys and IV/tweak: %v", err))
	}
	return bm
}

func creatorOf(get func(key []byte) stdcipher.Block) gcipher.CipherCreator {
	return func(key []byte) (stdcipher.Block, error) {
		if len(key) != 16 {
			return nil, fmt.Errorf("key length %d", len(key))
		}
		return get(key), nil
	}
}

// sectorModes are the four XTS constructors that take a sector number instead of a tweak (the tweak is the
// little-endian sector number followed by eight zero bytes); the sector number is taken from the first eight bytes of
// the parameter's IV.
func sectorModes() []umode {
	var out []umode
	for _, gb := range []bool{false, true} {
		gb := gb
		base := umodeByName(xtsName(gb))
		m := base
		m.name = base.name + "-sector"
		sectorTweak := func(p param) param {
			q := p
			q.iv = append(append([]byte{}, p.iv[:8]...), 0, 0, 0, 0, 0, 0, 0, 0)
			return q
		}
		m.on = func(get func([]byte) stdcipher.Block, p param, dec bool) func(dst, src []byte) {
			var sector uint64
			for i := 7; i >= 0; i-- {
				sector = sector<<8 | uint64(p.iv[i])
			}
			cr := creatorOf(get)
			switch {
			case !gb && !dec:
				return must(gcipher.NewXTSEncrypterWithSector(cr, p.k1, p.k2, sector)).CryptBlocks
			case !gb && dec:
				return must(gcipher.NewXTSDecrypterWithSector(cr, p.k1, p.k2, sector)).CryptBlocks
			case gb && !dec:
				return must(gcipher.NewGBXTSEncrypterWithSector(cr, p.k1, p.k2, sector)).CryptBlocks
			}
			return must(gcipher.NewGBXTSDecrypterWithSector(cr, p.k1, p.k2, sector)).CryptBlocks
		}
		m.enc = func(p param, in []byte) []byte { return base.enc(sectorTweak(p), in) }
		m.dec = func(p param, in []byte) []byte { return base.dec(sectorTweak(p), in) }
		out = append(out, m)
	}
	return out
}

func umodes() []umode {
	yes := func(int) bool { return true }
	rb := func(k []byte) modesref.Block { return refBlock(k) }
	ms := []umode{
		{name: "ecb", blockwise: true, wrappers: []string{wFused, wHidden},
			on: func(get func([]byte) stdcipher.Block, p param, dec bool) func(dst, src []byte) {
				if dec {
					return gcipher.NewECBDecrypter(get(p.k1)).CryptBlocks
				}
				return gcipher.NewECBEncrypter(get(p.k1)).CryptBlocks
			},
			enc: func(p param, in []byte) []byte { return modesref.ECBEncrypt(rb(p.k1), in) },
			dec: func(p param, in []byte) []byte { return modesref.ECBDecrypt(rb(p.k1), in) }},
		{name: "cbc", blockwise: true, wrappers: []string{wFused, wHidden},
			on: func(get func([]byte) stdcipher.Block, p param, dec bool) func(dst, src []byte) {
				if dec {
					return stdcipher.NewCBCDecrypter(get(p.k1), p.iv).CryptBlocks
				}
				return stdcipher.NewCBCEncrypter(get(p.k1), p.iv).CryptBlocks
			},
			enc: func(p param, in []byte) []byte { return modesref.CBCEncrypt(rb(p.k1), p.iv, in) },
			dec: func(p param, in []byte) []byte { return modesref.CBCDecrypt(rb(p.k1), p.iv, in) }},
		{name: "cfb", wrappers: []string{wFused},
			on: func(get func([]byte) stdcipher.Block, p param, dec bool) func(dst, src []byte) {
				if dec {
					return stdcipher.NewCFBDecrypter(get(p.k1), p.iv).XORKeyStream
				}
				return stdcipher.NewCFBEncrypter(get(p.k1), p.iv).XORKeyStream
			},
			enc: func(p param, in []byte) []byte { return modesref.CFBEncrypt(rb(p.k1), p.iv, in) },
			dec: func(p param, in []byte) []byte { return modesref.CFBDecrypt(rb(p.k1), p.iv, in) }},
		{name: "ofb", symmetric: true, wrappers: []string{wFused},
			on: func(get func([]byte) stdcipher.Block, p param, dec bool) func(dst, src []byte) {
				return stdcipher.NewOFB(get(p.k1), p.iv).XORKeyStream
			},
			enc: func(p param, in []byte) []byte { return modesref.OFB(rb(p.k1), p.iv, in) },
			dec: func(p param, in []byte) []byte { return modesref.OFB(rb(p.k1), p.iv, in) }},
		{name: "ctr", symmetric: true, wrappers: []string{wFused, wHidden},
			on: func(get func([]byte) stdcipher.Block, p param, dec bool) func(dst, src []byte) {
				return stdcipher.NewCTR(get(p.k1), p.iv).XORKeyStream
			},
			enc: func(p param, in []byte) []byte { return modesref.CTR(rb(p.k1), p.iv, in) },
			dec: func(p param, in []byte) []byte { return modesref.CTR(rb(p.k1), p.iv, in) }},
		{name: "bc", blockwise: true, wrappers: []string{wFused, wHidden},
			on: func(get func([]byte) stdcipher.Block, p param, dec bool) func(dst, src []byte) {
				if dec {
					return gcipher.NewBCDecrypter(get(p.k1), p.iv).CryptBlocks
				}
				return gcipher.NewBCEncrypter(get(p.k1), p.iv).CryptBlocks
			},
			enc: func(p param, in []byte) []byte { return modesref.BCEncrypt(rb(p.k1), p.iv, in) },
			dec: func(p param, in []byte) []byte { return modesref.BCDecrypt(rb(p.k1), p.iv, in) }},
		{name: "ofbnlf", blockwise: true, wrappers: []string{wFused, wHidden},
			on: func(get func([]byte) stdcipher.Block, p param, dec bool) func(dst, src []byte) {
				if dec {
					return must(gcipher.NewOFBNLFDecrypter(creatorOf(get), p.k1, p.iv)).CryptBlocks
				}
				return must(gcipher.NewOFBNLFEncrypter(creatorOf(get), p.k1, p.iv)).CryptBlocks
			},
			enc: func(p param, in []byte) []byte { return modesref.OFBNLFEncrypt(rb, p.k1, p.iv, in) },
			dec: func(p param, in []byte) []byte { return modesref.OFBNLFDecrypt(rb, p.k1, p.iv, in) }},
	}
	for _, gb := range []bool{false, true} {
		gb := gb
		ms = append(ms, umode{name: xtsName(gb), min: 16, wrappers: allW,
			on: func(get func([]byte) stdcipher.Block, p param, dec bool) func(dst, src []byte) {
				cr := creatorOf(get)
				switch {
				case !gb && !dec:
					return must(gcipher.NewXTSEncrypter(cr, p.k1, p.k2, p.iv)).CryptBlocks
				case !gb && dec:
					return must(gcipher.NewXTSDecrypter(cr, p.k1, p.k2, p.iv)).CryptBlocks
				case gb && !dec:
					return must(gcipher.NewGBXTSEncrypter(cr, p.k1, p.k2, p.iv)).CryptBlocks
				}
				return must(gcipher.NewGBXTSDecrypter(cr, p.k1, p.k2, p.iv)).CryptBlocks
			},
			enc: func(p param, in []byte) []byte { return modesref.XTSEncrypt(rb(p.k1), rb(p.k2), p.iv, gb, in) },
			dec: func(p param, in []byte) []byte { return modesref.XTSDecrypt(rb(p.k1), rb(p.k2), p.iv, gb, in) }})
	}
	ms = append(ms, umode{name: "hctr", min: 16, oneShot: true, wrappers: allW,
		on: func(get func([]byte) stdcipher.Block, p param, dec bool) func(dst, src []byte) {
			h, err := gcipher.NewHCTR(get(p.k1), p.iv, p.k2)
			if err != nil {
				panic(fmt.Sprintf("NewHCTR with 16-byte tweak and hash key: %v", err))
			}
			if dec {
				return h.DecryptBytes
			}
			return h.EncryptBytes
		},
		enc:     func(p param, in []byte) []byte { return modesref.HCTREncrypt(rb(p.k1), p.iv, p.k2, in) },
		dec:     func(p param, in []byte) []byte { return modesref.HCTRDecrypt(rb(p.k1), p.iv, p.k2, in) },
		trusted: func(n int) bool { return hctrClass(n) != "partial" }})
	for i := range ms {
		if ms[i].trusted == nil {
			ms[i].trusted = yes
		}
	}
	return ms
}

func umodeByName(name string) umode {
	for _, m := range umodes() {
		if m.name == name {
			return m
		}
	}
	panic("no mode " + name)
}

// uniq returns the sorted distinct admitted lengths of m among ns.
func (m umode) admitted(ns []int) []int {
	seen := map[int]bool{}
	var out []int
	for _, n := range ns {
		if n < m.min || n > maxStream-64 || seen[n] || (m.blockwise && n%16 != 0) {
			continue
		}
		seen[n] = true
		out = append(out, n)
	}
	for i := 1; i < len(out); i++ { // insertion sort, the lists are short
		for j := i; j > 0 && out[j] < out[j-1]; j-- {
			out[j], out[j-1] = out[j-1], out[j]
		}
	}
	return out
}

func span(lo, hi int) []int { return rangeInts(lo, hi, 1) }

func cat(lists ...[]int) []int {
	var out []int
	for _, l := range lists {
		out = append(out, l...)
	}
	return out
}

// runWiden registers all added case families (called from Run, after the original families so that their case
// indices stay what they were).
func runWiden(c *engine.Ctx) {
	runLayout(c)
	runSharedBlock(c)
	runHistoryDstLonger(c)
	runSplitPairs(c)
	runArgs(c)
	runValues(c)
	runContract(c)
}
