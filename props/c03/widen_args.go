package c03

// Families ctor-record/… and setiv-argument/…: set-up arguments belong to the caller (completes aliasing.go, which has 11
// of the 18 slice-taking constructors, each argument in its own array, one object at a time).
//
// ctor-record: for all 18 (mode, direction) constructors and the four XTS constructors taking a sector number (whose
// tweak block the library builds itself) x 3 code paths x lengths 64, 160, 288: the arguments are carved
// from ONE record key || iv/tweak || second key || message || dirty tail, every slice with its capacity reaching to
// the end of the record (a constructor that appends to an argument overwrites its neighbour). Object 1 is built from
// values V1; the caller then puts values V2 into the SAME slices and builds object 2; then fills the slices with
// garbage; then uses the objects alternately (two calls each). Oracle: the record is byte-for-byte what the caller wrote
// after each constructor and after all calls; object 1 = reference(V1), object 2 = reference(V2).
//
// setiv-argument: for the modes offering SetIV (CBC fused and generic, BC, OFBNLF; both directions): SetIV is called
// with a slice that has the message directly behind it in the same array; it must not be modified, the caller overwrites
// it afterwards, the following in-place call must equal the reference for the value SetIV was given; twice per object.

import (
	"bytes"
	stdcipher "crypto/cipher"
	"fmt"

	"verif/engine"
)

func ctorName(m umode, dec bool) string {
	if m.symmetric {
		return m.name
	}
	return m.name + "-" + dirName(dec)
}

func runArgs(c *engine.Ctx) {
	for _, w := range allW {
		w := w
		c.Case("ctor-record/"+w, func(t *engine.T) { ctorRecord(t, w) })
	}
	c.Case("setiv-argument", setIVArgument)
}

func ctorRecord(t *engine.T, w string) {
	for _, m := range append(umodes(), sectorModes()...) {
		for _, dec := range m.dirs() {
			name := ctorName(m, dec)
			kp := "ctor-arguments/" + name
			for _, n := range []int{64, 160, 288} {
				what := fmt.Sprintf("%s (%s path), %d bytes, arguments in one record", name, w, n)
				rec := make([]byte, 48+n+32)
				dirty(rec, n)
				key, iv, key2, src := rec[0:16], rec[16:32], rec[32:48], rec[48:48+n]
				copy(src, msg(n))
				var vals [2]param
				var objs [2]func(dst, src []byte)
				ok := true
				for i := 0; i < 2 && ok; i++ {
					vals[i] = param{name: fmt.Sprintf("V%d", i+1), k1: engine.Pattern(3+10*i, 16), k2: engine.Pattern(4+10*i, 16), iv: engine.Pattern(5+10*i, 16)}
					copy(key, vals[i].k1)
					copy(key2, vals[i].k2)
					copy(iv, vals[i].iv)
					snap := append([]byte{}, rec...)
					if t.Guard(kp, func() {
						objs[i] = m.on(func(k []byte) stdcipher.Block { return mustBlock(k, w) }, param{k1: key, k2: key2, iv: iv}, dec)
					}) {
						ok = false
						break
					}
					if !bytes.Equal(rec, snap) {
						t.Fail(kp+"/constructor-modifies-argument", "%s: constructor #%d changed byte %d of the record key(0..15) || iv/tweak(16..31) || second key(32..47) || message", what, i+1, engine.FirstDiff(rec, snap))
						copy(rec, snap)
					}
				}
				if !ok {
					continue
				}
				for i := 0; i < 16; i++ {
					key[i], iv[i], key2[i] = 0xA5, 0xC3, 0x5A
				}
				snap := append([]byte{}, rec...)
				h := n / 2 // a whole number of blocks
				cuts := [][2]int{{0, h}, {h, n}}
				if !m.blockwise && m.min == 0 {
					cuts = [][2]int{{0, h + 3}, {h + 3, n}}
				}
				var dsts [2][]byte
				for i := range dsts {
					dsts[i] = make([]byte, n)
				}
				for _, cut := range cuts {
					for i := range objs {
						if !ok {
							break
						}
						if t.Guard(kp, func() { objs[i](dsts[i][cut[0]:cut[1]], src[cut[0]:cut[1]]) }) {
							ok = false
						}
						t.Eval(1)
					}
				}
				if !ok {
					continue
				}
				if !bytes.Equal(rec, snap) {
					t.Fail(kp+"/call-modifies-constructor-argument", "%s: a CryptBlocks/XORKeyStream/EncryptBytes call changed byte %d of the record key(0..15) || iv/tweak(16..31) || second key(32..47) || message (disjoint destination)", what, engine.FirstDiff(rec, snap))
				}
				for i := range objs {
					var want []byte
					if m.oneShot {
						for _, cut := range cuts {
							want = append(want, refDir(m, vals[i], dec, msg(n)[cut[0]:cut[1]])...)
						}
					} else {
						want = refDir(m, vals[i], dec, msg(n))
					}
					if !bytes.Equal(dsts[i], want) {
						t.Fail(kp+"/object-depends-on-callers-slices", "%s: object #%d (built from values %s; the caller re-used the argument slices for the next constructor and then overwrote them) differs from the reference at byte %d", what, i+1, vals[i].name, engine.FirstDiff(dsts[i], want))
					}
				}
				t.Nontrivial("ctor-record/" + w + "/" + name + "/" + fmt.Sprint(n))
			}
		}
	}
	t.Outcome("ctor-record/" + w)
	t.Sample(map[string]any{"kind": "ctor-record", "wrapper": w, "constructors": 22, "lengths": []int{64, 160, 288}})
}

// refDir applies the reference in the given direction to in (for decryption in is taken as ciphertext).
func refDir(m umode, p param, dec bool, in []byte) []byte {
	if dec {
		return m.dec(p, in)
	}
	return m.enc(p, in)
}

func setIVArgument(t *engine.T) {
	for _, s := range specs() {
		if !s.setIV {
			continue
		}
		m := umodeByName(s.name)
		for _, dec := range []bool{false, true} {
			for _, w := range s.wrappers {
				p := params()[2]
				kp := "setiv-argument/" + s.name + "/" + dirName(dec) + "/" + w
				obj, crypt := s.mk(p, w, dec)
				setter, ok := obj.(ivSetter)
				if !ok {
					t.Outcome("setiv-argument/no-SetIV/" + fmt.Sprintf("%T", obj))
					continue
				}
				bad := false
				// a first segment under the constructor's IV
				seg := make([]byte, 32)
				if t.Guard(kp, func() { crypt(seg, msg(32)) }) {
					continue
				}
				for round, n := range []int{48, 160} {
					rec := make([]byte, 16+n+24)
					dirty(rec, round)
					ivbuf, data := rec[0:16], rec[16:16+n]
					v := engine.Pattern(21+round, 16)
					copy(ivbuf, v)
					q := p
					q.iv = v
					copy(data, msg(n))
					want := refDir(m, q, dec, msg(n))
					snap := append([]byte{}, rec...)
					if t.Guard(kp, func() { setter.SetIV(ivbuf) }) {
						bad = true
						break
					}
					if !bytes.Equal(rec, snap) {
						t.Fail(kp+"/setiv-modifies-argument", "%s %s via %s block: SetIV changed byte %d of the record iv(0..15) || message", s.name, dirName(dec), w, engine.FirstDiff(rec, snap))
					}
					for i := range ivbuf {
						ivbuf[i] = 0x3C
					}
					if t.Guard(kp, func() { crypt(data, data) }) {
						bad = true
						break
					}
					t.Eval(1)
					if !allEq(ivbuf, 0x3C) || !bytes.Equal(rec[16+n:], snap[16+n:]) {
						t.Fail(kp+"/call-modifies-setiv-argument", "%s %s via %s block: an in-place call on the %d message bytes behind the former SetIV argument changed bytes outside the message", s.name, dirName(dec), w, n)
					}
					if !bytes.Equal(data, want) {
						t.Fail(kp+"/object-depends-on-callers-slice", "%s %s via %s block: after SetIV(v) the caller overwrote v; the next call (%d bytes, in place, directly behind v in memory) differs from the reference for the value given to SetIV at byte %d", s.name, dirName(dec), w, n, engine.FirstDiff(data, want))
					}
				}
				if !bad {
					t.Nontrivial(kp)
					t.Outcome(fmt.Sprintf("setiv-argument:%T", obj))
				}
			}
		}
	}
}
