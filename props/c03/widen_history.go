package c03

// Families shared-block/… and split-pairs/…: call histories the original E1 machines do not contain.

import (
	"bytes"
	stdcipher "crypto/cipher"
	"fmt"

	"verif/engine"
)

// ---------------------------------------------------------------------------------------------
// shared-block: every original case builds a new sm4 block for every mode object. A cipher.Block is stateless by
// contract and applications create one block per key and build many mode objects over it, so: ONE block object per
// key, two mode objects over it (every ordered pair of the 18 (mode, direction) choices, different IV/tweak), used
// alternately with sizes going down (288, 48, 16 bytes; byte-granular modes 291, 45, 20; XTS ends with 16+5 bytes;
// HCTR messages of 288, 56, 24 bytes). XTS and OFBNLF obtain their blocks through a CipherCreator that hands out the
// same block object for the same key. Then all 36 objects over one block set, round robin in changing order.
// Oracle: every call returns the matching window of its own one-shot reference.

type sbSpec struct {
	m   umode
	dec bool
}

func sbSpecs() []sbSpec {
	var out []sbSpec
	for _, m := range umodes() {
		for _, dec := range m.dirs() {
			out = append(out, sbSpec{m, dec})
		}
	}
	return out
}

func (s sbSpec) chunks() []int {
	switch {
	case s.m.oneShot:
		return []int{288, 56, 24}
	case s.m.min == 16:
		return []int{288, 48, 21}
	case s.m.blockwise:
		return []int{288, 48, 16}
	}
	return []int{291, 45, 20}
}

// sbObject is one live mode object with its expected stream.
type sbObject struct {
	spec     sbSpec
	p        param
	f        func(dst, src []byte)
	in, want [][]byte // per chunk
	next     int
}

// sharedGet hands out one block object per distinct key of the fixed alphabet (other keys, i.e. the per-block keys of
// OFBNLF, get fresh blocks).
func sharedGet(w string) func(key []byte) stdcipher.Block {
	cache := map[string]stdcipher.Block{}
	return func(key []byte) stdcipher.Block {
		k := string(key)
		if k != string(keyA) && k != string(keyA2) {
			return mustBlock(key, w)
		}
		if b, ok := cache[k]; ok {
			return b
		}
		b := mustBlock(key, w)
		cache[k] = b
		return b
	}
}

func newSBObject(s sbSpec, p param, get func([]byte) stdcipher.Block) *sbObject {
	o := &sbObject{spec: s, p: p}
	ch := s.chunks()
	total := 0
	for _, c := range ch {
		total += c
	}
	if s.m.oneShot {
		for i, c := range ch {
			in, want := s.m.io(p, s.dec, msg(c + 16*i)[16*i:])
			o.in, o.want = append(o.in, in), append(o.want, want)
		}
	} else {
		in, want := s.m.io(p, s.dec, msg(total))
		off := 0
		for _, c := range ch {
			o.in, o.want = append(o.in, in[off:off+c]), append(o.want, want[off:off+c])
			off += c
		}
	}
	o.f = s.m.on(get, p, s.dec)
	return o
}

// step performs the object's next call and reports whether it matched.
func (o *sbObject) step(t *engine.T, w, partner string) {
	i := o.next
	o.next++
	name := o.spec.m.name + "/" + dirName(o.spec.dec)
	key := "shared-block/" + name + "/" + w
	in := append([]byte{}, o.in[i]...)
	dst := make([]byte, len(in))
	if t.Guard(key, func() { o.f(dst, in) }) {
		return
	}
	t.Eval(1)
	if !bytes.Equal(dst, o.want[i]) {
		t.Fail(key+"/ref-mismatch", "%s (%s) over a block object shared with %s: call #%d (%d bytes) differs from the reference at byte %d; got %s want %s",
			name, o.p.name, partner, i+1, len(in), engine.FirstDiff(dst, o.want[i]), engine.Hex(dst), engine.Hex(o.want[i]))
	}
}

func runSharedBlock(c *engine.Ctx) {
	pX := param{name: "A/iv=pat", k1: keyA, k2: keyA2, iv: ivPat}
	pY := param{name: "A/iv=pat11", k1: keyA, k2: keyA2, iv: engine.Pattern(11, 16)}
	for _, w := range allW {
		w := w
		c.Case("shared-block/pairs/"+w, func(t *engine.T) {
			specs := sbSpecs()
			for _, s1 := range specs {
				for _, s2 := range specs {
					get := sharedGet(w)
					o1, o2 := newSBObject(s1, pX, get), newSBObject(s2, pY, get)
					n1, n2 := s1.m.name+"/"+dirName(s1.dec), s2.m.name+"/"+dirName(s2.dec)
					for r := 0; r < 3; r++ {
						o1.step(t, w, n2)
						o2.step(t, w, n1)
					}
					t.Nontrivial("shared-block/" + w + "/" + n1 + "+" + n2)
				}
			}
			t.Outcome(fmt.Sprintf("shared-block/pairs/%s/%T", w, mustBlock(keyA, w)))
			t.Sample(map[string]any{"kind": "shared-block", "wrapper": w, "ordered_pairs": len(specs) * len(specs), "calls_per_object": 3})
		})
		c.Case("shared-block/round-robin/"+w, func(t *engine.T) {
			get := sharedGet(w)
			var objs []*sbObject
			for _, s := range sbSpecs() {
				objs = append(objs, newSBObject(s, pX, get), newSBObject(s, pY, get))
			}
			for r := 0; r < 3; r++ {
				for i := range objs {
					o := objs[i]
					if r%2 == 1 {
						o = objs[len(objs)-1-i]
					}
					o.step(t, w, "all other modes")
				}
			}
			t.Nontrivial("shared-block/round-robin/" + w)
			t.Outcome("shared-block/round-robin/" + w)
		})
	}
}

// ---------------------------------------------------------------------------------------------
// history/dst-longer: the original machines call with len(dst) == len(src) only, the original "dst 32 bytes longer"
// arrangement is single-call; a chaining value taken from the end of dst instead of the end of the output would show
// only in the NEXT call. For every (mode, direction, wrapper) and k in 1, 16, 33: three successive calls on one object
// (sizes as above and a second history going up: 16, 48, 288 resp. 20, 45, 291), every call with len(dst) = len(src)+k,
// dst ending at a PROT_NONE page. Oracle: window of the one-shot reference, dst[len(src):] untouched.

func runHistoryDstLonger(c *engine.Ctx) {
	for _, w := range allW {
		w := w
		c.Case("history/dst-longer/"+w, func(t *engine.T) {
			p := params()[2]
			g := engine.NewGuardBuf(300 + 33)
			defer g.Free()
			for _, s := range sbSpecs() {
				name := s.m.name + "/" + dirName(s.dec)
				key := "history/" + name + "/" + w + "/dst-longer"
				down := s.chunks()
				up := []int{down[2], down[1], down[0]}
				if s.m.min == 16 && !s.m.oneShot { // XTS: only the last call may end in a partial block
					up = []int{16, 48, 288 + 5}
				}
				for _, chunks := range [][]int{down, up} {
					for _, k := range []int{1, 16, 33} {
						total := chunks[0] + chunks[1] + chunks[2]
						f := s.m.mk(p, w, s.dec)
						var in, want []byte
						if !s.m.oneShot {
							in, want = s.m.io(p, s.dec, msg(total))
						}
						pos := 0
						for ci, n := range chunks {
							cin, cwant := []byte(nil), []byte(nil)
							if s.m.oneShot {
								cin, cwant = s.m.io(p, s.dec, msg(pos + n)[pos:])
							} else {
								cin, cwant = in[pos:pos+n], want[pos:pos+n]
							}
							dst := g.B[len(g.B)-n-k:]
							fill(g.B, fillDst)
							src := append([]byte{}, cin...)
							if t.Guard(key, func() { f(dst, src) }) {
								break
							}
							t.Eval(1)
							if !allEq(dst[n:], fillDst) || !allEq(g.B[:len(g.B)-n-k], fillDst) || !g.Check() {
								t.Fail(key+"/write-outside-dst", "%s via %s block: call #%d of %v bytes, len(dst) = len(src)+%d: bytes outside dst[:len(src)] changed", name, w, ci+1, chunks, k)
							}
							if !bytes.Equal(dst[:n], cwant) {
								t.Fail(key+"/ref-mismatch", "%s via %s block (%s): successive calls of %v bytes on one object, each with len(dst) = len(src)+%d: call #%d differs from the reference at byte %d; got %s want %s",
									name, w, p.name, chunks, k, ci+1, engine.FirstDiff(dst[:n], cwant), engine.Hex(dst[:n]), engine.Hex(cwant))
								break
							}
							pos += n
						}
						t.Nontrivial(fmt.Sprintf("%s/%v/%d", key, chunks, k))
					}
				}
			}
			t.Outcome("history/dst-longer/" + w)
			t.Sample(map[string]any{"kind": "history/dst-longer", "wrapper": w, "objects": len(sbSpecs()), "k": []int{1, 16, 33}})
		})
	}
}

// ---------------------------------------------------------------------------------------------
// split-pairs: the E1 alphabet of the byte-granular modes has call lengths 0, +-1 around 16, 64, 128, 512 only, so a
// call never starts at a stream position of residue 2..14 mod 16, and the fused CTR never refills its 512-byte
// key-stream buffer with 2..16 unread bytes. Enumerated here: a fresh object, XORKeyStream(a), XORKeyStream(b),
// XORKeyStream(40) for every (a, b) in A x B,
//
//	quick:    A = 0..130 and 480..530,  B = 0..40 and 495..530
//	thorough: A = 0..600,               B = 0..80, 340..400, 430..470 (the ends of the shorter buffers the fused CTR
//	                                    builds after a refill with unread bytes, on either batch size) and 495..530
//
// on guard buffers, disjoint and in place. XTS: first call of a whole blocks (a in 1..9, 15, 16, 17), final call of
// every length 16..175 (thorough 16..300), all three wrappers. Oracle: window of the one-shot reference.

func runSplitPairs(c *engine.Ctx) {
	quick := c.Quick()
	A, B := cat(span(0, 130), span(480, 530)), cat(span(0, 40), span(495, 530))
	if !quick {
		A, B = span(0, 600), cat(span(0, 80), span(340, 400), span(430, 470), span(495, 530))
	}
	carry := param{name: "A/iv=2^64-3", k1: keyA, k2: keyA2, iv: []byte{0, 0, 0, 0, 0, 0, 0, 0, 0xff, 0xff, 0xff, 0xff, 0xff, 0xff, 0xff, 0xfd}}
	for _, name := range []string{"cfb", "ofb", "ctr"} {
		m := umodeByName(name)
		ps := []param{params()[2]}
		if name == "ctr" {
			ps = append(ps, carry)
		}
		for _, dec := range m.dirs() {
			for _, w := range m.wrappers {
				for _, p := range ps {
					for _, alias := range []int{aDisjoint, aInPlace} {
						m, dec, w, p, alias := m, dec, w, p, alias
						// the A range is cut into slices so that a case stays short
						for lo := 0; lo < len(A); lo += 64 {
							hi := lo + 64
							if hi > len(A) {
								hi = len(A)
							}
							as := A[lo:hi]
							c.Case(fmt.Sprintf("split-pairs/%s/%s/%s/%s/%s/a=%d..%d", m.name, dirName(dec), w, p.name, aliasName[alias], as[0], as[len(as)-1]), func(t *engine.T) {
								splitPairs(t, m, dec, w, p, alias, as, B)
							})
						}
					}
				}
			}
		}
	}
	finalMax := 175
	if !quick {
		finalMax = 300
	}
	for _, gb := range []bool{false, true} {
		for _, a := range []int{1, 2, 3, 4, 5, 6, 7, 8, 9, 15, 16, 17} {
			gb, a := gb, a
			c.Case(fmt.Sprintf("split-pairs/%s/first=%d-blocks/final=16..%d", xtsName(gb), a, finalMax), func(t *engine.T) { xtsSplitPairs(t, gb, a, finalMax) })
		}
	}
}

func splitPairs(t *engine.T, m umode, dec bool, w string, p param, alias int, A, B []int) {
	const last = 40
	maxA, maxB := A[len(A)-1], B[len(B)-1]
	total := maxA + maxB + last
	ar := newArena(total)
	defer ar.free()
	in, want := m.io(p, dec, msg(total))
	base := m.name + "/" + dirName(dec) + "/" + w
	reported := false
	for _, a := range A {
		for _, b := range B {
			f := m.mk(p, w, dec)
			pos := 0
			for ci, n := range []int{a, b, last} {
				var out []byte
				var probs []string
				if t.Guard(base+"/split", func() { out, probs = ar.run(in[pos:pos+n], alias, f) }) {
					break
				}
				t.Eval(1)
				for _, pr := range probs {
					t.Fail(base+"/split/"+pr, "calls of %d, %d, %d bytes, call #%d, %s: %s", a, b, last, ci+1, aliasName[alias], pr)
				}
				if !bytes.Equal(out, want[pos:pos+n]) {
					if !reported { // the smallest failing pair of the case
						reported = true
						key := base + "/split/ref-mismatch"
						if ci == 0 { // a first call on a fresh object is the E2 shape
							key = base + "/ref-mismatch/" + lenClass(n)
							if m.name == "ctr" {
								key = base + "/ref-mismatch/" + ivClass(p)
							}
						}
						t.Fail(key, "%s %s via %s block (%s, %s): successive calls of %d, %d, %d bytes on one object: call #%d differs from the one-call reference at byte %d of the call; got %s want %s",
							m.name, dirName(dec), w, p.name, aliasName[alias], a, b, last, ci+1, engine.FirstDiff(out, want[pos:pos+n]), engine.Hex(out), engine.Hex(want[pos:pos+n]))
					}
					break
				}
				pos += n
			}
		}
		t.Nontrivial(fmt.Sprintf("split-pairs/%s/%s/%s/a=%d", base, p.name, aliasName[alias], a))
	}
	t.Outcome(fmt.Sprintf("split-pairs:%s:%02x", m.name, want[total-1]))
	if A[0] == 0 {
		t.Sample(map[string]any{"kind": "split-pairs", "mode": base, "params": p.name, "buffers": aliasName[alias], "first_call": fmt.Sprintf("%d..%d", A[0], maxA), "second_call_values": len(B)})
	}
}

func xtsSplitPairs(t *engine.T, gb bool, a, finalMax int) {
	p := params()[2]
	m := umodeByName(xtsName(gb))
	ar := newArena(17*16 + finalMax)
	defer ar.free()
	prefixes := map[string]string{}
	for _, dec := range []bool{false, true} {
		for _, w := range allW {
			prefixes[dirName(dec)+w] = xtsPrefix(gb, dec, w)
		}
	}
	for n := 16; n <= finalMax; n++ {
		plain := msg(16*a + n)
		ct := m.enc(p, plain)
		for _, dec := range []bool{false, true} {
			in, want := plain, ct
			if dec {
				in, want = ct, plain
			}
			for _, w := range allW {
				for _, alias := range []int{aDisjoint, aInPlace} {
					prefix := prefixes[dirName(dec)+w]
					f := m.mk(p, w, dec)
					pos := 0
					for ci, k := range []int{16 * a, n} {
						var out []byte
						var probs []string
						if t.Guard(prefix, func() { out, probs = ar.run(in[pos:pos+k], alias, f) }) {
							break
						}
						t.Eval(1)
						for _, pr := range probs {
							t.Fail(prefix+"/"+pr+"/"+xtsShape(k), "calls of %d and %d bytes, call #%d, %s: %s", 16*a, n, ci+1, aliasName[alias], pr)
						}
						if !bytes.Equal(out, want[pos:pos+k]) {
							key := prefix + "/split/ref-mismatch/" + xtsShape(k)
							if ci == 0 { // a first call on a fresh object is the E2 shape
								key = prefix + "/ref-mismatch/" + xtsShape(k)
							}
							t.Fail(key, "%s %s via %s block (%s): CryptBlocks(%d bytes) then CryptBlocks(%d bytes) on one object: call #%d differs from the one-call reference at byte %d of the call; got %s want %s",
								xtsName(gb), dirName(dec), w, aliasName[alias], 16*a, n, ci+1, engine.FirstDiff(out, want[pos:pos+k]), engine.Hex(out), engine.Hex(want[pos:pos+k]))
							break
						}
						pos += k
					}
				}
			}
		}
		t.Nontrivial(fmt.Sprintf("split-pairs/%s/%d/%d", xtsName(gb), a, n))
		t.Outcome(fmt.Sprintf("split-pairs:xts:%02x", ct[len(ct)-1]))
	}
}
