package c03

// Family layout/…: where the arguments of a CryptBlocks / XORKeyStream / EncryptBytes call lie in memory.
//
// The original E2 cases hand the library buffers that END at a PROT_NONE page; for whole-block lengths those buffers
// therefore always START 16-byte aligned, have no spare capacity, and nothing live lies behind or (unprotected) in
// front of them. Enumerated here, for every mode x direction x wrapper x length list, a fresh object per call:
//
//	record      src||dst and dst||src carved from ONE array (start address = 7 resp. 9 mod 64), capacities reaching to the
//	            end of the record, dirty bytes behind
//	misaligned  src at address a mod 64, dst at address b mod 64 for 8 pairs (a,b), and dst==src at 1, 8, 15, 17 mod 64;
//	            spare capacity with dirty bytes behind both
//	front-guard src and dst each START at a page boundary whose preceding page is PROT_NONE (a read or write in front of a
//	            buffer kills the worker), disjoint and in place; spare capacity with dirty bytes behind
//	dst-longer  len(dst) = len(src)+k for k in 1,15,16,17,64,256, both ending at a PROT_NONE page; and the same with
//	            dst starting AT src (dst[:len(src)] overlaps src exactly, which the API admits) for k in 1,16,64
//	nil         length 0 with nil slices
//
// Oracle: dst[:len(src)] equals the one-shot reference (for the HCTR lengths covered by the known finding: equals what
// the library itself returns for two ordinary equal-length arrays); every other byte of every array the harness owns around the
// arguments (source when disjoint, spare capacity, neighbours, dst[len(src):]) is unchanged; no panic; no crash.

import (
	"bytes"
	"fmt"
	"syscall"
	"unsafe"

	"verif/engine"
)

const pageSz = 4096

// frontBuf is a byte buffer that starts right after a PROT_NONE page.
type frontBuf struct{ mem, B []byte }

func newFrontBuf(n int) *frontBuf {
	data := ((n+pageSz-1)/pageSz + 1) * pageSz
	mem, err := syscall.Mmap(-1, 0, pageSz+data, syscall.PROT_READ|syscall.PROT_WRITE, syscall.MAP_ANON|syscall.MAP_PRIVATE)
	if err != nil {
		panic(fmt.Sprintf("frontBuf mmap: %v", err))
	}
	if err := syscall.Mprotect(mem[:pageSz], syscall.PROT_NONE); err != nil {
		panic(fmt.Sprintf("frontBuf mprotect: %v", err))
	}
	return &frontBuf{mem: mem, B: mem[pageSz : pageSz+n+64 : pageSz+n+64]}
}

func (f *frontBuf) free() {
	if f.mem != nil {
		syscall.Munmap(f.mem)
		f.mem, f.B = nil, nil
	}
}

const (
	layTail    = 96  // dirty bytes kept behind the last argument of a record
	layMaxSlop = 256 // largest k of dst-longer
)

// layoutEnv owns the memory of one layout case.
type layoutEnv struct {
	maxN  int
	heap  [2][]byte // ordinary arrays; base[i] is the offset of an address = 0 mod 64
	base  [2]int
	end   [2]*engine.GuardBuf // end at a PROT_NONE page
	front [2]*frontBuf        // start after a PROT_NONE page
}

func newLayoutEnv(maxN int) *layoutEnv {
	e := &layoutEnv{maxN: maxN}
	for i := range e.heap {
		e.heap[i] = make([]byte, 64+64+2*maxN+layTail)
		e.base[i] = int(-uintptr(unsafe.Pointer(&e.heap[i][0])) & 63)
		e.end[i] = engine.NewGuardBuf(maxN + layMaxSlop + 64)
		e.front[i] = newFrontBuf(maxN)
	}
	return e
}

func (e *layoutEnv) free() {
	for i := range e.heap {
		e.end[i].Free()
		e.front[i].free()
	}
}

// placed is one concrete arrangement of the arguments.
type placed struct {
	dst, src []byte
	regions  [][]byte // every array the harness owns around the arguments
	dReg     int      // dst == regions[dReg][dOff : dOff+len(dst)]
	dOff     int
	sReg     int // src == regions[sReg][sOff : sOff+n]
	sOff     int
	inPlace  bool
}

type layoutSpec struct {
	name, class string
	onlyEmpty   bool
	place       func(e *layoutEnv, n int) placed
}

func layouts() []layoutSpec {
	var ls []layoutSpec
	ls = append(ls,
		layoutSpec{name: "record(src|dst)@7", class: "record", place: func(e *layoutEnv, n int) placed {
			o := e.base[0] + 7
			h := e.heap[0]
			return placed{src: h[o : o+n], dst: h[o+n : o+2*n], regions: [][]byte{h}, sOff: o, dOff: o + n}
		}},
		layoutSpec{name: "record(dst|src)@9", class: "record", place: func(e *layoutEnv, n int) placed {
			o := e.base[0] + 9
			h := e.heap[0]
			return placed{dst: h[o : o+n], src: h[o+n : o+2*n], regions: [][]byte{h}, dOff: o, sOff: o + n}
		}})
	for _, ab := range [][2]int{{1, 1}, {8, 8}, {15, 15}, {0, 1}, {1, 0}, {4, 12}, {16, 48}, {33, 17}} {
		a, b := ab[0], ab[1]
		ls = append(ls, layoutSpec{name: fmt.Sprintf("misaligned(src@%d,dst@%d)", a, b), class: "misaligned", place: func(e *layoutEnv, n int) placed {
			so, do := e.base[0]+a, e.base[1]+b
			return placed{src: e.heap[0][so : so+n], dst: e.heap[1][do : do+n], regions: [][]byte{e.heap[0], e.heap[1]}, sReg: 0, sOff: so, dReg: 1, dOff: do}
		}})
	}
	for _, a := range []int{1, 8, 15, 17} {
		a := a
		ls = append(ls, layoutSpec{name: fmt.Sprintf("misaligned(inplace@%d)", a), class: "misaligned", place: func(e *layoutEnv, n int) placed {
			o := e.base[0] + a
			s := e.heap[0][o : o+n]
			return placed{src: s, dst: s, regions: [][]byte{e.heap[0]}, sOff: o, dOff: o, inPlace: true}
		}})
	}
	ls = append(ls,
		layoutSpec{name: "front-guard(disjoint)", class: "front-guard", place: func(e *layoutEnv, n int) placed {
			return placed{src: e.front[0].B[:n], dst: e.front[1].B[:n], regions: [][]byte{e.front[0].B, e.front[1].B}, sReg: 0, dReg: 1}
		}},
		layoutSpec{name: "front-guard(inplace)", class: "front-guard", place: func(e *layoutEnv, n int) placed {
			s := e.front[0].B[:n]
			return placed{src: s, dst: s, regions: [][]byte{e.front[0].B}, inPlace: true}
		}})
	for _, k := range []int{1, 15, 16, 17, 64, 256} {
		k := k
		ls = append(ls, layoutSpec{name: fmt.Sprintf("dst-longer+%d", k), class: "dst-longer", place: func(e *layoutEnv, n int) placed {
			A, B := e.end[0].B, e.end[1].B
			return placed{src: A[len(A)-n:], dst: B[len(B)-n-k:], regions: [][]byte{A, B}, sReg: 0, sOff: len(A) - n, dReg: 1, dOff: len(B) - n - k}
		}})
	}
	for _, k := range []int{1, 16, 64} {
		k := k
		ls = append(ls, layoutSpec{name: fmt.Sprintf("dst-longer+%d(from-src)", k), class: "dst-longer-inplace", place: func(e *layoutEnv, n int) placed {
			A := e.end[0].B
			d := A[len(A)-n-k:]
			return placed{src: d[:n:n], dst: d, regions: [][]byte{A}, sOff: len(A) - n - k, dOff: len(A) - n - k, inPlace: true}
		}})
	}
	ls = append(ls, layoutSpec{name: "nil", class: "nil", onlyEmpty: true, place: func(e *layoutEnv, n int) placed {
		return placed{regions: nil}
	}})
	return ls
}

func dirty(b []byte, salt int) {
	for i := range b {
		b[i] = byte(i*29+salt) ^ 0xD3 ^ byte(i>>8)
	}
}

// execLayout runs f once in the arrangement l and returns dst[:n] and the memory-discipline problems seen.
func execLayout(e *layoutEnv, l layoutSpec, in []byte, salt int, f func(dst, src []byte)) (out []byte, problems []string) {
	n := len(in)
	pl := l.place(e, n)
	for i, r := range pl.regions {
		dirty(r, salt+i)
	}
	copy(pl.src, in)
	snaps := make([][]byte, len(pl.regions))
	for i, r := range pl.regions {
		snaps[i] = append([]byte{}, r...)
	}
	f(pl.dst, pl.src)
	out = append([]byte{}, pl.dst[:n]...)
	for i, r := range pl.regions {
		if bytes.Equal(r, snaps[i]) {
			continue
		}
		for j := range r {
			if r[j] == snaps[i][j] || (i == pl.dReg && j >= pl.dOff && j < pl.dOff+n) {
				continue
			}
			var p string
			switch {
			case !pl.inPlace && i == pl.sReg && j >= pl.sOff && j < pl.sOff+n:
				p = "source-modified"
			case i == pl.dReg && j >= pl.dOff+n && j < pl.dOff+len(pl.dst):
				p = "dst-beyond-len-src-modified"
			case i == pl.dReg && j < pl.dOff || i == pl.sReg && j < pl.sOff:
				p = "write-before-buffer"
			default:
				p = "write-behind-buffer"
			}
			problems = append(problems, p)
			break
		}
	}
	return out, problems
}

func layoutLengths(m umode, quick bool) []int {
	var ns []int
	switch {
	case m.blockwise:
		ns = rangeInts(0, 40*16, 16)
	case m.name == "hctr":
		ns = cat(span(16, 100), span(136, 168), span(264, 296))
		if !quick {
			ns = cat(span(16, 320), span(520, 560))
		}
	case m.min == 16: // XTS
		ns = span(16, 300)
		if !quick {
			ns = span(16, 560)
		}
	default:
		ns = cat(span(0, 84), span(120, 136), span(250, 262), span(505, 520))
		if !quick {
			ns = span(0, 560)
		}
	}
	return m.admitted(ns)
}

// layoutClasses are the case groups: one case per (mode, direction, wrapper, group), so that a worker crash is attributed
// to the kind of arrangement.
var layoutClasses = []string{"record", "misaligned", "front-guard", "dst-longer", "dst-longer-inplace"}

func runLayout(c *engine.Ctx) {
	for _, m := range umodes() {
		for _, dec := range m.dirs() {
			for _, w := range m.wrappers {
				for _, class := range layoutClasses {
					m, dec, w, class := m, dec, w, class
					c.Case(fmt.Sprintf("layout/%s/%s/%s/%s", m.name, dirName(dec), w, class), func(t *engine.T) { layoutCase(t, m, dec, w, class) })
				}
			}
		}
	}
}

// layoutIO memoises the reference computations of the layout cases (the same for every wrapper and class).
var layoutIO = map[string][2][]byte{}

func layoutRef(m umode, p param, dec bool, n int) (in, want []byte) {
	k := fmt.Sprintf("%s/%s/%v/%d", m.name, p.name, dec, n)
	if v, ok := layoutIO[k]; ok {
		return v[0], v[1]
	}
	in, want = m.io(p, dec, msg(n))
	layoutIO[k] = [2][]byte{in, want}
	return in, want
}

func layoutCase(t *engine.T, m umode, dec bool, w, class string) {
	ns := layoutLengths(m, t.Quick())
	maxN := ns[len(ns)-1]
	e := newLayoutEnv(maxN)
	defer e.free()
	p := params()[2]
	prefix := "layout/" + m.name + "/" + dirName(dec) + "/" + w
	var ls []layoutSpec
	for _, l := range layouts() {
		if l.class == class || (l.class == "nil" && class == "record") {
			ls = append(ls, l)
		}
	}
	once := map[string]bool{}
	fail := func(key, format string, a ...any) { // the smallest failing length of each key is reported
		if !once[key] {
			once[key] = true
			t.Fail(key, format, a...)
		}
	}
	// prefix-stable modes: one reference computation for all lengths
	var fullIn, fullWant []byte
	prefixStable := m.min == 0
	if prefixStable {
		fullIn, fullWant = layoutRef(m, p, dec, maxN)
	}
	for _, n := range ns {
		var in, want []byte
		if prefixStable {
			in, want = fullIn[:n], fullWant[:n]
		} else {
			in, want = layoutRef(m, p, dec, n)
		}
		trusted := m.trusted(n)
		var plain []byte
		if !trusted {
			// yardstick where the reference is not: the library's own result with two ordinary equal-length arrays
			plain = make([]byte, n)
			f := m.mk(p, w, dec)
			if t.Guard(prefix+"/plain", func() { f(plain, append([]byte{}, in...)) }) {
				continue
			}
		}
		for li, l := range ls {
			if l.onlyEmpty && n != 0 {
				continue
			}
			var out []byte
			var probs []string
			f := m.mk(p, w, dec)
			if t.Guard(prefix+"/"+l.class, func() { out, probs = execLayout(e, l, in, li+n, f) }) {
				continue
			}
			t.Eval(1)
			for _, pr := range probs {
				fail(prefix+"/"+pr+"/"+l.class, "%s %s via %s block, %d bytes, arrangement %s: %s", m.name, dirName(dec), w, n, l.name, pr)
			}
			switch {
			case trusted && !bytes.Equal(out, want):
				d := engine.FirstDiff(out, want)
				fail(prefix+"/ref-mismatch/"+l.class, "%s %s via %s block (%s), %d bytes, arrangement %s: output differs from the reference at byte %d; got %s want %s",
					m.name, dirName(dec), w, p.name, n, l.name, d, engine.Hex(out), engine.Hex(want))
			case !trusted && !bytes.Equal(out, plain):
				fail(prefix+"/layout-dependent/"+l.class, "%s %s via %s block, %d bytes: arrangement %s gives a different result than two ordinary equal-length arrays (byte %d)",
					m.name, dirName(dec), w, n, l.name, engine.FirstDiff(out, plain))
			}
			t.Nontrivial(fmt.Sprintf("%s/%s/%d", prefix, l.name, n))
		}
		if n > 0 {
			t.Outcome(fmt.Sprintf("layout:%s:%02x", m.name, want[n-1]))
		}
	}
	if class == layoutClasses[0] {
		t.Sample(map[string]any{"kind": "layout", "mode": prefix, "lengths": len(ns), "max_length": maxN, "arrangements": len(layouts())})
	}
}
