package c03

// Family values/…: boundary values of the fields the original alphabet (two key sets, IV 0^128 / 1^128 / one pattern,
// one message content) does not reach.
//
//	hctr-hkey   NewHCTR builds its table of hash-key multiples with three doublings of the key; a doubling reduces only
//	            if the coefficient of x^127 is set (last key byte odd) and carries between the two 64-bit halves only if
//	            the coefficient of x^63 is set (byte 7 odd). Key set A (01 02 .. 10) enters neither branch. Enumerated: 13
//	            hash keys (0, x^0, x^127, x^126, x^125, x^125+x^126+x^127, all ones, x^63, x^64, x^62+x^63, the reduction
//	            constant, x^7, x^63+x^127) x 2 tweaks x 10 lengths x enc/dec x 3 code paths.
//	xts-tweak   the tweak arithmetic works on E_K2(tweak), a pseudo-random value for every tweak of the alphabet. Here the
//	            tweak is D_K2(T) (reference SM4) for 13 chosen T: 0, all ones, single bits at both ends of both 64-bit
//	            halves and of the first and last byte, alternating bits — so that the first doublings hit the carry
//	            between the halves / the reduction (or neither, ever) in a known pattern. x lengths 16k+r (k in
//	            1,2,3,4,5,8,9,16,17,33; r in 0,1,15) x IEEE/GB x enc/dec x 3 code paths x 3 buffer arrangements.
//	ctr-bytes   counters 2^(8k)-j, k = 1..16 without the word boundaries the original set has, j = 0..17; 33 and 320 bytes.
//	extremes    keys / IVs / second keys all zero, all ones; message content all zero, all ones; every mode, direction,
//	            code path, a length list around the bulk thresholds; decryption also OF the extreme content.
//	large       messages of 4096, 4113, 8200 bytes (thorough: also 16384, 65553) on guard buffers: several pages, many rounds
//	            of every bulk loop and of the 512-byte CTR key-stream buffer in ONE call.

import (
	"bytes"
	"fmt"
	"math/big"

	"verif/engine"
	"verif/ref/sm4ref"
)

func runValues(c *engine.Ctx) {
	c.Case("values/hctr-hkey", valuesHCTRKey)
	for _, gb := range []bool{false, true} {
		gb := gb
		c.Case("values/xts-tweak/"+xtsName(gb), func(t *engine.T) { valuesXTSTweak(t, gb) })
	}
	for _, w := range []string{wFused, wHidden} {
		w := w
		c.Case("values/ctr-bytes/"+w, func(t *engine.T) { valuesCTRBytes(t, w) })
	}
	for _, m := range umodes() {
		m := m
		c.Case("values/extremes/"+m.name, func(t *engine.T) { valuesExtremes(t, m) })
	}
	for _, m := range umodes() {
		for _, dec := range m.dirs() {
			m, dec := m, dec
			c.Case("values/large/"+m.name+"/"+dirName(dec), func(t *engine.T) { valuesLarge(t, m, dec) })
		}
	}
}

// bigMsg is the content of the large messages (the fixed content stream has 2200 bytes only).
func bigMsg(n int) []byte {
	b := make([]byte, n)
	x := uint32(0x2545F491)
	for i := range b {
		x = x*1664525 + 1013904223
		b[i] = byte(x>>24) ^ byte(i)
	}
	return b
}

// valuesLarge: messages that span several pages and many rounds of every bulk loop and key-stream buffer: 4096, 4113
// and 8200 bytes (whole-block modes 4096, 8192; HCTR 4096, 4104, 8200), thorough also 16384 and 65553 (65536; 65544),
// every wrapper, the three buffer arrangements of the E2 cases.
func valuesLarge(t *engine.T, m umode, dec bool) {
	var ns []int
	switch {
	case m.blockwise:
		ns = []int{4096, 8192}
		if !t.Quick() {
			ns = append(ns, 16384, 65536)
		}
	case m.oneShot:
		ns = []int{4096, 4104, 8200}
		if !t.Quick() {
			ns = append(ns, 16384, 65544)
		}
	default:
		ns = []int{4096, 4113, 8200}
		if !t.Quick() {
			ns = append(ns, 16384, 65553)
		}
	}
	p := params()[2]
	ar := newArena(ns[len(ns)-1])
	defer ar.free()
	for _, n := range ns {
		plain := bigMsg(n)
		in, want := m.io(p, dec, plain)
		for _, w := range m.wrappers {
			w := w
			callSet(t, ar, nil, "values/large/"+m.name+"/"+dirName(dec)+"/"+w, "len>=4096", fmt.Sprintf("%s %s", m.name, p.name), in, want, func() func(dst, src []byte) {
				return m.mk(p, w, dec)
			})
		}
		t.Nontrivial(fmt.Sprintf("large/%s/%s/%d", m.name, dirName(dec), n))
		t.Outcome(fmt.Sprintf("large:%s:%02x", m.name, want[n-1]))
	}
	t.Sample(map[string]any{"kind": "values", "family": "large", "mode": m.name + "/" + dirName(dec), "lengths": ns})
}

func oneBit(byteIdx int, mask byte) []byte {
	b := make([]byte, 16)
	b[byteIdx] = mask
	return b
}

type namedVal struct {
	name string
	v    []byte
}

func hctrHashKeys() []namedVal {
	or := func(a ...[]byte) []byte {
		o := make([]byte, 16)
		for _, x := range a {
			for i := range o {
				o[i] |= x[i]
			}
		}
		return o
	}
	return []namedVal{
		{"0", engine.Pattern(0, 16)},
		{"x^0", oneBit(0, 0x80)},
		{"x^127", oneBit(15, 0x01)},
		{"x^126", oneBit(15, 0x02)},
		{"x^125", oneBit(15, 0x04)},
		{"x^125+x^126+x^127", oneBit(15, 0x07)},
		{"ones", engine.Pattern(1, 16)},
		{"x^63", oneBit(7, 0x01)},
		{"x^64", oneBit(8, 0x80)},
		{"x^62+x^63", oneBit(7, 0x03)},
		{"e1||0", oneBit(0, 0xe1)},
		{"x^7", oneBit(0, 0x01)},
		{"x^63+x^127", or(oneBit(7, 0x01), oneBit(15, 0x01))},
	}
}

func valuesHCTRKey(t *engine.T) {
	m := umodeByName("hctr")
	lengths := []int{16, 24, 32, 48, 72, 144, 296, 17, 47, 150}
	for _, hk := range hctrHashKeys() {
		for _, tw := range []namedVal{{"zero", engine.Pattern(0, 16)}, {"pat", ivPat}} {
			p := param{name: "hkey=" + hk.name + "/tweak=" + tw.name, k1: keyA, k2: hk.v, iv: tw.v}
			for _, n := range lengths {
				cl := hctrClass(n)
				plain := msg(n)
				trusted := m.trusted(n)
				var ct []byte
				if trusted {
					ct = m.enc(p, plain)
				}
				var encs [][]byte
				for _, w := range allW {
					enc, dec := m.mk(p, w, false), m.mk(p, w, true)
					c1, back := make([]byte, n), make([]byte, n)
					if t.Guard("hctr-hkey/"+cl+"/"+w, func() { enc(c1, plain); dec(back, c1) }) {
						continue
					}
					t.Eval(2)
					encs = append(encs, c1)
					if !bytes.Equal(back, plain) {
						t.Fail("hctr-hkey/"+cl+"/roundtrip/"+w, "HCTR %s via %s block, %d bytes: Decrypt(Encrypt(m)) differs from m at byte %d", p.name, w, n, engine.FirstDiff(back, plain))
					}
					if trusted && !bytes.Equal(c1, ct) {
						t.Fail("hctr-hkey/"+cl+"/enc/"+w+"/ref-mismatch", "HCTR enc %s via %s block, %d bytes: first difference from the reference at byte %d; got %s want %s", p.name, w, n, engine.FirstDiff(c1, ct), engine.Hex(c1), engine.Hex(ct))
					}
					if trusted {
						// decryption of the reference ciphertext, in place
						buf := append([]byte{}, ct...)
						if !t.Guard("hctr-hkey/"+cl+"/"+w, func() { dec(buf, buf) }) {
							t.Eval(1)
							if !bytes.Equal(buf, plain) {
								t.Fail("hctr-hkey/"+cl+"/dec/"+w+"/ref-mismatch", "HCTR dec %s via %s block, %d bytes, in place: first difference from the plaintext at byte %d", p.name, w, n, engine.FirstDiff(buf, plain))
							}
						}
					}
				}
				for i := 1; i < len(encs); i++ {
					if !bytes.Equal(encs[0], encs[i]) {
						t.Fail("hctr-hkey/"+cl+"/paths-disagree", "HCTR %s, %d bytes: %s and %s blocks give different ciphertexts (byte %d)", p.name, n, allW[0], allW[i], engine.FirstDiff(encs[0], encs[i]))
					}
				}
				t.Nontrivial(fmt.Sprintf("hctr-hkey/%s/%d", p.name, n))
				if len(encs) > 0 {
					t.Outcome(fmt.Sprintf("hctr-hkey:%02x", encs[0][0]))
				}
			}
		}
	}
	t.Sample(map[string]any{"kind": "values", "family": "hctr-hkey", "hash_keys": len(hctrHashKeys()), "lengths": lengths})
}

func xtsBoundaryTweaks() []namedVal {
	alt := make([]byte, 16)
	alt2 := make([]byte, 16)
	for i := range alt {
		alt[i], alt2[i] = 0xAA, 0x55
	}
	onesLow := engine.Pattern(1, 16)
	onesLow[0] = 0
	return []namedVal{
		{"0", engine.Pattern(0, 16)}, {"ones", engine.Pattern(1, 16)}, {"ones-but-byte0", onesLow},
		{"byte0=01", oneBit(0, 0x01)}, {"byte0=80", oneBit(0, 0x80)},
		{"byte7=01", oneBit(7, 0x01)}, {"byte7=80", oneBit(7, 0x80)},
		{"byte8=01", oneBit(8, 0x01)}, {"byte8=80", oneBit(8, 0x80)},
		{"byte15=01", oneBit(15, 0x01)}, {"byte15=80", oneBit(15, 0x80)},
		{"aa", alt}, {"55", alt2},
	}
}

func valuesXTSTweak(t *engine.T, gb bool) {
	m := umodeByName(xtsName(gb))
	var lengths []int
	for _, k := range []int{1, 2, 3, 4, 5, 8, 9, 16, 17, 33} {
		for _, r := range []int{0, 1, 15} {
			lengths = append(lengths, 16*k+r)
		}
	}
	ar := newArena(lengths[len(lengths)-1])
	defer ar.free()
	k2 := sm4ref.New(keyA2)
	prefixes := map[string]string{}
	for _, dec := range []bool{false, true} {
		for _, w := range allW {
			prefixes[dirName(dec)+w] = xtsPrefix(gb, dec, w)
		}
	}
	for _, T := range xtsBoundaryTweaks() {
		tweak := make([]byte, 16)
		k2.Decrypt(tweak, T.v)
		chk := make([]byte, 16)
		k2.Encrypt(chk, tweak)
		if !bytes.Equal(chk, T.v) {
			panic("reference SM4 does not invert itself")
		}
		p := param{name: "A/E(tweak)=" + T.name, k1: keyA, k2: keyA2, iv: tweak}
		for _, n := range lengths {
			plain := msg(n)
			ct := m.enc(p, plain)
			for _, dec := range []bool{false, true} {
				in, want := plain, ct
				if dec {
					in, want = ct, plain
				}
				for _, w := range allW {
					w, dec := w, dec
					callSet(t, ar, nil, prefixes[dirName(dec)+w], xtsShape(n)+"/boundary-tweak", xtsName(gb)+" "+p.name, in, want, func() func(dst, src []byte) {
						return m.mk(p, w, dec)
					})
				}
			}
			t.Nontrivial(fmt.Sprintf("xts-tweak/%s/%s/%d", xtsName(gb), T.name, n))
			t.Outcome(fmt.Sprintf("xts-tweak:%02x", ct[n-1]))
		}
	}
	t.Sample(map[string]any{"kind": "values", "family": "xts-tweak", "mode": xtsName(gb), "encrypted_tweaks": len(xtsBoundaryTweaks()), "lengths": lengths})
}

func valuesCTRBytes(t *engine.T, w string) {
	m := umodeByName("ctr")
	ar := newArena(320)
	defer ar.free()
	mod := new(big.Int).Lsh(big.NewInt(1), 128)
	once := map[string]bool{}
	for k := uint(8); k <= 128; k += 8 {
		if k%32 == 0 {
			continue // in the original set
		}
		for j := int64(0); j <= 17; j++ {
			v := new(big.Int).Lsh(big.NewInt(1), k)
			v.Sub(v, big.NewInt(j))
			v.Mod(v, mod)
			iv := make([]byte, 16)
			v.FillBytes(iv)
			p := param{name: fmt.Sprintf("A/iv=2^%d-%d", k, j), k1: keyA, k2: keyA2, iv: iv}
			in, want := m.io(p, false, msg(320))
			for _, n := range []int{33, 320} {
				callSet(t, ar, once, "ctr/enc/"+w, ivClass(p), "ctr "+p.name, in[:n], want[:n], func() func(dst, src []byte) { return m.mk(p, w, false) })
			}
			t.Nontrivial(fmt.Sprintf("ctr-bytes/%s/%s", w, p.name))
			t.Outcome(fmt.Sprintf("ctr-bytes:%02x", want[319]))
		}
	}
	t.Sample(map[string]any{"kind": "values", "family": "ctr-bytes", "wrapper": w, "counters": "2^(8k)-j, k=1..16 except multiples of 4, j=0..17", "lengths": []int{33, 320}})
}

func valuesExtremes(t *engine.T, m umode) {
	var ns []int
	switch {
	case m.blockwise:
		ns = []int{0, 16, 32, 64, 128, 144, 272}
	case m.oneShot:
		ns = []int{16, 24, 32, 40, 72, 144, 152, 280}
	case m.min == 16:
		ns = []int{16, 17, 31, 32, 33, 64, 65, 129, 272, 287}
	default:
		ns = []int{0, 1, 15, 16, 17, 33, 64, 129, 272, 530}
	}
	maxN := ns[len(ns)-1]
	ar := newArena(maxN)
	defer ar.free()
	zero, ones := engine.Pattern(0, 16), engine.Pattern(1, 16)
	ps := []param{
		{"keys=zero", zero, zero, zero},
		{"keys=ones", ones, ones, ones},
		{"keys=A", keyA, keyA2, ivPat},
	}
	contents := []namedVal{{"zero", engine.Pattern(0, maxN)}, {"ones", engine.Pattern(1, maxN)}, {"stream", msg(maxN)}}
	for _, p := range ps {
		for _, cn := range contents {
			if p.name == "keys=A" && cn.name == "stream" {
				continue // the original alphabet
			}
			shape := p.name + "/content=" + cn.name
			for _, n := range ns {
				if !m.trusted(n) {
					continue
				}
				plain := cn.v[:n]
				ct := m.enc(p, plain)
				for _, dec := range m.dirs() {
					// direction dec: (a) decrypt the ciphertext of the extreme plaintext, (b) decrypt the extreme content itself
					ios := [][2][]byte{{plain, ct}}
					if dec {
						ios = [][2][]byte{{ct, plain}, {plain, m.dec(p, plain)}}
					}
					for _, w := range m.wrappers {
						for _, io := range ios {
							w, dec := w, dec
							callSet(t, ar, nil, "values/extremes/"+m.name+"/"+dirName(dec)+"/"+w, shape, m.name+" "+shape, io[0], io[1], func() func(dst, src []byte) {
								return m.mk(p, w, dec)
							})
						}
					}
				}
				if n > 0 {
					t.Outcome(fmt.Sprintf("extremes:%s:%02x", m.name, ct[n-1]))
				}
			}
			t.Nontrivial("extremes/" + m.name + "/" + shape)
		}
	}
	t.Sample(map[string]any{"kind": "values", "family": "extremes", "mode": m.name, "lengths": ns})
}
