// Package c04: SM4-GCM and SM4-CCM against the reference GCM (SP 800-38D) / CCM (RFC 3610) over the
// reference SM4, on every dispatch tier and for the library's own GCM selected by the block
// (fused asm, table-driven over the asm block, stdlib generic) as well as for the stdlib generic
// composition forced by a wrapper that hides the block's fast-path interfaces.
// Kernels: E2 (full products of lengths x AAD lengths x dst modes x nonce/tag sizes, counter-wrap
// nonces constructed through GHASH linearity) and E3 (every single-byte corruption / truncation).
package c04

import (
	"crypto/cipher"
	"fmt"
	"strings"

	"github.com/emmansun/gmsm/sm4"

	"verif/engine"
	"verif/ref/aeadref"
	"verif/ref/sm4ref"
)

type Prop struct{}

func (Prop) ID() string    { return "C04" }
func (Prop) Level() string { return "exploration" }
func (Prop) Configs(tier string) []string {
	// c-default: fused asm GCM (AVX2 8-block SM4); c-noavx2 / c-sse: the AVX / SSE bodies of the same asm;
	// c-nopclmul: table-driven GHASH over the asm block (sm4CipherAsm.NewGCM); c-noaes and c-purego: Go SM4
	// with the stdlib generic GCM; c-aesni1: single-block AES-NI SM4 for tag mask / CCM.
	// c-avxoff: AVX off with AVX2 still on (the cpu options do not cascade)
	return []string{"c-default", "c-noavx2", "c-sse", "c-nopclmul", "c-noaes", "c-aesni1", "c-purego", "c-avxoff"}
}
func (Prop) SelfTest() error { return aeadref.SelfTest() }

func (Prop) Rule() string {
	return "Call histories: eight AEAD objects (GCM and CCM of several sizes) each driven through a sequence of 16 (plaintext, AAD) sizes going up and down, twice, every Seal/Open compared with the reference; constructors must leave the key untouched. " +
		"E2, GCM: full product plaintext length (quick 0..223, thorough 0..600) x AAD length {0..33,63..65,127..129,8191..8193 (+143..145,255..257 thorough)} x " +
		"(nonce size, tag size) in {1..20,32,64,128}x{16} u {12}x{12..15} x Seal dst mode {nil, 5-byte prefix with exactly fitting capacity ending at a guard page, in place, prefix with too small capacity} " +
		"x Open dst mode (same four), for the AEAD the SM4 block selects itself (native) and for crypto/cipher's generic GCM over a wrapper hiding NewGCM/NewCTR (hidden; quick tier: AAD lengths {0,1,13,15,16,17,32,33,64,129,8192} only); " +
		"oracle: Seal output = reference ciphertext||tag, dst prefix untouched, inputs unmodified, Open(reference ciphertext) = plaintext with nil error; every slice handed to the library ends at a PROT_NONE page, " +
		"a fault on such a page (read or write past the end of the slice) is converted into a recoverable panic with debug.SetPanicOnFault and reported as access-past-end-of-slice without losing the rest of the case. " +
		"Counter wrap: for nonce sizes {16,17,18,19,20,32,64,128} the nonce is constructed (first block solved through GHASH linearity, H inverted by exponentiation) so that J0 = upper96 || low32 " +
		"for every low32 in 0xfffffff0..0xffffffff and two upper patterns (all ff, mixed), x every plaintext length of the tier x AAD {0,5}. " +
		"Long messages (thorough): 1023..1025, 4095..4097, 8191..8193. " +
		"CCM: nonce 7..13 x tag {4,6,..,16} x plaintext 0..80 x AAD {0,1,14,15,16,17,65278,65279,65280} (quick: the three 65 kB AADs only for plaintext {0,1,15,16,17,80}) x the same dst modes, native and hidden; " +
		"plus lengths around the counter byte carry {4079,4080,4081,4095,4096,4097,4112} and 65535. Constructors: every nonce size -2..40 / tag size -1..40 (GCM) and every (nonce 0..20, tag 0..20) pair (CCM) is accepted iff the standard admits it. " +
		"E3 tamper: for plaintext lengths {0,1,15,16,17,64,80} x AAD {0,1,16,20} x every (nonce,tag) size: every byte position of nonce, AAD, ciphertext, tag x {^01,^80} (thorough: the 9-value substitution set), " +
		"every truncation of ciphertext||tag and of AAD, one-byte extensions; Open with dst = prefix + spare capacity prefilled 0xAA and in place must return (nil, err) with the would-be output region all zero " +
		"(an acceptance is a violation only if the reference rejects the same input). Keys rotate deterministically over 4 SM4 keys (standard vector key, zero, ones, mixed). " +
		"distinct_nontrivial counts distinct (mode, variant, plaintext length, AAD length, nonce class) classes. " +
		"Widened dimensions (widen.go, widen2.go; 13 representative objects: GCM (12,16) (12,12) (12,13) (12,15) (16,16) (1,16) (13,16) (17,16), CCM (12,16) (7,4) (13,8) (8,10) (13,16); native and hidden): " +
		"capacity classes: Seal/Open with dst empty-without-capacity, prefix-without-capacity, prefix/empty/in-place with 1,15,16,17,64 spare dirty bytes behind the result (capacity ending at the guard page), capacity for the ciphertext but not the tag / one byte, dst = plaintext[:0] or ciphertext[:0] with too little capacity, x 18 plaintext lengths (24 thorough) x AAD {0,13,17}; " +
		"per call up to six single-byte corruptions opened with dst nil / empty / prefix+ample dirty / in place with stale bytes behind the tag: (nil, err), output zeroed, nonce/AAD/ciphertext arguments unchanged, and the repaired input in the same buffers opens. " +
		"Ownership: two Seal(nil)/Open(nil) results must not share memory with each other or with an argument; after the harness overwrites every returned slice (whole capacity) the other result is unchanged and a third call gives the same answer. " +
		"Record layouts: nonce, AAD and message carved from one array in all 6 orders, every slice's capacity reaching the end of the record, 24 stale bytes behind it: Seal/Open with dst elsewhere leave the whole record unchanged (also a failing Open), in-place Seal/Open with cap(dst) limited to the ciphertext||tag window write nowhere else; " +
		"the crypto/tls record shapes Seal(rec[:5], nonce, rec[5:], rec[:5]), Open(payload[:0], nonce, payload, rec[:5]) (also corrupted) and Open with the explicit nonce sitting in the record in front of the payload; 9 plaintext x 5 AAD lengths. " +
		"Constructor arguments: the key slice (ending at a guard page / inside a larger array) is overwritten with the next key, handed to the next sm4.NewCipher and finally filled with garbage; AEADs built before and after that, over blocks already used and over blocks never touched before, are compared with the reference of the key they were created with. " +
		"Ordered pairs: on one object all 60x60 ordered pairs of (15 (plaintext, AAD) sizes) x (Seal, Seal in place, Open, Open of a corrupted ciphertext), with a call on a second object under another key between the two. " +
		"Sweeps with the eight dst modes: GCM plaintext 224..420, 505..530, 639..641, 655..657 (thorough 601..1100) x AAD {0,13,20}; GCM AAD 34..300 (thorough ..1100) x plaintext {0,1,16,17,129}; GCM nonce sizes 21..31,33,47..49,63,65,127,129,143..145,255..257,1024; " +
		"CCM plaintext 81..300 (thorough ..1100) x AAD {0,5}; CCM AAD 0..100 (thorough ..300) and 65535..65537 x plaintext {0,1,16,17}. " +
		"The block's own NewGCM(nonceSize, tagSize) method for nonce {1,8,13,16,17,32} x tag 12..15 (pairs no crypto/cipher constructor requests; a refusal is accepted) with product and tamper oracles. " +
		"Contents: plaintext/AAD all zero, all ff, only the first / last bit of every block, only the first byte set x nonce all zero / all ff; nil versus empty dst, plaintext and AAD. " +
		"CCM length field: MaxLength() = 2^(8L)-1 for L = 2..7; with L = 2 Seal of 65536 bytes must not return, 65535 bytes match the reference, Open of 65536+tag bytes fails."
}

func (Prop) Assumptions() []string {
	return []string{
		"reference GCM/CCM written from SP 800-38D / RFC 3610 with bit-by-bit GHASH, anchored by the GCM specification AES test cases 1-6, RFC 3610 and SP 800-38C AES-CCM vectors, RFC 8998 / GB/T 36624 / GB/T 15852.3 SM4 vectors, the Go standard library's AES counter-wrap vectors and a cross-check against crypto/cipher AES-GCM",
		"reference SM4 is verif/ref/sm4ref (GB/T 32907 appendix vectors incl. 1,000,000 iterations)",
		"keys: 4 fixed SM4 keys rotated over the product (not the full key space); contents are fixed deterministic byte patterns",
		"dispatch tiers are those reachable on this amd64 host through GODEBUG=cpu.*=off, FORCE_SM4BLOCK_AESNI=1 and -tags purego; arm64 (NEON, SM4-NI), ppc64le and s390x assembly are not covered",
		"the implementation type actually selected in each configuration is recorded as an observed outcome / extra counter, it is not asserted",
		"calls that violate a documented precondition answered by a panic (wrong nonce length, inexact overlap, plaintext above the GCM/CCM length limit) are not enumerated; the one exception is CCM with a 13-byte nonce and a 65536-byte message, where the only requirement is that Seal does not return a ciphertext (RFC 3610 cannot encode that length)",
		"aliasing between dst and the additional data is only enumerated in the shape crypto/tls uses (the additional data is the untouched dst prefix); the spare capacity of dst is never made to overlap nonce, additional data or (other than exactly) the message",
		"the ownership, layout, constructor-argument and pair families use the 13 representative objects, not all 34+49 size pairs; sizes there are lists, not full ranges",
		"NewGCM called directly on the block with a nonce size other than 12 together with a truncated tag is outside what crypto/cipher 1.23 can request; it is enumerated because SP 800-38D defines those pairs, and a constructor error is accepted as an answer",
		"counter wrap is only constructed for nonce sizes >= 16 (a full free first block is needed); GCM plaintexts >= 2^32 blocks and CCM messages >= 64 KiB with 13-byte nonces are out of reach",
		"bytes of spare dst capacity beyond the returned slice are not constrained by the property and are not checked; writes past the slices handed to the library are caught by guard pages / canaries",
	}
}

// ---------------------------------------------------------------------------------------------

// plainBlock hides every fast-path interface (gcmAble, ctrAble, cbcEncAble, ...) of the wrapped block.
type plainBlock struct{ b cipher.Block }

func (p plainBlock) BlockSize() int          { return p.b.BlockSize() }
func (p plainBlock) Encrypt(dst, src []byte) { p.b.Encrypt(dst, src) }
func (p plainBlock) Decrypt(dst, src []byte) { p.b.Decrypt(dst, src) }

var variants = []string{"native", "hidden"}

var keyBytes = [][]byte{
	{0x01, 0x23, 0x45, 0x67, 0x89, 0xab, 0xcd, 0xef, 0xfe, 0xdc, 0xba, 0x98, 0x76, 0x54, 0x32, 0x10},
	make([]byte, 16),
	{0xff, 0xff, 0xff, 0xff, 0xff, 0xff, 0xff, 0xff, 0xff, 0xff, 0xff, 0xff, 0xff, 0xff, 0xff, 0xff},
	{0x3a, 0x91, 0x5c, 0xe7, 0x08, 0xb4, 0x6d, 0xf2, 0x80, 0x17, 0xc9, 0x2e, 0x55, 0xaa, 0x0f, 0xd3},
}

// keyset holds, per key, the reference block and the library block (plain and wrapped).
type keyset struct {
	ref []*sm4ref.Cipher
	lib [][2]cipher.Block // [key][variant]
}

func newKeyset() *keyset {
	ks := &keyset{}
	for _, k := range keyBytes {
		ks.ref = append(ks.ref, sm4ref.New(k))
		b, err := sm4.NewCipher(k)
		if err != nil {
			panic(err)
		}
		ks.lib = append(ks.lib, [2]cipher.Block{b, plainBlock{b}})
	}
	return ks
}

func typeName(v any) string { return strings.TrimPrefix(fmt.Sprintf("%T", v), "*") }

// fill writes a deterministic byte pattern (an LCG stream selected by seed; no random choice involved).
func fill(b []byte, seed uint32) {
	x := seed*2654435761 + 0x9e3779b9
	for i := range b {
		x = x*1664525 + 1013904223
		b[i] = byte(x >> 24)
	}
}

func filled(n int, seed uint32) []byte { b := make([]byte, n); fill(b, seed); return b }

// tail returns the last k bytes of a guard buffer: the slice ends at the PROT_NONE page and has capacity k.
func tail(g []byte, k int) []byte { return g[len(g)-k:] }

var prefix = []byte{0xd1, 0x5e, 0x07, 0xb2, 0x4c}

const spareFill = 0xAA

func allEq(b []byte, v byte) bool {
	for _, x := range b {
		if x != v {
			return false
		}
	}
	return true
}

func eq(a, b []byte) bool {
	if len(a) != len(b) {
		return false
	}
	for i := range a {
		if a[i] != b[i] {
			return false
		}
	}
	return true
}

func (Prop) Run(c *engine.Ctx) {
	runHistory(c)
	runGCM(c)
	runCCM(c)
	runWiden(c) // new cases come last: the indices (sharding) of the older cases stay what they were
}
