package c04

import (
	"crypto/cipher"
	"fmt"

	smcipher "github.com/emmansun/gmsm/cipher"

	"verif/engine"
	"verif/ref/aeadref"
)

func ccmCombos() []combo {
	var r []combo
	for ns := 7; ns <= 13; ns++ {
		for ts := 4; ts <= 16; ts += 2 {
			r = append(r, combo{ns, ts})
		}
	}
	return r
}

func ccmKP(variant int, a cipher.AEAD, cb combo) string {
	return "ccm/" + variants[variant] + ":" + typeName(a)
}

func newCCM(t *engine.T, b cipher.Block, vi int, cb combo) cipher.AEAD {
	a, err := smcipher.NewCCMWithNonceAndTagSize(b, cb.ns, cb.ts)
	if err != nil || a == nil {
		t.Fail("ccm/constructor/"+variants[vi]+"/valid-size-rejected", "NewCCMWithNonceAndTagSize(%d,%d): %v", cb.ns, cb.ts, err)
		return nil
	}
	if a.NonceSize() != cb.ns || a.Overhead() != cb.ts {
		t.Fail("ccm/constructor/"+variants[vi]+"/sizes", "%v: NonceSize()=%d Overhead()=%d", cb, a.NonceSize(), a.Overhead())
	}
	t.Outcome("impl/" + variants[vi] + ":" + typeName(a))
	return a
}

func runCCM(c *engine.Ctx) {
	quick := c.Quick()
	combos := ccmCombos()
	smallAAD := []int{0, 1, 14, 15, 16, 17}
	bigAAD := []int{0xfeff - 1, 0xfeff, 0xfeff + 1}
	bigPT := map[int]bool{0: true, 1: true, 15: true, 16: true, 17: true, 80: true}
	const maxPT = 80

	for vi := range variants {
		vi := vi
		c.Case("ccm/"+variants[vi]+"/constructors", func(t *engine.T) {
			ks := newKeyset()
			b := ks.lib[0][vi]
			for ns := -1; ns <= 20; ns++ {
				for ts := -1; ts <= 20; ts++ {
					a, err := smcipher.NewCCMWithNonceAndTagSize(b, ns, ts)
					t.Eval(1)
					valid := aeadref.CCMValid(ns, ts)
					if valid && (err != nil || a == nil || a.NonceSize() != ns || a.Overhead() != ts) {
						t.Fail("ccm/constructor/"+variants[vi]+"/valid-size-rejected", "NewCCMWithNonceAndTagSize(%d,%d): %v", ns, ts, err)
					}
					if !valid && err == nil {
						t.Fail("ccm/constructor/"+variants[vi]+"/invalid-size-accepted", "NewCCMWithNonceAndTagSize(%d,%d) succeeded", ns, ts)
					}
					t.Outcome(fmt.Sprint("ccm-ctor-ok=", err == nil))
				}
			}
			// the convenience constructors
			for ns := -1; ns <= 20; ns++ {
				a, err := smcipher.NewCCMWithNonceSize(b, ns)
				t.Eval(1)
				valid := aeadref.CCMValid(ns, 16)
				if valid && (err != nil || a.NonceSize() != ns || a.Overhead() != 16) || !valid && err == nil {
					t.Fail("ccm/constructor/"+variants[vi]+"/NewCCMWithNonceSize", "NewCCMWithNonceSize(%d): err=%v, valid=%v", ns, err, valid)
				}
			}
			for ts := -1; ts <= 20; ts++ {
				a, err := smcipher.NewCCMWithTagSize(b, ts)
				t.Eval(1)
				valid := aeadref.CCMValid(12, ts)
				if valid && (err != nil || a.NonceSize() != 12 || a.Overhead() != ts) || !valid && err == nil {
					t.Fail("ccm/constructor/"+variants[vi]+"/NewCCMWithTagSize", "NewCCMWithTagSize(%d): err=%v, valid=%v", ts, err, valid)
				}
			}
			if a, err := smcipher.NewCCM(b); err != nil || a.NonceSize() != 12 || a.Overhead() != 16 {
				t.Fail("ccm/constructor/"+variants[vi]+"/NewCCM", "NewCCM: %v", err)
			}
		})
	}

	// E2 product: one case per (variant, nonce size, tag size)
	product := func(name string, vi int, cb combo, ci int, ptLens []int, aadFor func(n int) []int, maxAAD int) {
		c.Case(name, func(t *engine.T) {
			ks := newKeyset()
			aeads := make([]cipher.AEAD, len(keyBytes))
			for k := range aeads {
				aeads[k] = newCCM(t, ks.lib[k][vi], vi, cb)
				if aeads[k] == nil {
					return
				}
			}
			if ci == 0 {
				t.Extra("ccm_impl["+t.Config()+"/"+variants[vi]+"]="+typeName(aeads[0]), 1)
			}
			mx := 0
			for _, n := range ptLens {
				if n > mx {
					mx = n
				}
			}
			w := newWork(mx, 13, maxAAD)
			defer w.release(t, "ccm/"+variants[vi])
			gPT := w.get("plaintext", mx)
			fill(w.aad, uint32(600+cb.ns*17+cb.ts))
			aadMaster := append([]byte{}, w.aad...)
			for _, n := range ptLens {
				pt := tail(gPT, n)
				fill(pt, uint32(2000+n))
				ptCopy := append([]byte{}, pt...)
				nonce := tail(w.nonce, cb.ns)
				fill(nonce, uint32(9000+n*13+cb.ns))
				nonceCopy := append([]byte{}, nonce...)
				for ai, al := range aadFor(n) {
					key := (n + ai + ci) % len(keyBytes)
					a := aeads[key]
					aad := tail(w.aad, al)
					want, err := aeadref.CCMSeal(ks.ref[key], nonce, pt, aad, cb.ts)
					if err != nil {
						panic("harness: " + err.Error())
					}
					info := &callInfo{kp: ccmKP(vi, a, cb), nonce: nonce, aad: aad, want: want, pt: pt, ts: cb.ts}
					t.Guard(info.kp, func() {
						w.sealAll(t, a, info)
						w.openAll(t, a, info)
					})
					t.Nontrivial("ccm/" + variants[vi] + "/" + itoa(n) + "/" + itoa(al) + "/" + cb.String())
					if !eq(pt, ptCopy) || !eq(w.aad, aadMaster) || !eq(nonce, nonceCopy) {
						t.Fail(info.kp+"/input-modified", "%s: plaintext, nonce or additional data argument was modified", info.describe())
						copy(pt, ptCopy)
						copy(w.aad, aadMaster)
						copy(nonce, nonceCopy)
					}
					if n == 17 && al == 14 && cb.ns == 12 && cb.ts == 8 {
						t.Sample(map[string]any{"mode": "ccm", "variant": variants[vi], "impl": typeName(a), "config": t.Config(), "key": engine.Hex(keyBytes[key]),
							"nonce": engine.Hex(nonce), "pt_len": n, "aad_len": al, "sealed": engine.Hex(want)})
					}
				}
			}
			t.Outcome("ccm/seal+open-checked")
		})
	}
	var ptAll []int
	for n := 0; n <= maxPT; n++ {
		ptAll = append(ptAll, n)
	}
	aadFor := func(n int) []int {
		r := append([]int{}, smallAAD...)
		if !quick || bigPT[n] {
			r = append(r, bigAAD...)
		}
		return r
	}
	for vi := range variants {
		for ci, cb := range combos {
			product(fmt.Sprintf("ccm/%s/%v", variants[vi], cb), vi, cb, ci, ptAll, aadFor, bigAAD[2])
		}
	}
	// messages around the point where the block counter needs a second byte (block 256 starts at byte 4080), and the
	// longest message a 2-byte length field admits
	long := []int{4079, 4080, 4081, 4095, 4096, 4097, 4112, 65535}
	longCombos := []combo{{7, 4}, {12, 16}, {13, 8}, {13, 16}}
	for vi := range variants {
		for ci, cb := range longCombos {
			product(fmt.Sprintf("ccm/%s/long/%v", variants[vi], cb), vi, cb, ci, long, func(int) []int { return []int{0, 17} }, 17)
		}
	}

	// E3 tamper
	tamperPT := []int{0, 1, 15, 16, 17, 64, 80}
	tamperAAD := []int{0, 1, 16, 20}
	for vi := range variants {
		for ci, cb := range combos {
			vi, ci, cb := vi, ci, cb
			c.Case(fmt.Sprintf("ccm-tamper/%s/%v", variants[vi], cb), func(t *engine.T) {
				ks := newKeyset()
				w := newWork(81, 13, 21)
				defer w.release(t, "ccm/"+variants[vi])
				for pi, n := range tamperPT {
					for ai, al := range tamperAAD {
						key := (pi + ai + ci) % len(keyBytes)
						a := newCCM(t, ks.lib[key][vi], vi, cb)
						if a == nil {
							return
						}
						pt := filled(n, uint32(40+n))
						nonce := tail(w.nonce, cb.ns)
						fill(nonce, uint32(cb.ns*7+n))
						aad := tail(w.aad, al)
						fill(aad, uint32(al+3))
						ct, err := aeadref.CCMSeal(ks.ref[key], nonce, pt, aad, cb.ts)
						if err != nil {
							panic("harness: " + err.Error())
						}
						info := &callInfo{kp: ccmKP(vi, a, cb), nonce: nonce, aad: aad, want: ct, pt: pt, ts: cb.ts}
						tp := &tamperer{w: w, t: t, a: a, kp: info.kp, ts: cb.ts, ci: info,
							refOpen: func(nn, cc, aa []byte) bool { _, ok, _ := aeadref.CCMOpen(ks.ref[key], nn, cc, aa, cb.ts); return ok }}
						t.Guard(info.kp+"/tamper", func() { tp.all(nonce, aad, ct, !quick) })
						t.Nontrivial("ccm-tamper/" + variants[vi] + "/" + itoa(n) + "/" + itoa(al) + "/" + cb.String())
					}
				}
			})
		}
	}
}
