package c04

import (
	"crypto/cipher"
	"fmt"

	"verif/engine"
	"verif/ref/aeadref"
)

type combo struct{ ns, ts int }

func (cb combo) String() string { return fmt.Sprintf("nonce=%d,tag=%d", cb.ns, cb.ts) }

// gcmCombos: the two families the crypto/cipher constructors admit.
func gcmCombos() []combo {
	var r []combo
	for ns := 1; ns <= 20; ns++ {
		r = append(r, combo{ns, 16})
	}
	r = append(r, combo{32, 16}, combo{64, 16}, combo{128, 16})
	for ts := 12; ts <= 15; ts++ {
		r = append(r, combo{12, ts})
	}
	return r
}

func newGCM(b cipher.Block, cb combo) (cipher.AEAD, error) {
	switch {
	case cb.ns == 12 && cb.ts == 16:
		return cipher.NewGCM(b)
	case cb.ts == 16:
		return cipher.NewGCMWithNonceSize(b, cb.ns)
	case cb.ns == 12:
		return cipher.NewGCMWithTagSize(b, cb.ts)
	}
	return nil, fmt.Errorf("no crypto/cipher constructor for %v", cb)
}

func gcmAADLens(quick bool) []int {
	var r []int
	for i := 0; i <= 33; i++ {
		r = append(r, i)
	}
	r = append(r, 63, 64, 65, 127, 128, 129)
	if !quick {
		r = append(r, 143, 144, 145, 255, 256, 257)
	}
	return append(r, 8191, 8192, 8193)
}

func nonceClass(ns int) string {
	switch {
	case ns == 12:
		return "12"
	case ns < 16:
		return "lt16"
	default:
		return "ge16"
	}
}

// gcmSet lazily builds the AEAD objects of one case: [key][combo].
type gcmSet struct {
	ks      *keyset
	variant int
	m       map[[3]int]cipher.AEAD
}

func (g *gcmSet) get(t *engine.T, key int, cb combo) cipher.AEAD {
	id := [3]int{key, cb.ns, cb.ts}
	if a, ok := g.m[id]; ok {
		return a
	}
	a, err := newGCM(g.ks.lib[key][g.variant], cb)
	if err != nil {
		t.Fail("gcm/constructor/"+variants[g.variant]+"/valid-size-rejected", "%v: %v", cb, err)
		a = nil
	} else {
		if a.NonceSize() != cb.ns || a.Overhead() != cb.ts {
			t.Fail("gcm/constructor/"+variants[g.variant]+"/sizes", "%v: NonceSize()=%d Overhead()=%d", cb, a.NonceSize(), a.Overhead())
		}
		tn := typeName(a)
		t.Outcome("impl/" + variants[g.variant] + ":" + tn)
		if key == 0 && cb.ns == 12 && cb.ts == 16 {
			t.Extra("gcm_impl["+t.Config()+"/"+variants[g.variant]+"]="+tn, 1)
		}
	}
	g.m[id] = a
	return a
}

// gcmKP is the finding-key prefix: variant, implementation type, nonce class, tag class.
func gcmKP(variant int, a cipher.AEAD, ncls string, ts int) string {
	tc := "/tag=16"
	if ts < 16 {
		tc = "/tag=12..15"
	}
	return "gcm/" + variants[variant] + ":" + typeName(a) + "/nonce=" + ncls + tc
}

func runGCM(c *engine.Ctx) {
	quick := c.Quick()
	maxPT := 223
	if !quick {
		maxPT = 600
	}
	combos := gcmCombos()
	aadLens := gcmAADLens(quick)
	maxAAD := aadLens[len(aadLens)-1]

	// constructors: every other size is an error
	for vi := range variants {
		vi := vi
		c.Case("gcm/"+variants[vi]+"/constructors", func(t *engine.T) {
			ks := newKeyset()
			b := ks.lib[0][vi]
			for ns := -2; ns <= 40; ns++ {
				a, err := cipher.NewGCMWithNonceSize(b, ns)
				t.Eval(1)
				if ns >= 1 && (err != nil || a == nil || a.NonceSize() != ns || a.Overhead() != 16) {
					t.Fail("gcm/constructor/"+variants[vi]+"/valid-size-rejected", "NewGCMWithNonceSize(%d): %v", ns, err)
				}
				if ns < 1 && err == nil {
					t.Fail("gcm/constructor/"+variants[vi]+"/invalid-nonce-size-accepted", "NewGCMWithNonceSize(%d) succeeded", ns)
				}
				t.Outcome(fmt.Sprint("ctor-nonce-ok=", err == nil))
			}
			for ts := -1; ts <= 40; ts++ {
				a, err := cipher.NewGCMWithTagSize(b, ts)
				t.Eval(1)
				valid := ts >= 12 && ts <= 16
				if valid && (err != nil || a == nil || a.NonceSize() != 12 || a.Overhead() != ts) {
					t.Fail("gcm/constructor/"+variants[vi]+"/valid-size-rejected", "NewGCMWithTagSize(%d): %v", ts, err)
				}
				if !valid && err == nil {
					t.Fail("gcm/constructor/"+variants[vi]+"/invalid-tag-size-accepted", "NewGCMWithTagSize(%d) succeeded", ts)
				}
				t.Outcome(fmt.Sprint("ctor-tag-ok=", err == nil))
			}
		})
	}

	// E2 main product: one case per (variant, plaintext length)
	product := func(name string, vi int, ptLens []int, aadLens []int, combos []combo) {
		c.Case(name, func(t *engine.T) {
			ks := newKeyset()
			set := &gcmSet{ks: ks, variant: vi, m: map[[3]int]cipher.AEAD{}}
			mx := 0
			for _, n := range ptLens {
				if n > mx {
					mx = n
				}
			}
			w := newWork(mx, 128, maxAAD)
			defer w.release(t, "gcm/"+variants[vi])
			gPT := w.get("plaintext", mx)
			for _, n := range ptLens {
				pt := tail(gPT, n)
				fill(pt, uint32(1000+n))
				ptCopy := append([]byte{}, pt...)
				fill(w.aad, uint32(77+n))
				aadMaster := append([]byte{}, w.aad...)
				fill(w.nonce, uint32(5000+n))
				nonceMaster := append([]byte{}, w.nonce...)
				for ai, al := range aadLens {
					aad := tail(w.aad, al)
					for ci, cb := range combos {
						key := (n + ai + ci) % len(keyBytes)
						a := set.get(t, key, cb)
						if a == nil {
							continue
						}
						nonce := tail(w.nonce, cb.ns)
						want := aeadref.GCMSeal(ks.ref[key], nonce, pt, aad, cb.ts)
						info := &callInfo{kp: gcmKP(vi, a, nonceClass(cb.ns), cb.ts), nonce: nonce, aad: aad, want: want, pt: pt, ts: cb.ts}
						t.Guard(info.kp, func() {
							w.sealAll(t, a, info)
							w.openAll(t, a, info)
						})
						t.Nontrivial("gcm/" + variants[vi] + "/" + itoa(n) + "/" + itoa(al) + "/" + nonceClass(cb.ns))
						if !eq(pt, ptCopy) || !eq(w.aad, aadMaster) || !eq(w.nonce, nonceMaster) {
							t.Fail(info.kp+"/input-modified", "%s: plaintext, nonce or additional data argument was modified", info.describe())
							copy(pt, ptCopy)
							copy(w.aad, aadMaster)
							copy(w.nonce, nonceMaster)
						}
						if n == 17 && al == 13 && cb.ns == 12 && cb.ts == 16 {
							t.Sample(map[string]any{"mode": "gcm", "variant": variants[vi], "impl": typeName(a), "config": t.Config(), "key": engine.Hex(keyBytes[key]),
								"nonce": engine.Hex(nonce), "pt_len": n, "aad_len": al, "sealed": engine.Hex(want)})
						}
					}
				}
				t.Outcome("gcm/seal+open-checked")
			}
		})
	}
	for vi := range variants {
		al := aadLens
		if quick && variants[vi] == "hidden" {
			// the stdlib generic composition is also what "native" selects in c-noaes / c-purego; quick tier: fewer AAD lengths
			al = []int{0, 1, 13, 15, 16, 17, 32, 33, 64, 129, 8192}
		}
		for n := 0; n <= maxPT; n++ {
			product(fmt.Sprintf("gcm/%s/pt=%d", variants[vi], n), vi, []int{n}, al, combos)
		}
	}
	if !quick {
		long := []int{1023, 1024, 1025, 4095, 4096, 4097, 8191, 8192, 8193}
		for vi := range variants {
			for _, n := range long {
				product(fmt.Sprintf("gcm/%s/long/pt=%d", variants[vi], n), vi, []int{n}, []int{0, 13, 16, 8192},
					[]combo{{12, 16}, {12, 12}, {16, 16}, {1, 16}, {17, 16}})
			}
		}
	}

	// counter wrap: nonce constructed so that J0 = upper || low32, low32 in 0xfffffff0..0xffffffff
	uppers := [][]byte{
		{0xff, 0xff, 0xff, 0xff, 0xff, 0xff, 0xff, 0xff, 0xff, 0xff, 0xff, 0xff},
		{0x6b, 0x00, 0xfe, 0x81, 0x7f, 0xff, 0xff, 0xff, 0x12, 0xff, 0xff, 0xfe},
	}
	chunk := 75
	for vi := range variants {
		for _, ns := range []int{16, 17, 18, 19, 20, 32, 64, 128} {
			for ui := range uppers {
				for from := 0; from <= maxPT; from += chunk {
					vi, ns, ui, from := vi, ns, ui, from
					to := from + chunk - 1
					if to > maxPT {
						to = maxPT
					}
					c.Case(fmt.Sprintf("gcm-wrap/%s/nonce=%d/upper=%d/pt=%d..%d", variants[vi], ns, ui, from, to), func(t *engine.T) {
						ks := newKeyset()
						set := &gcmSet{ks: ks, variant: vi, m: map[[3]int]cipher.AEAD{}}
						w := newWork(to, 128, 16)
						defer w.release(t, "gcm/"+variants[vi])
						gPT := w.get("plaintext", to)
						fill(w.aad, 99)
						// the 16 nonces per key
						type nk struct {
							nonce []byte
							j0    [16]byte
						}
						var nonces [][]nk
						for key := range keyBytes {
							var row []nk
							for low := 0; low < 16; low++ {
								var j0 [16]byte
								copy(j0[:], uppers[ui])
								j0[12], j0[13], j0[14], j0[15] = 0xff, 0xff, 0xff, byte(0xf0+low)
								nn, err := aeadref.GCMNonceForJ0(ks.ref[key], j0, filled(ns-16, uint32(ns*31+low)))
								if err != nil {
									panic("harness: " + err.Error())
								}
								row = append(row, nk{nn, j0})
							}
							nonces = append(nonces, row)
						}
						for n := from; n <= to; n++ {
							pt := tail(gPT, n)
							fill(pt, uint32(3000+n))
							for low := 0; low < 16; low++ {
								for _, al := range []int{0, 5} {
									key := (n + low + al) % len(keyBytes)
									a := set.get(t, key, combo{ns, 16})
									if a == nil {
										continue
									}
									nonce := tail(w.nonce, ns)
									copy(nonce, nonces[key][low].nonce)
									aad := tail(w.aad, al)
									want := aeadref.GCMSeal(ks.ref[key], nonce, pt, aad, 16)
									info := &callInfo{kp: gcmKP(vi, a, "wrap", 16), nonce: nonce, aad: aad, want: want, pt: pt, ts: 16}
									t.Guard(info.kp, func() {
										w.sealAll(t, a, info)
										w.openAll(t, a, info)
									})
									t.Nontrivial("gcm-wrap/" + variants[vi] + "/" + itoa(n) + "/" + itoa(ns) + "/" + itoa(low))
									if n == 40 && low == 14 && al == 0 && ns == 16 {
										t.Sample(map[string]any{"mode": "gcm-wrap", "variant": variants[vi], "impl": typeName(a), "config": t.Config(), "key": engine.Hex(keyBytes[key]),
											"constructed_nonce": engine.Hex(nonce), "J0": engine.Hex(nonces[key][low].j0[:]), "pt_len": n, "sealed": engine.Hex(want)})
									}
								}
							}
						}
						t.Outcome("gcm/wrap-checked")
					})
				}
			}
		}
	}

	// E3 tamper: one case per (variant, nonce size, tag size)
	tamperPT := []int{0, 1, 15, 16, 17, 64, 80}
	tamperAAD := []int{0, 1, 16, 20}
	for vi := range variants {
		for ci, cb := range combos {
			vi, ci, cb := vi, ci, cb
			c.Case(fmt.Sprintf("gcm-tamper/%s/%v", variants[vi], cb), func(t *engine.T) {
				ks := newKeyset()
				set := &gcmSet{ks: ks, variant: vi, m: map[[3]int]cipher.AEAD{}}
				w := newWork(81, 128, 21)
				defer w.release(t, "gcm/"+variants[vi])
				for pi, n := range tamperPT {
					for ai, al := range tamperAAD {
						key := (pi + ai + ci) % len(keyBytes)
						a := set.get(t, key, cb)
						if a == nil {
							continue
						}
						pt := filled(n, uint32(40+n))
						nonce := tail(w.nonce, cb.ns)
						fill(nonce, uint32(cb.ns*7+n))
						aad := tail(w.aad, al)
						fill(aad, uint32(al+3))
						ct := aeadref.GCMSeal(ks.ref[key], nonce, pt, aad, cb.ts)
						info := &callInfo{kp: gcmKP(vi, a, nonceClass(cb.ns), cb.ts), nonce: nonce, aad: aad, want: ct, pt: pt, ts: cb.ts}
						tp := &tamperer{w: w, t: t, a: a, kp: info.kp, ts: cb.ts, ci: info,
							refOpen: func(nn, cc, aa []byte) bool { _, ok := aeadref.GCMOpen(ks.ref[key], nn, cc, aa, cb.ts); return ok }}
						t.Guard(info.kp+"/tamper", func() { tp.all(nonce, aad, ct, !quick) })
						t.Nontrivial("gcm-tamper/" + variants[vi] + "/" + itoa(n) + "/" + itoa(al) + "/" + cb.String())
					}
				}
			})
		}
	}
}
