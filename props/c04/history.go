package c04

// Call histories on ONE AEAD object with sizes going up and down (a scratch buffer that is pooled, cached on the
// object or sized by an earlier call shows only when a later call is shorter / differently aligned than an earlier
// one), and constructors that must leave the caller's key untouched and be independent of each other.

import (
	"bytes"
	"crypto/cipher"
	"fmt"

	smcipher "github.com/emmansun/gmsm/cipher"
	"github.com/emmansun/gmsm/sm4"

	"verif/engine"
	"verif/ref/aeadref"
	"verif/ref/sm4ref"
)

var histSizes = [][2]int{{223, 33}, {5, 0}, {160, 8192}, {17, 1}, {64, 64}, {0, 0}, {33, 129}, {1, 8193}, {222, 0}, {16, 16}, {129, 5}, {15, 8191}, {128, 0}, {3, 3}}

func runHistory(c *engine.Ctx) {
	for vi := range variants {
		vi := vi
		c.Case("history/"+variants[vi]+"/one-aead-object-sizes-up-and-down", func(t *engine.T) {
			key := append([]byte{}, keyBytes[0]...)
			key0 := append([]byte{}, key...)
			b, err := sm4.NewCipher(key)
			if err != nil {
				t.Fail("history/constructor-error", "%v", err)
				return
			}
			var blk cipher.Block = b
			if vi == 1 {
				blk = plainBlock{b}
			}
			ref := sm4ref.New(key0)
			type obj struct {
				name   string
				a      cipher.AEAD
				ns, ts int
				ccm    bool
			}
			var objs []obj
			for _, cb := range []combo{{12, 16}, {12, 12}, {16, 16}, {1, 16}, {12, 13}} {
				a, err := newGCM(blk, cb)
				if err == nil {
					objs = append(objs, obj{fmt.Sprintf("gcm(%v)", cb), a, cb.ns, cb.ts, false})
				}
			}
			for _, cb := range []combo{{12, 16}, {7, 4}, {13, 8}} {
				a, err := smcipher.NewCCMWithNonceAndTagSize(blk, cb.ns, cb.ts)
				if err == nil {
					objs = append(objs, obj{fmt.Sprintf("ccm(%v)", cb), a, cb.ns, cb.ts, true})
				}
			}
			if !bytes.Equal(key, key0) {
				t.Fail("history/constructor-modifies-key", "sm4.NewCipher / AEAD constructors changed the caller's key %x -> %x", key0, key)
			}
			// the objects are used in turn, each through the whole size sequence, forwards then backwards
			seq := append(append([][2]int{}, histSizes...), histSizes[1], histSizes[0])
			for round := 0; round < 2; round++ {
				for si, sz := range seq {
					for _, o := range objs {
						pt, aad, nonce := filled(sz[0], uint32(31+si)), filled(sz[1], uint32(97+si)), filled(o.ns, uint32(7+si+round))
						var want []byte
						if o.ccm {
							w, err := aeadref.CCMSeal(ref, nonce, pt, aad, o.ts)
							if err != nil {
								continue
							}
							want = w
						} else {
							want = aeadref.GCMSeal(ref, nonce, pt, aad, o.ts)
						}
						var got, back []byte
						var oerr error
						kp := "history/" + variants[vi] + ":" + typeName(o.a)
						if t.Guard(kp, func() { got = o.a.Seal(nil, nonce, pt, aad); back, oerr = o.a.Open(nil, nonce, want, aad) }) {
							continue
						}
						t.Eval(2)
						if !bytes.Equal(got, want) {
							t.Fail(kp+"/seal-depends-on-earlier-calls", "%s call #%d of the sequence (pt %d, aad %d bytes): Seal differs from the reference at byte %d", o.name, si, sz[0], sz[1], engine.FirstDiff(got, want))
						}
						if oerr != nil || !bytes.Equal(back, pt) {
							t.Fail(kp+"/open-depends-on-earlier-calls", "%s call #%d (pt %d, aad %d bytes): Open of the reference ciphertext: err=%v", o.name, si, sz[0], sz[1], oerr)
						}
						t.Nontrivial(fmt.Sprintf("history/%s/%s/%d/%d", variants[vi], o.name, si, round))
					}
				}
			}
			t.Outcome("history/" + variants[vi])
		})
	}
}
