package c04

// Input dimensions added after the review of the seeded changes (DESIGN §11.4): capacity classes of the
// destination with dirty spare bytes, ownership of returned slices, record layouts (arguments carved from one
// array, the TLS record shapes), input integrity around failing Open calls. The second half is in widen2.go.
//
// All oracles are the ones of the main product: Seal output = reference ciphertext||tag appended to dst,
// Open(reference ciphertext) = plaintext, a failing Open returns (nil, err) with the would-be output zeroed —
// plus what they plainly imply: the library writes nowhere but into the destination it was given, the same call
// gives the same answer, returned memory belongs to the caller.

import (
	"crypto/cipher"
	"fmt"
	"unsafe"

	"verif/engine"
	"verif/ref/aeadref"
	"verif/ref/sm4ref"
)

// ospec names one AEAD object kind.
type ospec struct {
	ccm bool
	cb  combo
}

func (s ospec) String() string {
	if s.ccm {
		return "ccm(" + s.cb.String() + ")"
	}
	return "gcm(" + s.cb.String() + ")"
}

// repSpecs: the representative objects of the widened families: the 12-byte nonce fast path, truncated tags
// (scratch-buffer branch of the fused GCM), GHASH-derived counters below / at / above one block, the 13-byte
// nonce (the "TLS" special case of the GHASH data routine), and CCM with L = 8, 7, 3, 2.
var repSpecs = []ospec{
	{false, combo{12, 16}}, {false, combo{12, 12}}, {false, combo{12, 13}}, {false, combo{12, 15}},
	{false, combo{16, 16}}, {false, combo{1, 16}}, {false, combo{13, 16}}, {false, combo{17, 16}},
	{true, combo{12, 16}}, {true, combo{7, 4}}, {true, combo{13, 8}}, {true, combo{8, 10}}, {true, combo{13, 16}},
}

// wobj is one library AEAD with its reference.
type wobj struct {
	sp  ospec
	a   cipher.AEAD
	ref *sm4ref.Cipher
	kp  string
}

func (o *wobj) refSeal(nonce, pt, aad []byte) []byte {
	if o.sp.ccm {
		w, err := aeadref.CCMSeal(o.ref, nonce, pt, aad, o.sp.cb.ts)
		if err != nil {
			panic("harness: " + err.Error())
		}
		return w
	}
	return aeadref.GCMSeal(o.ref, nonce, pt, aad, o.sp.cb.ts)
}

func (o *wobj) refOpens(nonce, ct, aad []byte) bool {
	if o.sp.ccm {
		_, ok, _ := aeadref.CCMOpen(o.ref, nonce, ct, aad, o.sp.cb.ts)
		return ok
	}
	_, ok := aeadref.GCMOpen(o.ref, nonce, ct, aad, o.sp.cb.ts)
	return ok
}

// buildOn constructs the library object of a spec over blk (reference block ref).
func buildOn(t *engine.T, vi int, blk cipher.Block, ref *sm4ref.Cipher, sp ospec) *wobj {
	if sp.ccm {
		a := newCCM(t, blk, vi, sp.cb)
		if a == nil {
			return nil
		}
		return &wobj{sp: sp, a: a, ref: ref, kp: ccmKP(vi, a, sp.cb)}
	}
	a, err := newGCM(blk, sp.cb)
	if err != nil || a == nil {
		t.Fail("gcm/constructor/"+variants[vi]+"/valid-size-rejected", "%v: %v", sp.cb, err)
		return nil
	}
	t.Outcome("impl/" + variants[vi] + ":" + typeName(a))
	return &wobj{sp: sp, a: a, ref: ref, kp: gcmKP(vi, a, nonceClass(sp.cb.ns), sp.cb.ts)}
}

// objCache builds the object of one spec lazily per key.
type objCache struct {
	t  *engine.T
	ks *keyset
	vi int
	sp ospec
	m  map[int]*wobj
}

func newObjCache(t *engine.T, vi int, sp ospec) *objCache {
	return &objCache{t: t, ks: newKeyset(), vi: vi, sp: sp, m: map[int]*wobj{}}
}

func (oc *objCache) get(key int) *wobj {
	if o, ok := oc.m[key]; ok {
		return o
	}
	o := buildOn(oc.t, oc.vi, oc.ks.lib[key][oc.vi], oc.ks.ref[key], oc.sp)
	oc.m[key] = o
	return o
}

// dirty fills b with a byte pattern that is neither zero nor the canary value (stale caller data).
func dirty(b []byte, seed int) {
	for i := range b {
		v := byte(0x5b + 7*i + 13*seed)
		if v == 0 || v == spareFill {
			v = 0x77
		}
		b[i] = v
	}
}

// overlapCap reports whether the full capacities of a and b share memory.
func overlapCap(a, b []byte) bool {
	a, b = a[:cap(a)], b[:cap(b)]
	if len(a) == 0 || len(b) == 0 {
		return false
	}
	a0, b0 := uintptr(unsafe.Pointer(&a[0])), uintptr(unsafe.Pointer(&b[0]))
	return a0 < b0+uintptr(len(b)) && b0 < a0+uintptr(len(a))
}

func runWiden(c *engine.Ctx) {
	runCaps(c)
	runOwnership(c)
	runLayout(c)
	runCtorArgs(c)
	runPairs(c)
	runSweeps(c)
	runDirect(c)
	runValues(c)
	runLimit(c)
	runWrapSweep(c)
	runBits(c)
}

// ---------------------------------------------------------------------------------------------
// capacity classes of dst, dirty spare capacity, failing Open in those classes, input integrity

func checkSealedCap(t *engine.T, ci *callInfo, mode string, ret, pre []byte) {
	want := ci.want
	k := ci.kp + "/seal(cap:" + mode + ")"
	if len(ret) != len(pre)+len(want) {
		t.Fail(k+"/length", "%s: Seal returned %d bytes, want %d+%d", ci.describe(), len(ret), len(pre), len(want))
		return
	}
	if !eq(ret[:len(pre)], pre) {
		t.Fail(k+"/prefix-modified", "%s: dst prefix %x became %x", ci.describe(), pre, ret[:len(pre)])
	}
	got := ret[len(pre):]
	if d := engine.FirstDiff(got, want); d >= 0 {
		what := "ct-mismatch"
		if d >= len(want)-ci.ts {
			what = "tag-mismatch"
		}
		t.Fail(k+"/"+what, "%s: first difference at byte %d (tag starts at %d); got %s want %s", ci.describe(), d, len(want)-ci.ts, engine.Hex(got), engine.Hex(want))
	}
}

func checkOpenedCap(t *engine.T, ci *callInfo, mode string, ret []byte, err error, pre []byte) {
	k := ci.kp + "/open(cap:" + mode + ")"
	if err != nil {
		t.Fail(k+"/rejected", "%s: Open of the reference ciphertext failed: %v", ci.describe(), err)
		return
	}
	if len(ret) != len(pre)+len(ci.pt) {
		t.Fail(k+"/length", "%s: Open returned %d bytes, want %d+%d", ci.describe(), len(ret), len(pre), len(ci.pt))
		return
	}
	if !eq(ret[:len(pre)], pre) {
		t.Fail(k+"/prefix-modified", "%s: dst prefix %x became %x", ci.describe(), pre, ret[:len(pre)])
	}
	if d := engine.FirstDiff(ret[len(pre):], ci.pt); d >= 0 {
		t.Fail(k+"/plaintext-mismatch", "%s: first difference at byte %d; got %s want %s", ci.describe(), d, engine.Hex(ret[len(pre):]), engine.Hex(ci.pt))
	}
}

var capExtras = []int{1, 15, 16, 17, 64}

const maxExtra = 64

func (w *work) capSeal(t *engine.T, a cipher.AEAD, ci *callInfo) {
	n, ts := len(ci.pt), ci.ts
	key := ci.kp + "/seal"
	var ret []byte
	run := func(mode string, pre []byte, f func()) {
		if w.guarded(t, key, func() string { return ci.describe() + ", dst capacity class " + mode }, f) {
			checkSealedCap(t, ci, mode, ret, pre)
		}
		t.Eval(1)
	}
	outDone := func(mode string, k int) {
		if !canaryOK(w.out, k) {
			t.Fail(ci.kp+"/seal(cap:"+mode+")/write-before-dst", "%s: bytes in front of dst were modified", ci.describe())
		}
		refill(w.out, k)
	}
	// non-nil dst of length and capacity zero
	d0 := tail(w.out, 0)
	run("empty-nocap", nil, func() { ret = a.Seal(d0, ci.nonce, ci.pt, ci.aad) })
	outDone("empty-nocap", 0)
	// prefix without any spare capacity (the prefix ends at the guard page)
	reg := tail(w.out, len(prefix))
	copy(reg, prefix)
	run("prefix-nocap", prefix, func() { ret = a.Seal(reg, ci.nonce, ci.pt, ci.aad) })
	if !eq(reg, prefix) {
		t.Fail(ci.kp+"/seal(cap:prefix-nocap)/prefix-modified", "%s: the caller's dst[:len(dst)] %x became %x", ci.describe(), prefix, reg)
	}
	outDone("prefix-nocap", len(prefix))
	for _, ex := range capExtras {
		// prefix + more capacity than needed, spare bytes dirty
		k := len(prefix) + n + ts + ex
		reg := tail(w.out, k)
		copy(reg, prefix)
		dirty(reg[len(prefix):], ex)
		run("prefix-ample", prefix, func() { ret = a.Seal(reg[:len(prefix)], ci.nonce, ci.pt, ci.aad) })
		if !eq(reg[:len(prefix)], prefix) {
			t.Fail(ci.kp+"/seal(cap:prefix-ample)/prefix-modified", "%s: the caller's dst[:len(dst)] %x became %x", ci.describe(), prefix, reg[:len(prefix)])
		}
		outDone("prefix-ample", k)
		// empty dst with more capacity than needed
		k = n + ts + ex
		reg = tail(w.out, k)
		dirty(reg, ex+1)
		run("empty-ample", nil, func() { ret = a.Seal(reg[:0], ci.nonce, ci.pt, ci.aad) })
		outDone("empty-ample", k)
		// in place, buffer longer than plaintext+tag
		buf := tail(w.ip, k)
		copy(buf, ci.pt)
		dirty(buf[n:], ex+2)
		run("inplace-ample", nil, func() { ret = a.Seal(buf[:0], ci.nonce, buf[:n], ci.aad) })
		if !canaryOK(w.ip, k) {
			t.Fail(ci.kp+"/seal(cap:inplace-ample)/write-before-dst", "%s: bytes in front of the buffer were modified", ci.describe())
		}
		refill(w.ip, k)
	}
	// capacity for the ciphertext but not for the tag; capacity for one byte
	for _, c := range []int{len(prefix) + n, len(prefix) + 1} {
		if c >= len(prefix)+n+ts {
			continue
		}
		d := make([]byte, len(prefix), c)
		copy(d, prefix)
		dirty(d[len(prefix):c], c)
		run("prefix-short", prefix, func() { ret = a.Seal(d, ci.nonce, ci.pt, ci.aad) })
		if !eq(d, prefix) {
			t.Fail(ci.kp+"/seal(cap:prefix-short)/prefix-modified", "%s: the caller's dst[:len(dst)] %x became %x", ci.describe(), prefix, d)
		}
	}
	// dst = plaintext[:0] whose capacity ends with the plaintext: the result has to move to a new array
	if n > 0 {
		buf := tail(w.ip, n)
		copy(buf, ci.pt)
		run("inplace-nocap", nil, func() { ret = a.Seal(buf[:0], ci.nonce, buf, ci.aad) })
		if !canaryOK(w.ip, n) {
			t.Fail(ci.kp+"/seal(cap:inplace-nocap)/write-before-dst", "%s: bytes in front of the buffer were modified", ci.describe())
		}
		refill(w.ip, n)
	}
}

func (w *work) capOpen(t *engine.T, a cipher.AEAD, ci *callInfo) {
	n, ts := len(ci.pt), ci.ts
	src := tail(w.ct, n+ts)
	copy(src, ci.want)
	key := ci.kp + "/open"
	var ret []byte
	var err error
	run := func(mode string, pre []byte, f func()) {
		if w.guarded(t, key, func() string { return ci.describe() + ", dst capacity class " + mode }, f) {
			checkOpenedCap(t, ci, mode, ret, err, pre)
		}
		t.Eval(1)
	}
	outDone := func(mode string, k int) {
		if !canaryOK(w.out, k) {
			t.Fail(ci.kp+"/open(cap:"+mode+")/write-before-dst", "%s: bytes in front of dst were modified", ci.describe())
		}
		refill(w.out, k)
	}
	d0 := tail(w.out, 0)
	run("empty-nocap", nil, func() { ret, err = a.Open(d0, ci.nonce, src, ci.aad) })
	outDone("empty-nocap", 0)
	reg := tail(w.out, len(prefix))
	copy(reg, prefix)
	run("prefix-nocap", prefix, func() { ret, err = a.Open(reg, ci.nonce, src, ci.aad) })
	if !eq(reg, prefix) {
		t.Fail(ci.kp+"/open(cap:prefix-nocap)/prefix-modified", "%s: the caller's dst[:len(dst)] %x became %x", ci.describe(), prefix, reg)
	}
	outDone("prefix-nocap", len(prefix))
	for _, ex := range capExtras {
		k := len(prefix) + n + ex
		reg := tail(w.out, k)
		copy(reg, prefix)
		dirty(reg[len(prefix):], ex)
		run("prefix-ample", prefix, func() { ret, err = a.Open(reg[:len(prefix)], ci.nonce, src, ci.aad) })
		if !eq(reg[:len(prefix)], prefix) {
			t.Fail(ci.kp+"/open(cap:prefix-ample)/prefix-modified", "%s: the caller's dst[:len(dst)] %x became %x", ci.describe(), prefix, reg[:len(prefix)])
		}
		outDone("prefix-ample", k)
		k = n + ex
		reg = tail(w.out, k)
		dirty(reg, ex+1)
		run("empty-ample", nil, func() { ret, err = a.Open(reg[:0], ci.nonce, src, ci.aad) })
		outDone("empty-ample", k)
		// in place, the ciphertext||tag is followed by stale bytes in the same array
		k = n + ts + ex
		buf := tail(w.ip, k)
		copy(buf, ci.want)
		dirty(buf[n+ts:], ex+2)
		run("inplace-ample", nil, func() { ret, err = a.Open(buf[:0], ci.nonce, buf[:n+ts], ci.aad) })
		if !canaryOK(w.ip, k) {
			t.Fail(ci.kp+"/open(cap:inplace-ample)/write-before-dst", "%s: bytes in front of the buffer were modified", ci.describe())
		}
		refill(w.ip, k)
	}
	if !eq(src, ci.want) {
		t.Fail(ci.kp+"/open/input-modified", "%s: Open with a disjoint dst modified its ciphertext argument", ci.describe())
	}
	refill(w.ct, n+ts)
	// dst = ciphertext[:0] with a capacity that is too small for the plaintext: the result moves to a new array
	if n > 1 {
		buf := tail(w.ip, n+ts)
		copy(buf, ci.want)
		run("inplace-short", nil, func() { ret, err = a.Open(buf[:0:n-1], ci.nonce, buf, ci.aad) })
		if !canaryOK(w.ip, n+ts) {
			t.Fail(ci.kp+"/open(cap:inplace-short)/write-before-dst", "%s: bytes in front of the buffer were modified", ci.describe())
		}
		refill(w.ip, n+ts)
	}
}

// capTamper: a few single-byte corruptions per call in the dst capacity classes the tamper product lacks, the
// integrity of the arguments of a failing Open, and a good Open on the same buffers right after the failing one.
func (w *work) capTamper(t *engine.T, o *wobj, ci *callInfo) {
	n, ts := len(ci.pt), ci.ts
	m := n + ts
	a := o.a
	src := tail(w.ct, m)
	copy(src, ci.want)
	type corr struct {
		field string
		b     []byte // the slice that holds the corrupted byte
		i     int
		x     byte
	}
	cs := []corr{{"tag", src, m - 1, 0x01}, {"tag", src, n, 0x80}}
	if n > 0 {
		cs = append(cs, corr{"ciphertext", src, 0, 0x80}, corr{"ciphertext", src, n - 1, 0x01})
	}
	if len(ci.aad) > 0 {
		cs = append(cs, corr{"aad", ci.aad, len(ci.aad) - 1, 0x01})
	}
	cs = append(cs, corr{"nonce", ci.nonce, 0, 0x40})
	var ret []byte
	var err error
	for _, c := range cs {
		c.b[c.i] ^= c.x
		nonce0, aad0, src0 := append([]byte{}, ci.nonce...), append([]byte{}, ci.aad...), append([]byte{}, src...)
		desc := func() string { return ci.describe() + " corrupted " + c.field + "[" + itoa(c.i) + "]^" + hex2(c.x) }
		if !o.refOpens(ci.nonce, src, ci.aad) {
			judge := func(mode string, region []byte) {
				k := ci.kp + "/tamper(cap:" + mode + ")"
				if err == nil {
					t.Fail(ci.kp+"/tamper-"+c.field+"/accepted", "%s: Open (dst class %s) accepted the corrupted input", desc(), mode)
					return
				}
				if ret != nil {
					t.Fail(k+"/non-nil-result", "%s: Open returned an error together with a non-nil slice of %d bytes", desc(), len(ret))
				}
				if !allEq(region, 0) {
					t.Fail(k+"/output-not-zeroed", "%s: after the failed Open the would-be output region holds %s", desc(), engine.Hex(region))
				}
				t.Outcome("tamper/rejected")
			}
			// nil dst
			if w.guarded(t, ci.kp+"/open", desc, func() { ret, err = a.Open(nil, ci.nonce, src, ci.aad) }) {
				judge("nil", nil)
			}
			// empty non-nil dst without capacity
			d0 := tail(w.out, 0)
			if w.guarded(t, ci.kp+"/open", desc, func() { ret, err = a.Open(d0, ci.nonce, src, ci.aad) }) {
				judge("empty-nocap", nil)
			}
			// prefix + ample dirty capacity
			k := len(prefix) + n + 16
			reg := tail(w.out, k)
			copy(reg, prefix)
			dirty(reg[len(prefix):], 3)
			if w.guarded(t, ci.kp+"/open", desc, func() { ret, err = a.Open(reg[:len(prefix)], ci.nonce, src, ci.aad) }) {
				judge("prefix-ample", reg[len(prefix):len(prefix)+n])
			}
			if !eq(reg[:len(prefix)], prefix) {
				t.Fail(ci.kp+"/tamper(cap:prefix-ample)/prefix-modified", "%s: dst[:len(dst)] modified by the failed Open", desc())
			}
			if !canaryOK(w.out, k) {
				t.Fail(ci.kp+"/tamper(cap:prefix-ample)/write-before-dst", "%s: bytes in front of dst were modified", desc())
			}
			refill(w.out, k)
			t.Eval(3)
			// the arguments of the failing calls belong to the caller
			if !eq(src, src0) || !eq(ci.nonce, nonce0) || !eq(ci.aad, aad0) {
				t.Fail(ci.kp+"/tamper/input-modified", "%s: a failing Open with a disjoint dst modified its nonce, ciphertext or additional data argument", desc())
				copy(src, src0)
				copy(ci.nonce, nonce0)
				copy(ci.aad, aad0)
			}
			// in place with stale bytes behind the tag
			k = m + 16
			buf := tail(w.ip, k)
			copy(buf, src)
			dirty(buf[m:], 4)
			if w.guarded(t, ci.kp+"/open", desc, func() { ret, err = a.Open(buf[:0], ci.nonce, buf[:m], ci.aad) }) {
				judge("inplace-ample", buf[:n])
			}
			if !canaryOK(w.ip, k) {
				t.Fail(ci.kp+"/tamper(cap:inplace-ample)/write-before-dst", "%s: bytes in front of the buffer were modified", desc())
			}
			refill(w.ip, k)
			t.Eval(1)
		} else {
			t.Outcome("tamper/reference-accepts-too")
		}
		c.b[c.i] ^= c.x
		// the same buffers, repaired: Open must succeed now (a failing call leaves nothing behind)
		if w.guarded(t, ci.kp+"/open", desc, func() { ret, err = a.Open(nil, ci.nonce, src, ci.aad) }) {
			if err != nil {
				t.Fail(ci.kp+"/open-after-failed-open/rejected", "%s, then the untampered input in the same buffers: %v", desc(), err)
			} else if !eq(ret, ci.pt) {
				t.Fail(ci.kp+"/open-after-failed-open/plaintext-mismatch", "%s, then the untampered input in the same buffers: wrong plaintext", desc())
			}
		}
		t.Eval(1)
	}
	refill(w.ct, m)
}

func runCaps(c *engine.Ctx) {
	ptLens := []int{0, 1, 15, 16, 17, 31, 32, 33, 63, 64, 65, 127, 128, 129, 143, 144, 145, 200}
	if !c.Quick() {
		ptLens = append(ptLens, 255, 256, 257, 300, 384, 399)
	}
	aadLens := []int{0, 13, 17}
	maxPT := ptLens[len(ptLens)-1]
	for vi := range variants {
		for si, sp := range repSpecs {
			vi, si, sp := vi, si, sp
			c.Case(fmt.Sprintf("widen-cap/%s/%v", variants[vi], sp), func(t *engine.T) {
				oc := newObjCache(t, vi, sp)
				w := newWork(maxPT+maxExtra+16, 128, 32)
				defer w.release(t, "widen-cap/"+variants[vi])
				gPT := w.get("plaintext", maxPT)
				for pi, n := range ptLens {
					for ai, al := range aadLens {
						o := oc.get((pi + ai + si) % len(keyBytes))
						if o == nil {
							return
						}
						pt := tail(gPT, n)
						fill(pt, uint32(7000+n))
						nonce := tail(w.nonce, sp.cb.ns)
						fill(nonce, uint32(7100+n+al))
						aad := tail(w.aad, al)
						fill(aad, uint32(7200+al))
						ptC, nonceC, aadC := append([]byte{}, pt...), append([]byte{}, nonce...), append([]byte{}, aad...)
						ci := &callInfo{kp: o.kp, nonce: nonce, aad: aad, want: o.refSeal(nonce, pt, aad), pt: pt, ts: sp.cb.ts}
						t.Guard(o.kp, func() {
							w.capSeal(t, o.a, ci)
							w.capOpen(t, o.a, ci)
						})
						if !eq(pt, ptC) || !eq(nonce, nonceC) || !eq(aad, aadC) {
							t.Fail(o.kp+"/input-modified", "%s: plaintext, nonce or additional data argument was modified", ci.describe())
							copy(pt, ptC)
							copy(nonce, nonceC)
							copy(aad, aadC)
						}
						t.Guard(o.kp+"/tamper", func() { w.capTamper(t, o, ci) })
						t.Nontrivial("widen-cap/" + variants[vi] + "/" + sp.String() + "/" + itoa(n) + "/" + itoa(al))
					}
				}
				t.Outcome("widen-cap/checked")
			})
		}
	}
}

// ---------------------------------------------------------------------------------------------
// ownership of returned slices

func runOwnership(c *engine.Ctx) {
	ptLens := []int{0, 1, 16, 17, 33, 129, 200}
	aadLens := []int{0, 5}
	for vi := range variants {
		vi := vi
		c.Case("widen-own/"+variants[vi]+"/returned-slices-belong-to-the-caller", func(t *engine.T) {
			for si, sp := range repSpecs {
				oc := newObjCache(t, vi, sp)
				for pi, n := range ptLens {
					for ai, al := range aadLens {
						o := oc.get((pi + ai + si) % len(keyBytes))
						if o == nil {
							return
						}
						pt, aad, nonce := filled(n, uint32(8000+n)), filled(al, uint32(8100+al)), filled(sp.cb.ns, uint32(8200+n+si))
						want := o.refSeal(nonce, pt, aad)
						desc := fmt.Sprintf("%v pt=%d aad=%d", sp, n, al)
						kp := o.kp + "/ownership"
						scribble := func(b []byte) {
							b = b[:cap(b)]
							for i := range b {
								b[i] = 0xEE
							}
						}
						var r [3][]byte
						if t.Guard(kp, func() {
							r[0] = o.a.Seal(nil, nonce, pt, aad)
							r[1] = o.a.Seal(nil, nonce, pt, aad)
						}) {
							continue
						}
						t.Eval(2)
						if !eq(r[0], want) || !eq(r[1], want) {
							t.Fail(kp+"/seal-mismatch", "%s: Seal(nil, ...) differs from the reference", desc)
						}
						if overlapCap(r[0], r[1]) {
							t.Fail(kp+"/seal-results-share-memory", "%s: the slices returned by two Seal(nil, ...) calls share memory", desc)
						}
						for _, in := range [][]byte{pt, aad, nonce} {
							if overlapCap(r[0], in) {
								t.Fail(kp+"/seal-result-aliases-argument", "%s: the slice returned by Seal(nil, ...) shares memory with an argument", desc)
							}
						}
						scribble(r[0])
						if !eq(r[1], want) {
							t.Fail(kp+"/seal-result-changed-by-writing-to-another-result", "%s: overwriting the first returned slice changed the second", desc)
						}
						scribble(r[1])
						if !t.Guard(kp, func() { r[2] = o.a.Seal(nil, nonce, pt, aad) }) && !eq(r[2], want) {
							t.Fail(kp+"/seal-depends-on-returned-buffer", "%s: after the caller overwrote the slices returned earlier, Seal gives a different answer", desc)
						}
						// Open
						var p [3][]byte
						var e [3]error
						ct := append([]byte{}, want...)
						if t.Guard(kp, func() {
							p[0], e[0] = o.a.Open(nil, nonce, ct, aad)
							p[1], e[1] = o.a.Open(nil, nonce, ct, aad)
						}) {
							continue
						}
						t.Eval(3)
						if e[0] != nil || e[1] != nil || !eq(p[0], pt) || !eq(p[1], pt) {
							t.Fail(kp+"/open-mismatch", "%s: Open(nil, ...) of the reference ciphertext: %v / %v", desc, e[0], e[1])
							continue
						}
						if overlapCap(p[0], p[1]) {
							t.Fail(kp+"/open-results-share-memory", "%s: the slices returned by two Open(nil, ...) calls share memory", desc)
						}
						for _, in := range [][]byte{ct, aad, nonce} {
							if overlapCap(p[0], in) {
								t.Fail(kp+"/open-result-aliases-argument", "%s: the slice returned by Open(nil, ...) shares memory with an argument", desc)
							}
						}
						scribble(p[0])
						if !eq(p[1], pt) {
							t.Fail(kp+"/open-result-changed-by-writing-to-another-result", "%s: overwriting the first returned slice changed the second", desc)
						}
						scribble(p[1])
						if !eq(ct, want) {
							t.Fail(kp+"/open-result-aliases-argument", "%s: overwriting the returned plaintext changed the ciphertext argument", desc)
						}
						if !t.Guard(kp, func() { p[2], e[2] = o.a.Open(nil, nonce, ct, aad) }) && (e[2] != nil || !eq(p[2], pt)) {
							t.Fail(kp+"/open-depends-on-returned-buffer", "%s: after the caller overwrote the slices returned earlier, Open gives a different answer (err=%v)", desc, e[2])
						}
						t.Eval(1)
						t.Nontrivial("widen-own/" + variants[vi] + "/" + sp.String() + "/" + itoa(n) + "/" + itoa(al))
					}
				}
			}
			t.Outcome("widen-own/checked")
		})
	}
}

// ---------------------------------------------------------------------------------------------
// record layouts

var layoutPerms = [][3]int{{0, 1, 2}, {0, 2, 1}, {1, 0, 2}, {1, 2, 0}, {2, 0, 1}, {2, 1, 0}}

var partName = [3]string{"nonce", "aad", "message"}

func permName(p [3]int) string { return partName[p[0]] + "|" + partName[p[1]] + "|" + partName[p[2]] }

func runLayout(c *engine.Ctx) {
	ptLens := []int{0, 1, 15, 16, 17, 33, 64, 65, 129}
	aadLens := []int{0, 1, 13, 16, 17}
	const slack = 24
	const maxPT = 129
	for vi := range variants {
		for si, sp := range repSpecs {
			vi, si, sp := vi, si, sp
			c.Case(fmt.Sprintf("widen-layout/%s/%v", variants[vi], sp), func(t *engine.T) {
				oc := newObjCache(t, vi, sp)
				w := newWork(maxPT+32, 128, 32)
				defer w.release(t, "widen-layout/"+variants[vi])
				ns, ts := sp.cb.ns, sp.cb.ts
				gRec := w.get("record", 64+ns+17+maxPT+16+slack)
				hdr := []byte{0x17, 0x03, 0x03, 0x00, 0x00}
				for pi, n := range ptLens {
					for ai, al := range aadLens {
						o := oc.get((pi + ai + si) % len(keyBytes))
						if o == nil {
							return
						}
						a := o.a
						pt, aad, nonce := filled(n, uint32(9000+n)), filled(al, uint32(9100+al)), filled(ns, uint32(9200+n+al))
						want := o.refSeal(nonce, pt, aad)
						ci := &callInfo{kp: o.kp, nonce: nonce, aad: aad, want: want, pt: pt, ts: ts}
						kp := o.kp + "/layout"
						// carve lays the three parts out in one array in the given order; every slice's capacity reaches the
						// end of the record (and the record ends at a guard page after some stale bytes)
						carve := func(perm [3]int, parts [3][]byte) (rec []byte, sl [3][]byte, off [3]int) {
							total := len(parts[0]) + len(parts[1]) + len(parts[2]) + slack
							rec = tail(gRec, total)
							pos := 0
							for _, p := range perm {
								copy(rec[pos:], parts[p])
								sl[p] = rec[pos : pos+len(parts[p])]
								off[p] = pos
								pos += len(parts[p])
							}
							dirty(rec[pos:], n+al)
							return
						}
						var ret []byte
						var err error
						for _, perm := range layoutPerms {
							pn := permName(perm)
							desc := func() string { return ci.describe() + " record " + pn }
							// Seal, arguments in one record, dst elsewhere
							rec, sl, _ := carve(perm, [3][]byte{nonce, aad, pt})
							snap := append([]byte{}, rec...)
							if w.guarded(t, kp, desc, func() { ret = a.Seal(nil, sl[0], sl[2], sl[1]) }) && !eq(ret, want) {
								t.Fail(kp+"/seal/mismatch", "%s: Seal(nil, ...) differs from the reference at byte %d", desc(), engine.FirstDiff(ret, want))
							}
							k := len(prefix) + n + ts + 8
							reg := tail(w.out, k)
							copy(reg, prefix)
							dirty(reg[len(prefix):], 5)
							if w.guarded(t, kp, desc, func() { ret = a.Seal(reg[:len(prefix)], sl[0], sl[2], sl[1]) }) && (len(ret) != len(prefix)+len(want) || !eq(ret[len(prefix):], want) || !eq(ret[:len(prefix)], prefix)) {
								t.Fail(kp+"/seal/mismatch", "%s: Seal(prefix, ...) differs from the reference", desc())
							}
							refill(w.out, k)
							if !eq(rec, snap) {
								t.Fail(kp+"/seal/argument-record-modified", "%s: Seal with a separate dst wrote into the array holding its arguments at offset %d", desc(), engine.FirstDiff(rec, snap))
							}
							// Seal in place inside the record: dst = message[:0] with capacity for exactly ciphertext||tag
							room := make([]byte, n+ts)
							copy(room, pt)
							dirty(room[n:], 6)
							rec, sl, off := carve(perm, [3][]byte{nonce, aad, room})
							snap = append(snap[:0], rec...)
							mo := off[2]
							if w.guarded(t, kp, desc, func() { ret = a.Seal(rec[mo:mo:mo+n+ts], sl[0], rec[mo:mo+n:mo+n+ts], sl[1]) }) && !eq(ret, want) {
								t.Fail(kp+"/seal-inplace/mismatch", "%s: in-place Seal differs from the reference at byte %d", desc(), engine.FirstDiff(ret, want))
							}
							if !eq(rec[:mo], snap[:mo]) || !eq(rec[mo+n+ts:], snap[mo+n+ts:]) {
								t.Fail(kp+"/seal-inplace/write-outside-dst", "%s: in-place Seal with cap(dst) = len(plaintext)+tag size wrote outside that window", desc())
							}
							// Open, arguments in one record
							rec, sl, off = carve(perm, [3][]byte{nonce, aad, want})
							snap = append(snap[:0], rec...)
							if w.guarded(t, kp, desc, func() { ret, err = a.Open(nil, sl[0], sl[2], sl[1]) }) && (err != nil || !eq(ret, pt)) {
								t.Fail(kp+"/open/mismatch", "%s: Open(nil, ...) of the reference ciphertext: err=%v", desc(), err)
							}
							if !eq(rec, snap) {
								t.Fail(kp+"/open/argument-record-modified", "%s: Open with a separate dst wrote into the array holding its arguments at offset %d", desc(), engine.FirstDiff(rec, snap))
								copy(rec, snap)
							}
							// a failing Open on the record (last tag byte flipped), dst elsewhere
							mo = off[2]
							rec[mo+n+ts-1] ^= 1
							snap[mo+n+ts-1] ^= 1
							if !o.refOpens(sl[0], sl[2], sl[1]) {
								if w.guarded(t, kp, desc, func() { ret, err = a.Open(nil, sl[0], sl[2], sl[1]) }) && (err == nil || ret != nil) {
									t.Fail(kp+"/open/corrupted-accepted", "%s: Open accepted a ciphertext with a flipped tag bit", desc())
								}
								if !eq(rec, snap) {
									t.Fail(kp+"/open/argument-record-modified", "%s: a failing Open with a separate dst wrote into the array holding its arguments at offset %d", desc(), engine.FirstDiff(rec, snap))
									copy(rec, snap)
								}
							}
							rec[mo+n+ts-1] ^= 1
							snap[mo+n+ts-1] ^= 1
							// Open in place inside the record: dst = ciphertext[:0] with capacity for exactly ciphertext||tag
							if w.guarded(t, kp, desc, func() { ret, err = a.Open(rec[mo:mo:mo+n+ts], sl[0], rec[mo:mo+n+ts:mo+n+ts], sl[1]) }) && (err != nil || !eq(ret, pt)) {
								t.Fail(kp+"/open-inplace/mismatch", "%s: in-place Open of the reference ciphertext: err=%v", desc(), err)
							}
							if !eq(rec[:mo], snap[:mo]) || !eq(rec[mo+n+ts:], snap[mo+n+ts:]) {
								t.Fail(kp+"/open-inplace/write-outside-dst", "%s: in-place Open with cap(dst) = len(ciphertext) wrote outside that window", desc())
							}
							t.Eval(6)
						}
						// the TLS 1.3 record shape (crypto/tls): dst = record[:5], plaintext = record[5:], additional data = record[:5]
						if al == 0 {
							wantH := o.refSeal(nonce, pt, hdr)
							ciH := &callInfo{kp: o.kp, nonce: nonce, aad: hdr, want: wantH, pt: pt, ts: ts}
							desc := func() string { return ciH.describe() + " TLS record shape" }
							k := 5 + n + ts
							rec := tail(w.ip, k)
							copy(rec, hdr)
							copy(rec[5:], pt)
							dirty(rec[5+n:], 7)
							if w.guarded(t, kp, desc, func() { ret = a.Seal(rec[:5], nonce, rec[5:5+n], rec[:5]) }) {
								if len(ret) != k || !eq(ret[:5], hdr) || !eq(ret[5:], wantH) {
									t.Fail(kp+"/tls13-seal/mismatch", "%s: Seal(record[:5], nonce, record[5:], record[:5]) differs from header||reference", desc())
								}
							}
							// ... and opened the way crypto/tls does: Open(payload[:0], nonce, payload, record[:5])
							copy(rec, hdr)
							copy(rec[5:], wantH)
							if w.guarded(t, kp, desc, func() { ret, err = a.Open(rec[5:5], nonce, rec[5:], rec[:5]) }) {
								if err != nil || !eq(ret, pt) {
									t.Fail(kp+"/tls13-open/mismatch", "%s: Open(payload[:0], nonce, payload, record[:5]): err=%v", desc(), err)
								}
							}
							if !eq(rec[:5], hdr) {
								t.Fail(kp+"/tls13-open/header-modified", "%s: the record header in front of the payload was modified", desc())
							}
							// corrupted record: error, payload zeroed, header intact
							copy(rec, hdr)
							copy(rec[5:], wantH)
							rec[k-1] ^= 0x80
							if !o.refOpens(nonce, rec[5:], rec[:5]) {
								if w.guarded(t, kp, desc, func() { ret, err = a.Open(rec[5:5], nonce, rec[5:], rec[:5]) }) {
									if err == nil || ret != nil {
										t.Fail(kp+"/tls13-open/corrupted-accepted", "%s: a record with a flipped tag bit was accepted", desc())
									} else if !allEq(rec[5:5+n], 0) {
										t.Fail(kp+"/tls13-open/output-not-zeroed", "%s: after the failed Open the payload holds %s", desc(), engine.Hex(rec[5:5+n]))
									}
								}
								if !eq(rec[:5], hdr) {
									t.Fail(kp+"/tls13-open/header-modified", "%s: the record header in front of the payload was modified by the failing Open", desc())
								}
							}
							if !canaryOK(w.ip, k) {
								t.Fail(kp+"/tls13/write-before-record", "%s: bytes in front of the record were modified", desc())
							}
							refill(w.ip, k)
							// TLS 1.2 shape: the explicit nonce sits in the record right in front of the payload (its capacity covers the payload)
							k = 5 + ns + n + ts
							rec = tail(w.ip, k)
							copy(rec, hdr)
							copy(rec[5:], nonce)
							copy(rec[5+ns:], want) // al == 0 here
							if w.guarded(t, kp, desc, func() { ret, err = a.Open(rec[5+ns:5+ns], rec[5:5+ns], rec[5+ns:], aad) }) {
								if err != nil || !eq(ret, pt) {
									t.Fail(kp+"/tls12-open/mismatch", "%s: Open(payload[:0], record[5:5+nonce size], payload, aad): err=%v", desc(), err)
								}
							}
							if !eq(rec[:5], hdr) || !eq(rec[5:5+ns], nonce) {
								t.Fail(kp+"/tls12-open/header-or-nonce-modified", "%s: the bytes in front of the payload (header, explicit nonce) were modified", desc())
							}
							if !canaryOK(w.ip, k) {
								t.Fail(kp+"/tls12/write-before-record", "%s: bytes in front of the record were modified", desc())
							}
							refill(w.ip, k)
							t.Eval(4)
						}
						t.Nontrivial("widen-layout/" + variants[vi] + "/" + sp.String() + "/" + itoa(n) + "/" + itoa(al))
					}
				}
				t.Outcome("widen-layout/checked")
			})
		}
	}
}
