package c04

// Second half of the widened families: constructor arguments, ordered pairs of call classes on one object and on
// two objects with different keys, length sweeps across the thresholds of the fused loops, the block's NewGCM
// method called with nonce/tag size pairs crypto/cipher has no constructor for, boundary contents / nil
// arguments, and the CCM length limit.

import (
	"crypto/cipher"
	"fmt"

	"github.com/emmansun/gmsm/sm4"

	"verif/engine"
	"verif/ref/aeadref"
	"verif/ref/sm4ref"
)

// ---------------------------------------------------------------------------------------------
// the key slice handed to sm4.NewCipher belongs to the caller

func runCtorArgs(c *engine.Ctx) {
	sizes := [][2]int{{0, 0}, {1, 5}, {16, 0}, {17, 13}, {64, 16}, {129, 33}, {200, 1}}
	for vi := range variants {
		vi := vi
		c.Case("widen-ctor/"+variants[vi]+"/key-slice-belongs-to-the-caller", func(t *engine.T) {
			var pool engine.Pool
			defer func() {
				if !pool.Release() {
					t.Fail("ctor/"+variants[vi]+"/write-before-key", "bytes in front of the key slice were modified")
				}
			}()
			refs := [2]*sm4ref.Cipher{sm4ref.New(keyBytes[0]), sm4ref.New(keyBytes[3])}
			for _, layout := range []string{"ends-at-guard-page", "inside-a-larger-array"} {
				var arr, k []byte
				if layout == "ends-at-guard-page" {
					k = pool.Get(16)
				} else {
					arr = make([]byte, 48)
					dirty(arr, 1)
					k = arr[16:32] // capacity reaches the end of arr
				}
				arr0 := append([]byte{}, arr...)
				mk := func(content []byte) cipher.Block {
					copy(k, content)
					var b cipher.Block
					var err error
					if t.Guard("ctor/"+variants[vi]+"/NewCipher", func() { b, err = sm4.NewCipher(k) }) {
						return nil
					}
					if err != nil || b == nil {
						t.Fail("ctor/"+variants[vi]+"/constructor-error", "sm4.NewCipher(16-byte key): %v", err)
						return nil
					}
					if !eq(k, content) {
						t.Fail("ctor/"+variants[vi]+"/constructor-modifies-key", "sm4.NewCipher changed the caller's key %x -> %x", content, k)
					}
					if vi == 1 {
						b = plainBlock{b}
					}
					return b
				}
				build := func(b cipher.Block, ref *sm4ref.Cipher) []*wobj {
					var r []*wobj
					for _, sp := range repSpecs {
						if o := buildOn(t, vi, b, ref, sp); o != nil {
							r = append(r, o)
						}
					}
					return r
				}
				// per key: one block whose AEADs are built right away, one that is not touched before the key slice is gone
				// (a key schedule computed on first use would read the caller's slice then)
				var used, idle [2]cipher.Block
				var groups [][]*wobj // each with its reference
				var when []string
				for ki, content := range [][]byte{keyBytes[0], keyBytes[3]} {
					// the same slice, new content, next constructor
					if used[ki] = mk(content); used[ki] == nil {
						return
					}
					if idle[ki] = mk(content); idle[ki] == nil {
						return
					}
					groups = append(groups, build(used[ki], refs[ki]))
					when = append(when, "aead-built-before")
				}
				// the caller reuses the slice for something else
				for i := range k {
					k[i] = 0xEE
				}
				// AEADs constructed only now, over blocks whose key slice is gone
				for ki := range used {
					groups = append(groups, build(used[ki], refs[ki]), build(idle[ki], refs[ki]))
					when = append(when, "aead-built-after", "block-first-used-after")
				}
				for si, sz := range sizes {
					pt, aad := filled(sz[0], uint32(10000+si)), filled(sz[1], uint32(10100+si))
					for oi := range repSpecs {
						for gi, g := range groups {
							if oi >= len(g) {
								continue
							}
							o := g[oi]
							nonce := filled(o.sp.cb.ns, uint32(10200+si+oi))
							want := o.refSeal(nonce, pt, aad)
							kp := "ctor/" + variants[vi] + ":" + typeName(o.a) + "/key-overwritten-after-construction/" + when[gi]
							var got, back []byte
							var err error
							if t.Guard(kp, func() { got = o.a.Seal(nil, nonce, pt, aad); back, err = o.a.Open(nil, nonce, want, aad) }) {
								continue
							}
							t.Eval(2)
							if !eq(got, want) {
								t.Fail(kp+"/seal-mismatch", "key slice %s, %v, pt %d aad %d: after the caller overwrote the key slice Seal differs from the reference (byte %d)", layout, o.sp, sz[0], sz[1], engine.FirstDiff(got, want))
							}
							if err != nil || !eq(back, pt) {
								t.Fail(kp+"/open-mismatch", "key slice %s, %v, pt %d aad %d: after the caller overwrote the key slice Open of the reference ciphertext: err=%v", layout, o.sp, sz[0], sz[1], err)
							}
							t.Nontrivial(fmt.Sprintf("widen-ctor/%s/%s/%v/%d/%d", variants[vi], layout, o.sp, si, gi))
						}
					}
				}
				if !allEq(k, 0xEE) {
					t.Fail("ctor/"+variants[vi]+"/key-slice-written-later", "the key slice (reused by the caller) was written by a later call: %x", k)
				}
				if arr != nil && (!eq(arr[:16], arr0[:16]) || !eq(arr[32:], arr0[32:])) {
					t.Fail("ctor/"+variants[vi]+"/write-around-key", "bytes around the key slice inside the caller's array were modified")
				}
			}
			t.Outcome("widen-ctor/checked")
		})
	}
}

// ---------------------------------------------------------------------------------------------
// every ordered pair of call classes, on one object and across two objects with different keys

var pairSizes = [][2]int{{0, 0}, {1, 13}, {15, 0}, {16, 5}, {17, 16}, {63, 33}, {64, 0}, {65, 1}, {127, 129}, {128, 0}, {129, 17}, {143, 64}, {200, 8}, {256, 0}, {257, 20}}

var pairOps = []string{"seal", "seal-inplace", "open", "open-corrupted"}

func runPairs(c *engine.Ctx) {
	for vi := range variants {
		for _, sp := range repSpecs {
			vi, sp := vi, sp
			c.Case(fmt.Sprintf("widen-pairs/%s/%v", variants[vi], sp), func(t *engine.T) {
				oc := newObjCache(t, vi, sp)
				objs := [2]*wobj{oc.get(0), oc.get(3)}
				if objs[0] == nil || objs[1] == nil {
					return
				}
				ts := sp.cb.ts
				type inst struct{ nonce, pt, aad, want, bad []byte }
				var in [2][]inst
				for oi, o := range objs {
					for si, sz := range pairSizes {
						x := inst{nonce: filled(sp.cb.ns, uint32(11000+si+100*oi)), pt: filled(sz[0], uint32(11100+si)), aad: filled(sz[1], uint32(11200+si))}
						x.want = o.refSeal(x.nonce, x.pt, x.aad)
						x.bad = append([]byte{}, x.want...)
						x.bad[len(x.bad)-1-(si%ts)] ^= 0x10
						if o.refOpens(x.nonce, x.bad, x.aad) {
							x.bad = nil // a genuine collision: skip the class
						}
						in[oi] = append(in[oi], x)
					}
				}
				last := [2]string{"first-call", "first-call"}
				buf := make([]byte, 0, 257+16)
				do := func(oi, cls int) {
					o := objs[oi]
					si, op := cls/len(pairOps), pairOps[cls%len(pairOps)]
					x := &in[oi][si]
					kp := o.kp + "/history-pair/" + op + "-after-" + last[oi]
					desc := func() string {
						return fmt.Sprintf("%v object #%d: %s with pt %d aad %d after %s", sp, oi, op, len(x.pt), len(x.aad), last[oi])
					}
					var ret []byte
					var err error
					switch op {
					case "seal":
						if !t.Guard(kp, func() { ret = o.a.Seal(nil, x.nonce, x.pt, x.aad) }) && !eq(ret, x.want) {
							t.Fail(kp+"/mismatch", "%s: Seal differs from the reference at byte %d", desc(), engine.FirstDiff(ret, x.want))
						}
					case "seal-inplace":
						b := buf[:len(x.pt)]
						copy(b, x.pt)
						if !t.Guard(kp, func() { ret = o.a.Seal(b[:0], x.nonce, b, x.aad) }) && !eq(ret, x.want) {
							t.Fail(kp+"/mismatch", "%s: in-place Seal differs from the reference at byte %d", desc(), engine.FirstDiff(ret, x.want))
						}
					case "open":
						if !t.Guard(kp, func() { ret, err = o.a.Open(nil, x.nonce, x.want, x.aad) }) && (err != nil || !eq(ret, x.pt)) {
							t.Fail(kp+"/mismatch", "%s: Open of the reference ciphertext: err=%v", desc(), err)
						}
					case "open-corrupted":
						if x.bad == nil {
							return
						}
						b := buf[:len(x.bad)]
						copy(b, x.bad)
						if !t.Guard(kp, func() { ret, err = o.a.Open(b[:0], x.nonce, b, x.aad) }) {
							if err == nil || ret != nil {
								t.Fail(kp+"/accepted", "%s: a ciphertext with a flipped tag bit was accepted", desc())
							} else if !allEq(b[:len(x.pt)], 0) {
								t.Fail(kp+"/output-not-zeroed", "%s: the output region was not zeroed", desc())
							}
						}
					}
					t.Eval(1)
					last[oi] = op
				}
				ncls := len(pairSizes) * len(pairOps)
				for i := 0; i < ncls; i++ {
					for j := 0; j < ncls; j++ {
						do(0, i)
						do(1, j) // the object with the other key in between
						do(0, j)
					}
				}
				for _, a := range pairOps {
					for _, b := range pairOps {
						t.Nontrivial("widen-pairs/" + variants[vi] + "/" + sp.String() + "/" + a + ">" + b)
					}
				}
				t.Outcome("widen-pairs/checked")
			})
		}
	}
}

// ---------------------------------------------------------------------------------------------
// products over (plaintext length, AAD length, object kind) with the eight dst modes of the main product

// contentFn fills a buffer of the given role (0 nonce, 1 aad, 2 plaintext) for one (n, al) point.
type contentFn func(role int, b []byte, n, al int)

func lcgContent(base uint32) contentFn {
	return func(role int, b []byte, n, al int) { fill(b, base+uint32(1000*role+n+3*al)) }
}

func aeadProduct(c *engine.Ctx, name string, vi int, specs []ospec, ptLens, aadLens []int, content contentFn, class string) {
	c.Case(name, func(t *engine.T) {
		mxPT, mxAAD, mxN := 0, 0, 0
		for _, n := range ptLens {
			mxPT = max(mxPT, n)
		}
		for _, n := range aadLens {
			mxAAD = max(mxAAD, n)
		}
		var caches []*objCache
		for _, sp := range specs {
			mxN = max(mxN, sp.cb.ns)
			caches = append(caches, newObjCache(t, vi, sp))
		}
		w := newWork(mxPT, mxN, mxAAD)
		defer w.release(t, class+"/"+variants[vi])
		gPT := w.get("plaintext", mxPT)
		for pi, n := range ptLens {
			for ai, al := range aadLens {
				for si, sp := range specs {
					o := caches[si].get((pi + ai + si) % len(keyBytes))
					if o == nil {
						continue
					}
					pt, aad, nonce := tail(gPT, n), tail(w.aad, al), tail(w.nonce, sp.cb.ns)
					content(0, nonce, n, al)
					content(1, aad, n, al)
					content(2, pt, n, al)
					ptC, nonceC, aadC := append([]byte{}, pt...), append([]byte{}, nonce...), append([]byte{}, aad...)
					ci := &callInfo{kp: o.kp, nonce: nonce, aad: aad, want: o.refSeal(nonce, pt, aad), pt: pt, ts: sp.cb.ts}
					t.Guard(o.kp, func() {
						w.sealAll(t, o.a, ci)
						w.openAll(t, o.a, ci)
					})
					if !eq(pt, ptC) || !eq(nonce, nonceC) || !eq(aad, aadC) {
						t.Fail(o.kp+"/input-modified", "%s: plaintext, nonce or additional data argument was modified", ci.describe())
					}
					t.Nontrivial(class + "/" + variants[vi] + "/" + sp.String() + "/" + itoa(n) + "/" + itoa(al))
				}
			}
		}
		t.Outcome(class + "/checked")
	})
}

func span(from, to int) []int {
	var r []int
	for i := from; i <= to; i++ {
		r = append(r, i)
	}
	return r
}

func runSweeps(c *engine.Ctx) {
	quick := c.Quick()
	chunks := func(from, to, step int, f func(lo, hi int)) {
		for lo := from; lo <= to; lo += step {
			f(lo, min(lo+step-1, to))
		}
	}
	gcmPT := []ospec{{false, combo{12, 16}}, {false, combo{12, 13}}, {false, combo{16, 16}}, {false, combo{1, 16}}}
	gcmAAD := []ospec{{false, combo{12, 16}}, {false, combo{12, 12}}, {false, combo{16, 16}}}
	ccmPT := []ospec{{true, combo{12, 16}}, {true, combo{7, 4}}, {true, combo{13, 8}}, {true, combo{8, 10}}}
	ccmAAD := []ospec{{true, combo{12, 16}}, {true, combo{7, 4}}, {true, combo{13, 10}}}
	// the main product stops at 223 (quick) / 600 (thorough): the loop body of the fused 8-block encryption only runs
	// from 256 bytes on (its first iteration is peeled off)
	// (the counters of an iteration are prepared one iteration ahead: three and four iterations are 384 and 512 bytes)
	gcmPTLens := append(append(span(224, 420), span(505, 530)...), 639, 640, 641, 655, 656, 657)
	aadTo, ccmPTTo, ccmAADTo := 300, 300, 100
	if !quick {
		gcmPTLens = span(601, 1100)
		aadTo, ccmPTTo, ccmAADTo = 1100, 1100, 300
	}
	for vi := range variants {
		vi := vi
		for lo := 0; lo < len(gcmPTLens); lo += 16 {
			part := gcmPTLens[lo:min(lo+16, len(gcmPTLens))]
			aeadProduct(c, fmt.Sprintf("widen-sweep/gcm-pt/%s/pt=%d..%d", variants[vi], part[0], part[len(part)-1]), vi, gcmPT, part, []int{0, 13, 20}, lcgContent(12000), "widen-sweep-gcm-pt")
		}
		chunks(34, aadTo, 32, func(lo, hi int) {
			aeadProduct(c, fmt.Sprintf("widen-sweep/gcm-aad/%s/aad=%d..%d", variants[vi], lo, hi), vi, gcmAAD, []int{0, 1, 16, 17, 129}, span(lo, hi), lcgContent(13000), "widen-sweep-gcm-aad")
		})
		// nonce sizes beyond the 1..20, 32, 64, 128 of the main product (the nonce goes through the same GHASH data routine
		// as the additional data: 8-block loop, single blocks, partial block)
		var big []ospec
		for _, ns := range append(span(21, 31), 33, 47, 48, 49, 63, 65, 127, 129, 143, 144, 145, 255, 256, 257, 1024) {
			big = append(big, ospec{false, combo{ns, 16}})
		}
		aeadProduct(c, "widen-sweep/gcm-nonce/"+variants[vi], vi, big, []int{0, 1, 16, 17, 64, 129}, []int{0, 5}, lcgContent(14000), "widen-sweep-gcm-nonce")
		// CCM: the main product has plaintexts 0..80 and six small AAD lengths; the CTR underneath is the block's own
		// batched implementation in the native variant
		chunks(81, ccmPTTo, 20, func(lo, hi int) {
			aeadProduct(c, fmt.Sprintf("widen-sweep/ccm-pt/%s/pt=%d..%d", variants[vi], lo, hi), vi, ccmPT, span(lo, hi), []int{0, 5}, lcgContent(15000), "widen-sweep-ccm-pt")
		})
		chunks(0, ccmAADTo, 25, func(lo, hi int) {
			aeadProduct(c, fmt.Sprintf("widen-sweep/ccm-aad/%s/aad=%d..%d", variants[vi], lo, hi), vi, ccmAAD, []int{0, 1, 16, 17}, span(lo, hi), lcgContent(16000), "widen-sweep-ccm-aad")
		})
		// the other side of the six-octet length encoding: 2^16 - 1, 2^16, 2^16 + 1
		aeadProduct(c, "widen-sweep/ccm-aad/"+variants[vi]+"/aad=65535..65537", vi, ccmAAD[:2], []int{0, 17}, []int{65535, 65536, 65537}, lcgContent(17000), "widen-sweep-ccm-aad")
	}
}

// ---------------------------------------------------------------------------------------------
// the block's own NewGCM(nonceSize, tagSize) for size pairs no crypto/cipher constructor asks for

type gcmAbler interface {
	NewGCM(nonceSize, tagSize int) (cipher.AEAD, error)
}

func runDirect(c *engine.Ctx) {
	ptLens := []int{0, 1, 15, 16, 17, 33, 64, 65, 129, 200}
	c.Case("widen-direct/native/NewGCM-method-nonce-and-tag-size", func(t *engine.T) {
		ks := newKeyset()
		w := newWork(200, 32, 21)
		defer w.release(t, "widen-direct/native")
		gPT := w.get("plaintext", 200)
		ci := 0
		for _, ns := range []int{1, 8, 13, 16, 17, 32} {
			for ts := 12; ts <= 15; ts++ {
				ci++
				var objs [4]*wobj
				for key := range keyBytes {
					g, ok := ks.lib[key][0].(gcmAbler)
					if !ok {
						t.Outcome("direct/block-has-no-NewGCM-method")
						return
					}
					var a cipher.AEAD
					var err error
					if t.Guard("gcm/direct/NewGCM", func() { a, err = g.NewGCM(ns, ts) }) {
						return
					}
					if err != nil || a == nil {
						// refusing a size pair is not a violation: SP 800-38D admits it, but no public constructor does
						t.Outcome("direct/size-pair-refused")
						continue
					}
					objs[key] = &wobj{sp: ospec{false, combo{ns, ts}}, a: a, ref: ks.ref[key], kp: gcmKP(0, a, "direct-"+nonceClass(ns), ts)}
				}
				for pi, n := range ptLens {
					for ai, al := range []int{0, 5} {
						o := objs[(pi+ai+ci)%len(keyBytes)]
						if o == nil {
							continue
						}
						pt, aad, nonce := tail(gPT, n), tail(w.aad, al), tail(w.nonce, ns)
						fill(pt, uint32(18000+n))
						fill(aad, uint32(18100+al))
						fill(nonce, uint32(18200+n+ns))
						info := &callInfo{kp: o.kp, nonce: nonce, aad: aad, want: o.refSeal(nonce, pt, aad), pt: pt, ts: ts}
						t.Guard(o.kp, func() {
							w.sealAll(t, o.a, info)
							w.openAll(t, o.a, info)
						})
						if n <= 17 {
							tp := &tamperer{w: w, t: t, a: o.a, kp: o.kp, ts: ts, ci: info, refOpen: o.refOpens}
							t.Guard(o.kp+"/tamper", func() { tp.all(nonce, aad, info.want, false) })
						}
						t.Nontrivial("widen-direct/" + itoa(ns) + "/" + itoa(ts) + "/" + itoa(n) + "/" + itoa(al))
					}
				}
			}
		}
		t.Outcome("widen-direct/checked")
	})
}

// ---------------------------------------------------------------------------------------------
// boundary contents and nil / empty arguments

var valueKinds = []string{"zero", "ff", "msb-of-each-block", "lsb-of-each-block", "first-byte-01"}

func valueFill(kind int, b []byte) {
	for i := range b {
		b[i] = 0
	}
	switch kind {
	case 1:
		for i := range b {
			b[i] = 0xff
		}
	case 2:
		for i := 0; i < len(b); i += 16 {
			b[i] = 0x80
		}
	case 3:
		for i := 15; i < len(b); i += 16 {
			b[i] = 0x01
		}
	case 4:
		if len(b) > 0 {
			b[0] = 0x01
		}
	}
}

func runValues(c *engine.Ctx) {
	ptLens := []int{0, 1, 16, 17, 32, 48, 128, 129, 144}
	aadLens := []int{0, 16, 20, 32}
	for vi := range variants {
		vi := vi
		for dk := range valueKinds {
			for nk := 0; nk < 2; nk++ {
				dk, nk := dk, nk
				content := func(role int, b []byte, n, al int) {
					if role == 0 {
						valueFill(nk, b)
					} else {
						valueFill(dk, b)
					}
				}
				aeadProduct(c, fmt.Sprintf("widen-values/%s/data=%s/nonce=%s", variants[vi], valueKinds[dk], valueKinds[nk]), vi, repSpecs, ptLens, aadLens, content, "widen-values")
			}
		}
		c.Case("widen-values/"+variants[vi]+"/nil-and-empty-arguments", func(t *engine.T) {
			for si, sp := range repSpecs {
				oc := newObjCache(t, vi, sp)
				o := oc.get(si % len(keyBytes))
				if o == nil {
					continue
				}
				nonce := filled(sp.cb.ns, uint32(19000+si))
				want := o.refSeal(nonce, nil, nil)
				wantA := o.refSeal(nonce, nil, []byte{0x42})
				kp := o.kp + "/nil-args"
				empty := func() []byte { return make([]byte, 0) }
				type call struct {
					name         string
					dst, pt, aad []byte
					want         []byte
				}
				calls := []call{
					{"Seal(nil, n, nil, nil)", nil, nil, nil, want},
					{"Seal(nil, n, empty, nil)", nil, empty(), nil, want},
					{"Seal(nil, n, nil, empty)", nil, nil, empty(), want},
					{"Seal(empty, n, empty, empty)", empty(), empty(), empty(), want},
					{"Seal(empty, n, nil, nil)", empty(), nil, nil, want},
					{"Seal(nil, n, nil, aad)", nil, nil, []byte{0x42}, wantA},
					{"Seal(nil, n, empty, aad)", nil, empty(), []byte{0x42}, wantA},
				}
				for _, cl := range calls {
					var ret []byte
					if !t.Guard(kp, func() { ret = o.a.Seal(cl.dst, nonce, cl.pt, cl.aad) }) && !eq(ret, cl.want) {
						t.Fail(kp+"/seal-mismatch", "%v %s: got %x want %x", sp, cl.name, ret, cl.want)
					}
					var back []byte
					var err error
					for _, dst := range [][]byte{nil, empty()} {
						if !t.Guard(kp, func() { back, err = o.a.Open(dst, nonce, cl.want, cl.aad) }) && (err != nil || len(back) != 0) {
							t.Fail(kp+"/open-mismatch", "%v Open of the tag-only ciphertext produced by %s: err=%v, %d bytes", sp, cl.name, err, len(back))
						}
					}
					t.Eval(3)
				}
				t.Nontrivial("widen-values/nil/" + variants[vi] + "/" + sp.String())
			}
			t.Outcome("widen-values/nil-checked")
		})
	}
}

// ---------------------------------------------------------------------------------------------
// CCM: the message length limit of the length field (RFC 3610: l(m) < 2^(8L))

func runLimit(c *engine.Ctx) {
	for vi := range variants {
		vi := vi
		c.Case("widen-limit/"+variants[vi]+"/ccm-length-field", func(t *engine.T) {
			ks := newKeyset()
			blk := ks.lib[0][vi]
			// L = 2..7: MaxLength() = 2^(8L) - 1 (L = 8 is capped by the platform's int and not judged)
			for ns := 8; ns <= 13; ns++ {
				a := newCCM(t, blk, vi, combo{ns, 16})
				if a == nil {
					return
				}
				if m, ok := a.(interface{ MaxLength() int }); ok {
					l := 15 - ns
					if want := 1<<(8*uint(l)) - 1; m.MaxLength() != want {
						t.Fail(ccmKP(vi, a, combo{ns, 16})+"/limit/MaxLength", "nonce size %d (L=%d): MaxLength() = %d, RFC 3610 admits messages up to %d bytes", ns, l, m.MaxLength(), want)
					}
					t.Eval(1)
					t.Outcome("limit/MaxLength-checked")
				}
			}
			// L = 2: a 65536-byte message cannot be encoded. Seal has no error result: it must not return a ciphertext.
			for _, ts := range []int{4, 16} {
				a := newCCM(t, blk, vi, combo{13, ts})
				if a == nil {
					return
				}
				kp := ccmKP(vi, a, combo{13, ts}) + "/limit"
				nonce := filled(13, 20000)
				big := filled(65536+ts, 20001)
				var ret []byte
				returned := false
				func() {
					defer func() { recover() }()
					ret = a.Seal(nil, nonce, big[:65536], nil)
					returned = true
				}()
				if returned {
					t.Fail(kp+"/seal-accepts-message-longer-than-length-field", "nonce size 13 (L=2): Seal of a 65536-byte message returned %d bytes instead of refusing it", len(ret))
				} else {
					t.Outcome("limit/seal-refused")
				}
				// the longest admitted message still works (compared against the reference)
				want, err := aeadref.CCMSeal(ks.ref[0], nonce, big[:65535], nil, ts)
				if err != nil {
					panic("harness: " + err.Error())
				}
				if !t.Guard(kp, func() { ret = a.Seal(nil, nonce, big[:65535], nil) }) && !eq(ret, want) {
					t.Fail(kp+"/seal-65535/mismatch", "nonce size 13: Seal of the longest admitted message differs from the reference at byte %d", engine.FirstDiff(ret, want))
				}
				// Open of 65536 + tag bytes: nothing Seal can have produced
				var oerr error
				if !t.Guard(kp, func() { ret, oerr = a.Open(nil, nonce, big, nil) }) && (oerr == nil || ret != nil) {
					t.Fail(kp+"/open-accepts-message-longer-than-length-field", "nonce size 13 (L=2): Open of a %d-byte input succeeded", len(big))
				}
				t.Eval(3)
				t.Nontrivial("widen-limit/" + variants[vi] + "/" + itoa(ts))
			}
		})
	}
}

// ---------------------------------------------------------------------------------------------
// counter wrap inside the second and later iterations of the 8-block loops (the wrap product of the quick tier
// stops at 223 bytes, i.e. inside the second batch)

func runWrapSweep(c *engine.Ctx) {
	ptLens := []int{239, 240, 241, 255, 256, 257, 271, 272, 273, 383, 384, 385, 399, 400, 401}
	upper := []byte{0x6b, 0x00, 0xfe, 0x81, 0x7f, 0xff, 0xff, 0xff, 0x12, 0xff, 0xff, 0xff}
	for vi := range variants {
		for _, ns := range []int{16, 17} {
			vi, ns := vi, ns
			c.Case(fmt.Sprintf("widen-sweep/gcm-wrap/%s/nonce=%d", variants[vi], ns), func(t *engine.T) {
				ks := newKeyset()
				set := &gcmSet{ks: ks, variant: vi, m: map[[3]int]cipher.AEAD{}}
				mx := ptLens[len(ptLens)-1]
				w := newWork(mx, 128, 16)
				defer w.release(t, "gcm/"+variants[vi])
				gPT := w.get("plaintext", mx)
				for pi, n := range ptLens {
					pt := tail(gPT, n)
					fill(pt, uint32(21000+n))
					for low := 0; low < 16; low++ {
						key := (pi + low) % len(keyBytes)
						a := set.get(t, key, combo{ns, 16})
						if a == nil {
							continue
						}
						var j0 [16]byte
						copy(j0[:], upper)
						j0[12], j0[13], j0[14], j0[15] = 0xff, 0xff, 0xff, byte(0xf0+low)
						nn, err := aeadref.GCMNonceForJ0(ks.ref[key], j0, filled(ns-16, uint32(ns*37+low)))
						if err != nil {
							panic("harness: " + err.Error())
						}
						nonce := tail(w.nonce, ns)
						copy(nonce, nn)
						aad := tail(w.aad, 0)
						info := &callInfo{kp: gcmKP(vi, a, "wrap", 16), nonce: nonce, aad: aad, want: aeadref.GCMSeal(ks.ref[key], nonce, pt, aad, 16), pt: pt, ts: 16}
						t.Guard(info.kp, func() {
							w.sealAll(t, a, info)
							w.openAll(t, a, info)
						})
						t.Nontrivial("widen-gcm-wrap/" + variants[vi] + "/" + itoa(n) + "/" + itoa(ns) + "/" + itoa(low))
					}
				}
				t.Outcome("widen-gcm-wrap/checked")
			})
		}
	}
}

// ---------------------------------------------------------------------------------------------
// every single bit of nonce, additional data, ciphertext and tag (the tamper product substitutes two values per byte)

func runBits(c *engine.Ctx) {
	sizes := [][2]int{{0, 0}, {1, 1}, {17, 5}, {33, 16}}
	for vi := range variants {
		vi := vi
		c.Case("widen-bits/"+variants[vi]+"/every-single-bit-flip", func(t *engine.T) {
			for si, sp := range repSpecs {
				oc := newObjCache(t, vi, sp)
				for zi, sz := range sizes {
					o := oc.get((si + zi) % len(keyBytes))
					if o == nil {
						continue
					}
					n, al := sz[0], sz[1]
					pt, aad, nonce := filled(n, uint32(22000+n)), filled(al, uint32(22100+al)), filled(sp.cb.ns, uint32(22200+si+zi))
					ct := o.refSeal(nonce, pt, aad)
					buf := make([]byte, len(ct))
					fields := []struct {
						name string
						b    []byte
					}{{"nonce", nonce}, {"aad", aad}, {"ciphertext", ct[:n]}, {"tag", ct[n:]}}
					for _, f := range fields {
						for i := range f.b {
							for bit := 0; bit < 8; bit++ {
								f.b[i] ^= 1 << bit
								var ret []byte
								var err error
								desc := fmt.Sprintf("%v pt=%d aad=%d: bit %d of %s[%d] flipped", sp, n, al, bit, f.name, i)
								copy(buf, ct)
								if !t.Guard(o.kp+"/open", func() { ret, err = o.a.Open(buf[:0], nonce, buf, aad) }) {
									switch {
									case err == nil:
										if !o.refOpens(nonce, ct, aad) {
											t.Fail(o.kp+"/tamper-"+f.name+"/accepted", "%s: Open accepted the corrupted input", desc)
										}
									case ret != nil:
										t.Fail(o.kp+"/tamper/non-nil-result", "%s: Open returned an error together with a non-nil slice", desc)
									case !allEq(buf[:n], 0):
										t.Fail(o.kp+"/tamper/output-not-zeroed", "%s: after the failed in-place Open the output region holds %s", desc, engine.Hex(buf[:n]))
									default:
										t.Outcome("bits/rejected")
									}
								}
								t.Eval(1)
								f.b[i] ^= 1 << bit
							}
						}
					}
					t.Nontrivial("widen-bits/" + variants[vi] + "/" + sp.String() + "/" + itoa(n) + "/" + itoa(al))
				}
			}
		})
	}
}
