package c04

import (
	"crypto/cipher"
	"runtime/debug"
	"strings"
	"unsafe"

	"verif/engine"
)

// work holds the guard buffers of one case. Every slice handed to the library is the tail of one of
// them, so it ends exactly at a PROT_NONE page (over-reads / over-writes crash the worker, which the
// engine records against the case) and the bytes in front of it are checked as a canary.
type work struct {
	pool        engine.Pool
	out, ip, ct []byte
	nonce, aad  []byte
	maxMsg      int
	pages       []guardPage
}

// guardPage remembers where the PROT_NONE page behind a guard buffer starts.
type guardPage struct {
	name  string
	start uintptr
}

// get allocates a guard buffer and registers its guard page under a name used in fault reports.
func (w *work) get(name string, n int) []byte {
	if n < 1 {
		n = 1
	}
	b := w.pool.Get(n)
	w.pages = append(w.pages, guardPage{name, uintptr(unsafe.Pointer(&b[0])) + uintptr(len(b))})
	return b
}

// guarded runs one library call. A fault on one of the guard pages (the library read or wrote past the end of a
// slice it was given) is turned into a panic by the runtime (debug.SetPanicOnFault) and reported under
// key+"/access-past-end-of-slice"; any other panic is reported under key+"/panic@<gmsm frame>". Returns false
// when the call did not complete.
func (w *work) guarded(t *engine.T, key string, desc func() string, f func()) (ok bool) {
	old := debug.SetPanicOnFault(true)
	defer func() {
		debug.SetPanicOnFault(old)
		r := recover()
		if r == nil {
			return
		}
		ok = false
		frame := gmsmFrame(string(debug.Stack()))
		if a, isFault := r.(interface{ Addr() uintptr }); isFault {
			for _, p := range w.pages {
				if a.Addr() >= p.start && a.Addr() < p.start+4096 {
					t.Fail(key+"/access-past-end-of-slice", "%s: memory access crossing the end of the %s slice handed to the library (fault on the guard page behind it, offset %d) in %s", desc(), p.name, a.Addr()-p.start, frame)
					return
				}
			}
			t.Fail(key+"/fault@"+frame, "%s: fault at unexpected address %#x: %v", desc(), a.Addr(), r)
			return
		}
		t.Fail(key+"/panic@"+frame, "%s: panic: %v", desc(), r)
	}()
	f()
	return true
}

// gmsmFrame returns the innermost function of the gmsm module (or of crypto/...) on a stack dump.
func gmsmFrame(stack string) string {
	fallback := "unknown"
	for _, l := range strings.Split(stack, "\n") {
		if l == "" || l[0] == '\t' || strings.HasPrefix(l, "goroutine ") {
			continue
		}
		fn := l
		if i := strings.LastIndex(fn, "("); i > 0 {
			fn = fn[:i]
		}
		if strings.HasPrefix(fn, "github.com/emmansun/gmsm/") {
			return strings.TrimPrefix(fn, "github.com/emmansun/gmsm/")
		}
		if fallback == "unknown" && strings.HasPrefix(fn, "crypto/") {
			fallback = fn
		}
	}
	return fallback
}

const canary = 32

func newWork(maxMsg, maxNonce, maxAAD int) *work {
	w := &work{maxMsg: maxMsg}
	w.out = w.get("dst", canary+len(prefix)+maxMsg+16)
	w.ip = w.get("in-place-buffer", canary+maxMsg+16+1)
	w.ct = w.get("ciphertext", canary+maxMsg+16+1)
	w.nonce = w.get("nonce", maxNonce)
	w.aad = w.get("aad", maxAAD+1)
	for i := range w.out {
		w.out[i] = spareFill
	}
	for i := range w.ip {
		w.ip[i] = spareFill
	}
	for i := range w.ct {
		w.ct[i] = spareFill
	}
	return w
}

func (w *work) release(t *engine.T, kp string) {
	if !w.pool.Release() {
		t.Fail(kp+"/write-before-buffer", "a canary in front of a guard buffer was overwritten")
	}
}

// region returns the last k bytes of g after checking nothing; canaryOK checks the bytes in front of it.
func canaryOK(g []byte, k int) bool {
	return allEq(g[len(g)-k-canary:len(g)-k], spareFill)
}

func refill(g []byte, k int) {
	r := g[len(g)-k-canary:]
	for i := range r {
		r[i] = spareFill
	}
}

type callInfo struct {
	kp               string // finding-key prefix: <mode>/<variant>:<type>/nonce=<class>/tag=<n>
	nonce, aad, want []byte
	pt               []byte
	ts               int
}

func (ci *callInfo) describe() string {
	return "pt=" + itoa(len(ci.pt)) + " aad=" + itoa(len(ci.aad)) + " nonce(" + itoa(len(ci.nonce)) + ")=" + engine.Hex(ci.nonce) + " tag=" + itoa(ci.ts)
}

func itoa(n int) string {
	if n == 0 {
		return "0"
	}
	neg := n < 0
	if neg {
		n = -n
	}
	var b [20]byte
	i := len(b)
	for n > 0 {
		i--
		b[i] = byte('0' + n%10)
		n /= 10
	}
	if neg {
		i--
		b[i] = '-'
	}
	return string(b[i:])
}

// modeClass is the dst-mode part of a finding key: aliasing (in place) or not.
func modeClass(mode string) string {
	if mode == "inplace" {
		return "inplace"
	}
	return "disjoint"
}

// checkSealed compares a Seal result with prefix pre against the reference output.
func checkSealed(t *engine.T, ci *callInfo, mode string, ret, pre []byte) {
	want := ci.want
	k := ci.kp + "/seal(" + modeClass(mode) + ")"
	if len(ret) != len(pre)+len(want) {
		t.Fail(k+"/length", "dst mode "+mode+", %s: Seal returned %d bytes, want %d+%d", ci.describe(), len(ret), len(pre), len(want))
		return
	}
	if !eq(ret[:len(pre)], pre) {
		t.Fail(k+"/prefix-modified", "%s: dst prefix %x became %x", ci.describe(), pre, ret[:len(pre)])
	}
	got := ret[len(pre):]
	if d := engine.FirstDiff(got, want); d >= 0 {
		what := "ct-mismatch"
		if d >= len(want)-ci.ts {
			what = "tag-mismatch"
		}
		t.Fail(k+"/"+what, "dst mode "+mode+", %s: first difference at byte %d (block %d, tag starts at %d); got %s want %s", ci.describe(), d, d/16, len(want)-ci.ts, engine.Hex(got), engine.Hex(want))
	}
}

// sealAll runs the four Seal dst modes.
func (w *work) sealAll(t *engine.T, a cipher.AEAD, ci *callInfo) {
	n, ts := len(ci.pt), ci.ts
	pt := ci.pt
	key := ci.kp + "/seal"
	var ret []byte
	// nil dst
	if w.guarded(t, key, ci.describe, func() { ret = a.Seal(nil, ci.nonce, pt, ci.aad) }) {
		checkSealed(t, ci, "nil", ret, nil)
	}
	// prefix + exactly fitting capacity (the appended bytes end at the guard page)
	k := len(prefix) + n + ts
	reg := tail(w.out, k)
	copy(reg, prefix)
	if w.guarded(t, key, ci.describe, func() { ret = a.Seal(reg[:len(prefix)], ci.nonce, pt, ci.aad) }) {
		checkSealed(t, ci, "prefix", ret, prefix)
	}
	if !eq(reg[:len(prefix)], prefix) {
		t.Fail(ci.kp+"/seal(disjoint)/prefix-modified", "%s: the caller's dst[:len(dst)] %x became %x", ci.describe(), prefix, reg[:len(prefix)])
	}
	if !canaryOK(w.out, k) {
		t.Fail(ci.kp+"/seal(disjoint)/write-before-dst", "%s: bytes in front of dst were modified", ci.describe())
	}
	refill(w.out, k)
	// in place
	k = n + ts
	buf := tail(w.ip, k)
	copy(buf, pt)
	if w.guarded(t, key, ci.describe, func() { ret = a.Seal(buf[:0], ci.nonce, buf[:n], ci.aad) }) {
		checkSealed(t, ci, "inplace", ret, nil)
	}
	if !canaryOK(w.ip, k) {
		t.Fail(ci.kp+"/seal(inplace)/write-before-dst", "%s: bytes in front of the buffer were modified", ci.describe())
	}
	refill(w.ip, k)
	// prefix + capacity one byte too small: Seal has to move to a new array and must keep the prefix
	d := make([]byte, len(prefix), len(prefix)+n+ts-1)
	copy(d, prefix)
	if w.guarded(t, key, ci.describe, func() { ret = a.Seal(d, ci.nonce, pt, ci.aad) }) {
		checkSealed(t, ci, "grow", ret, prefix)
	}
	if !eq(d, prefix) {
		t.Fail(ci.kp+"/seal(disjoint)/prefix-modified", "%s: the caller's dst[:len(dst)] %x became %x", ci.describe(), prefix, d)
	}
	t.Eval(4)
}

func checkOpened(t *engine.T, ci *callInfo, mode string, ret []byte, err error, pre []byte) {
	k := ci.kp + "/open(" + modeClass(mode) + ")"
	if err != nil {
		t.Fail(k+"/rejected", "dst mode "+mode+", %s: Open of the reference ciphertext failed: %v (ciphertext||tag %s)", ci.describe(), err, engine.Hex(ci.want))
		return
	}
	if len(ret) != len(pre)+len(ci.pt) {
		t.Fail(k+"/length", "%s: Open returned %d bytes, want %d+%d", ci.describe(), len(ret), len(pre), len(ci.pt))
		return
	}
	if !eq(ret[:len(pre)], pre) {
		t.Fail(k+"/prefix-modified", "%s: dst prefix %x became %x", ci.describe(), pre, ret[:len(pre)])
	}
	if d := engine.FirstDiff(ret[len(pre):], ci.pt); d >= 0 {
		t.Fail(k+"/plaintext-mismatch", "dst mode "+mode+", %s: first difference at byte %d (block %d); got %s want %s", ci.describe(), d, d/16, engine.Hex(ret[len(pre):]), engine.Hex(ci.pt))
	}
}

// openAll runs the four Open dst modes on the reference ciphertext.
func (w *work) openAll(t *engine.T, a cipher.AEAD, ci *callInfo) {
	n, ts := len(ci.pt), ci.ts
	src := tail(w.ct, n+ts)
	copy(src, ci.want)
	key := ci.kp + "/open"
	var ret []byte
	var err error
	// nil dst
	if w.guarded(t, key, ci.describe, func() { ret, err = a.Open(nil, ci.nonce, src, ci.aad) }) {
		checkOpened(t, ci, "nil", ret, err, nil)
	}
	// prefix + exactly fitting capacity
	k := len(prefix) + n
	reg := tail(w.out, k)
	copy(reg, prefix)
	if w.guarded(t, key, ci.describe, func() { ret, err = a.Open(reg[:len(prefix)], ci.nonce, src, ci.aad) }) {
		checkOpened(t, ci, "prefix", ret, err, prefix)
	}
	if !eq(reg[:len(prefix)], prefix) {
		t.Fail(ci.kp+"/open(disjoint)/prefix-modified", "%s: the caller's dst[:len(dst)] %x became %x", ci.describe(), prefix, reg[:len(prefix)])
	}
	if !canaryOK(w.out, k) {
		t.Fail(ci.kp+"/open(disjoint)/write-before-dst", "%s: bytes in front of dst were modified", ci.describe())
	}
	refill(w.out, k)
	// prefix + capacity too small
	if n > 0 {
		d := make([]byte, len(prefix), len(prefix)+n-1)
		copy(d, prefix)
		if w.guarded(t, key, ci.describe, func() { ret, err = a.Open(d, ci.nonce, src, ci.aad) }) {
			checkOpened(t, ci, "grow", ret, err, prefix)
		}
		t.Eval(1)
	}
	if !eq(src, ci.want) {
		t.Fail(ci.kp+"/open/input-modified", "%s: Open with a disjoint dst modified its ciphertext argument", ci.describe())
	}
	if !canaryOK(w.ct, n+ts) {
		t.Fail(ci.kp+"/open/write-before-src", "%s: bytes in front of the ciphertext were modified", ci.describe())
	}
	refill(w.ct, n+ts)
	// in place
	k = n + ts
	buf := tail(w.ip, k)
	copy(buf, ci.want)
	if w.guarded(t, key, ci.describe, func() { ret, err = a.Open(buf[:0], ci.nonce, buf, ci.aad) }) {
		checkOpened(t, ci, "inplace", ret, err, nil)
	}
	if !canaryOK(w.ip, k) {
		t.Fail(ci.kp+"/open(inplace)/write-before-dst", "%s: bytes in front of the buffer were modified", ci.describe())
	}
	refill(w.ip, k)
	t.Eval(3)
}

// ---------------------------------------------------------------------------------------------
// E3: tampering

type tamperer struct {
	w       *work
	t       *engine.T
	a       cipher.AEAD
	kp      string
	ts      int
	refOpen func(nonce, ct, aad []byte) bool
	ci      *callInfo
}

// try runs Open on a (presumably) corrupted input in two dst modes and applies the rejection oracle.
func (tp *tamperer) try(field, desc string, nonce, ctT, aad []byte) {
	w, t := tp.w, tp.t
	m := len(ctT)
	outLen := m - tp.ts
	if outLen < 0 {
		outLen = 0
	}
	k := tp.kp + "/tamper"
	kAcc := tp.kp + "/tamper-" + field + "/accepted"
	verdict := 0 // 0 unknown, 1 reference rejects, 2 reference accepts (a genuine collision / untampered)
	refRejects := func() bool {
		if verdict == 0 {
			verdict = 1
			if tp.refOpen(nonce, ctT, aad) {
				verdict = 2
			}
		}
		return verdict == 1
	}
	describe := func() string { return tp.ci.describe() + " " + desc }
	var ret []byte
	var err error
	// dst = prefix + spare capacity prefilled with 0xAA, exactly fitting
	src := tail(w.ct, m)
	copy(src, ctT)
	kk := len(prefix) + outLen
	reg := tail(w.out, kk)
	copy(reg, prefix)
	if w.guarded(t, tp.kp+"/open", describe, func() { ret, err = tp.a.Open(reg[:len(prefix)], nonce, src, aad) }) {
		if err == nil {
			if refRejects() {
				t.Fail(kAcc, "%s: Open(dst=prefix) accepted the corrupted input and returned %d bytes", describe(), len(ret))
			} else {
				t.Outcome("tamper/reference-accepts-too")
			}
		} else {
			if ret != nil {
				t.Fail(k+"/non-nil-result", "%s: Open returned an error together with a non-nil slice of %d bytes", describe(), len(ret))
			}
			if !allEq(reg[len(prefix):], 0) {
				t.Fail(k+"/output-not-zeroed", "%s: after the failed Open the would-be output region dst[len(dst):+%d] holds %s", describe(), outLen, engine.Hex(reg[len(prefix):]))
			}
			t.Outcome("tamper/rejected")
		}
	}
	if !eq(reg[:len(prefix)], prefix) {
		t.Fail(k+"/prefix-modified", "%s: dst[:len(dst)] modified by the failed Open", describe())
	}
	if !canaryOK(w.out, kk) {
		t.Fail(k+"/write-before-dst", "%s: bytes in front of dst were modified", describe())
	}
	refill(w.out, kk)
	refill(w.ct, m)
	// in place
	buf := tail(w.ip, m)
	copy(buf, ctT)
	if w.guarded(t, tp.kp+"/open", describe, func() { ret, err = tp.a.Open(buf[:0], nonce, buf, aad) }) {
		if err == nil {
			if refRejects() {
				t.Fail(kAcc, "%s: Open(in place) accepted the corrupted input and returned %d bytes", describe(), len(ret))
			}
		} else {
			if ret != nil {
				t.Fail(k+"/non-nil-result", "%s: Open returned an error together with a non-nil slice of %d bytes", describe(), len(ret))
			}
			if !allEq(buf[:outLen], 0) {
				t.Fail(k+"/output-not-zeroed", "%s: after the failed in-place Open the output region holds %s", describe(), engine.Hex(buf[:outLen]))
			}
		}
	}
	if !canaryOK(w.ip, m) {
		t.Fail(k+"/write-before-dst", "%s: bytes in front of the in-place buffer were modified", describe())
	}
	refill(w.ip, m)
	t.Eval(2)
}

func subsFor(b byte, thorough bool) []byte {
	if thorough {
		return engine.SmallSubs(b) // superset of {b^01, b^80}
	}
	return []byte{b ^ 0x01, b ^ 0x80}
}

// all enumerates every 1-deviation corruption of (nonce, aad, ciphertext||tag). nonce and aad are mutable
// slices in guard buffers; they are restored after every mutation.
func (tp *tamperer) all(nonce, aad, ct []byte, thorough bool) {
	ts := tp.ts
	// sanity: the untampered input opens (otherwise the rejections below would be vacuous)
	var err0 error
	src0 := tail(tp.w.ct, len(ct))
	copy(src0, ct)
	done := tp.w.guarded(tp.t, tp.kp+"/open", tp.ci.describe, func() { _, err0 = tp.a.Open(nil, nonce, src0, aad) })
	refill(tp.w.ct, len(ct))
	if done && err0 != nil {
		tp.t.Fail(tp.kp+"/open(disjoint)/rejected", "%s: Open of the reference ciphertext failed: %v", tp.ci.describe(), err0)
		return
	}
	for i := range nonce {
		o := nonce[i]
		for _, v := range subsFor(o, thorough) {
			nonce[i] = v
			tp.try("nonce", "nonce["+itoa(i)+"]="+hex2(v), nonce, ct, aad)
		}
		nonce[i] = o
	}
	for i := range aad {
		o := aad[i]
		for _, v := range subsFor(o, thorough) {
			aad[i] = v
			tp.try("aad", "aad["+itoa(i)+"]="+hex2(v), nonce, ct, aad)
		}
		aad[i] = o
	}
	m := make([]byte, len(ct), len(ct)+1)
	for i := range ct {
		copy(m, ct)
		field := "ciphertext"
		if i >= len(ct)-ts {
			field = "tag"
		}
		for _, v := range subsFor(ct[i], thorough) {
			m[i] = v
			tp.try(field, field+"["+itoa(i)+"]="+hex2(v), nonce, m, aad)
		}
	}
	// every truncation of ciphertext||tag, and a one-byte extension
	for l := 0; l < len(ct); l++ {
		tp.try("truncation", "len(ciphertext||tag)="+itoa(l)+" of "+itoa(len(ct)), nonce, ct[:l], aad)
	}
	copy(m, ct)
	tp.try("extension", "ciphertext||tag||00", nonce, append(m, 0), aad)
	// every truncation of the associated data, and a one-byte extension (aad sits in a guard buffer with one spare byte in front)
	full := append([]byte{}, aad...)
	for l := 0; l < len(full); l++ {
		a2 := tail(tp.w.aad, l)
		copy(a2, full[:l])
		tp.try("aad-truncation", "len(aad)="+itoa(l)+" of "+itoa(len(full)), nonce, ct, a2)
	}
	a2 := tail(tp.w.aad, len(full)+1)
	copy(a2, full)
	a2[len(full)] = 0
	tp.try("aad-extension", "aad||00", nonce, ct, a2)
	copy(tail(tp.w.aad, len(full)), full)
}

func hex2(v byte) string {
	const d = "0123456789abcdef"
	return string([]byte{d[v>>4], d[v&15]})
}
