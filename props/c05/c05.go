// Package c05: SM2 curve and scalar-field arithmetic against exact affine big-integer arithmetic (E2), and the
// point decoders against "accept exactly the canonical encodings of on-curve points".
package c05

import (
	"bytes"
	"crypto/elliptic"
	"fmt"
	"math/big"

	"github.com/emmansun/gmsm/ecdh"
	"github.com/emmansun/gmsm/sm2"
	"github.com/emmansun/gmsm/sm2/sm2ec"

	"verif/engine"
	"verif/ref/ecref"
)

type Prop struct{}

func (Prop) ID() string    { return "C05" }
func (Prop) Level() string { return "exploration" }
func (Prop) Configs(tier string) []string {
	// sm2ec dispatch: ADX+BMI2 asm / plain asm (c-nobmi2) / table select with and without AVX2 / fiat-crypto (purego)
	return []string{"c-default", "c-noavx2", "c-nobmi2", "c-purego"}
}
func (Prop) SelfTest() error { return refSelfTest() }
func (Prop) Rule() string {
	return "Internal point API (internal/sm2ec.SM2P256Point through the verifhook overlay): 25 point expressions covering every representation the API can produce (canonical infinity, the infinity returned by scalar multiplication with k = 0 mod n, P+(-P), decoded, compressed-decoded, scalar-mult results, sums, doubles) as first and second operand of Add (all ordered pairs, receiver aliased to either operand, operands left intact, sums and doubles fed back one more level), Double, ScalarMult with 9 scalars, Set and the three encoders. " +
		"E2 full products on sm2ec.P256() (elliptic.Curve + CombinedMult + Inverse), ecdh.P256() and sm2 constructors against affine math/big arithmetic on y^2=x^3-3x+b mod p " +
		"(ecref.Add/Neg only; [k]P = sum of [2^j]P over the bits of the UNREDUCED k, cross-checked against ecref.Mul in SelfTest). " +
		"Scalar alphabet (values up to 2^328, fed as byte strings of length 0..40: minimal, zero-padded to 32/33/40, and every length for the edge family): 0..70, n-3..n+3, 2n-1..2n+1, 3n, n*2^64+-1, " +
		"2^k and 2^k+-1 for k=0..264, every 7-bit Booth-6 window value at each of the 43 window positions the code really uses (bits 6i-1..6i+5; asm and purego both use boothW6 in this tree), " +
		"every 6-bit value at the 43 base-mult positions, every 6-bit (5-bit Booth digit + carry bit) value at 52 positions of stride 5, every 4-bit value at 64 positions, each of these alone and with all higher bits up to 2^256 set, " +
		"runs 1^a0^(256-a), runs between all pairs of 32/64-bit limb edges, every subset of five all-ones 64-bit limbs and single limbs +-1, all-ones / 0x80.. / 0x01.. of every byte length 1..40, and an SM3-chain of dense scalars of 31/32/40 bytes. " +
		"Points: infinity, kG and (n-k)G for k=1..20, nearest on-curve abscissae above/below 0, p-1, 2^32, 2^64, 2^96, 2^128, 2^192, 2^224, 2^255, 2^256-2^224 in both parities, points with y=small and y=p-small, SM3-chain points. " +
		"Enumerated: Add on all ordered pairs and Double on all points; ScalarBaseMult on all scalars x encodings; ScalarMult on all scalars x 12 points, and on every point of the alphabet x {0..70, order family, limb patterns, every Booth-6 window value at every position} (quick: first two families); CombinedMult on an NxN scalar sub-product x 5 points (N=200 thorough, 64 quick); Inverse on all scalars (k mod n != 0: k*inv = 1 mod n and inv<n; k = 0 mod n: no panic); " +
		"ecdh.NewPrivateKey / sm2.NewPrivateKey / sm2.NewPrivateKeyFromInt on all scalars x encodings and on -1..-70 (accept iff 32 bytes and 1<=d<=n-2; d=n-1 may go either way for ecdh; public key = [d]G), ecdh.PrivateKey.ECDH = x([d]Q). " +
		"Decoders (Unmarshal, UnmarshalCompressed, sm2.NewPublicKey, ecdh.P256().NewPublicKey, IsOnCurve): per point every first byte 0..255 on the 65-, 33- and 1-byte bodies, every length 0..70 (truncated / zero-, ff- and self-extended), " +
		"x or y replaced by p, p+coordinate, 2^256-1, coordinate+-1, every single-bit flip of x and y, swapped coordinates; accept iff canonical encoding of an on-curve point in a form the decoder documents; decoded value exact; re-encoding is the identity. " +
		"distinct_nontrivial counts distinct (operation, scalar family, length class, point) classes plus decoder mutation classes. " +
		"Widening in the generic input dimensions (widen*.go; oracles: the specification oracles above, caller memory unchanged, same call gives the same answer, documented 'receiver is unchanged'): " +
		"place/ - every byte-slice argument (scalars of ScalarBaseMult/ScalarMult/CombinedMult and of the internal point type, point encodings of the five decoders, private-key bytes of ecdh/sm2 NewPrivateKey, operands of P256OrdInverse/P256OrdMul/ImplicitSig) in 10 placements: own array with cap=len, ending at a PROT_NONE page, dirty spare capacity of 1 byte / up to a total of 31, 32, 65 bytes / 64 bytes, all arguments of the call back to back in one record with dirty slack in both memory orders, odd start address, one slice for several arguments; every call twice, all memory compared afterwards. " +
		"own/ - every returned *big.Int (whole backing array), byte slice (whole capacity) and key field is overwritten by the harness after comparison, then the call is repeated and a later result is overwritten while an earlier one is re-read; big.Int arguments carry dirty spare words and are compared word by word; curve parameters and [1]G re-checked afterwards. " +
		"ctorarg/ - slices and integers given to ecdh/sm2 NewPrivateKey, NewPrivateKeyFromInt, NewPublicKey and SM2P256Point.SetBytes are unchanged by the constructor, then zeroed / set to ff / reused for the next key; the object (incl. the lazily computed ecdh public key, computed before or after the overwrite) keeps answering. " +
		"integrity/ - refused SetBytes (14 invalid classes x 3 points) and wrong-length ScalarMult/ScalarBaseMult on a receiver holding each point expression leave the receiver unchanged and usable; every decoder on one buffer: invalid, repaired in place, broken again, repaired again, each call twice. " +
		"history/ - every internal operation (Set, SetGenerator, SetBytes, Add over 6x6 operands, Double, ScalarMult, ScalarBaseMult over 12 scalars) with a receiver that already holds each point expression; every ordered pair of 25 representative public calls incl. failing ones as a;b;a; every sequence of three (key, operation) steps over two fresh ecdh keys; two internal points updated alternately by a 96-step program. " +
		"longscalar/ - scalars of 41..1024 bytes (thorough: every length 41..140 and up to 4096) x 9 contents (zero-padded 1 / n-1 / n+1, all ff, top bit only, n*2^k, n*2^k+1, n-1 repeated, SM3 chain) through ScalarBaseMult, ScalarMult, CombinedMult (either or both scalars), refused by the key constructors. " +
		"variant/ - sm2.PublicKeyToECDH on every alphabet point and 8 invalid variants of each, (*sm2.PrivateKey).ECDH() on the scalar alphabet (values with leading zero bytes as a class), SM2P256Point.Select over all pairs x cond x aliasing, nil scalars, Equal of key objects, purego-only Negate. " +
		"ordfield-unreduced/ - operands in [n, 2^256) for P256OrdInverse / P256OrdMul (error, or a value congruent to the exact result). " +
		"bigmod/ - internal/bigmod (the scalar arithmetic of sm2 signing) for the moduli n and p: full product of a boundary alphabet of about 60 (quick) / 70 (thorough) values for Add/Sub/Mul/Equal/CmpGeq and a three-step chain, sum and difference classes, aliased operands, SetBytes/SetOverflowingBytes acceptance and values incl. [m, 2^256), SubOne, SetUint, predicates, Exp (m-2 and 6 other exponents), ExpShortVarTime, InverseVarTime, Mod of double-width products, against math/big."
}
func (Prop) Assumptions() []string {
	return []string{
		"reference: verif/ref/ecref affine arithmetic, curve constants copied from GB/T 32918.5 and anchored by its signature / encryption / key-exchange examples; the table-based [k]P helper is validated against ecref.Mul at start-up",
		"elliptic.Curve methods called on off-curve points answer with a documented panic and are not enumerated; negative big.Int arguments to Inverse are not enumerated",
		"only affine (z=1) inputs can be presented through the public APIs; Jacobian/projective intermediate representations are reached only inside the scalar multiplications",
		"this tree uses 6-bit Booth windows (43 windows) in the assembly AND the purego backend; the 5-bit/4-bit window families of the design are enumerated anyway",
		"dispatch tiers reachable on this amd64 host only (ADX/BMI2 asm, plain asm, AVX2/non-AVX2 table select, purego fiat); arm64/s390x/ppc64le assembly is not covered",
		"widening families: the finding keys of place/, own/, ctorarg/, integrity/, history/ name the operation and the placement / oracle, never the input; bigmod operands always satisfy the documented preconditions (reduced, size of the modulus, odd modulus); operands >= n of the order-field helpers are judged only up to congruence because the helpers document no range; ImplicitSig's sPriv is not fed unreduced; negative arguments of Inverse, GenerateKey (property C12) and the SM2 key agreement built on ImplicitSig (property C08) are not enumerated here",
		"quick tier: ScalarMult runs the full scalar alphabet on 3 of the 12 points (G and chain#0 with all encodings, smally#0 with one) and on the other 9 points the small/order families plus every 6th scalar of the rest with one encoding; CombinedMult sub-product 64x64; 64 instead of 256 chain scalars; ECDH against 1 instead of 3 points; 9 instead of 12 decoder seed points. thorough tier: everything as stated in the rule",
	}
}

type combinedMulter interface {
	CombinedMult(Px, Py *big.Int, s1, s2 []byte) (x, y *big.Int)
}
type inverter interface {
	Inverse(k *big.Int) *big.Int
}

// primary is the encoding used where only one is wanted: 32 bytes when the value fits, else minimal.
func primary(v *big.Int) []byte {
	if v.BitLen() <= 256 {
		return v.FillBytes(make([]byte, 32))
	}
	return v.Bytes()
}

func chunkName(lo, hi int) string { return fmt.Sprintf("%05d..%05d", lo, hi-1) }

func pointClass(name string) string {
	switch {
	case name == "inf":
		return "inf"
	case len(name) > 1 && (name[len(name)-1] == 'G'):
		return "kG"
	default:
		return "special"
	}
}

func (Prop) Run(c *engine.Ctx) {
	quick := c.Quick()
	ref := ecref.SM2()
	curve := sm2ec.P256()
	scalars := scalarAlphabet(quick)
	pts := pointAlphabet(quick)

	c.Case("params", func(t *engine.T) {
		p := curve.Params()
		if p.P.Cmp(ref.P) != 0 || p.N.Cmp(ref.N) != 0 || p.B.Cmp(ref.B) != 0 || p.Gx.Cmp(ref.Gx) != 0 || p.Gy.Cmp(ref.Gy) != 0 || p.BitSize != 256 {
			t.Fail("params/mismatch", "sm2ec.P256().Params() differ from GB/T 32918.5 constants")
		}
		if sm2.P256() != curve {
			t.Fail("params/sm2.P256-not-singleton", "sm2.P256() != sm2ec.P256()")
		}
		t.Eval(1)
		t.Nontrivial("params")
		t.Sample(map[string]any{"scalars": len(scalars), "points": len(pts)})
	})

	runInternal(c)
	runOrdField(c)

	// ---- Add / Double ---------------------------------------------------------------------------------
	for _, p := range pts {
		p := p
		c.Case("add/P="+p.name, func(t *engine.T) {
			px, py := affine(p.p)
			for _, q := range pts {
				qx, qy := affine(q.p)
				want := ref.Add(p.p, q.p)
				shape := "generic"
				switch {
				case p.p.Inf && q.p.Inf:
					shape = "inf+inf"
				case p.p.Inf:
					shape = "inf+Q"
				case q.p.Inf:
					shape = "P+inf"
				case p.p.Equal(q.p):
					shape = "P+P"
				case want.Inf:
					shape = "P+(-P)"
				}
				t.Guard("add/"+shape, func() {
					x, y := curve.Add(px, py, qx, qy)
					if !sameAffine(x, y, want) {
						t.Fail("add/mismatch/"+shape, "Add(%s, %s) = %s want %s", p.name, q.name, pstr(x, y), rstr(want))
					}
				})
				t.Eval(1)
				t.Nontrivial("add/" + shape + "/" + pointClass(p.name) + "/" + pointClass(q.name))
				t.Outcome("add/" + shape)
			}
			want := ref.Add(p.p, p.p)
			t.Guard("double", func() {
				x, y := curve.Double(px, py)
				if !sameAffine(x, y, want) {
					t.Fail("double/mismatch/"+pointClass(p.name), "Double(%s) = %s want %s", p.name, pstr(x, y), rstr(want))
				}
			})
			t.Eval(1)
			t.Nontrivial("double/" + p.name)
			ax, ay := affine(p.p)
			if px.Cmp(ax) != 0 || py.Cmp(ay) != 0 {
				t.Fail("add/input-modified", "Add/Double modified its big.Int arguments for %s", p.name)
			}
			// IsOnCurve: the point itself (infinity (0,0) is documented as rejected) and near misses
			if !p.p.Inf {
				if !curve.IsOnCurve(px, py) {
					t.Fail("isoncurve/rejects-valid", "IsOnCurve(%s) = false", p.name)
				}
				bad := [][2]*big.Int{
					{px, new(big.Int).Add(py, one)}, {px, new(big.Int).Sub(py, one)},
					{new(big.Int).Add(px, one), py}, {py, px},
					{new(big.Int).Add(px, ref.P), py}, {px, new(big.Int).Add(py, ref.P)},
					{new(big.Int).Neg(px), py}, {px, new(big.Int).Neg(py)},
					{new(big.Int).Add(px, pow2(256)), py}, {px, new(big.Int).Add(py, pow2(256))},
					{px, new(big.Int)}, {new(big.Int), py},
				}
				for i, b := range bad {
					if b[0].Cmp(px) == 0 && b[1].Cmp(py) == 0 {
						continue
					}
					// (x+1, y) or (y, x) could be on the curve by accident: ask the reference
					if ref.OnCurve(ecref.Point{X: b[0], Y: b[1]}) {
						continue
					}
					t.Guard("isoncurve", func() {
						if curve.IsOnCurve(b[0], b[1]) {
							t.Fail("isoncurve/accepts-invalid", "IsOnCurve accepts invalid variant #%d of %s: %s", i, p.name, pstr(b[0], b[1]))
						}
					})
					t.Eval(1)
				}
			} else if curve.IsOnCurve(px, py) {
				t.Fail("isoncurve/accepts-invalid", "IsOnCurve(0,0) = true")
			}
		})
	}

	// ---- ScalarBaseMult ------------------------------------------------------------------------------
	const chunk = 512
	for lo := 0; lo < len(scalars); lo += chunk {
		lo, hi := lo, min(lo+chunk, len(scalars))
		c.Case("basemult/"+chunkName(lo, hi), func(t *engine.T) {
			tg := newMulTable(ref, ref.G())
			for _, s := range scalars[lo:hi] {
				want := tg.mul(s.v)
				for _, enc := range encodings(s.v, s.family == "small" || s.family == "order") {
					in := append([]byte{}, enc...)
					t.Guard("basemult", func() {
						x, y := curve.ScalarBaseMult(in)
						if !sameAffine(x, y, want) {
							t.Fail("basemult/mismatch/"+s.family+"/"+lenClass(len(enc)), "ScalarBaseMult(%x (%d bytes)) = %s want %s", enc, len(enc), pstr(x, y), rstr(want))
						}
					})
					if !bytes.Equal(in, enc) {
						t.Fail("basemult/input-modified", "scalar bytes modified")
					}
					t.Eval(1)
					t.Nontrivial("basemult/" + s.family + "/" + lenClass(len(enc)))
				}
				if want.Inf {
					t.Outcome("basemult/inf")
				} else {
					t.Outcome("basemult/finite")
				}
			}
			if lo == 0 {
				t.Sample(map[string]any{"op": "ScalarBaseMult", "scalars": chunkName(lo, hi), "first": sname(scalars[lo].v)})
			}
		})
	}

	// ---- ScalarMult ----------------------------------------------------------------------------------
	mp := multPoints(pts)
	for pi, p := range mp {
		pi, p := pi, p
		allEnc := !quick || pi == 0 || pi == 10
		// quick tier: the full alphabet on three points (G, smally#0, chain#0); on the other nine the small/order
		// families and every 6th scalar of the rest (declared in Assumptions)
		secondary := quick && !(pi == 0 || pi == 8 || pi == 10)
		for lo := 0; lo < len(scalars); lo += chunk {
			lo, hi := lo, min(lo+chunk, len(scalars))
			c.Case("scalarmult/P="+p.name+"/"+chunkName(lo, hi), func(t *engine.T) {
				tp := newMulTable(ref, p.p)
				px, py := affine(p.p)
				for si, s := range scalars[lo:hi] {
					if secondary && s.family != "small" && s.family != "order" && (lo+si)%6 != 0 {
						continue
					}
					want := tp.mul(s.v)
					encs := [][]byte{primary(s.v)}
					if allEnc {
						encs = encodings(s.v, false)
					}
					for _, enc := range encs {
						t.Guard("scalarmult", func() {
							x, y := curve.ScalarMult(px, py, enc)
							if !sameAffine(x, y, want) {
								t.Fail("scalarmult/mismatch/"+s.family+"/"+lenClass(len(enc))+"/P="+pointClass(p.name), "ScalarMult(%s, %x (%d bytes)) = %s want %s", p.name, enc, len(enc), pstr(x, y), rstr(want))
							}
						})
						t.Eval(1)
						t.Nontrivial("scalarmult/" + s.family + "/" + lenClass(len(enc)) + "/" + p.name)
					}
					if want.Inf {
						t.Outcome("scalarmult/inf")
					} else {
						t.Outcome("scalarmult/finite")
					}
				}
				ax, ay := affine(p.p)
				if px.Cmp(ax) != 0 || py.Cmp(ay) != 0 {
					t.Fail("scalarmult/input-modified", "ScalarMult modified its point arguments")
				}
				if lo == 0 && pi == 1 {
					t.Sample(map[string]any{"op": "ScalarMult", "point": p.name, "scalars": chunkName(lo, hi)})
				}
			})
		}
	}

	// ---- ScalarMult on every point of the alphabet with the families that exercise the per-point table -------
	for _, p := range pts {
		p := p
		c.Case("scalarmult-allpoints/P="+p.name, func(t *engine.T) {
			tp := newMulTable(ref, p.p)
			px, py := affine(p.p)
			for _, s := range scalars {
				switch s.family {
				case "small", "order":
				case "limb", "w7booth6/lo":
					if quick {
						continue
					}
				default:
					continue
				}
				want := tp.mul(s.v)
				enc := primary(s.v)
				t.Guard("scalarmult", func() {
					x, y := curve.ScalarMult(px, py, enc)
					if !sameAffine(x, y, want) {
						t.Fail("scalarmult/mismatch/"+s.family+"/"+lenClass(len(enc))+"/P="+pointClass(p.name), "ScalarMult(%s, %x (%d bytes)) = %s want %s", p.name, enc, len(enc), pstr(x, y), rstr(want))
					}
				})
				t.Eval(1)
				t.Nontrivial("scalarmult/" + s.family + "/" + lenClass(len(enc)) + "/" + p.name)
			}
		})
	}

	// ---- CombinedMult --------------------------------------------------------------------------------
	if cm, ok := curve.(combinedMulter); ok {
		N := 200
		if quick {
			N = 64
		}
		sub := subAlphabet(scalars, N)
		cpts := []npoint{findPoint(pts, "1G"), findPoint(pts, "(n-1)G"), findPoint(pts, "2G"), findPoint(pts, "chain#0"), findPoint(pts, "inf")}
		const rows = 8
		for _, p := range cpts {
			p := p
			for lo := 0; lo < len(sub); lo += rows {
				lo, hi := lo, min(lo+rows, len(sub))
				c.Case(fmt.Sprintf("combined/P=%s/s1=%s", p.name, chunkName(lo, hi)), func(t *engine.T) {
					tg := newMulTable(ref, ref.G())
					tp := newMulTable(ref, p.p)
					px, py := affine(p.p)
					bp := make([]ecref.Point, len(sub))
					for j, s2 := range sub {
						bp[j] = tp.mul(s2.v)
					}
					for i := lo; i < hi; i++ {
						s1 := sub[i]
						g1 := tg.mul(s1.v)
						for j, s2 := range sub {
							want := ref.Add(g1, bp[j])
							rel := "generic"
							switch {
							case p.p.Inf:
								rel = "P=inf"
							case g1.Inf || bp[j].Inf:
								rel = "one-summand-inf"
							case want.Inf:
								rel = "summands-opposite"
							case g1.Equal(bp[j]):
								rel = "summands-equal"
							}
							e1, e2 := primary(s1.v), primary(s2.v)
							if (i+j)%5 == 0 { // a fifth of the grid with minimal / 33-byte encodings
								e1 = s1.v.Bytes()
								e2 = s2.v.FillBytes(make([]byte, max(33, len(s2.v.Bytes()))))
							}
							t.Guard("combined", func() {
								x, y := cm.CombinedMult(px, py, e1, e2)
								if !sameAffine(x, y, want) {
									t.Fail("combined/mismatch/"+rel, "CombinedMult(%s, s1=%x, s2=%x) = %s want %s", p.name, e1, e2, pstr(x, y), rstr(want))
								}
							})
							t.Eval(1)
							t.Nontrivial("combined/" + rel + "/" + s1.family + "/" + s2.family + "/" + p.name)
							t.Outcome("combined/" + rel)
						}
					}
				})
			}
		}
	} else {
		c.Case("combined/missing", func(t *engine.T) {
			t.Eval(1)
			t.Fail("combined/interface-missing", "sm2ec.P256() does not implement CombinedMult")
		})
	}

	// ---- Inverse mod n -------------------------------------------------------------------------------
	inv, hasInv := curve.(inverter)
	const ichunk = 4096
	for lo := 0; lo < len(scalars); lo += ichunk {
		lo, hi := lo, min(lo+ichunk, len(scalars))
		c.Case("inverse/"+chunkName(lo, hi), func(t *engine.T) {
			if !hasInv {
				t.Eval(1)
				t.Fail("inverse/interface-missing", "sm2ec.P256() does not implement Inverse")
				return
			}
			for _, s := range scalars[lo:hi] {
				k := new(big.Int).Set(s.v)
				km := new(big.Int).Mod(k, ref.N)
				t.Guard("inverse", func() {
					r := inv.Inverse(k)
					if km.Sign() == 0 {
						t.Outcome("inverse/zero")
						return // no inverse exists; only "no panic" is required
					}
					if r == nil {
						t.Fail("inverse/mismatch/"+s.family, "Inverse(%x) = nil", s.v)
						return
					}
					chk := new(big.Int).Mul(r, km)
					chk.Mod(chk, ref.N)
					if r.Sign() < 0 || r.Cmp(ref.N) >= 0 || chk.Cmp(one) != 0 {
						t.Fail("inverse/mismatch/"+s.family, "Inverse(%x) = %x: k*inv mod n = %x (want 1, 0<=inv<n)", s.v, r, chk)
					}
					t.Outcome("inverse/ok")
				})
				if k.Cmp(s.v) != 0 {
					t.Fail("inverse/input-modified", "Inverse modified its argument")
				}
				t.Eval(1)
				cls := "<n"
				if s.v.Cmp(ref.N) >= 0 {
					cls = ">=n"
				}
				t.Nontrivial("inverse/" + s.family + "/" + cls)
			}
		})
	}

	// ---- constructors: ecdh.P256().NewPrivateKey, sm2.NewPrivateKey(FromInt), ECDH ----------------------
	ecdhPts := []npoint{findPoint(pts, "2G"), findPoint(pts, "chain#0"), findPoint(pts, "largey#0")}
	if quick {
		ecdhPts = ecdhPts[1:2]
	}
	nMinus1 := new(big.Int).Sub(ref.N, one)
	for lo := 0; lo < len(scalars); lo += chunk {
		lo, hi := lo, min(lo+chunk, len(scalars))
		c.Case("ctor/"+chunkName(lo, hi), func(t *engine.T) {
			tg := newMulTable(ref, ref.G())
			var tq []*mulTable
			var qpub []*ecdh.PublicKey
			for _, q := range ecdhPts {
				tq = append(tq, newMulTable(ref, q.p))
				pk, err := ecdh.P256().NewPublicKey(q.p.Uncompressed())
				if err != nil {
					t.Fail("decode/ecdh.NewPublicKey/rejects-valid", "ecdh.NewPublicKey(%s): %v", q.name, err)
					return
				}
				qpub = append(qpub, pk)
			}
			for _, s := range scalars[lo:hi] {
				inRange := s.v.Sign() > 0 && s.v.Cmp(nMinus1) < 0
				isNm1 := s.v.Cmp(nMinus1) == 0
				var pub ecref.Point
				if inRange || isNm1 {
					pub = tg.mul(s.v)
				}
				for _, enc := range encodings(s.v, s.family == "order") {
					valid := inRange && len(enc) == 32
					cls := s.family + "/" + lenClass(len(enc))
					// ecdh
					t.Guard("ctor/ecdh.NewPrivateKey", func() {
						k, err := ecdh.P256().NewPrivateKey(enc)
						t.Eval(1)
						switch {
						case err != nil && valid:
							t.Fail("ctor/ecdh.NewPrivateKey/rejects-valid/"+cls, "NewPrivateKey(%x): %v", enc, err)
						case err == nil && !valid && !(isNm1 && len(enc) == 32):
							t.Fail("ctor/ecdh.NewPrivateKey/accepts-invalid/"+cls, "NewPrivateKey(%x (%d bytes)) accepted", enc, len(enc))
						case err == nil:
							t.Outcome("ecdh.NewPrivateKey/accept")
							if !bytes.Equal(k.Bytes(), enc) {
								t.Fail("ctor/ecdh.NewPrivateKey/bytes", "Bytes() = %x want %x", k.Bytes(), enc)
							}
							if got := k.PublicKey().Bytes(); !bytes.Equal(got, pub.Uncompressed()) {
								t.Fail("ctor/ecdh.PublicKey/mismatch/"+s.family, "PublicKey(d=%x) = %x want %x", enc, got, pub.Uncompressed())
							}
							for qi, q := range ecdhPts {
								want := tq[qi].mul(s.v)
								got, err := k.ECDH(qpub[qi])
								t.Eval(1)
								if err != nil || want.Inf || !bytes.Equal(got, ecref.Bytes32(want.X)) {
									t.Fail("ecdh/ECDH/mismatch/"+s.family, "ECDH(d=%x, Q=%s) = %x, %v; want x = %s", enc, q.name, got, err, rstr(want))
								}
								t.Nontrivial("ecdh/" + s.family + "/" + q.name)
							}
						default:
							t.Outcome("ecdh.NewPrivateKey/reject")
						}
					})
					// sm2
					t.Guard("ctor/sm2.NewPrivateKey", func() {
						k, err := sm2.NewPrivateKey(enc)
						t.Eval(1)
						switch {
						case err != nil && valid:
							t.Fail("ctor/sm2.NewPrivateKey/rejects-valid/"+cls, "NewPrivateKey(%x): %v", enc, err)
						case err == nil && !valid:
							t.Fail("ctor/sm2.NewPrivateKey/accepts-invalid/"+cls, "NewPrivateKey(%x (%d bytes)) accepted", enc, len(enc))
						case err == nil:
							t.Outcome("sm2.NewPrivateKey/accept")
							if k.D.Cmp(s.v) != 0 || k.Curve != curve || !sameAffine(k.X, k.Y, pub) || pub.Inf {
								t.Fail("ctor/sm2.NewPrivateKey/mismatch/"+s.family, "NewPrivateKey(%x): D=%x pub=%s want %s", enc, k.D, pstr(k.X, k.Y), rstr(pub))
							}
						default:
							t.Outcome("sm2.NewPrivateKey/reject")
						}
					})
					t.Nontrivial("ctor/" + cls)
				}
				if s.family == "small" && s.v.Sign() > 0 {
					t.Guard("ctor/sm2.NewPrivateKeyFromInt", func() {
						neg := new(big.Int).Neg(s.v)
						t.Eval(1)
						if k, err := sm2.NewPrivateKeyFromInt(neg); err == nil {
							t.Fail("ctor/sm2.NewPrivateKeyFromInt/accepts-negative", "NewPrivateKeyFromInt(%d) accepted (D=%x); documented range is [1, n-2]", neg, k.D)
						}
					})
				}
				t.Guard("ctor/sm2.NewPrivateKeyFromInt", func() {
					k, err := sm2.NewPrivateKeyFromInt(new(big.Int).Set(s.v))
					t.Eval(1)
					switch {
					case err != nil && inRange:
						t.Fail("ctor/sm2.NewPrivateKeyFromInt/rejects-valid/"+s.family, "NewPrivateKeyFromInt(%x): %v", s.v, err)
					case err == nil && !inRange:
						t.Fail("ctor/sm2.NewPrivateKeyFromInt/accepts-invalid/"+s.family, "NewPrivateKeyFromInt(%x) accepted", s.v)
					case err == nil:
						if k.D.Cmp(s.v) != 0 || !sameAffine(k.X, k.Y, pub) {
							t.Fail("ctor/sm2.NewPrivateKeyFromInt/mismatch/"+s.family, "NewPrivateKeyFromInt(%x): D=%x pub=%s want %s", s.v, k.D, pstr(k.X, k.Y), rstr(pub))
						}
					}
				})
			}
		})
	}

	// ---- decoders ------------------------------------------------------------------------------------
	dnames := []string{"1G", "(n-1)G", "x>=0/y0", "x>=0/y1", "x<p/y0", "x<p/y1", "smally#0", "largey#0", "x<2^224/y1", "chain#0", "chain#1", "7G"}
	if quick {
		dnames = dnames[:9]
	}
	for _, dn := range dnames {
		p := findPoint(pts, dn)
		c.Case("decode/P="+p.name, func(t *engine.T) { decodeCase(t, curve, ref, p) })
	}
	c.Case("decode/short-and-infinity", func(t *engine.T) { decodeShort(t, curve) })
	c.Case("decode/canonical-all-points", func(t *engine.T) {
		decs := decoders(curve)
		for _, p := range pts {
			if p.p.Inf {
				continue
			}
			checkDecode(t, ref, decs, mutant{"canonical/65", p.p.Uncompressed()})
			checkDecode(t, ref, decs, mutant{"canonical/33", p.p.Compressed()})
			neg := ref.Neg(p.p)
			checkDecode(t, ref, decs, mutant{"canonical/33", neg.Compressed()})
		}
	})

	// ---- widening in the generic input dimensions (widen*.go) ------------------------------------------
	runWiden(c, pts, scalars)
}

// subAlphabet picks n scalars for the CombinedMult grid: the edge values first, then an even stride through
// the rest of the alphabet (deterministic).
func subAlphabet(all []scalar, n int) []scalar {
	var out []scalar
	seen := map[int]bool{}
	take := func(i int) {
		if !seen[i] && len(out) < n {
			seen[i] = true
			out = append(out, all[i])
		}
	}
	for i, s := range all {
		if s.family == "order" || (s.family == "small" && s.v.Cmp(big.NewInt(6)) <= 0) {
			take(i)
		}
	}
	// 2^255, 2^256-1, 2^256, 2^256+1
	for i, s := range all {
		if s.family == "pow2" && s.v.BitLen() >= 256 && s.v.BitLen() <= 257 {
			take(i)
		}
	}
	rest := n - len(out)
	if rest > 0 {
		step := len(all) / rest
		if step < 1 {
			step = 1
		}
		for i := step / 2; i < len(all); i += step {
			take(i)
		}
	}
	for i := 0; len(out) < n && i < len(all); i++ {
		take(i)
	}
	return out
}

var _ = elliptic.Marshal
