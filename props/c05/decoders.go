package c05

import (
	"bytes"
	"crypto/elliptic"
	"fmt"
	"math/big"

	"github.com/emmansun/gmsm/ecdh"
	"github.com/emmansun/gmsm/sm2"

	"verif/engine"
	"verif/ref/ecref"
)

// refDecode is the reference decoder: SEC 1 §2.3.4 restricted to canonical encodings of finite on-curve points.
// form is "uncompressed" (04||X||Y, 65 bytes), "compressed" (02|03||X, 33 bytes) or "" (invalid).
func refDecode(c *ecref.Curve, b []byte) (form string, p ecref.Point) {
	switch {
	case len(b) == 65 && b[0] == 4:
		x, y := new(big.Int).SetBytes(b[1:33]), new(big.Int).SetBytes(b[33:])
		q := ecref.Point{X: x, Y: y}
		if x.Cmp(c.P) < 0 && y.Cmp(c.P) < 0 && c.OnCurve(q) {
			return "uncompressed", q
		}
	case len(b) == 33 && (b[0] == 2 || b[0] == 3):
		x := new(big.Int).SetBytes(b[1:])
		if x.Cmp(c.P) < 0 {
			if q, ok := c.LiftX(x, uint(b[0]&1)); ok {
				return "compressed", q
			}
		}
	}
	return "", ecref.Point{}
}

type unmarshaler interface {
	Unmarshal([]byte) (x, y *big.Int)
}
type unmarshalerC interface {
	UnmarshalCompressed([]byte) (x, y *big.Int)
}

type decoder struct {
	name string
	form string // the form the decoder documents
	// f returns (accepted, x, y, re-encoding)
	f func(b []byte) (bool, *big.Int, *big.Int, []byte)
}

func decoders(curve elliptic.Curve) []decoder {
	return []decoder{
		{"sm2ec.Unmarshal", "uncompressed", func(b []byte) (bool, *big.Int, *big.Int, []byte) {
			x, y := curve.(unmarshaler).Unmarshal(b)
			x2, y2 := elliptic.Unmarshal(curve, b)
			if (x == nil) != (x2 == nil) || (x != nil && (x.Cmp(x2) != 0 || y.Cmp(y2) != 0)) {
				return true, big.NewInt(-1), big.NewInt(-1), nil // method and elliptic.Unmarshal disagree: forces a report
			}
			if x == nil || y == nil {
				return false, nil, nil, nil
			}
			return true, x, y, elliptic.Marshal(curve, x, y)
		}},
		{"sm2ec.UnmarshalCompressed", "compressed", func(b []byte) (bool, *big.Int, *big.Int, []byte) {
			x, y := curve.(unmarshalerC).UnmarshalCompressed(b)
			if x == nil || y == nil {
				return false, nil, nil, nil
			}
			return true, x, y, elliptic.MarshalCompressed(curve, x, y)
		}},
		{"sm2.NewPublicKey", "uncompressed", func(b []byte) (bool, *big.Int, *big.Int, []byte) {
			k, err := sm2.NewPublicKey(b)
			if err != nil {
				return false, nil, nil, nil
			}
			return true, k.X, k.Y, elliptic.Marshal(k.Curve, k.X, k.Y)
		}},
		{"ecdh.NewPublicKey", "uncompressed", func(b []byte) (bool, *big.Int, *big.Int, []byte) {
			k, err := ecdh.P256().NewPublicKey(b)
			if err != nil {
				return false, nil, nil, nil
			}
			e := k.Bytes()
			if len(e) != 65 {
				return true, big.NewInt(-1), big.NewInt(-1), e
			}
			return true, new(big.Int).SetBytes(e[1:33]), new(big.Int).SetBytes(e[33:]), e
		}},
	}
}

type mutant struct {
	class string
	b     []byte
}

func cat(parts ...[]byte) []byte {
	var r []byte
	for _, p := range parts {
		r = append(r, p...)
	}
	return r
}

func b32(v *big.Int) []byte {
	// 32-byte encoding of v mod 2^256 (callers only pass values < 2^256)
	return v.FillBytes(make([]byte, 32))
}

func pointMutants(c *ecref.Curve, p ecref.Point) []mutant {
	var out []mutant
	X, Y := ecref.Bytes32(p.X), ecref.Bytes32(p.Y)
	par := byte(2 | p.Y.Bit(0))
	// 1. every first byte on the three body lengths
	for fb := 0; fb < 256; fb++ {
		out = append(out, mutant{"firstbyte/65", cat([]byte{byte(fb)}, X, Y)})
		out = append(out, mutant{"firstbyte/33", cat([]byte{byte(fb)}, X)})
		out = append(out, mutant{"firstbyte/1", []byte{byte(fb)}})
	}
	// 2. every length 0..70
	bases := []struct {
		n string
		b []byte
	}{{"04", cat([]byte{4}, X, Y)}, {"comp", cat([]byte{par}, X)}, {"02", cat([]byte{2}, X, Y)}, {"03", cat([]byte{3}, X, Y)},
		{"00", cat([]byte{0}, X, Y)}, {"06", cat([]byte{6}, X, Y)}, {"07", cat([]byte{7}, X, Y)}}
	for _, base := range bases {
		for L := 0; L <= 70; L++ {
			for _, padk := range []string{"zero", "ff", "self"} {
				b := make([]byte, L)
				for i := range b {
					switch {
					case i < len(base.b):
						b[i] = base.b[i]
					case padk == "ff":
						b[i] = 0xff
					case padk == "self":
						b[i] = base.b[i%len(base.b)]
					}
				}
				out = append(out, mutant{"length/" + base.n, b})
				if L <= len(base.b) {
					break // truncations do not depend on the pad
				}
			}
		}
	}
	// 3. coordinate substitutions
	lim := pow2(256)
	subs := func(v *big.Int) map[string]*big.Int {
		m := map[string]*big.Int{
			"p": c.P, "2^256-1": new(big.Int).Sub(lim, one), "+1": new(big.Int).Add(v, one), "-1": new(big.Int).Sub(v, one),
			"0": big.NewInt(0), "neg": new(big.Int).Mod(new(big.Int).Neg(v), c.P), "p-1": new(big.Int).Sub(c.P, one), "p+1": new(big.Int).Add(c.P, one),
		}
		if pv := new(big.Int).Add(c.P, v); pv.Cmp(lim) < 0 {
			m["p+v"] = pv
		}
		return m
	}
	order := []string{"p", "p+v", "2^256-1", "+1", "-1", "0", "neg", "p-1", "p+1"}
	sx, sy := subs(p.X), subs(p.Y)
	for _, k := range order {
		if v, ok := sx[k]; ok && v.Sign() >= 0 && v.Cmp(lim) < 0 {
			out = append(out, mutant{"x=" + k + "/65", cat([]byte{4}, b32(v), Y)})
			out = append(out, mutant{"x=" + k + "/33", cat([]byte{2}, b32(v))})
			out = append(out, mutant{"x=" + k + "/33", cat([]byte{3}, b32(v))})
		}
		if v, ok := sy[k]; ok && v.Sign() >= 0 && v.Cmp(lim) < 0 {
			out = append(out, mutant{"y=" + k + "/65", cat([]byte{4}, X, b32(v))})
		}
	}
	if pv, ok := sx["p+v"]; ok {
		if qv, ok := sy["p+v"]; ok {
			out = append(out, mutant{"x=p+v,y=p+v/65", cat([]byte{4}, b32(pv), b32(qv))})
		}
	}
	// 4. single-bit flips of the coordinates
	for i := 0; i < 256; i++ {
		fx := append([]byte{}, X...)
		fx[i/8] ^= 0x80 >> uint(i%8)
		fy := append([]byte{}, Y...)
		fy[i/8] ^= 0x80 >> uint(i%8)
		out = append(out, mutant{"bitflip-x/65", cat([]byte{4}, fx, Y)})
		out = append(out, mutant{"bitflip-y/65", cat([]byte{4}, X, fy)})
		out = append(out, mutant{"bitflip-x/33", cat([]byte{2}, fx)})
		out = append(out, mutant{"bitflip-x/33", cat([]byte{3}, fx)})
	}
	// 5. the other parity (a valid encoding of -P) and swapped coordinates
	out = append(out, mutant{"other-parity/33", cat([]byte{par ^ 1}, X)})
	out = append(out, mutant{"swapped/65", cat([]byte{4}, Y, X)})
	out = append(out, mutant{"canonical/65", cat([]byte{4}, X, Y)})
	out = append(out, mutant{"canonical/33", cat([]byte{par}, X)})
	return out
}

func checkDecode(t *engine.T, c *ecref.Curve, decs []decoder, m mutant) {
	form, want := refDecode(c, m.b)
	for _, d := range decs {
		in := append([]byte{}, m.b...)
		t.Guard("decode/"+d.name, func() {
			ok, x, y, re := d.f(in)
			t.Eval(1)
			expect := form == d.form
			switch {
			case ok && !expect:
				t.Fail("decode/"+d.name+"/accepts-invalid/"+m.class, "%s accepts %x (%d bytes); reference: %q; decoded %s", d.name, m.b, len(m.b), form, pstr(x, y))
			case !ok && expect:
				t.Fail("decode/"+d.name+"/rejects-valid/"+m.class, "%s rejects the canonical %s encoding %x", d.name, form, m.b)
			case ok:
				if !sameAffine(x, y, want) || want.Inf {
					t.Fail("decode/"+d.name+"/wrong-value/"+m.class, "%s(%x) = %s want %s", d.name, m.b, pstr(x, y), rstr(want))
				}
				if !bytes.Equal(re, m.b) {
					t.Fail("decode/"+d.name+"/roundtrip/"+m.class, "encode(decode(%x)) = %x", m.b, re)
				}
				t.Outcome("decode/" + d.name + "/accept")
			default:
				t.Outcome("decode/" + d.name + "/reject")
			}
		})
		if !bytes.Equal(in, m.b) {
			t.Fail("decode/"+d.name+"/input-modified", "input modified")
		}
	}
	v := "invalid"
	if form != "" {
		v = form
	}
	t.Nontrivial("decode/" + m.class + "/" + v)
}

func decodeCase(t *engine.T, curve elliptic.Curve, c *ecref.Curve, p npoint) {
	decs := decoders(curve)
	ms := pointMutants(c, p.p)
	for _, m := range ms {
		checkDecode(t, c, decs, m)
	}
	t.Sample(map[string]any{"op": "decoders", "point": p.name, "mutants": len(ms), "example": fmt.Sprintf("%x", ms[len(ms)-3].b)})
}

// decodeShort: all byte strings of length 0, 1, 2 (none is a valid encoding for any of the four decoders; the
// one-byte 00 "infinity" encoding is documented as rejected by all of them).
func decodeShort(t *engine.T, curve elliptic.Curve) {
	c := ecref.SM2()
	decs := decoders(curve)
	checkDecode(t, c, decs, mutant{"short/0", []byte{}})
	checkDecode(t, c, decs, mutant{"short/0", nil})
	for a := 0; a < 256; a++ {
		checkDecode(t, c, decs, mutant{"short/1", []byte{byte(a)}})
		for b := 0; b < 256; b++ {
			checkDecode(t, c, decs, mutant{"short/2", []byte{byte(a), byte(b)}})
		}
	}
}
