package c05

// Internal point API (internal/sm2ec.SM2P256Point, reached through the verif-tagged overlay package verifhook):
// explicit enumeration of point *expressions*. Every representation of a point that the API itself can produce
// (canonical infinity of NewSM2P256Point, the infinity that ScalarMult / ScalarBaseMult return for k = 0 mod n, the
// infinity of P + (-P), decoded points, scalar-mult results, sums, doubles, re-decoded negatives) is fed as first and as second
// operand into Add, into Double, ScalarMult, Set and the three encoders, also with receiver/operand aliasing,
// and every result is compared with exact affine arithmetic. This is "start from non-initial states": the public
// elliptic.Curve wrapper always re-creates points from affine coordinates, the packages sm2 and ecdh do not.

import (
	"bytes"
	"fmt"
	"math/big"

	vh "github.com/emmansun/gmsm/verifhook"

	"verif/engine"
	"verif/ref/ecref"
)

type ipoint struct {
	name string
	mk   func() *vh.SM2P256Point // fresh object every time (operations may alias / overwrite)
	ref  ecref.Point
}

func mustP(p *vh.SM2P256Point, err error) *vh.SM2P256Point {
	if err != nil {
		panic(fmt.Sprintf("internal point construction failed: %v", err))
	}
	return p
}

func refOfBytes(c *ecref.Curve, b []byte) (ecref.Point, bool) {
	if len(b) == 1 && b[0] == 0 {
		return ecref.Inf(), true
	}
	if len(b) != 65 || b[0] != 4 {
		return ecref.Point{}, false
	}
	p := ecref.Point{X: new(big.Int).SetBytes(b[1:33]), Y: new(big.Int).SetBytes(b[33:])}
	return p, true
}

func encRef(p ecref.Point) []byte {
	if p.Inf {
		return []byte{0}
	}
	return p.Uncompressed()
}

func internalSources(quick bool) []ipoint {
	c := ecref.SM2()
	n := c.N
	G := c.G()
	k7 := big.NewInt(7)
	P := c.BaseMul(k7)
	Pb := P.Uncompressed()
	nm1 := new(big.Int).Sub(n, big.NewInt(1))
	chainK := new(big.Int).SetBytes(chain("internal-k", 1, 32)[0])
	chainK.Mod(chainK, n)
	src := []ipoint{
		{"inf:new", func() *vh.SM2P256Point { return vh.NewSM2P256Point() }, ecref.Inf()},
		{"inf:basemult(0)", func() *vh.SM2P256Point { return mustP(vh.NewSM2P256Point().ScalarBaseMult(b32(big.NewInt(0)))) }, ecref.Inf()},
		{"inf:basemult(n)", func() *vh.SM2P256Point { return mustP(vh.NewSM2P256Point().ScalarBaseMult(b32(n))) }, ecref.Inf()},
		{"inf:mult(G,0)", func() *vh.SM2P256Point {
			return mustP(vh.NewSM2P256Point().ScalarMult(vh.NewSM2P256Point().SetGenerator(), b32(big.NewInt(0))))
		}, ecref.Inf()},
		{"inf:mult(P,n)", func() *vh.SM2P256Point {
			return mustP(vh.NewSM2P256Point().ScalarMult(mustP(vh.NewSM2P256Point().SetBytes(Pb)), b32(n)))
		}, ecref.Inf()},
		{"inf:P+(-P)", func() *vh.SM2P256Point {
			p := mustP(vh.NewSM2P256Point().SetBytes(Pb))
			q := mustP(vh.NewSM2P256Point().SetBytes(c.Neg(P).Uncompressed()))
			return vh.NewSM2P256Point().Add(p, q)
		}, ecref.Inf()},
		{"inf:setbytes(00)", func() *vh.SM2P256Point { return mustP(vh.NewSM2P256Point().SetBytes([]byte{0})) }, ecref.Inf()},
		{"inf:mult(inf,5)", func() *vh.SM2P256Point {
			return mustP(vh.NewSM2P256Point().ScalarMult(vh.NewSM2P256Point(), b32(big.NewInt(5))))
		}, ecref.Inf()},
		{"G:generator", func() *vh.SM2P256Point { return vh.NewSM2P256Point().SetGenerator() }, G},
		{"G:setbytes", func() *vh.SM2P256Point { return mustP(vh.NewSM2P256Point().SetBytes(G.Uncompressed())) }, G},
		{"G:basemult(1)", func() *vh.SM2P256Point { return mustP(vh.NewSM2P256Point().ScalarBaseMult(b32(big.NewInt(1)))) }, G},
		{"G:mult(G,n+1 mod n)", func() *vh.SM2P256Point {
			return mustP(vh.NewSM2P256Point().ScalarMult(vh.NewSM2P256Point().SetGenerator(), b32(big.NewInt(1))))
		}, G},
		{"-G:basemult(n-1)", func() *vh.SM2P256Point { return mustP(vh.NewSM2P256Point().ScalarBaseMult(b32(nm1))) }, c.Neg(G)},
		{"-G:setbytes", func() *vh.SM2P256Point { return mustP(vh.NewSM2P256Point().SetBytes(c.Neg(G).Uncompressed())) }, c.Neg(G)},
		{"2G:double", func() *vh.SM2P256Point { return vh.NewSM2P256Point().Double(vh.NewSM2P256Point().SetGenerator()) }, c.Double(G)},
		{"2G:G+G", func() *vh.SM2P256Point {
			return vh.NewSM2P256Point().Add(vh.NewSM2P256Point().SetGenerator(), vh.NewSM2P256Point().SetGenerator())
		}, c.Double(G)},
		{"2G:basemult(2)", func() *vh.SM2P256Point { return mustP(vh.NewSM2P256Point().ScalarBaseMult(b32(big.NewInt(2)))) }, c.Double(G)},
		{"7G:setbytes", func() *vh.SM2P256Point { return mustP(vh.NewSM2P256Point().SetBytes(Pb)) }, P},
		{"7G:compressed", func() *vh.SM2P256Point { return mustP(vh.NewSM2P256Point().SetBytes(P.Compressed())) }, P},
		{"7G:basemult", func() *vh.SM2P256Point { return mustP(vh.NewSM2P256Point().ScalarBaseMult(b32(k7))) }, P},
		{"7G:mult(G,7)", func() *vh.SM2P256Point {
			return mustP(vh.NewSM2P256Point().ScalarMult(vh.NewSM2P256Point().SetGenerator(), b32(k7)))
		}, P},
		{"-7G:mult(7G,n-1)", func() *vh.SM2P256Point {
			return mustP(vh.NewSM2P256Point().ScalarMult(mustP(vh.NewSM2P256Point().SetBytes(Pb)), b32(nm1)))
		}, c.Neg(P)},
		{"kG:basemult(chain)", func() *vh.SM2P256Point { return mustP(vh.NewSM2P256Point().ScalarBaseMult(b32(chainK))) }, c.BaseMul(chainK)},
		{"k7G:mult(7G,chain)", func() *vh.SM2P256Point {
			return mustP(vh.NewSM2P256Point().ScalarMult(mustP(vh.NewSM2P256Point().SetBytes(Pb)), b32(chainK)))
		}, c.Mul(chainK, P)},
	}
	return src
}

func checkIPoint(t *engine.T, key, what string, got *vh.SM2P256Point, want ecref.Point) bool {
	t.Eval(1)
	gb := got.Bytes()
	if !bytes.Equal(gb, encRef(want)) {
		t.Fail(key, "%s: Bytes() = %s, exact arithmetic gives %s", what, engine.Hex(gb), engine.Hex(encRef(want)))
		return false
	}
	// encoders agree with each other and with the reference
	if !want.Inf {
		if cb := got.BytesCompressed(); !bytes.Equal(cb, want.Compressed()) {
			t.Fail("internal/encode/compressed-mismatch", "%s: BytesCompressed() = %x want %x", what, cb, want.Compressed())
		}
		xb, err := got.BytesX()
		if err != nil || !bytes.Equal(xb, ecref.Bytes32(want.X)) {
			t.Fail("internal/encode/x-mismatch", "%s: BytesX() = %x, %v want %x", what, xb, err, want.X)
		}
	} else {
		if _, err := got.BytesX(); err == nil {
			t.Fail("internal/encode/x-of-infinity", "%s: BytesX() of the point at infinity returned no error", what)
		}
		if cb := got.BytesCompressed(); !bytes.Equal(cb, []byte{0}) {
			t.Fail("internal/encode/compressed-infinity", "%s: BytesCompressed() of infinity = %x", what, cb)
		}
	}
	return true
}

func opClass(a, b ipoint) string {
	switch {
	case a.ref.Inf && b.ref.Inf:
		return "inf+inf"
	case a.ref.Inf:
		return "inf+P"
	case b.ref.Inf:
		return "P+inf"
	case a.ref.Equal(b.ref):
		return "P+P"
	case a.ref.Equal(ecref.SM2().Neg(b.ref)):
		return "P+(-P)"
	}
	return "generic"
}

func runInternal(c *engine.Ctx) {
	curve := ecref.SM2()
	src := internalSources(c.Quick())
	scal := []*big.Int{big.NewInt(0), big.NewInt(1), big.NewInt(2), big.NewInt(3), new(big.Int).Sub(curve.N, big.NewInt(1)), new(big.Int).Set(curve.N),
		new(big.Int).Add(curve.N, big.NewInt(1)), new(big.Int).Sub(new(big.Int).Lsh(big.NewInt(1), 256), big.NewInt(1)), new(big.Int).Lsh(big.NewInt(1), 255)}
	for _, a := range src {
		a := a
		c.Case("internal/expr/A="+a.name, func(t *engine.T) {
			// the source itself
			checkIPoint(t, "internal/source/mismatch", a.name, a.mk(), a.ref)
			// unary
			checkIPoint(t, "internal/double/mismatch/"+map[bool]string{true: "inf", false: "P"}[a.ref.Inf], "Double("+a.name+")", vh.NewSM2P256Point().Double(a.mk()), curve.Double(a.ref))
			x := a.mk()
			checkIPoint(t, "internal/double/aliased-mismatch", "q.Double(q), q="+a.name, x.Double(x), curve.Double(a.ref))
			checkIPoint(t, "internal/set/mismatch", "Set("+a.name+")", vh.NewSM2P256Point().Set(a.mk()), a.ref)
			for _, k := range scal {
				kk := new(big.Int).Mod(k, new(big.Int).Lsh(big.NewInt(1), 256))
				got, err := vh.NewSM2P256Point().ScalarMult(a.mk(), b32(kk))
				if err != nil {
					t.Fail("internal/scalarmult/error", "ScalarMult(%s, %x): %v", a.name, kk, err)
					continue
				}
				checkIPoint(t, "internal/scalarmult/mismatch", fmt.Sprintf("ScalarMult(%s, %x)", a.name, kk), got, curve.Mul(kk, a.ref))
				y := a.mk()
				got, err = y.ScalarMult(y, b32(kk))
				if err == nil {
					checkIPoint(t, "internal/scalarmult/aliased-mismatch", fmt.Sprintf("q.ScalarMult(q, %x), q=%s", kk, a.name), got, curve.Mul(kk, a.ref))
				}
			}
			// binary, both operand orders are covered by the outer loop over A
			for _, b := range src {
				want := curve.Add(a.ref, b.ref)
				cls := opClass(a, b)
				what := fmt.Sprintf("Add(%s, %s)", a.name, b.name)
				checkIPoint(t, "internal/add/mismatch/"+cls, what, vh.NewSM2P256Point().Add(a.mk(), b.mk()), want)
				p, q := a.mk(), b.mk()
				checkIPoint(t, "internal/add/aliased-receiver-first/"+cls, "p.Add(p,q): "+what, p.Add(p, q), want)
				p, q = a.mk(), b.mk()
				checkIPoint(t, "internal/add/aliased-receiver-second/"+cls, "q.Add(p,q): "+what, q.Add(p, q), want)
				// operands must be left intact
				p, q = a.mk(), b.mk()
				vh.NewSM2P256Point().Add(p, q)
				checkIPoint(t, "internal/add/operand-modified", "first operand after "+what, p, a.ref)
				checkIPoint(t, "internal/add/operand-modified", "second operand after "+what, q, b.ref)
				// second level: the sum as operand again, (A+B)+A and A+(A+B), and 2(A+B)
				s := vh.NewSM2P256Point().Add(a.mk(), b.mk())
				checkIPoint(t, "internal/add/second-level/sum-first", "("+what+") + "+a.name, vh.NewSM2P256Point().Add(s, a.mk()), curve.Add(want, a.ref))
				checkIPoint(t, "internal/add/second-level/sum-second", a.name+" + ("+what+")", vh.NewSM2P256Point().Add(a.mk(), s), curve.Add(a.ref, want))
				checkIPoint(t, "internal/double/second-level", "Double("+what+")", vh.NewSM2P256Point().Double(s), curve.Double(want))
				t.Nontrivial("internal/" + a.name + "/" + b.name)
				t.Outcome("internal/" + cls)
			}
			if a.name == "inf:mult(P,n)" {
				t.Sample(map[string]any{"internal_expression": "Add(A, B), A = " + a.name, "operands_B": len(src)})
			}
		})
	}
}
