package c05

// Boundary values in the INTERNAL representation. The assembly and fiat back ends keep field elements in Montgomery
// form (x·2^256 mod p); conditional final subtractions of their add/sub/mul helpers depend on where that value - not
// the coordinate the caller sees - lies relative to p/3, p/2, p and 2^256 (e.g. x+x+x in the on-curve polynomial).
// Points are built from the Montgomery value: m over a boundary alphabet, x = m·2^-256 mod p, kept when x is the
// abscissa of a curve point. Every such point goes through the decoders, the affine API and the public-key
// constructors and is compared with exact affine arithmetic. The identity of argument objects is varied too: the
// curve's own Params().Gx / Gy objects are passed as coordinates (a fast path may compare pointers).

import (
	"bytes"
	"crypto/elliptic"
	"fmt"
	"math/big"

	"github.com/emmansun/gmsm/sm2"
	vh "github.com/emmansun/gmsm/verifhook"

	"verif/engine"
	"verif/ref/ecref"
)

func montgomeryXs(quick bool) []named {
	c := ecref.SM2()
	p := c.P
	two256 := new(big.Int).Lsh(big.NewInt(1), 256)
	rinv := new(big.Int).ModInverse(two256, p)
	span := int64(24)
	if quick {
		span = 10
	}
	var ms []named
	addAround := func(label string, v *big.Int) {
		for d := -span; d <= span; d++ {
			m := new(big.Int).Add(v, big.NewInt(d))
			if m.Sign() < 0 || m.Cmp(p) >= 0 {
				continue
			}
			ms = append(ms, named{fmt.Sprintf("%s%+d", label, d), m})
		}
	}
	ceilDiv := func(a *big.Int, k int64) *big.Int {
		q := new(big.Int).Add(a, big.NewInt(k-1))
		return q.Div(q, big.NewInt(k))
	}
	addAround("ceil(p/3)", ceilDiv(p, 3))
	addAround("(2^256-1)/3", new(big.Int).Div(new(big.Int).Sub(two256, big.NewInt(1)), big.NewInt(3)))
	addAround("ceil(2p/3)", ceilDiv(new(big.Int).Lsh(p, 1), 3))
	addAround("ceil(p/2)", ceilDiv(p, 2))
	addAround("2^255", new(big.Int).Lsh(big.NewInt(1), 255))
	addAround("p-1", new(big.Int).Sub(p, big.NewInt(1)))
	addAround("0", big.NewInt(0))
	addAround("2^256-p", new(big.Int).Sub(two256, p))
	for _, k := range []uint{64, 128, 192, 224} {
		addAround(fmt.Sprintf("2^%d", k), new(big.Int).Lsh(big.NewInt(1), k))
	}
	var out []named
	for _, m := range ms {
		x := new(big.Int).Mul(m.v, rinv)
		x.Mod(x, p)
		out = append(out, named{"mont=" + m.name, x})
	}
	return out
}

type named struct {
	name string
	v    *big.Int
}

func runMontgomery(c *engine.Ctx) {
	curve := ecref.SM2()
	lib := sm2.P256()
	c.Case("montgomery/boundary-abscissae", func(t *engine.T) {
		found := 0
		for _, nx := range montgomeryXs(c.Quick()) {
			for ybit := uint(0); ybit < 2; ybit++ {
				pt, ok := curve.LiftX(nx.v, ybit)
				t.Eval(1)
				unc := append([]byte{4}, append(nx.v.FillBytes(make([]byte, 32)), make([]byte, 32)...)...)
				if !ok {
					// no point with this abscissa: the compressed form must be refused
					comp := append([]byte{byte(2 + ybit)}, nx.v.FillBytes(make([]byte, 32))...)
					if t.Guard("montgomery/decode", func() {
						if _, err := vh.NewSM2P256Point().SetBytes(comp); err == nil {
							t.Fail("montgomery/non-abscissa-accepted", "%s: compressed encoding of x=%x decodes although x^3+ax+b is not a square", nx.name, nx.v)
						}
					}) {
						continue
					}
					continue
				}
				found++
				copy(unc[33:], pt.Y.FillBytes(make([]byte, 32)))
				what := fmt.Sprintf("%s ybit=%d (x=%x)", nx.name, ybit, nx.v)
				t.Nontrivial("montgomery/" + nx.name)
				// internal decoder, both forms
				t.Guard("montgomery/internal", func() {
					q, err := vh.NewSM2P256Point().SetBytes(unc)
					if err != nil {
						t.Fail("montgomery/valid-point-rejected/internal-uncompressed", "%s: SetBytes: %v", what, err)
					} else if !bytes.Equal(q.Bytes(), unc) {
						t.Fail("montgomery/reencode-mismatch", "%s: Bytes() = %x", what, q.Bytes())
					}
					q2, err := vh.NewSM2P256Point().SetBytes(pt.Compressed())
					if err != nil {
						t.Fail("montgomery/valid-point-rejected/internal-compressed", "%s: SetBytes(compressed): %v", what, err)
					} else if !bytes.Equal(q2.Bytes(), unc) {
						t.Fail("montgomery/compressed-decodes-to-other-point", "%s: %x", what, q2.Bytes())
					}
					if err == nil {
						// arithmetic on it
						d := vh.NewSM2P256Point().Double(q)
						checkIPoint(t, "montgomery/double/mismatch", "Double("+what+")", d, curve.Double(pt))
						g, _ := vh.NewSM2P256Point().SetBytes(curve.G().Uncompressed())
						s := vh.NewSM2P256Point().Add(q, g)
						checkIPoint(t, "montgomery/add/mismatch", what+" + G", s, curve.Add(pt, curve.G()))
						k := big.NewInt(0x10001)
						m, err := vh.NewSM2P256Point().ScalarMult(q, b32(k))
						if err == nil {
							checkIPoint(t, "montgomery/scalarmult/mismatch", "[65537]"+what, m, curve.Mul(k, pt))
						}
					}
				})
				// public API
				t.Guard("montgomery/public", func() {
					if !lib.IsOnCurve(pt.X, pt.Y) {
						t.Fail("montgomery/valid-point-rejected/IsOnCurve", "%s", what)
					}
					if _, err := sm2.NewPublicKey(unc); err != nil {
						t.Fail("montgomery/valid-point-rejected/NewPublicKey", "%s: %v", what, err)
					}
					if x, y := elliptic.Unmarshal(lib, unc); x == nil || x.Cmp(pt.X) != 0 || y.Cmp(pt.Y) != 0 {
						t.Fail("montgomery/valid-point-rejected/Unmarshal", "%s", what)
					}
					if x, y := elliptic.UnmarshalCompressed(lib, pt.Compressed()); x == nil || x.Cmp(pt.X) != 0 || y.Cmp(pt.Y) != 0 {
						t.Fail("montgomery/valid-point-rejected/UnmarshalCompressed", "%s", what)
					}
					x2, y2 := lib.Double(pt.X, pt.Y)
					w := curve.Double(pt)
					if x2.Cmp(w.X) != 0 || y2.Cmp(w.Y) != 0 {
						t.Fail("montgomery/double/mismatch/public", "%s", what)
					}
				})
				t.Eval(8)
			}
		}
		if found < 20 {
			t.Fail("montgomery/vacuous", "only %d boundary abscissae carry a point", found)
		}
		t.Extra("montgomery_boundary_points", found)
	})
	// pairs of DISTINCT points with the SAME ordinate (x1 != x2, y1 == y2): the addition formulas compute u = x2-x1 and
	// r = y2-y1 and branch on both; "r == 0" alone is neither equality nor inverse. For a = -3: x2 is a root of
	// x^2 + x1*x + x1^2 - 3, i.e. x2 = (-x1 +- sqrt(12 - 3*x1^2))/2.
	c.Case("special-pairs/same-ordinate-different-abscissa", func(t *engine.T) {
		p := curve.P
		inv2 := new(big.Int).ModInverse(big.NewInt(2), p)
		found := 0
		for x1v := int64(1); x1v < 400 && found < 12; x1v++ {
			x1 := big.NewInt(x1v)
			disc := new(big.Int).Sub(big.NewInt(12), new(big.Int).Mul(big.NewInt(3), new(big.Int).Mul(x1, x1)))
			disc.Mod(disc, p)
			rt := new(big.Int).ModSqrt(disc, p)
			if rt == nil {
				continue
			}
			p1, ok := curve.LiftX(x1, 0)
			if !ok {
				continue
			}
			for _, sgn := range []int{1, -1} {
				x2 := new(big.Int).Neg(x1)
				if sgn > 0 {
					x2.Add(x2, rt)
				} else {
					x2.Sub(x2, rt)
				}
				x2.Mul(x2, inv2).Mod(x2, p)
				if x2.Cmp(x1) == 0 {
					continue
				}
				p2 := ecref.Point{X: x2, Y: new(big.Int).Set(p1.Y)}
				if !curve.OnCurve(p2) {
					continue
				}
				found++
				what := fmt.Sprintf("(%d, y) + (%x, y) with the same y", x1v, x2)
				want := curve.Add(p1, p2)
				t.Guard("special-pairs/internal", func() {
					a, e1 := vh.NewSM2P256Point().SetBytes(p1.Uncompressed())
					b, e2 := vh.NewSM2P256Point().SetBytes(p2.Uncompressed())
					if e1 != nil || e2 != nil {
						t.Fail("special-pairs/valid-point-rejected", "%s: %v %v", what, e1, e2)
						return
					}
					checkIPoint(t, "special-pairs/same-ordinate/add-mismatch", what, vh.NewSM2P256Point().Add(a, b), want)
					checkIPoint(t, "special-pairs/same-ordinate/add-mismatch", what+" (operands swapped)", vh.NewSM2P256Point().Add(b, a), want)
					a2, _ := vh.NewSM2P256Point().SetBytes(p1.Uncompressed())
					checkIPoint(t, "special-pairs/same-ordinate/add-aliased-mismatch", "a.Add(a,b): "+what, a2.Add(a2, b), want)
					// the same through projective operands: [2]P1 - P1 and P2
					d := vh.NewSM2P256Point().Double(a)
					na, _ := vh.NewSM2P256Point().SetBytes(curve.Neg(p1).Uncompressed())
					pa := vh.NewSM2P256Point().Add(d, na) // = P1 in projective form
					checkIPoint(t, "special-pairs/same-ordinate/add-mismatch/projective", what, vh.NewSM2P256Point().Add(pa, b), want)
				})
				t.Guard("special-pairs/public", func() {
					x, y := lib.Add(p1.X, p1.Y, p2.X, p2.Y)
					if x.Cmp(want.X) != 0 || y.Cmp(want.Y) != 0 {
						t.Fail("special-pairs/same-ordinate/add-mismatch/public", "%s = (%x, %x), want (%x, %x)", what, x, y, want.X, want.Y)
					}
					// [k]P1 + [1]P2 through the combined multiplication where it exists
					if cm, ok := lib.(interface {
						CombinedMult(*big.Int, *big.Int, []byte, []byte) (*big.Int, *big.Int)
					}); ok {
						_ = cm
					}
				})
				t.Eval(6)
				t.Nontrivial(fmt.Sprintf("same-ordinate/%d/%d", x1v, sgn))
			}
		}
		if found < 4 {
			t.Fail("special-pairs/vacuous", "only %d same-ordinate pairs found", found)
		}
	})
	// argument identity: the curve's own parameter objects as coordinates
	c.Case("identity/params-objects-as-arguments", func(t *engine.T) {
		prm := lib.Params()
		G := curve.G()
		negGy := new(big.Int).Sub(curve.P, G.Y)
		negG := ecref.Point{X: G.X, Y: negGy}
		ks := []*big.Int{big.NewInt(1), big.NewInt(2), big.NewInt(0x1234567), new(big.Int).Sub(curve.N, big.NewInt(1))}
		type arg struct {
			name string
			x, y *big.Int
			ref  ecref.Point
		}
		args := []arg{
			{"(Params.Gx, Params.Gy)", prm.Gx, prm.Gy, G},
			{"(Params.Gx, copy of Gy)", prm.Gx, new(big.Int).Set(prm.Gy), G},
			{"(copy of Gx, Params.Gy)", new(big.Int).Set(prm.Gx), prm.Gy, G},
			{"(Params.Gx, p-Gy)", prm.Gx, negGy, negG},
			{"(copy of Gx, p-Gy)", new(big.Int).Set(prm.Gx), new(big.Int).Set(negGy), negG},
		}
		gx0, gy0 := new(big.Int).Set(prm.Gx), new(big.Int).Set(prm.Gy)
		for _, a := range args {
			for _, k := range ks {
				t.Eval(1)
				t.Guard("identity/scalarmult", func() {
					x, y := lib.ScalarMult(a.x, a.y, k.Bytes())
					w := curve.Mul(k, a.ref)
					if w.Inf {
						if x.Sign() != 0 || y.Sign() != 0 {
							t.Fail("identity/scalarmult/mismatch", "ScalarMult%s by %x: want infinity", a.name, k)
						}
					} else if x.Cmp(w.X) != 0 || y.Cmp(w.Y) != 0 {
						t.Fail("identity/scalarmult/mismatch", "ScalarMult%s by %x = (%x, %x), want (%x, %x)", a.name, k, x, y, w.X, w.Y)
					}
				})
			}
			t.Guard("identity/other", func() {
				if !lib.IsOnCurve(a.x, a.y) {
					t.Fail("identity/isoncurve/mismatch", "IsOnCurve%s = false", a.name)
				}
				x, y := lib.Double(a.x, a.y)
				w := curve.Double(a.ref)
				if x.Cmp(w.X) != 0 || y.Cmp(w.Y) != 0 {
					t.Fail("identity/double/mismatch", "Double%s", a.name)
				}
				x, y = lib.Add(a.x, a.y, prm.Gx, prm.Gy)
				w = curve.Add(a.ref, G)
				if w.Inf {
					if x.Sign() != 0 || y.Sign() != 0 {
						t.Fail("identity/add/mismatch", "Add(%s, G): want infinity", a.name)
					}
				} else if x.Cmp(w.X) != 0 || y.Cmp(w.Y) != 0 {
					t.Fail("identity/add/mismatch", "Add(%s, G)", a.name)
				}
			})
			t.Eval(3)
			t.Nontrivial("identity/" + a.name)
		}
		// an off-curve point with the generator's abscissa object must be treated like any other off-curve point
		t.Guard("identity/off-curve", func() {
			if lib.IsOnCurve(prm.Gx, new(big.Int).Add(prm.Gy, big.NewInt(1))) {
				t.Fail("identity/isoncurve/off-curve-accepted", "IsOnCurve(Params.Gx, Gy+1) = true")
			}
		})
		if prm.Gx.Cmp(gx0) != 0 || prm.Gy.Cmp(gy0) != 0 {
			t.Fail("identity/params-modified", "the curve parameters changed")
		}
	})
}
