package c05

// Arithmetic modulo the group order n as exported by internal/sm2ec for the signature and key-agreement code
// (P256OrdInverse, P256OrdMul, ImplicitSig = ePriv*t + sPriv mod n): the full product of a boundary alphabet of reduced
// scalars against math/big. The alphabet is chosen so that every branch of a conditional final subtraction is taken:
// sums below n, in [n, 2^256) and at or above 2^256; products whose Montgomery reduction ends just below / above n.

import (
	"bytes"
	"fmt"
	"math/big"

	vh "github.com/emmansun/gmsm/verifhook"

	"verif/engine"
	"verif/ref/ecref"
)

func ordAlphabet(quick bool) []*big.Int {
	n := ecref.SM2().N
	two256 := new(big.Int).Lsh(big.NewInt(1), 256)
	var out []*big.Int
	seen := map[string]bool{}
	add := func(v *big.Int) {
		v = new(big.Int).Mod(v, n)
		if k := v.Text(16); !seen[k] {
			seen[k] = true
			out = append(out, v)
		}
	}
	for i := int64(0); i <= 5; i++ {
		add(big.NewInt(i))
		add(new(big.Int).Sub(n, big.NewInt(i+1)))
	}
	half := new(big.Int).Rsh(n, 1)
	add(half)
	add(new(big.Int).Add(half, big.NewInt(1)))
	gap := new(big.Int).Sub(two256, n) // 2^256 - n: s + (n-1) crosses 2^256 exactly from here on
	for d := int64(-2); d <= 2; d++ {
		add(new(big.Int).Add(gap, big.NewInt(d)))
	}
	for _, k := range []uint{31, 32, 63, 64, 65, 127, 128, 191, 192, 223, 224, 225, 254, 255} {
		p := new(big.Int).Lsh(big.NewInt(1), k)
		add(p)
		add(new(big.Int).Sub(p, big.NewInt(1)))
	}
	m64 := new(big.Int).Sub(new(big.Int).Lsh(big.NewInt(1), 64), big.NewInt(1))
	for i := uint(0); i < 4; i++ {
		add(new(big.Int).Lsh(m64, 64*i))
	}
	nc := 12
	if quick {
		nc = 4
	}
	for _, b := range chain("c05-ord", nc, 32) {
		add(new(big.Int).SetBytes(b))
	}
	return out
}

func runOrdField(c *engine.Ctx) {
	n := ecref.SM2().N
	alpha := ordAlphabet(c.Quick())
	enc := func(v *big.Int) []byte { return v.FillBytes(make([]byte, 32)) }
	checkRes := func(t *engine.T, key, what string, got []byte, err error, want *big.Int) {
		t.Eval(1)
		if err != nil {
			t.Fail(key+"/error", "%s: %v", what, err)
			return
		}
		if len(got) != 32 {
			t.Fail(key+"/length", "%s: result has %d bytes", what, len(got))
			return
		}
		g := new(big.Int).SetBytes(got)
		if g.Cmp(n) >= 0 {
			t.Fail(key+"/not-reduced", "%s = %x is not below the group order (reduced value would be %x)", what, got, enc(want))
			return
		}
		if g.Cmp(want) != 0 {
			t.Fail(key+"/mismatch", "%s = %x, want %x", what, got, enc(want))
		}
	}
	c.Case("ordfield/inverse", func(t *engine.T) {
		for _, a := range alpha {
			in := enc(a)
			keep := append([]byte{}, in...)
			var got []byte
			var err error
			if t.Guard("ordfield/inverse", func() { got, err = vh.P256OrdInverse(in) }) {
				continue
			}
			want := new(big.Int)
			if a.Sign() != 0 {
				want.ModInverse(a, n)
			}
			checkRes(t, "ordfield/inverse", fmt.Sprintf("P256OrdInverse(%x)", keep), got, err, want)
			if !bytes.Equal(in, keep) {
				t.Fail("ordfield/inverse/operand-modified", "P256OrdInverse modified its argument")
			}
			t.Nontrivial("ordinv/" + a.Text(16))
		}
	})
	for ai, a := range alpha {
		a := a
		c.Case(fmt.Sprintf("ordfield/mul-implicitsig/a=#%d", ai), func(t *engine.T) {
			for _, b := range alpha {
				x, y := enc(a), enc(b)
				kx, ky := append([]byte{}, x...), append([]byte{}, y...)
				var got []byte
				var err error
				if t.Guard("ordfield/mul", func() { got, err = vh.P256OrdMul(x, y) }) {
					continue
				}
				prod := new(big.Int).Mul(a, b)
				prod.Mod(prod, n)
				checkRes(t, "ordfield/mul", fmt.Sprintf("P256OrdMul(%x, %x)", kx, ky), got, err, prod)
				if !bytes.Equal(x, kx) || !bytes.Equal(y, ky) {
					t.Fail("ordfield/mul/operand-modified", "P256OrdMul modified an argument")
				}
				// same slice for both operands
				if a.Cmp(b) == 0 {
					if !t.Guard("ordfield/mul-aliased", func() { got, err = vh.P256OrdMul(x, x) }) {
						checkRes(t, "ordfield/mul-aliased", fmt.Sprintf("P256OrdMul(x, x), x=%x", kx), got, err, prod)
					}
				}
				for _, s := range alpha {
					sp := enc(s)
					ks := append([]byte{}, sp...)
					if t.Guard("ordfield/implicitsig", func() { got, err = vh.ImplicitSig(sp, x, y) }) {
						continue
					}
					want := new(big.Int).Add(prod, s)
					cls := "sum<n"
					switch {
					case want.BitLen() > 256:
						cls = "sum>=2^256"
					case want.Cmp(n) >= 0:
						cls = "n<=sum<2^256"
					}
					want.Mod(want, n)
					checkRes(t, "ordfield/implicitsig/"+cls, fmt.Sprintf("ImplicitSig(sPriv=%x, ePriv=%x, t=%x)", ks, kx, ky), got, err, want)
					if !bytes.Equal(sp, ks) || !bytes.Equal(x, kx) || !bytes.Equal(y, ky) {
						t.Fail("ordfield/implicitsig/operand-modified", "ImplicitSig modified an argument")
					}
					t.Outcome("implicitsig/" + cls)
				}
				t.Nontrivial("ordmul/" + a.Text(16) + "*" + b.Text(16))
			}
		})
	}
	// wrong lengths are refused, not sliced
	c.Case("ordfield/lengths", func(t *engine.T) {
		for _, l := range []int{0, 1, 31, 33, 64} {
			b := make([]byte, l)
			ok := enc(big.NewInt(7))
			t.Guard("ordfield/length", func() {
				if _, err := vh.P256OrdInverse(b); err == nil {
					t.Fail("ordfield/length/inverse-accepts", "P256OrdInverse accepts %d bytes", l)
				}
				if _, err := vh.P256OrdMul(b, ok); err == nil {
					t.Fail("ordfield/length/mul-accepts", "P256OrdMul accepts a first operand of %d bytes", l)
				}
				if _, err := vh.P256OrdMul(ok, b); err == nil {
					t.Fail("ordfield/length/mul-accepts", "P256OrdMul accepts a second operand of %d bytes", l)
				}
				if _, err := vh.ImplicitSig(b, ok, ok); err == nil {
					t.Fail("ordfield/length/implicitsig-accepts", "ImplicitSig accepts sPriv of %d bytes", l)
				}
				if _, err := vh.ImplicitSig(ok, b, ok); err == nil {
					t.Fail("ordfield/length/implicitsig-accepts", "ImplicitSig accepts ePriv of %d bytes", l)
				}
			})
			t.Eval(5)
		}
	})
}
