package c05

import (
	"fmt"
	"math/big"

	"verif/ref/ecref"
)

// npoint is a named reference point.
type npoint struct {
	name string
	p    ecref.Point
}

// nearestX returns the on-curve point with the smallest abscissa >= x0 (dir=+1) or the largest abscissa <= x0
// (dir=-1), with the requested parity of y.
func nearestX(c *ecref.Curve, x0 *big.Int, dir int64, ybit uint) (ecref.Point, bool) {
	x := new(big.Int).Set(x0)
	for i := 0; i < 4096; i++ {
		if x.Sign() < 0 || x.Cmp(c.P) >= 0 {
			break
		}
		if p, ok := c.LiftX(x, ybit); ok {
			return p, true
		}
		x.Add(x, big.NewInt(dir))
	}
	return ecref.Point{}, false
}

// --- points with a prescribed small y: roots of x^3 + a x + (b - y^2) over GF(p) -------------------------
// Polynomials of degree < 3 modulo the monic cubic f = x^3 + a x + c0 are [3]*big.Int (little-endian).

type poly3 [3]*big.Int

func (c *cubic) mulmod(u, v poly3) poly3 {
	var t [5]*big.Int
	for i := range t {
		t[i] = new(big.Int)
	}
	for i := 0; i < 3; i++ {
		for j := 0; j < 3; j++ {
			t[i+j].Add(t[i+j], new(big.Int).Mul(u[i], v[j]))
		}
	}
	// x^3 = -a x - c0 ; x^4 = -a x^2 - c0 x
	for d := 4; d >= 3; d-- {
		k := t[d]
		t[d-2].Sub(t[d-2], new(big.Int).Mul(k, c.a))
		t[d-3].Sub(t[d-3], new(big.Int).Mul(k, c.c0))
	}
	var r poly3
	for i := 0; i < 3; i++ {
		r[i] = t[i].Mod(t[i], c.p)
	}
	return r
}

type cubic struct{ p, a, c0 *big.Int }

// singleRoot returns the root of f in GF(p) if f has exactly one (gcd(x^p - x, f) of degree 1).
func (c *cubic) singleRoot() (*big.Int, bool) {
	// g = x^p mod f
	x := poly3{big.NewInt(0), big.NewInt(1), big.NewInt(0)}
	g := poly3{big.NewInt(1), big.NewInt(0), big.NewInt(0)}
	for i := c.p.BitLen() - 1; i >= 0; i-- {
		g = c.mulmod(g, g)
		if c.p.Bit(i) == 1 {
			g = c.mulmod(g, x)
		}
	}
	// h = g - x (degree <= 2); gcd(f, h) by the Euclidean algorithm over GF(p)
	h := []*big.Int{new(big.Int).Set(g[0]), new(big.Int).Sub(g[1], big.NewInt(1)), new(big.Int).Set(g[2])}
	h[1].Mod(h[1], c.p)
	f := []*big.Int{new(big.Int).Mod(c.c0, c.p), new(big.Int).Mod(c.a, c.p), big.NewInt(0), big.NewInt(1)}
	trim := func(q []*big.Int) []*big.Int {
		for len(q) > 0 && q[len(q)-1].Sign() == 0 {
			q = q[:len(q)-1]
		}
		return q
	}
	A, B := trim(f), trim(h)
	for len(B) > 0 {
		// A = A mod B
		inv := new(big.Int).ModInverse(B[len(B)-1], c.p)
		for len(A) >= len(B) {
			k := new(big.Int).Mul(A[len(A)-1], inv)
			k.Mod(k, c.p)
			off := len(A) - len(B)
			for i := range B {
				A[off+i].Sub(A[off+i], new(big.Int).Mul(k, B[i]))
				A[off+i].Mod(A[off+i], c.p)
			}
			A = trim(A)
			if len(A) == 0 {
				break
			}
		}
		A, B = B, A
	}
	if len(A) != 2 { // gcd not linear
		return nil, false
	}
	// root of A[1] x + A[0]
	r := new(big.Int).ModInverse(A[1], c.p)
	r.Mul(r, A[0])
	r.Neg(r)
	return r.Mod(r, c.p), true
}

// smallYPoints returns up to n on-curve points (x, y) with the smallest y >= 1 for which the cubic in x has
// exactly one root. Every returned point is verified with ecref.OnCurve.
func smallYPoints(c *ecref.Curve, n int) []ecref.Point {
	var out []ecref.Point
	for y := int64(1); y < 200 && len(out) < n; y++ {
		c0 := new(big.Int).Sub(c.B, big.NewInt(y*y))
		cu := &cubic{p: c.P, a: c.A, c0: c0.Mod(c0, c.P)}
		x, ok := cu.singleRoot()
		if !ok {
			continue
		}
		p := ecref.Point{X: x, Y: big.NewInt(y)}
		if !c.OnCurve(p) {
			panic("c05: cubic solver returned an off-curve point")
		}
		out = append(out, p)
	}
	return out
}

// pointAlphabet builds the DESIGN §4 C05 point set.
func pointAlphabet(quick bool) []npoint {
	c := ecref.SM2()
	var out []npoint
	seen := map[string]bool{}
	add := func(name string, p ecref.Point) {
		k := "inf"
		if !p.Inf {
			k = p.X.Text(16) + "/" + p.Y.Text(16)
		}
		if seen[k] {
			return
		}
		seen[k] = true
		if !c.OnCurve(p) {
			panic("c05: alphabet point off curve: " + name)
		}
		out = append(out, npoint{name, p})
	}
	add("inf", ecref.Inf())
	g := c.G()
	acc := ecref.Inf()
	for k := 1; k <= 20; k++ {
		acc = c.Add(acc, g)
		add(fmt.Sprintf("%dG", k), acc)
		add(fmt.Sprintf("(n-%d)G", k), c.Neg(acc))
	}
	// abscissae next to 0, p-1 and the 32/64-bit limb boundaries, both parities of y
	anchors := []struct {
		name string
		x    *big.Int
	}{
		{"0", big.NewInt(0)}, {"2^32", pow2(32)}, {"2^64", pow2(64)}, {"2^96", pow2(96)}, {"2^128", pow2(128)},
		{"2^192", pow2(192)}, {"2^224", pow2(224)}, {"2^255", pow2(255)}, {"p", new(big.Int).Set(c.P)},
		{"2^256-2^224", new(big.Int).Sub(pow2(256), pow2(224))},
	}
	for _, a := range anchors {
		for yb := uint(0); yb < 2; yb++ {
			if p, ok := nearestX(c, a.x, 1, yb); ok {
				add(fmt.Sprintf("x>=%s/y%d", a.name, yb), p)
			}
			if p, ok := nearestX(c, new(big.Int).Sub(a.x, one), -1, yb); ok {
				add(fmt.Sprintf("x<%s/y%d", a.name, yb), p)
			}
		}
	}
	for i, p := range smallYPoints(c, 3) {
		add(fmt.Sprintf("smally#%d", i), p)
		add(fmt.Sprintf("largey#%d", i), c.Neg(p))
	}
	nchain := 8
	if quick {
		nchain = 4
	}
	for i, b := range chain("c05-point", nchain, 32) {
		x := new(big.Int).SetBytes(b)
		x.Mod(x, c.P)
		p, ok := nearestX(c, x, 1, uint(i&1))
		if !ok {
			panic("c05: no chain point")
		}
		add(fmt.Sprintf("chain#%d", i), p)
	}
	return out
}

func findPoint(pts []npoint, name string) npoint {
	for _, p := range pts {
		if p.name == name {
			return p
		}
	}
	panic("c05: no point named " + name)
}

// multPoints is the 12-point subset used for the ScalarMult product.
func multPoints(pts []npoint) []npoint {
	names := []string{"1G", "(n-1)G", "2G", "(n-2)G", "20G", "inf", "x>=0/y0", "x<p/y1", "smally#0", "largey#0", "chain#0", "chain#1"}
	var out []npoint
	for _, n := range names {
		out = append(out, findPoint(pts, n))
	}
	return out
}

// affine converts a reference point to the elliptic.Curve convention ((0,0) is infinity).
func affine(p ecref.Point) (*big.Int, *big.Int) {
	if p.Inf {
		return new(big.Int), new(big.Int)
	}
	return new(big.Int).Set(p.X), new(big.Int).Set(p.Y)
}

func sameAffine(x, y *big.Int, p ecref.Point) bool {
	if x == nil || y == nil {
		return false
	}
	if p.Inf {
		return x.Sign() == 0 && y.Sign() == 0
	}
	return x.Cmp(p.X) == 0 && y.Cmp(p.Y) == 0
}

func pstr(x, y *big.Int) string {
	if x == nil || y == nil {
		return "(nil)"
	}
	return fmt.Sprintf("(%x,%x)", x, y)
}

func rstr(p ecref.Point) string {
	if p.Inf {
		return "inf=(0,0)"
	}
	return fmt.Sprintf("(%x,%x)", p.X, p.Y)
}
