package c05

import (
	"fmt"
	"math/big"

	"verif/ref/ecref"
)

// npoint is a named reference point.
type npoint struct {
	name string
	p    ecref.Point
}

// nearestX returns the on-curve point with the smallest abscissa >= x0 (dir=+1) or the largest abscissa <= x0
// (dir=-1), with the requested parity of y.
func nearestX(c *ecref.Curve, x0 *big.Int, dir int64, ybit uint) (ecref.Point, bool) {
	x := new(big.Int).Set(x0)
	for i := 0; i < 4096; i++ {
		if x.Sign() < 0 || x.Cmp(c.P) >= 0 {
			break
		}
		if p, ok := c.LiftX(x, ybit); ok {
			return p, true
		}
		x.Add(x, big.NewInt(dir))
	}
	return ecref.Point{}, false
}

// pointAlphabet builds the DESIGN §4 C05 point set.
func pointAlphabet(quick bool) []npoint {
	c := ecref.SM2()
	var out []npoint
	seen := map[string]bool{}
	add := func(name string, p ecref.Point) {
		k := "inf"
		if !p.Inf {
			k = p.X.Text(16) + "/" + p.Y.Text(16)
		}
		if seen[k] {
			return
		}
		seen[k] = true
		if !c.OnCurve(p) {
			panic("c05: alphabet point off curve: " + name)
		}
		out = append(out, npoint{name, p})
	}
	add("inf", ecref.Inf())
	g := c.G()
	acc := ecref.Inf()
	for k := 1; k <= 20; k++ {
		acc = c.Add(acc, g)
		add(fmt.Sprintf("%dG", k), acc)
		add(fmt.Sprintf("(n-%d)G", k), c.Neg(acc))
	}
	// abscissae next to 0, p-1 and the 32/64-bit limb boundaries, both parities of y
	anchors := []struct {
		name string
		x    *big.Int
	}{
		{"0", big.NewInt(0)}, {"2^32", pow2(32)}, {"2^64", pow2(64)}, {"2^96", pow2(96)}, {"2^128", pow2(128)},
		{"2^192", pow2(192)}, {"2^224", pow2(224)}, {"2^255", pow2(255)}, {"p", new(big.Int).Set(c.P)},
		{"2^256-2^224", new(big.Int).Sub(pow2(256), pow2(224))},
	}
	for _, a := range anchors {
		for yb := uint(0); yb < 2; yb++ {
			if p, ok := nearestX(c, a.x, 1, yb); ok {
				add(fmt.Sprintf("x>=%s/y%d", a.name, yb), p)
			}
			if p, ok := nearestX(c, new(big.Int).Sub(a.x, one), -1, yb); ok {
				add(fmt.Sprintf("x<%s/y%d", a.name, yb), p)
			}
		}
	}
	for i, p := range ecref.SmallYPoints(c, 3) {
		add(fmt.Sprintf("smally#%d", i), p)
		add(fmt.Sprintf("largey#%d", i), c.Neg(p))
	}
	nchain := 8
	if quick {
		nchain = 4
	}
	for i, b := range chain("c05-point", nchain, 32) {
		x := new(big.Int).SetBytes(b)
		x.Mod(x, c.P)
		p, ok := nearestX(c, x, 1, uint(i&1))
		if !ok {
			panic("c05: no chain point")
		}
		add(fmt.Sprintf("chain#%d", i), p)
	}
	return out
}

func findPoint(pts []npoint, name string) npoint {
	for _, p := range pts {
		if p.name == name {
			return p
		}
	}
	panic("c05: no point named " + name)
}

// multPoints is the 12-point subset used for the ScalarMult product.
func multPoints(pts []npoint) []npoint {
	names := []string{"1G", "(n-1)G", "2G", "(n-2)G", "20G", "inf", "x>=0/y0", "x<p/y1", "smally#0", "largey#0", "chain#0", "chain#1"}
	var out []npoint
	for _, n := range names {
		out = append(out, findPoint(pts, n))
	}
	return out
}

// affine converts a reference point to the elliptic.Curve convention ((0,0) is infinity).
func affine(p ecref.Point) (*big.Int, *big.Int) {
	if p.Inf {
		return new(big.Int), new(big.Int)
	}
	return new(big.Int).Set(p.X), new(big.Int).Set(p.Y)
}

func sameAffine(x, y *big.Int, p ecref.Point) bool {
	if x == nil || y == nil {
		return false
	}
	if p.Inf {
		return x.Sign() == 0 && y.Sign() == 0
	}
	return x.Cmp(p.X) == 0 && y.Cmp(p.Y) == 0
}

func pstr(x, y *big.Int) string {
	if x == nil || y == nil {
		return "(nil)"
	}
	return fmt.Sprintf("(%x,%x)", x, y)
}

func rstr(p ecref.Point) string {
	if p.Inf {
		return "inf=(0,0)"
	}
	return fmt.Sprintf("(%x,%x)", p.X, p.Y)
}
