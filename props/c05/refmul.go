package c05

import (
	"fmt"
	"math/big"

	"verif/ref/ecref"
	"verif/ref/sm3ref"
)

// mulTable is the reference scalar multiplication used for the large products: d[j] = [2^j]P computed by
// repeated affine doubling (ecref.Add), and [k]P = sum of d[j] over the set bits of k (ecref.Add only).
// Dense scalars are evaluated through the complement: k = (2^L - 1) - c  =>  [k]P = d[L] - P - [c]P.
// Still exact affine big-integer arithmetic; SelfTest cross-checks it against the plain double-and-add
// ecref.Mul (which is anchored by the GB/T 32918.5 examples).
type mulTable struct {
	c *ecref.Curve
	p ecref.Point
	d []ecref.Point
}

const maxScalarBits = 8*40 + 8

func newMulTable(c *ecref.Curve, p ecref.Point) *mulTable {
	t := &mulTable{c: c, p: p, d: make([]ecref.Point, maxScalarBits+1)}
	t.d[0] = p
	for j := 1; j <= maxScalarBits; j++ {
		t.d[j] = c.Add(t.d[j-1], t.d[j-1])
	}
	return t
}

func (t *mulTable) sumBits(k *big.Int) ecref.Point {
	r := ecref.Inf()
	for j := 0; j < k.BitLen(); j++ {
		if k.Bit(j) == 1 {
			r = t.c.Add(r, t.d[j])
		}
	}
	return r
}

func popcount(k *big.Int) int {
	n := 0
	for j := 0; j < k.BitLen(); j++ {
		n += int(k.Bit(j))
	}
	return n
}

// mul returns [k]P for 0 <= k < 2^maxScalarBits (no reduction of k anywhere).
func (t *mulTable) mul(k *big.Int) ecref.Point {
	if k.Sign() < 0 || k.BitLen() > maxScalarBits {
		panic("c05: reference scalar out of range")
	}
	L := k.BitLen()
	if 2*popcount(k) <= L+2 {
		return t.sumBits(k)
	}
	ones := new(big.Int).Lsh(big.NewInt(1), uint(L))
	ones.Sub(ones, big.NewInt(1))
	c := ones.Sub(ones, k) // complement within L bits
	r := t.c.Add(t.d[L], t.c.Neg(t.p))
	return t.c.Add(r, t.c.Neg(t.sumBits(c)))
}

// chain returns n deterministic pseudo-uniform byte strings of the given length (an SM3 hash chain over a
// fixed label; part of the declared alphabet, not a random sample).
func chain(label string, n, length int) [][]byte {
	var out [][]byte
	h := sm3ref.Sum([]byte(label))
	for i := 0; i < n; i++ {
		var b []byte
		for len(b) < length {
			h = sm3ref.Sum(h[:])
			b = append(b, h[:]...)
		}
		out = append(out, b[:length])
	}
	return out
}

func refSelfTest() error {
	if err := ecref.SelfTest(); err != nil {
		return err
	}
	c := ecref.SM2()
	pts := []ecref.Point{c.G(), c.BaseMul(big.NewInt(0xabcdef))}
	var ks []*big.Int
	for _, b := range chain("c05-selftest", 6, 32) {
		ks = append(ks, new(big.Int).SetBytes(b))
	}
	for _, b := range chain("c05-selftest-40", 2, 40) {
		ks = append(ks, new(big.Int).SetBytes(b))
	}
	one := big.NewInt(1)
	ks = append(ks, big.NewInt(0), big.NewInt(1), big.NewInt(2), big.NewInt(0x3f<<6),
		new(big.Int).Sub(c.N, one), new(big.Int).Set(c.N), new(big.Int).Add(c.N, one),
		new(big.Int).Sub(new(big.Int).Lsh(one, 256), one),
		new(big.Int).Sub(new(big.Int).Lsh(one, 320), one),
		new(big.Int).Sub(new(big.Int).Lsh(one, 255), new(big.Int).Lsh(one, 17)),
		new(big.Int).Lsh(one, 264))
	for pi, p := range pts {
		t := newMulTable(c, p)
		for _, k := range ks {
			a, b := t.mul(k), c.Mul(k, p)
			if !a.Equal(b) {
				return fmt.Errorf("c05: table reference disagrees with ecref.Mul for point %d, k=%x", pi, k)
			}
		}
	}
	ti := newMulTable(c, ecref.Inf())
	if !ti.mul(big.NewInt(12345)).Inf {
		return fmt.Errorf("c05: [k]inf != inf")
	}
	return nil
}
