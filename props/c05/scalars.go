package c05

import (
	"fmt"
	"math/big"

	"verif/ref/ecref"
)

// scalar is one element of the scalar alphabet: an integer value and the family that generated it.
type scalar struct {
	v      *big.Int
	family string
}

var (
	one  = big.NewInt(1)
	two  = big.NewInt(2)
	zero = big.NewInt(0)
)

func pow2(k int) *big.Int { return new(big.Int).Lsh(one, uint(k)) }

// onesFrom returns the integer whose bits [from, 256) are set.
func onesFrom(from int) *big.Int {
	if from >= 256 {
		return new(big.Int)
	}
	r := pow2(256)
	return r.Sub(r, pow2(from))
}

type alphabet struct {
	list []scalar
	seen map[string]bool
}

func (a *alphabet) add(family string, v *big.Int) {
	if v.Sign() < 0 || v.BitLen() > maxScalarBits {
		return
	}
	k := v.Text(16)
	if a.seen[k] {
		return
	}
	a.seen[k] = true
	a.list = append(a.list, scalar{v: new(big.Int).Set(v), family: family})
}

// scalarAlphabet builds the DESIGN §4 C05 scalar alphabet (deterministic order, duplicates removed; a value is
// attributed to the first family that produces it).
func scalarAlphabet(quick bool) []scalar {
	n := ecref.SM2().N
	a := &alphabet{seen: map[string]bool{}}
	for i := int64(0); i <= 70; i++ {
		a.add("small", big.NewInt(i))
	}
	for d := int64(-3); d <= 3; d++ {
		a.add("order", new(big.Int).Add(n, big.NewInt(d)))
	}
	n2 := new(big.Int).Lsh(n, 1)
	for d := int64(-1); d <= 1; d++ {
		a.add("order", new(big.Int).Add(n2, big.NewInt(d)))
	}
	// multiples and near-multiples of n that still fit 40 bytes
	a.add("order", new(big.Int).Mul(n, big.NewInt(3)))
	a.add("order", new(big.Int).Add(new(big.Int).Lsh(n, 64), one))
	a.add("order", new(big.Int).Sub(new(big.Int).Lsh(n, 64), one))
	for k := 0; k <= 264; k++ {
		p := pow2(k)
		a.add("pow2", p)
		a.add("pow2", new(big.Int).Add(p, one))
		a.add("pow2", new(big.Int).Sub(p, one))
	}
	// windows: value w of `width` bits placed with its bit 0 at position stride*i+off, alone ("lo") and with all
	// higher bits (up to bit 255) set ("hi": borrow/carry into every later digit)
	window := func(family string, width, stride, off, positions int) {
		for i := 0; i < positions; i++ {
			pos := stride*i + off
			for w := int64(0); w < 1<<uint(width); w++ {
				v := big.NewInt(w)
				if pos >= 0 {
					v.Lsh(v, uint(pos))
				} else {
					v.Rsh(v, uint(-pos))
				}
				a.add(family+"/lo", v)
				hi := onesFrom(pos + width)
				a.add(family+"/hi", hi.Or(hi, v))
			}
		}
	}
	window("w7booth6", 7, 6, -1, 43) // what boothW6 actually looks at in this code base (asm and purego): bits 6i-1..6i+5
	window("w6", 6, 6, 0, 43)        // design: 6-bit value at each of the 43 base-mult window positions
	window("w6booth5", 6, 5, -1, 52) // design: 5-bit Booth digit (bits 5i-1..5i+4) at each of 52 positions
	window("w4", 4, 4, 0, 64)        // design: 4-bit value at each of 64 positions
	// runs 1^a 0^(256-a); 0^a 1^b is 2^b-1 (family pow2); runs between limb/byte boundaries
	for r := 1; r <= 255; r++ {
		a.add("run", onesFrom(256-r))
	}
	edges := []int{0, 1, 31, 32, 33, 63, 64, 65, 127, 128, 129, 191, 192, 193, 223, 224, 225, 255, 256, 257}
	for i, s := range edges {
		for _, e := range edges[i+1:] {
			a.add("run", new(big.Int).Sub(pow2(e), pow2(s)))
		}
	}
	// limb patterns: every subset of the five 64-bit limbs all-ones, and single limbs +-1
	m64 := new(big.Int).Sub(pow2(64), one)
	for s := 1; s < 32; s++ {
		v := new(big.Int)
		for i := 0; i < 5; i++ {
			if s>>uint(i)&1 == 1 {
				v.Or(v, new(big.Int).Lsh(m64, uint(64*i)))
			}
		}
		a.add("limb", v)
	}
	for i := 0; i < 5; i++ {
		l := new(big.Int).Lsh(m64, uint(64*i))
		a.add("limb", new(big.Int).Add(l, one))
		a.add("limb", new(big.Int).Sub(l, one))
	}
	// all-ones of each byte length 1..40, and 0x80 00.. / 0x01 00.. of each length
	for L := 1; L <= 40; L++ {
		a.add("bytelen", new(big.Int).Sub(pow2(8*L), one))
		a.add("bytelen", pow2(8*L-1))
		a.add("bytelen", pow2(8*(L-1)))
	}
	// deterministic pseudo-uniform scalars (SM3 chain): dense, every window non-trivial at once
	nc32, nc40 := 256, 64
	if quick {
		nc32, nc40 = 64, 16
	}
	for _, b := range chain("c05-scalar-32", nc32, 32) {
		a.add("chain32", new(big.Int).SetBytes(b))
	}
	for _, b := range chain("c05-scalar-40", nc40, 40) {
		a.add("chain40", new(big.Int).SetBytes(b))
	}
	for _, b := range chain("c05-scalar-31", 8, 31) {
		a.add("chain31", new(big.Int).SetBytes(b))
	}
	return a.list
}

// encodings returns the byte strings (big-endian) under which value v is fed to the byte-slice APIs:
// the minimal encoding and zero-padded encodings of 32, 33 and 40 bytes where they differ; with all=true
// every length from the minimal one to 40.
func encodings(v *big.Int, all bool) [][]byte {
	min := v.Bytes()
	out := [][]byte{min}
	pad := func(L int) {
		if L > len(min) {
			out = append(out, v.FillBytes(make([]byte, L)))
		}
	}
	if all {
		for L := len(min) + 1; L <= 40; L++ {
			pad(L)
		}
		return out
	}
	pad(32)
	pad(33)
	pad(40)
	return out
}

func lenClass(n int) string {
	switch {
	case n < 32:
		return "lt32"
	case n == 32:
		return "eq32"
	default:
		return "gt32"
	}
}

func sname(v *big.Int) string {
	s := v.Text(16)
	if len(s) > 20 {
		return fmt.Sprintf("%s..%s(%dbit)", s[:8], s[len(s)-8:], v.BitLen())
	}
	return s
}
