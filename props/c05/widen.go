package c05

// Widening of the C05 alphabet in the generic input dimensions of DESIGN §11.4 (checklist of §11.5).
//
// Every oracle in the widen*.go files is one of
//   (a) the specification oracle of c05.go / decoders.go / internal.go / ordfield.go (exact affine arithmetic,
//       "accept <=> canonical encoding of an on-curve point of a documented form", math/big modulo n or p),
//   (b) "memory that belongs to the caller (an argument, the spare capacity behind it, the neighbouring argument of
//       the same record, a big.Int argument incl. its spare words) is unchanged after the call",
//   (c) "the same call on the same arguments gives the same answer again", also after the harness has overwritten
//       everything the first call returned, and after other calls were made in between,
//   (d) a behaviour the library documents itself ("If the point is not on the curve, it returns nil and an error,
//       and the receiver is unchanged", "returns an error and the receiver is unchanged").
//
// This file: shared helpers and the family `place/` (dimensions 1, 3 and the input-integrity half of 5): every
// byte-slice argument of every entry point of the property in every placement class.

import (
	"bytes"
	"crypto/elliptic"
	"fmt"
	"math/big"

	"github.com/emmansun/gmsm/ecdh"
	"github.com/emmansun/gmsm/sm2"
	vh "github.com/emmansun/gmsm/verifhook"

	"verif/engine"
	"verif/ref/ecref"
)

func runWiden(c *engine.Ctx, pts []npoint, scalars []scalar) {
	runPlace(c, pts)
	runOwn(c, pts)
	runCtorArg(c, pts)
	runIntegrity(c, pts)
	runHistory(c, pts)
	runLongScalar(c, pts)
	runVariant(c, pts, scalars)
	runOrdUnreduced(c)
	runBigmod(c)
	runBackendOnly(c)
	runMontgomery(c)
}

// ---------------------------------------------------------------------------------------------------------
// helpers

func dirty(b []byte, salt int) {
	for i := range b {
		v := byte(0xD1) ^ byte((i+salt)*7)
		if v == 0 {
			v = 0xEE
		}
		b[i] = v
	}
}

// placed is a set of argument views together with everything needed to verify afterwards that the callee did not
// write to caller memory.
type placed struct {
	views  [][]byte
	arrays [][]byte // every backing array handed out (full extent)
	snaps  [][]byte // their contents before the call
	pool   *engine.Pool
}

func (p *placed) track(arr []byte) {
	p.arrays = append(p.arrays, arr)
}

func (p *placed) seal() {
	p.snaps = p.snaps[:0]
	for _, a := range p.arrays {
		p.snaps = append(p.snaps, append([]byte(nil), a...))
	}
}

// intact reports whether all tracked memory is unchanged; what describes the first difference.
func (p *placed) intact() (bool, string) {
	for i, a := range p.arrays {
		if d := engine.FirstDiff(a, p.snaps[i]); d >= 0 {
			return false, fmt.Sprintf("array #%d (%d bytes) differs at offset %d: %02x -> %02x", i, len(a), d, p.snaps[i][d], a[d])
		}
	}
	return true, ""
}

// release frees guard pages; false if a canary in front of a guarded buffer was overwritten.
func (p *placed) release() bool {
	if p.pool != nil {
		return p.pool.Release()
	}
	return true
}

// placementModes: the placement classes of dimension 1 and 3.
//
//	exact      every argument in its own array, cap == len
//	guard      every argument ends at a PROT_NONE page (reads or writes past the end kill the worker), canary in front
//	cap+1      one dirty byte of spare capacity
//	cap=31     spare capacity up to a total of 31 bytes (one short of a normalised scalar / field element)
//	cap=32     spare capacity up to a total of exactly 32 bytes (exact fit for a normalised scalar)
//	cap=65     spare capacity up to a total of exactly 65 bytes (exact fit for an uncompressed point)
//	cap+64     ample dirty spare capacity
//	record     all arguments back to back in ONE array followed by 64 dirty bytes, capacities reach to the end
//	record-rev the same with the arguments in reverse memory order
//	odd        each argument starts at an odd address inside a larger dirty array (cap reaches to the end)
var placementModes = []string{"exact", "guard", "cap+1", "cap=31", "cap=32", "cap=65", "cap+64", "record", "record-rev", "odd"}

// place lays args out according to mode. ok=false: the mode does not apply to these lengths (nothing new).
func place(mode string, args [][]byte) (p *placed, ok bool) {
	p = &placed{}
	own := func(a []byte, capTotal int) []byte {
		arr := make([]byte, capTotal)
		dirty(arr, len(a))
		copy(arr, a)
		p.track(arr)
		return arr[:len(a):capTotal]
	}
	applies := false
	switch mode {
	case "exact":
		applies = true
		for _, a := range args {
			if a == nil {
				p.views = append(p.views, nil)
				continue
			}
			p.views = append(p.views, own(a, len(a)))
		}
	case "guard":
		applies = true
		p.pool = &engine.Pool{}
		for _, a := range args {
			if a == nil {
				p.views = append(p.views, nil)
				continue
			}
			v := p.pool.Copy(a)
			p.track(v)
			p.views = append(p.views, v)
		}
	case "cap+1", "cap+64":
		applies = true
		extra := 1
		if mode == "cap+64" {
			extra = 64
		}
		for _, a := range args {
			p.views = append(p.views, own(a, len(a)+extra))
		}
	case "cap=31", "cap=32", "cap=65":
		total := map[string]int{"cap=31": 31, "cap=32": 32, "cap=65": 65}[mode]
		for _, a := range args {
			if len(a) < total {
				applies = true
				p.views = append(p.views, own(a, total))
			} else {
				p.views = append(p.views, own(a, len(a)))
			}
		}
	case "record", "record-rev":
		applies = len(args) >= 1
		n := 0
		for _, a := range args {
			n += len(a)
		}
		whole := make([]byte, n+64)
		dirty(whole, n)
		p.views = make([][]byte, len(args))
		off := 0
		for k := range args {
			i := k
			if mode == "record-rev" {
				i = len(args) - 1 - k
			}
			copy(whole[off:], args[i])
			p.views[i] = whole[off : off+len(args[i]) : len(whole)]
			off += len(args[i])
		}
		if mode == "record-rev" && len(args) < 2 {
			applies = false
		}
		p.track(whole)
	case "odd":
		applies = true
		for _, a := range args {
			arr := make([]byte, len(a)+1+16)
			dirty(arr, 3*len(a))
			copy(arr[1:], a)
			p.track(arr)
			p.views = append(p.views, arr[1:1+len(a):len(arr)])
		}
	default:
		panic("c05: unknown placement " + mode)
	}
	p.seal()
	return p, applies
}

// pcall is one library call whose byte-slice arguments are to be tried in every placement.
type pcall struct {
	op    string   // entry point (part of the finding key)
	class string   // input class (part of the Nontrivial class, not of the key)
	args  [][]byte // argument contents
	want  string   // transcript expected from the reference
	exec  func(a [][]byte) string
}

func ptStr(x, y *big.Int) string {
	if x == nil || y == nil {
		return "nil"
	}
	if x.Sign() == 0 && y.Sign() == 0 {
		return "inf"
	}
	return fmt.Sprintf("%064x/%064x", x, y)
}

func refStr(p ecref.Point) string {
	if p.Inf {
		return "inf"
	}
	return fmt.Sprintf("%064x/%064x", p.X, p.Y)
}

func encStr(b []byte) string {
	p, ok := refOfBytes(ecref.SM2(), b)
	if !ok {
		return fmt.Sprintf("bytes:%x", b)
	}
	return refStr(p)
}

func errStr(err error) string {
	if err != nil {
		return "error"
	}
	return "ok"
}

// runPlaced executes every call in every placement and applies oracles (a), (b), (c).
func runPlaced(t *engine.T, calls []pcall) {
	for _, pc := range calls {
		for _, mode := range placementModes {
			p, ok := place(mode, pc.args)
			if !ok {
				continue
			}
			var got, again string
			panicked := t.Guard("place/"+pc.op+"/"+mode, func() {
				got = pc.exec(p.views)
				again = pc.exec(p.views)
			})
			t.Eval(2)
			if !panicked {
				if got != pc.want {
					t.Fail("place/"+pc.op+"/"+mode+"/result", "%s, arguments %s placed %q: got %s want %s", pc.op, argStr(pc.args), mode, got, pc.want)
				} else if again != got {
					t.Fail("place/"+pc.op+"/"+mode+"/second-call-differs", "%s, arguments %s placed %q: second call on the same buffers gives %s, first %s", pc.op, argStr(pc.args), mode, again, got)
				}
				if ok, what := p.intact(); !ok {
					t.Fail("place/"+pc.op+"/"+mode+"/caller-memory-modified", "%s, arguments %s placed %q: %s", pc.op, argStr(pc.args), mode, what)
				}
			}
			if !p.release() {
				t.Fail("place/"+pc.op+"/"+mode+"/write-before-argument", "%s: canary in front of a guarded argument overwritten", pc.op)
			}
			t.Nontrivial("place/" + pc.op + "/" + mode + "/" + pc.class)
			t.Outcome("place/" + pc.op + "/" + outcomeClass(pc.want))
		}
	}
}

func outcomeClass(s string) string {
	switch {
	case s == "inf", s == "error", s == "nil", s == "reject":
		return s
	default:
		return "value"
	}
}

func argStr(args [][]byte) string {
	s := ""
	for i, a := range args {
		if i > 0 {
			s += ", "
		}
		if a == nil {
			s += "nil"
		} else {
			s += fmt.Sprintf("%x(%d)", a, len(a))
		}
	}
	return "[" + s + "]"
}

// widenScalars: the small scalar alphabet of the placement / ownership / history families.
func widenScalars() []*big.Int {
	n := ecref.SM2().N
	ch := new(big.Int).SetBytes(chain("c05-widen-k", 1, 32)[0])
	return []*big.Int{
		big.NewInt(0), big.NewInt(1), big.NewInt(2), big.NewInt(64), new(big.Int).Add(pow2(200), big.NewInt(5)),
		new(big.Int).Sub(n, two), new(big.Int).Sub(n, one), new(big.Int).Set(n), new(big.Int).Add(n, one),
		pow2(255), new(big.Int).Sub(pow2(256), one), ch,
	}
}

func widenPoints(pts []npoint) []npoint {
	names := []string{"inf", "1G", "(n-1)G", "2G", "7G", "chain#0", "x>=0/y0", "largey#0"}
	var out []npoint
	for _, n := range names {
		out = append(out, findPoint(pts, n))
	}
	return out
}

// ---------------------------------------------------------------------------------------------------------
// family place/

func runPlace(c *engine.Ctx, pts []npoint) {
	ref := ecref.SM2()
	curve := sm2ecCurve()
	wp := widenPoints(pts)
	ws := widenScalars()
	cm := curve.(combinedMulter)

	c.Case("place/scalar-arguments", func(t *engine.T) {
		var calls []pcall
		tg := newMulTable(ref, ref.G())
		mulPts := []npoint{wp[4], wp[0], wp[6]} // 7G, inf, x>=0
		var tps []*mulTable
		for _, p := range mulPts {
			tps = append(tps, newMulTable(ref, p.p))
		}
		for si, s := range ws {
			s := s
			for _, enc := range append(encodings(s, !t.Quick()), nilIfZero(s)...) { // thorough: every length from the minimal one to 40
				cls := fmt.Sprintf("k#%d/len=%d", si, len(enc))
				calls = append(calls, pcall{op: "ScalarBaseMult", class: cls, args: [][]byte{enc}, want: refStr(tg.mul(s)),
					exec: func(a [][]byte) string { return ptStr(curve.ScalarBaseMult(a[0])) }})
				for pi, p := range mulPts {
					p := p
					calls = append(calls, pcall{op: "ScalarMult", class: cls + "/" + p.name, args: [][]byte{enc}, want: refStr(tps[pi].mul(s)),
						exec: func(a [][]byte) string { px, py := affine(p.p); return ptStr(curve.ScalarMult(px, py, a[0])) }})
				}
			}
		}
		// CombinedMult: both scalars in one call (record: s1||s2 and s2||s1)
		for i, s1 := range ws {
			for j, s2 := range ws {
				if (i+j)%3 != 0 && !(i == j) {
					continue
				}
				s1, s2 := s1, s2
				p := mulPts[0]
				want := refStr(ref.Add(tg.mul(s1), tps[0].mul(s2)))
				for ei, encs := range [][2][]byte{{primary(s1), primary(s2)}, {s1.Bytes(), s2.Bytes()}, {s1.FillBytes(make([]byte, 40)), s2.Bytes()}, {s1.Bytes(), s2.FillBytes(make([]byte, 33))}} {
					calls = append(calls, pcall{op: "CombinedMult", class: fmt.Sprintf("k#%d,k#%d/enc#%d", i, j, ei), args: [][]byte{encs[0], encs[1]}, want: want,
						exec: func(a [][]byte) string { px, py := affine(p.p); return ptStr(cm.CombinedMult(px, py, a[0], a[1])) }})
				}
			}
		}
		runPlaced(t, calls)
		// the same slice for both scalars
		for si, s := range ws {
			for _, enc := range encodings(s, false) {
				for _, mode := range placementModes {
					p, ok := place(mode, [][]byte{enc})
					if !ok {
						continue
					}
					want := refStr(ref.Add(tg.mul(s), tps[0].mul(s)))
					t.Guard("place/CombinedMult/aliased-scalars", func() {
						px, py := affine(mulPts[0].p)
						if got := ptStr(cm.CombinedMult(px, py, p.views[0], p.views[0])); got != want {
							t.Fail("place/CombinedMult/aliased-scalars/result", "CombinedMult(7G, s, s) with one slice for both scalars (%x, placed %q) = %s want %s", enc, mode, got, want)
						}
					})
					t.Eval(1)
					if ok, what := p.intact(); !ok {
						t.Fail("place/CombinedMult/aliased-scalars/caller-memory-modified", "placed %q: %s", mode, what)
					}
					p.release()
					t.Nontrivial(fmt.Sprintf("place/CombinedMult/aliased/%s/k#%d/len=%d", mode, si, len(enc)))
				}
			}
		}
		t.Sample(map[string]any{"family": "place", "calls": len(calls), "placements": placementModes})
	})

	c.Case("place/internal-scalar-arguments", func(t *engine.T) {
		var calls []pcall
		P := ref.BaseMul(big.NewInt(7))
		tp := newMulTable(ref, P)
		tg := newMulTable(ref, ref.G())
		for si, s := range ws {
			s := s
			for _, L := range []int{31, 32, 33} {
				if s.BitLen() > 8*L {
					continue
				}
				enc := s.FillBytes(make([]byte, L))
				wantB, wantM := "error", "error"
				if L == 32 {
					wantB, wantM = refStr(tg.mul(s)), refStr(tp.mul(s))
				}
				cls := fmt.Sprintf("k#%d/len=%d", si, L)
				calls = append(calls, pcall{op: "SM2P256Point.ScalarBaseMult", class: cls, args: [][]byte{enc}, want: wantB, exec: func(a [][]byte) string {
					r, err := vh.NewSM2P256Point().ScalarBaseMult(a[0])
					if err != nil {
						return "error"
					}
					return encStr(r.Bytes())
				}})
				calls = append(calls, pcall{op: "SM2P256Point.ScalarMult", class: cls, args: [][]byte{enc}, want: wantM, exec: func(a [][]byte) string {
					r, err := vh.NewSM2P256Point().ScalarMult(mustP(vh.NewSM2P256Point().SetBytes(P.Uncompressed())), a[0])
					if err != nil {
						return "error"
					}
					return encStr(r.Bytes())
				}})
			}
		}
		runPlaced(t, calls)
	})

	c.Case("place/point-encodings", func(t *engine.T) {
		decs := decoders(curve)
		var calls []pcall
		for _, p := range wp[1:] {
			X, Y := ecref.Bytes32(p.p.X), ecref.Bytes32(p.p.Y)
			yp1 := new(big.Int).Add(p.p.Y, one)
			encs := []mutant{
				{"canonical/65", p.p.Uncompressed()}, {"canonical/33", p.p.Compressed()}, {"other-parity/33", ref.Neg(p.p).Compressed()},
				{"hybrid/65", cat([]byte{6 | byte(p.p.Y.Bit(0))}, X, Y)}, {"x=p/65", cat([]byte{4}, b32(ref.P), Y)}, {"x=p/33", cat([]byte{2}, b32(ref.P))},
				{"y+1/65", cat([]byte{4}, X, b32(yp1.Mod(yp1, pow2(256))))}, {"truncated/64", p.p.Uncompressed()[:64]}, {"truncated/32", p.p.Compressed()[:32]},
				{"extended/66", cat(p.p.Uncompressed(), []byte{0})}, {"extended/34", cat(p.p.Compressed(), []byte{0})}, {"prefix-only/1", []byte{4}},
			}
			for _, m := range encs {
				m := m
				form, want := refDecode(ref, m.b)
				for _, d := range decs {
					d := d
					w := "reject"
					if form == d.form {
						w = refStr(want) + "|" + fmt.Sprintf("%x", m.b)
					}
					calls = append(calls, pcall{op: d.name, class: m.class + "/" + p.name, args: [][]byte{m.b}, want: w, exec: func(a [][]byte) string {
						ok, x, y, re := d.f(a[0])
						if !ok {
							return "reject"
						}
						return ptStr(x, y) + "|" + fmt.Sprintf("%x", re)
					}})
				}
				// the internal decoder accepts all three SEC 1 forms
				wi := "error"
				if form != "" {
					wi = refStr(want)
				}
				calls = append(calls, pcall{op: "SM2P256Point.SetBytes", class: m.class + "/" + p.name, args: [][]byte{m.b}, want: wi, exec: func(a [][]byte) string {
					r, err := vh.NewSM2P256Point().SetBytes(a[0])
					if err != nil {
						return "error"
					}
					return encStr(r.Bytes())
				}})
			}
		}
		calls = append(calls, pcall{op: "SM2P256Point.SetBytes", class: "infinity/1", args: [][]byte{{0}}, want: "inf", exec: func(a [][]byte) string {
			r, err := vh.NewSM2P256Point().SetBytes(a[0])
			if err != nil {
				return "error"
			}
			return encStr(r.Bytes())
		}})
		runPlaced(t, calls)
	})

	c.Case("place/private-key-bytes", func(t *engine.T) {
		var calls []pcall
		tg := newMulTable(ref, ref.G())
		nm1 := new(big.Int).Sub(ref.N, one)
		Q := findPoint(pts, "chain#0")
		tq := newMulTable(ref, Q.p)
		qpub, err := ecdh.P256().NewPublicKey(Q.p.Uncompressed())
		if err != nil {
			t.Fail("decode/ecdh.NewPublicKey/rejects-valid", "ecdh.NewPublicKey(%s): %v", Q.name, err)
			return
		}
		for si, s := range ws {
			s := s
			for _, L := range []int{31, 32, 33} {
				if s.BitLen() > 8*L {
					continue
				}
				enc := s.FillBytes(make([]byte, L))
				valid := L == 32 && s.Sign() > 0 && s.Cmp(nm1) < 0
				want := "error"
				if valid {
					want = fmt.Sprintf("d=%x pub=%s", enc, refStr(tg.mul(s)))
				}
				cls := fmt.Sprintf("k#%d/len=%d", si, L)
				if !(L == 32 && s.Cmp(nm1) == 0) { // d = n-1: ecdh may go either way (c05.go)
					wantE := want
					if valid {
						wantE += " ecdh=" + fmt.Sprintf("%064x", tq.mul(s).X)
					}
					calls = append(calls, pcall{op: "ecdh.NewPrivateKey", class: cls, args: [][]byte{enc}, want: wantE, exec: func(a [][]byte) string {
						k, err := ecdh.P256().NewPrivateKey(a[0])
						if err != nil {
							return "error"
						}
						sh, err := k.ECDH(qpub)
						if err != nil {
							return "ecdh-error"
						}
						return fmt.Sprintf("d=%x pub=%s ecdh=%x", k.Bytes(), encStr(k.PublicKey().Bytes()), sh)
					}})
				}
				calls = append(calls, pcall{op: "sm2.NewPrivateKey", class: cls, args: [][]byte{enc}, want: want, exec: func(a [][]byte) string {
					k, err := sm2.NewPrivateKey(a[0])
					if err != nil {
						return "error"
					}
					return fmt.Sprintf("d=%064x pub=%s", k.D, ptStr(k.X, k.Y))
				}})
			}
		}
		runPlaced(t, calls)
	})

	c.Case("place/ordfield-arguments", func(t *engine.T) {
		n := ref.N
		var calls []pcall
		vals := []*big.Int{big.NewInt(0), big.NewInt(1), big.NewInt(2), new(big.Int).Sub(n, one), new(big.Int).Sub(n, two), new(big.Int).Rsh(n, 1),
			new(big.Int).Sub(pow2(256), n), new(big.Int).Mod(new(big.Int).SetBytes(chain("c05-widen-ord", 1, 32)[0]), n)}
		hex32 := func(v *big.Int) string { return fmt.Sprintf("%064x", v) }
		res := func(b []byte, err error) string {
			if err != nil {
				return "error"
			}
			return fmt.Sprintf("%x", b)
		}
		for ai, a := range vals {
			a := a
			inv := new(big.Int)
			if a.Sign() != 0 {
				inv.ModInverse(a, n)
			}
			calls = append(calls, pcall{op: "P256OrdInverse", class: fmt.Sprintf("v#%d", ai), args: [][]byte{b32(a)}, want: hex32(inv),
				exec: func(x [][]byte) string { return res(vh.P256OrdInverse(x[0])) }})
			for _, L := range []int{31, 33} {
				calls = append(calls, pcall{op: "P256OrdInverse", class: fmt.Sprintf("v#%d/len=%d", ai, L), args: [][]byte{make([]byte, L)}, want: "error",
					exec: func(x [][]byte) string { return res(vh.P256OrdInverse(x[0])) }})
			}
			for bi, b := range vals {
				b := b
				prod := new(big.Int).Mul(a, b)
				prod.Mod(prod, n)
				calls = append(calls, pcall{op: "P256OrdMul", class: fmt.Sprintf("v#%d*v#%d", ai, bi), args: [][]byte{b32(a), b32(b)}, want: hex32(prod),
					exec: func(x [][]byte) string { return res(vh.P256OrdMul(x[0], x[1])) }})
				for si, s := range vals {
					if (ai+bi+si)%3 != 0 {
						continue
					}
					sum := new(big.Int).Add(prod, s)
					sum.Mod(sum, n)
					calls = append(calls, pcall{op: "ImplicitSig", class: fmt.Sprintf("v#%d+v#%d*v#%d", si, ai, bi), args: [][]byte{b32(s), b32(a), b32(b)}, want: hex32(sum),
						exec: func(x [][]byte) string { return res(vh.ImplicitSig(x[0], x[1], x[2])) }})
				}
			}
		}
		runPlaced(t, calls)
		// one slice for all three arguments of ImplicitSig: v*v + v
		for ai, a := range vals {
			want := new(big.Int).Mul(a, a)
			want.Add(want, a).Mod(want, n)
			x := b32(a)
			keep := append([]byte(nil), x...)
			var got []byte
			var err error
			if !t.Guard("place/ImplicitSig/aliased", func() { got, err = vh.ImplicitSig(x, x, x) }) {
				if res(got, err) != hex32(want) {
					t.Fail("place/ImplicitSig/aliased/result", "ImplicitSig(x, x, x), x=%x = %s want %s", keep, res(got, err), hex32(want))
				}
				if !bytes.Equal(x, keep) {
					t.Fail("place/ImplicitSig/aliased/caller-memory-modified", "argument modified")
				}
			}
			t.Eval(1)
			t.Nontrivial(fmt.Sprintf("place/ImplicitSig/aliased/v#%d", ai))
		}
	})
}

func nilIfZero(v *big.Int) [][]byte {
	if v.Sign() == 0 {
		return [][]byte{nil}
	}
	return nil
}

func sm2ecCurve() elliptic.Curve { return sm2.P256() }
