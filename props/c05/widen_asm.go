//go:build !purego

package c05

import "verif/engine"

// The assembly backend of the internal point type exports nothing beyond the common method set; the case exists in
// both builds so that the case list (and with it the sharding) is the same.
func runBackendOnly(c *engine.Ctx) {
	c.Case("variant/backend-only", func(t *engine.T) {
		t.Eval(1)
		t.Nontrivial("variant/backend-only/asm-none")
	})
}
