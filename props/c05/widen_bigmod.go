package c05

// Family bigmod/ (dimension 8, "every entry point that reaches the same mechanism"): internal/bigmod is the
// scalar-field arithmetic the sm2 package uses next to the curve package's own helpers (k + r, d * r, (1+d)^-1 * (k - r*d)
// modulo n in signing and verification, range checks of private keys, r = x mod n). It is an anchor of the property and
// was not enumerated. Here: the full product of a boundary alphabet for the moduli n AND p against math/big, every
// documented precondition respected (operands reduced and of the modulus' size, modulus odd).

import (
	"bytes"
	"fmt"
	"math/big"

	vh "github.com/emmansun/gmsm/verifhook"

	"verif/engine"
	"verif/ref/ecref"
)

// modAlphabet: boundary values modulo m (the construction of ordAlphabet, for an arbitrary 256-bit modulus).
func modAlphabet(m *big.Int, label string, quick bool) []*big.Int {
	two256 := pow2(256)
	var out []*big.Int
	seen := map[string]bool{}
	add := func(v *big.Int) {
		v = new(big.Int).Mod(v, m)
		if k := v.Text(16); !seen[k] {
			seen[k] = true
			out = append(out, v)
		}
	}
	for i := int64(0); i <= 4; i++ {
		add(big.NewInt(i))
		add(new(big.Int).Sub(m, big.NewInt(i+1)))
	}
	half := new(big.Int).Rsh(m, 1)
	add(half)
	add(new(big.Int).Add(half, one))
	gap := new(big.Int).Sub(two256, m)
	for d := int64(-2); d <= 2; d++ {
		add(new(big.Int).Add(gap, big.NewInt(d)))
	}
	for _, k := range []uint{31, 32, 33, 63, 64, 65, 127, 128, 129, 191, 192, 193, 223, 224, 225, 254, 255} {
		p := new(big.Int).Lsh(one, k)
		add(p)
		add(new(big.Int).Sub(p, one))
	}
	m64 := new(big.Int).Sub(pow2(64), one)
	for i := uint(0); i < 4; i++ {
		add(new(big.Int).Lsh(m64, 64*i))
		add(new(big.Int).Sub(m, new(big.Int).Lsh(m64, 64*i)))
	}
	// square roots of values next to multiples of m are out of reach; take the Montgomery constants instead:
	// R mod m, R^2 mod m, -m^-1 style values that make intermediate reductions end at their edges
	add(new(big.Int).Mod(two256, m))
	add(new(big.Int).Mod(new(big.Int).Mul(two256, two256), m))
	if inv := new(big.Int).ModInverse(new(big.Int).Mod(two256, m), m); inv != nil {
		add(inv)
	}
	nc := 10
	if quick {
		nc = 3
	}
	for _, b := range chain("c05-bigmod-"+label, nc, 32) {
		add(new(big.Int).SetBytes(b))
	}
	return out
}

func natBytes(x *vh.Nat, M *vh.Modulus) (b []byte, ok bool) {
	defer func() {
		if recover() != nil {
			b, ok = nil, false
		}
	}()
	return x.Bytes(M), true
}

func runBigmod(c *engine.Ctx) {
	ref := ecref.SM2()
	for _, md := range []struct {
		name string
		m    *big.Int
	}{{"n", ref.N}, {"p", ref.P}} {
		md := md
		m := md.m
		alpha := modAlphabet(m, md.name, c.Quick())
		enc := func(v *big.Int) []byte { return v.FillBytes(make([]byte, 32)) }
		newMod := func(t *engine.T) *vh.Modulus {
			M, err := vh.NewModulus(m.Bytes())
			if err != nil || M == nil {
				t.Fail("bigmod/"+md.name+"/modulus/error", "NewModulus(%s): %v", md.name, err)
				return nil
			}
			return M
		}
		nat := func(M *vh.Modulus, v *big.Int) *vh.Nat {
			x, err := vh.NewNat().SetBytes(enc(v), M)
			if err != nil {
				panic(fmt.Sprintf("c05: bigmod SetBytes refuses a reduced value: %v", err))
			}
			return x
		}
		eq := func(t *engine.T, key, what string, x *vh.Nat, M *vh.Modulus, want *big.Int) {
			bigmodEq(t, m, key, what, x, M, want)
		}

		c.Case("bigmod/"+md.name+"/unary", func(t *engine.T) {
			M := newMod(t)
			if M == nil {
				return
			}
			if M.Size() != 32 || M.BitLen() != 256 {
				t.Fail("bigmod/"+md.name+"/modulus/size", "Size()=%d BitLen()=%d", M.Size(), M.BitLen())
			}
			eq(t, "bigmod/"+md.name+"/modulus/nat", "Modulus.Nat()", M.Nat(), M, m) // Bytes allows x == m
			mm1 := new(big.Int).Sub(m, one)
			mm2 := new(big.Int).Sub(m, two)
			for _, a := range alpha {
				what := fmt.Sprintf("a=%x", a)
				t.Guard("bigmod/"+md.name+"/unary", func() {
					x := nat(M, a)
					eq(t, "bigmod/"+md.name+"/setbytes", "SetBytes("+what+")", x, M, a)
					if (x.IsZero() == 1) != (a.Sign() == 0) || (x.IsOne() == 1) != (a.Cmp(one) == 0) || (x.IsMinusOne(M) == 1) != (a.Cmp(mm1) == 0) || (x.IsOdd() == 1) != (a.Bit(0) == 1) {
						t.Fail("bigmod/"+md.name+"/predicates", "%s: IsZero=%d IsOne=%d IsMinusOne=%d IsOdd=%d", what, x.IsZero(), x.IsOne(), x.IsMinusOne(M), x.IsOdd())
					}
					if x.BitLenVarTime() != a.BitLen() || (a.Sign() != 0 && x.TrailingZeroBitsVarTime() != a.TrailingZeroBits()) {
						t.Fail("bigmod/"+md.name+"/bitlen", "%s: BitLenVarTime=%d TrailingZeroBitsVarTime=%d", what, x.BitLenVarTime(), x.TrailingZeroBitsVarTime())
					}
					eq(t, "bigmod/"+md.name+"/predicates/operand-modified", "operand after the predicates, "+what, x, M, a)
					eq(t, "bigmod/"+md.name+"/set", "Set("+what+")", vh.NewNat().Set(x), M, a)
					eq(t, "bigmod/"+md.name+"/subone", "SubOne("+what+")", nat(M, a).SubOne(M), M, new(big.Int).Mod(new(big.Int).Sub(a, one), m))
					x2 := nat(M, a)
					eq(t, "bigmod/"+md.name+"/add/aliased", "x.Add(x), "+what, x2.Add(x2, M), M, new(big.Int).Mod(new(big.Int).Lsh(a, 1), m))
					x3 := nat(M, a)
					eq(t, "bigmod/"+md.name+"/sub/aliased", "x.Sub(x), "+what, x3.Sub(x3, M), M, new(big.Int))
					x4 := nat(M, a)
					eq(t, "bigmod/"+md.name+"/mul/aliased", "x.Mul(x), "+what, x4.Mul(x4, M), M, new(big.Int).Mod(new(big.Int).Mul(a, a), m))
					// shorter and minimal encodings of the same value; values in [m, 2^256)
					for _, b := range [][]byte{a.Bytes(), append([]byte{0}, a.Bytes()...)} {
						if len(b) > 32 {
							continue
						}
						y, err := vh.NewNat().SetBytes(b, M)
						if err != nil {
							t.Fail("bigmod/"+md.name+"/setbytes/rejects-valid", "SetBytes(%x (%d bytes)): %v", b, len(b), err)
						} else {
							eq(t, "bigmod/"+md.name+"/setbytes", fmt.Sprintf("SetBytes(%x (%d bytes))", b, len(b)), y, M, a)
						}
					}
					over := new(big.Int).Add(a, m)
					if over.BitLen() <= 256 {
						if _, err := vh.NewNat().SetBytes(enc(over), M); err == nil {
							t.Fail("bigmod/"+md.name+"/setbytes/accepts-overflowing", "SetBytes(%x) accepted although the value is >= the modulus", over)
						}
						y, err := vh.NewNat().SetOverflowingBytes(enc(over), M)
						if err != nil {
							t.Fail("bigmod/"+md.name+"/setoverflowingbytes/error", "SetOverflowingBytes(%x): %v", over, err)
						} else {
							eq(t, "bigmod/"+md.name+"/setoverflowingbytes/overflowing", fmt.Sprintf("SetOverflowingBytes(%x)", over), y, M, a)
						}
						t.Eval(1)
					}
					y, err := vh.NewNat().SetOverflowingBytes(enc(a), M)
					if err != nil {
						t.Fail("bigmod/"+md.name+"/setoverflowingbytes/error", "SetOverflowingBytes(%x): %v", a, err)
					} else {
						eq(t, "bigmod/"+md.name+"/setoverflowingbytes/reduced", "SetOverflowingBytes("+what+")", y, M, a)
					}
					// a receiver that held something else before
					z := nat(M, mm1)
					if _, err := z.SetBytes(enc(a), M); err != nil {
						t.Fail("bigmod/"+md.name+"/setbytes/rejects-valid", "SetBytes on a used receiver: %v", err)
					} else {
						eq(t, "bigmod/"+md.name+"/setbytes/used-receiver", "SetBytes("+what+") on a receiver that held m-1", z, M, a)
					}
					// inversion: Fermat (Exp with m-2) and the binary extended GCD agree with math/big
					if a.Sign() != 0 {
						want := new(big.Int).ModInverse(a, m)
						eq(t, "bigmod/"+md.name+"/exp/inverse", "Exp("+what+", m-2)", vh.NewNat().Exp(nat(M, a), mm2.Bytes(), M), M, want)
						r, ok := vh.NewNat().InverseVarTime(nat(M, a), M)
						if !ok {
							t.Fail("bigmod/"+md.name+"/inversevartime/not-invertible", "InverseVarTime(%s) reports not invertible", what)
						} else {
							eq(t, "bigmod/"+md.name+"/inversevartime", "InverseVarTime("+what+")", r, M, want)
						}
						x5 := nat(M, a)
						if r, ok := x5.InverseVarTime(x5, M); ok {
							eq(t, "bigmod/"+md.name+"/inversevartime/aliased", "x.InverseVarTime(x), "+what, r, M, want)
						} else {
							t.Fail("bigmod/"+md.name+"/inversevartime/not-invertible", "x.InverseVarTime(x), %s reports not invertible", what)
						}
					} else {
						r := nat(M, big.NewInt(5))
						if _, ok := r.InverseVarTime(nat(M, a), M); ok {
							t.Fail("bigmod/"+md.name+"/inversevartime/zero-invertible", "InverseVarTime(0) reports invertible")
						}
						eq(t, "bigmod/"+md.name+"/inversevartime/zero-modified-receiver", "receiver after InverseVarTime(0)", r, M, big.NewInt(5))
					}
					for _, e := range []*big.Int{new(big.Int), big.NewInt(1), big.NewInt(2), big.NewInt(65537), mm1, pow2(255)} {
						eq(t, "bigmod/"+md.name+"/exp", fmt.Sprintf("Exp(%s, %x)", what, e), vh.NewNat().Exp(nat(M, a), e.Bytes(), M), M, new(big.Int).Exp(a, e, m))
					}
					x6 := nat(M, a)
					eq(t, "bigmod/"+md.name+"/exp/aliased", "x.Exp(x, 3), "+what, x6.Exp(x6, []byte{3}, M), M, new(big.Int).Exp(a, big.NewInt(3), m))
					for _, e := range []uint{1, 2, 3, 65537, 1<<63 + 1} {
						eq(t, "bigmod/"+md.name+"/expshort", fmt.Sprintf("ExpShortVarTime(%s, %d)", what, e), vh.NewNat().ExpShortVarTime(nat(M, a), e, M), M, new(big.Int).Exp(a, new(big.Int).SetUint64(uint64(e)), m))
					}
				})
				t.Nontrivial("bigmod/" + md.name + "/unary/" + a.Text(16))
			}
			// SetUint
			for _, u := range []uint{0, 1, 2, 1<<32 - 1, 1 << 32, 1<<64 - 1} {
				eq(t, "bigmod/"+md.name+"/setuint", fmt.Sprintf("SetUint(%d)", u), nat(M, mm1).SetUint(u, M), M, new(big.Int).SetUint64(uint64(u)))
			}
			// too long inputs are refused, never truncated
			for _, L := range []int{33, 40, 64} {
				b := make([]byte, L)
				b[0] = 1
				if _, err := vh.NewNat().SetBytes(b, M); err == nil {
					t.Fail("bigmod/"+md.name+"/setbytes/accepts-too-long", "SetBytes accepts the %d-byte value 01 00..00", L)
				}
				if _, err := vh.NewNat().SetOverflowingBytes(b, M); err == nil {
					t.Fail("bigmod/"+md.name+"/setoverflowingbytes/accepts-too-long", "SetOverflowingBytes accepts the %d-byte value 01 00..00", L)
				}
				t.Eval(2)
			}
		})

		for ai := range alpha {
			if ai%8 != 0 {
				continue
			}
			c.Case(fmt.Sprintf("bigmod/%s/binary/a=#%02d..", md.name, ai), func(t *engine.T) {
				for aj := ai; aj < min(ai+8, len(alpha)); aj++ {
					bigmodBinary(t, md.name, m, alpha, aj)
				}
			})
		}
	}
}

// bigmodBinary: the row a = alpha[ai] of the binary-operation product.
func bigmodBinary(t *engine.T, mdName string, m *big.Int, alpha []*big.Int, ai int) {
	md := struct{ name string }{mdName}
	a := alpha[ai]
	enc := func(v *big.Int) []byte { return v.FillBytes(make([]byte, 32)) }
	M, err := vh.NewModulus(m.Bytes())
	if err != nil || M == nil {
		t.Fail("bigmod/"+md.name+"/modulus/error", "NewModulus(%s): %v", md.name, err)
		return
	}
	nat := func(M *vh.Modulus, v *big.Int) *vh.Nat {
		x, err := vh.NewNat().SetBytes(enc(v), M)
		if err != nil {
			panic(fmt.Sprintf("c05: bigmod SetBytes refuses a reduced value: %v", err))
		}
		return x
	}
	eq := func(t *engine.T, key, what string, x *vh.Nat, M *vh.Modulus, want *big.Int) {
		bigmodEq(t, m, key, what, x, M, want)
	}
	{
		{
			{
				for _, b := range alpha {
					what := fmt.Sprintf("a=%x b=%x", a, b)
					t.Guard("bigmod/"+md.name+"/binary", func() {
						y := nat(M, b)
						sum := new(big.Int).Add(a, b)
						cls := "sum<m"
						switch {
						case sum.BitLen() > 256:
							cls = "sum>=2^256"
						case sum.Cmp(m) >= 0:
							cls = "m<=sum<2^256"
						}
						eq(t, "bigmod/"+md.name+"/add/"+cls, "Add, "+what, nat(M, a).Add(y, M), M, sum.Mod(sum, m))
						t.Outcome("bigmod/add/" + cls)
						diff := new(big.Int).Sub(a, b)
						cls = "a>=b"
						if diff.Sign() < 0 {
							cls = "a<b"
						}
						eq(t, "bigmod/"+md.name+"/sub/"+cls, "Sub, "+what, nat(M, a).Sub(y, M), M, diff.Mod(diff, m))
						// a receiver of size zero expanded for the modulus: 0 - b (used by the library to negate)
						eq(t, "bigmod/"+md.name+"/sub/expanded-zero", "NewNat().ExpandFor(m).Sub(b), "+what, vh.NewNat().ExpandFor(M).Sub(y, M), M, new(big.Int).Mod(new(big.Int).Neg(b), m))
						prod := new(big.Int).Mul(a, b)
						eq(t, "bigmod/"+md.name+"/mul", "Mul, "+what, nat(M, a).Mul(y, M), M, prod.Mod(prod, m))
						eq(t, "bigmod/"+md.name+"/operand-modified", "second operand after Add/Sub/Mul, "+what, y, M, b)
						x := nat(M, a)
						if (x.Equal(y) == 1) != (a.Cmp(b) == 0) || (x.CmpGeq(y) == 1) != (a.Cmp(b) >= 0) {
							t.Fail("bigmod/"+md.name+"/compare", "%s: Equal=%d CmpGeq=%d", what, x.Equal(y), x.CmpGeq(y))
						}
						t.Eval(1)
						// a three-step chain as in signing: (a + b) * a - b
						w := new(big.Int).Add(a, b)
						w.Mul(w, a).Sub(w, b).Mod(w, m)
						eq(t, "bigmod/"+md.name+"/chain", "(a+b)*a-b, "+what, nat(M, a).Add(y, M).Mul(nat(M, a), M).Sub(y, M), M, w)
					})
					t.Nontrivial("bigmod/" + md.name + "/binary/" + a.Text(16) + "/" + b.Text(16))
				}
				// Mod of the unreduced double-width product and of its neighbours
				wide, err := vh.NewModulus(bytes.Repeat([]byte{0xff}, 64))
				if err != nil {
					t.Fail("bigmod/"+md.name+"/modulus/error", "NewModulus(2^512-1): %v", err)
					return
				}
				for bi, b := range alpha {
					if (ai+bi)%4 != 0 {
						continue
					}
					ff := new(big.Int).Sub(pow2(256), one)
					for d := int64(-1); d <= 2; d++ {
						v := new(big.Int).Mul(a, b) // the unreduced product of two reduced values, and its neighbours
						v.Add(v, big.NewInt(d))
						if d == 2 { // the product of the complements to 2^256-1: up to (2^256-1)^2 < 2^512-1
							v.Mul(new(big.Int).Sub(ff, a), new(big.Int).Sub(ff, b))
						}
						if v.Sign() < 0 {
							continue
						}
						t.Guard("bigmod/"+md.name+"/mod", func() {
							x, err := vh.NewNat().SetBytes(v.FillBytes(make([]byte, 64)), wide)
							if err != nil {
								t.Fail("bigmod/"+md.name+"/mod/setup", "SetBytes(64 bytes, 2^512-1): %v", err)
								return
							}
							eq(t, "bigmod/"+md.name+"/mod/wide", fmt.Sprintf("Mod(%x)", v), vh.NewNat().Mod(x, M), M, new(big.Int).Mod(v, m))
						})
					}
				}
			}
		}
	}
}

func bigmodEq(t *engine.T, m *big.Int, key, what string, x *vh.Nat, M *vh.Modulus, want *big.Int) {
	enc := func(v *big.Int) []byte { return v.FillBytes(make([]byte, 32)) }
	t.Eval(1)
	b, ok := natBytes(x, M)
	if !ok {
		t.Fail(key+"/not-reduced", "%s: the result does not fit the modulus", what)
		return
	}
	if !bytes.Equal(b, enc(want)) {
		g := new(big.Int).SetBytes(b)
		if g.Cmp(m) >= 0 {
			t.Fail(key+"/not-reduced", "%s = %x is not below the modulus (reduced value %x)", what, b, enc(want))
		} else {
			t.Fail(key+"/mismatch", "%s = %x want %x", what, b, enc(want))
		}
	}
}
