package c05

// Family history/ (dimension 6): call history on one object and on process-wide state.
//
//	history/receiver-state      every operation of the internal point type with a receiver that already holds each of
//	                            the point expressions of internal.go (the public wrappers always use a fresh receiver)
//	history/op-pairs            every ordered pair of 25 representative calls of the public surface (incl. failing
//	                            ones): the second call's answer must not depend on the first
//	history/two-objects         two ecdh private keys used alternately: every sequence of three (object, operation)
//	                            steps on fresh objects (lazily computed public key before / after / between ECDH calls)
//	history/accumulators        two internal point objects updated alternately by a fixed 96-step program in which the
//	                            objects are also operands of each other's updates, scalars going up and down in size

import (
	"bytes"
	"crypto/elliptic"
	"fmt"
	"math/big"

	"github.com/emmansun/gmsm/ecdh"
	"github.com/emmansun/gmsm/sm2"
	vh "github.com/emmansun/gmsm/verifhook"

	"verif/engine"
	"verif/ref/ecref"
)

func runHistory(c *engine.Ctx, pts []npoint) {
	ref := ecref.SM2()
	curve := sm2ecCurve()
	src := internalSources(c.Quick())
	ws := widenScalars()
	byName := func(n string) ipoint {
		for _, s := range src {
			if s.name == n {
				return s
			}
		}
		panic("c05: no internal source " + n)
	}
	operands := []ipoint{byName("inf:new"), byName("inf:mult(P,n)"), byName("G:generator"), byName("2G:G+G"), byName("7G:setbytes"), byName("-7G:mult(7G,n-1)")}

	// ---- receiver pre-state x operation -------------------------------------------------------------
	type rop struct {
		name string
		key  string
		want ecref.Point
		run  func(recv *vh.SM2P256Point) (*vh.SM2P256Point, error)
	}
	buildRops := func() []rop {
		var rops []rop
		rops = append(rops, rop{name: "SetGenerator", key: "SetGenerator", want: ref.G(), run: func(r *vh.SM2P256Point) (*vh.SM2P256Point, error) { return r.SetGenerator(), nil }})
		for _, b := range operands {
			b := b
			rops = append(rops, rop{name: "Set(" + b.name + ")", key: "Set", want: b.ref, run: func(r *vh.SM2P256Point) (*vh.SM2P256Point, error) { return r.Set(b.mk()), nil }})
			rops = append(rops, rop{name: "Double(" + b.name + ")", key: "Double", want: ref.Double(b.ref), run: func(r *vh.SM2P256Point) (*vh.SM2P256Point, error) { return r.Double(b.mk()), nil }})
			for _, a := range operands {
				a := a
				rops = append(rops, rop{name: "Add(" + a.name + "," + b.name + ")", key: "Add/" + opClass(a, b), want: ref.Add(a.ref, b.ref),
					run: func(r *vh.SM2P256Point) (*vh.SM2P256Point, error) { return r.Add(a.mk(), b.mk()), nil }})
			}
		}
		P7 := ref.BaseMul(big.NewInt(7))
		for _, e := range []struct {
			n string
			b []byte
			w ecref.Point
		}{{"G/65", ref.G().Uncompressed(), ref.G()}, {"7G/33", P7.Compressed(), P7}, {"-7G/33", ref.Neg(P7).Compressed(), ref.Neg(P7)}, {"inf/1", []byte{0}, ecref.Inf()}} {
			e := e
			rops = append(rops, rop{name: "SetBytes(" + e.n + ")", key: "SetBytes", want: e.w, run: func(r *vh.SM2P256Point) (*vh.SM2P256Point, error) { return r.SetBytes(append([]byte(nil), e.b...)) }})
		}
		tg := newMulTable(ref, ref.G())
		for si, s := range ws {
			if s.BitLen() > 256 {
				continue
			}
			k := b32(s)
			rops = append(rops, rop{name: fmt.Sprintf("ScalarBaseMult(k#%d)", si), key: "ScalarBaseMult", want: tg.mul(s), run: func(r *vh.SM2P256Point) (*vh.SM2P256Point, error) { return r.ScalarBaseMult(k) }})
			for _, a := range []ipoint{operands[0], operands[2], operands[3], operands[5]} {
				a := a
				rops = append(rops, rop{name: fmt.Sprintf("ScalarMult(%s,k#%d)", a.name, si), key: "ScalarMult", want: ref.Mul(s, a.ref), run: func(r *vh.SM2P256Point) (*vh.SM2P256Point, error) { return r.ScalarMult(a.mk(), k) }})
			}
		}
		return rops
	}
	for _, rs := range src {
		rs := rs
		c.Case("history/receiver-state/R="+rs.name, func(t *engine.T) {
			for _, op := range buildRops() {
				t.Guard("history/receiver-state/"+op.key, func() {
					recv := rs.mk()
					got, err := op.run(recv)
					t.Eval(1)
					if err != nil || got == nil {
						t.Fail("history/receiver-state/"+op.key+"/error", "%s on a receiver holding %s: %v", op.name, rs.name, err)
						return
					}
					if gb := got.Bytes(); !bytes.Equal(gb, encRef(op.want)) {
						t.Fail("history/receiver-state/"+op.key+"/depends-on-receiver", "%s on a receiver holding %s = %s, exact arithmetic gives %s", op.name, rs.name, engine.Hex(gb), engine.Hex(encRef(op.want)))
					}
					if got != recv {
						// the API returns the receiver; a different object would still have to hold the value
						if rb := recv.Bytes(); !bytes.Equal(rb, encRef(op.want)) {
							t.Fail("history/receiver-state/"+op.key+"/receiver-not-set", "%s: the receiver (held %s) encodes as %s afterwards", op.name, rs.name, engine.Hex(rb))
						}
					}
				})
				t.Nontrivial("history/receiver/" + rs.name + "/" + op.name)
				t.Outcome("history/receiver/" + op.key)
			}
		})
	}

	// ---- ordered pairs of public calls --------------------------------------------------------------
	type pop struct {
		name string
		want string
		run  func() string
	}
	pt := func(n string) ecref.Point { return findPoint(pts, n).p }
	chainK := new(big.Int).SetBytes(chain("c05-widen-k", 1, 32)[0])
	k2 := new(big.Int).SetBytes(chain("c05-widen-k2", 1, 32)[0])
	nm1 := new(big.Int).Sub(ref.N, one)
	const nPops = 25
	buildPops := func() []pop {
		P7 := ref.BaseMul(big.NewInt(7))
		cm := curve.(combinedMulter)
		inv := curve.(inverter)
		addOp := func(name string, p, q ecref.Point) pop {
			return pop{name, refStr(ref.Add(p, q)), func() string {
				px, py := affine(p)
				qx, qy := affine(q)
				return ptStr(curve.Add(px, py, qx, qy))
			}}
		}
		sbm := func(name string, k *big.Int, enc []byte) pop {
			return pop{name, refStr(ref.BaseMul(k)), func() string { return ptStr(curve.ScalarBaseMult(enc)) }}
		}
		sm := func(name string, p ecref.Point, k *big.Int, enc []byte) pop {
			return pop{name, refStr(ref.Mul(k, p)), func() string { px, py := affine(p); return ptStr(curve.ScalarMult(px, py, enc)) }}
		}
		dec := func(name string, f func([]byte) (*big.Int, *big.Int), b []byte, want string) pop {
			return pop{name, want, func() string { return ptStr(f(append([]byte(nil), b...))) }}
		}
		xp := cat([]byte{4}, b32(ref.P), ecref.Bytes32(P7.Y))
		qpub, _ := ecdh.P256().NewPublicKey(pt("chain#0").Uncompressed())
		ordRes := func(b []byte, err error) string {
			if err != nil {
				return "error"
			}
			return fmt.Sprintf("%x", b)
		}
		prod := new(big.Int).Mul(new(big.Int).Mod(chainK, ref.N), nm1)
		prod.Mod(prod, ref.N)
		isig := new(big.Int).Add(prod, nm1)
		isig.Mod(isig, ref.N)
		pops := []pop{
			addOp("Add(2G,7G)", pt("2G"), P7), addOp("Add(7G,7G)", P7, P7), addOp("Add(7G,-7G)", P7, ref.Neg(P7)), addOp("Add(inf,7G)", ecref.Inf(), P7), addOp("Add(x>=0,largey)", pt("x>=0/y0"), pt("largey#0")),
			{"Double(chain#0)", refStr(ref.Double(pt("chain#0"))), func() string { px, py := affine(pt("chain#0")); return ptStr(curve.Double(px, py)) }},
			sbm("ScalarBaseMult(0)", big.NewInt(0), make([]byte, 32)), sbm("ScalarBaseMult(1/short)", big.NewInt(1), []byte{1}), sbm("ScalarBaseMult(n-1)", nm1, b32(nm1)),
			sbm("ScalarBaseMult(chain/40)", chainK, chainK.FillBytes(make([]byte, 40))), sbm("ScalarBaseMult(2^256-1)", new(big.Int).Sub(pow2(256), one), b32(new(big.Int).Sub(pow2(256), one))),
			sm("ScalarMult(7G,chain)", P7, chainK, b32(chainK)), sm("ScalarMult(7G,n)", P7, ref.N, b32(ref.N)), sm("ScalarMult(inf,5)", ecref.Inf(), big.NewInt(5), []byte{5}), sm("ScalarMult(chain#0,k2/33)", pt("chain#0"), k2, k2.FillBytes(make([]byte, 33))),
			{"CombinedMult(7G;chain,k2)", refStr(ref.Add(ref.BaseMul(chainK), ref.Mul(k2, P7))), func() string { px, py := affine(P7); return ptStr(cm.CombinedMult(px, py, b32(chainK), b32(k2))) }},
			{"Inverse(chain)", fmt.Sprintf("%x", new(big.Int).ModInverse(new(big.Int).Mod(chainK, ref.N), ref.N)), func() string { return fmt.Sprintf("%x", inv.Inverse(new(big.Int).Set(chainK))) }},
			dec("Unmarshal(7G)", func(b []byte) (*big.Int, *big.Int) { return elliptic.Unmarshal(curve, b) }, P7.Uncompressed(), refStr(P7)),
			dec("Unmarshal(x=p)", func(b []byte) (*big.Int, *big.Int) { return elliptic.Unmarshal(curve, b) }, xp, "nil"),
			dec("UnmarshalCompressed(-7G)", func(b []byte) (*big.Int, *big.Int) { return elliptic.UnmarshalCompressed(curve, b) }, ref.Neg(P7).Compressed(), refStr(ref.Neg(P7))),
			{"IsOnCurve(7G.x,7G.y+1)", "false", func() string { return fmt.Sprint(curve.IsOnCurve(P7.X, new(big.Int).Add(P7.Y, one))) }},
			{"ecdh(k2,chain#0)", fmt.Sprintf("%064x", ref.Mul(new(big.Int).Mod(k2, ref.N), pt("chain#0")).X), func() string {
				k, err := ecdh.P256().NewPrivateKey(b32(new(big.Int).Mod(k2, ref.N)))
				if err != nil {
					return "error"
				}
				sh, err := k.ECDH(qpub)
				return ordRes(sh, err)
			}},
			{"sm2.NewPrivateKey(n-1)", "error", func() string { _, err := sm2.NewPrivateKey(b32(nm1)); return errStr(err) }},
			{"sm2.NewPublicKey(x=p)", "error", func() string { _, err := sm2.NewPublicKey(append([]byte(nil), xp...)); return errStr(err) }},
			{"ImplicitSig(n-1,chain,n-1)", fmt.Sprintf("%064x", isig), func() string {
				return ordRes(vh.ImplicitSig(b32(nm1), b32(new(big.Int).Mod(chainK, ref.N)), b32(nm1)))
			}},
		}
		if len(pops) != nPops {
			panic(fmt.Sprintf("c05: history/op-pairs has %d operations, case list assumes %d", len(pops), nPops))
		}
		return pops
	}
	for i := 0; i < nPops; i++ {
		c.Case(fmt.Sprintf("history/op-pairs/first=#%02d", i), func(t *engine.T) {
			pops := buildPops()
			first := pops[i]
			for _, second := range pops {
				t.Guard("history/op-pairs", func() {
					g1 := first.run()
					g2 := second.run()
					g3 := first.run()
					t.Eval(3)
					if g1 != first.want {
						t.Fail("history/op-pairs/first-call", "%s = %s want %s", first.name, g1, first.want)
					}
					if g2 != second.want {
						t.Fail("history/op-pairs/second-depends-on-first", "%s directly after %s = %s want %s", second.name, first.name, g2, second.want)
					}
					if g3 != first.want {
						t.Fail("history/op-pairs/second-depends-on-first", "%s directly after %s = %s want %s", first.name, second.name, g3, first.want)
					}
				})
				t.Nontrivial("history/op-pairs/" + first.name + ";" + second.name)
				if t.Quick() {
					continue
				}
				// thorough: every sequence of three calls, the last one judged
				for _, third := range pops {
					t.Guard("history/op-triples", func() {
						first.run()
						second.run()
						g := third.run()
						t.Eval(3)
						if g != third.want {
							t.Fail("history/op-pairs/third-depends-on-history", "%s after %s; %s = %s want %s", third.name, first.name, second.name, g, third.want)
						}
					})
				}
			}
			t.Outcome("history/op-pairs/" + outcomeClass(first.want))
		})
	}

	// ---- two ecdh keys used alternately -------------------------------------------------------------
	c.Case("history/two-objects/ecdh", func(t *engine.T) {
		dA := new(big.Int).Mod(chainK, ref.N)
		dB := new(big.Int).Sub(ref.N, two)
		Q1, Q2 := pt("chain#0"), pt("largey#0")
		q1, _ := ecdh.P256().NewPublicKey(Q1.Uncompressed())
		q2, _ := ecdh.P256().NewPublicKey(Q2.Uncompressed())
		ds := []*big.Int{dA, dB}
		type step struct {
			obj int
			op  string
		}
		var steps []step
		for o := 0; o < 2; o++ {
			for _, op := range []string{"pub", "ecdh1", "ecdh2", "bytes"} {
				steps = append(steps, step{o, op})
			}
		}
		want := func(s step) []byte {
			d := ds[s.obj]
			switch s.op {
			case "pub":
				return ref.BaseMul(d).Uncompressed()
			case "ecdh1":
				return ecref.Bytes32(ref.Mul(d, Q1).X)
			case "ecdh2":
				return ecref.Bytes32(ref.Mul(d, Q2).X)
			}
			return b32(d)
		}
		wants := map[step][]byte{}
		for _, s := range steps {
			wants[s] = want(s)
		}
		for _, s1 := range steps {
			for _, s2 := range steps {
				for _, s3 := range steps {
					t.Guard("history/two-objects/ecdh", func() {
						kA, e1 := ecdh.P256().NewPrivateKey(b32(dA))
						kB, e2 := ecdh.P256().NewPrivateKey(b32(dB))
						if e1 != nil || e2 != nil {
							t.Fail("ctor/ecdh.NewPrivateKey/rejects-valid/widen", "%v %v", e1, e2)
							return
						}
						ks := []*ecdh.PrivateKey{kA, kB}
						for i, s := range []step{s1, s2, s3} {
							var got []byte
							var err error
							switch s.op {
							case "pub":
								got = ks[s.obj].PublicKey().Bytes()
							case "ecdh1":
								got, err = ks[s.obj].ECDH(q1)
							case "ecdh2":
								got, err = ks[s.obj].ECDH(q2)
							default:
								got = ks[s.obj].Bytes()
							}
							t.Eval(1)
							if err != nil || !bytes.Equal(got, wants[s]) {
								t.Fail("history/two-objects/ecdh/"+s.op, "step %d of %v;%v;%v on two fresh keys: %s of key %d = %x (%v) want %x", i+1, s1, s2, s3, s.op, s.obj, got, err, wants[s])
							}
						}
					})
				}
				t.Nontrivial(fmt.Sprintf("history/two-objects/%v;%v", s1, s2))
			}
		}
	})

	// ---- two accumulators ---------------------------------------------------------------------------
	c.Case("history/accumulators", func(t *engine.T) {
		obj := []*vh.SM2P256Point{vh.NewSM2P256Point().SetGenerator(), vh.NewSM2P256Point()}
		val := []ecref.Point{ref.G(), ecref.Inf()}
		ks := []*big.Int{big.NewInt(3), chainK, big.NewInt(0), nm1, big.NewInt(1), new(big.Int).Sub(pow2(256), one), big.NewInt(64), k2, new(big.Int).Set(ref.N), pow2(255)}
		prog := []string{"add-other", "double", "mult", "add-G", "basemult-then-add", "add-self-other", "negate-by-mult", "set-other-then-double", "mult-other", "setbytes-roundtrip", "add-neg-self", "basemult"}
		for stepNo := 0; stepNo < 96; stepNo++ {
			me, other := stepNo%2, 1-stepNo%2
			op := prog[(stepNo/2+stepNo%2*5)%len(prog)]
			k := ks[(stepNo*7+stepNo/3)%len(ks)]
			t.Guard("history/accumulators/"+op, func() {
				switch op {
				case "add-other":
					obj[me].Add(obj[me], obj[other])
					val[me] = ref.Add(val[me], val[other])
				case "double":
					obj[me].Double(obj[me])
					val[me] = ref.Double(val[me])
				case "mult":
					if _, err := obj[me].ScalarMult(obj[me], b32(k)); err != nil {
						t.Fail("history/accumulators/error", "ScalarMult: %v", err)
					}
					val[me] = ref.Mul(k, val[me])
				case "add-G":
					obj[me].Add(vh.NewSM2P256Point().SetGenerator(), obj[me])
					val[me] = ref.Add(ref.G(), val[me])
				case "basemult-then-add":
					tmp := mustP(vh.NewSM2P256Point().ScalarBaseMult(b32(k)))
					obj[me].Add(obj[me], tmp)
					val[me] = ref.Add(val[me], ref.BaseMul(k))
				case "add-self-other":
					obj[me].Add(obj[other], obj[me])
					val[me] = ref.Add(val[other], val[me])
				case "negate-by-mult":
					if _, err := obj[me].ScalarMult(obj[me], b32(nm1)); err != nil {
						t.Fail("history/accumulators/error", "ScalarMult: %v", err)
					}
					val[me] = ref.Neg(val[me])
				case "set-other-then-double":
					obj[me].Set(obj[other])
					obj[me].Double(obj[me])
					val[me] = ref.Double(val[other])
				case "mult-other":
					if _, err := obj[me].ScalarMult(obj[other], b32(k)); err != nil {
						t.Fail("history/accumulators/error", "ScalarMult: %v", err)
					}
					val[me] = ref.Mul(k, val[other])
				case "setbytes-roundtrip":
					if _, err := obj[me].SetBytes(obj[me].BytesCompressed()); err != nil {
						t.Fail("history/accumulators/error", "SetBytes(BytesCompressed()): %v", err)
					}
				case "add-neg-self":
					neg := mustP(vh.NewSM2P256Point().ScalarMult(obj[me], b32(nm1)))
					obj[other].Add(obj[other], vh.NewSM2P256Point().Add(obj[me], neg)) // other += infinity
				case "basemult":
					if _, err := obj[me].ScalarBaseMult(b32(k)); err != nil {
						t.Fail("history/accumulators/error", "ScalarBaseMult: %v", err)
					}
					val[me] = ref.BaseMul(k)
				}
			})
			t.Eval(1)
			for i := 0; i < 2; i++ {
				if got := obj[i].Bytes(); !bytes.Equal(got, encRef(val[i])) {
					t.Fail("history/accumulators/"+op+"/mismatch", "step %d (%s on object %d, k=%x): object %d encodes as %s, exact arithmetic gives %s", stepNo, op, me, k, i, engine.Hex(got), engine.Hex(encRef(val[i])))
					return
				}
			}
			t.Nontrivial("history/accumulators/" + op + "/" + map[bool]string{true: "inf", false: "finite"}[val[me].Inf])
			t.Outcome("history/accumulators/" + map[bool]string{true: "inf", false: "finite"}[val[me].Inf])
		}
	})
}
