package c05

// Families own/ (dimension 2), ctorarg/ (dimension 4) and integrity/ (dimension 5).
//
// own/      every value a call returns (big.Int coordinates, byte slices, key objects) is destroyed by the harness
//           after it has been compared; the arguments of the call must be unaffected by that (a result must not
//           alias an argument), the same call must give the same answer again (a result must not alias library
//           state), results of two calls must not alias each other.
// ctorarg/  the byte slice / big.Int handed to a constructor belongs to the caller: it is unchanged by the
//           constructor, is then overwritten and handed to the next constructor, and every object built from it keeps
//           answering as before (also for values the object computes lazily, after the overwrite).
// integrity/ a failing decode leaves the receiver unchanged (documented by SetBytes / ScalarMult / ScalarBaseMult),
//           a buffer that was refused decodes after it has been repaired in place and is refused again after it has
//           been broken again; every call twice on the same buffer.

import (
	"bytes"
	"crypto/ecdsa"
	"crypto/elliptic"
	"fmt"
	"math/big"

	"github.com/emmansun/gmsm/ecdh"
	"github.com/emmansun/gmsm/sm2"
	vh "github.com/emmansun/gmsm/verifhook"

	"verif/engine"
	"verif/ref/ecref"
)

// bigSnap remembers value and complete backing array of a big.Int that belongs to the caller.
type bigSnap struct {
	v     *big.Int
	val   *big.Int
	words []big.Word
}

func snapBig(v *big.Int) bigSnap {
	w := v.Bits()
	w = w[:cap(w)]
	return bigSnap{v: v, val: new(big.Int).Set(v), words: append([]big.Word(nil), w...)}
}

func (s bigSnap) intact() bool {
	if s.v.Cmp(s.val) != 0 {
		return false
	}
	w := s.v.Bits()
	w = w[:cap(w)]
	if len(w) != len(s.words) {
		return false
	}
	for i := range w {
		if w[i] != s.words[i] {
			return false
		}
	}
	return true
}

// roomy returns a copy of v whose backing array has spare (dirty) words, so that a callee scribbling behind the value
// is seen.
func roomy(v *big.Int) *big.Int {
	src := v.Bits()
	w := make([]big.Word, len(src), len(src)+4)
	copy(w, src)
	ext := w[:cap(w)]
	for i := len(src); i < len(ext); i++ {
		ext[i] = big.Word(0xA5A5A5A5A5A5A5A5)
	}
	r := new(big.Int).SetBits(w)
	if v.Sign() < 0 {
		r.Neg(r)
	}
	return r
}

// destroyBig overwrites the whole backing array of a returned integer and then its value.
func destroyBig(vs ...*big.Int) {
	for _, v := range vs {
		if v == nil {
			continue
		}
		w := v.Bits()
		w = w[:cap(w)]
		for i := range w {
			w[i] = ^big.Word(0) - big.Word(i)
		}
		v.SetInt64(-0x5A5A5A5A)
	}
}

func destroyBytes(bs ...[]byte) {
	for _, b := range bs {
		b = b[:cap(b)]
		for i := range b {
			b[i] = 0xA5 ^ byte(i)
		}
	}
}

func paramsIntact(curve elliptic.Curve, ref *ecref.Curve) bool {
	p := curve.Params()
	return p.P.Cmp(ref.P) == 0 && p.N.Cmp(ref.N) == 0 && p.B.Cmp(ref.B) == 0 && p.Gx.Cmp(ref.Gx) == 0 && p.Gy.Cmp(ref.Gy) == 0
}

func runOwn(c *engine.Ctx, pts []npoint) {
	ref := ecref.SM2()
	curve := sm2ecCurve()
	wp := widenPoints(pts)
	ws := widenScalars()
	cm := curve.(combinedMulter)
	inv := curve.(inverter)

	// ownedCall: run call twice; after the first run destroy what it returned, check the big.Int arguments, run again.
	type bigCall struct {
		op    string
		class string
		args  []*big.Int // caller-owned integers (fresh, roomy copies)
		want  string
		call  func(a []*big.Int) (res []*big.Int)
	}
	runBig := func(t *engine.T, bc bigCall) {
		var snaps []bigSnap
		for _, a := range bc.args {
			snaps = append(snaps, snapBig(a))
		}
		argsOK := func(when string) {
			for i, s := range snaps {
				if !s.intact() {
					t.Fail("own/"+bc.op+"/argument-modified", "%s (%s): big.Int argument #%d changed %s (value now %x, was %x)", bc.op, bc.class, i, when, s.v, s.val)
				}
			}
		}
		t.Guard("own/"+bc.op, func() {
			r1 := bc.call(bc.args)
			t.Eval(1)
			if got := bigsStr(r1); got != bc.want {
				t.Fail("own/"+bc.op+"/result", "%s (%s) = %s want %s", bc.op, bc.class, got, bc.want)
			}
			argsOK("during the call")
			for _, r := range r1 {
				for i, a := range bc.args {
					if r != nil && r == a {
						t.Fail("own/"+bc.op+"/result-is-argument", "%s (%s): a returned *big.Int is argument #%d itself", bc.op, bc.class, i)
						return
					}
				}
			}
			destroyBig(r1...)
			argsOK("when the harness overwrote the returned integers (result aliases an argument)")
			r2 := bc.call(bc.args)
			t.Eval(1)
			if got := bigsStr(r2); got != bc.want {
				t.Fail("own/"+bc.op+"/repeat-after-result-destroyed", "%s (%s): after the harness overwrote the first result the same call gives %s want %s", bc.op, bc.class, got, bc.want)
			}
			r3 := bc.call(bc.args)
			t.Eval(1)
			destroyBig(r3...)
			if got := bigsStr(r2); got != bc.want {
				t.Fail("own/"+bc.op+"/results-alias-each-other", "%s (%s): overwriting the result of a later call changed an earlier result to %s", bc.op, bc.class, got)
			}
			destroyBig(r2...)
		})
		t.Nontrivial("own/" + bc.op + "/" + bc.class)
	}

	c.Case("own/curve-results", func(t *engine.T) {
		tg := newMulTable(ref, ref.G())
		for _, p := range wp {
			tp := newMulTable(ref, p.p)
			for _, q := range wp {
				px, py := affine(p.p)
				qx, qy := affine(q.p)
				runBig(t, bigCall{op: "Add", class: p.name + "+" + q.name, args: []*big.Int{roomy(px), roomy(py), roomy(qx), roomy(qy)}, want: refStr(ref.Add(p.p, q.p)),
					call: func(a []*big.Int) []*big.Int { x, y := curve.Add(a[0], a[1], a[2], a[3]); return []*big.Int{x, y} }})
			}
			// the same *big.Int objects for both operands
			px, py := affine(p.p)
			runBig(t, bigCall{op: "Add", class: p.name + "+same-pointers", args: []*big.Int{roomy(px), roomy(py)}, want: refStr(ref.Add(p.p, p.p)),
				call: func(a []*big.Int) []*big.Int { x, y := curve.Add(a[0], a[1], a[0], a[1]); return []*big.Int{x, y} }})
			runBig(t, bigCall{op: "Double", class: p.name, args: []*big.Int{roomy(px), roomy(py)}, want: refStr(ref.Add(p.p, p.p)),
				call: func(a []*big.Int) []*big.Int { x, y := curve.Double(a[0], a[1]); return []*big.Int{x, y} }})
			for si, s := range ws {
				enc := primary(s)
				runBig(t, bigCall{op: "ScalarMult", class: fmt.Sprintf("%s*k#%d", p.name, si), args: []*big.Int{roomy(px), roomy(py)}, want: refStr(tp.mul(s)),
					call: func(a []*big.Int) []*big.Int { x, y := curve.ScalarMult(a[0], a[1], enc); return []*big.Int{x, y} }})
				if si%3 == 0 {
					s1 := ws[(si+1)%len(ws)]
					e1 := primary(s1)
					runBig(t, bigCall{op: "CombinedMult", class: fmt.Sprintf("%s*k#%d", p.name, si), args: []*big.Int{roomy(px), roomy(py)}, want: refStr(ref.Add(tg.mul(s1), tp.mul(s))),
						call: func(a []*big.Int) []*big.Int { x, y := cm.CombinedMult(a[0], a[1], e1, enc); return []*big.Int{x, y} }})
				}
			}
			if !p.p.Inf {
				runBig(t, bigCall{op: "Unmarshal", class: p.name, want: refStr(p.p),
					call: func(a []*big.Int) []*big.Int {
						x, y := elliptic.Unmarshal(curve, p.p.Uncompressed())
						return []*big.Int{x, y}
					}})
				runBig(t, bigCall{op: "UnmarshalCompressed", class: p.name, want: refStr(p.p),
					call: func(a []*big.Int) []*big.Int {
						x, y := elliptic.UnmarshalCompressed(curve, p.p.Compressed())
						return []*big.Int{x, y}
					}})
			}
		}
		for si, s := range ws {
			enc := primary(s)
			runBig(t, bigCall{op: "ScalarBaseMult", class: fmt.Sprintf("k#%d", si), want: refStr(tg.mul(s)),
				call: func(a []*big.Int) []*big.Int { x, y := curve.ScalarBaseMult(enc); return []*big.Int{x, y} }})
			km := new(big.Int).Mod(s, ref.N)
			if km.Sign() != 0 {
				w := new(big.Int).ModInverse(km, ref.N)
				runBig(t, bigCall{op: "Inverse", class: fmt.Sprintf("k#%d", si), args: []*big.Int{roomy(s)}, want: fmt.Sprintf("%x", w),
					call: func(a []*big.Int) []*big.Int { return []*big.Int{inv.Inverse(a[0])} }})
			}
		}
		if !paramsIntact(curve, ref) {
			t.Fail("own/curve-parameters-modified", "the parameters of sm2ec.P256() changed while the harness overwrote returned integers")
		}
		if x, y := curve.ScalarBaseMult([]byte{1}); !sameAffine(x, y, ref.G()) {
			t.Fail("own/generator-modified", "[1]G = %s after the harness overwrote returned integers", pstr(x, y))
		}
	})

	// byte-slice results
	type bytesCall struct {
		op, class string
		want      string
		call      func() [][]byte
	}
	runBytes := func(t *engine.T, bc bytesCall) {
		str := func(bs [][]byte) string {
			s := ""
			for _, b := range bs {
				s += fmt.Sprintf("%x;", b)
			}
			return s
		}
		t.Guard("own/"+bc.op, func() {
			r1 := bc.call()
			t.Eval(1)
			if got := str(r1); got != bc.want {
				t.Fail("own/"+bc.op+"/result", "%s (%s) = %s want %s", bc.op, bc.class, got, bc.want)
			}
			destroyBytes(r1...)
			r2 := bc.call()
			t.Eval(1)
			if got := str(r2); got != bc.want {
				t.Fail("own/"+bc.op+"/repeat-after-result-destroyed", "%s (%s): after the harness overwrote the first result (incl. its spare capacity) the same call gives %s want %s", bc.op, bc.class, got, bc.want)
			}
			r3 := bc.call()
			t.Eval(1)
			destroyBytes(r3...)
			if got := str(r2); got != bc.want {
				t.Fail("own/"+bc.op+"/results-alias-each-other", "%s (%s): overwriting the result of a later call changed an earlier result to %s", bc.op, bc.class, got)
			}
		})
		t.Nontrivial("own/" + bc.op + "/" + bc.class)
	}

	c.Case("own/byte-results", func(t *engine.T) {
		n := ref.N
		// internal encoders, on every point expression (an expression is rebuilt once; the SAME object is encoded three times)
		for _, a := range internalSources(c.Quick()) {
			a := a
			obj := a.mk()
			want := fmt.Sprintf("%x;%x;", encRef(a.ref), compRef(a.ref))
			if !a.ref.Inf {
				want += fmt.Sprintf("%x;", ecref.Bytes32(a.ref.X))
			}
			runBytes(t, bytesCall{op: "SM2P256Point.Bytes", class: a.name, want: want, call: func() [][]byte {
				out := [][]byte{obj.Bytes(), obj.BytesCompressed()}
				if x, err := obj.BytesX(); err == nil {
					out = append(out, x)
				}
				return out
			}})
		}
		// two different points encoded alternately
		{
			p := mustP(vh.NewSM2P256Point().ScalarBaseMult(b32(big.NewInt(7))))
			q := mustP(vh.NewSM2P256Point().ScalarBaseMult(b32(big.NewInt(9))))
			bp, bq := p.Bytes(), q.Bytes()
			cp, cq := p.BytesCompressed(), q.BytesCompressed()
			xp, _ := p.BytesX()
			xq, _ := q.BytesX()
			P7, P9 := ref.BaseMul(big.NewInt(7)), ref.BaseMul(big.NewInt(9))
			if !bytes.Equal(bp, P7.Uncompressed()) || !bytes.Equal(bq, P9.Uncompressed()) || !bytes.Equal(cp, P7.Compressed()) || !bytes.Equal(cq, P9.Compressed()) ||
				!bytes.Equal(xp, ecref.Bytes32(P7.X)) || !bytes.Equal(xq, ecref.Bytes32(P9.X)) {
				t.Fail("own/SM2P256Point.Bytes/results-alias-each-other", "encodings of two points taken alternately do not all hold: %x %x %x %x %x %x", bp, bq, cp, cq, xp, xq)
			}
			t.Eval(6)
		}
		vals := []*big.Int{big.NewInt(1), big.NewInt(2), new(big.Int).Sub(n, one), new(big.Int).Rsh(n, 1), new(big.Int).Mod(new(big.Int).SetBytes(chain("c05-widen-ord", 1, 32)[0]), n)}
		for ai, a := range vals {
			x := b32(a)
			keep := append([]byte(nil), x...)
			invA := new(big.Int).ModInverse(a, n)
			runBytes(t, bytesCall{op: "P256OrdInverse", class: fmt.Sprintf("v#%d", ai), want: fmt.Sprintf("%064x;", invA), call: func() [][]byte {
				r, _ := vh.P256OrdInverse(x)
				return [][]byte{r}
			}})
			for bi, b := range vals {
				y := b32(b)
				prod := new(big.Int).Mul(a, b)
				prod.Mod(prod, n)
				sum := new(big.Int).Add(prod, a)
				sum.Mod(sum, n)
				runBytes(t, bytesCall{op: "P256OrdMul", class: fmt.Sprintf("v#%d*v#%d", ai, bi), want: fmt.Sprintf("%064x;%064x;", prod, sum), call: func() [][]byte {
					r, _ := vh.P256OrdMul(x, y)
					s, _ := vh.ImplicitSig(x, x, y)
					return [][]byte{r, s}
				}})
			}
			if !bytes.Equal(x, keep) {
				t.Fail("own/ordfield/argument-modified", "argument of the order-field helpers changed while the harness overwrote results")
			}
		}
	})

	c.Case("own/key-objects", func(t *engine.T) {
		tg := newMulTable(ref, ref.G())
		Q := findPoint(pts, "chain#0")
		tq := newMulTable(ref, Q.p)
		qpub, err := ecdh.P256().NewPublicKey(Q.p.Uncompressed())
		if err != nil {
			t.Fail("decode/ecdh.NewPublicKey/rejects-valid", "%v", err)
			return
		}
		nm1 := new(big.Int).Sub(ref.N, one)
		for si, s := range ws {
			if s.Sign() == 0 || s.Cmp(nm1) >= 0 {
				continue
			}
			enc := b32(s)
			pub := tg.mul(s)
			k, err := ecdh.P256().NewPrivateKey(enc)
			if err != nil {
				t.Fail("ctor/ecdh.NewPrivateKey/rejects-valid/widen", "NewPrivateKey(%x): %v", enc, err)
				continue
			}
			// order A: secret first, lazily computed public key later; order B: public key first
			for _, order := range []string{"ecdh-first", "public-first"} {
				k2, _ := ecdh.P256().NewPrivateKey(enc)
				want := fmt.Sprintf("%x;%x;%x;", enc, pub.Uncompressed(), ecref.Bytes32(tq.mul(s).X))
				runBytes(t, bytesCall{op: "ecdh.PrivateKey", class: fmt.Sprintf("k#%d/%s", si, order), want: want, call: func() [][]byte {
					var sh, pb []byte
					if order == "ecdh-first" {
						sh, _ = k2.ECDH(qpub)
						pb = k2.PublicKey().Bytes()
					} else {
						pb = k2.PublicKey().Bytes()
						sh, _ = k2.ECDH(qpub)
					}
					return [][]byte{k2.Bytes(), pb, sh}
				}})
			}
			pk := k.PublicKey()
			runBytes(t, bytesCall{op: "ecdh.PublicKey", class: fmt.Sprintf("k#%d", si), want: fmt.Sprintf("%x;", pub.Uncompressed()), call: func() [][]byte { return [][]byte{pk.Bytes()} }})
			// sm2 keys: two objects from the same bytes share nothing
			a, err1 := sm2.NewPrivateKey(enc)
			b, err2 := sm2.NewPrivateKey(enc)
			f, err3 := sm2.NewPrivateKeyFromInt(new(big.Int).Set(s))
			pa, err4 := sm2.NewPublicKey(pub.Uncompressed())
			pb, err5 := sm2.NewPublicKey(pub.Uncompressed())
			t.Eval(5)
			if err1 != nil || err2 != nil || err3 != nil || err4 != nil || err5 != nil {
				t.Fail("ctor/sm2/rejects-valid/widen", "sm2 constructors refuse d=%x: %v %v %v %v %v", enc, err1, err2, err3, err4, err5)
				continue
			}
			destroyBig(a.D, a.X, a.Y, pa.X, pa.Y)
			for oi, o := range []struct {
				d, x, y *big.Int
			}{{b.D, b.X, b.Y}, {f.D, f.X, f.Y}, {s, pb.X, pb.Y}} {
				if o.d.Cmp(s) != 0 || !sameAffine(o.x, o.y, pub) {
					t.Fail("own/sm2-keys/objects-alias-each-other", "after the fields of one key object were overwritten, object #%d built from the same input reads d=%x pub=%s", oi, o.d, pstr(o.x, o.y))
				}
			}
			c2, err := sm2.NewPrivateKey(enc)
			t.Eval(1)
			if err != nil || c2.D.Cmp(s) != 0 || !sameAffine(c2.X, c2.Y, pub) {
				t.Fail("own/sm2.NewPrivateKey/repeat-after-result-destroyed", "after the fields of an earlier key object were overwritten NewPrivateKey(%x) gives %v", enc, err)
			}
			t.Nontrivial(fmt.Sprintf("own/sm2-keys/k#%d", si))
		}
		if !paramsIntact(curve, ref) {
			t.Fail("own/curve-parameters-modified", "the parameters of sm2ec.P256() changed while the harness overwrote key fields")
		}
	})
}

func compRef(p ecref.Point) []byte {
	if p.Inf {
		return []byte{0}
	}
	return p.Compressed()
}

func bigsStr(vs []*big.Int) string {
	if len(vs) == 2 {
		return ptStr(vs[0], vs[1])
	}
	if len(vs) == 1 && vs[0] != nil {
		return fmt.Sprintf("%x", vs[0])
	}
	return "nil"
}

// ---------------------------------------------------------------------------------------------------------
// family ctorarg/

func runCtorArg(c *engine.Ctx, pts []npoint) {
	ref := ecref.SM2()
	ws := widenScalars()
	nm1 := new(big.Int).Sub(ref.N, one)
	var keys []*big.Int
	for _, s := range ws {
		if s.Sign() > 0 && s.Cmp(nm1) < 0 {
			keys = append(keys, s)
		}
	}
	overwrite := []string{"zero", "ff", "next-key"}

	c.Case("ctorarg/private-keys", func(t *engine.T) {
		tg := newMulTable(ref, ref.G())
		Q := findPoint(pts, "chain#0")
		tq := newMulTable(ref, Q.p)
		qpub, _ := ecdh.P256().NewPublicKey(Q.p.Uncompressed())
		for ki, s := range keys {
			next := keys[(ki+1)%len(keys)]
			for _, ow := range overwrite {
				for _, lazy := range []bool{true, false} {
					buf := make([]byte, 32, 96)
					dirty(buf[:96], ki)
					s.FillBytes(buf)
					keep := append([]byte(nil), buf[:96]...)
					cls := fmt.Sprintf("k#%d/%s/lazy=%v", ki, ow, lazy)
					t.Guard("ctorarg/private-keys", func() {
						ek, err1 := ecdh.P256().NewPrivateKey(buf)
						sk, err2 := sm2.NewPrivateKey(buf)
						bi := roomy(s)
						bs := snapBig(bi)
						fk, err3 := sm2.NewPrivateKeyFromInt(bi)
						t.Eval(3)
						if err1 != nil || err2 != nil || err3 != nil {
							t.Fail("ctorarg/private-keys/rejects-valid", "d=%x: %v %v %v", s, err1, err2, err3)
							return
						}
						if !bytes.Equal(buf[:96], keep) {
							t.Fail("ctorarg/private-keys/argument-modified", "a private-key constructor modified its argument or the spare capacity behind it")
						}
						if !bs.intact() {
							t.Fail("ctorarg/sm2.NewPrivateKeyFromInt/argument-modified", "NewPrivateKeyFromInt modified its *big.Int argument")
						}
						if !lazy {
							ek.PublicKey() // computed before the overwrite
						}
						var ek2 *ecdh.PrivateKey
						var sk2 *sm2.PrivateKey
						switch ow {
						case "zero":
							clear(buf)
						case "ff":
							for i := range buf {
								buf[i] = 0xff
							}
						case "next-key":
							next.FillBytes(buf)
							var e1, e2 error
							ek2, e1 = ecdh.P256().NewPrivateKey(buf)
							sk2, e2 = sm2.NewPrivateKey(buf)
							t.Eval(2)
							if e1 != nil || e2 != nil {
								t.Fail("ctorarg/private-keys/rejects-valid", "d=%x: %v %v", next, e1, e2)
								return
							}
						}
						destroyBig(bi)
						pub := tg.mul(s)
						sh, err := ek.ECDH(qpub)
						t.Eval(1)
						if !bytes.Equal(ek.Bytes(), b32(s)) || !bytes.Equal(ek.PublicKey().Bytes(), pub.Uncompressed()) || err != nil || !bytes.Equal(sh, ecref.Bytes32(tq.mul(s).X)) {
							t.Fail("ctorarg/ecdh.NewPrivateKey/object-follows-caller-slice", "after the caller overwrote the key slice (%s) the ecdh key built from d=%x reads d=%x pub=%x ecdh=%x (%v)", ow, s, ek.Bytes(), ek.PublicKey().Bytes(), sh, err)
						}
						if sk.D.Cmp(s) != 0 || !sameAffine(sk.X, sk.Y, pub) {
							t.Fail("ctorarg/sm2.NewPrivateKey/object-follows-caller-slice", "after the caller overwrote the key slice (%s) the sm2 key built from d=%x reads d=%x", ow, s, sk.D)
						}
						if fk.D.Cmp(s) != 0 || !sameAffine(fk.X, fk.Y, pub) {
							t.Fail("ctorarg/sm2.NewPrivateKeyFromInt/object-follows-caller-integer", "after the caller overwrote the *big.Int the sm2 key built from d=%x reads d=%x", s, fk.D)
						}
						if ek2 != nil {
							pub2 := tg.mul(next)
							if !bytes.Equal(ek2.Bytes(), b32(next)) || !bytes.Equal(ek2.PublicKey().Bytes(), pub2.Uncompressed()) || sk2.D.Cmp(next) != 0 || !sameAffine(sk2.X, sk2.Y, pub2) {
								t.Fail("ctorarg/private-keys/second-object-from-reused-slice", "the key objects built from the reused slice (d=%x) are wrong", next)
							}
							if ek.Equal(ek2) || sk.Equal(sk2) {
								t.Fail("ctorarg/private-keys/second-object-from-reused-slice", "keys for d=%x and d=%x compare equal", s, next)
							}
						}
					})
					t.Nontrivial("ctorarg/private-keys/" + cls)
				}
			}
		}
	})

	c.Case("ctorarg/public-keys-and-points", func(t *engine.T) {
		wp := widenPoints(pts)[1:]
		for pi, p := range wp {
			next := wp[(pi+1)%len(wp)]
			d := new(big.Int).Add(pow2(130), big.NewInt(int64(pi+3)))
			dk, _ := ecdh.P256().NewPrivateKey(b32(d))
			tp := newMulTable(ref, p.p)
			for _, ow := range overwrite {
				for _, form := range []string{"uncompressed", "compressed"} {
					enc := p.p.Uncompressed()
					nenc := next.p.Uncompressed()
					if form == "compressed" {
						enc, nenc = p.p.Compressed(), next.p.Compressed()
					}
					buf := make([]byte, len(enc), len(enc)+64)
					dirty(buf[:cap(buf)], pi)
					copy(buf, enc)
					keep := append([]byte(nil), buf[:cap(buf)]...)
					t.Guard("ctorarg/public-keys", func() {
						var ep *ecdh.PublicKey
						var sp *ecdsa.PublicKey
						var err1, err2 error
						if form == "uncompressed" {
							ep, err1 = ecdh.P256().NewPublicKey(buf)
							sp, err2 = sm2.NewPublicKey(buf)
							t.Eval(2)
						}
						ip, err3 := vh.NewSM2P256Point().SetBytes(buf)
						t.Eval(1)
						if err1 != nil || err2 != nil || err3 != nil {
							t.Fail("ctorarg/public-keys/rejects-valid", "%s (%s): %v %v %v", p.name, form, err1, err2, err3)
							return
						}
						if !bytes.Equal(buf[:cap(buf)], keep) {
							t.Fail("ctorarg/public-keys/argument-modified", "a point decoder modified its argument or the spare capacity behind it (%s, %s)", p.name, form)
						}
						var ep2 *ecdh.PublicKey
						switch ow {
						case "zero":
							clear(buf)
						case "ff":
							for i := range buf {
								buf[i] = 0xff
							}
						case "next-key":
							copy(buf, nenc)
							if form == "uncompressed" {
								ep2, _ = ecdh.P256().NewPublicKey(buf)
								t.Eval(1)
							}
						}
						if ep != nil {
							sh, err := dk.ECDH(ep)
							t.Eval(1)
							if !bytes.Equal(ep.Bytes(), p.p.Uncompressed()) || err != nil || !bytes.Equal(sh, ecref.Bytes32(tp.mul(d).X)) {
								t.Fail("ctorarg/ecdh.NewPublicKey/object-follows-caller-slice", "after the caller overwrote the encoding (%s) the ecdh public key of %s reads %x, ECDH = %x (%v)", ow, p.name, ep.Bytes(), sh, err)
							}
							if !sameAffine(sp.X, sp.Y, p.p) {
								t.Fail("ctorarg/sm2.NewPublicKey/object-follows-caller-slice", "after the caller overwrote the encoding (%s) the sm2 public key of %s reads %s", ow, p.name, pstr(sp.X, sp.Y))
							}
							if ep2 != nil && (!bytes.Equal(ep2.Bytes(), next.p.Uncompressed()) || ep.Equal(ep2)) {
								t.Fail("ctorarg/public-keys/second-object-from-reused-slice", "the ecdh public key built from the reused slice is wrong")
							}
						}
						if !bytes.Equal(ip.Bytes(), p.p.Uncompressed()) {
							t.Fail("ctorarg/SM2P256Point.SetBytes/object-follows-caller-slice", "after the caller overwrote the encoding (%s, %s) the point %s encodes as %x", ow, form, p.name, ip.Bytes())
						}
					})
					t.Nontrivial(fmt.Sprintf("ctorarg/public/%s/%s/%s", p.name, ow, form))
				}
			}
		}
	})
}

// ---------------------------------------------------------------------------------------------------------
// family integrity/

func runIntegrity(c *engine.Ctx, pts []npoint) {
	ref := ecref.SM2()
	curve := sm2ecCurve()
	wp := widenPoints(pts)[1:]

	// invalid encodings by class, derived from a valid point
	invalids := func(p ecref.Point) []mutant {
		X, Y := ecref.Bytes32(p.X), ecref.Bytes32(p.Y)
		yp1 := new(big.Int).Add(p.Y, one)
		yp1.Mod(yp1, pow2(256))
		xflip := append([]byte(nil), X...)
		xflip[31] ^= 1
		ms := []mutant{
			{"empty", []byte{}}, {"prefix-only", []byte{4}}, {"first-byte=05/65", cat([]byte{5}, X, Y)}, {"first-byte=04/33", cat([]byte{4}, X)},
			{"first-byte=02/65", cat([]byte{2}, X, Y)}, {"x=p/65", cat([]byte{4}, b32(ref.P), Y)}, {"y=p/65", cat([]byte{4}, X, b32(ref.P))},
			{"x=2^256-1/33", cat([]byte{3}, b32(new(big.Int).Sub(pow2(256), one)))}, {"y+1/65", cat([]byte{4}, X, b32(yp1))}, {"swapped/65", cat([]byte{4}, Y, X)},
			{"truncated/64", cat([]byte{4}, X, Y)[:64]}, {"extended/66", cat([]byte{4}, X, Y, []byte{0})}, {"two-zero-bytes", []byte{0, 0}},
		}
		if _, ok := ref.LiftX(new(big.Int).SetBytes(xflip), 0); !ok {
			ms = append(ms, mutant{"x-not-on-curve/33", cat([]byte{2}, xflip)})
		}
		var out []mutant
		for _, m := range ms {
			if f, _ := refDecode(ref, m.b); f == "" {
				out = append(out, m)
			}
		}
		return out
	}

	c.Case("integrity/failed-call-leaves-receiver", func(t *engine.T) {
		src := internalSources(c.Quick())
		vps := wp[:3]
		if !t.Quick() {
			vps = wp
		}
		for _, a := range src {
			for _, v := range vps {
				for _, m := range invalids(v.p) {
					t.Guard("integrity/SM2P256Point.SetBytes", func() {
						obj := a.mk()
						in := append([]byte(nil), m.b...)
						r, err := obj.SetBytes(in)
						t.Eval(1)
						if err == nil || r != nil {
							t.Fail("integrity/SM2P256Point.SetBytes/accepts-invalid/"+m.class, "SetBytes(%x) on a receiver holding %s: accepted", m.b, a.name)
							return
						}
						if !bytes.Equal(in, m.b) {
							t.Fail("integrity/SM2P256Point.SetBytes/input-modified", "failing SetBytes modified its input")
						}
						if got := obj.Bytes(); !bytes.Equal(got, encRef(a.ref)) {
							t.Fail("integrity/SM2P256Point.SetBytes/failed-call-modified-receiver/"+m.class, "receiver held %s; after the refused SetBytes(%x) it encodes as %x (documented: the receiver is unchanged)", a.name, m.b, got)
						}
						// the receiver is still a working operand
						if got := vh.NewSM2P256Point().Add(obj, vh.NewSM2P256Point().SetGenerator()).Bytes(); !bytes.Equal(got, encRef(ref.Add(a.ref, ref.G()))) {
							t.Fail("integrity/SM2P256Point.SetBytes/failed-call-modified-receiver/"+m.class, "receiver held %s; after the refused SetBytes(%x), receiver + G = %x", a.name, m.b, got)
						}
						// and accepts a good encoding afterwards
						if r, err := obj.SetBytes(v.p.Compressed()); err != nil || !bytes.Equal(r.Bytes(), v.p.Uncompressed()) {
							t.Fail("integrity/SM2P256Point.SetBytes/good-after-failed", "SetBytes(valid) after a refused SetBytes: %v", err)
						}
						t.Eval(2)
					})
					t.Nontrivial("integrity/setbytes/" + a.name + "/" + m.class)
				}
			}
			// wrong scalar lengths: error and receiver unchanged
			for _, L := range []int{0, 1, 31, 33, 64} {
				t.Guard("integrity/SM2P256Point.ScalarMult", func() {
					obj := a.mk()
					k := make([]byte, L)
					if L > 0 {
						k[L-1] = 3
					}
					r1, err1 := obj.ScalarMult(vh.NewSM2P256Point().SetGenerator(), k)
					r2, err2 := obj.ScalarBaseMult(k)
					t.Eval(2)
					if err1 == nil || err2 == nil || r1 != nil || r2 != nil {
						t.Fail("integrity/SM2P256Point.ScalarMult/accepts-wrong-length", "a %d-byte scalar was accepted (%v, %v)", L, err1, err2)
						return
					}
					if got := obj.Bytes(); !bytes.Equal(got, encRef(a.ref)) {
						t.Fail("integrity/SM2P256Point.ScalarMult/failed-call-modified-receiver", "receiver held %s; after refused multiplications with a %d-byte scalar it encodes as %x (documented: the receiver is unchanged)", a.name, L, got)
					}
				})
				t.Nontrivial(fmt.Sprintf("integrity/scalarlen/%s/%d", a.name, L))
			}
		}
	})

	c.Case("integrity/repair-in-place", func(t *engine.T) {
		decs := decoders(curve)
		decs = append(decs, decoder{"SM2P256Point.SetBytes", "any", func(b []byte) (bool, *big.Int, *big.Int, []byte) {
			p, err := vh.NewSM2P256Point().SetBytes(b)
			if err != nil {
				return false, nil, nil, nil
			}
			e := p.Bytes()
			if len(e) != 65 {
				return true, new(big.Int), new(big.Int), e
			}
			re := e
			if len(b) == 33 {
				re = p.BytesCompressed()
			}
			return true, new(big.Int).SetBytes(e[1:33]), new(big.Int).SetBytes(e[33:]), re
		}})
		for _, v := range wp {
			for _, form := range []string{"uncompressed", "compressed"} {
				good := v.p.Uncompressed()
				if form == "compressed" {
					good = v.p.Compressed()
				}
				for _, m := range invalids(v.p) {
					if len(m.b) != len(good) {
						continue // repaired in place: same length
					}
					for _, d := range decs {
						if d.form != form && d.form != "any" {
							continue
						}
						buf := make([]byte, len(good), len(good)+8)
						dirty(buf[:cap(buf)], len(good))
						step := func(content []byte, expect bool, stage string) {
							copy(buf, content)
							keep := append([]byte(nil), buf[:cap(buf)]...)
							t.Guard("integrity/"+d.name, func() {
								for rep := 0; rep < 2; rep++ {
									ok, x, y, re := d.f(buf)
									t.Eval(1)
									switch {
									case ok != expect && expect:
										t.Fail("integrity/"+d.name+"/"+stage+"/rejects-valid", "%s refuses the valid encoding of %s (%s) in a buffer that held %q before (call #%d on the same buffer)", d.name, v.name, form, m.class, rep+1)
									case ok != expect:
										t.Fail("integrity/"+d.name+"/"+stage+"/accepts-invalid", "%s accepts %q (%x), call #%d on the same buffer", d.name, m.class, content, rep+1)
									case ok && (!sameAffine(x, y, v.p) || !bytes.Equal(re, good)):
										t.Fail("integrity/"+d.name+"/"+stage+"/wrong-value", "%s(%x) = %s, re-encoded %x", d.name, content, pstr(x, y), re)
									}
									if !bytes.Equal(buf[:cap(buf)], keep) {
										t.Fail("integrity/"+d.name+"/input-modified", "%s modified its input buffer (%s, stage %s)", d.name, m.class, stage)
										copy(buf[:cap(buf)], keep)
									}
								}
							})
						}
						step(m.b, false, "invalid-first")
						step(good, true, "after-repair")
						step(m.b, false, "broken-again")
						step(good, true, "repaired-again")
						t.Nontrivial("integrity/repair/" + d.name + "/" + form + "/" + m.class)
						t.Outcome("integrity/repair/" + d.name)
					}
				}
			}
		}
	})
}
