//go:build purego

package c05

// Exported methods that exist only in the fiat-crypto (purego) backend of the internal point type.

import (
	"bytes"

	vh "github.com/emmansun/gmsm/verifhook"

	"verif/engine"
	"verif/ref/ecref"
)

func runBackendOnly(c *engine.Ctx) {
	ref := ecref.SM2()
	src := internalSources(c.Quick())
	c.Case("variant/backend-only", func(t *engine.T) {
		for _, a := range src {
			for cond := 0; cond <= 1; cond++ {
				want := a.ref
				if cond == 1 {
					want = ref.Neg(a.ref)
				}
				t.Guard("variant/Negate", func() {
					p := a.mk()
					got := p.Negate(cond)
					t.Eval(1)
					if gb := got.Bytes(); !bytes.Equal(gb, encRef(want)) {
						t.Fail("variant/Negate/mismatch", "(%s).Negate(%d) = %s want %s", a.name, cond, engine.Hex(gb), engine.Hex(encRef(want)))
					}
					// -P + P = infinity, through the complete addition formulas
					if cond == 1 {
						if gb := vh.NewSM2P256Point().Add(got, a.mk()).Bytes(); !bytes.Equal(gb, []byte{0}) {
							t.Fail("variant/Negate/sum-not-infinity", "(%s).Negate(1) + %s = %s", a.name, a.name, engine.Hex(gb))
						}
						t.Eval(1)
					}
				})
				t.Nontrivial("variant/Negate/" + a.name)
			}
		}
	})
}
