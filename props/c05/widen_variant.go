package c05

// Families longscalar/ (dimension 7: the byte-length classes of a scalar beyond 40 bytes), variant/ (dimension 8:
// rarely used exported entry points that reach the same mechanism) and ordfield-unreduced/ (dimension 9: operands of
// the order-field helpers in [n, 2^256)).

import (
	"bytes"
	"crypto/ecdsa"
	"crypto/elliptic"
	"fmt"
	"math/big"

	"github.com/emmansun/gmsm/ecdh"
	"github.com/emmansun/gmsm/sm2"
	vh "github.com/emmansun/gmsm/verifhook"

	"verif/engine"
	"verif/ref/ecref"
)

// ---------------------------------------------------------------------------------------------------------
// family longscalar/

func runLongScalar(c *engine.Ctx, pts []npoint) {
	ref := ecref.SM2()
	curve := sm2ecCurve()
	cm := curve.(combinedMulter)
	lengths := []int{41, 42, 47, 48, 49, 55, 56, 57, 63, 64, 65, 66, 71, 72, 73, 80, 95, 96, 97, 127, 128, 129, 160, 255, 256, 257, 512, 1024}
	if !c.Quick() {
		lengths = lengths[:0]
		for L := 41; L <= 140; L++ {
			lengths = append(lengths, L)
		}
		lengths = append(lengths, 160, 255, 256, 257, 511, 512, 513, 1024, 4096)
	}
	n := ref.N
	// contents of an L-byte scalar
	contents := []struct {
		name string
		mk   func(L int) []byte
	}{
		{"zero-padded-1", func(L int) []byte { b := make([]byte, L); b[L-1] = 1; return b }},
		{"zero-padded-n-1", func(L int) []byte { return new(big.Int).Sub(n, one).FillBytes(make([]byte, L)) }},
		{"zero-padded-n+1", func(L int) []byte { return new(big.Int).Add(n, one).FillBytes(make([]byte, L)) }},
		{"all-ff", func(L int) []byte { return bytes.Repeat([]byte{0xff}, L) }},
		{"top-bit-only", func(L int) []byte { b := make([]byte, L); b[0] = 0x80; return b }},
		{"n-shifted", func(L int) []byte { return new(big.Int).Lsh(n, uint(8*(L-32))).FillBytes(make([]byte, L)) }}, // a multiple of n: infinity
		{"n-shifted+1", func(L int) []byte {
			v := new(big.Int).Lsh(n, uint(8*(L-32)))
			return v.Add(v, one).FillBytes(make([]byte, L))
		}}, // 1 mod n
		{"n-1-repeated", func(L int) []byte {
			b := make([]byte, 0, L+32)
			for len(b) < L {
				b = append(b, b32(new(big.Int).Sub(n, one))...)
			}
			return b[:L]
		}},
		{"chain", func(L int) []byte { return chain("c05-long", 1, L)[0] }},
	}
	c.Case("longscalar/all", func(t *engine.T) {
		P := findPoint(pts, "chain#0")
		tg := newMulTable(ref, ref.G())
		tp := newMulTable(ref, P.p)
		short := new(big.Int).SetBytes(chain("c05-widen-k", 1, 32)[0])
		for _, L := range lengths {
			for _, ct := range contents {
				enc := ct.mk(L)
				keep := append([]byte(nil), enc...)
				k := new(big.Int).SetBytes(enc)
				k.Mod(k, n) // [k]P = [k mod n]P: n*G = infinity is part of the reference's self-test
				wg, wp := tg.mul(k), tp.mul(k)
				cls := ct.name
				lc := longLenClass(L)
				t.Guard("longscalar/ScalarBaseMult", func() {
					if x, y := curve.ScalarBaseMult(enc); !sameAffine(x, y, wg) {
						t.Fail("longscalar/ScalarBaseMult/mismatch/"+lc, "ScalarBaseMult(%d-byte scalar, content %s: %s) = %s want %s", L, cls, engine.Hex(enc), pstr(x, y), rstr(wg))
					}
				})
				t.Guard("longscalar/ScalarMult", func() {
					px, py := affine(P.p)
					if x, y := curve.ScalarMult(px, py, enc); !sameAffine(x, y, wp) {
						t.Fail("longscalar/ScalarMult/mismatch/"+lc, "ScalarMult(%s, %d-byte scalar, content %s: %s) = %s want %s", P.name, L, cls, engine.Hex(enc), pstr(x, y), rstr(wp))
					}
				})
				t.Guard("longscalar/CombinedMult", func() {
					px, py := affine(P.p)
					w1 := ref.Add(wg, tp.mul(short))
					if x, y := cm.CombinedMult(px, py, enc, b32(short)); !sameAffine(x, y, w1) {
						t.Fail("longscalar/CombinedMult/mismatch/s1/"+lc, "CombinedMult(%s, s1 = %d-byte scalar, content %s: %s, s2 short) = %s want %s", P.name, L, cls, engine.Hex(enc), pstr(x, y), rstr(w1))
					}
					w2 := ref.Add(tg.mul(short), wp)
					if x, y := cm.CombinedMult(px, py, b32(short), enc); !sameAffine(x, y, w2) {
						t.Fail("longscalar/CombinedMult/mismatch/s2/"+lc, "CombinedMult(%s, s1 short, s2 = %d-byte scalar, content %s: %s) = %s want %s", P.name, L, cls, engine.Hex(enc), pstr(x, y), rstr(w2))
					}
					w3 := ref.Add(wg, wp)
					if x, y := cm.CombinedMult(px, py, enc, enc); !sameAffine(x, y, w3) {
						t.Fail("longscalar/CombinedMult/mismatch/both/"+lc, "CombinedMult(%s, s, s), s = %d-byte scalar, content %s: %s = %s want %s", P.name, L, cls, engine.Hex(enc), pstr(x, y), rstr(w3))
					}
				})
				t.Guard("longscalar/Inverse", func() {
					kk := new(big.Int).SetBytes(enc)
					ks := snapBig(kk)
					r := curve.(inverter).Inverse(kk)
					if k.Sign() != 0 {
						if r == nil || r.Sign() < 0 || r.Cmp(n) >= 0 || new(big.Int).Mod(new(big.Int).Mul(r, k), n).Cmp(one) != 0 {
							t.Fail("longscalar/Inverse/mismatch/"+lc, "Inverse(%d-byte integer, content %s: %s) = %x: not the inverse modulo n in [0, n)", L, cls, engine.Hex(enc), r)
						}
					}
					if !ks.intact() {
						t.Fail("longscalar/Inverse/input-modified", "Inverse modified its %d-byte argument", L)
					}
				})
				t.Eval(6)
				if !bytes.Equal(enc, keep) {
					t.Fail("longscalar/input-modified", "a %d-byte scalar was modified by the multiplication", L)
				}
				// the constructors refuse every length but 32
				if _, err := ecdh.P256().NewPrivateKey(enc); err == nil {
					t.Fail("longscalar/ecdh.NewPrivateKey/accepts", "NewPrivateKey accepts a %d-byte scalar (%s)", L, cls)
				}
				if _, err := sm2.NewPrivateKey(enc); err == nil {
					t.Fail("longscalar/sm2.NewPrivateKey/accepts", "NewPrivateKey accepts a %d-byte scalar (%s)", L, cls)
				}
				if k, err := sm2.NewPrivateKeyFromInt(new(big.Int).SetBytes(enc)); err == nil && new(big.Int).SetBytes(enc).BitLen() > 256 {
					t.Fail("longscalar/sm2.NewPrivateKeyFromInt/accepts", "NewPrivateKeyFromInt accepts a %d-bit integer (D=%x)", new(big.Int).SetBytes(enc).BitLen(), k.D)
				}
				t.Eval(3)
				t.Nontrivial("longscalar/" + cls + "/" + lc)
				if wg.Inf {
					t.Outcome("longscalar/inf")
				} else {
					t.Outcome("longscalar/finite")
				}
			}
		}
		t.Sample(map[string]any{"family": "longscalar", "lengths": len(lengths), "contents": len(contents)})
	})
}

func longLenClass(L int) string {
	switch {
	case L <= 48:
		return "len=41..48"
	case L <= 64:
		return "len=49..64"
	case L <= 96:
		return "len=65..96"
	case L <= 128:
		return "len=97..128"
	case L <= 256:
		return "len=129..256"
	}
	return "len>256"
}

// ---------------------------------------------------------------------------------------------------------
// family variant/

func runVariant(c *engine.Ctx, pts []npoint, scalars []scalar) {
	ref := ecref.SM2()
	curve := sm2ecCurve()
	nm1 := new(big.Int).Sub(ref.N, one)

	// sm2.PublicKeyToECDH: a fifth decoder route (ecdsa.PublicKey -> IsOnCurve -> Marshal -> ecdh.NewPublicKey)
	c.Case("variant/PublicKeyToECDH", func(t *engine.T) {
		try := func(cls string, k *ecdsa.PublicKey, valid bool, want []byte) {
			t.Guard("variant/PublicKeyToECDH", func() {
				xs, ys := snapBig(k.X), snapBig(k.Y)
				e, err := sm2.PublicKeyToECDH(k)
				t.Eval(1)
				switch {
				case err == nil && !valid:
					t.Fail("variant/PublicKeyToECDH/accepts-invalid/"+cls, "PublicKeyToECDH accepts (%s): %s", cls, pstr(k.X, k.Y))
				case err != nil && valid:
					t.Fail("variant/PublicKeyToECDH/rejects-valid/"+cls, "PublicKeyToECDH(%s): %v", pstr(k.X, k.Y), err)
				case err == nil:
					if !bytes.Equal(e.Bytes(), want) {
						t.Fail("variant/PublicKeyToECDH/wrong-value", "PublicKeyToECDH(%s).Bytes() = %x", pstr(k.X, k.Y), e.Bytes())
					}
					t.Outcome("variant/PublicKeyToECDH/accept")
				default:
					t.Outcome("variant/PublicKeyToECDH/reject")
				}
				if !xs.intact() || !ys.intact() {
					t.Fail("variant/PublicKeyToECDH/input-modified", "PublicKeyToECDH modified the coordinates of its argument")
				}
			})
			t.Nontrivial("variant/PublicKeyToECDH/" + cls)
		}
		for _, p := range pts {
			if p.p.Inf {
				try("infinity", &ecdsa.PublicKey{Curve: curve, X: new(big.Int), Y: new(big.Int)}, false, nil)
				continue
			}
			x, y := affine(p.p)
			try("on-curve/"+pointClass(p.name), &ecdsa.PublicKey{Curve: curve, X: x, Y: y}, true, p.p.Uncompressed())
			bad := []struct {
				cls  string
				x, y *big.Int
			}{
				{"y+1", x, new(big.Int).Add(y, one)}, {"x+p", new(big.Int).Add(x, ref.P), y}, {"y+p", x, new(big.Int).Add(y, ref.P)}, {"-x", new(big.Int).Neg(x), y}, {"-y", x, new(big.Int).Neg(y)},
				{"swapped", y, x}, {"x+2^256", new(big.Int).Add(x, pow2(256)), y}, {"y=0", x, new(big.Int)},
			}
			for _, b := range bad {
				if ref.OnCurve(ecref.Point{X: b.x, Y: b.y}) && b.x.Sign() >= 0 && b.y.Sign() >= 0 && b.x.Cmp(ref.P) < 0 && b.y.Cmp(ref.P) < 0 {
					continue
				}
				try(b.cls, &ecdsa.PublicKey{Curve: curve, X: b.x, Y: b.y}, false, nil)
			}
		}
		// a point of another curve and the same coordinates under another curve object
		gx, gy := elliptic.P256().Params().Gx, elliptic.P256().Params().Gy
		try("nist-generator-on-sm2", &ecdsa.PublicKey{Curve: curve, X: new(big.Int).Set(gx), Y: new(big.Int).Set(gy)}, false, nil)
		try("sm2-generator-under-nist-curve", &ecdsa.PublicKey{Curve: elliptic.P256(), X: new(big.Int).Set(ref.Gx), Y: new(big.Int).Set(ref.Gy)}, false, nil)
	})

	// (*sm2.PrivateKey).ECDH(): big.Int -> fixed-width bytes -> ecdh.NewPrivateKey
	const chunk = 2048
	for lo := 0; lo < len(scalars); lo += chunk {
		lo, hi := lo, min(lo+chunk, len(scalars))
		c.Case("variant/PrivateKey.ECDH/"+chunkName(lo, hi), func(t *engine.T) {
			tg := newMulTable(ref, ref.G())
			for si, s := range scalars[lo:hi] {
				switch s.family {
				case "small", "order", "pow2", "bytelen", "limb", "chain31", "chain32":
				default:
					if (lo+si)%16 != 0 {
						continue
					}
				}
				inRange := s.v.Sign() > 0 && s.v.Cmp(nm1) < 0
				isNm1 := s.v.Cmp(nm1) == 0
				lz := "full"
				if s.v.BitLen() <= 248 {
					lz = "leading-zero-bytes"
				}
				t.Guard("variant/PrivateKey.ECDH", func() {
					d := roomy(s.v)
					ds := snapBig(d)
					key := &sm2.PrivateKey{}
					key.Curve = curve
					key.D = d
					if inRange || isNm1 {
						pub := tg.mul(s.v)
						key.X, key.Y = affine(pub)
					} else {
						key.X, key.Y = affine(ref.G())
					}
					e, err := key.ECDH()
					t.Eval(1)
					switch {
					case err != nil && inRange:
						t.Fail("variant/PrivateKey.ECDH/rejects-valid/"+lz, "(*sm2.PrivateKey).ECDH() with D=%x: %v", s.v, err)
					case err == nil && !inRange && !isNm1:
						t.Fail("variant/PrivateKey.ECDH/accepts-invalid/"+rangeClass(s.v), "(*sm2.PrivateKey).ECDH() accepts D=%x", s.v)
					case err == nil:
						pub := tg.mul(s.v)
						if !bytes.Equal(e.Bytes(), b32(s.v)) || !bytes.Equal(e.PublicKey().Bytes(), pub.Uncompressed()) {
							t.Fail("variant/PrivateKey.ECDH/wrong-value/"+lz, "(*sm2.PrivateKey).ECDH() with D=%x: Bytes()=%x PublicKey()=%x", s.v, e.Bytes(), e.PublicKey().Bytes())
						}
						t.Outcome("variant/PrivateKey.ECDH/accept")
					default:
						t.Outcome("variant/PrivateKey.ECDH/reject")
					}
					if !ds.intact() {
						t.Fail("variant/PrivateKey.ECDH/input-modified", "(*sm2.PrivateKey).ECDH() modified D")
					}
				})
				t.Nontrivial("variant/PrivateKey.ECDH/" + s.family + "/" + lz)
			}
		})
	}

	// SM2P256Point.Select, nil scalars, Equal
	c.Case("variant/select-nil-equal", func(t *engine.T) {
		src := internalSources(c.Quick())
		for _, a := range src {
			for _, b := range src {
				for cond := 0; cond <= 1; cond++ {
					want := b.ref
					if cond == 1 {
						want = a.ref
					}
					for _, alias := range []string{"fresh", "q=p1", "q=p2"} {
						t.Guard("variant/Select", func() {
							p1, p2 := a.mk(), b.mk()
							q := vh.NewSM2P256Point().SetGenerator()
							switch alias {
							case "q=p1":
								q = p1
							case "q=p2":
								q = p2
							}
							got := q.Select(p1, p2, cond)
							t.Eval(1)
							if gb := got.Bytes(); !bytes.Equal(gb, encRef(want)) {
								t.Fail("variant/Select/mismatch/"+alias, "Select(%s, %s, %d) (%s) = %s want %s", a.name, b.name, cond, alias, engine.Hex(gb), engine.Hex(encRef(want)))
							}
							if alias != "q=p1" {
								if gb := p1.Bytes(); !bytes.Equal(gb, encRef(a.ref)) {
									t.Fail("variant/Select/operand-modified", "Select modified p1")
								}
							}
							if alias != "q=p2" {
								if gb := p2.Bytes(); !bytes.Equal(gb, encRef(b.ref)) {
									t.Fail("variant/Select/operand-modified", "Select modified p2")
								}
							}
						})
					}
				}
				t.Nontrivial("variant/Select/" + a.name + "/" + b.name)
			}
		}
		// nil scalars through the public curve
		cm := curve.(combinedMulter)
		for _, p := range widenPoints(pts) {
			t.Guard("variant/nil-scalar", func() {
				px, py := affine(p.p)
				if x, y := curve.ScalarMult(px, py, nil); !sameAffine(x, y, ecref.Inf()) {
					t.Fail("variant/nil-scalar/ScalarMult", "ScalarMult(%s, nil) = %s want infinity", p.name, pstr(x, y))
				}
				if x, y := cm.CombinedMult(px, py, nil, nil); !sameAffine(x, y, ecref.Inf()) {
					t.Fail("variant/nil-scalar/CombinedMult", "CombinedMult(%s, nil, nil) = %s want infinity", p.name, pstr(x, y))
				}
				if x, y := cm.CombinedMult(px, py, []byte{1}, nil); !sameAffine(x, y, ref.G()) {
					t.Fail("variant/nil-scalar/CombinedMult", "CombinedMult(%s, 1, nil) = %s want G", p.name, pstr(x, y))
				}
				if x, y := cm.CombinedMult(px, py, nil, []byte{1}); !sameAffine(x, y, p.p) {
					t.Fail("variant/nil-scalar/CombinedMult", "CombinedMult(%s, nil, 1) = %s want the point", p.name, pstr(x, y))
				}
				t.Eval(4)
			})
			t.Nontrivial("variant/nil-scalar/" + p.name)
		}
		t.Guard("variant/nil-scalar", func() {
			if x, y := curve.ScalarBaseMult(nil); !sameAffine(x, y, ecref.Inf()) {
				t.Fail("variant/nil-scalar/ScalarBaseMult", "ScalarBaseMult(nil) = %s want infinity", pstr(x, y))
			}
			if _, err := ecdh.P256().NewPrivateKey(nil); err == nil {
				t.Fail("variant/nil-scalar/ecdh.NewPrivateKey", "NewPrivateKey(nil) accepted")
			}
			if _, err := sm2.NewPrivateKey(nil); err == nil {
				t.Fail("variant/nil-scalar/sm2.NewPrivateKey", "NewPrivateKey(nil) accepted")
			}
			if _, err := sm2.NewPrivateKeyFromInt(nil); err == nil {
				t.Fail("variant/nil-scalar/sm2.NewPrivateKeyFromInt", "NewPrivateKeyFromInt(nil) accepted")
			}
			t.Eval(4)
		})
		// Equal of key objects is equality of the values
		ws := widenScalars()
		var ek []*ecdh.PrivateKey
		var sk []*sm2.PrivateKey
		var dv []*big.Int
		for _, s := range ws {
			if s.Sign() > 0 && s.Cmp(nm1) < 0 {
				e, err1 := ecdh.P256().NewPrivateKey(b32(s))
				k, err2 := sm2.NewPrivateKey(b32(s))
				if err1 != nil || err2 != nil {
					t.Fail("ctor/rejects-valid/widen", "d=%x: %v %v", s, err1, err2)
					continue
				}
				ek, sk, dv = append(ek, e), append(sk, k), append(dv, s)
			}
		}
		for i := range dv {
			for j := range dv {
				e2, _ := ecdh.P256().NewPrivateKey(b32(dv[j]))
				k2, _ := sm2.NewPrivateKeyFromInt(new(big.Int).Set(dv[j]))
				same := i == j
				t.Eval(4)
				if ek[i].Equal(e2) != same || ek[i].PublicKey().Equal(e2.PublicKey()) != same || sk[i].Equal(k2) != same || sk[i].PublicKey.Equal(&k2.PublicKey) != same {
					t.Fail("variant/Equal/mismatch", "Equal of keys d=%x and d=%x is not %v", dv[i], dv[j], same)
				}
			}
		}
	})
}

// ---------------------------------------------------------------------------------------------------------
// family ordfield-unreduced/

// Operands of P256OrdInverse / P256OrdMul in [n, 2^256): the functions do not document a range. The oracle is the
// weakest defensible one: an error, or a 32-byte value congruent (mod n) to the result for the reduced operands. (The
// callers inside the library only pass reduced values; ImplicitSig's sPriv is a private key and is not fed unreduced.)
func runOrdUnreduced(c *engine.Ctx) {
	n := ecref.SM2().N
	two256 := pow2(256)
	var big256 []*big.Int
	for d := int64(0); d <= 3; d++ {
		big256 = append(big256, new(big.Int).Add(n, big.NewInt(d)))
		big256 = append(big256, new(big.Int).Sub(two256, big.NewInt(d+1)))
	}
	big256 = append(big256, new(big.Int).Add(n, pow2(64)), new(big.Int).Add(n, pow2(128)), new(big.Int).Add(n, pow2(192)), new(big.Int).Sub(two256, pow2(64)), new(big.Int).Sub(two256, pow2(128)),
		new(big.Int).Rsh(new(big.Int).Add(n, two256), 1))
	small := ordAlphabet(true)
	c.Case("ordfield-unreduced/all", func(t *engine.T) {
		check := func(key, what string, got []byte, err error, want *big.Int) {
			t.Eval(1)
			if err != nil {
				t.Outcome("ordfield-unreduced/error")
				return
			}
			t.Outcome("ordfield-unreduced/value")
			if len(got) != 32 {
				t.Fail(key+"/length", "%s: result has %d bytes", what, len(got))
				return
			}
			g := new(big.Int).SetBytes(got)
			if g.Mod(g, n).Cmp(want) != 0 {
				t.Fail(key+"/mismatch", "%s = %x, not congruent to %x modulo n", what, got, want)
			}
		}
		for ai, a := range big256 {
			ar := new(big.Int).Mod(a, n)
			x := b32(a)
			keep := append([]byte(nil), x...)
			t.Guard("ordfield-unreduced/inverse", func() {
				got, err := vh.P256OrdInverse(x)
				want := new(big.Int)
				if ar.Sign() != 0 {
					want.ModInverse(ar, n)
				}
				check("ordfield-unreduced/inverse", fmt.Sprintf("P256OrdInverse(%x)", keep), got, err, want)
			})
			others := append(append([]*big.Int{}, big256...), small...)
			for _, b := range others {
				y := b32(b)
				prod := new(big.Int).Mul(a, b)
				prod.Mod(prod, n)
				t.Guard("ordfield-unreduced/mul", func() {
					got, err := vh.P256OrdMul(x, y)
					check("ordfield-unreduced/mul/first", fmt.Sprintf("P256OrdMul(%x, %x)", x, y), got, err, prod)
					got, err = vh.P256OrdMul(y, x)
					check("ordfield-unreduced/mul/second", fmt.Sprintf("P256OrdMul(%x, %x)", y, x), got, err, prod)
				})
			}
			if !bytes.Equal(x, keep) {
				t.Fail("ordfield-unreduced/operand-modified", "operand modified")
			}
			t.Nontrivial(fmt.Sprintf("ordfield-unreduced/a#%d", ai))
		}
	})
}

// rangeClass names where an integer lies relative to the valid private-key range [1, n-2].
func rangeClass(v *big.Int) string {
	n := ecref.SM2().N
	switch {
	case v.Sign() == 0:
		return "d=0"
	case v.Cmp(n) < 0:
		return "d=n-1"
	case v.BitLen() <= 256:
		return "n<=d<2^256"
	}
	return "d>=2^256"
}
