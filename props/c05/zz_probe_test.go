package c05

import (
	"fmt"
	"math/big"
	"testing"

	"github.com/emmansun/gmsm/sm2/sm2ec"
	"verif/ref/ecref"
)

func TestProbe(t *testing.T) {
	c := ecref.SM2()
	curve := sm2ec.P256()
	x1 := new(big.Int).Lsh(big.NewInt(1), 64)
	var p1, p2 ecref.Point
	for {
		if p, ok := c.LiftX(x1, 0); ok {
			p1 = p
			break
		}
		x1.Add(x1, big.NewInt(1))
	}
	x2 := new(big.Int).Lsh(big.NewInt(1), 64)
	x2.Sub(x2, big.NewInt(1))
	for {
		if p, ok := c.LiftX(x2, 1); ok {
			p2 = p
			break
		}
		x2.Sub(x2, big.NewInt(1))
	}
	fmt.Printf("p1=%x,%x\np2=%x,%x\n", p1.X, p1.Y, p2.X, p2.Y)
	fmt.Println("on curve (lib):", curve.IsOnCurve(p1.X, p1.Y), curve.IsOnCurve(p2.X, p2.Y), "generic:", curve.Params().IsOnCurve(p1.X, p1.Y), curve.Params().IsOnCurve(p2.X, p2.Y))
	gx, gy := curve.Add(p1.X, p1.Y, p2.X, p2.Y)
	w := c.Add(p1, p2)
	ex, ey := curve.Params().Add(p1.X, p1.Y, p2.X, p2.Y)
	fmt.Printf("lib  =%x,%x oncurve=%v\nref  =%x,%x oncurve=%v\nstdgeneric=%x,%x\n", gx, gy, curve.Params().IsOnCurve(gx, gy), w.X, w.Y, curve.Params().IsOnCurve(w.X, w.Y), ex, ey)
}
