package c06

import (
	"bytes"
	"crypto/ecdsa"
	"fmt"
	"io"
	"math/big"
	"strings"

	"github.com/emmansun/gmsm/sm2"
	"github.com/emmansun/gmsm/smx509"

	"verif/engine"
	"verif/ref/ecref"
	"verif/ref/sm3ref"
)

type Prop struct{}

func (Prop) ID() string    { return "C06" }
func (Prop) Level() string { return "exploration" }
func (Prop) Configs(tier string) []string {
	// sm2ec / bigmod / P256OrdInverse dispatch: ADX+BMI2 asm with AVX2 table select and point addition tails, the same
	// without AVX2 (SSE tails), plain asm, fiat-crypto generic.
	return []string{"c-default", "c-noavx2", "c-nobmi2", "c-purego"}
}

func (Prop) SelfTest() error {
	if err := sm3ref.SelfTest(); err != nil {
		return err
	}
	if err := ecref.SelfTest(); err != nil {
		return err
	}
	if err := selfTestTables(); err != nil {
		return err
	}
	if err := selfTestLegacyCurve(); err != nil {
		return err
	}
	return selfTestDER()
}

func (Prop) Rule() string {
	return "Completeness (E2): 12 keys {1,2,n-2,2^255,8 hash-chain} x UID length {0(default),1,16,55,56,63,64,65,8191; 8192 must error} x message length {0,1,31,32,33,64,1000} x 16 scripted nonce blocks " +
		"{0,1,n-2,n-1,n,n+1,2^256-1,mid and their byte[1]^0x42 images} x 7-8 signing entry points; every signature must equal the reference signature for the scripted k (GB/T 32918.2 with ecref), satisfy the reference verification equation and be accepted by 6 verification entry points. " +
		"Soundness (E3): per (key,msg,UID,signature) triple (signature made by the reference) all 255 substitutions at every byte, all truncations/extensions, DER-aware edits of every TLV, structured r/s replacements and non-DER re-encodings, small (r,s) pairs, other key/message/UID; thorough adds all 2-deviation small-set mutants of two triples. " +
		"Retry paths of signing (first scripted nonce made to hit s = 0, r = 0 or r+k = n through a chosen digest; the signature must be the reference one for the second nonce) for every key; valid signatures constructed so that x([s]G+[t]P) lies in [n,p) must be accepted by every entry point. Chosen-digest candidates on each degenerate branch of the verification procedure (t = r+s = 0 mod n for 9 values of s x 3 digests incl. the one that makes R = r for the collapsed point; [s]G+[t]P = infinity via s = -t*d) for every key. Three additional triples with chosen small (r,s) on a crafted digest (k = s(1+d)+rd, e = r-x([k]G)) so that r+n and s+n fit in 32 bytes. Oracle in both directions for every candidate and entry point: library accepts <=> strict DER parse succeeds AND reference equation holds with r,s in [1,n-1]. " +
		"Histories (E1): key objects with d in {valid, n-2, n-1, n, n+1, 2^256-1} built by 9 routes x BFS over all sequences of length <= 3 of {Sign(m1), Sign(digest), SignWithSM2, Decrypt, ECDH(), sm2.Sign func}, states merged on the full private state dump of the key object; d >= n-1: every Sign returns an error, nothing panics; valid d: signatures equal the reference. " +
		"Legacy (non-SM2 curve, NIST P-256 through sm2_legacy.go): reduced completeness, one soundness triple, and invalid-scalar signing with a bounded reader. " +
		"Widening in the generic input dimensions (widen*.go): a USED key object re-initialised by FromECPrivateKey (6 scalars x 6 scalars x 4 warm-ups); verification and signing entry points with every argument in exact-capacity buffers and in records (a|b|sig|slack, sig|b|a|slack, capacities reaching over the following arguments and 192-256 dirty bytes), arguments, *big.Int r/s, key and public-key objects compared with snapshots after every call, every call repeated on the same arguments, every returned slice/integer destroyed by the harness before the repeat; constructor arguments (NewPrivateKey, NewPrivateKeyFromInt, NewPublicKey, NewHash*) reused for the next constructor and destroyed; " +
		"UID lengths 0..200 (thorough 0..600), 255..257, 511, 512, 4095..4097, 8190, 8191 and message lengths 0..200 (0..600) plus +-1 around 64k-32 for k in {8,9,16,17} ({..,32,33,64,65}) so that the ZA and e hashes see every residue mod 64, walked up and down on one key object; 32-byte digests {0,1,n-1,n,n+1,n+5,p-1,p,2^256-1,2^255,2^248-1} x 3 nonces x 7 digest-signing entry points (every kind of crypto.SignerOpts), digests of 0(nil),0,1,16,31,33,48,64,100 bytes (longer: documented truncation; shorter: sign-then-verify consistency only); all Write/Sum/Reset histories of depth <= 4 (5) on 5 hasher constructors incl. a SHA-256 inner hash and Sum(b) in 6 capacity classes; " +
		"RecoverPublicKeysFromSM2Signature on the structured candidates of the 12 triples and on constructed signatures with x in [n,p) (no keys for anything that is not a strict-DER pair in [1,n-1]; every returned key satisfies the equation; the signer is among them); valid signatures whose final addition is a doubling ([s]G = [t]P) and valid signatures under the public key -G; 23 public keys with boundary coordinates (x = 0, 1.., p-1.., n.., 2^255, 2^224, both y, G, -G, [2]G) with constructed valid signatures; 16x16 chosen (r,s) pairs with 1..32 significant bytes produced BY the signing path (k = s(1+d)+rd, e = r-x([k]G)); failing calls (8192-byte UID, reader error/EOF/short) before and between good calls on cold and warm key objects; uid and msg aliased. " +
		"math/big path: retry paths (s=0, r=0, r+k=n), degenerate verification branches (t=0, infinity, doubling), digest values/lengths on NIST P-256 (both curve objects); reduced completeness + 12 altered pairs on P-384 and P-521 (oracle: reference equation with generic affine arithmetic, ZA with 48/66-byte field elements). " +
		"distinct_nontrivial counts (key,UID,msg,nonce) combinations, (triple, mutation class, parse/range class) classes and reached key-object states."
}

func (Prop) Assumptions() []string {
	return []string{
		"reference = verif/ref/ecref (affine big-integer arithmetic, GB/T 32918.2 sign/verify, strict DER), anchored by the GB/T 32918.5 examples; scalar multiplications are re-associated through 8-bit window tables built only from ecref.Add and cross-checked against ecref.Mul/Verify/SignWithK in the self-test",
		"the nonce of a signature is the first 32-byte block of the reader that is in [1,n-1] and passes the standard's r/s checks (read from sm2_dsa.go randomPoint); the 1-byte randutil.MaybeReadByte coin is served from a separate lane; byte-for-byte comparison with the reference signature relies on this",
		"an empty UID means the default UID 1234567812345678 for the signing/verifying entry points (documented library semantics); CalculateZA is checked with the literal UID including the empty one",
		"the standard's e is a 32-byte digest; for longer 'hash' arguments only what SignASN1 documents is required (truncation to the leftmost 32 bytes, and the library verifies its own signature over the same bytes), for shorter ones only that the sm2 entry points verify what they signed; smx509 CheckSignatureWithDigest refuses any digest that is not 32 bytes long and is not asked there",
		"RecoverPublicKeysFromSM2Signature is required to return no key for an invalid encoding/range and only keys that satisfy the equation; that it finds the signer is required for ordinary signatures, and for x([s]G+[t]P) in [n,p) only when it returns keys at all (it gives up when the other candidate x is off the curve)",
		"NewSM2SignerOption and FromECPrivateKey keep references to what they are given (documented conversion semantics): only 'the argument is not modified' is required of them, not independence from later changes by the caller; a caller that assigns to the exported fields of a used key object is outside the enumerated space",
		"legacy curves: P-224 is not enumerated (order narrower than the digest: the library truncates the digest, GB/T 32918.2 defines no truncation); on P-384/P-521 the mapping from the random stream to the nonce is not compared, only the verification equation",
		"spare capacity handed to an append-style argument (hash.Hash.Sum(b)) is the callee's to write; only the prefix, the result and the state are compared",
		"invalid public-key objects (off-curve, zero, negative, swapped, oversized coordinates) must be rejected without panic; oversized (> 256 bit) coordinates are not offered to the message-based entry points because CalculateSM2Hash documents a panic for invalid keys (soundness rule 2)",
		"smx509 CheckSignature only supports the default UID and is exercised only for it; CheckSignatureFrom and chain building belong to C15",
		"quick tier: soundness on 6 of the 12 triples; thorough: all 12 plus 2-deviation mutants of 2 triples (all 2-deviation mutants of all 12 triples would cost ~40 CPU-minutes per configuration)",
		"legacy path: NIST P-256 as elliptic.P256() and wrapped so that only the generic elliptic.Curve methods are visible; the bare elliptic.P256() is skipped in the purego build because the Go 1.23 standard library's own p256Curve.Inverse panics there (nistec.P256OrdInverse unimplemented under -tags purego on amd64)",
		"dispatch tiers: c-default, c-nobmi2 (non-ADX assembly), c-purego (fiat-crypto); arm64/ppc64le/s390x assembly is not covered",
		"d = 0 and negative d are left to C14; concurrency on one key object is left to C20; RNG failure answers are left to C12",
	}
}

// ---------------------------------------------------------------------------------------------
// small DER toolkit for the structured candidates (deliberately able to produce non-DER)

func derLenBytes(n int) []byte {
	switch {
	case n < 0x80:
		return []byte{byte(n)}
	case n < 0x100:
		return []byte{0x81, byte(n)}
	default:
		return []byte{0x82, byte(n >> 8), byte(n)}
	}
}

func tlv(tag byte, content []byte) []byte {
	return append(append([]byte{tag}, derLenBytes(len(content))...), content...)
}

func tlvLong(tag byte, content []byte) []byte { // non-minimal long-form length
	return append([]byte{tag, 0x81, byte(len(content))}, content...)
}

// intContent is the minimal two's complement content octets of v.
func intContent(v *big.Int) []byte {
	if v.Sign() >= 0 {
		b := v.Bytes()
		if len(b) == 0 {
			return []byte{0}
		}
		if b[0]&0x80 != 0 {
			b = append([]byte{0}, b...)
		}
		return b
	}
	// negative: two's complement of |v| in the smallest width
	n := (v.BitLen() + 8) / 8
	m := new(big.Int).Lsh(big.NewInt(1), uint(8*n))
	m.Add(m, v)
	b := m.Bytes()
	for len(b) < n {
		b = append([]byte{0}, b...)
	}
	for len(b) > 1 && b[0] == 0xff && b[1]&0x80 != 0 {
		b = b[1:]
	}
	return b
}

func sigOf(r, s *big.Int) []byte {
	return tlv(0x30, append(tlv(0x02, intContent(r)), tlv(0x02, intContent(s))...))
}

func selfTestDER() error {
	r, s := big.NewInt(0x1234), new(big.Int).Lsh(big.NewInt(0xff), 240)
	if !bytes.Equal(sigOf(r, s), ecref.EncodeDERSig(r, s)) {
		return fmt.Errorf("c06: DER toolkit disagrees with ecref.EncodeDERSig")
	}
	pr, ps, ok := ecref.ParseStrictDERSig(sigOf(r, s))
	if !ok || pr.Cmp(r) != 0 || ps.Cmp(s) != 0 {
		return fmt.Errorf("c06: strict parser rejects a canonical signature")
	}
	neg := big.NewInt(-0x1234)
	pr, _, ok = ecref.ParseStrictDERSig(sigOf(neg, s))
	if !ok || pr.Cmp(neg) != 0 {
		return fmt.Errorf("c06: negative INTEGER content wrong: %x", intContent(neg))
	}
	bad := [][]byte{
		append(sigOf(r, s), 0),
		tlvLong(0x30, append(tlv(0x02, intContent(r)), tlv(0x02, intContent(s))...)),
		tlv(0x30, append(tlv(0x02, append([]byte{0}, intContent(r)...)), tlv(0x02, intContent(s))...)),
		tlv(0x30, append(tlvLong(0x02, intContent(r)), tlv(0x02, intContent(s))...)),
		tlv(0x30, append(append(tlv(0x02, intContent(r)), tlv(0x02, intContent(s))...), 5, 0)),
		tlv(0x31, append(tlv(0x02, intContent(r)), tlv(0x02, intContent(s))...)),
		{0x30, 0x80, 2, 1, 1, 2, 1, 1, 0, 0},
		tlv(0x30, tlv(0x02, intContent(r))),
		tlv(0x30, append(tlv(0x02, nil), tlv(0x02, intContent(s))...)),
		{},
	}
	for i, b := range bad {
		if _, _, ok := ecref.ParseStrictDERSig(b); ok {
			return fmt.Errorf("c06: strict parser accepts non-DER sample #%d %x", i, b)
		}
	}
	return nil
}

// ---------------------------------------------------------------------------------------------
// scripted nonces

type nonceSpec struct {
	name   string
	blocks [][]byte
}

func xor42(b []byte) []byte { c := append([]byte{}, b...); c[1] ^= 0x42; return c }

func nonceSet(n *big.Int) []nonceSpec {
	one := big.NewInt(1)
	max := new(big.Int).Sub(new(big.Int).Lsh(one, 256), one)
	vals := []struct {
		name string
		v    *big.Int
	}{
		{"0", big.NewInt(0)}, {"1", one}, {"n-2", new(big.Int).Sub(n, big.NewInt(2))}, {"n-1", new(big.Int).Sub(n, one)},
		{"n", n}, {"n+1", new(big.Int).Add(n, one)}, {"2^256-1", max}, {"mid", HashChain("verif/c06/mid", 1)},
	}
	second := ecref.Bytes32(HashChain("verif/c06/mid", 2))
	var out []nonceSpec
	for _, v := range vals {
		b := ecref.Bytes32(v.v)
		out = append(out, nonceSpec{"k=" + v.name, [][]byte{b, second}})
	}
	for _, v := range vals {
		b := xor42(ecref.Bytes32(v.v))
		out = append(out, nonceSpec{"k=" + v.name + "^0x42", [][]byte{b, second}})
	}
	return out
}

// refSign runs the standard's signing loop over the same block stream the library will see.
func refSign(c *ecref.Curve, g *Table, d *big.Int, e []byte, blocks [][]byte) (r, s, k *big.Int) {
	rd := engine.NewScriptReader(blocks...)
	buf := make([]byte, 32)
	for i := 0; i < 64; i++ {
		io.ReadFull(rd, buf)
		k = new(big.Int).SetBytes(buf)
		if r, s, ok := FastSignWithK(c, g, d, k, e); ok {
			return r, s, k
		}
	}
	panic("c06: reference found no acceptable nonce in 64 blocks")
}

// ---------------------------------------------------------------------------------------------
// entry points

type signEntry struct {
	name        string
	defaultOnly bool
	f           func(rd io.Reader, priv *sm2.PrivateKey, uid, msg, e []byte) ([]byte, error)
}

func rsToDER(r, s *big.Int, err error) ([]byte, error) {
	if err != nil {
		return nil, err
	}
	if r == nil || s == nil {
		return nil, fmt.Errorf("nil r/s without error")
	}
	return sigOf(r, s), nil
}

var signEntries = []signEntry{
	{"sm2.SignASN1(SM2SignerOption)", false, func(rd io.Reader, p *sm2.PrivateKey, uid, msg, e []byte) ([]byte, error) {
		uid, msg = adjacent(uid, msg)
		return sm2.SignASN1(rd, p, msg, sm2.NewSM2SignerOption(true, uid))
	}},
	{"PrivateKey.Sign(SM2SignerOption)", false, func(rd io.Reader, p *sm2.PrivateKey, uid, msg, e []byte) ([]byte, error) {
		uid, msg = adjacent(uid, msg)
		return p.Sign(rd, msg, sm2.NewSM2SignerOption(true, uid))
	}},
	{"PrivateKey.Sign(DefaultSM2SignerOpts)", true, func(rd io.Reader, p *sm2.PrivateKey, uid, msg, e []byte) ([]byte, error) {
		return p.Sign(rd, msg, sm2.DefaultSM2SignerOpts)
	}},
	{"PrivateKey.Sign(digest,nil)", false, func(rd io.Reader, p *sm2.PrivateKey, uid, msg, e []byte) ([]byte, error) {
		return p.Sign(rd, e, nil)
	}},
	{"PrivateKey.Sign(digest,SM2SignerOption(false))", false, func(rd io.Reader, p *sm2.PrivateKey, uid, msg, e []byte) ([]byte, error) {
		return p.Sign(rd, e, sm2.NewSM2SignerOption(false, uid))
	}},
	{"PrivateKey.SignWithSM2", false, func(rd io.Reader, p *sm2.PrivateKey, uid, msg, e []byte) ([]byte, error) {
		uid, msg = adjacent(uid, msg)
		return p.SignWithSM2(rd, uid, msg)
	}},
	{"sm2.SignWithSM2", false, func(rd io.Reader, p *sm2.PrivateKey, uid, msg, e []byte) ([]byte, error) {
		uid, msg = adjacent(uid, msg)
		return rsToDER(sm2.SignWithSM2(rd, &p.PrivateKey, uid, msg))
	}},
	{"sm2.Sign", false, func(rd io.Reader, p *sm2.PrivateKey, uid, msg, e []byte) ([]byte, error) {
		return rsToDER(sm2.Sign(rd, &p.PrivateKey, e))
	}},
}

// vctx is one verification context (public key, UID as passed to the library, message, reference digest).
// adjacent lays uid and msg out as one record (uid directly followed by msg in the same backing array, uid's capacity
// reaching over msg): results must not depend on what lies behind an argument. Returns the two views.
func adjacent(uid, msg []byte) (u, m []byte) {
	if len(uid) == 0 {
		return uid, msg
	}
	rec := make([]byte, len(uid)+len(msg)+256) // ample dirty slack: any append the callee does lands in place
	copy(rec, uid)
	copy(rec[len(uid):], msg)
	for i := len(uid) + len(msg); i < len(rec); i++ {
		rec[i] = 0xD1
	}
	return rec[:len(uid):len(rec)], rec[len(uid) : len(uid)+len(msg) : len(rec)]
}

type vctx struct {
	c      *ecref.Curve
	g, p   *Table
	pub    *ecdsa.PublicKey
	cert   *smx509.Certificate
	uid    []byte // as passed to the library (empty = default)
	msg    []byte
	e      []byte
	defUID bool
	// digestOnly: the context has only a digest e (no message/UID); message-based entry points do not apply
	digestOnly bool
	memo       map[string]bool
	nEquEval   int
}

func effUID(uid []byte) []byte {
	if len(uid) == 0 {
		return ecref.DefaultUID
	}
	return uid
}

func newVctx(pubPt ecref.Point, uid, msg []byte) *vctx {
	c := ecref.SM2()
	pub := LibPub(pubPt)
	return &vctx{c: c, g: GTable(), p: TableFor(c, pubPt), pub: pub, cert: &smx509.Certificate{PublicKey: pub}, uid: uid, msg: msg,
		e: c.Digest(effUID(uid), pubPt, msg), defUID: len(uid) == 0 || bytes.Equal(uid, ecref.DefaultUID), memo: map[string]bool{}}
}

// refAccept is the specification: strict DER, r,s in [1,n-1], GB/T 32918.2 equation.
func (v *vctx) refAccept(cand []byte) (accept bool, r, s *big.Int, parsed bool) {
	r, s, parsed = ecref.ParseStrictDERSig(cand)
	if !parsed {
		return false, nil, nil, false
	}
	return v.refAcceptRS(r, s), r, s, true
}

func (v *vctx) refAcceptRS(r, s *big.Int) bool {
	k := r.String() + "|" + s.String()
	if a, ok := v.memo[k]; ok {
		return a
	}
	a := FastVerify(v.c, v.g, v.p, v.e, r, s)
	v.nEquEval++
	v.memo[k] = a
	return a
}

type verifyEntry struct {
	name string
	// returns (accepted, applicable)
	f func(v *vctx, sig []byte, r, s *big.Int, parsed bool) (bool, bool)
}

var verifyEntries = []verifyEntry{
	{"sm2.VerifyASN1", func(v *vctx, sig []byte, r, s *big.Int, parsed bool) (bool, bool) {
		return sm2.VerifyASN1(v.pub, v.e, sig), true
	}},
	{"sm2.VerifyASN1WithSM2", func(v *vctx, sig []byte, r, s *big.Int, parsed bool) (bool, bool) {
		if v.digestOnly {
			return false, false
		}
		au, am := adjacent(v.uid, v.msg)
		return sm2.VerifyASN1WithSM2(v.pub, au, am, sig), true
	}},
	{"sm2.Verify", func(v *vctx, sig []byte, r, s *big.Int, parsed bool) (bool, bool) {
		if !parsed {
			return false, false
		}
		return sm2.Verify(v.pub, v.e, r, s), true
	}},
	{"sm2.VerifyWithSM2", func(v *vctx, sig []byte, r, s *big.Int, parsed bool) (bool, bool) {
		if !parsed || v.digestOnly {
			return false, false
		}
		return sm2.VerifyWithSM2(v.pub, v.uid, v.msg, r, s), true
	}},
	{"smx509.Certificate.CheckSignature", func(v *vctx, sig []byte, r, s *big.Int, parsed bool) (bool, bool) {
		if !v.defUID || v.digestOnly {
			return false, false
		}
		return v.cert.CheckSignature(smx509.SM2WithSM3, v.msg, sig) == nil, true
	}},
	{"smx509.Certificate.CheckSignatureWithDigest", func(v *vctx, sig []byte, r, s *big.Int, parsed bool) (bool, bool) {
		return v.cert.CheckSignatureWithDigest(smx509.SM2WithSM3, v.e, sig) == nil, true
	}},
}

// check evaluates one candidate signature on every verification entry point against the specification.
func (v *vctx) check(t *engine.T, class string, desc string, cand []byte) {
	want, r, s, parsed := v.refAccept(cand)
	t.Eval(1)
	pc := "unparsable"
	if parsed {
		pc = "parsed-out-of-range"
		if r.Sign() > 0 && s.Sign() > 0 && r.Cmp(v.c.N) < 0 && s.Cmp(v.c.N) < 0 {
			pc = "parsed-in-range"
		}
	}
	t.Nontrivial(class + "/" + pc)
	for _, ve := range verifyEntries {
		var got, app bool
		if t.Guard("verify/"+ve.name, func() { got, app = ve.f(v, cand, r, s, parsed) }) {
			continue
		}
		if !app {
			continue
		}
		if got != want {
			dir := "accepts-invalid"
			if want {
				dir = "rejects-valid"
			}
			t.Fail("verify/"+ve.name+"/"+dir+"/"+class, "%s returned %v, specification says %v (strict-DER parse ok=%v) for candidate [%s] %x; pub=(%x,%x) uid=%x msgLen=%d e=%x",
				ve.name, got, want, parsed, desc, cand, v.pub.X, v.pub.Y, v.uid, len(v.msg), v.e)
		}
		if got {
			t.Outcome("accept")
		} else {
			t.Outcome("reject")
		}
	}
}

// ---------------------------------------------------------------------------------------------
// completeness

var uidLens = []int{0, 1, 16, 55, 56, 63, 64, 65, 8191, 8192}
var msgLens = []int{0, 1, 31, 32, 33, 64, 1000}

func completenessCase(t *engine.T, key Key, uidLen int) {
	c := ecref.SM2()
	g := GTable()
	priv := LibPriv(key.D, key.Pub) // one object for the whole case: the cached inverse is reused many times
	pub := LibPub(key.Pub)
	uid := Pattern(uidLen, 0x55)
	// ZA with the literal UID
	za, err := sm2.CalculateZA(pub, uid)
	if uidLen > 8191 {
		t.Eval(1)
		if err == nil {
			t.Fail("za/uid>8191/no-error", "CalculateZA accepted a %d-byte UID (ENTL does not fit 16 bits)", uidLen)
		}
		msg := Pattern(33, 0xa1)
		e := c.Digest(ecref.DefaultUID, key.Pub, msg)
		for _, se := range signEntries {
			if se.defaultOnly || strings.Contains(se.name, "digest") || se.name == "sm2.Sign" {
				continue
			}
			var sig []byte
			var err error
			if t.Guard("sign/"+se.name+"/uid>8191", func() {
				sig, err = se.f(engine.NewScriptReader(ecref.Bytes32(HashChain("verif/c06/mid", 1))), priv, uid, msg, e)
			}) {
				continue
			}
			t.Eval(1)
			if err == nil {
				t.Fail("sign/"+se.name+"/uid>8191/no-error", "signing with an %d-byte UID returned a signature %x", uidLen, sig)
			}
			t.Outcome("uid-too-long-error")
		}
		r, s, _ := refSign(c, g, key.D, e, [][]byte{ecref.Bytes32(HashChain("verif/c06/mid", 1))})
		if sm2.VerifyASN1WithSM2(pub, uid, msg, sigOf(r, s)) || sm2.VerifyWithSM2(pub, uid, msg, r, s) {
			t.Fail("verify/uid>8191/accepted", "VerifyASN1WithSM2/VerifyWithSM2 accepted a signature with an %d-byte UID", uidLen)
		}
		t.Nontrivial(fmt.Sprintf("complete/%s/uid=%d", key.Name, uidLen))
		return
	}
	t.Eval(1)
	if wantZA := c.ZA(uid, key.Pub); err != nil || !bytes.Equal(za, wantZA) {
		t.Fail("za/mismatch", "CalculateZA(uidLen=%d) = %x, %v; reference %x", uidLen, za, err, wantZA)
	}
	nonces := nonceSet(c.N)
	for _, ml := range msgLens {
		msg := Pattern(ml, 0xa0^byte(uidLen))
		v := newVctx(key.Pub, uid, msg)
		if h, err := sm2.CalculateSM2Hash(pub, msg, uid); err != nil || !bytes.Equal(h, v.e) {
			t.Fail("digest/mismatch", "CalculateSM2Hash(uidLen=%d,msgLen=%d) = %x, %v; reference %x", uidLen, ml, h, err, v.e)
		}
		// the streaming hasher uses the literal UID (no default substitution), also after Reset
		if hh, err := sm2.NewHashWithUserID(pub, uid); err != nil {
			t.Fail("digest/NewHashWithUserID-error", "uidLen=%d: %v", uidLen, err)
		} else {
			wantE := c.Digest(uid, key.Pub, msg)
			hh.Write(msg)
			d1 := hh.Sum(nil)
			hh.Reset()
			hh.Write(msg[:len(msg)/2])
			hh.Write(msg[len(msg)/2:])
			d2 := hh.Sum(nil)
			t.Eval(2)
			if !bytes.Equal(d1, wantE) || !bytes.Equal(d2, wantE) {
				t.Fail("digest/NewHashWithUserID-mismatch", "NewHashWithUserID(uidLen=%d) over %d bytes = %x, after Reset %x; reference %x", uidLen, ml, d1, d2, wantE)
			}
		}
		for _, ns := range nonces {
			r, s, k := refSign(c, g, key.D, v.e, ns.blocks)
			refSig := ecref.EncodeDERSig(r, s)
			if !v.refAcceptRS(r, s) {
				t.Fail("HARNESS/reference-signature-does-not-verify", "key %s k=%x", key.Name, k)
				return
			}
			t.Nontrivial(fmt.Sprintf("complete/%s/uid=%d/msg=%d/%s", key.Name, uidLen, ml, ns.name))
			toVerify := [][]byte{refSig}
			for _, se := range signEntries {
				if se.defaultOnly && uidLen != 0 {
					continue
				}
				var sig []byte
				var err error
				rd := engine.NewScriptReader(ns.blocks...)
				if t.Guard("sign/"+se.name, func() { sig, err = se.f(rd, priv, uid, msg, v.e) }) {
					continue
				}
				t.Eval(1)
				if err != nil {
					t.Fail("sign/"+se.name+"/error-on-valid-key", "%s(key %s, uidLen=%d, msgLen=%d, %s) returned error %v", se.name, key.Name, uidLen, ml, ns.name, err)
					continue
				}
				if !bytes.Equal(sig, refSig) {
					// not the reference signature for the scripted nonce: still has to be a valid one
					lr, ls, ok := ecref.ParseStrictDERSig(sig)
					valid := ok && v.refAcceptRS(lr, ls)
					kk := "?"
					if ok {
						kk = fmt.Sprintf("%x", c.RecoverK(key.D, lr, ls))
					}
					if !valid {
						t.Fail("sign/"+se.name+"/signature-fails-reference-equation", "%s(key %s, uidLen=%d, msgLen=%d, %s) = %x does not satisfy the verification equation (strict DER ok=%v); reference signature %x", se.name, key.Name, uidLen, ml, ns.name, sig, ok, refSig)
					} else {
						t.Fail("sign/"+se.name+"/differs-from-reference-for-scripted-k", "%s(key %s, uidLen=%d, msgLen=%d, %s) = %x is valid but was made with k=%s, scripted k=%x gives %x", se.name, key.Name, uidLen, ml, ns.name, sig, kk, k, refSig)
						toVerify = append(toVerify, sig)
					}
					continue
				}
				t.Outcome("signature=reference")
			}
			for _, sg := range toVerify {
				v.check(t, "honest", fmt.Sprintf("honest signature key %s uidLen=%d msgLen=%d %s", key.Name, uidLen, ml, ns.name), sg)
			}
		}
	}
	if uidLen == 16 && key.Name == "d=2" {
		t.Sample(map[string]any{"part": "completeness", "key": key.Name, "uid_len": uidLen, "msg_lens": msgLens, "nonces": len(nonces), "sign_entry_points": len(signEntries), "verify_entry_points": len(verifyEntries)})
	}
}

// ---------------------------------------------------------------------------------------------
// soundness

type triple struct {
	idx  int
	key  Key
	uid  []byte
	msg  []byte
	r, s *big.Int
	sig  []byte
	v    *vctx
}

var tripleMsgLens = []int{0, 1, 31, 32, 33, 64, 1000, 5, 16, 100, 200, 3}
var tripleUIDLens = []int{0, 1, 0, 16, 0, 55, 0, 64, 0, 65, 0, 8191}

func makeTriple(i int) *triple {
	c := ecref.SM2()
	g := GTable()
	key := Keys()[i]
	tr := &triple{idx: i, key: key, msg: Pattern(tripleMsgLens[i], 0x3c)}
	if tripleUIDLens[i] > 0 {
		tr.uid = Pattern(tripleUIDLens[i], 0x77)
	}
	tr.v = newVctx(key.Pub, tr.uid, tr.msg)
	k := HashChain("verif/c06/nonce", i+1)
	for j := 0; j < 100000; j++ {
		r, s, ok := FastSignWithK(c, g, key.D, k, tr.v.e)
		// shape classes: triple 10 has a short r (leading zero byte), triple 11 a short s; the others take the first k
		if ok && (i != 10 || r.BitLen() <= 248) && (i != 11 || s.BitLen() <= 248) {
			tr.r, tr.s = r, s
			break
		}
		k = new(big.Int).Add(k, big.NewInt(1))
	}
	if tr.r == nil {
		panic("c06: no nonce found for triple")
	}
	tr.sig = ecref.EncodeDERSig(tr.r, tr.s)
	return tr
}

// craftedTriple builds a valid signature with CHOSEN (r, s) on a crafted digest: k = s(1+d) + r*d, e = r - x([k]G) mod n.
// Small r and s make r+n and s+n fit in 32 bytes, which is the only way a missing "< n" range check (as opposed
// to a length check) can be observed. Only the digest-based entry points apply.
func craftedTriple(i int) *triple {
	c := ecref.SM2()
	g := GTable()
	key := Keys()[4+i]
	var r, s *big.Int
	switch i {
	case 0:
		r, s = big.NewInt(5), big.NewInt(7)
	case 1:
		r = new(big.Int).Add(new(big.Int).Lsh(big.NewInt(1), 223), big.NewInt(11))
		s = new(big.Int).Add(new(big.Int).Lsh(big.NewInt(1), 222), big.NewInt(13))
	default:
		r, s = big.NewInt(1), new(big.Int).Sub(new(big.Int).Lsh(big.NewInt(1), 224), big.NewInt(1))
	}
	k := c.RecoverK(key.D, r, s)
	x1 := g.Mul(k).X
	e := new(big.Int).Sub(r, x1)
	e.Mod(e, c.N)
	eb := ecref.Bytes32(e)
	if r2, s2, ok := FastSignWithK(c, g, key.D, k, eb); !ok || r2.Cmp(r) != 0 || s2.Cmp(s) != 0 {
		panic("c06: crafted signature construction failed")
	}
	pub := LibPub(key.Pub)
	v := &vctx{c: c, g: g, p: TableFor(c, key.Pub), pub: pub, cert: &smx509.Certificate{PublicKey: pub}, e: eb, digestOnly: true, memo: map[string]bool{}}
	return &triple{idx: 100 + i, key: key, r: r, s: s, sig: ecref.EncodeDERSig(r, s), v: v}
}

func soundCraftedCase(t *engine.T, i int) {
	tr := craftedTriple(i)
	if !seedMustVerify(t, tr) {
		return
	}
	buf := make([]byte, len(tr.sig))
	for p := range tr.sig {
		cl := "crafted/sub/" + fieldOf(tr.sig, p)
		copy(buf, tr.sig)
		for v := 0; v < 256; v++ {
			if byte(v) == tr.sig[p] {
				continue
			}
			buf[p] = byte(v)
			tr.v.check(t, cl, fmt.Sprintf("sub@%d=%02x", p, v), buf)
		}
	}
	engine.EachMutant(tr.sig, engine.MutOpt{AllValues: false, DER: true}, func(desc string, m []byte) {
		if strings.HasPrefix(desc, "sub@") {
			return
		}
		tr.v.check(t, "crafted/"+mutClass(tr.sig, desc), desc, m)
	})
	names, cands := structured(tr)
	for j := range cands {
		cl := names[j]
		if strings.HasPrefix(cl, "enc/") {
			cl = "crafted/struct/" + cl
		} else {
			cl = "crafted/struct/value/" + cl
		}
		tr.v.check(t, cl, names[j], cands[j])
	}
	// r + n and s + n fit in 32 bytes here: a reduction instead of a range check would accept them
	n := ecref.SM2().N
	rn, sn := new(big.Int).Add(tr.r, n), new(big.Int).Add(tr.s, n)
	if rn.BitLen() > 256 || sn.BitLen() > 256 {
		t.Fail("HARNESS/crafted-values-too-large", "triple %d", i)
	}
	tr.v.check(t, "crafted/struct/value/r=n+r(32-bytes)", "r+n in 32 bytes", sigOf(rn, tr.s))
	tr.v.check(t, "crafted/struct/value/s=n+s(32-bytes)", "s+n in 32 bytes", sigOf(tr.r, sn))
	tr.v.check(t, "crafted/struct/value/both+n(32-bytes)", "r+n, s+n in 32 bytes", sigOf(rn, sn))
	t.Extra("reference_equation_evaluations", tr.v.nEquEval)
	if i == 0 {
		t.Sample(map[string]any{"part": "soundness (crafted small r,s on a chosen digest)", "key": tr.key.Name, "r": tr.r.String(), "s": tr.s.String(), "digest": fmt.Sprintf("%x", tr.v.e), "signature": fmt.Sprintf("%x", tr.sig)})
	}
}

// fieldOf names the DER field of byte position i in a canonical signature.
func fieldOf(sig []byte, i int) string {
	// 30 L 02 lr r.. 02 ls s..
	lr := int(sig[3])
	switch {
	case i < 2:
		return "seq-header"
	case i < 4:
		return "r-header"
	case i < 4+lr:
		return "r-body"
	case i < 6+lr:
		return "s-header"
	default:
		return "s-body"
	}
}

func derClass(desc string) string {
	// der#k@off/edit[=value] or der/nest...
	if strings.HasPrefix(desc, "der/") {
		return "der/nest"
	}
	if j := strings.Index(desc, "/"); j >= 0 {
		e := desc[j+1:]
		if k := strings.IndexAny(e, "=:"); k >= 0 {
			e = e[:k]
		}
		return "der/" + e
	}
	return "der"
}

func mutClass(sig []byte, desc string) string {
	switch {
	case strings.HasPrefix(desc, "sub@"):
		var i, v int
		fmt.Sscanf(desc, "sub@%d=%x", &i, &v)
		return "sub/" + fieldOf(sig, i)
	case strings.HasPrefix(desc, "trunc"):
		return "trunc"
	case strings.HasPrefix(desc, "dropfront"):
		return "dropfront"
	case strings.HasPrefix(desc, "extend"):
		return "extend"
	case strings.HasPrefix(desc, "der"):
		return derClass(desc)
	}
	return "other"
}

func seedMustVerify(t *engine.T, tr *triple) bool {
	tr.v.check(t, "seed", "unmodified reference signature", tr.sig)
	if a, _, _, _ := tr.v.refAccept(tr.sig); !a {
		t.Fail("HARNESS/seed-rejected-by-reference", "triple %d", tr.idx)
		return false
	}
	return true
}

func soundSubCase(t *engine.T, i, from, to int) {
	tr := makeTriple(i)
	if !seedMustVerify(t, tr) {
		return
	}
	buf := make([]byte, len(tr.sig))
	for p := from; p < to && p < len(tr.sig); p++ {
		cl := "sub/" + fieldOf(tr.sig, p)
		copy(buf, tr.sig)
		for v := 0; v < 256; v++ {
			if byte(v) == tr.sig[p] {
				continue
			}
			buf[p] = byte(v)
			tr.v.check(t, cl, fmt.Sprintf("sub@%d=%02x", p, v), buf)
		}
	}
	t.Extra("reference_equation_evaluations", tr.v.nEquEval)
}

func structured(tr *triple) (names []string, cands [][]byte) {
	c := ecref.SM2()
	n := c.N
	one := big.NewInt(1)
	two256 := new(big.Int).Lsh(one, 256)
	add := func(name string, b []byte) { names = append(names, name); cands = append(cands, b) }
	repl := func(who string, x *big.Int, mk func(v *big.Int) []byte) {
		add(who+"=0", mk(big.NewInt(0)))
		add(who+"=1", mk(one))
		add(who+"=n-1", mk(new(big.Int).Sub(n, one)))
		add(who+"=n", mk(n))
		add(who+"=n+"+who, mk(new(big.Int).Add(n, x)))
		add(who+"=2^256-1", mk(new(big.Int).Sub(two256, one)))
		add(who+"=2^256+"+who, mk(new(big.Int).Add(two256, x)))
		add(who+"=-"+who, mk(new(big.Int).Neg(x)))
		add(who+"=n-"+who, mk(new(big.Int).Sub(n, x)))
		add(who+"="+who+"+1", mk(new(big.Int).Add(x, one)))
		add(who+"="+who+"-1", mk(new(big.Int).Sub(x, one)))
		add(who+"="+who+"-n", mk(new(big.Int).Sub(x, n)))
	}
	repl("r", tr.r, func(v *big.Int) []byte { return sigOf(v, tr.s) })
	repl("s", tr.s, func(v *big.Int) []byte { return sigOf(tr.r, v) })
	add("swap(s,r)", sigOf(tr.s, tr.r))
	add("(r,r)", sigOf(tr.r, tr.r))
	add("(s,s)", sigOf(tr.s, tr.s))
	add("(n-r,n-s)", sigOf(new(big.Int).Sub(n, tr.r), new(big.Int).Sub(n, tr.s)))
	// re-encodings of the VALID pair that are not strict DER
	rc, sc := intContent(tr.r), intContent(tr.s)
	ri, si := tlv(2, rc), tlv(2, sc)
	body := append(append([]byte{}, ri...), si...)
	cat := func(a ...[]byte) []byte {
		var o []byte
		for _, x := range a {
			o = append(o, x...)
		}
		return o
	}
	add("enc/r-extra-00", tlv(0x30, cat(tlv(2, cat([]byte{0}, rc)), si)))
	add("enc/s-extra-00", tlv(0x30, cat(ri, tlv(2, cat([]byte{0}, sc)))))
	add("enc/r-extra-0000", tlv(0x30, cat(tlv(2, cat([]byte{0, 0}, rc)), si)))
	if rc[0] == 0 {
		add("enc/r-without-sign-octet", tlv(0x30, cat(tlv(2, rc[1:]), si)))
	}
	if sc[0] == 0 {
		add("enc/s-without-sign-octet", tlv(0x30, cat(ri, tlv(2, sc[1:]))))
	}
	add("enc/seq-long-form-length", tlvLong(0x30, body))
	add("enc/seq-long-form-length-2", cat([]byte{0x30, 0x82, 0, byte(len(body))}, body))
	add("enc/r-long-form-length", tlv(0x30, cat(tlvLong(2, rc), si)))
	add("enc/s-long-form-length", tlv(0x30, cat(ri, tlvLong(2, sc))))
	add("enc/seq-indefinite-length", cat([]byte{0x30, 0x80}, body, []byte{0, 0}))
	add("enc/seq-indefinite-length-no-eoc", cat([]byte{0x30, 0x80}, body))
	add("enc/r-indefinite-constructed", tlv(0x30, cat([]byte{0x22, 0x80}, tlv(2, rc), []byte{0, 0}, si)))
	add("enc/r-constructed-integer", tlv(0x30, cat(tlv(0x22, tlv(2, rc)), si)))
	add("enc/seq-as-set", tlv(0x31, body))
	add("enc/seq-primitive-tag", tlv(0x10, body))
	for _, tg := range []byte{0x01, 0x0a, 0x03, 0x04, 0x80, 0x82, 0xa2} {
		add(fmt.Sprintf("enc/r-tag-%02x", tg), tlv(0x30, cat(tlv(tg, rc), si)))
		add(fmt.Sprintf("enc/s-tag-%02x", tg), tlv(0x30, cat(ri, tlv(tg, sc))))
	}
	add("enc/high-tag-number-integer", tlv(0x30, cat([]byte{0x1f, 0x02}, derLenBytes(len(rc)), rc, si)))
	add("enc/trailing-null-inside", tlv(0x30, cat(body, []byte{5, 0})))
	add("enc/trailing-int-inside", tlv(0x30, cat(body, si)))
	add("enc/trailing-zero-outside", cat(tlv(0x30, body), []byte{0}))
	add("enc/two-sequences", cat(tlv(0x30, body), tlv(0x30, body)))
	add("enc/nested-sequence", tlv(0x30, tlv(0x30, body)))
	add("enc/r-only", tlv(0x30, ri))
	add("enc/empty-sequence", tlv(0x30, nil))
	add("enc/empty-r", tlv(0x30, cat(tlv(2, nil), si)))
	add("enc/empty", nil)
	add("enc/raw-r||s", cat(ecref.Bytes32(tr.r), ecref.Bytes32(tr.s)))
	add("enc/bool-true-ff-prefix", tlv(0x30, cat(tlv(1, []byte{0xff}), ri, si)))
	// small pairs
	small := []*big.Int{one, big.NewInt(2), new(big.Int).Sub(n, big.NewInt(2)), new(big.Int).Sub(n, one)}
	for _, a := range small {
		for _, b := range small {
			add("small-pair", sigOf(a, b))
		}
	}
	return
}

func soundOtherCase(t *engine.T, i int) {
	tr := makeTriple(i)
	if !seedMustVerify(t, tr) {
		return
	}
	engine.EachMutant(tr.sig, engine.MutOpt{AllValues: false, DER: true}, func(desc string, m []byte) {
		if strings.HasPrefix(desc, "sub@") { // substitutions are enumerated with all 255 values by the chunk cases
			return
		}
		tr.v.check(t, mutClass(tr.sig, desc), desc, m)
	})
	names, cands := structured(tr)
	for j := range cands {
		cl := names[j]
		if strings.HasPrefix(cl, "enc/") {
			cl = "struct/" + cl
		} else {
			cl = "struct/value/" + cl
		}
		tr.v.check(t, cl, names[j], cands[j])
	}
	// other key, other message, other UID
	ks := Keys()
	other := ks[(i+1)%len(ks)]
	newVctx(other.Pub, tr.uid, tr.msg).check(t, "other-key", "valid signature under another public key", tr.sig)
	negPub := ecref.SM2().Neg(tr.key.Pub)
	newVctx(negPub, tr.uid, tr.msg).check(t, "other-key/negated", "valid signature under -P", tr.sig)
	for _, m2 := range [][]byte{append(append([]byte{}, tr.msg...), 0), Pattern(len(tr.msg)+1, 0x3c), Pattern(len(tr.msg), 0x3d), {}} {
		if bytes.Equal(m2, tr.msg) {
			continue
		}
		newVctx(tr.key.Pub, tr.uid, m2).check(t, "other-message", "valid signature for another message", tr.sig)
	}
	for _, u2 := range [][]byte{append(append([]byte{}, effUID(tr.uid)...), 0), Pattern(len(effUID(tr.uid)), 0x78), effUID(tr.uid)[:len(effUID(tr.uid))-1], []byte("1234567812345679")} {
		if bytes.Equal(effUID(u2), effUID(tr.uid)) {
			continue
		}
		newVctx(tr.key.Pub, u2, tr.msg).check(t, "other-uid", "valid signature for another UID", tr.sig)
	}
	// invalid public-key objects (off-curve, zero, negative or oversized coordinates): reject, never panic
	{
		cp := ecref.SM2().P
		X, Y := tr.key.Pub.X, tr.key.Pub.Y
		one := big.NewInt(1)
		for _, pv := range []struct {
			name string
			x, y *big.Int
		}{
			{"y+1", X, new(big.Int).Add(Y, one)}, {"(0,0)", big.NewInt(0), big.NewInt(0)}, {"x+p", new(big.Int).Add(X, cp), Y}, {"y+p", X, new(big.Int).Add(Y, cp)},
			{"-x", new(big.Int).Neg(X), Y}, {"-y", X, new(big.Int).Neg(Y)}, {"swapped", Y, X}, {"x+2^256", new(big.Int).Add(X, new(big.Int).Lsh(one, 256)), Y},
		} {
			bad := &ecdsa.PublicKey{Curve: sm2.P256(), X: pv.x, Y: pv.y}
			cert := &smx509.Certificate{PublicKey: bad}
			r, s := tr.r, tr.s
			for _, en := range []struct {
				name string
				f    func() bool
			}{
				{"sm2.VerifyASN1", func() bool { return sm2.VerifyASN1(bad, tr.v.e, tr.sig) }},
				{"sm2.VerifyASN1WithSM2", func() bool { return sm2.VerifyASN1WithSM2(bad, tr.uid, tr.msg, tr.sig) }},
				{"sm2.Verify", func() bool { return sm2.Verify(bad, tr.v.e, r, s) }},
				{"sm2.VerifyWithSM2", func() bool { return sm2.VerifyWithSM2(bad, tr.uid, tr.msg, r, s) }},
				{"smx509.Certificate.CheckSignature", func() bool { return cert.CheckSignature(smx509.SM2WithSM3, tr.msg, tr.sig) == nil }},
				{"smx509.Certificate.CheckSignatureWithDigest", func() bool { return cert.CheckSignatureWithDigest(smx509.SM2WithSM3, tr.v.e, tr.sig) == nil }},
			} {
				// CalculateSM2Hash documents "the public key must be valid, otherwise will be panic" (FillBytes on a
				// coordinate wider than the field): a documented precondition, so oversized coordinates are offered
				// only to the digest-based entry points.
				msgBased := en.name == "sm2.VerifyASN1WithSM2" || en.name == "sm2.VerifyWithSM2" || en.name == "smx509.Certificate.CheckSignature"
				if msgBased && (pv.x.BitLen() > 256 || pv.y.BitLen() > 256) {
					continue
				}
				var got bool
				if t.Guard("verify/"+en.name+"/invalid-public-key", func() { got = en.f() }) {
					continue
				}
				t.Eval(1)
				t.Nontrivial("invalid-public-key/" + pv.name)
				if got {
					t.Fail("verify/"+en.name+"/accepts-invalid/invalid-public-key", "%s accepted a signature under the invalid public key object %s: (%x,%x)", en.name, pv.name, pv.x, pv.y)
				}
			}
		}
	}
	if len(tr.uid) > 0 { // signature made for a custom UID offered under the default one
		newVctx(tr.key.Pub, nil, tr.msg).check(t, "other-uid", "valid signature for another UID (default)", tr.sig)
	}
	t.Extra("reference_equation_evaluations", tr.v.nEquEval)
	if i == 0 {
		t.Sample(map[string]any{"part": "soundness", "triple": i, "key": tr.key.Name, "signature": fmt.Sprintf("%x", tr.sig), "structured_candidates": len(cands)})
	}
}

func soundPairCase(t *engine.T, i, from, to int) {
	tr := makeTriple(i)
	if !seedMustVerify(t, tr) {
		return
	}
	seed := tr.sig
	buf := make([]byte, len(seed))
	for a := from; a < to && a < len(seed); a++ {
		for _, va := range engine.SmallSubs(seed[a]) {
			for b := a + 1; b < len(seed); b++ {
				for _, vb := range engine.SmallSubs(seed[b]) {
					copy(buf, seed)
					buf[a], buf[b] = va, vb
					tr.v.check(t, "sub2/"+fieldOf(seed, a)+"+"+fieldOf(seed, b), fmt.Sprintf("sub2@%d=%02x@%d=%02x", a, va, b, vb), buf)
				}
			}
		}
	}
	t.Extra("reference_equation_evaluations", tr.v.nEquEval)
}

// ---------------------------------------------------------------------------------------------
// Run

func (Prop) Run(c *engine.Ctx) {
	for _, key := range Keys() {
		for _, ul := range uidLens {
			key, ul := key, ul
			c.Case(fmt.Sprintf("complete/%s/uidLen=%d", key.Name, ul), func(t *engine.T) { completenessCase(t, key, ul) })
		}
	}
	triples := []int{0, 2, 5, 7, 10, 11}
	if !c.Quick() {
		triples = []int{0, 1, 2, 3, 4, 5, 6, 7, 8, 9, 10, 11}
	}
	for _, i := range triples {
		i := i
		for from := 0; from < 80; from += 8 {
			from := from
			c.Case(fmt.Sprintf("sound/triple=%d/sub255/bytes=%d..%d", i, from, from+7), func(t *engine.T) { soundSubCase(t, i, from, from+8) })
		}
		c.Case(fmt.Sprintf("sound/triple=%d/trunc+der+structured+other", i), func(t *engine.T) { soundOtherCase(t, i) })
	}
	for i := 0; i < 3; i++ {
		i := i
		c.Case(fmt.Sprintf("sound/crafted-small-rs=%d", i), func(t *engine.T) { soundCraftedCase(t, i) })
	}
	for ki := range Keys() {
		ki := ki
		c.Case(fmt.Sprintf("sound/degenerate-branches/key#%d", ki), func(t *engine.T) { soundDegenerateCase(t, ki) })
	}
	for ki := range Keys() {
		ki := ki
		c.Case(fmt.Sprintf("sign/retry-paths/key#%d", ki), func(t *engine.T) { soundRetryCase(t, ki) })
	}
	c.Case("sound/x-coordinate-in-[n,p)", func(t *engine.T) { soundLargeXCase(t) })
	if !c.Quick() {
		for _, i := range []int{5, 11} {
			i := i
			for from := 0; from < 80; from += 2 {
				from := from
				c.Case(fmt.Sprintf("sound/triple=%d/sub2/first=%d..%d", i, from, from+1), func(t *engine.T) { soundPairCase(t, i, from, from+2) })
			}
		}
	}
	runHistories(c)
	runLegacy(c)
	runWiden(c)
}
