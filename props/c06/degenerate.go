package c06

// Chosen-digest candidates that land on each degenerate branch of the GB/T 32918.2 verification procedure
// (steps B4-B7): t = (r+s) mod n = 0, and [s]G + [t]P = point at infinity. On a digest-taking entry point the caller
// chooses e freely, so these are constructible without any discrete logarithm; the reference rejects all of them
// by the standard's explicit checks, and for t = 0 an implementation that forgets the check accepts a forgery that
// does not depend on the public key at all.

import (
	"fmt"
	"math/big"

	"github.com/emmansun/gmsm/smx509"

	"verif/engine"
	"verif/ref/ecref"
)

func digestCtx(key Key, e *big.Int) *vctx {
	c := ecref.SM2()
	pub := LibPub(key.Pub)
	return &vctx{c: c, g: GTable(), p: TableFor(c, key.Pub), pub: pub, cert: &smx509.Certificate{PublicKey: pub}, e: ecref.Bytes32(e), digestOnly: true, memo: map[string]bool{}}
}

func soundDegenerateCase(t *engine.T, ki int) {
	c := ecref.SM2()
	n := c.N
	g := GTable()
	key := Keys()[ki]
	one := big.NewInt(1)
	sVals := []*big.Int{big.NewInt(1), big.NewInt(2), big.NewInt(7), new(big.Int).Sub(n, one), new(big.Int).Sub(n, big.NewInt(2)),
		new(big.Int).Rsh(n, 1), new(big.Int).Add(new(big.Int).Rsh(n, 1), one), HashChain("verif/c06/degenerate-s", ki+1), new(big.Int).Lsh(one, 255)}
	// (1) t = r + s = 0 mod n with the digest that satisfies R = r for the collapsed point [s]G
	for _, s := range sVals {
		r := new(big.Int).Sub(n, s)
		if r.Sign() <= 0 || r.Cmp(n) >= 0 || s.Sign() <= 0 || s.Cmp(n) >= 0 {
			continue
		}
		x := g.Mul(s).X
		for _, e := range []*big.Int{new(big.Int).Mod(new(big.Int).Sub(r, x), n), new(big.Int).Set(r), big.NewInt(0)} {
			v := digestCtx(key, e)
			v.check(t, "degenerate/t=r+s=0", fmt.Sprintf("r=n-s, s=%x, e=%x (key %s)", s, e, key.Name), sigOf(r, s))
			t.Nontrivial(fmt.Sprintf("degenerate/t0/%s/%x/%x", key.Name, s, e))
		}
	}
	// (2) [s]G + [t]P = infinity: s = -t*d mod n (d is known for the enumerated keys), r = t - s mod n
	for _, tv := range []*big.Int{big.NewInt(1), big.NewInt(2), new(big.Int).Sub(n, one), HashChain("verif/c06/degenerate-t", ki+1)} {
		s := new(big.Int).Mul(tv, key.D)
		s.Neg(s).Mod(s, n)
		r := new(big.Int).Sub(tv, s)
		r.Mod(r, n)
		if r.Sign() == 0 || s.Sign() == 0 {
			continue
		}
		for _, e := range []*big.Int{new(big.Int).Set(r), big.NewInt(0), HashChain("verif/c06/degenerate-e", ki+3)} {
			v := digestCtx(key, e)
			v.check(t, "degenerate/sum-at-infinity", fmt.Sprintf("s=-t*d, r=t-s, t=%x, e=%x (key %s)", tv, e, key.Name), sigOf(r, s))
			t.Nontrivial(fmt.Sprintf("degenerate/inf/%s/%x/%x", key.Name, tv, e))
		}
	}
	if ki == 0 {
		t.Sample(map[string]any{"part": "soundness (degenerate branches on a chosen digest)", "key": key.Name, "families": []string{"t=r+s=0 mod n", "[s]G+[t]P=infinity"}})
	}
}
