package c06

// Chosen-digest candidates that land on each degenerate branch of the GB/T 32918.2 verification procedure
// (steps B4-B7): t = (r+s) mod n = 0, and [s]G + [t]P = point at infinity. On a digest-taking entry point the caller
// chooses e freely, so these are constructible without any discrete logarithm; the reference rejects all of them
// by the standard's explicit checks, and for t = 0 an implementation that forgets the check accepts a forgery that
// does not depend on the public key at all.

import (
	"bytes"
	"fmt"
	"math/big"

	"github.com/emmansun/gmsm/sm2"

	"github.com/emmansun/gmsm/smx509"

	"verif/engine"
	"verif/ref/ecref"
)

func digestCtx(key Key, e *big.Int) *vctx {
	c := ecref.SM2()
	pub := LibPub(key.Pub)
	return &vctx{c: c, g: GTable(), p: TableFor(c, key.Pub), pub: pub, cert: &smx509.Certificate{PublicKey: pub}, e: ecref.Bytes32(e), digestOnly: true, memo: map[string]bool{}}
}

func soundDegenerateCase(t *engine.T, ki int) {
	c := ecref.SM2()
	n := c.N
	g := GTable()
	key := Keys()[ki]
	one := big.NewInt(1)
	sVals := []*big.Int{big.NewInt(1), big.NewInt(2), big.NewInt(7), new(big.Int).Sub(n, one), new(big.Int).Sub(n, big.NewInt(2)),
		new(big.Int).Rsh(n, 1), new(big.Int).Add(new(big.Int).Rsh(n, 1), one), HashChain("verif/c06/degenerate-s", ki+1), new(big.Int).Lsh(one, 255)}
	// (1) t = r + s = 0 mod n with the digest that satisfies R = r for the collapsed point [s]G
	for _, s := range sVals {
		r := new(big.Int).Sub(n, s)
		if r.Sign() <= 0 || r.Cmp(n) >= 0 || s.Sign() <= 0 || s.Cmp(n) >= 0 {
			continue
		}
		x := g.Mul(s).X
		for _, e := range []*big.Int{new(big.Int).Mod(new(big.Int).Sub(r, x), n), new(big.Int).Set(r), big.NewInt(0)} {
			v := digestCtx(key, e)
			v.check(t, "degenerate/t=r+s=0", fmt.Sprintf("r=n-s, s=%x, e=%x (key %s)", s, e, key.Name), sigOf(r, s))
			t.Nontrivial(fmt.Sprintf("degenerate/t0/%s/%x/%x", key.Name, s, e))
		}
	}
	// (2) [s]G + [t]P = infinity: s = -t*d mod n (d is known for the enumerated keys), r = t - s mod n
	for _, tv := range []*big.Int{big.NewInt(1), big.NewInt(2), new(big.Int).Sub(n, one), HashChain("verif/c06/degenerate-t", ki+1)} {
		s := new(big.Int).Mul(tv, key.D)
		s.Neg(s).Mod(s, n)
		r := new(big.Int).Sub(tv, s)
		r.Mod(r, n)
		if r.Sign() == 0 || s.Sign() == 0 {
			continue
		}
		for _, e := range []*big.Int{new(big.Int).Set(r), big.NewInt(0), HashChain("verif/c06/degenerate-e", ki+3)} {
			v := digestCtx(key, e)
			v.check(t, "degenerate/sum-at-infinity", fmt.Sprintf("s=-t*d, r=t-s, t=%x, e=%x (key %s)", tv, e, key.Name), sigOf(r, s))
			t.Nontrivial(fmt.Sprintf("degenerate/inf/%s/%x/%x", key.Name, tv, e))
		}
	}
	if ki == 0 {
		t.Sample(map[string]any{"part": "soundness (degenerate branches on a chosen digest)", "key": key.Name, "families": []string{"t=r+s=0 mod n", "[s]G+[t]P=infinity"}})
	}
}

// ---------------------------------------------------------------------------------------------
// Retry paths of the signing procedure (steps A5/A6: r = 0, r + k = n, s = 0 -> "go back to A3") reached with a
// chosen digest and a scripted nonce stream: the first nonce k1 is made to hit the retry condition, the second
// nonce k2 must then be used on untouched state. Oracle: the signature equals the reference signature for k2.

func soundRetryCase(t *engine.T, ki int) {
	c := ecref.SM2()
	n := c.N
	g := GTable()
	key := Keys()[ki]
	priv := LibPriv(key.D, key.Pub)
	dInv := new(big.Int).ModInverse(key.D, n)
	for ci, k1 := range []*big.Int{big.NewInt(7), HashChain("verif/c06/retry-k1", ki+1), new(big.Int).Sub(n, big.NewInt(3))} {
		x1 := g.Mul(k1).X
		causes := []struct {
			name string
			e    *big.Int
		}{
			{"s=0", new(big.Int).Mod(new(big.Int).Sub(new(big.Int).Mul(k1, dInv), x1), n)}, // r = k1*d^-1  =>  k1 - r*d = 0
			{"r=0", new(big.Int).Mod(new(big.Int).Neg(x1), n)},
			{"r+k=n", new(big.Int).Mod(new(big.Int).Sub(new(big.Int).Sub(n, k1), x1), n)},
		}
		for _, cause := range causes {
			eb := ecref.Bytes32(cause.e)
			if _, _, ok := FastSignWithK(c, g, key.D, k1, eb); ok {
				t.Fail("HARNESS/retry-construction", "cause %s does not make the reference retry", cause.name)
				continue
			}
			k2 := HashChain("verif/c06/retry-k2", ki*7+ci+1)
			r2, s2, ok := FastSignWithK(c, g, key.D, k2, eb)
			if !ok {
				continue
			}
			want := ecref.EncodeDERSig(r2, s2)
			var sig []byte
			var err error
			rd := engine.NewScriptReader(ecref.Bytes32(k1), ecref.Bytes32(k2))
			if t.Guard("sign/retry", func() { sig, err = sm2.SignASN1(rd, priv, eb, nil) }) {
				continue
			}
			t.Eval(1)
			if err != nil {
				t.Fail("sign/retry/"+cause.name+"/error", "key %s: SignASN1 on the digest that makes the first nonce hit %s: %v", key.Name, cause.name, err)
				continue
			}
			if !bytes.Equal(sig, want) {
				t.Fail("sign/retry/"+cause.name+"/signature-differs-from-reference-for-second-nonce", "key %s k1=%x (first pass: %s) k2=%x: got %x want %x; the returned signature %s", key.Name, k1, cause.name, k2, sig, want,
					map[bool]string{true: "still verifies", false: "does NOT verify"}[sm2.VerifyASN1(LibPub(key.Pub), eb, sig)])
			}
			t.Nontrivial(fmt.Sprintf("sign-retry/%s/%d/%s", key.Name, ci, cause.name))
		}
	}
	if ki == 0 {
		t.Sample(map[string]any{"part": "completeness on the retry paths (chosen digest, scripted nonces)", "causes": []string{"s=0", "r=0", "r+k=n"}})
	}
}

// ---------------------------------------------------------------------------------------------
// Valid signatures whose point [s]G+[t]P has an x-coordinate in [n, p) (a band of width ~2^128 that honest random
// signatures never hit): constructed without a discrete logarithm — take a curve point R with x0 = n+i, choose s and
// t, set r = t - s, e = r - x0 mod n and the PUBLIC key P = t^-1 (R - [s]G). All verification entry points must accept.

func soundLargeXCase(t *engine.T) {
	c := ecref.SM2()
	n := c.N
	g := GTable()
	found := 0
	for i := int64(0); found < 6 && i < 400; i++ {
		x0 := new(big.Int).Add(n, big.NewInt(i))
		if x0.Cmp(c.P) >= 0 {
			break
		}
		R, ok := c.LiftX(x0, uint(i&1))
		if !ok {
			continue
		}
		found++
		s := HashChain("verif/c06/largex-s", int(i)+1)
		tt := HashChain("verif/c06/largex-t", int(i)+1)
		r := new(big.Int).Mod(new(big.Int).Sub(tt, s), n)
		if r.Sign() == 0 {
			continue
		}
		tInv := new(big.Int).ModInverse(tt, n)
		P := c.Mul(tInv, c.Add(R, c.Neg(g.Mul(s))))
		if P.Inf {
			continue
		}
		e := new(big.Int).Mod(new(big.Int).Sub(r, x0), n)
		key := Key{Name: fmt.Sprintf("constructed(x0=n+%d)", i), Pub: P}
		v := digestCtx(key, e)
		sig := sigOf(r, s)
		if a, _, _, _ := v.refAccept(sig); !a {
			t.Fail("HARNESS/largex-construction", "the reference rejects the constructed signature for x0=n+%d", i)
			continue
		}
		v.check(t, "constructed/x-coordinate-in-[n,p)", fmt.Sprintf("x([s]G+[t]P) = n+%d", i), sig)
		// negative control: the same (r,s) on another digest
		v2 := digestCtx(key, new(big.Int).Add(e, big.NewInt(1)))
		v2.check(t, "constructed/x-coordinate-in-[n,p)/other-digest", fmt.Sprintf("x0=n+%d, e+1", i), sig)
		t.Nontrivial(fmt.Sprintf("largex/%d", i))
	}
	// extreme digest x extreme abscissa: here the digest is chosen as well (0, 1, n-1, n, n+1, 2^256-2, 2^256-1) and R has
	// the largest / smallest abscissa on the curve or one next to n, so that e + x1 needs zero, one or two reductions
	{
		one := big.NewInt(1)
		var Rs []ecref.Point
		for _, st := range []struct {
			x0  *big.Int
			dir int64
		}{{new(big.Int).Sub(c.P, one), -1}, {big.NewInt(0), 1}, {new(big.Int).Sub(n, one), -1}} {
			x := new(big.Int).Set(st.x0)
			for i := 0; i < 4096; i++ {
				if q, ok := c.LiftX(x, uint(i&1)); ok {
					Rs = append(Rs, q)
					break
				}
				x.Add(x, big.NewInt(st.dir))
			}
		}
		max256 := new(big.Int).Sub(new(big.Int).Lsh(one, 256), one)
		made := 0
		for ri, R := range Rs {
			for _, e := range []*big.Int{big.NewInt(0), one, new(big.Int).Sub(n, one), n, new(big.Int).Add(n, one), new(big.Int).Sub(max256, one), max256} {
				for _, tv := range []*big.Int{one, big.NewInt(5)} {
					r := new(big.Int).Mod(new(big.Int).Add(e, R.X), n)
					s := new(big.Int).Mod(new(big.Int).Sub(tv, r), n)
					if r.Sign() == 0 || s.Sign() == 0 {
						continue
					}
					P := c.Mul(new(big.Int).ModInverse(tv, n), c.Add(R, c.Neg(g.Mul(s))))
					if P.Inf {
						continue
					}
					key := Key{Name: fmt.Sprintf("constructed(R#%d,t=%v)", ri, tv), Pub: P}
					v := digestCtx(key, e)
					sig := sigOf(r, s)
					if a, _, _, _ := v.refAccept(sig); !a {
						t.Fail("HARNESS/extreme-construction", "the reference rejects the constructed signature R#%d e=%x t=%v", ri, e, tv)
						continue
					}
					made++
					desc := fmt.Sprintf("x1=%x e=%x t=%v (e+x1 = %v*n + ...)", R.X, e, tv, new(big.Int).Div(new(big.Int).Add(e, R.X), n))
					v.check(t, "constructed/extreme-e-x1/valid", desc, sig)
					v.check(t, "constructed/extreme-e-x1/r+1", desc, sigOf(new(big.Int).Add(r, one), s))
					digestCtx(key, new(big.Int).Xor(e, one)).check(t, "constructed/extreme-e-x1/other-digest", desc, sig)
				}
			}
		}
		if made < 20 {
			t.Fail("HARNESS/extreme-vacuous", "only %d signatures constructed", made)
		}
		t.Nontrivial(fmt.Sprintf("extreme-e-x1/%d", made))
	}
	if found == 0 {
		t.Fail("HARNESS/largex-no-point", "no curve point with x in [n, n+400)")
	}
	t.Sample(map[string]any{"part": "soundness/completeness of verification for x([s]G+[t]P) in [n,p)", "constructed_points": found})
}
