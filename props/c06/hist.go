package c06

import (
	"bytes"
	"crypto/ecdsa"
	"fmt"
	"math/big"
	"runtime/debug"
	"strings"

	"github.com/emmansun/gmsm/sm2"
	"github.com/emmansun/gmsm/smx509"

	"verif/engine"
	"verif/ref/ecref"
)

// E1: histories on one key object. The object is built by every route the API offers for a given scalar d.

type dKind struct {
	name string
	d    *big.Int
}

func dKinds() []dKind {
	n := ecref.SM2().N
	one := big.NewInt(1)
	return []dKind{
		{"d=valid", HashChain("verif/c06/hist-d", 1)},
		{"d=n-2", new(big.Int).Sub(n, big.NewInt(2))},
		{"d=n-1", new(big.Int).Sub(n, one)},
		{"d=n", new(big.Int).Set(n)},
		{"d=n+1", new(big.Int).Add(n, one)},
		{"d=2^256-1", new(big.Int).Sub(new(big.Int).Lsh(one, 256), one)},
	}
}

// pubFor is [d mod n]G, or G when that is the point at infinity (a key object needs some point).
func pubFor(d *big.Int) ecref.Point {
	c := ecref.SM2()
	p := GTable().Mul(new(big.Int).Mod(d, c.N))
	if p.Inf {
		return c.G()
	}
	return p
}

var sm2OID = []byte{0x06, 0x08, 0x2a, 0x81, 0x1c, 0xcf, 0x55, 0x01, 0x82, 0x2d}

// sec1DER is ECPrivateKey{1, d, [0] sm2p256v1, [1] pub} written by hand (RFC 5915).
func sec1DER(d *big.Int, pub ecref.Point) []byte {
	var body []byte
	body = append(body, 0x02, 0x01, 0x01)
	body = append(body, tlv(0x04, ecref.Bytes32(d))...)
	body = append(body, tlv(0xa0, sm2OID)...)
	body = append(body, tlv(0xa1, tlv(0x03, append([]byte{0}, pub.Uncompressed()...)))...)
	return tlv(0x30, body)
}

// pkcs8DER wraps sec1DER into PrivateKeyInfo{0, {id-ecPublicKey, sm2p256v1}, OCTET STRING}.
func pkcs8DER(d *big.Int, pub ecref.Point) []byte {
	alg := tlv(0x30, append([]byte{0x06, 0x07, 0x2a, 0x86, 0x48, 0xce, 0x3d, 0x02, 0x01}, sm2OID...))
	var body []byte
	body = append(body, 0x02, 0x01, 0x00)
	body = append(body, alg...)
	body = append(body, tlv(0x04, sec1DER(d, pub))...)
	return tlv(0x30, body)
}

type route struct {
	name  string
	build func(d *big.Int, pub ecref.Point) (*sm2.PrivateKey, error)
}

func asSM2(k any, err error) (*sm2.PrivateKey, error) {
	if err != nil {
		return nil, err
	}
	p, ok := k.(*sm2.PrivateKey)
	if !ok {
		return nil, fmt.Errorf("parser returned %T", k)
	}
	return p, nil
}

var routes = []route{
	{"struct-literal", func(d *big.Int, pub ecref.Point) (*sm2.PrivateKey, error) { return LibPriv(d, pub), nil }},
	{"FromECPrivateKey", func(d *big.Int, pub ecref.Point) (*sm2.PrivateKey, error) {
		return new(sm2.PrivateKey).FromECPrivateKey(&ecdsa.PrivateKey{PublicKey: *LibPub(pub), D: new(big.Int).Set(d)})
	}},
	{"NewPrivateKey", func(d *big.Int, pub ecref.Point) (*sm2.PrivateKey, error) { return sm2.NewPrivateKey(ecref.Bytes32(d)) }},
	{"NewPrivateKeyFromInt", func(d *big.Int, pub ecref.Point) (*sm2.PrivateKey, error) {
		return sm2.NewPrivateKeyFromInt(new(big.Int).Set(d))
	}},
	{"smx509.ParseSM2PrivateKey", func(d *big.Int, pub ecref.Point) (*sm2.PrivateKey, error) {
		return smx509.ParseSM2PrivateKey(sec1DER(d, pub))
	}},
	{"smx509.ParseTypedECPrivateKey", func(d *big.Int, pub ecref.Point) (*sm2.PrivateKey, error) {
		return asSM2(smx509.ParseTypedECPrivateKey(sec1DER(d, pub)))
	}},
	{"smx509.ParseECPrivateKey+FromECPrivateKey", func(d *big.Int, pub ecref.Point) (*sm2.PrivateKey, error) {
		k, err := smx509.ParseECPrivateKey(sec1DER(d, pub))
		if err != nil {
			return nil, err
		}
		return new(sm2.PrivateKey).FromECPrivateKey(k)
	}},
	{"smx509.ParsePKCS8PrivateKey", func(d *big.Int, pub ecref.Point) (*sm2.PrivateKey, error) {
		return asSM2(smx509.ParsePKCS8PrivateKey(pkcs8DER(d, pub)))
	}},
	{"sm2.GenerateKey(scripted)", func(d *big.Int, pub ecref.Point) (*sm2.PrivateKey, error) {
		return sm2.GenerateKey(engine.NewScriptReader(ecref.Bytes32(d), ecref.Bytes32(HashChain("verif/c06/hist-d", 2))))
	}},
}

func gmsmFrame(stack []byte) string {
	for _, l := range strings.Split(string(stack), "\n") {
		if strings.HasPrefix(l, "github.com/emmansun/gmsm/") {
			fn := strings.TrimPrefix(l, "github.com/emmansun/gmsm/")
			if i := strings.LastIndex(fn, "("); i > 0 {
				fn = fn[:i]
			}
			return fn
		}
	}
	return "unknown"
}

// guarded runs fn and reports a panic as (value, innermost gmsm frame).
func guarded(fn func()) (pv any, frame string) {
	defer func() {
		if r := recover(); r != nil {
			pv = r
			frame = gmsmFrame(debug.Stack())
		}
	}()
	fn()
	return nil, ""
}

type hstate struct {
	key       *sm2.PrivateKey
	signCalls int // Sign-family method calls made on this object so far
}

var histOps = []string{"Sign(m1,SM2opts)", "Sign(digest,nil)", "SignWithSM2(uid,m1)", "Decrypt", "ECDH()", "sm2.Sign(func,digest)"}

func histMachine(t *engine.T, rt route, dk dKind, note *string) (engine.Machine[*hstate], bool) {
	c := ecref.SM2()
	g := GTable()
	pub := pubFor(dk.d)
	probe, err := rt.build(dk.d, pub)
	n2 := new(big.Int).Sub(c.N, big.NewInt(2))
	wantValid := dk.d.Sign() > 0 && dk.d.Cmp(n2) <= 0
	if err != nil || probe == nil {
		t.Eval(1)
		t.Outcome("route-rejects")
		t.Nontrivial("hist/" + rt.name + "/" + dk.name + "/route-rejects")
		if wantValid {
			t.Fail("route/"+rt.name+"/rejects-valid-scalar", "%s refused %s: %v", rt.name, dk.name, err)
		}
		return engine.Machine[*hstate]{}, false
	}
	t.Outcome("route-builds-object")
	dAct := new(big.Int).Set(probe.D)
	valid := dAct.Sign() > 0 && dAct.Cmp(n2) <= 0
	if probe.X == nil || probe.Y == nil {
		t.Fail("route/"+rt.name+"/nil-public-key", "%s(%s) returned an object without public key", rt.name, dk.name)
		return engine.Machine[*hstate]{}, false
	}
	objPub := ecref.Point{X: new(big.Int).Set(probe.X), Y: new(big.Int).Set(probe.Y)}
	if valid && !objPub.Equal(g.Mul(dAct)) {
		t.Fail("route/"+rt.name+"/public-key-mismatch", "%s(%s): object has D=%x but public key (%x,%x) != [D]G", rt.name, dk.name, dAct, probe.X, probe.Y)
		return engine.Machine[*hstate]{}, false
	}
	if !c.OnCurve(objPub) {
		t.Fail("route/"+rt.name+"/public-key-off-curve", "%s(%s)", rt.name, dk.name)
		return engine.Machine[*hstate]{}, false
	}
	m1 := []byte("history message one")
	uid2 := Pattern(16, 0x11)
	dig := Pattern(32, 0x21)
	dig5 := Pattern(32, 0x22)
	ks := [][]byte{ecref.Bytes32(HashChain("verif/c06/hist-k", 1)), ecref.Bytes32(HashChain("verif/c06/hist-k", 2)), ecref.Bytes32(HashChain("verif/c06/hist-k", 3)), nil, nil, ecref.Bytes32(HashChain("verif/c06/hist-k", 4))}
	es := [][]byte{c.Digest(ecref.DefaultUID, objPub, m1), dig, c.Digest(uid2, objPub, m1), nil, nil, dig5}
	want := make([][]byte, len(histOps))
	if valid {
		for _, op := range []int{0, 1, 2, 5} {
			r, s, _ := refSign(c, g, dAct, es[op], [][]byte{ks[op]})
			want[op] = ecref.EncodeDERSig(r, s)
		}
	}
	plain := []byte("history-decrypt")
	c1, c2, c3, ok := c.EncryptWithK(objPub, HashChain("verif/c06/hist-ct", 1), plain)
	if !ok {
		panic("c06: reference encryption failed")
	}
	ct := append(append(c1.Uncompressed(), c3...), c2...)
	libPub := LibPub(objPub)

	cls := "d>=n-1"
	if valid {
		cls = "valid-key"
	}
	m := engine.Machine[*hstate]{
		Name: "sm2.PrivateKey/" + rt.name + "/" + dk.name,
		New: func() *hstate {
			k, err := rt.build(dk.d, pub)
			if err != nil {
				panic("c06: route is not deterministic: " + err.Error())
			}
			return &hstate{key: k}
		},
		Ops: histOps,
		Step: func(s *hstate, op int, t0 *engine.T) bool {
			t := noted{t0, note}
			switch op {
			case 0, 1, 2, 5:
				var sig []byte
				var err error
				rd := engine.NewScriptReader(ks[op])
				pv, frame := guarded(func() {
					switch op {
					case 0:
						sig, err = s.key.Sign(rd, m1, sm2.DefaultSM2SignerOpts)
					case 1:
						sig, err = s.key.Sign(rd, dig, nil)
					case 2:
						sig, err = s.key.SignWithSM2(rd, uid2, m1)
					case 5:
						sig, err = rsToDER(sm2.Sign(rd, &s.key.PrivateKey, dig5))
					}
				})
				nth := "first-call"
				if s.signCalls > 0 && op != 5 {
					nth = "second-call"
				}
				if op != 5 {
					s.signCalls++
				}
				if pv != nil {
					t.Fail("sign/"+cls+"/"+nth+"-panic", "%s panicked on the %s of a Sign method on this key object (D=%x, built by %s): %v at %s", histOps[op], nth, dAct, rt.name, pv, frame)
					return false
				}
				if !valid {
					if err == nil {
						t.Fail("sign/d>=n-1/no-error", "%s on key object with D=%x (built by %s) returned a signature %x instead of an error", histOps[op], dAct, rt.name, sig)
						return false
					}
					t.Outcome("invalid-scalar-error")
					return true
				}
				if err != nil {
					t.Fail("sign/valid-key/error", "%s on valid key D=%x (built by %s): %v", histOps[op], dAct, rt.name, err)
					return false
				}
				if !bytes.Equal(sig, want[op]) {
					lr, ls, pok := ecref.ParseStrictDERSig(sig)
					if !pok || !FastVerify(c, g, TableFor(c, objPub), es[op], lr, ls) {
						t.Fail("sign/valid-key/history-signature-invalid", "%s on valid key D=%x: signature %x fails the reference equation (reference %x)", histOps[op], dAct, sig, want[op])
					} else {
						t.Fail("sign/valid-key/history-signature-differs-from-reference", "%s on valid key D=%x: %x, reference for the scripted nonce %x", histOps[op], dAct, sig, want[op])
					}
					return false
				}
				if !sm2.VerifyASN1(libPub, es[op], sig) {
					t.Fail("verify/sm2.VerifyASN1/rejects-valid/history", "signature %x made in a history is rejected", sig)
					return false
				}
				t.Outcome("history-signature=reference")
			case 3:
				var pt []byte
				var err error
				pv, frame := guarded(func() { pt, err = s.key.Decrypt(nil, ct, nil) })
				if pv != nil {
					t.Fail("history/Decrypt/"+cls+"/panic", "Decrypt panicked on key object D=%x (built by %s): %v at %s", dAct, rt.name, pv, frame)
					return false
				}
				if valid && (err != nil || !bytes.Equal(pt, plain)) {
					t.Fail("history/Decrypt/valid-key/wrong-result", "Decrypt = %x, %v want %x", pt, err, plain)
					return false
				}
				if err == nil && !bytes.Equal(pt, plain) {
					t.Fail("history/Decrypt/"+cls+"/wrong-plaintext", "Decrypt = %x without error, want %x or an error", pt, plain)
					return false
				}
				if err != nil {
					t.Outcome("decrypt-error")
				} else {
					t.Outcome("decrypt-ok")
				}
			case 4:
				var err error
				pv, frame := guarded(func() { _, err = s.key.ECDH() })
				if pv != nil {
					t.Fail("history/ECDH/"+cls+"/panic", "ECDH() panicked on key object D=%x (built by %s): %v at %s", dAct, rt.name, pv, frame)
					return false
				}
				if err != nil {
					t.Outcome("ecdh-error")
				} else {
					t.Outcome("ecdh-ok")
				}
			}
			return true
		},
		Key: func(s *hstate) string {
			return engine.DumpString(s.key) + fmt.Sprint(s.signCalls > 0)
		},
	}
	return m, true
}

// noted prefixes violation details with the history being replayed by the explicit sequence loop.
type noted struct {
	*engine.T
	note *string
}

func (n noted) Fail(key, format string, a ...any) {
	if n.note != nil && *n.note != "" {
		n.T.Fail(key, "history: "+*n.note+" — "+format, a...)
		return
	}
	n.T.Fail(key, format, a...)
}

func runHistories(c *engine.Ctx) {
	for _, dk := range dKinds() {
		for _, rt := range routes {
			dk, rt := dk, rt
			c.Case(fmt.Sprintf("hist/%s/%s/depth=3", dk.name, rt.name), func(t *engine.T) {
				note := ""
				m, ok := histMachine(t, rt, dk, &note)
				if !ok {
					return
				}
				// (a) explicit-state search, states merged on the complete private state of the key object
				engine.BFS(t, m, 3)
				// (b) every operation sequence of length <= 3 literally, each on a fresh object (no merging)
				nseq := 0
				var seq []int
				var rec func()
				rec = func() {
					if len(seq) > 0 {
						s := m.New()
						names := make([]string, len(seq))
						for i, o := range seq {
							names[i] = histOps[o]
						}
						note = strings.Join(names, ";")
						for _, o := range seq {
							if !m.Step(s, o, t) {
								break
							}
						}
						note = ""
						nseq++
					}
					if len(seq) == 3 {
						return
					}
					for o := range histOps {
						seq = append(seq, o)
						rec()
						seq = seq[:len(seq)-1]
					}
				}
				rec()
				t.Eval(nseq)
				t.AddTraces(nseq)
				t.Extra("operation_sequences_replayed", nseq)
				if dk.name == "d=n-1" && rt.name == "struct-literal" {
					t.Sample(map[string]any{"part": "histories", "key_object": m.Name, "sequences": nseq, "ops": histOps})
				}
			})
		}
	}
}
