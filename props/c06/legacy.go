package c06

import (
	"bytes"
	"crypto/ecdsa"
	"crypto/elliptic"
	"errors"
	"fmt"
	"math/big"

	"github.com/emmansun/gmsm/sm2"
	"github.com/emmansun/gmsm/smx509"

	"verif/engine"
	"verif/ref/ecref"
)

// The math/big path of sm2_legacy.go is selected by any curve other than sm2.P256(). It is exercised here with
// NIST P-256 (parameters taken from the Go standard library, not from the repository).

var nistP256 *ecref.Curve

// NISTP256 returns the reference curve object for NIST P-256.
func NISTP256() *ecref.Curve {
	if nistP256 == nil {
		p := elliptic.P256().Params()
		nistP256 = &ecref.Curve{P: p.P, A: new(big.Int).Sub(p.P, big.NewInt(3)), B: p.B, N: p.N, Gx: p.Gx, Gy: p.Gy}
	}
	return nistP256
}

func selfTestLegacyCurve() error {
	c := NISTP256()
	if !c.OnCurve(c.G()) || !c.BaseMul(c.N).Inf {
		return fmt.Errorf("c06: NIST P-256 reference parameters inconsistent")
	}
	// FIPS 186 / RFC 6979 A.2.5 key pair on P-256
	d, _ := new(big.Int).SetString("C9AFA9D845BA75166B5C215767B1D6934E50C3DB36E89B127B8A622B120F6721", 16)
	q := c.BaseMul(d)
	if fmt.Sprintf("%X", q.X) != "60FED4BA255A9D31C961EB74C6356D68C049B8923B61FA6CE669622E60F29FB6" {
		return fmt.Errorf("c06: NIST P-256 reference public key x = %X", q.X)
	}
	return nil
}

// plainCurve hides the optional fast-path methods (Inverse, CombinedMult) of the standard library's P-256 so that
// the generic branches of sm2_legacy.go (fermatInverse, ScalarBaseMult+ScalarMult+Add) are reached.
type plainCurve struct{ elliptic.Curve }

var wrappedP256 elliptic.Curve = plainCurve{elliptic.P256()}

// legacyCurves lists the curve objects used for the legacy path. The bare elliptic.P256() is skipped in the purego
// build: with -tags purego on amd64 the Go 1.23 standard library's p256Curve.Inverse panics by itself
// (crypto/internal/nistec.P256OrdInverse is "unimplemented" there) — a toolchain artefact, not a gmsm behaviour.
func legacyCurves(t *engine.T) []elliptic.Curve {
	if t.Config() == "c-purego" {
		return []elliptic.Curve{wrappedP256}
	}
	return []elliptic.Curve{elliptic.P256(), wrappedP256}
}

func curveName(cv elliptic.Curve) string {
	if _, ok := cv.(plainCurve); ok {
		return "P-256(generic-methods-only)"
	}
	return "P-256"
}

func legacyPub(cv elliptic.Curve, p ecref.Point) *ecdsa.PublicKey {
	return &ecdsa.PublicKey{Curve: cv, X: new(big.Int).Set(p.X), Y: new(big.Int).Set(p.Y)}
}

func legacyPriv(cv elliptic.Curve, d *big.Int, p ecref.Point) *sm2.PrivateKey {
	return &sm2.PrivateKey{PrivateKey: ecdsa.PrivateKey{PublicKey: *legacyPub(cv, p), D: new(big.Int).Set(d)}}
}

func legacyVctx(cv elliptic.Curve, c *ecref.Curve, pubPt ecref.Point, uid, msg []byte) *vctx {
	pub := legacyPub(cv, pubPt)
	return &vctx{c: c, g: TableFor(c, c.G()), p: TableFor(c, pubPt), pub: pub, cert: &smx509.Certificate{PublicKey: pub}, uid: uid, msg: msg,
		e: c.Digest(effUID(uid), pubPt, msg), defUID: len(uid) == 0 || bytes.Equal(uid, ecref.DefaultUID), memo: map[string]bool{}}
}

func legacyChain(c *ecref.Curve, label string, i int) *big.Int {
	v := HashChain(label, i)
	v.Mod(v, new(big.Int).Sub(c.N, big.NewInt(2)))
	return v.Add(v, big.NewInt(1))
}

func legacyKeys() []Key {
	c := NISTP256()
	g := TableFor(c, c.G())
	var ks []Key
	for _, k := range []struct {
		n string
		d *big.Int
	}{{"d=1", big.NewInt(1)}, {"d=n-2", new(big.Int).Sub(c.N, big.NewInt(2))}, {"d=chain", legacyChain(c, "verif/c06/legacy-key", 1)}} {
		ks = append(ks, Key{Name: k.n, D: k.d, Pub: g.Mul(k.d)})
	}
	return ks
}

func legacyCompleteness(t *engine.T, cv elliptic.Curve, key Key) {
	c := NISTP256()
	g := TableFor(c, c.G())
	priv := legacyPriv(cv, key.D, key.Pub)
	one := big.NewInt(1)
	second := ecref.Bytes32(legacyChain(c, "verif/c06/legacy-mid", 2))
	nonces := []nonceSpec{
		{"k=1", [][]byte{ecref.Bytes32(one), second}},
		{"k=n-1", [][]byte{ecref.Bytes32(new(big.Int).Sub(c.N, one)), second}},
		{"k=n", [][]byte{ecref.Bytes32(c.N), second}},
		{"k=0", [][]byte{ecref.Bytes32(big.NewInt(0)), second}},
		{"k=2^256-1", [][]byte{bytes.Repeat([]byte{0xff}, 32), second}},
		{"k=mid", [][]byte{ecref.Bytes32(legacyChain(c, "verif/c06/legacy-mid", 1)), second}},
	}
	for _, ul := range []int{0, 16, 8191} {
		uid := Pattern(ul, 0x55)
		for _, ml := range []int{0, 32, 1000} {
			msg := Pattern(ml, 0xb0)
			v := legacyVctx(cv, c, key.Pub, uid, msg)
			for _, ns := range nonces {
				r, s, k := refSign(c, g, key.D, v.e, ns.blocks)
				refSig := ecref.EncodeDERSig(r, s)
				if !v.refAcceptRS(r, s) {
					t.Fail("HARNESS/reference-signature-does-not-verify", "legacy key %s k=%x", key.Name, k)
					return
				}
				t.Nontrivial(fmt.Sprintf("legacy/complete/%s/%s/uid=%d/msg=%d/%s", curveName(cv), key.Name, ul, ml, ns.name))
				for _, se := range signEntries {
					if se.defaultOnly && ul != 0 {
						continue
					}
					var sig []byte
					var err error
					if t.Guard("legacy/sign/"+se.name, func() { sig, err = se.f(engine.NewScriptReader(ns.blocks...), priv, uid, msg, v.e) }) {
						continue
					}
					t.Eval(1)
					if err != nil {
						t.Fail("legacy/sign/"+se.name+"/error-on-valid-key", "%s(P-256 key %s, uidLen=%d, msgLen=%d, %s): %v", se.name, key.Name, ul, ml, ns.name, err)
						continue
					}
					if !bytes.Equal(sig, refSig) {
						lr, ls, ok := ecref.ParseStrictDERSig(sig)
						if !ok || !v.refAcceptRS(lr, ls) {
							t.Fail("legacy/sign/"+se.name+"/signature-fails-reference-equation", "%s(P-256 key %s, uidLen=%d, msgLen=%d, %s) = %x; reference %x", se.name, key.Name, ul, ml, ns.name, sig, refSig)
						} else {
							t.Fail("legacy/sign/"+se.name+"/differs-from-reference-for-scripted-k", "%s(P-256 key %s, uidLen=%d, msgLen=%d, %s) = %x; reference for scripted k %x", se.name, key.Name, ul, ml, ns.name, sig, refSig)
						}
						continue
					}
					t.Outcome("legacy-signature=reference")
				}
				v.check(t, "legacy/honest", fmt.Sprintf("honest signature, P-256 key %s uidLen=%d msgLen=%d %s", key.Name, ul, ml, ns.name), refSig)
			}
		}
	}
}

func legacySoundness(t *engine.T, cv elliptic.Curve) {
	c := NISTP256()
	g := TableFor(c, c.G())
	key := legacyKeys()[2]
	msg := Pattern(45, 0x3c)
	v := legacyVctx(cv, c, key.Pub, nil, msg)
	r, s, _ := refSign(c, g, key.D, v.e, [][]byte{ecref.Bytes32(legacyChain(c, "verif/c06/legacy-nonce", 1))})
	tr := &triple{idx: 100, key: key, msg: msg, r: r, s: s, sig: ecref.EncodeDERSig(r, s), v: v}
	v.check(t, "legacy/seed", "unmodified reference signature", tr.sig)
	engine.EachMutant(tr.sig, engine.MutOpt{AllValues: false, DER: true}, func(desc string, m []byte) {
		v.check(t, "legacy/"+mutClass(tr.sig, desc), desc, m)
	})
	// structured() uses the SM2 order for its replacements; recompute the order-dependent ones for P-256
	n := c.N
	for _, cd := range []struct {
		name string
		r, s *big.Int
	}{
		{"r=0", big.NewInt(0), s}, {"s=0", r, big.NewInt(0)}, {"r=n", n, s}, {"s=n", r, n},
		{"r=n+r", new(big.Int).Add(n, r), s}, {"s=n+s", r, new(big.Int).Add(n, s)},
		{"r=-r", new(big.Int).Neg(r), s}, {"s=-s", r, new(big.Int).Neg(s)},
		{"r=n-r", new(big.Int).Sub(n, r), s}, {"s=n-s", r, new(big.Int).Sub(n, s)},
		{"swap", s, r}, {"r=2^256-1", new(big.Int).Sub(new(big.Int).Lsh(big.NewInt(1), 256), big.NewInt(1)), s},
	} {
		v.check(t, "legacy/struct/value/"+cd.name, cd.name, sigOf(cd.r, cd.s))
	}
	names, cands := structured(tr)
	for j := range cands {
		if len(names[j]) > 4 && names[j][:4] == "enc/" {
			v.check(t, "legacy/struct/"+names[j], names[j], cands[j])
		}
	}
	other := legacyKeys()[1]
	legacyVctx(cv, c, other.Pub, nil, msg).check(t, "legacy/other-key", "valid signature under another key", tr.sig)
	legacyVctx(cv, c, key.Pub, nil, append(append([]byte{}, msg...), 1)).check(t, "legacy/other-message", "valid signature for another message", tr.sig)
	legacyVctx(cv, c, key.Pub, []byte("x"), msg).check(t, "legacy/other-uid", "valid signature for another UID", tr.sig)
}

// legacyInvalidScalar: the statement "signing with d >= n-1 returns an error on every call" on the math/big path.
// The reader is bounded (it fails after 24 nonce blocks) so that a signing loop that can never succeed
// (d = n-1 makes s = 0 for every k) surfaces as the injected error instead of hanging the worker.
func legacyInvalidScalar(t *engine.T, cv elliptic.Curve) {
	c := NISTP256()
	g := TableFor(c, c.G())
	one := big.NewInt(1)
	for _, dk := range []struct {
		name string
		d    *big.Int
	}{{"d=n-1", new(big.Int).Sub(c.N, one)}, {"d=n", new(big.Int).Set(c.N)}, {"d=n+1", new(big.Int).Add(c.N, one)}, {"d=2^256-1", new(big.Int).Sub(new(big.Int).Lsh(one, 256), one)}} {
		pub := g.Mul(new(big.Int).Mod(dk.d, c.N))
		if pub.Inf {
			pub = c.G()
		}
		priv := legacyPriv(cv, dk.d, pub)
		for call := 0; call < 3; call++ {
			rd := engine.NewScriptReader()
			rd.Fault = map[int]int{24: engine.AnsErr}
			var sig []byte
			var err error
			pv, frame := guarded(func() { sig, err = priv.Sign(rd, []byte("legacy invalid scalar"), sm2.DefaultSM2SignerOpts) })
			t.Eval(1)
			t.Nontrivial("legacy/invalid-scalar/" + dk.name)
			switch {
			case pv != nil:
				t.Fail("legacy/sign/d>=n-1/panic", "Sign call #%d on P-256 key object with %s panicked: %v at %s", call+1, dk.name, pv, frame)
			case err == nil:
				t.Fail("legacy/sign/d>=n/no-error", "Sign call #%d on P-256 key object with %s returned a signature %x instead of an error", call+1, dk.name, sig)
			case errors.Is(err, engine.ErrInjected):
				t.Fail("legacy/sign/d=n-1/never-terminates", "Sign call #%d on P-256 key object with %s consumed %d nonce blocks without returning; it only stopped because the bounded reader failed (with crypto/rand it loops forever)", call+1, dk.name, rd.Calls)
			default:
				t.Outcome("legacy-invalid-scalar-error")
			}
		}
	}
}

func runLegacy(c *engine.Ctx) {
	for _, k := range legacyKeys() {
		k := k
		c.Case("legacy/complete/"+k.Name, func(t *engine.T) {
			for _, cv := range legacyCurves(t) {
				legacyCompleteness(t, cv, k)
			}
		})
	}
	c.Case("legacy/sound/small-subs+der+structured", func(t *engine.T) {
		for _, cv := range legacyCurves(t) {
			legacySoundness(t, cv)
		}
	})
	c.Case("legacy/invalid-scalar-sign", func(t *engine.T) {
		for _, cv := range legacyCurves(t) {
			legacyInvalidScalar(t, cv)
		}
	})
}

// WrappedP256 is NIST P-256 exposing only the generic elliptic.Curve methods (used by props/c07).
func WrappedP256() elliptic.Curve { return wrappedP256 }

// CurveName names a legacy curve object.
func CurveName(cv elliptic.Curve) string { return curveName(cv) }
