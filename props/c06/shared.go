// Package c06: SM2 signatures — completeness (E2), soundness (E3) and key-object histories (E1).
//
// This file holds helpers shared with props/c07: a fixed-window scalar multiplication that is built ONLY
// from ecref's affine Add (so the reference stays the boring one, merely re-associated), the key set of
// DESIGN §4 C06, scripted nonce blocks and key-object constructors.
package c06

import (
	"crypto/ecdsa"
	"fmt"
	"math/big"
	"sync"

	"github.com/emmansun/gmsm/sm2"

	"verif/ref/ecref"
	"verif/ref/sm3ref"
)

// Table holds [j*256^i]P for i in 0..31, j in 0..255, computed with ecref.Add only.
type Table struct {
	C *ecref.Curve
	P ecref.Point
	w [32][256]ecref.Point
}

// NewTable builds the window table of p on curve c (8 160 affine additions).
func NewTable(c *ecref.Curve, p ecref.Point) *Table {
	t := &Table{C: c, P: p}
	base := p
	for i := 0; i < 32; i++ {
		t.w[i][0] = ecref.Inf()
		acc := ecref.Inf()
		for j := 1; j < 256; j++ {
			acc = c.Add(acc, base)
			t.w[i][j] = acc
		}
		base = c.Add(acc, base) // [256]base
	}
	return t
}

// Mul returns [k]P. Scalars of more than 256 bits or negative ones go through ecref.Mul / are rejected.
func (t *Table) Mul(k *big.Int) ecref.Point {
	if k.Sign() < 0 {
		panic("c06.Table.Mul: negative scalar")
	}
	if k.BitLen() > 256 {
		return t.C.Mul(k, t.P)
	}
	b := ecref.Bytes32(k)
	r := ecref.Inf()
	for i := 0; i < 32; i++ {
		if d := b[31-i]; d != 0 {
			r = t.C.Add(r, t.w[i][d])
		}
	}
	return r
}

var (
	tabMu  sync.Mutex
	tabMap = map[string]*Table{}
)

// TableFor returns the (process-wide cached) table of p.
func TableFor(c *ecref.Curve, p ecref.Point) *Table {
	key := fmt.Sprintf("%x|%x|%x", c.P, p.X, p.Y)
	tabMu.Lock()
	defer tabMu.Unlock()
	if t, ok := tabMap[key]; ok {
		return t
	}
	t := NewTable(c, p)
	tabMap[key] = t
	return t
}

// GTable is the table of the SM2 base point.
func GTable() *Table { c := ecref.SM2(); return TableFor(c, c.G()) }

// FastSignWithK is ecref.SignWithK with [k]G taken from the window table (same formulae, same outcomes).
func FastSignWithK(c *ecref.Curve, g *Table, d, k *big.Int, e []byte) (r, s *big.Int, ok bool) {
	if k.Sign() <= 0 || k.Cmp(c.N) >= 0 {
		return nil, nil, false
	}
	kg := g.Mul(k)
	r = new(big.Int).SetBytes(e)
	r.Add(r, kg.X)
	r.Mod(r, c.N)
	if r.Sign() == 0 || new(big.Int).Add(r, k).Cmp(c.N) == 0 {
		return nil, nil, false
	}
	inv := new(big.Int).Add(d, big.NewInt(1))
	if inv.ModInverse(inv, c.N) == nil {
		return nil, nil, false
	}
	s = new(big.Int).Mul(r, d)
	s.Sub(k, s)
	s.Mul(s, inv)
	s.Mod(s, c.N)
	if s.Sign() == 0 {
		return nil, nil, false
	}
	return r, s, true
}

// FastVerify is ecref.Verify (GB/T 32918.2 §7.1) with both scalar multiplications taken from window tables.
func FastVerify(c *ecref.Curve, g, p *Table, e []byte, r, s *big.Int) bool {
	if r.Sign() <= 0 || s.Sign() <= 0 || r.Cmp(c.N) >= 0 || s.Cmp(c.N) >= 0 {
		return false
	}
	t := new(big.Int).Add(r, s)
	t.Mod(t, c.N)
	if t.Sign() == 0 {
		return false
	}
	pt := c.Add(g.Mul(s), p.Mul(t))
	if pt.Inf {
		return false
	}
	R := new(big.Int).SetBytes(e)
	R.Add(R, pt.X)
	R.Mod(R, c.N)
	return R.Cmp(r) == 0
}

// ---------------------------------------------------------------------------------------------
// key set of DESIGN §4 C06: d in {1, 2, n-2, 2^255, hash-chain x 8}

// Key is one key pair of the enumeration.
type Key struct {
	Name string
	D    *big.Int
	Pub  ecref.Point
}

// HashChain returns the i-th element of the deterministic SM3 chain for a label, as an integer in [1, n-2].
func HashChain(label string, i int) *big.Int {
	h := sm3ref.Sum([]byte(label))
	for j := 0; j < i; j++ {
		h = sm3ref.Sum(h[:])
	}
	n2 := new(big.Int).Sub(ecref.SM2().N, big.NewInt(2))
	v := new(big.Int).SetBytes(h[:])
	v.Mod(v, n2)
	return v.Add(v, big.NewInt(1))
}

var (
	keysOnce sync.Once
	keys     []Key
)

// Keys returns the 12 key pairs (public keys computed by the reference).
func Keys() []Key {
	keysOnce.Do(func() {
		c := ecref.SM2()
		g := GTable()
		add := func(name string, d *big.Int) { keys = append(keys, Key{Name: name, D: d, Pub: g.Mul(d)}) }
		add("d=1", big.NewInt(1))
		add("d=2", big.NewInt(2))
		add("d=n-2", new(big.Int).Sub(c.N, big.NewInt(2)))
		add("d=2^255", new(big.Int).Lsh(big.NewInt(1), 255))
		for i := 0; i < 8; i++ {
			add(fmt.Sprintf("d=chain%d", i), HashChain("verif/c06/key", i+1))
		}
		// public keys whose coordinates have a leading zero byte in exactly one place (x only, y only): ZA hashes both
		// coordinates at fixed width, the shape a variable-width or shared-scratch encoding gets wrong. Smallest such d.
		lim := new(big.Int).Lsh(big.NewInt(1), 248)
		var xlz, ylz bool
		for d := int64(3); d < 20000 && !(xlz && ylz); d++ {
			p := g.Mul(big.NewInt(d))
			xs, ys := p.X.Cmp(lim) < 0, p.Y.Cmp(lim) < 0
			if xs && !ys && !xlz {
				xlz = true
				add("d=pub-x-leading-zero", big.NewInt(d))
			}
			if ys && !xs && !ylz {
				ylz = true
				add("d=pub-y-leading-zero", big.NewInt(d))
			}
		}
	})
	return keys
}

// LibPub builds the library-side public key object.
func LibPub(p ecref.Point) *ecdsa.PublicKey {
	return &ecdsa.PublicKey{Curve: sm2.P256(), X: new(big.Int).Set(p.X), Y: new(big.Int).Set(p.Y)}
}

// LibPriv builds a private key object as a struct literal (no library validation involved).
func LibPriv(d *big.Int, p ecref.Point) *sm2.PrivateKey {
	return &sm2.PrivateKey{PrivateKey: ecdsa.PrivateKey{PublicKey: *LibPub(p), D: new(big.Int).Set(d)}}
}

// Pattern fills n bytes with a fixed function of the index and a lane.
func Pattern(n int, lane byte) []byte {
	b := make([]byte, n)
	for i := range b {
		b[i] = byte(i*11+7) ^ byte(i>>8) ^ byte(i>>3) ^ lane
	}
	return b
}

// selfTestTables validates the window-table arithmetic against ecref's plain double-and-add.
func selfTestTables() error {
	c := ecref.SM2()
	g := GTable()
	d := HashChain("verif/c06/selftest", 3)
	pub := c.BaseMul(d)
	p := TableFor(c, pub)
	sc := []*big.Int{big.NewInt(0), big.NewInt(1), big.NewInt(255), big.NewInt(256), new(big.Int).Sub(c.N, big.NewInt(1)), new(big.Int).Set(c.N),
		new(big.Int).Add(c.N, big.NewInt(5)), new(big.Int).Sub(new(big.Int).Lsh(big.NewInt(1), 256), big.NewInt(1)), HashChain("verif/c06/selftest", 1), HashChain("verif/c06/selftest", 2)}
	for _, k := range sc {
		if !g.Mul(k).Equal(c.BaseMul(k)) {
			return fmt.Errorf("c06: window table [k]G differs from ecref.BaseMul for k=%x", k)
		}
		if !p.Mul(k).Equal(c.Mul(k, pub)) {
			return fmt.Errorf("c06: window table [k]P differs from ecref.Mul for k=%x", k)
		}
	}
	// FastSignWithK / FastVerify agree with ecref on valid, invalid and out-of-range inputs
	e := c.Digest(ecref.DefaultUID, pub, []byte("selftest"))
	k := HashChain("verif/c06/selftest", 7)
	r, s, ok := FastSignWithK(c, g, d, k, e)
	r2, s2, ok2 := c.SignWithK(d, k, e)
	if !ok || !ok2 || r.Cmp(r2) != 0 || s.Cmp(s2) != 0 {
		return fmt.Errorf("c06: FastSignWithK differs from ecref.SignWithK")
	}
	one := big.NewInt(1)
	cands := [][2]*big.Int{{r, s}, {s, r}, {new(big.Int).Add(r, one), s}, {r, new(big.Int).Add(s, one)}, {big.NewInt(0), s}, {r, big.NewInt(0)},
		{new(big.Int).Add(r, c.N), s}, {r, new(big.Int).Add(s, c.N)}, {new(big.Int).Neg(r), s}, {new(big.Int).Sub(c.N, r), s}, {r, new(big.Int).Sub(c.N, s)},
		{new(big.Int).Sub(c.N, s), s}}
	nTrue := 0
	for _, cd := range cands {
		a, b := FastVerify(c, g, p, e, cd[0], cd[1]), c.Verify(pub, e, cd[0], cd[1])
		if a != b {
			return fmt.Errorf("c06: FastVerify=%v ecref.Verify=%v for (%x,%x)", a, b, cd[0], cd[1])
		}
		if a {
			nTrue++
		}
	}
	if nTrue != 1 {
		return fmt.Errorf("c06: reference accepted %d of the self-test candidates, want exactly the honest one", nTrue)
	}
	return nil
}

// Exported wrappers used by props/c07.

// TLV encodes tag || minimal definite length || content.
func TLV(tag byte, content []byte) []byte { return tlv(tag, content) }

// IntContent is the minimal two's complement INTEGER content of v.
func IntContent(v *big.Int) []byte { return intContent(v) }

// Guarded runs fn and returns the panic value and innermost gmsm frame, if it panicked.
func Guarded(fn func()) (any, string) { return guarded(fn) }
