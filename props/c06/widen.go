package c06

// Widening of the C06 alphabet in the generic input dimensions of DESIGN §11.4 (part 1): histories that
// re-initialise a used key object, argument layout / integrity / repeated calls on the verification and signing
// entry points, ownership of returned values, constructor arguments that belong to the caller.
//
// Every oracle here is one of: (a) the specification oracle of c06.go (reference signature for the scripted nonce,
// accept <=> strict DER + range + equation), (b) "an argument of the call is unchanged after the call", (c) "the same
// call on the same arguments gives the same answer again".

import (
	"bytes"
	"crypto/ecdsa"
	"crypto/sha256"
	"fmt"
	"hash"
	"math/big"

	"github.com/emmansun/gmsm/sm2"
	"github.com/emmansun/gmsm/sm3"
	"github.com/emmansun/gmsm/smx509"

	"verif/engine"
	"verif/ref/ecref"
)

// ---------------------------------------------------------------------------------------------
// helpers

// record lays the parts out back to back in ONE array followed by dirty slack; the capacity of every view reaches
// to the end of the array, so anything the callee appends to an argument lands in the following arguments / slack.
func record(slack int, parts ...[]byte) (views [][]byte, whole []byte) {
	n := 0
	for _, p := range parts {
		n += len(p)
	}
	whole = make([]byte, n+slack)
	off := 0
	for _, p := range parts {
		copy(whole[off:], p)
		views = append(views, whole[off:off+len(p):len(whole)])
		off += len(p)
	}
	for i := off; i < len(whole); i++ {
		whole[i] = 0xD1 ^ byte(i*7)
	}
	return
}

// exact gives every part its own array with cap == len (nil stays nil).
func exact(parts ...[]byte) (views [][]byte) {
	for _, p := range parts {
		if p == nil {
			views = append(views, nil)
			continue
		}
		q := make([]byte, len(p))
		copy(q, p)
		views = append(views, q[:len(q):len(q)])
	}
	return
}

// bigSnap remembers value and backing words of a big.Int argument.
type bigSnap struct {
	v     *big.Int
	val   *big.Int
	words []big.Word
}

func snapBig(v *big.Int) bigSnap {
	w := v.Bits()
	w = w[:cap(w)]
	return bigSnap{v: v, val: new(big.Int).Set(v), words: append([]big.Word(nil), w...)}
}

func (s bigSnap) intact() bool {
	if s.v.Cmp(s.val) != 0 {
		return false
	}
	w := s.v.Bits()
	w = w[:cap(w)]
	if len(w) != len(s.words) {
		return false
	}
	for i := range w {
		if w[i] != s.words[i] {
			return false
		}
	}
	return true
}

// scribbleBig destroys a big.Int the harness owns: every word of its backing array, then the value.
func scribbleBig(v *big.Int) {
	w := v.Bits()
	w = w[:cap(w)]
	for i := range w {
		w[i] = ^big.Word(0) - big.Word(i)
	}
	v.SetInt64(0)
}

func scribble(b []byte) {
	b = b[:cap(b)]
	for i := range b {
		b[i] = 0xEE
	}
}

func allEE(b []byte) bool {
	for _, x := range b[:cap(b)] {
		if x != 0xEE {
			return false
		}
	}
	return true
}

func midBlocks() [][]byte {
	return [][]byte{ecref.Bytes32(HashChain("verif/c06/mid", 1)), ecref.Bytes32(HashChain("verif/c06/mid", 2))}
}

func ecKey(d *big.Int, pub ecref.Point) *ecdsa.PrivateKey {
	return &ecdsa.PrivateKey{PublicKey: *LibPub(pub), D: new(big.Int).Set(d)}
}

// ---------------------------------------------------------------------------------------------
// W1: a used key object is re-initialised through the library's own FromECPrivateKey. After the call the object IS
// the new key: valid scalars must give the reference signature, d >= n-1 an error — whatever the object was before.

func reinitCase(t *engine.T) {
	c := ecref.SM2()
	g := GTable()
	n := c.N
	one := big.NewInt(1)
	kinds := []dKind{
		{"valid-A", HashChain("verif/c06/reinit-d", 1)},
		{"valid-B", HashChain("verif/c06/reinit-d", 2)},
		{"n-2", new(big.Int).Sub(n, big.NewInt(2))},
		{"n-1", new(big.Int).Sub(n, one)},
		{"n", new(big.Int).Set(n)},
		{"2^256-1", new(big.Int).Sub(new(big.Int).Lsh(one, 256), one)},
	}
	n2 := new(big.Int).Sub(n, big.NewInt(2))
	isValid := func(d *big.Int) bool { return d.Sign() > 0 && d.Cmp(n2) <= 0 }
	cls := func(d *big.Int) string {
		if isValid(d) {
			return "valid"
		}
		return "d>=n-1"
	}
	msg := []byte("re-initialised key object")
	dig := Pattern(32, 0x5e)
	warmups := []string{"none", "Sign(msg,SM2opts)", "Sign(digest,nil)", "Sign;Sign"}
	for _, a := range kinds {
		for _, b := range kinds {
			for _, w0 := range append(append([]string{}, warmups...), "in-place:Sign(msg,SM2opts)", "in-place:Sign;Sign") {
				// "in-place:" = the caller keeps ONE *ecdsa.PrivateKey, rotates its D/X/Y in place and converts it again
				// (the receiver shares those big.Int objects after the first conversion)
				w, inPlace := w0, false
				if len(w0) > 9 && w0[:9] == "in-place:" {
					w, inPlace = w0[9:], true
				}
				obj := new(sm2.PrivateKey)
				pubB := pubFor(b.d)
				key := "hist/reinit/FromECPrivateKey/" + cls(a.d) + "->" + cls(b.d)
				desc := fmt.Sprintf("new(PrivateKey).FromECPrivateKey(d=%s); warm-up %s; FromECPrivateKey(d=%s) on the same object (source rotated in place: %v)", a.name, w, b.name, inPlace)
				src := ecKey(a.d, pubFor(a.d))
				pv, frame := guarded(func() {
					if _, err := obj.FromECPrivateKey(src); err != nil {
						panic("c06: FromECPrivateKey refused an SM2 curve key: " + err.Error())
					}
					switch w {
					case "Sign(msg,SM2opts)":
						obj.Sign(engine.NewScriptReader(midBlocks()...), msg, sm2.DefaultSM2SignerOpts)
					case "Sign(digest,nil)":
						obj.Sign(engine.NewScriptReader(midBlocks()...), dig, nil)
					case "Sign;Sign":
						obj.Sign(engine.NewScriptReader(midBlocks()...), msg, sm2.DefaultSM2SignerOpts)
						obj.Sign(engine.NewScriptReader(midBlocks()...), dig, nil)
					}
					next := ecKey(b.d, pubB)
					if inPlace {
						src.D.Set(b.d)
						src.X.Set(pubB.X)
						src.Y.Set(pubB.Y)
						next = src
					}
					if _, err := obj.FromECPrivateKey(next); err != nil {
						panic("c06: FromECPrivateKey refused an SM2 curve key: " + err.Error())
					}
				})
				if pv != nil {
					t.Fail(key+"/panic", "%s: panic %v at %s", desc, pv, frame)
					continue
				}
				t.Nontrivial("reinit/" + a.name + "/" + b.name + "/" + w0)
				eMsg := c.Digest(ecref.DefaultUID, pubB, msg)
				for call, e := range [][]byte{eMsg, dig, eMsg} {
					var sig []byte
					var err error
					rd := engine.NewScriptReader(midBlocks()...)
					pv, frame := guarded(func() {
						if call == 1 {
							sig, err = obj.Sign(rd, dig, nil)
						} else {
							sig, err = obj.Sign(rd, msg, sm2.DefaultSM2SignerOpts)
						}
					})
					t.Eval(1)
					if pv != nil {
						t.Fail(key+"/panic", "%s; Sign call #%d: panic %v at %s", desc, call+1, pv, frame)
						break
					}
					if !isValid(b.d) {
						if err == nil {
							t.Fail(key+"/no-error", "%s; Sign call #%d returned a signature %x instead of an error (the object's scalar is %s)", desc, call+1, sig, b.name)
						} else {
							t.Outcome("reinit-invalid-scalar-error")
						}
						continue
					}
					if err != nil {
						t.Fail(key+"/error-on-valid-key", "%s; Sign call #%d on the now valid key: %v", desc, call+1, err)
						continue
					}
					r, s, _ := refSign(c, g, b.d, e, midBlocks())
					if want := ecref.EncodeDERSig(r, s); !bytes.Equal(sig, want) {
						lr, ls, ok := ecref.ParseStrictDERSig(sig)
						if !ok || !FastVerify(c, g, TableFor(c, pubB), e, lr, ls) {
							t.Fail(key+"/signature-invalid", "%s; Sign call #%d = %x does not satisfy the verification equation under the object's public key (reference %x)", desc, call+1, sig, want)
						} else {
							t.Fail(key+"/signature-differs-from-reference", "%s; Sign call #%d = %x, reference for the scripted nonce %x", desc, call+1, sig, want)
						}
						continue
					}
					t.Outcome("reinit-signature=reference")
				}
			}
		}
	}
	t.Sample(map[string]any{"part": "histories: key object re-initialised by FromECPrivateKey", "scalars": len(kinds), "warmups": warmups})
}

// ---------------------------------------------------------------------------------------------
// W2: verification — argument layouts (record / exact capacity), argument integrity, repeated call.

type vcall struct {
	name     string
	msgBased bool
	rs       bool
}

var vcalls = []vcall{
	{"sm2.VerifyASN1", false, false},
	{"sm2.VerifyASN1WithSM2", true, false},
	{"smx509.Certificate.CheckSignature", true, false},
	{"smx509.Certificate.CheckSignatureWithDigest", false, false},
	{"sm2.Verify", false, true},
	{"sm2.VerifyWithSM2", true, true},
}

func verifyLayoutCase(t *engine.T, i int) {
	tr := makeTriple(i)
	if !seedMustVerify(t, tr) {
		return
	}
	v := tr.v
	names, cands := structured(tr)
	names = append([]string{"seed"}, names...)
	cands = append([][]byte{tr.sig}, cands...)
	// the seed again at the end and in the middle: accept after reject after accept on the same public key object
	names = append(names, "seed-again")
	cands = append(cands, tr.sig)
	pubX, pubY := snapBig(v.pub.X), snapBig(v.pub.Y)
	layouts := []string{"exact-capacity", "record(a|b|sig|slack)", "record(sig|b|a|slack)"}
	for ci, cand := range cands {
		want, r, s, parsed := v.refAccept(cand)
		cl := "struct"
		if ci == 0 || ci == len(cands)-1 {
			cl = "seed"
		}
		for _, vc := range vcalls {
			if vc.rs && !parsed {
				continue
			}
			if vc.name == "smx509.Certificate.CheckSignature" && !v.defUID {
				continue
			}
			for _, lay := range layouts {
				if vc.rs && lay == "record(sig|b|a|slack)" {
					continue
				}
				// arguments of this call: a = uid or digest, b = msg (message based only), sig
				var a, b, sg []byte
				var whole, snap []byte
				a0, b0 := v.e, []byte(nil)
				if vc.msgBased {
					a0, b0 = v.uid, v.msg
				}
				switch lay {
				case "exact-capacity":
					vw := exact(a0, b0, cand)
					a, b, sg = vw[0], vw[1], vw[2]
				case "record(a|b|sig|slack)":
					var vw [][]byte
					vw, whole = record(192, a0, b0, cand)
					a, b, sg = vw[0], vw[1], vw[2]
				default:
					var vw [][]byte
					vw, whole = record(192, cand, b0, a0)
					sg, b, a = vw[0], vw[1], vw[2]
				}
				if whole != nil {
					snap = append([]byte(nil), whole...)
				}
				ea, eb, es := append([]byte(nil), a...), append([]byte(nil), b...), append([]byte(nil), sg...)
				var rr, ss *big.Int
				var rSnap, sSnap bigSnap
				if vc.rs {
					rr, ss = new(big.Int).Set(r), new(big.Int).Set(s)
					rSnap, sSnap = snapBig(rr), snapBig(ss)
				}
				call := func() bool {
					switch vc.name {
					case "sm2.VerifyASN1":
						return sm2.VerifyASN1(v.pub, a, sg)
					case "sm2.VerifyASN1WithSM2":
						return sm2.VerifyASN1WithSM2(v.pub, a, b, sg)
					case "smx509.Certificate.CheckSignature":
						return v.cert.CheckSignature(smx509.SM2WithSM3, b, sg) == nil
					case "smx509.Certificate.CheckSignatureWithDigest":
						return v.cert.CheckSignatureWithDigest(smx509.SM2WithSM3, a, sg) == nil
					case "sm2.Verify":
						return sm2.Verify(v.pub, a, rr, ss)
					default:
						return sm2.VerifyWithSM2(v.pub, a, b, rr, ss)
					}
				}
				var got [2]bool
				bad := false
				for k := 0; k < 2; k++ {
					k := k
					if t.Guard("layout/verify/"+vc.name, func() { got[k] = call() }) {
						bad = true
						break
					}
					t.Eval(1)
				}
				if bad {
					continue
				}
				t.Nontrivial(fmt.Sprintf("wlayout/verify/%s/%s/%s/%v", vc.name, lay, cl, want))
				if got[0] != want {
					dir := "accepts-invalid"
					if want {
						dir = "rejects-valid"
					}
					t.Fail("layout/verify/"+vc.name+"/"+dir+"/"+lay, "%s returned %v, specification says %v, for candidate [%s] %x in layout %s (triple %d)", vc.name, got[0], want, names[ci], cand, lay, i)
				}
				if got[1] != got[0] {
					t.Fail("repeat/verify/"+vc.name+"/second-call-differs", "%s on the same arguments: first call %v, second call %v; candidate [%s] %x layout %s (triple %d)", vc.name, got[0], got[1], names[ci], cand, lay, i)
				}
				if !bytes.Equal(a, ea) || !bytes.Equal(b, eb) || !bytes.Equal(sg, es) || (whole != nil && !bytes.Equal(whole, snap)) {
					where := -1
					if whole != nil {
						where = engine.FirstDiff(whole, snap)
					}
					t.Fail("integrity/verify/"+vc.name+"/argument-modified/"+lay, "%s modified caller memory (record offset %d; arguments a=%d b=%d sig=%d bytes) for candidate [%s] %x (triple %d)", vc.name, where, len(a), len(b), len(sg), names[ci], cand, i)
				}
				if vc.rs && (!rSnap.intact() || !sSnap.intact()) {
					t.Fail("integrity/verify/"+vc.name+"/r-s-modified", "%s modified its *big.Int arguments: r %x -> %x, s %x -> %x", vc.name, r, rr, s, ss)
				}
				if got[0] {
					t.Outcome("layout-accept")
				} else {
					t.Outcome("layout-reject")
				}
			}
		}
		if !pubX.intact() || !pubY.intact() {
			t.Fail("integrity/verify/public-key-modified", "the public key object changed during verification of candidate [%s]: now (%x,%x)", names[ci], v.pub.X, v.pub.Y)
			return
		}
	}
	if i == 0 {
		t.Sample(map[string]any{"part": "verification: layouts x integrity x repeat", "triple": i, "candidates": len(cands), "layouts": layouts, "entry_points": len(vcalls)})
	}
}

// ---------------------------------------------------------------------------------------------
// W3: signing — argument layouts, integrity of arguments and key object, ownership of the result.

type scall struct {
	name     string
	msgBased bool
}

var scalls = []scall{
	{"sm2.SignASN1(SM2SignerOption)", true},
	{"PrivateKey.Sign(SM2SignerOption,shared)", true},
	{"PrivateKey.SignWithSM2", true},
	{"sm2.SignWithSM2", true},
	{"PrivateKey.Sign(digest,nil)", false},
	{"sm2.SignASN1(digest,nil)", false},
	{"PrivateKey.Sign(digest,SM2SignerOption(false))", false},
	{"sm2.Sign", false},
}

var signLayoutShapes = []struct {
	uidLen, msgLen int
	nilArgs        bool
}{{0, 0, true}, {0, 0, false}, {0, 33, false}, {1, 1, false}, {16, 32, false}, {65, 64, false}, {53, 23, false}, {8191, 5, false}}

func signLayoutCase(t *engine.T, key Key) {
	c := ecref.SM2()
	g := GTable()
	priv := LibPriv(key.D, key.Pub)
	dS, xS, yS := snapBig(priv.D), snapBig(priv.X), snapBig(priv.Y)
	layouts := []string{"exact-capacity", "record(a|b|slack)", "record(b|a|slack)"}
	for _, sh := range signLayoutShapes {
		var uid, msg []byte
		if !sh.nilArgs {
			uid, msg = Pattern(sh.uidLen, 0x52), Pattern(sh.msgLen, 0xa7)
		}
		e := c.Digest(effUID(uid), key.Pub, msg)
		for _, sc := range scalls {
			for _, lay := range layouts {
				a0, b0 := e, uid // digest based: a = digest, b = uid of the (ignored) option
				if sc.msgBased {
					a0, b0 = uid, msg
				}
				var a, b, whole, snap []byte
				switch lay {
				case "exact-capacity":
					vw := exact(a0, b0)
					a, b = vw[0], vw[1]
				case "record(a|b|slack)":
					var vw [][]byte
					vw, whole = record(256, a0, b0)
					a, b = vw[0], vw[1]
				default:
					var vw [][]byte
					vw, whole = record(256, b0, a0)
					b, a = vw[0], vw[1]
				}
				if whole != nil {
					snap = append([]byte(nil), whole...)
				}
				if sh.nilArgs && lay == "exact-capacity" && sc.msgBased {
					a, b = nil, nil
				}
				ea, eb := append([]byte(nil), a...), append([]byte(nil), b...)
				var shared *sm2.SM2SignerOption
				if sc.name == "PrivateKey.Sign(SM2SignerOption,shared)" {
					shared = sm2.NewSM2SignerOption(true, a) // ONE option object for both calls
				}
				// digest actually signed by this call
				eSigned := e
				call := func() (sig []byte, r, s *big.Int, err error) {
					rd := engine.NewScriptReader(midBlocks()...)
					switch sc.name {
					case "sm2.SignASN1(SM2SignerOption)":
						sig, err = sm2.SignASN1(rd, priv, b, sm2.NewSM2SignerOption(true, a))
					case "PrivateKey.Sign(SM2SignerOption,shared)":
						sig, err = priv.Sign(rd, b, shared)
					case "PrivateKey.SignWithSM2":
						sig, err = priv.SignWithSM2(rd, a, b)
					case "sm2.SignWithSM2":
						r, s, err = sm2.SignWithSM2(rd, &priv.PrivateKey, a, b)
					case "PrivateKey.Sign(digest,nil)":
						sig, err = priv.Sign(rd, a, nil)
					case "sm2.SignASN1(digest,nil)":
						sig, err = sm2.SignASN1(rd, priv, a, nil)
					case "PrivateKey.Sign(digest,SM2SignerOption(false))":
						sig, err = priv.Sign(rd, a, sm2.NewSM2SignerOption(false, b))
					default:
						r, s, err = sm2.Sign(rd, &priv.PrivateKey, a)
					}
					return
				}
				rr, rs, _ := refSign(c, g, key.D, eSigned, midBlocks())
				want := ecref.EncodeDERSig(rr, rs)
				var firstSig []byte
				var firstR, firstS *big.Int
				ok := true
				for k := 0; k < 2 && ok; k++ {
					var sig []byte
					var r, s *big.Int
					var err error
					if t.Guard("layout/sign/"+sc.name, func() { sig, r, s, err = call() }) {
						ok = false
						break
					}
					t.Eval(1)
					if err != nil {
						t.Fail("layout/sign/"+sc.name+"/error/"+lay, "%s(key %s, uidLen=%d, msgLen=%d, layout %s) call #%d: %v", sc.name, key.Name, sh.uidLen, sh.msgLen, lay, k+1, err)
						ok = false
						break
					}
					got := sig
					if sig == nil {
						if r == nil || s == nil {
							t.Fail("layout/sign/"+sc.name+"/nil-result", "%s returned nil r/s without error", sc.name)
							ok = false
							break
						}
						got = sigOf(r, s)
					}
					if !bytes.Equal(got, want) {
						fk := "layout/sign/" + sc.name + "/signature-differs-from-reference/" + lay
						if k == 1 {
							fk = "own/sign/" + sc.name + "/second-call-differs-after-result-overwritten"
						}
						t.Fail(fk, "%s(key %s, uidLen=%d, msgLen=%d, layout %s) call #%d = %x, reference for the scripted nonce %x", sc.name, key.Name, sh.uidLen, sh.msgLen, lay, k+1, got, want)
						ok = false
						break
					}
					if k == 0 {
						// the result belongs to the caller: destroy it, then repeat the operation
						firstSig, firstR, firstS = sig, r, s
						if sig != nil {
							scribble(sig)
						} else {
							scribbleBig(r)
							scribbleBig(s)
						}
					} else {
						if firstSig != nil && !allEE(firstSig) {
							t.Fail("own/sign/"+sc.name+"/result-aliased", "%s: the second call wrote into the slice returned by the first call (now %x)", sc.name, firstSig[:cap(firstSig)])
						}
						if firstR != nil && (firstR.Sign() != 0 || firstS.Sign() != 0) {
							t.Fail("own/sign/"+sc.name+"/result-aliased", "%s: the second call changed the integers returned by the first call", sc.name)
						}
					}
				}
				t.Nontrivial(fmt.Sprintf("wlayout/sign/%s/%s/%d/%d/%v", sc.name, lay, sh.uidLen, sh.msgLen, sh.nilArgs))
				if !bytes.Equal(a, ea) || !bytes.Equal(b, eb) || (whole != nil && !bytes.Equal(whole, snap)) {
					where := -1
					if whole != nil {
						where = engine.FirstDiff(whole, snap)
					}
					t.Fail("integrity/sign/"+sc.name+"/argument-modified/"+lay, "%s modified caller memory (record offset %d; a=%d b=%d bytes; key %s uidLen=%d msgLen=%d)", sc.name, where, len(a), len(b), key.Name, sh.uidLen, sh.msgLen)
				}
				if !dS.intact() || !xS.intact() || !yS.intact() {
					t.Fail("integrity/sign/"+sc.name+"/key-object-modified", "%s changed D/X/Y of the key object (key %s): D=%x X=%x Y=%x", sc.name, key.Name, priv.D, priv.X, priv.Y)
					return
				}
				if ok {
					t.Outcome("layout-signature=reference")
				}
			}
		}
		// ownership of ZA / digest results
		pub := LibPub(key.Pub)
		for _, fn := range []struct {
			name string
			f    func() ([]byte, error)
			want []byte
		}{
			{"sm2.CalculateZA", func() ([]byte, error) { return sm2.CalculateZA(pub, effUID(uid)) }, c.ZA(effUID(uid), key.Pub)},
			{"sm2.CalculateSM2Hash", func() ([]byte, error) { return sm2.CalculateSM2Hash(pub, msg, uid) }, e},
		} {
			var first []byte
			for k := 0; k < 3; k++ {
				var out []byte
				var err error
				if t.Guard("own/"+fn.name, func() { out, err = fn.f() }) {
					break
				}
				t.Eval(1)
				if err != nil || !bytes.Equal(out, fn.want) {
					fk := "own/" + fn.name + "/mismatch"
					if k > 0 {
						fk = "own/" + fn.name + "/differs-after-result-overwritten"
					}
					t.Fail(fk, "%s(key %s, uidLen=%d, msgLen=%d) call #%d = %x, %v; reference %x", fn.name, key.Name, sh.uidLen, sh.msgLen, k+1, out, err, fn.want)
					break
				}
				if k == 0 {
					first = out
				} else if !allEE(first) {
					t.Fail("own/"+fn.name+"/result-aliased", "%s: a later call wrote into the slice returned by the first call", fn.name)
				}
				scribble(out)
			}
		}
	}
	if key.Name == "d=chain0" {
		t.Sample(map[string]any{"part": "signing: layouts x integrity x ownership", "key": key.Name, "shapes": len(signLayoutShapes), "layouts": layouts, "entry_points": len(scalls)})
	}
}

// ---------------------------------------------------------------------------------------------
// W4: constructor arguments belong to the caller.

func ctorArgsCase(t *engine.T) {
	c := ecref.SM2()
	g := GTable()
	A, B := Keys()[4], Keys()[5]
	msg := []byte("constructor arguments")
	sigFor := func(k Key, e []byte) []byte {
		r, s, _ := refSign(c, g, k.D, e, midBlocks())
		return ecref.EncodeDERSig(r, s)
	}
	eA, eB := c.Digest(ecref.DefaultUID, A.Pub, msg), c.Digest(ecref.DefaultUID, B.Pub, msg)
	wantA, wantB := sigFor(A, eA), sigFor(B, eB)
	signs := func(name string, k *sm2.PrivateKey, want []byte, who string) {
		for call := 0; call < 2; call++ {
			var sig []byte
			var err error
			if t.Guard("ctor/"+name, func() {
				sig, err = k.Sign(engine.NewScriptReader(midBlocks()...), msg, sm2.DefaultSM2SignerOpts)
			}) {
				return
			}
			t.Eval(1)
			if err != nil || !bytes.Equal(sig, want) {
				t.Fail("ctor/"+name+"/object-depends-on-argument-after-construction", "key object built by %s for key %s, after the caller overwrote the constructor argument: Sign call #%d = %x, %v; reference %x", name, who, call+1, sig, err, want)
				return
			}
			t.Outcome("ctor-object-independent")
		}
	}
	// NewPrivateKey(bytes): the same slice is handed to two constructors, then destroyed
	for _, lay := range []string{"exact-capacity", "record"} {
		var buf, whole []byte
		if lay == "record" {
			var vw [][]byte
			vw, whole = record(96, ecref.Bytes32(A.D))
			buf = vw[0]
		} else {
			buf = exact(ecref.Bytes32(A.D))[0]
		}
		snap := append([]byte(nil), whole...)
		var kA, kB *sm2.PrivateKey
		var err error
		if t.Guard("ctor/sm2.NewPrivateKey", func() { kA, err = sm2.NewPrivateKey(buf) }) || err != nil {
			t.Fail("ctor/sm2.NewPrivateKey/error", "valid scalar refused: %v", err)
			continue
		}
		if !bytes.Equal(buf, ecref.Bytes32(A.D)) || !bytes.Equal(whole, snap) {
			t.Fail("ctor/sm2.NewPrivateKey/argument-modified", "NewPrivateKey modified its argument or the memory behind it (layout %s)", lay)
		}
		copy(buf, ecref.Bytes32(B.D))
		if t.Guard("ctor/sm2.NewPrivateKey", func() { kB, err = sm2.NewPrivateKey(buf) }) || err != nil {
			t.Fail("ctor/sm2.NewPrivateKey/error", "valid scalar refused: %v", err)
			continue
		}
		scribble(buf)
		t.Nontrivial("ctor/NewPrivateKey/" + lay)
		signs("sm2.NewPrivateKey", kA, wantA, A.Name)
		signs("sm2.NewPrivateKey", kB, wantB, B.Name)
		signs("sm2.NewPrivateKey", kA, wantA, A.Name)
	}
	// NewPrivateKeyFromInt(*big.Int): the integer is reused for the next key, then destroyed
	{
		v := new(big.Int).Set(A.D)
		var kA, kB *sm2.PrivateKey
		var err error
		if t.Guard("ctor/sm2.NewPrivateKeyFromInt", func() { kA, err = sm2.NewPrivateKeyFromInt(v) }) || err != nil {
			t.Fail("ctor/sm2.NewPrivateKeyFromInt/error", "valid scalar refused: %v", err)
		} else {
			if v.Cmp(A.D) != 0 {
				t.Fail("ctor/sm2.NewPrivateKeyFromInt/argument-modified", "NewPrivateKeyFromInt changed its argument to %x", v)
			}
			v.Set(B.D) // in place: same words
			if t.Guard("ctor/sm2.NewPrivateKeyFromInt", func() { kB, err = sm2.NewPrivateKeyFromInt(v) }) || err != nil {
				t.Fail("ctor/sm2.NewPrivateKeyFromInt/error", "valid scalar refused: %v", err)
			} else {
				scribbleBig(v)
				t.Nontrivial("ctor/NewPrivateKeyFromInt")
				signs("sm2.NewPrivateKeyFromInt", kA, wantA, A.Name)
				signs("sm2.NewPrivateKeyFromInt", kB, wantB, B.Name)
				signs("sm2.NewPrivateKeyFromInt", kA, wantA, A.Name)
				if kA.D.Cmp(A.D) != 0 || kB.D.Cmp(B.D) != 0 {
					t.Fail("ctor/sm2.NewPrivateKeyFromInt/object-depends-on-argument-after-construction", "D of the key objects changed with the caller's integer: %x / %x", kA.D, kB.D)
				}
			}
		}
	}
	// NewPublicKey(bytes)
	{
		vw, whole := record(96, A.Pub.Uncompressed())
		buf := vw[0]
		snap := append([]byte(nil), whole...)
		var pA, pB *ecdsa.PublicKey
		var err error
		if t.Guard("ctor/sm2.NewPublicKey", func() { pA, err = sm2.NewPublicKey(buf) }) || err != nil {
			t.Fail("ctor/sm2.NewPublicKey/error", "valid point refused: %v", err)
		} else {
			if !bytes.Equal(whole, snap) {
				t.Fail("ctor/sm2.NewPublicKey/argument-modified", "NewPublicKey modified its argument or the memory behind it")
			}
			copy(buf, B.Pub.Uncompressed())
			if t.Guard("ctor/sm2.NewPublicKey", func() { pB, err = sm2.NewPublicKey(buf) }) || err != nil {
				t.Fail("ctor/sm2.NewPublicKey/error", "valid point refused: %v", err)
			} else {
				scribble(buf)
				t.Nontrivial("ctor/NewPublicKey")
				for k := 0; k < 2; k++ {
					for _, q := range []struct {
						pub  *ecdsa.PublicKey
						e    []byte
						sig  []byte
						want bool
					}{{pA, eA, wantA, true}, {pB, eB, wantB, true}, {pA, eA, wantB, false}, {pB, eA, wantA, false}} {
						var got bool
						if t.Guard("ctor/sm2.NewPublicKey", func() { got = sm2.VerifyASN1(q.pub, q.e, q.sig) }) {
							continue
						}
						t.Eval(1)
						if got != q.want {
							t.Fail("ctor/sm2.NewPublicKey/object-depends-on-argument-after-construction", "public key object built by NewPublicKey, after the caller overwrote the encoding: VerifyASN1 = %v, want %v (object now (%x,%x))", got, q.want, q.pub.X, q.pub.Y)
						}
					}
				}
			}
		}
	}
	// hashers: the UID slice is overwritten after construction; ZA was fixed at construction ("The returned hasher is reset")
	pubA := LibPub(A.Pub)
	for _, hc := range []struct {
		name string
		mk   func(uid []byte) (hash.Hash, error)
		ref  func(uid, m []byte) []byte
	}{
		{"sm2.NewHashWithUserID", func(uid []byte) (hash.Hash, error) { return sm2.NewHashWithUserID(pubA, uid) },
			func(uid, m []byte) []byte { return c.Digest(uid, A.Pub, m) }},
		{"sm2.NewHashWithHashAndUserID(sm3)", func(uid []byte) (hash.Hash, error) { return sm2.NewHashWithHashAndUserID(pubA, sm3.New, uid) },
			func(uid, m []byte) []byte { return c.Digest(uid, A.Pub, m) }},
		{"sm2.NewHashWithHashAndUserID(sha256)", func(uid []byte) (hash.Hash, error) {
			return sm2.NewHashWithHashAndUserID(pubA, sha256.New, uid)
		}, func(uid, m []byte) []byte {
			h := sha256.Sum256(append(c.ZA(uid, A.Pub), m...))
			return h[:]
		}},
	} {
		for _, ul := range []int{1, 16, 53, 200} {
			orig := Pattern(ul, 0x69)
			vw, whole := record(64, orig)
			snap := append([]byte(nil), whole...)
			var h hash.Hash
			var err error
			if t.Guard("ctor/"+hc.name, func() { h, err = hc.mk(vw[0]) }) || err != nil {
				t.Fail("ctor/"+hc.name+"/error", "uidLen=%d: %v", ul, err)
				continue
			}
			if !bytes.Equal(whole, snap) {
				t.Fail("ctor/"+hc.name+"/argument-modified", "the constructor modified the UID or the memory behind it (uidLen=%d)", ul)
			}
			scribble(vw[0])
			want := hc.ref(orig, msg)
			t.Nontrivial(fmt.Sprintf("ctor/%s/uid=%d", hc.name, ul))
			for round := 0; round < 3; round++ {
				var d []byte
				if t.Guard("ctor/"+hc.name, func() {
					if round > 0 {
						h.Reset()
					}
					h.Write(msg)
					d = h.Sum(nil)
				}) {
					break
				}
				t.Eval(1)
				if !bytes.Equal(d, want) {
					t.Fail("ctor/"+hc.name+"/object-depends-on-argument-after-construction", "hasher for a %d-byte UID, after the caller overwrote the UID slice (round %d, Reset=%v): %x, reference %x", ul, round, round > 0, d, want)
					break
				}
				t.Outcome("ctor-hasher-independent")
			}
		}
	}
	// FromECPrivateKey / NewSM2SignerOption must not modify what they are given (sharing is their documented nature)
	{
		ek := ecKey(A.D, A.Pub)
		dS, xS, yS := snapBig(ek.D), snapBig(ek.X), snapBig(ek.Y)
		k, err := new(sm2.PrivateKey).FromECPrivateKey(ek)
		if err != nil {
			t.Fail("ctor/FromECPrivateKey/error", "%v", err)
		} else {
			signs("FromECPrivateKey", k, wantA, A.Name)
			if !dS.intact() || !xS.intact() || !yS.intact() {
				t.Fail("ctor/FromECPrivateKey/argument-modified", "the ecdsa key handed to FromECPrivateKey changed: D=%x", ek.D)
			}
		}
		uid := Pattern(40, 0x13)
		vw, whole := record(64, uid)
		snap := append([]byte(nil), whole...)
		opt := sm2.NewSM2SignerOption(true, vw[0])
		kk := LibPriv(A.D, A.Pub)
		eU := c.Digest(uid, A.Pub, msg)
		for call := 0; call < 2; call++ {
			sig, err := kk.Sign(engine.NewScriptReader(midBlocks()...), msg, opt)
			t.Eval(1)
			if err != nil || !bytes.Equal(sig, sigFor(A, eU)) {
				t.Fail("ctor/NewSM2SignerOption/reused-option-wrong-signature", "one option object used for call #%d: %x, %v", call+1, sig, err)
			}
		}
		if !bytes.Equal(whole, snap) {
			t.Fail("ctor/NewSM2SignerOption/argument-modified", "the UID handed to NewSM2SignerOption (or the memory behind it) changed")
		}
	}
	t.Sample(map[string]any{"part": "constructor arguments belong to the caller", "constructors": []string{"NewPrivateKey", "NewPrivateKeyFromInt", "NewPublicKey", "NewHashWithUserID", "NewHashWithHashAndUserID(sm3|sha256)", "FromECPrivateKey (integrity only)", "NewSM2SignerOption (integrity only)"}})
}

// ---------------------------------------------------------------------------------------------

func runWiden(c *engine.Ctx) {
	c.Case("widen/hist/reinit-FromECPrivateKey", reinitCase)
	vt := []int{0, 1, 2, 3, 4, 5, 6, 7, 8, 9, 10, 11}
	for _, i := range vt {
		i := i
		c.Case(fmt.Sprintf("widen/verify-layout+integrity+repeat/triple=%d", i), func(t *engine.T) { verifyLayoutCase(t, i) })
	}
	ks := Keys()
	var sk []int
	for i := range ks {
		sk = append(sk, i)
	}
	for _, i := range sk {
		if i >= len(ks) {
			continue
		}
		key := ks[i]
		c.Case("widen/sign-layout+integrity+ownership/"+key.Name, func(t *engine.T) { signLayoutCase(t, key) })
	}
	c.Case("widen/constructor-arguments", ctorArgsCase)
	runWiden2(c)
	runWiden3(c)
	runWiden4(c)
}
