package c06

// Widening of the C06 alphabet (part 2): length sweeps through every SM3 residue class of the ZA and message
// hashes and the ENTL boundaries, digests as an input dimension (boundary values, other lengths, every kind of
// crypto.SignerOpts), histories of the streaming hashers, the public-key recovery entry point, further degenerate
// branches of verification (final addition is a doubling; public key -G), retry paths and degenerate branches on
// the math/big path, and the remaining standard curves that reach sm2_legacy.go.

import (
	"bytes"
	"crypto"
	"crypto/ecdsa"
	"crypto/elliptic"
	"crypto/sha256"
	"fmt"
	"hash"
	"math/big"
	"sort"

	"github.com/emmansun/gmsm/sm2"
	"github.com/emmansun/gmsm/sm3"
	"github.com/emmansun/gmsm/smx509"

	"verif/engine"
	"verif/ref/ecref"
	"verif/ref/sm3ref"
)

// ---------------------------------------------------------------------------------------------
// W5: length sweeps. ZA hashes 2+len(uid)+192 bytes, e hashes 32+len(msg) bytes: the sweep puts both lengths in
// every residue class mod 64 (padding thresholds 55/56 and 63/0) for 1..n blocks, the UID length at the boundaries of
// the 16-bit ENTL field, and walks the lengths up and then down again on ONE key object.

func residueClass(n int) string {
	switch r := n % 64; {
	case r == 0:
		return "0"
	case r < 55:
		return "1..54"
	case r == 55:
		return "55"
	case r == 56:
		return "56"
	case r < 63:
		return "57..62"
	default:
		return "63"
	}
}

func sweepCase(t *engine.T, dim string, lens []int) {
	c := ecref.SM2()
	g := GTable()
	key := Keys()[6]
	priv := LibPriv(key.D, key.Pub)
	pub := LibPub(key.Pub)
	type res struct {
		e, sig []byte
		cls    string
	}
	results := make([]res, len(lens))
	mk := func(L int) (uid, msg []byte, cls string) {
		if dim == "uid" {
			return Pattern(L, 0x33), Pattern(5, 0x44), "za-input-mod-64=" + residueClass(194+L)
		}
		return Pattern(53, 0x33), Pattern(L, 0x44), "e-input-mod-64=" + residueClass(32+L)
	}
	libDigestAndSig := func(uid, msg []byte) (e, sig []byte, err error) {
		e, err = sm2.CalculateSM2Hash(pub, msg, uid)
		if err != nil {
			return
		}
		sig, err = sm2.SignASN1(engine.NewScriptReader(midBlocks()...), priv, msg, sm2.NewSM2SignerOption(true, uid))
		return
	}
	for li, L := range lens {
		uid, msg, cls := mk(L)
		v := newVctx(key.Pub, uid, msg)
		r, s, _ := refSign(c, g, key.D, v.e, midBlocks())
		refSig := ecref.EncodeDERSig(r, s)
		results[li] = res{v.e, refSig, cls}
		t.Nontrivial(fmt.Sprintf("sweep/%s/%d", dim, L))
		var e, sig []byte
		var err error
		if t.Guard("sweep/"+dim, func() { e, sig, err = libDigestAndSig(uid, msg) }) {
			continue
		}
		t.Eval(2)
		if err != nil {
			t.Fail("sweep/"+dim+"/error/"+cls, "%s length %d: %v", dim, L, err)
			continue
		}
		if !bytes.Equal(e, v.e) {
			t.Fail("sweep/"+dim+"/digest-mismatch/"+cls, "CalculateSM2Hash(uidLen=%d,msgLen=%d) = %x, reference %x", len(uid), len(msg), e, v.e)
		}
		if !bytes.Equal(sig, refSig) {
			t.Fail("sweep/"+dim+"/signature-differs-from-reference/"+cls, "SignASN1(uidLen=%d,msgLen=%d) = %x, reference %x", len(uid), len(msg), sig, refSig)
		}
		// streaming hasher on the same lengths (literal UID), written in two pieces
		if hh, err := sm2.NewHashWithUserID(pub, effUID(uid)); err != nil {
			t.Fail("sweep/"+dim+"/hasher-error/"+cls, "NewHashWithUserID(uidLen=%d): %v", len(uid), err)
		} else {
			hh.Write(msg[:len(msg)/3])
			hh.Write(msg[len(msg)/3:])
			t.Eval(1)
			if d := hh.Sum(nil); !bytes.Equal(d, v.e) {
				t.Fail("sweep/"+dim+"/hasher-mismatch/"+cls, "NewHashWithUserID(uidLen=%d) over %d bytes = %x, reference %x", len(uid), len(msg), d, v.e)
			}
		}
		v.check(t, "sweep/"+dim+"/"+cls, fmt.Sprintf("honest signature, uidLen=%d msgLen=%d", len(uid), len(msg)), refSig)
	}
	// the same lengths downwards on the same key object and process state
	for li := len(lens) - 1; li >= 0; li-- {
		uid, msg, cls := mk(lens[li])
		var e, sig []byte
		var err error
		if t.Guard("sweep/"+dim+"/descending", func() { e, sig, err = libDigestAndSig(uid, msg) }) {
			continue
		}
		t.Eval(2)
		if err != nil || !bytes.Equal(e, results[li].e) || !bytes.Equal(sig, results[li].sig) {
			t.Fail("sweep/"+dim+"/descending-pass-differs/"+cls, "%s length %d on the way down: digest %x signature %x (%v); reference %x / %x", dim, lens[li], e, sig, err, results[li].e, results[li].sig)
		} else {
			t.Outcome("sweep-descending=reference")
		}
	}
}

func sweepLens(dim string, quick bool) []int {
	set := map[int]bool{}
	top := 200
	if !quick {
		top = 600
	}
	for i := 0; i <= top; i++ {
		set[i] = true
	}
	if dim == "uid" {
		for _, v := range []int{255, 256, 257, 511, 512, 4095, 4096, 4097, 8190, 8191} {
			set[v] = true
		}
	} else {
		ks := []int{8, 9, 16, 17}
		if !quick {
			ks = append(ks, 32, 33, 64, 65)
		}
		for _, k := range ks {
			for _, o := range []int{-10, -9, -8, -1, 0, 1} {
				set[64*k-32+o] = true
			}
		}
	}
	var out []int
	for v := range set {
		out = append(out, v)
	}
	sort.Ints(out)
	return out
}

// ---------------------------------------------------------------------------------------------
// W6: the digest as an input dimension.

type dsign struct {
	name string
	f    func(rd *engine.ScriptReader, p *sm2.PrivateKey, e []byte) ([]byte, error)
}

var dsigns = []dsign{
	{"PrivateKey.Sign(digest,nil)", func(rd *engine.ScriptReader, p *sm2.PrivateKey, e []byte) ([]byte, error) { return p.Sign(rd, e, nil) }},
	{"PrivateKey.Sign(digest,crypto.SHA256)", func(rd *engine.ScriptReader, p *sm2.PrivateKey, e []byte) ([]byte, error) {
		return p.Sign(rd, e, crypto.SHA256)
	}},
	{"PrivateKey.Sign(digest,crypto.Hash(0))", func(rd *engine.ScriptReader, p *sm2.PrivateKey, e []byte) ([]byte, error) {
		return p.Sign(rd, e, crypto.Hash(0))
	}},
	{"PrivateKey.Sign(digest,&SM2SignerOption{})", func(rd *engine.ScriptReader, p *sm2.PrivateKey, e []byte) ([]byte, error) {
		return p.Sign(rd, e, &sm2.SM2SignerOption{})
	}},
	{"PrivateKey.Sign(digest,SM2SignerOption(false,nil))", func(rd *engine.ScriptReader, p *sm2.PrivateKey, e []byte) ([]byte, error) {
		return p.Sign(rd, e, sm2.NewSM2SignerOption(false, nil))
	}},
	{"sm2.SignASN1(digest,nil)", func(rd *engine.ScriptReader, p *sm2.PrivateKey, e []byte) ([]byte, error) {
		return sm2.SignASN1(rd, p, e, nil)
	}},
	{"sm2.Sign", func(rd *engine.ScriptReader, p *sm2.PrivateKey, e []byte) ([]byte, error) {
		return rsToDER(sm2.Sign(rd, &p.PrivateKey, e))
	}},
}

func digestValues(c *ecref.Curve) []struct {
	name string
	v    *big.Int
} {
	one := big.NewInt(1)
	two256 := new(big.Int).Lsh(one, 256)
	return []struct {
		name string
		v    *big.Int
	}{
		{"0", big.NewInt(0)}, {"1", one}, {"n-1", new(big.Int).Sub(c.N, one)}, {"n", c.N}, {"n+1", new(big.Int).Add(c.N, one)},
		{"p-1", new(big.Int).Sub(c.P, one)}, {"p", c.P}, {"2^256-1", new(big.Int).Sub(two256, one)}, {"2^255", new(big.Int).Lsh(one, 255)},
		{"2^248-1", new(big.Int).Sub(new(big.Int).Lsh(one, 248), one)}, {"n+5", new(big.Int).Add(c.N, big.NewInt(5))},
	}
}

func digestCase(t *engine.T, key Key) {
	c := ecref.SM2()
	g := GTable()
	priv := LibPriv(key.D, key.Pub)
	pub := LibPub(key.Pub)
	nonces := [][][]byte{midBlocks(), {ecref.Bytes32(big.NewInt(1)), midBlocks()[1]}, {ecref.Bytes32(new(big.Int).Sub(c.N, big.NewInt(1))), midBlocks()[1]}}
	// (a) boundary values of a 32-byte digest
	for _, dv := range digestValues(c) {
		ev := dv.v
		eb := ecref.Bytes32(ev)
		v := digestCtx(key, ev)
		for ni, nb := range nonces {
			r, s, _ := refSign(c, g, key.D, eb, nb)
			want := ecref.EncodeDERSig(r, s)
			t.Nontrivial(fmt.Sprintf("digest-value/%s/%s/%d", key.Name, dv.name, ni))
			for _, ds := range dsigns {
				e2 := append([]byte(nil), eb...)
				var sig []byte
				var err error
				if t.Guard("digest-value/"+ds.name, func() { sig, err = ds.f(engine.NewScriptReader(nb...), priv, e2) }) {
					continue
				}
				t.Eval(1)
				if err != nil || !bytes.Equal(sig, want) {
					t.Fail("digest-value/"+ds.name+"/signature-differs-from-reference/e="+dv.name, "%s(key %s, e=%x, nonce #%d) = %x, %v; reference %x", ds.name, key.Name, eb, ni, sig, err, want)
				} else {
					t.Outcome("digest-value-signature=reference")
				}
				if !bytes.Equal(e2, eb) {
					t.Fail("integrity/sign/"+ds.name+"/digest-modified", "%s changed the digest it was given: %x -> %x", ds.name, eb, e2)
				}
			}
			v.check(t, "digest-value/e="+dv.name, "honest signature on a boundary digest", want)
			// a signature for the residue of e is a signature for e (and the other way round): the equation is mod n
			if ev.Cmp(c.N) >= 0 {
				digestCtx(key, new(big.Int).Mod(ev, c.N)).check(t, "digest-value/congruent-digest", "signature for e offered under e mod n", want)
			}
			digestCtx(key, new(big.Int).Xor(ev, big.NewInt(1))).check(t, "digest-value/other-digest", "signature for e offered under e xor 1", want)
		}
	}
	// (b) other digest lengths. Longer: SignASN1 documents truncation to the order size (reference on the first 32
	// bytes). Shorter: the standard defines nothing; required is only that the library verifies what it signed, on
	// the sm2 digest-taking entry points, and leaves the digest alone. (smx509 CheckSignatureWithDigest refuses any
	// digest that is not 32 bytes long, which the statement does not forbid: not asked here.)
	for _, L := range []int{-1, 0, 1, 16, 31, 33, 48, 64, 100} {
		var D []byte
		if L >= 0 {
			D = Pattern(L, 0x9c)
		}
		cl := "short"
		if L > 32 {
			cl = "long"
		}
		for _, lay := range []string{"exact-capacity", "record"} {
			var dg, whole []byte
			if lay == "record" {
				var vw [][]byte
				vw, whole = record(96, D)
				dg = vw[0]
			} else if D != nil {
				dg = exact(D)[0]
			}
			snap := append([]byte(nil), whole...)
			for _, ds := range dsigns {
				var sig []byte
				var err error
				if t.Guard("digest-length/"+cl+"/"+ds.name, func() { sig, err = ds.f(engine.NewScriptReader(midBlocks()...), priv, dg) }) {
					continue
				}
				t.Eval(1)
				t.Nontrivial(fmt.Sprintf("digest-length/%s/%d/%s/%s", key.Name, L, lay, ds.name))
				if err != nil {
					t.Fail("digest-length/"+cl+"/"+ds.name+"/error", "%s on a %d-byte digest (key %s): %v", ds.name, L, key.Name, err)
					continue
				}
				if L > 32 {
					r, s, _ := refSign(c, g, key.D, D[:32], midBlocks())
					if want := ecref.EncodeDERSig(r, s); !bytes.Equal(sig, want) {
						t.Fail("digest-length/long/"+ds.name+"/not-truncated-to-order-size", "%s on a %d-byte digest (key %s) = %x; documented truncation to the leftmost 32 bytes gives %x", ds.name, L, key.Name, sig, want)
					}
				}
				if L >= 0 && L < 32 {
					// a digest is a byte string and GB/T 32918 converts byte strings to integers big-endian (part 1, 4.2.2):
					// e is the integer the bytes spell, i.e. the same e as the digest left-padded with zero bytes to 32
					r, s, _ := refSign(c, g, key.D, D, midBlocks())
					want := ecref.EncodeDERSig(r, s)
					if !bytes.Equal(sig, want) {
						t.Fail("digest-length/short/"+ds.name+"/e-is-not-the-integer-of-the-digest", "%s on a %d-byte digest (key %s) = %x; with e = the big-endian integer of the digest the equation gives %x", ds.name, L, key.Name, sig, want)
					}
					padded := append(make([]byte, 32-L), D...)
					if okp := sm2.VerifyASN1(pub, padded, want); !okp {
						t.Fail("digest-length/short/sm2.VerifyASN1/rejects-zero-extended-digest", "reference signature over the %d-byte digest left-padded to 32 bytes (same integer e) is rejected (key %s)", L, key.Name)
					}
					if okp := sm2.VerifyASN1(pub, dg, want); !okp {
						t.Fail("digest-length/short/sm2.VerifyASN1/rejects-reference-signature", "reference signature with e = integer of the %d-byte digest is rejected (key %s)", L, key.Name)
					}
					if L > 0 && D[L-1] != 0 {
						if okp := sm2.VerifyASN1(pub, append(append([]byte{}, D...), make([]byte, 32-L)...), want); okp {
							t.Fail("digest-length/short/sm2.VerifyASN1/accepts-under-right-padded-digest", "signature over a %d-byte digest is accepted under the digest right-padded with zeros (a different integer; key %s)", L, key.Name)
						}
					}
					t.Eval(3)
				}
				lr, ls, pok := ecref.ParseStrictDERSig(sig)
				if !pok || lr.Sign() <= 0 || ls.Sign() <= 0 || lr.Cmp(c.N) >= 0 || ls.Cmp(c.N) >= 0 {
					t.Fail("digest-length/"+cl+"/"+ds.name+"/malformed-signature", "%s on a %d-byte digest returned %x", ds.name, L, sig)
					continue
				}
				for _, ve := range []struct {
					name string
					f    func() bool
				}{
					{"sm2.VerifyASN1", func() bool { return sm2.VerifyASN1(pub, dg, sig) }},
					{"sm2.Verify", func() bool { return sm2.Verify(pub, dg, lr, ls) }},
				} {
					var got bool
					if t.Guard("digest-length/"+cl+"/"+ve.name, func() { got = ve.f() }) {
						continue
					}
					t.Eval(1)
					if !got {
						t.Fail("digest-length/"+cl+"/"+ve.name+"/rejects-own-signature", "%s rejects the signature %s made over the same %d-byte digest (key %s)", ve.name, ds.name, L, key.Name)
					} else {
						t.Outcome("digest-length-own-signature-accepted")
					}
				}
				if !bytes.Equal(dg, D) || !bytes.Equal(whole, snap) {
					t.Fail("integrity/sign/"+ds.name+"/digest-modified", "a %d-byte digest (or the memory behind it) was modified by signing/verifying", L)
				}
			}
		}
	}
	if key.Name == "d=chain0" {
		t.Sample(map[string]any{"part": "digest dimension", "values": len(digestValues(c)), "lengths": []int{0, 1, 16, 31, 33, 48, 64, 100}, "sign_entry_points": len(dsigns)})
	}
}

// ---------------------------------------------------------------------------------------------
// W7: histories of the streaming hashers (Write / Sum / Reset in every order up to depth 4).

type hasherKind struct {
	name string
	uid  []byte
	mk   func(pub *ecdsa.PublicKey, uid []byte) (hash.Hash, error)
	sum  func(b []byte) []byte
	sm3  bool
}

func sm3Of(b []byte) []byte    { h := sm3ref.Sum(b); return h[:] }
func sha256Of(b []byte) []byte { h := sha256.Sum256(b); return h[:] }

func hasherKinds() []hasherKind {
	return []hasherKind{
		{"sm2.NewHash", ecref.DefaultUID, func(pub *ecdsa.PublicKey, uid []byte) (hash.Hash, error) { return sm2.NewHash(pub) }, sm3Of, true},
		{"sm2.NewHashWithUserID", Pattern(53, 0x2b), func(pub *ecdsa.PublicKey, uid []byte) (hash.Hash, error) {
			return sm2.NewHashWithUserID(pub, uid)
		}, sm3Of, true},
		{"sm2.NewHashWithUserID(empty)", []byte{}, func(pub *ecdsa.PublicKey, uid []byte) (hash.Hash, error) {
			return sm2.NewHashWithUserID(pub, uid)
		}, sm3Of, true},
		{"sm2.NewHashWithHashAndUserID(sm3)", Pattern(7, 0x2c), func(pub *ecdsa.PublicKey, uid []byte) (hash.Hash, error) {
			return sm2.NewHashWithHashAndUserID(pub, sm3.New, uid)
		}, sm3Of, true},
		{"sm2.NewHashWithHashAndUserID(sha256)", Pattern(61, 0x2d), func(pub *ecdsa.PublicKey, uid []byte) (hash.Hash, error) {
			return sm2.NewHashWithHashAndUserID(pub, sha256.New, uid)
		}, sha256Of, false},
	}
}

var hasherOps = []string{"Write(23)", "Write(73)", "Write(empty)", "Sum(nil)", "Sum(prefix,capacity classes)", "Reset"}

func hasherCase(t *engine.T, hk hasherKind) {
	c := ecref.SM2()
	key := Keys()[7]
	pub := LibPub(key.Pub)
	za := c.ZA(hk.uid, key.Pub)
	wa, wb := Pattern(23, 0x61), Pattern(73, 0x62)
	memo := map[string][]byte{}
	ref := func(data []byte) []byte {
		if d, ok := memo[string(data)]; ok {
			return d
		}
		d := hk.sum(append(append([]byte(nil), za...), data...))
		memo[string(data)] = d
		return d
	}
	depth := 4
	if !t.Quick() {
		depth = 5
	}
	nseq := 0
	var seq []int
	var rec func()
	run := func() {
		var h hash.Hash
		var err error
		if t.Guard("hasher/"+hk.name, func() { h, err = hk.mk(pub, hk.uid) }) {
			return
		}
		if err != nil {
			t.Fail("hasher/"+hk.name+"/constructor-error", "%v", err)
			return
		}
		var data []byte
		for pos, op := range seq {
			bad := ""
			detail := ""
			if t.Guard("hasher/"+hk.name, func() {
				switch op {
				case 0:
					h.Write(wa)
					data = append(data, wa...)
				case 1:
					h.Write(wb)
					data = append(data, wb...)
				case 2:
					h.Write(nil)
				case 3:
					d, w := h.Sum(nil), ref(data)
					if !bytes.Equal(d, w) {
						bad, detail = "digest-mismatch", fmt.Sprintf("Sum(nil) = %x, reference %x over %d bytes", d, w, len(data))
					}
					scribble(d) // the result belongs to the caller
				case 4:
					w := ref(data)
					for _, cp := range [][2]int{{0, 0}, {5, 0}, {5, 31}, {5, 32}, {5, 33}, {5, 100}} {
						buf := make([]byte, cp[0]+cp[1])
						for i := range buf {
							buf[i] = 0xB7 ^ byte(i)
						}
						prefix := append([]byte(nil), buf[:cp[0]]...)
						out := h.Sum(buf[:cp[0]])
						if len(out) != cp[0]+len(w) || !bytes.Equal(out[:cp[0]], prefix) || !bytes.Equal(out[cp[0]:], w) || !bytes.Equal(buf[:cp[0]], prefix) {
							bad, detail = "sum-append-wrong", fmt.Sprintf("Sum(b) with len(b)=%d spare=%d = %x, want prefix %x || %x", cp[0], cp[1], out, prefix, w)
						}
					}
				case 5:
					h.Reset()
					data = data[:0]
				}
			}) {
				return
			}
			t.Eval(1)
			if bad != "" {
				names := make([]string, pos+1)
				for i, o := range seq[:pos+1] {
					names[i] = hasherOps[o]
				}
				t.Fail("hasher/"+hk.name+"/"+bad, "history %v: %s", names, detail)
				return
			}
		}
		t.Outcome("hasher-history-ok")
	}
	rec = func() {
		if len(seq) > 0 {
			last := seq[len(seq)-1]
			if last == 3 || last == 4 || len(seq) == depth { // only histories that end in an observation (or are maximal)
				run()
				nseq++
			}
		}
		if len(seq) == depth {
			return
		}
		for o := range hasherOps {
			seq = append(seq, o)
			rec()
			seq = seq[:len(seq)-1]
		}
	}
	rec()
	t.AddTraces(nseq)
	t.Nontrivial("hasher/" + hk.name)
	if h, err := hk.mk(pub, hk.uid); err == nil {
		wantSize, wantBlock := 32, 64
		if h.Size() != wantSize || h.BlockSize() != wantBlock {
			t.Fail("hasher/"+hk.name+"/size", "Size()=%d BlockSize()=%d", h.Size(), h.BlockSize())
		}
		// the digest of the hasher is what the message-based verification computes: sign it, verify with uid+message
		if hk.sm3 {
			h.Write(wb)
			e := h.Sum(nil)
			priv := LibPriv(key.D, key.Pub)
			sig, err := priv.Sign(engine.NewScriptReader(midBlocks()...), e, nil)
			t.Eval(2)
			if err != nil {
				t.Fail("hasher/"+hk.name+"/sign-error", "%v", err)
			} else if !sm2.VerifyASN1WithSM2(pub, hk.uid, wb, sig) && len(hk.uid) > 0 {
				t.Fail("hasher/"+hk.name+"/signature-over-hasher-digest-rejected", "a signature over the hasher's digest is rejected by VerifyASN1WithSM2 with the same UID and message")
			}
		}
	}
	// a UID one byte too long for ENTL
	if hk.name == "sm2.NewHashWithUserID" {
		if _, err := sm2.NewHashWithUserID(pub, make([]byte, 8192)); err == nil {
			t.Fail("hasher/uid>8191/no-error", "NewHashWithUserID accepted an 8192-byte UID")
		}
	}
	t.Sample(map[string]any{"part": "hasher histories", "constructor": hk.name, "depth": depth, "histories": nseq, "ops": hasherOps})
}

// ---------------------------------------------------------------------------------------------
// W8: RecoverPublicKeysFromSM2Signature — the same parser and range checks as verification. Oracle: no key is returned
// for anything that is not a strict-DER pair in [1,n-1]; every returned key satisfies the verification equation for
// (digest, r, s); the signer's key is among the keys returned for an honest signature.

type largeXInst struct {
	i    int64
	P    ecref.Point
	e    *big.Int
	r, s *big.Int
}

// largeXInstances: valid (P, e, r, s) with x([s]G+[t]P) = n+i in [n,p) (construction as in soundLargeXCase).
func largeXInstances(max int) []largeXInst {
	c := ecref.SM2()
	n := c.N
	g := GTable()
	var out []largeXInst
	for i := int64(1); len(out) < max && i < 400; i++ {
		x0 := new(big.Int).Add(n, big.NewInt(i))
		R, ok := c.LiftX(x0, uint(i&1))
		if !ok {
			continue
		}
		s := HashChain("verif/c06/largex-s", int(i)+1)
		tt := HashChain("verif/c06/largex-t", int(i)+1)
		r := new(big.Int).Mod(new(big.Int).Sub(tt, s), n)
		if r.Sign() == 0 {
			continue
		}
		P := c.Mul(new(big.Int).ModInverse(tt, n), c.Add(R, c.Neg(g.Mul(s))))
		if P.Inf {
			continue
		}
		out = append(out, largeXInst{i, P, new(big.Int).Mod(new(big.Int).Sub(r, x0), n), r, s})
	}
	return out
}

// signer != nil: the key that must be among the results; mustSucceed=false makes that conditional on the call
// returning keys at all (the function gives up when ANY candidate x-coordinate is off the curve, which the statement
// of C06 does not rule out).
func recoverOne(t *engine.T, class, desc string, e, cand []byte, signer *ecref.Point, mustSucceed bool) {
	c := ecref.SM2()
	r, s, parsed := ecref.ParseStrictDERSig(cand)
	inRange := parsed && r.Sign() > 0 && s.Sign() > 0 && r.Cmp(c.N) < 0 && s.Cmp(c.N) < 0
	e2, c2 := append([]byte(nil), e...), append([]byte(nil), cand...)
	var pubs, pubs2 []*ecdsa.PublicKey
	var err, err2 error
	if t.Guard("recover", func() {
		first, ferr := sm2.RecoverPublicKeysFromSM2Signature(e2, c2)
		// keep copies, then destroy what was returned (it belongs to the caller) and ask again
		for _, p := range first {
			if p == nil || p.X == nil || p.Y == nil {
				pubs = append(pubs, p)
				continue
			}
			pubs = append(pubs, &ecdsa.PublicKey{Curve: p.Curve, X: new(big.Int).Set(p.X), Y: new(big.Int).Set(p.Y)})
			scribbleBig(p.X)
			scribbleBig(p.Y)
		}
		err = ferr
		pubs2, err2 = sm2.RecoverPublicKeysFromSM2Signature(e2, c2)
	}) {
		return
	}
	t.Eval(2)
	t.Nontrivial(fmt.Sprintf("recover/%s/%v/%v", class, parsed, inRange))
	if !bytes.Equal(e2, e) || !bytes.Equal(c2, cand) {
		t.Fail("integrity/recover/argument-modified", "RecoverPublicKeysFromSM2Signature modified its arguments (candidate [%s])", desc)
	}
	if (err == nil) != (err2 == nil) || len(pubs) != len(pubs2) {
		t.Fail("repeat/recover/second-call-differs", "candidate [%s] %x: first call %d keys/%v, second call %d keys/%v", desc, cand, len(pubs), err, len(pubs2), err2)
	}
	if err != nil {
		t.Outcome("recover-error")
		if signer != nil && mustSucceed {
			t.Fail("recover/signer-key-missing/"+class, "RecoverPublicKeysFromSM2Signature failed on a valid signature [%s] %x, e=%x: %v", desc, cand, e, err)
		}
		return
	}
	t.Outcome("recover-keys")
	if !inRange {
		what := "not-strict-DER"
		if parsed {
			what = "out-of-range"
		}
		t.Fail("recover/keys-for-invalid-signature/"+what+"/"+class, "RecoverPublicKeysFromSM2Signature returned %d keys for candidate [%s] %x, which is not a strict DER pair in [1,n-1]", len(pubs), desc, cand)
		return
	}
	found := false
	for pi, p := range pubs {
		if p == nil || p.X == nil || p.Y == nil {
			t.Fail("recover/nil-key", "key #%d is nil (candidate [%s])", pi, desc)
			continue
		}
		pt := ecref.Point{X: p.X, Y: p.Y}
		if !c.OnCurve(pt) || !c.Verify(pt, e, r, s) {
			t.Fail("recover/returned-key-does-not-verify/"+class, "key #%d (%x,%x) returned for candidate [%s] %x, e=%x does not satisfy the verification equation", pi, p.X, p.Y, desc, cand, e)
			continue
		}
		if !sm2.VerifyASN1(p, e, cand) {
			t.Fail("verify/sm2.VerifyASN1/rejects-valid/recovered-key", "VerifyASN1 rejects candidate [%s] %x under the recovered key (%x,%x) although the equation holds", desc, cand, p.X, p.Y)
		}
		if signer != nil && pt.Equal(*signer) {
			found = true
			t.Outcome("recover-signer-found/" + class)
		}
		if pi < len(pubs2) && (pubs2[pi].X.Cmp(p.X) != 0 || pubs2[pi].Y.Cmp(p.Y) != 0) {
			t.Fail("repeat/recover/second-call-differs", "candidate [%s]: key #%d differs between two calls", desc, pi)
		}
	}
	if signer != nil && !found {
		t.Fail("recover/signer-key-missing/"+class, "the signer's key (%x,%x) is not among the %d keys recovered from the valid signature [%s] %x, e=%x", signer.X, signer.Y, len(pubs), desc, cand, e)
	}
}

func recoverCase(t *engine.T, i int) {
	tr := makeTriple(i)
	if a, _, _, _ := tr.v.refAccept(tr.sig); !a {
		t.Fail("HARNESS/seed-rejected-by-reference", "triple %d", i)
		return
	}
	recoverOne(t, "honest", "unmodified reference signature", tr.v.e, tr.sig, &tr.key.Pub, true)
	names, cands := structured(tr)
	for j := range cands {
		cl := "struct/value"
		if len(names[j]) > 4 && names[j][:4] == "enc/" {
			cl = "struct/enc"
		}
		recoverOne(t, cl, names[j], tr.v.e, cands[j], nil, false)
	}
	if i == 0 {
		t.Sample(map[string]any{"part": "public key recovery", "triple": i, "candidates": len(cands) + 1})
	}
}

func recoverLargeXCase(t *engine.T) {
	insts := largeXInstances(12)
	if len(insts) == 0 {
		t.Fail("HARNESS/largex-no-point", "no instance")
	}
	for _, in := range insts {
		P := in.P
		if !ecref.SM2().Verify(P, ecref.Bytes32(in.e), in.r, in.s) {
			t.Fail("HARNESS/largex-construction", "x0=n+%d", in.i)
			continue
		}
		recoverOne(t, "x-coordinate-in-[n,p)", fmt.Sprintf("x([s]G+[t]P) = n+%d", in.i), ecref.Bytes32(in.e), sigOf(in.r, in.s), &P, false)
	}
}

// recoverDegenerateCase: signatures anyone can construct for a given digest such that one of the two candidate points
// R = (r-e, +-y) equals [s]G, i.e. the recovered key (r+s)^-1 (R - [s]G) is the point at infinity for that candidate
// (the other candidate gives an ordinary key); and such that r+s = 0 mod n. No panic, no nil key, every returned key
// satisfies the equation.
func recoverDegenerateCase(t *engine.T) {
	c := ecref.SM2()
	n := c.N
	g := GTable()
	one := big.NewInt(1)
	es := [][]byte{ecref.Bytes32(one), ecref.Bytes32(HashChain("verif/c06/recover-e", 1)), ecref.Bytes32(new(big.Int).Sub(n, one)), make([]byte, 32)}
	for si, s := range []*big.Int{one, big.NewInt(2), big.NewInt(7), new(big.Int).Sub(n, one), new(big.Int).Sub(n, big.NewInt(2)), HashChain("verif/c06/recover-s", 1), new(big.Int).Lsh(one, 255)} {
		sg := g.Mul(s)
		if sg.Inf || sg.X.Cmp(n) >= 0 {
			continue
		}
		for ei, eb := range es {
			e := new(big.Int).SetBytes(eb)
			r := new(big.Int).Add(sg.X, e)
			r.Mod(r, n)
			if r.Sign() == 0 {
				continue
			}
			if new(big.Int).Mod(new(big.Int).Add(r, s), n).Sign() == 0 {
				continue
			}
			recoverOne(t, "degenerate/candidate-equals-[s]G", fmt.Sprintf("s#%d e#%d: r = x([s]G)+e, so one candidate R is [s]G and its key is the point at infinity", si, ei), eb, sigOf(r, s), nil, false)
		}
	}
	// r + s = 0 mod n: (r+s) has no inverse; verification rejects such pairs, recovery must return no key
	for _, r := range []*big.Int{one, big.NewInt(5), HashChain("verif/c06/recover-r", 1)} {
		s := new(big.Int).Sub(n, r)
		recoverOne(t, "degenerate/r+s=0", fmt.Sprintf("r=%x, s=n-r", r), ecref.Bytes32(big.NewInt(99)), sigOf(r, s), nil, false)
	}
}

// ---------------------------------------------------------------------------------------------
// W9: further degenerate branches of verification reachable with a chosen digest: the final addition [s]G + [t]P is a
// DOUBLING ([s]G = [t]P: s = t*d) — a valid signature that must be accepted; and the public key -G (d+1 = 0 mod n, so
// no signer exists, but the verification procedure of the standard is defined and accepts (r,s) iff e = r - x([r]G)).

func degenerate2Case(t *engine.T, ki int) {
	c := ecref.SM2()
	n := c.N
	g := GTable()
	key := Keys()[ki]
	one := big.NewInt(1)
	for _, tv := range []*big.Int{one, big.NewInt(2), big.NewInt(3), new(big.Int).Sub(n, one), HashChain("verif/c06/doubling-t", ki+1), new(big.Int).Lsh(one, 255)} {
		s := new(big.Int).Mul(tv, key.D)
		s.Mod(s, n)
		r := new(big.Int).Sub(tv, s)
		r.Mod(r, n)
		if r.Sign() == 0 || s.Sign() == 0 {
			continue
		}
		pt := g.Mul(new(big.Int).Mod(new(big.Int).Lsh(s, 1), n))
		if pt.Inf {
			continue
		}
		e := new(big.Int).Mod(new(big.Int).Sub(r, pt.X), n)
		v := digestCtx(key, e)
		sig := sigOf(r, s)
		if a, _, _, _ := v.refAccept(sig); !a {
			t.Fail("HARNESS/doubling-construction", "key %s t=%x", key.Name, tv)
			continue
		}
		v.check(t, "degenerate/sum-is-doubling", fmt.Sprintf("s=t*d, r=t-s, t=%x, e=r-x([2s]G) (key %s)", tv, key.Name), sig)
		digestCtx(key, new(big.Int).Xor(e, one)).check(t, "degenerate/sum-is-doubling/other-digest", fmt.Sprintf("t=%x, e xor 1 (key %s)", tv, key.Name), sig)
		t.Nontrivial(fmt.Sprintf("degenerate/doubling/%s/%x", key.Name, tv))
	}
	if ki != 0 {
		return
	}
	// public key -G
	negG := Key{Name: "P=-G", Pub: c.Neg(c.G())}
	for _, r := range []*big.Int{one, big.NewInt(2), HashChain("verif/c06/negG-r", 1), new(big.Int).Sub(n, one)} {
		e := new(big.Int).Mod(new(big.Int).Sub(r, g.Mul(r).X), n)
		for _, s := range []*big.Int{one, HashChain("verif/c06/negG-s", 1), new(big.Int).Sub(n, big.NewInt(2))} {
			if new(big.Int).Mod(new(big.Int).Add(r, s), n).Sign() == 0 {
				continue
			}
			v := digestCtx(negG, e)
			sig := sigOf(r, s)
			if a, _, _, _ := v.refAccept(sig); !a {
				t.Fail("HARNESS/negG-construction", "r=%x s=%x", r, s)
				continue
			}
			v.check(t, "degenerate/public-key=-G", fmt.Sprintf("P=-G, r=%x, s=%x, e=r-x([r]G)", r, s), sig)
			digestCtx(negG, new(big.Int).Xor(e, one)).check(t, "degenerate/public-key=-G/other-digest", fmt.Sprintf("P=-G, r=%x, s=%x, e xor 1", r, s), sig)
			t.Nontrivial(fmt.Sprintf("degenerate/negG/%x/%x", r, s))
		}
	}
	t.Sample(map[string]any{"part": "soundness (further degenerate branches)", "families": []string{"[s]G = [t]P (doubling)", "public key -G"}})
}

// ---------------------------------------------------------------------------------------------
// W10: the math/big path (sm2_legacy.go, NIST P-256): retry paths of signLegacy, degenerate branches of verifyLegacy
// (t = 0, infinity, doubling), digests of other lengths through hashToInt.

func legacyDigestCtx(cv elliptic.Curve, c *ecref.Curve, pubPt ecref.Point, e *big.Int) *vctx {
	pub := legacyPub(cv, pubPt)
	return &vctx{c: c, g: TableFor(c, c.G()), p: TableFor(c, pubPt), pub: pub, cert: &smx509.Certificate{PublicKey: pub}, e: ecref.Bytes32(e), digestOnly: true, memo: map[string]bool{}}
}

func legacyWidenCase(t *engine.T, cv elliptic.Curve, ki int) {
	c := NISTP256()
	n := c.N
	g := TableFor(c, c.G())
	key := legacyKeys()[ki]
	priv := legacyPriv(cv, key.D, key.Pub)
	cn := curveName(cv)
	one := big.NewInt(1)
	// retry paths
	dInv := new(big.Int).ModInverse(key.D, n)
	for ci, k1 := range []*big.Int{big.NewInt(7), legacyChain(c, "verif/c06/legacy-retry-k1", ki+1), new(big.Int).Sub(n, big.NewInt(3))} {
		x1 := g.Mul(k1).X
		for _, cause := range []struct {
			name string
			e    *big.Int
		}{
			{"s=0", new(big.Int).Mod(new(big.Int).Sub(new(big.Int).Mul(k1, dInv), x1), n)},
			{"r=0", new(big.Int).Mod(new(big.Int).Neg(x1), n)},
			{"r+k=n", new(big.Int).Mod(new(big.Int).Sub(new(big.Int).Sub(n, k1), x1), n)},
		} {
			eb := ecref.Bytes32(cause.e)
			if _, _, ok := FastSignWithK(c, g, key.D, k1, eb); ok {
				t.Fail("HARNESS/retry-construction", "legacy cause %s does not make the reference retry", cause.name)
				continue
			}
			k2 := legacyChain(c, "verif/c06/legacy-retry-k2", ki*7+ci+1)
			r2, s2, ok := FastSignWithK(c, g, key.D, k2, eb)
			if !ok {
				continue
			}
			want := ecref.EncodeDERSig(r2, s2)
			var sig []byte
			var err error
			rd := engine.NewScriptReader(ecref.Bytes32(k1), ecref.Bytes32(k2))
			if t.Guard("legacy/sign/retry", func() { sig, err = sm2.SignASN1(rd, priv, eb, nil) }) {
				continue
			}
			t.Eval(1)
			t.Nontrivial(fmt.Sprintf("legacy/sign-retry/%s/%s/%d/%s", cn, key.Name, ci, cause.name))
			if err != nil {
				t.Fail("legacy/sign/retry/"+cause.name+"/error", "%s key %s: SignASN1 on the digest that makes the first nonce hit %s: %v", cn, key.Name, cause.name, err)
			} else if !bytes.Equal(sig, want) {
				t.Fail("legacy/sign/retry/"+cause.name+"/signature-differs-from-reference-for-second-nonce", "%s key %s k1=%x (first pass: %s) k2=%x: got %x want %x", cn, key.Name, k1, cause.name, k2, sig, want)
			} else {
				t.Outcome("legacy-retry-signature=reference")
			}
		}
	}
	// degenerate branches of verifyLegacy
	for _, tv := range []*big.Int{one, big.NewInt(2), new(big.Int).Sub(n, one), legacyChain(c, "verif/c06/legacy-deg-t", ki+1)} {
		// doubling: s = t*d
		s := new(big.Int).Mod(new(big.Int).Mul(tv, key.D), n)
		r := new(big.Int).Mod(new(big.Int).Sub(tv, s), n)
		if r.Sign() != 0 && s.Sign() != 0 {
			pt := g.Mul(new(big.Int).Mod(new(big.Int).Lsh(s, 1), n))
			if !pt.Inf {
				e := new(big.Int).Mod(new(big.Int).Sub(r, pt.X), n)
				legacyDigestCtx(cv, c, key.Pub, e).check(t, "legacy/degenerate/sum-is-doubling", fmt.Sprintf("%s key %s t=%x", cn, key.Name, tv), sigOf(r, s))
				legacyDigestCtx(cv, c, key.Pub, new(big.Int).Xor(e, one)).check(t, "legacy/degenerate/sum-is-doubling/other-digest", fmt.Sprintf("%s key %s t=%x", cn, key.Name, tv), sigOf(r, s))
			}
		}
		// infinity: s = -t*d
		s = new(big.Int).Mod(new(big.Int).Neg(new(big.Int).Mul(tv, key.D)), n)
		r = new(big.Int).Mod(new(big.Int).Sub(tv, s), n)
		if r.Sign() != 0 && s.Sign() != 0 {
			for _, e := range []*big.Int{r, big.NewInt(0)} {
				legacyDigestCtx(cv, c, key.Pub, e).check(t, "legacy/degenerate/sum-at-infinity", fmt.Sprintf("%s key %s t=%x e=%x", cn, key.Name, tv, e), sigOf(r, s))
			}
		}
		// t = r + s = 0
		s = new(big.Int).Set(tv)
		r = new(big.Int).Sub(n, s)
		x := g.Mul(s).X
		for _, e := range []*big.Int{new(big.Int).Mod(new(big.Int).Sub(r, x), n), r, big.NewInt(0)} {
			legacyDigestCtx(cv, c, key.Pub, e).check(t, "legacy/degenerate/t=r+s=0", fmt.Sprintf("%s key %s s=%x e=%x", cn, key.Name, s, e), sigOf(r, s))
		}
		t.Nontrivial(fmt.Sprintf("legacy/degenerate/%s/%s/%x", cn, key.Name, tv))
	}
	// chosen small (r, s) on a crafted digest (k = s(1+d) + r d, e = r - x([k]G)): r + n and s + n still fit the byte
	// and bit length of n, so a range check by size instead of by value (or a reduction) would accept them
	{
		sh := func(k uint) *big.Int { return new(big.Int).Lsh(one, k) }
		small := []*big.Int{one, big.NewInt(2), big.NewInt(0xff), sh(64), new(big.Int).Sub(sh(128), one), sh(200), sh(223)}
		made := 0
		for _, r := range small {
			for _, s := range small {
				k := c.RecoverK(key.D, r, s)
				if k.Sign() == 0 {
					continue
				}
				e := new(big.Int).Mod(new(big.Int).Sub(r, g.Mul(k).X), n)
				if r2, s2, ok := FastSignWithK(c, g, key.D, k, ecref.Bytes32(e)); !ok || r2.Cmp(r) != 0 || s2.Cmp(s) != 0 {
					continue
				}
				made++
				rn, sn := new(big.Int).Add(r, n), new(big.Int).Add(s, n)
				if rn.BitLen() > n.BitLen() || sn.BitLen() > n.BitLen() {
					t.Fail("HARNESS/legacy-small-values-too-large", "r=%x s=%x", r, s)
				}
				v := legacyDigestCtx(cv, c, key.Pub, e)
				desc := fmt.Sprintf("%s key %s chosen r=%x s=%x", cn, key.Name, r, s)
				v.check(t, "legacy/chosen-small-r-s/honest", desc, sigOf(r, s))
				v.check(t, "legacy/chosen-small-r-s/r=n+r(same-size)", desc, sigOf(rn, s))
				v.check(t, "legacy/chosen-small-r-s/s=n+s(same-size)", desc, sigOf(r, sn))
				v.check(t, "legacy/chosen-small-r-s/both+n(same-size)", desc, sigOf(rn, sn))
				v.check(t, "legacy/chosen-small-r-s/swapped", desc, sigOf(s, r))
			}
		}
		if made < len(small)*len(small)/2 {
			t.Fail("HARNESS/legacy-chosen-small-vacuous", "only %d pairs constructed", made)
		}
		t.Nontrivial(fmt.Sprintf("legacy/chosen-small-r-s/%s/%s/%d", cn, key.Name, made))
	}
	// extreme digest x extreme abscissa of the verification point: R = [s]G + [t]P is CHOSEN (largest / smallest x on the
	// curve, so x1 lies in [n, p) or near 0), the digest is chosen, r = (e + x1) mod n, s = t - r and the public key is
	// P = t^-1 (R - [s]G). e + x1 then reaches 2n and beyond (two reductions needed), or stays below n.
	if ki == 0 {
		var Rs []ecref.Point
		for _, st := range []struct {
			x0  *big.Int
			dir int64
		}{{new(big.Int).Sub(c.P, one), -1}, {big.NewInt(0), 1}, {new(big.Int).Set(n), 1}, {new(big.Int).Sub(n, one), -1}} {
			x := new(big.Int).Set(st.x0)
			for i := 0; i < 4096; i++ {
				if q, ok := c.LiftX(x, uint(i&1)); ok {
					Rs = append(Rs, q)
					break
				}
				x.Add(x, big.NewInt(st.dir))
			}
		}
		max256 := new(big.Int).Sub(new(big.Int).Lsh(one, 256), one)
		made := 0
		for ri, R := range Rs {
			for _, e := range []*big.Int{big.NewInt(0), one, new(big.Int).Sub(n, one), n, new(big.Int).Add(n, one), new(big.Int).Sub(max256, one), max256} {
				for _, tv := range []*big.Int{one, big.NewInt(5)} {
					r := new(big.Int).Mod(new(big.Int).Add(e, R.X), n)
					s := new(big.Int).Mod(new(big.Int).Sub(tv, r), n)
					if r.Sign() == 0 || s.Sign() == 0 {
						continue
					}
					tInv := new(big.Int).ModInverse(tv, n)
					P := c.Mul(tInv, c.Add(R, c.Neg(g.Mul(s))))
					if P.Inf || !c.OnCurve(P) || !c.Verify(P, ecref.Bytes32(e), r, s) {
						t.Fail("HARNESS/legacy-extreme-construction", "R#%d e=%x t=%v", ri, e, tv)
						continue
					}
					made++
					v := legacyDigestCtx(cv, c, P, e)
					desc := fmt.Sprintf("%s constructed key, x1=%x e=%x t=%v (e+x1 = %d*n + ...)", cn, R.X, e, tv, new(big.Int).Div(new(big.Int).Add(e, R.X), n))
					v.check(t, "legacy/extreme-e-x1/valid", desc, sigOf(r, s))
					v.check(t, "legacy/extreme-e-x1/r+1", desc, sigOf(new(big.Int).Add(r, one), s))
					legacyDigestCtx(cv, c, P, new(big.Int).Xor(e, one)).check(t, "legacy/extreme-e-x1/other-digest", desc, sigOf(r, s))
				}
			}
		}
		if made < 20 {
			t.Fail("HARNESS/legacy-extreme-vacuous", "only %d signatures constructed", made)
		}
		t.Nontrivial(fmt.Sprintf("legacy/extreme-e-x1/%s/%d", cn, made))
	}
	// digest values and lengths
	pub := legacyPub(cv, key.Pub)
	for _, ev := range []*big.Int{big.NewInt(0), new(big.Int).Sub(n, one), n, new(big.Int).Add(n, big.NewInt(5)), new(big.Int).Sub(new(big.Int).Lsh(one, 256), one)} {
		eb := ecref.Bytes32(ev)
		r, s, _ := refSign(c, g, key.D, eb, [][]byte{ecref.Bytes32(legacyChain(c, "verif/c06/legacy-mid", 1))})
		want := ecref.EncodeDERSig(r, s)
		sig, err := sm2.SignASN1(engine.NewScriptReader(ecref.Bytes32(legacyChain(c, "verif/c06/legacy-mid", 1))), priv, eb, nil)
		t.Eval(1)
		if err != nil || !bytes.Equal(sig, want) {
			t.Fail("legacy/digest-value/signature-differs-from-reference", "%s key %s e=%x: %x, %v; reference %x", cn, key.Name, eb, sig, err, want)
		}
		legacyDigestCtx(cv, c, key.Pub, ev).check(t, "legacy/digest-value", fmt.Sprintf("%s key %s e=%x", cn, key.Name, eb), want)
	}
	for _, L := range []int{0, 1, 31, 33, 64} {
		D := Pattern(L, 0x9d)
		sig, err := sm2.SignASN1(engine.NewScriptReader(ecref.Bytes32(legacyChain(c, "verif/c06/legacy-mid", 1))), priv, D, nil)
		t.Eval(2)
		t.Nontrivial(fmt.Sprintf("legacy/digest-length/%s/%d", cn, L))
		if err != nil {
			t.Fail("legacy/digest-length/error", "%s key %s, %d-byte digest: %v", cn, key.Name, L, err)
			continue
		}
		if L > 32 {
			r, s, _ := refSign(c, g, key.D, D[:32], [][]byte{ecref.Bytes32(legacyChain(c, "verif/c06/legacy-mid", 1))})
			if want := ecref.EncodeDERSig(r, s); !bytes.Equal(sig, want) {
				t.Fail("legacy/digest-length/long/not-truncated-to-order-size", "%s key %s, %d-byte digest: %x, documented truncation gives %x", cn, key.Name, L, sig, want)
			}
		}
		if L < 32 {
			r, s, _ := refSign(c, g, key.D, D, [][]byte{ecref.Bytes32(legacyChain(c, "verif/c06/legacy-mid", 1))})
			if want := ecref.EncodeDERSig(r, s); !bytes.Equal(sig, want) {
				t.Fail("legacy/digest-length/short/e-is-not-the-integer-of-the-digest", "%s key %s, %d-byte digest: %x, with e = the big-endian integer of the digest the equation gives %x", cn, key.Name, L, sig, want)
			}
		}
		if !sm2.VerifyASN1(pub, D, sig) {
			t.Fail("legacy/digest-length/rejects-own-signature", "%s key %s: VerifyASN1 rejects the signature made over the same %d-byte digest", cn, key.Name, L)
		}
		if !bytes.Equal(D, Pattern(L, 0x9d)) {
			t.Fail("legacy/digest-length/digest-modified", "%d-byte digest modified", L)
		}
	}
}

// ---------------------------------------------------------------------------------------------
// W11: the other standard curves that reach sm2_legacy.go. P-384 and P-521 have an order wider than the 256-bit
// digest, so GB/T 32918.2 applies literally (e is the whole digest); field elements are 48 / 66 bytes in ZA; the nonce of
// P-521 has 7 excess bits. Oracle: every signature satisfies the reference equation (generic affine arithmetic) and
// is accepted; a small set of altered pairs is accepted iff the reference accepts. (How the library maps the random
// stream to k is not compared here.) P-224 is not enumerated: its order is narrower than the digest and the standard
// does not define a truncation.

func zaWide(c *ecref.Curve, byteLen int, uid []byte, pub ecref.Point) []byte {
	m := []byte{byte(len(uid) * 8 >> 8), byte(len(uid) * 8)}
	m = append(m, uid...)
	for _, v := range []*big.Int{c.A, c.B, c.Gx, c.Gy, pub.X, pub.Y} {
		m = append(m, v.FillBytes(make([]byte, byteLen))...)
	}
	return sm3Of(m)
}

func otherCurveCase(t *engine.T, cv elliptic.Curve) {
	p := cv.Params()
	c := &ecref.Curve{P: p.P, A: new(big.Int).Sub(p.P, big.NewInt(3)), B: p.B, N: p.N, Gx: p.Gx, Gy: p.Gy}
	byteLen := (p.BitSize + 7) / 8
	if !c.OnCurve(c.G()) || !c.BaseMul(c.N).Inf {
		t.Fail("HARNESS/other-curve-parameters", "%s", p.Name)
		return
	}
	one := big.NewInt(1)
	ds := []*big.Int{one, new(big.Int).Sub(c.N, big.NewInt(2))}
	{
		// a full-width scalar from the SM3 chain
		var b []byte
		for i := 1; len(b) < byteLen+8; i++ {
			b = append(b, ecref.Bytes32(HashChain("verif/c06/other-curve-d/"+p.Name, i))...)
		}
		v := new(big.Int).SetBytes(b[:byteLen+8])
		v.Mod(v, new(big.Int).Sub(c.N, big.NewInt(2)))
		ds = append(ds, v.Add(v, one))
	}
	if t.Quick() {
		ds = ds[1:]
	}
	for di, d := range ds {
		pubPt := c.BaseMul(d)
		pub := &ecdsa.PublicKey{Curve: cv, X: new(big.Int).Set(pubPt.X), Y: new(big.Int).Set(pubPt.Y)}
		priv := &sm2.PrivateKey{PrivateKey: ecdsa.PrivateKey{PublicKey: *pub, D: new(big.Int).Set(d)}}
		for _, sh := range []struct{ ul, ml int }{{0, 0}, {16, 33}, {53, 100}} {
			uid, msg := Pattern(sh.ul, 0x35), Pattern(sh.ml, 0x46)
			e := sm3Of(append(zaWide(c, byteLen, effUID(uid), pubPt), msg...))
			if h, err := sm2.CalculateSM2Hash(pub, msg, uid); err != nil || !bytes.Equal(h, e) {
				t.Fail("legacy/other-curve/digest-mismatch", "%s CalculateSM2Hash(uidLen=%d,msgLen=%d) = %x, %v; reference %x", p.Name, sh.ul, sh.ml, h, err, e)
				continue
			}
			for si, sf := range []func() ([]byte, error){
				func() ([]byte, error) {
					return priv.Sign(&engine.DetReader{Lane: byte(di*16 + sh.ul)}, msg, sm2.NewSM2SignerOption(true, uid))
				},
				func() ([]byte, error) { return priv.Sign(&engine.DetReader{Lane: byte(di*16 + sh.ul + 1)}, e, nil) },
			} {
				var sig []byte
				var err error
				if t.Guard("legacy/other-curve/sign", func() { sig, err = sf() }) {
					continue
				}
				t.Eval(1)
				t.Nontrivial(fmt.Sprintf("legacy/other-curve/%s/%d/%d/%d/%d", p.Name, di, sh.ul, sh.ml, si))
				if err != nil {
					t.Fail("legacy/other-curve/sign-error", "%s d#%d uidLen=%d msgLen=%d: %v", p.Name, di, sh.ul, sh.ml, err)
					continue
				}
				r, s, ok := ecref.ParseStrictDERSig(sig)
				if !ok || !c.Verify(pubPt, e, r, s) {
					t.Fail("legacy/other-curve/signature-fails-reference-equation", "%s d#%d uidLen=%d msgLen=%d: %x (strict DER ok=%v)", p.Name, di, sh.ul, sh.ml, sig, ok)
					continue
				}
				t.Outcome("other-curve-signature-verifies")
				cands := []struct {
					name string
					r, s *big.Int
				}{
					{"honest", r, s}, {"r+1", new(big.Int).Add(r, one), s}, {"s+1", r, new(big.Int).Add(s, one)}, {"swap", s, r},
					{"r=n", c.N, s}, {"s=n", r, c.N}, {"r+n", new(big.Int).Add(r, c.N), s}, {"s+n", r, new(big.Int).Add(s, c.N)}, {"r=0", big.NewInt(0), s}, {"s=0", r, big.NewInt(0)},
					{"-r", new(big.Int).Neg(r), s}, {"n-s", r, new(big.Int).Sub(c.N, s)},
				}
				if si == 1 && t.Quick() {
					cands = cands[:2]
				}
				for _, cd := range cands {
					want := c.Verify(pubPt, e, cd.r, cd.s)
					cand := sigOf(cd.r, cd.s)
					for _, ve := range []struct {
						name string
						f    func() bool
					}{
						{"sm2.VerifyASN1", func() bool { return sm2.VerifyASN1(pub, e, cand) }},
						{"sm2.VerifyASN1WithSM2", func() bool { return sm2.VerifyASN1WithSM2(pub, uid, msg, cand) }},
						{"sm2.Verify", func() bool { return sm2.Verify(pub, e, cd.r, cd.s) }},
					} {
						var got bool
						if t.Guard("legacy/other-curve/"+ve.name, func() { got = ve.f() }) {
							continue
						}
						t.Eval(1)
						if got != want {
							dir := "accepts-invalid"
							if want {
								dir = "rejects-valid"
							}
							t.Fail("legacy/other-curve/verify/"+ve.name+"/"+dir, "%s: %s = %v, reference %v for (%s) r=%x s=%x e=%x", p.Name, ve.name, got, want, cd.name, cd.r, cd.s, e)
						}
					}
				}
			}
		}
	}
	t.Sample(map[string]any{"part": "legacy path on another standard curve", "curve": p.Name, "scalars": len(ds)})
}

// ---------------------------------------------------------------------------------------------

func runWiden2(c *engine.Ctx) {
	for _, dim := range []string{"uid", "msg"} {
		c.Case("widen/recover-public-keys/degenerate", recoverDegenerateCase)
		lens := sweepLens(dim, c.Quick())
		for from := 0; from < len(lens); from += 24 {
			to := from + 24
			if to > len(lens) {
				to = len(lens)
			}
			dim, part := dim, lens[from:to]
			c.Case(fmt.Sprintf("widen/sweep/%s/len=%d..%d", dim, part[0], part[len(part)-1]), func(t *engine.T) { sweepCase(t, dim, part) })
		}
	}
	ks := Keys()
	dk := []int{0, 2, 3, 4, 5, 12, 13}
	if !c.Quick() {
		dk = dk[:0]
		for i := range ks {
			dk = append(dk, i)
		}
	}
	for _, i := range dk {
		if i >= len(ks) {
			continue
		}
		key := ks[i]
		c.Case("widen/digest-values+lengths/"+key.Name, func(t *engine.T) { digestCase(t, key) })
	}
	for _, hk := range hasherKinds() {
		hk := hk
		c.Case("widen/hasher-histories/"+hk.name, func(t *engine.T) { hasherCase(t, hk) })
	}
	rt := []int{0, 1, 2, 3, 4, 5, 6, 7, 8, 9, 10, 11}
	for _, i := range rt {
		i := i
		c.Case(fmt.Sprintf("widen/recover-public-keys/triple=%d", i), func(t *engine.T) { recoverCase(t, i) })
	}
	c.Case("widen/recover-public-keys/x-coordinate-in-[n,p)", recoverLargeXCase)
	for ki := range ks {
		ki := ki
		c.Case(fmt.Sprintf("widen/degenerate-branches-2/key#%d", ki), func(t *engine.T) { degenerate2Case(t, ki) })
	}
	for ki := range legacyKeys() {
		ki := ki
		c.Case(fmt.Sprintf("widen/legacy/retry+degenerate+digests/key#%d", ki), func(t *engine.T) {
			for _, cv := range legacyCurves(t) {
				legacyWidenCase(t, cv, ki)
			}
		})
	}
	for _, cv := range []elliptic.Curve{elliptic.P384(), elliptic.P521()} {
		cv := cv
		c.Case("widen/legacy/other-curve/"+cv.Params().Name, func(t *engine.T) { otherCurveCase(t, cv) })
	}
}
