package c06

// Widening of the C06 alphabet (part 3): failing calls followed by good ones on one key object, public keys with
// boundary coordinates (valid signatures constructed on a chosen digest, no discrete logarithm needed), boundary
// values of r and s produced BY the signing path (chosen digest + scripted nonce), aliased arguments.

import (
	"bytes"
	"crypto/ecdsa"
	"fmt"
	"math/big"

	"github.com/emmansun/gmsm/sm2"

	"verif/engine"
	"verif/ref/ecref"
)

// ---------------------------------------------------------------------------------------------
// W12: a failing call followed by a good one (and the other way round) on ONE key object / public key object.

func errorThenGoodCase(t *engine.T, key Key) {
	c := ecref.SM2()
	g := GTable()
	priv := LibPriv(key.D, key.Pub)
	pub := LibPub(key.Pub)
	msg := []byte("failing call, then a good one")
	uid := Pattern(20, 0x17)
	long := make([]byte, 8192)
	e := c.Digest(uid, key.Pub, msg)
	dig := Pattern(32, 0x18)
	wantSig := func(e []byte) []byte {
		r, s, _ := refSign(c, g, key.D, e, midBlocks())
		return ecref.EncodeDERSig(r, s)
	}
	wantMsg, wantDig := wantSig(e), wantSig(dig)
	type step struct {
		name string
		fail bool
		f    func() ([]byte, error)
		want []byte
	}
	faulty := func(ans int) *engine.ScriptReader {
		rd := engine.NewScriptReader(midBlocks()...)
		rd.Fault = map[int]int{0: ans}
		return rd
	}
	good1 := step{"Sign(msg,uid)", false, func() ([]byte, error) {
		return priv.Sign(engine.NewScriptReader(midBlocks()...), msg, sm2.NewSM2SignerOption(true, uid))
	}, wantMsg}
	good2 := step{"Sign(digest,nil)", false, func() ([]byte, error) { return priv.Sign(engine.NewScriptReader(midBlocks()...), dig, nil) }, wantDig}
	bads := []step{
		{"Sign(msg,8192-byte uid)", true, func() ([]byte, error) {
			return priv.Sign(engine.NewScriptReader(midBlocks()...), msg, sm2.NewSM2SignerOption(true, long))
		}, nil},
		{"SignWithSM2(8192-byte uid)", true, func() ([]byte, error) { return priv.SignWithSM2(engine.NewScriptReader(midBlocks()...), long, msg) }, nil},
		{"Sign(reader fails)", true, func() ([]byte, error) { return priv.Sign(faulty(engine.AnsErr), dig, nil) }, nil},
		{"Sign(reader at EOF)", true, func() ([]byte, error) { return priv.Sign(faulty(engine.AnsEOF), msg, sm2.DefaultSM2SignerOpts) }, nil},
		{"Sign(reader ends inside the nonce)", true, func() ([]byte, error) { return priv.Sign(faulty(engine.AnsShortEOF), dig, nil) }, nil},
		// a public key whose coordinate does not fit the field size makes CalculateZA panic (documented); the caller
		// recovers - whatever the library keeps behind ZA (pooled hash state) must not carry the interrupted call over
		{"CalculateZA(33-byte coordinate: documented panic, recovered)", true, func() (out []byte, err error) {
			defer func() {
				if r := recover(); r != nil {
					out, err = nil, fmt.Errorf("recovered: %v", r)
				}
			}()
			bad := &ecdsa.PublicKey{Curve: sm2.P256(), X: new(big.Int).Lsh(big.NewInt(1), 260), Y: big.NewInt(1)}
			if _, e := sm2.CalculateZA(bad, uid); e != nil {
				return nil, e
			}
			return nil, fmt.Errorf("accepted (no panic, no error): nothing to recover from")
		}, nil},
	}
	goods := []step{good1, good2}
	runStep := func(hist string, st step) bool {
		var sig []byte
		var err error
		if t.Guard("hist/error-then-good", func() { sig, err = st.f() }) {
			return false
		}
		t.Eval(1)
		if st.fail {
			if err == nil {
				t.Fail("hist/error-then-good/failing-call-returned-signature", "history %s: %s returned %x without error", hist, st.name, sig)
				return false
			}
			t.Outcome("error-then-good/error")
			return true
		}
		if err != nil || !bytes.Equal(sig, st.want) {
			t.Fail("hist/error-then-good/good-call-after-failure-wrong", "history %s: %s = %x, %v; reference %x", hist, st.name, sig, err, st.want)
			return false
		}
		t.Outcome("error-then-good/signature=reference")
		return true
	}
	// every failing call first on a cold object, then between good calls on the warm one
	for _, b := range bads {
		for _, cold := range []bool{true, false} {
			if cold {
				priv = LibPriv(key.D, key.Pub)
			}
			for _, gd := range goods {
				hist := b.name + ";" + gd.name
				t.Nontrivial(fmt.Sprintf("error-then-good/%v/%s", cold, hist))
				if !runStep(hist, b) || !runStep(hist, gd) || !runStep(hist, b) || !runStep(hist, gd) {
					break
				}
			}
		}
	}
	// verification: rejected, accepted, refused UID, accepted — on one public key object
	for round := 0; round < 2; round++ {
		t.Eval(4)
		if sm2.VerifyASN1WithSM2(pub, uid, msg, wantDig) {
			t.Fail("verify/sm2.VerifyASN1WithSM2/accepts-invalid/history", "signature for another digest accepted")
		}
		if !sm2.VerifyASN1WithSM2(pub, uid, msg, wantMsg) {
			t.Fail("verify/sm2.VerifyASN1WithSM2/rejects-valid/history", "valid signature rejected after a rejected one (round %d)", round)
		}
		if sm2.VerifyASN1WithSM2(pub, long, msg, wantMsg) {
			t.Fail("verify/uid>8191/accepted", "VerifyASN1WithSM2 accepted a signature with an 8192-byte UID")
		}
		if !sm2.VerifyASN1(pub, dig, wantDig) {
			t.Fail("verify/sm2.VerifyASN1/rejects-valid/history", "valid signature rejected after a refused UID (round %d)", round)
		}
	}
	// aliased arguments: uid and msg are the same slice
	{
		x := Pattern(16, 0x19)
		eA := c.Digest(x, key.Pub, x)
		want := wantSig(eA)
		snap := append([]byte(nil), x...)
		sig, err := priv.SignWithSM2(engine.NewScriptReader(midBlocks()...), x, x)
		t.Eval(2)
		t.Nontrivial("alias/uid==msg")
		if err != nil || !bytes.Equal(sig, want) {
			t.Fail("layout/sign/PrivateKey.SignWithSM2/signature-differs-from-reference/alias(uid==msg)", "uid and msg are one slice: %x, %v; reference %x", sig, err, want)
		}
		if !sm2.VerifyASN1WithSM2(pub, x, x, want) {
			t.Fail("layout/verify/sm2.VerifyASN1WithSM2/rejects-valid/alias(uid==msg)", "uid and msg are one slice: valid signature rejected")
		}
		if !bytes.Equal(x, snap) {
			t.Fail("integrity/sign/PrivateKey.SignWithSM2/argument-modified/alias(uid==msg)", "aliased uid/msg modified")
		}
	}
}

// ---------------------------------------------------------------------------------------------
// W13: public keys with boundary coordinates. For ANY public key P a valid signature on a chosen digest is
// R = [s]G + [t]P, r = t - s, e = r - x(R) mod n. Every digest-based entry point must accept it, reject it for another
// digest, and ZA / the message digest computed with such a key must equal the reference.

func pubBoundaryCase(t *engine.T) {
	c := ecref.SM2()
	n := c.N
	g := GTable()
	one := big.NewInt(1)
	type cand struct {
		name string
		P    ecref.Point
	}
	var pubs []cand
	scan := func(name string, from *big.Int, step int64, want int) {
		x := new(big.Int).Set(from)
		found := 0
		for i := 0; i < 64 && found < want; i++ {
			if x.Sign() >= 0 && x.Cmp(c.P) < 0 {
				if p0, ok := c.LiftX(x, 0); ok {
					p1, _ := c.LiftX(x, 1)
					off := new(big.Int).Sub(x, from)
					pubs = append(pubs, cand{fmt.Sprintf("x=%s%+d,y-even", name, off.Int64()), p0}, cand{fmt.Sprintf("x=%s%+d,y-odd", name, off.Int64()), p1})
					found++
				}
			}
			x.Add(x, big.NewInt(step))
		}
	}
	scan("0", big.NewInt(0), 1, 3)
	scan("p-1", new(big.Int).Sub(c.P, one), -1, 2)
	scan("n", n, 1, 2)
	scan("n-1", new(big.Int).Sub(n, one), -1, 1)
	scan("2^255", new(big.Int).Lsh(one, 255), 1, 1)
	scan("2^224", new(big.Int).Lsh(one, 224), 1, 1) // four leading zero bytes
	pubs = append(pubs, cand{"G", c.G()}, cand{"-G", c.Neg(c.G())}, cand{"[2]G", g.Mul(big.NewInt(2))})
	// boundary values of the INTERNAL (Montgomery, x*2^256 mod p) representation: the on-curve check of every verify
	// adds x+x+x there, so its conditional subtraction depends on where that value lies relative to p/3, p/2, p
	{
		two256 := new(big.Int).Lsh(one, 256)
		rinv := new(big.Int).ModInverse(two256, c.P)
		ceil3 := new(big.Int).Div(new(big.Int).Add(c.P, big.NewInt(2)), big.NewInt(3))
		lims := []struct {
			name string
			m    *big.Int
			step int64
		}{
			{"mont=ceil(p/3)", ceil3, 1},
			{"mont=(2^256-1)/3", new(big.Int).Div(new(big.Int).Sub(two256, one), big.NewInt(3)), -1},
			{"mont=ceil(p/2)", new(big.Int).Div(new(big.Int).Add(c.P, one), big.NewInt(2)), 1},
			{"mont=p-1", new(big.Int).Sub(c.P, one), -1},
		}
		for _, l := range lims {
			m := new(big.Int).Set(l.m)
			found := 0
			for i := 0; i < 64 && found < 2; i++ {
				x := new(big.Int).Mul(m, rinv)
				x.Mod(x, c.P)
				if p0, ok := c.LiftX(x, uint(i&1)); ok {
					pubs = append(pubs, cand{fmt.Sprintf("%s%+d", l.name, int64(i)*l.step), p0})
					found++
				}
				m.Add(m, big.NewInt(l.step))
			}
		}
	}
	msg := []byte("public key boundary")
	for pi, pc := range pubs {
		P := pc.P
		if !c.OnCurve(P) || P.Inf {
			t.Fail("HARNESS/pub-boundary-off-curve", "%s", pc.name)
			continue
		}
		key := Key{Name: "P(" + pc.name + ")", Pub: P}
		pt := TableFor(c, P)
		lp := LibPub(P)
		// digest computations with this key
		for _, uid := range [][]byte{nil, Pattern(7, 0x3a)} {
			za, err := sm2.CalculateZA(lp, effUID(uid))
			h, err2 := sm2.CalculateSM2Hash(lp, msg, uid)
			t.Eval(2)
			if err != nil || err2 != nil || !bytes.Equal(za, c.ZA(effUID(uid), P)) || !bytes.Equal(h, c.Digest(effUID(uid), P, msg)) {
				t.Fail("za/mismatch/boundary-public-key", "public key %s (%x,%x): ZA %x / e %x (%v,%v); reference %x / %x", pc.name, P.X, P.Y, za, h, err, err2, c.ZA(effUID(uid), P), c.Digest(effUID(uid), P, msg))
			}
		}
		for j := 0; j < 2; j++ {
			s := HashChain("verif/c06/pubb-s", pi*2+j+1)
			tt := HashChain("verif/c06/pubb-t", pi*2+j+1)
			if j == 1 {
				tt = big.NewInt(1) // t = 1: [t]P = P itself enters the final addition
			}
			r := new(big.Int).Mod(new(big.Int).Sub(tt, s), n)
			R := c.Add(g.Mul(s), pt.Mul(tt))
			if r.Sign() == 0 || R.Inf {
				continue
			}
			e := new(big.Int).Mod(new(big.Int).Sub(r, R.X), n)
			v := digestCtx(key, e)
			sig := sigOf(r, s)
			if a, _, _, _ := v.refAccept(sig); !a {
				t.Fail("HARNESS/pub-boundary-construction", "%s", pc.name)
				continue
			}
			v.check(t, "constructed/boundary-public-key", fmt.Sprintf("public key %s (%x,%x), constructed valid signature #%d", pc.name, P.X, P.Y, j), sig)
			digestCtx(key, new(big.Int).Xor(e, one)).check(t, "constructed/boundary-public-key/other-digest", fmt.Sprintf("public key %s, e xor 1", pc.name), sig)
			t.Nontrivial(fmt.Sprintf("pub-boundary/%s/%d", pc.name, j))
		}
	}
	names := make([]string, len(pubs))
	for i, p := range pubs {
		names[i] = p.name
	}
	t.Sample(map[string]any{"part": "public keys with boundary coordinates", "public_keys": names})
}

// ---------------------------------------------------------------------------------------------
// W14: boundary values of r and s coming OUT of the signing path: for chosen (r,s) the nonce k = s(1+d) + r d and the
// digest e = r - x([k]G) make the signing procedure produce exactly (r,s). The DER must be the minimal one.

func chosenRSValues(c *ecref.Curve) []*big.Int {
	one := big.NewInt(1)
	sh := func(k uint) *big.Int { return new(big.Int).Lsh(one, k) }
	m := func(v *big.Int) *big.Int { return new(big.Int).Sub(v, one) }
	return []*big.Int{one, big.NewInt(2), big.NewInt(0x7f), big.NewInt(0x80), big.NewInt(0xff), big.NewInt(0x100), big.NewInt(0x7fff), big.NewInt(0x8000),
		m(sh(247)), sh(247), m(sh(248)), sh(248), m(sh(255)), sh(255), new(big.Int).Sub(c.N, big.NewInt(2)), m(c.N)}
}

func chosenRSCase(t *engine.T, key Key) {
	c := ecref.SM2()
	g := GTable()
	priv := LibPriv(key.D, key.Pub)
	vals := chosenRSValues(c)
	done := 0
	for _, r := range vals {
		for _, s := range vals {
			k := c.RecoverK(key.D, r, s)
			if k.Sign() == 0 {
				continue
			}
			e := new(big.Int).Mod(new(big.Int).Sub(r, g.Mul(k).X), c.N)
			eb := ecref.Bytes32(e)
			if r2, s2, ok := FastSignWithK(c, g, key.D, k, eb); !ok || r2.Cmp(r) != 0 || s2.Cmp(s) != 0 {
				continue // the standard says "another k" for this pair (r + k = n)
			}
			want := sigOf(r, s)
			blocks := [][]byte{ecref.Bytes32(k), midBlocks()[1]}
			var sig []byte
			var lr, ls *big.Int
			var err, err2 error
			if t.Guard("sign/chosen-r-s", func() {
				sig, err = sm2.SignASN1(engine.NewScriptReader(blocks...), priv, eb, nil)
				lr, ls, err2 = sm2.Sign(engine.NewScriptReader(blocks...), &priv.PrivateKey, eb)
			}) {
				continue
			}
			t.Eval(2)
			done++
			t.Nontrivial(fmt.Sprintf("chosen-rs/%s/%d/%d", key.Name, r.BitLen(), s.BitLen()))
			cl := fmt.Sprintf("r-bytes=%d,s-bytes=%d", (r.BitLen()+7)/8, (s.BitLen()+7)/8)
			if r.BitLen() > 16 && r.BitLen() < 240 || s.BitLen() > 16 && s.BitLen() < 240 {
				cl = "other"
			}
			if err != nil || !bytes.Equal(sig, want) {
				t.Fail("sign/chosen-r-s/sm2.SignASN1/signature-differs-from-reference/"+cl, "key %s, chosen r=%x s=%x (k=%x, e=%x): SignASN1 = %x, %v; minimal DER of (r,s) is %x", key.Name, r, s, k, eb, sig, err, want)
			} else {
				t.Outcome("chosen-rs-signature=reference")
			}
			if err2 != nil || lr == nil || ls == nil || lr.Cmp(r) != 0 || ls.Cmp(s) != 0 {
				t.Fail("sign/chosen-r-s/sm2.Sign/signature-differs-from-reference/"+cl, "key %s, chosen r=%x s=%x: sm2.Sign = (%x,%x), %v", key.Name, r, s, lr, ls, err2)
			}
			digestCtx(key, e).check(t, "honest/chosen-r-s/"+cl, fmt.Sprintf("key %s chosen r=%x s=%x", key.Name, r, s), want)
		}
	}
	if done < len(vals)*len(vals)/2 {
		t.Fail("HARNESS/chosen-rs-vacuous", "only %d pairs constructed", done)
	}
	if key.Name == "d=chain0" {
		t.Sample(map[string]any{"part": "boundary r,s out of the signing path", "values": len(vals), "pairs_signed": done})
	}
}

// ---------------------------------------------------------------------------------------------

func runWiden3(c *engine.Ctx) {
	ks := Keys()
	for _, i := range []int{1, 4} {
		key := ks[i]
		c.Case("widen/hist/error-then-good/"+key.Name, func(t *engine.T) { errorThenGoodCase(t, key) })
	}
	c.Case("widen/public-key-boundaries", pubBoundaryCase)
	ck := []int{0, 2, 4, 13}
	if !c.Quick() {
		ck = []int{0, 1, 2, 3, 4, 5, 6, 12, 13}
	}
	for _, i := range ck {
		if i >= len(ks) {
			continue
		}
		key := ks[i]
		c.Case("widen/sign/chosen-r-s/"+key.Name, func(t *engine.T) { chosenRSCase(t, key) })
	}
}
