package c06

// Widening of the C06 alphabet (part 4): private scalars and nonces at the limb boundaries of the 4x64-bit
// arithmetic (d+1 and k-r*d carry across every limb), and private scalars wider than 256 bits.

import (
	"bytes"
	"crypto/elliptic"
	"fmt"
	"math/big"

	"github.com/emmansun/gmsm/sm2"

	"verif/engine"
	"verif/ref/ecref"
)

func limbBoundaryScalars(c *ecref.Curve) []struct {
	name string
	v    *big.Int
} {
	one := big.NewInt(1)
	sh := func(k uint) *big.Int { return new(big.Int).Lsh(one, k) }
	m := func(v *big.Int) *big.Int { return new(big.Int).Sub(v, one) }
	half := new(big.Int).Rsh(c.N, 1)
	return []struct {
		name string
		v    *big.Int
	}{
		{"2^32-1", m(sh(32))}, {"2^64-1", m(sh(64))}, {"2^64", sh(64)}, {"2^128-1", m(sh(128))}, {"2^128", sh(128)}, {"2^192-1", m(sh(192))}, {"2^192", sh(192)},
		{"2^255-1", m(sh(255))}, {"(n-1)/2", half}, {"(n+1)/2", new(big.Int).Add(half, one)}, {"n-3", new(big.Int).Sub(c.N, big.NewInt(3))},
		{"n-2^64", new(big.Int).Sub(c.N, sh(64))}, {"n-2^128", new(big.Int).Sub(c.N, sh(128))},
	}
}

// limbBoundaryCase: d from the boundary set x nonce from the boundary set (plus one ordinary nonce) through two
// signing entry points; oracle: reference signature for the scripted nonce, accepted by every verification entry point.
func limbBoundaryCase(t *engine.T, di int) {
	c := ecref.SM2()
	g := GTable()
	sc := limbBoundaryScalars(c)
	d := sc[di]
	key := Key{Name: "d=" + d.name, D: d.v, Pub: g.Mul(d.v)}
	priv := LibPriv(key.D, key.Pub)
	uid := Pattern(9, 0x71)
	msg := Pattern(40, 0x72)
	v := newVctx(key.Pub, uid, msg)
	ks := append([]struct {
		name string
		v    *big.Int
	}{{"mid", HashChain("verif/c06/mid", 1)}}, sc...)
	for _, k := range ks {
		blocks := [][]byte{ecref.Bytes32(k.v), midBlocks()[1]}
		r, s, _ := refSign(c, g, key.D, v.e, blocks)
		want := ecref.EncodeDERSig(r, s)
		t.Nontrivial("limb/" + d.name + "/" + k.name)
		for ei, f := range []func() ([]byte, error){
			func() ([]byte, error) { return priv.SignWithSM2(engine.NewScriptReader(blocks...), uid, msg) },
			func() ([]byte, error) {
				return rsToDER(sm2.Sign(engine.NewScriptReader(blocks...), &priv.PrivateKey, v.e))
			},
		} {
			var sig []byte
			var err error
			if t.Guard("sign/limb-boundary", func() { sig, err = f() }) {
				continue
			}
			t.Eval(1)
			if err != nil || !bytes.Equal(sig, want) {
				t.Fail("sign/limb-boundary/signature-differs-from-reference", "key %s nonce %s entry #%d: %x, %v; reference %x", key.Name, k.name, ei, sig, err, want)
			} else {
				t.Outcome("limb-signature=reference")
			}
		}
		v.check(t, "honest/limb-boundary", fmt.Sprintf("key %s nonce %s", key.Name, k.name), want)
	}
}

// oversizedScalarCase: key objects whose D does not fit 256 bits (struct literal / FromECPrivateKey are the only
// routes that let them through). Every signing call must return an error, none may panic — SM2 curve and math/big path.
func oversizedScalarCase(t *engine.T) {
	c := ecref.SM2()
	one := big.NewInt(1)
	sh := func(k uint) *big.Int { return new(big.Int).Lsh(one, k) }
	msg := []byte("oversized scalar")
	dig := Pattern(32, 0x73)
	for _, dv := range []struct {
		name string
		d    *big.Int
	}{
		{"2^256", sh(256)}, {"2^256+1", new(big.Int).Add(sh(256), one)}, {"2^256+n-2", new(big.Int).Add(sh(256), new(big.Int).Sub(c.N, big.NewInt(2)))},
		{"2^264", sh(264)}, {"2^320-1", new(big.Int).Sub(sh(320), one)}, {"2^512+5", new(big.Int).Add(sh(512), big.NewInt(5))}, {"n*2+3", new(big.Int).Add(new(big.Int).Lsh(c.N, 1), big.NewInt(3))},
	} {
		builds := []struct {
			name string
			mk   func() *sm2.PrivateKey
		}{
			{"struct-literal", func() *sm2.PrivateKey { return LibPriv(dv.d, c.G()) }},
			{"FromECPrivateKey", func() *sm2.PrivateKey {
				k, _ := new(sm2.PrivateKey).FromECPrivateKey(ecKey(dv.d, c.G()))
				return k
			}},
			{"struct-literal(P-256)", func() *sm2.PrivateKey { return legacyPriv(elliptic.P256(), dv.d, NISTP256().G()) }},
			{"struct-literal(P-256,generic-methods-only)", func() *sm2.PrivateKey { return legacyPriv(wrappedP256, dv.d, NISTP256().G()) }},
		}
		for _, b := range builds {
			if t.Config() == "c-purego" && b.name == "struct-literal(P-256)" {
				continue // see legacyCurves
			}
			priv := b.mk()
			for call := 0; call < 4; call++ {
				var sig []byte
				var err error
				rd := engine.NewScriptReader(midBlocks()...)
				rd.Fault = map[int]int{24: engine.AnsErr} // a loop that never ends shows up as the injected error
				pv, frame := guarded(func() {
					switch call {
					case 0, 2:
						sig, err = priv.Sign(rd, msg, sm2.DefaultSM2SignerOpts)
					case 1:
						sig, err = priv.Sign(rd, dig, nil)
					default:
						sig, err = rsToDER(sm2.Sign(rd, &priv.PrivateKey, dig))
					}
				})
				t.Eval(1)
				t.Nontrivial("oversized/" + dv.name + "/" + b.name)
				legacy := ""
				if b.name != "struct-literal" && b.name != "FromECPrivateKey" {
					legacy = "legacy/"
				}
				switch {
				case pv != nil:
					t.Fail(legacy+"sign/d>=2^256/panic", "Sign call #%d on a key object (%s) with D=%s panicked: %v at %s", call+1, b.name, dv.name, pv, frame)
				case err == nil:
					t.Fail(legacy+"sign/d>=2^256/no-error", "Sign call #%d on a key object (%s) with D=%s returned a signature %x instead of an error", call+1, b.name, dv.name, sig)
				case rd.Calls > 20:
					t.Fail(legacy+"sign/d>=2^256/never-terminates", "Sign call #%d on a key object (%s) with D=%s consumed %d nonce blocks", call+1, b.name, dv.name, rd.Calls)
				default:
					t.Outcome("oversized-scalar-error")
				}
			}
		}
	}
}

// sm2ParamCurves: the SM2 parameters behind curve objects other than sm2.P256(): a wrapper that shares its Params()
// (dispatch by Params pointer: fast path) and a plain elliptic.CurveParams copy (math/big path on the SM2 curve). Every
// signature must be the reference one for the scripted nonce and each path must accept what the other produced.
type sm2Wrapper struct{ elliptic.Curve }

func sm2ParamCurves() []struct {
	name string
	cv   elliptic.Curve
} {
	p := sm2.P256().Params()
	cp := &elliptic.CurveParams{P: new(big.Int).Set(p.P), N: new(big.Int).Set(p.N), B: new(big.Int).Set(p.B), Gx: new(big.Int).Set(p.Gx), Gy: new(big.Int).Set(p.Gy), BitSize: p.BitSize, Name: "sm2p256v1-generic"}
	return []struct {
		name string
		cv   elliptic.Curve
	}{{"wrapper-sharing-Params", sm2Wrapper{sm2.P256()}}, {"CurveParams-copy", cp}}
}

func sm2ParamCurveCase(t *engine.T, ki int) {
	c := ecref.SM2()
	g := GTable()
	key := Keys()[ki]
	uid := Pattern(11, 0x74)
	msg := Pattern(50, 0x75)
	e := c.Digest(uid, key.Pub, msg)
	nonces := []nonceSpec{{"k=mid", midBlocks()}, {"k=1", [][]byte{ecref.Bytes32(big.NewInt(1)), midBlocks()[1]}}, {"k=n", [][]byte{ecref.Bytes32(c.N), midBlocks()[1]}}}
	for _, cc := range sm2ParamCurves() {
		priv := legacyPriv(cc.cv, key.D, key.Pub)
		for _, ns := range nonces {
			r, s, _ := refSign(c, g, key.D, e, ns.blocks)
			want := ecref.EncodeDERSig(r, s)
			t.Nontrivial("sm2-params/" + cc.name + "/" + key.Name + "/" + ns.name)
			for ei, f := range []func() ([]byte, error){
				func() ([]byte, error) { return priv.SignWithSM2(engine.NewScriptReader(ns.blocks...), uid, msg) },
				func() ([]byte, error) { return priv.Sign(engine.NewScriptReader(ns.blocks...), e, nil) },
			} {
				var sig []byte
				var err error
				if t.Guard("legacy/sm2-parameters/sign", func() { sig, err = f() }) {
					continue
				}
				t.Eval(1)
				if err != nil || !bytes.Equal(sig, want) {
					t.Fail("legacy/sm2-parameters/"+cc.name+"/signature-differs-from-reference", "key %s %s entry #%d on curve object %s: %x, %v; reference %x", key.Name, ns.name, ei, cc.name, sig, err, want)
				} else {
					t.Outcome("sm2-params-signature=reference")
				}
			}
			v := legacyVctx(cc.cv, c, key.Pub, uid, msg)
			v.g = g
			v.check(t, "legacy/sm2-parameters/"+cc.name+"/honest", fmt.Sprintf("key %s %s curve object %s", key.Name, ns.name, cc.name), want)
			one := big.NewInt(1)
			v.check(t, "legacy/sm2-parameters/"+cc.name+"/altered", "r+1", sigOf(new(big.Int).Add(r, one), s))
			v.check(t, "legacy/sm2-parameters/"+cc.name+"/altered", "s+n", sigOf(r, new(big.Int).Add(s, c.N)))
			v.check(t, "legacy/sm2-parameters/"+cc.name+"/altered", "r=n", sigOf(c.N, s))
		}
	}
}

func runWiden4(c *engine.Ctx) {
	for _, ki := range []int{2, 4, 12} {
		ki := ki
		c.Case(fmt.Sprintf("widen/legacy/sm2-parameters-on-other-curve-objects/key#%d", ki), func(t *engine.T) { sm2ParamCurveCase(t, ki) })
	}
	n := len(limbBoundaryScalars(ecref.SM2()))
	for i := 0; i < n; i++ {
		i := i
		c.Case(fmt.Sprintf("widen/complete/limb-boundary-scalars/d#%d", i), func(t *engine.T) { limbBoundaryCase(t, i) })
	}
	c.Case("widen/hist/oversized-private-scalar", oversizedScalarCase)
}
