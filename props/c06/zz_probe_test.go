package c06

import (
	"crypto/ecdsa"
	"crypto/elliptic"
	"fmt"
	"math/big"
	"testing"

	"github.com/emmansun/gmsm/sm2"
	"github.com/emmansun/gmsm/smx509"
	"verif/engine"
	"verif/ref/ecref"
)

func try(name string, f func()) {
	defer func() {
		if r := recover(); r != nil {
			fmt.Println(name, "PANIC:", r)
		}
	}()
	f()
}

func TestProbe(t *testing.T) {
	c := ecref.SM2()
	for _, off := range []int64{-1, 0, 1} {
		d := new(big.Int).Add(c.N, big.NewInt(off))
		pub := c.BaseMul(new(big.Int).Mod(d, c.N))
		if pub.Inf {
			pub = c.G()
		}
		priv := LibPriv(d, pub)
		for i := 0; i < 3; i++ {
			try(fmt.Sprintf("d=n%+d sign#%d", off, i), func() {
				rd := engine.NewScriptReader()
				_, err := priv.Sign(rd, []byte("m"), sm2.DefaultSM2SignerOpts)
				fmt.Printf("d=n%+d sign#%d err=%v calls=%d\n", off, i, err, rd.Calls)
			})
		}
		try("ecdh", func() { _, err := priv.ECDH(); fmt.Println("ECDH err", err) })
		_, err := sm2.NewPrivateKey(ecref.Bytes32(d))
		fmt.Println("NewPrivateKey err", err)
		der, err := smx509.MarshalSM2PrivateKey(priv)
		fmt.Println("marshal", err)
		if err == nil {
			k2, err := smx509.ParseSM2PrivateKey(der)
			fmt.Println("ParseSM2PrivateKey", err, k2 != nil)
		}
	}
	// legacy curve d = n-1
	p256 := elliptic.P256()
	d := new(big.Int).Sub(p256.Params().N, big.NewInt(1))
	x, y := p256.ScalarBaseMult(d.Bytes())
	lp := &sm2.PrivateKey{PrivateKey: ecdsa.PrivateKey{PublicKey: ecdsa.PublicKey{Curve: p256, X: x, Y: y}, D: d}}
	try("legacy d=n-1", func() {
		rd := engine.NewScriptReader()
		rd.Fault = map[int]int{20: engine.AnsErr}
		_, err := lp.Sign(rd, []byte("m"), sm2.DefaultSM2SignerOpts)
		fmt.Println("legacy d=n-1 sign err", err, rd.Calls)
	})
}
