package c07

import (
	"bytes"
	"crypto/ecdsa"
	"fmt"
	"io"
	"math/big"
	"strings"

	"github.com/emmansun/gmsm/sm2"

	"verif/engine"
	"verif/props/c06"
	"verif/ref/ecref"
	"verif/ref/sm3ref"
)

type Prop struct{}

func (Prop) ID() string    { return "C07" }
func (Prop) Level() string { return "exploration" }
func (Prop) Configs(tier string) []string {
	// sm2ec dispatch (default / non-ADX / fiat) and the SM3 KDF lane width (8 lanes with AVX2, 4 without): full enumeration.
	// c-sse and c-scalar select the two remaining SM3 block functions (SSSE3 without AVX, plain amd64) that C3 and the KDF
	// run on; the elliptic-curve code is the same as under c-noavx2, so only the hash-bound part is enumerated there (runLite).
	// The quick tier leaves c-scalar out: with five configurations the engine still cuts every configuration into four
	// shards (ceil(16/5)), with six it would be three.
	if tier != "thorough" {
		return []string{"c-default", "c-noavx2", "c-nobmi2", "c-purego", "c-sse"}
	}
	return []string{"c-default", "c-noavx2", "c-nobmi2", "c-purego", "c-sse", "c-scalar"}
}

func (Prop) SelfTest() error {
	if err := (c06.Prop{}).SelfTest(); err != nil {
		return err
	}
	if err := selfTestRef(); err != nil {
		return err
	}
	return selfTestCurves()
}

func (Prop) Rule() string {
	return "Round trip (E2): 12 keys {1,2,n-2,2^255,8 hash-chain} x message length 1..130 + {one inside and both edges of every KDF block-count class up to 13 blocks} + 1000 x {nil opts, plain x {uncompressed,compressed,hybrid} x {C1C3C2,C1C2C3}, ASN.1 opts, EncryptASN1} with the ephemeral scalar scripted through the reader; " +
		"library ciphertext must equal the reference ciphertext (GB/T 32918.4 with ecref) byte for byte (hybrid option: round trip only) and every decryption entry point must return exactly M; the same for the reference-built ciphertext in all 5 layouts; " +
		"edge ephemeral blocks {0,1,n-2,n-1,n,n+1,2^256-1,mid and ^0x42 images} for lengths 1,32,33. Converters: every transition of {AdjustCiphertextSplicingOrder, PlainCiphertext2ASN1, ASN1Ciphertext2Plain(7 option values)} from each of the 5 layouts must give exactly the reference encoding of the target layout, plus all literal chains of length <= 3 for 4 lengths; enveloped key marshal/parse for 12 key pairs. " +
		"Constructive all-zero C2: M := KDF([k]P) for k=1..K and lengths 1,2,3,4,32,33, and fixed 1-byte (thorough: 2-byte) messages with k searched upward until the mask equals M; ciphertext built by the reference in all layouts, library Decrypt must return M; library Encrypt with that k must produce it. " +
		"Constructive all-zero mask t (k searched until KDF=00..): such a string is not an output of the algorithm and B4 rejects it; library must reject. " +
		"Rejection (E3): seeds (quick 3 keys x 4 lengths, thorough 12 keys x 7 lengths) x 5 layouts: every byte x {^01,^80} (thorough: 9-value substitution set + DER-aware edits of the ASN.1 form, all 255 values on the C1 region of 10 seeds, all 2-deviation mutants of one short ciphertext per layout), every truncation, extensions; structured C1 (off-curve, infinity encodings, x+p, negative, negated point, non-residue x, hybrid forms), wrong key. " +
		"Oracle in both directions: library returns M' <=> strict layout parse + reference decryption (B1-B6) returns M'; hybrid C1 and empty C2 are left open (error or M'). Legacy math/big path (NIST P-256, bare and generic-methods-only curve object): reduced round trip, all-zero C2, rejection. " +
		"Widened dimensions (DESIGN §11.4): (own/) every byte-slice argument of Encrypt / Decrypt / the converters / ParseEnvelopedPrivateKey in 5 placement classes {cap==len, one spare byte, 96 dirty spare bytes, record pre||arg||next field with the capacity reaching to the end, ending at a PROT_NONE page}: same result as the reference in every class, the argument and everything around it unchanged (after successful, failing and wrong-key calls), results disjoint from the arguments and from each other, same answer after the harness overwrote the previous result, a failing call followed by the good one on the same buffer, options and key objects unchanged; every byte string of the rejection enumeration is also compared with its copy after each call. " +
		"(history/) every ordered pair of operations over the alphabet {10 encryption options, 13 decryption entry-point x layout combinations, 19 converter transitions, 9+3 failing calls} at lengths 1, 33 (thorough 257), and over {Encrypt, Decrypt plain, Decrypt ASN.1} x one length in each of 12 KDF block-count classes x two key objects used alternately (sizes up and down): the second operation must give the specified result. " +
		"(variant/) zero-value and typed-nil option objects, a non-nil reader, the crypto.Decrypter interface, key objects from NewPrivateKey / NewPrivateKeyFromInt / GenerateKey / FromECPrivateKey / struct with a wrapped curve object x public keys from NewPublicKey / &priv.PublicKey / Public(), constructor arguments overwritten afterwards. " +
		"(shape/) first k = 1,2,3.. whose x1, y1, x2 or y2 has a leading zero byte (thorough: two), C1 with x = 0 and with the smallest x >= 1 through every layout, entry point and converter; KDF block-count classes 14..17, 18, 20, 21, 24, 25, 31..33, 64, 65 blocks; message lengths on both sides of the DER length-octet boundaries 255/256 and 65535/65536 of the SEQUENCE and of the C2 OCTET STRING; 2, 3, 100, 101 consecutive restarts of the encryption loop (error, or the reference ciphertext of the next good scalar). " +
		"(legacy/<curve>/) the math/big path on P-224, P-384, P-521 and on the SM2 parameters handed over as a plain *elliptic.CurveParams: round trip over 14 lengths (incl. l-1, l, l+1, 2l, 2l+1 for the field length l) and 9 options, edge candidate blocks, all-zero C2 / all-zero mask, leading-zero shapes, extreme C1, rejection (every byte x {^01,^80}, truncations, structured C1), ownership classes. " +
		"Configurations c-sse and (thorough tier) c-scalar (the two remaining SM3 block functions) run the hash-bound subset: key 4 round trip over all lengths, length histories, message placement classes, one legacy round trip. " +
		"distinct_nontrivial counts (key,length,option/layout), constructive (key,length,k), (seed,mutation class,verdict), (placement class, entry point), history-pair kinds and shape classes."
}

func (Prop) Assumptions() []string {
	return []string{
		"reference = verif/ref/ecref + sm3ref (GB/T 32918.4 §6.1/§7.1, anchored by the GB/T 32918.5 annex C example); scalar multiplications by known points go through 8-bit window tables built only from ecref.Add and cross-checked in the self-test",
		"the ephemeral scalar is the first 32-byte block of the reader in [1,n-1] whose mask t is not all zero (read from sm2_pke.go encryptSM2EC/randomPoint); byte-for-byte comparison of ciphertexts relies on this",
		"supported C1 forms are uncompressed and compressed (property statement); a hybrid 06/07 prefix and an empty C2 are left open: error or the reference plaintext",
		"the splicing order handed to Decrypt / the converters is the true one; decrypting with the wrong declared order is misuse and not enumerated",
		"quick tier: all-zero-C2 with k=1..16 and 1-byte searched messages, rejection seeds 3 keys x 4 lengths with the {^01,^80} set; thorough: k=1..64, 2-byte searched messages (~65 536 trials each), rejection seeds 12 keys x 7 lengths with the 9-value substitution set and DER-aware edits, all 255 values on the first 72 bytes of 10 seeds, all 2-deviation mutants of the 5 layouts of one 1-byte-message ciphertext (66..107 bytes)",
		"dispatch tiers: c-default, c-noavx2, c-nobmi2, c-purego in full, c-sse and (thorough) c-scalar for the hash-bound subset; the other-curve families of the quick tier run under c-default and c-purego only (their arithmetic is math/big and the Go standard library, not the dispatch-dependent sm2ec; SM3 tiers are reached through the P-256 legacy cases everywhere); arm64/ppc64le/s390x assembly is not covered",
		"ownership oracle: the library may not write to caller memory it was not given as a destination, results belong to the caller, the same inputs give the same outputs; AdjustCiphertextSplicingOrder with from == to returns its argument itself (an identity) and nothing is demanded of the memory of that result; spare capacity behind a *returned* slice is the caller's to overwrite",
		"every point of the (prime order) group is [k]G for some k in [1,n-1], so a ciphertext whose C1 is any curve point - e.g. (0, sqrt(b)) - built with the private key is an output of the encryption algorithm even though k is unknown",
		"other curves: NIST parameters are taken from the Go standard library (reference arithmetic cross-checked against crypto/elliptic in the self-test); candidate scalars are ceil(bitlen(n)/8) bytes with the excess high bits cleared (read from randFieldElement); the library may give up with an error after its own restart limit (100) - an error is not an output",
		"history oracle: operations are deterministic functions of their arguments (the scalar is scripted), so any dependence on what ran before is a defect; a process whose state an earlier case already disturbed reports extra pair keys that the 5x confirmation in a fresh process discards",
		"RNG failure answers belong to C12; hostile ASN.1 beyond single edits belongs to C13",
	}
}

// ---------------------------------------------------------------------------------------------
// library-side option tables

type encOpt struct {
	name  string
	enc   func(rd io.Reader, pub *ecdsa.PublicKey, msg []byte) ([]byte, error)
	lay   layout
	exact bool // output must equal the reference encoding of lay
}

func plainEnc(mode byte, order int) func(rd io.Reader, pub *ecdsa.PublicKey, msg []byte) ([]byte, error) {
	return func(rd io.Reader, pub *ecdsa.PublicKey, msg []byte) ([]byte, error) {
		return sm2.Encrypt(rd, pub, msg, encOptsOf(mode, order))
	}
}

// encOptsOf: mode 0 uncompressed, 1 compressed, 2 hybrid.
func encOptsOf(mode byte, order int) *sm2.EncrypterOpts {
	o := sm2.C1C3C2
	if order == 1 {
		o = sm2.C1C2C3
	}
	switch mode {
	case 1:
		return sm2.NewPlainEncrypterOpts(sm2.MarshalCompressed, o)
	case 2:
		return sm2.NewPlainEncrypterOpts(sm2.MarshalHybrid, o)
	}
	return sm2.NewPlainEncrypterOpts(sm2.MarshalUncompressed, o)
}

func decOptsOf(order int) *sm2.DecrypterOpts {
	if order == 1 {
		return sm2.NewPlainDecrypterOpts(sm2.C1C2C3)
	}
	return sm2.NewPlainDecrypterOpts(sm2.C1C3C2)
}

var encOpts = []encOpt{
	{"Encrypt(nil)", func(rd io.Reader, pub *ecdsa.PublicKey, msg []byte) ([]byte, error) {
		return sm2.Encrypt(rd, pub, msg, nil)
	}, layout{false, 0, false}, true},
	{"Encrypt(plain,uncompressed,C1C3C2)", plainEnc(0, 0), layout{false, 0, false}, true},
	{"Encrypt(plain,uncompressed,C1C2C3)", plainEnc(0, 1), layout{false, 1, false}, true},
	{"Encrypt(plain,compressed,C1C3C2)", plainEnc(1, 0), layout{false, 0, true}, true},
	{"Encrypt(plain,compressed,C1C2C3)", plainEnc(1, 1), layout{false, 1, true}, true},
	{"Encrypt(plain,hybrid,C1C3C2)", plainEnc(2, 0), layout{false, 0, false}, false},
	{"Encrypt(plain,hybrid,C1C2C3)", plainEnc(2, 1), layout{false, 1, false}, false},
	{"Encrypt(ASN1EncrypterOpts)", func(rd io.Reader, pub *ecdsa.PublicKey, msg []byte) ([]byte, error) {
		return sm2.Encrypt(rd, pub, msg, sm2.ASN1EncrypterOpts)
	}, layout{asn1: true}, true},
	{"EncryptASN1", func(rd io.Reader, pub *ecdsa.PublicKey, msg []byte) ([]byte, error) {
		return sm2.EncryptASN1(rd, pub, msg)
	}, layout{asn1: true}, true},
}

type decEntry struct {
	name string
	f    func(priv *sm2.PrivateKey, ct []byte) ([]byte, error)
}

// decEntries lists the decryption entry points applicable to a ciphertext of the given layout.
func decEntries(l layout) []decEntry {
	var es []decEntry
	if l.asn1 || l.order == 0 {
		es = append(es,
			decEntry{"sm2.Decrypt", func(p *sm2.PrivateKey, ct []byte) ([]byte, error) { return sm2.Decrypt(p, ct) }},
			decEntry{"PrivateKey.Decrypt(nil)", func(p *sm2.PrivateKey, ct []byte) ([]byte, error) { return p.Decrypt(nil, ct, nil) }})
	}
	o := l.order
	es = append(es, decEntry{"PrivateKey.Decrypt(PlainDecrypterOpts)", func(p *sm2.PrivateKey, ct []byte) ([]byte, error) {
		return p.Decrypt(nil, ct, decOptsOf(o))
	}})
	if l.asn1 {
		es = append(es,
			decEntry{"PrivateKey.Decrypt(ASN1DecrypterOpts)", func(p *sm2.PrivateKey, ct []byte) ([]byte, error) { return p.Decrypt(nil, ct, sm2.ASN1DecrypterOpts) }},
			decEntry{"PrivateKey.Decrypt(PlainDecrypterOpts(C1C2C3))", func(p *sm2.PrivateKey, ct []byte) ([]byte, error) { return p.Decrypt(nil, ct, decOptsOf(1)) }})
	}
	return es
}

// mustDecrypt requires every applicable entry point to return exactly msg for ct (a legitimate ciphertext).
func mustDecrypt(t *engine.T, key string, priv *sm2.PrivateKey, l layout, ct, msg []byte, what string) bool {
	ok := true
	pfx := ""
	if strings.HasPrefix(key, "legacy/") {
		pfx = "legacy/"
	}
	for _, de := range decEntries(l) {
		var got []byte
		var err error
		if t.Guard(pfx+"decrypt/"+de.name, func() { got, err = de.f(priv, ct) }) {
			ok = false
			continue
		}
		t.Eval(1)
		if err != nil {
			t.Fail(key, "%s refused a legitimate ciphertext (%s, layout %s): %v; ciphertext %s, want plaintext %s", de.name, what, l, err, engine.Hex(ct), engine.Hex(msg))
			ok = false
			continue
		}
		if !bytes.Equal(got, msg) {
			t.Fail(pfx+"decrypt/wrong-plaintext", "%s returned %s for %s (layout %s); want %s; ciphertext %s", de.name, engine.Hex(got), what, l, engine.Hex(msg), engine.Hex(ct))
			ok = false
			continue
		}
		t.Outcome("decrypt=M")
	}
	return ok
}

// ---------------------------------------------------------------------------------------------
// key context

type kctx struct {
	pfx  string // finding-key prefix: "" or "legacy/"
	idx  int
	key  c06.Key
	c    *ecref.Curve
	g, p muler
	bl   int // byte length of a field element; 0 stands for 32
	pub  *ecdsa.PublicKey
	priv *sm2.PrivateKey
	dc   *decryptor
}

func newKctx(i int) *kctx {
	c := ecref.SM2()
	k := c06.Keys()[i]
	return &kctx{idx: i, key: k, c: c, g: c06.GTable(), p: c06.TableFor(c, k.Pub), pub: c06.LibPub(k.Pub), priv: c06.LibPriv(k.D, k.Pub), dc: newDecryptor(c, k.D)}
}

func scalarFor(label string, i int) *big.Int {
	h := sm3ref.Sum([]byte(fmt.Sprintf("%s/%d", label, i)))
	v := new(big.Int).SetBytes(h[:])
	v.Mod(v, new(big.Int).Sub(ecref.SM2().N, big.NewInt(1)))
	return v.Add(v, big.NewInt(1))
}

// refEncryptStream runs the standard's encryption loop over the block stream the library will see.
func (kc *kctx) refEncryptStream(blocks [][]byte, msg []byte) (refCT, *big.Int) {
	ct, k, _ := kc.refEncryptStream2(blocks, msg)
	return ct, k
}

// refEncryptStream2 also reports whether a valid scalar had to be abandoned because its mask t was all zero
// (step A5 of the standard: "return to A1").
func (kc *kctx) refEncryptStream2(blocks [][]byte, msg []byte) (refCT, *big.Int, bool) {
	rd := engine.NewScriptReader(blocks...)
	buf := make([]byte, kc.nb())
	restarted := false
	for i := 0; i < 64; i++ {
		io.ReadFull(rd, buf)
		if excess := len(buf)*8 - kc.c.N.BitLen(); excess > 0 {
			buf[0] >>= excess
		}
		k := new(big.Int).SetBytes(buf)
		if k.Sign() == 0 || k.Cmp(kc.c.N) >= 0 {
			continue
		}
		if ct, ok := fastEncryptWithKN(kc.bl, kc.g, kc.p, k, msg); ok {
			return ct, k, restarted
		}
		restarted = true
	}
	panic("c07: reference found no acceptable ephemeral scalar")
}

// encryptAndRoundTrip: library Encrypt under every option with scripted blocks; compare with the reference; decrypt.
func (kc *kctx) encryptAndRoundTrip(t *engine.T, blocks [][]byte, msg []byte, what string) refCT {
	return kc.encryptAndRoundTripShape(t, blocks, msg, what, "")
}

// encryptAndRoundTripShape: shape names a dedicated finding-key class (e.g. the retry path of the encryption loop).
func (kc *kctx) encryptAndRoundTripShape(t *engine.T, blocks [][]byte, msg []byte, what, shape string) refCT {
	ref, k, restarted := kc.refEncryptStream2(blocks, msg)
	if restarted && shape == "" {
		shape = "retry-after-all-zero-mask" // the first valid scripted scalar has an all-zero mask for this key and length
		t.Outcome("encryption-loop-restarted")
	}
	kb := kc.pfx + "encrypt/"
	rb := kc.pfx + "roundtrip/"
	if shape != "" {
		kb += shape + "/"
		rb += shape + "/"
	}
	for _, eo := range encOpts {
		var out []byte
		var err error
		if t.Guard(kc.pfx+"encrypt/"+eo.name, func() { out, err = eo.enc(engine.NewScriptReader(blocks...), kc.pub, msg) }) {
			continue
		}
		t.Eval(1)
		t.Nontrivial(fmt.Sprintf("%srt/%s/len=%d/%s/%s", kc.pfx, kc.key.Name, len(msg), what, eo.name))
		if err != nil {
			t.Fail(kb+"error", "%s(key %s, msgLen=%d, %s): %v", eo.name, kc.key.Name, len(msg), what, err)
			continue
		}
		if eo.exact {
			if want := eo.lay.encode(ref); !bytes.Equal(out, want) {
				if m, acc, _ := kc.dc.open(out, eo.lay.order); acc && bytes.Equal(m, msg) {
					t.Fail(kb+"differs-from-reference-for-scripted-k", "%s(key %s, msgLen=%d, %s) = %s decrypts correctly but is not the reference ciphertext for k=%x: %s", eo.name, kc.key.Name, len(msg), what, engine.Hex(out), k, engine.Hex(want))
				} else {
					t.Fail(kb+"ciphertext-not-decryptable-by-reference", "%s(key %s, msgLen=%d, %s) = %s cannot be decrypted by the reference; reference ciphertext for k=%x: %s", eo.name, kc.key.Name, len(msg), what, engine.Hex(out), k, engine.Hex(want))
					continue
				}
			} else {
				t.Outcome("ciphertext=reference")
			}
		} else if len(out) > 0 {
			t.Outcome(fmt.Sprintf("hybrid-option-emits-prefix-%02x", out[0]))
			if m, acc, _ := kc.dc.open(out, eo.lay.order); !acc || !bytes.Equal(m, msg) {
				t.Fail(kb+"ciphertext-not-decryptable-by-reference", "%s(key %s, msgLen=%d, %s) = %s cannot be decrypted by the reference (scripted k=%x)", eo.name, kc.key.Name, len(msg), what, engine.Hex(out), k)
				continue
			}
		}
		mustDecrypt(t, rb+"own-ciphertext-refused", kc.priv, eo.lay, out, msg, eo.name+" "+what)
	}
	return ref
}

// ---------------------------------------------------------------------------------------------
// converters

type convOp struct {
	name  string
	from  func(l layout) bool
	to    func(l layout) layout
	f     func(l layout, ct []byte) ([]byte, error)
	exact bool
}

func convOps() []convOp {
	isPlain := func(l layout) bool { return !l.asn1 }
	isASN1 := func(l layout) bool { return l.asn1 }
	ops := []convOp{
		{"AdjustCiphertextSplicingOrder(swap)", isPlain, func(l layout) layout { return layout{false, 1 - l.order, l.comp} },
			func(l layout, ct []byte) ([]byte, error) {
				if l.order == 0 {
					return sm2.AdjustCiphertextSplicingOrder(ct, sm2.C1C3C2, sm2.C1C2C3)
				}
				return sm2.AdjustCiphertextSplicingOrder(ct, sm2.C1C2C3, sm2.C1C3C2)
			}, true},
		{"AdjustCiphertextSplicingOrder(same)", isPlain, func(l layout) layout { return l },
			func(l layout, ct []byte) ([]byte, error) {
				if l.order == 0 {
					return sm2.AdjustCiphertextSplicingOrder(ct, sm2.C1C3C2, sm2.C1C3C2)
				}
				return sm2.AdjustCiphertextSplicingOrder(ct, sm2.C1C2C3, sm2.C1C2C3)
			}, true},
		{"PlainCiphertext2ASN1", isPlain, func(l layout) layout { return layout{asn1: true} },
			func(l layout, ct []byte) ([]byte, error) {
				if l.order == 0 {
					return sm2.PlainCiphertext2ASN1(ct, sm2.C1C3C2)
				}
				return sm2.PlainCiphertext2ASN1(ct, sm2.C1C2C3)
			}, true},
		{"ASN1Ciphertext2Plain(nil)", isASN1, func(l layout) layout { return layout{false, 0, false} },
			func(l layout, ct []byte) ([]byte, error) { return sm2.ASN1Ciphertext2Plain(ct, nil) }, true},
	}
	for mode := byte(0); mode < 3; mode++ {
		for o := 0; o < 2; o++ {
			mode, o := mode, o
			ops = append(ops, convOp{fmt.Sprintf("ASN1Ciphertext2Plain(%s,%s)", []string{"uncompressed", "compressed", "hybrid"}[mode], []string{"C1C3C2", "C1C2C3"}[o]), isASN1,
				func(l layout) layout { return layout{false, o, mode == 1} },
				func(l layout, ct []byte) ([]byte, error) { return sm2.ASN1Ciphertext2Plain(ct, encOptsOf(mode, o)) }, mode != 2})
		}
	}
	return ops
}

// convStep applies op to the reference encoding of layout l and checks the result. Returns the new layout and
// whether the chain can continue from its reference encoding.
func (kc *kctx) convStep(t *engine.T, op convOp, l layout, ref refCT, msg []byte, chain string) (layout, bool) {
	in := l.encode(ref)
	inCopy := append([]byte{}, in...)
	var out []byte
	var err error
	if t.Guard("convert/"+op.name, func() { out, err = op.f(l, in) }) {
		return l, false
	}
	t.Eval(1)
	if !bytes.Equal(in, inCopy) {
		t.Fail("convert/"+op.name+"/input-modified", "%s modified its input (chain %s)", op.name, chain)
	}
	nl := op.to(l)
	if err != nil {
		t.Fail("convert/"+op.name+"/error-on-valid-ciphertext", "%s on a valid %s ciphertext (key %s, msgLen=%d, chain %s): %v", op.name, l, kc.key.Name, len(msg), chain, err)
		return l, false
	}
	want := nl.encode(ref)
	if bytes.Equal(out, want) {
		t.Outcome("converter-output=reference-encoding")
		return nl, true
	}
	if !op.exact {
		// hybrid option: whatever the library emits must still decrypt to M in the requested order
		t.Outcome(fmt.Sprintf("converter-hybrid-emits-prefix-%02x", out[0]))
		mustDecrypt(t, "convert/"+op.name+"/output-refused", kc.priv, layout{false, nl.order, false}, out, msg, "converter output, chain "+chain)
		return nl, false
	}
	t.Fail("convert/"+op.name+"/wrong-output", "%s on a valid %s ciphertext (key %s, msgLen=%d, chain %s) = %s, want the %s encoding %s", op.name, l, kc.key.Name, len(msg), chain, engine.Hex(out), nl, engine.Hex(want))
	return l, false
}

func (kc *kctx) converters(t *engine.T, ref refCT, msg []byte, chains bool) {
	ops := convOps()
	for _, l := range layouts {
		for _, op := range ops {
			if op.from(l) {
				kc.convStep(t, op, l, ref, msg, op.name)
			}
		}
	}
	if !chains {
		return
	}
	n := 0
	var rec func(l layout, depth int, chain string)
	rec = func(l layout, depth int, chain string) {
		if depth == 3 {
			return
		}
		for _, op := range ops {
			if !op.from(l) {
				continue
			}
			ch := chain + ">" + op.name
			nl, cont := kc.convStep(t, op, l, ref, msg, ch)
			n++
			if cont {
				rec(nl, depth+1, ch)
			}
		}
	}
	for _, l := range layouts {
		rec(l, 0, l.String())
	}
	t.AddTraces(n)
	t.Extra("converter_chain_steps", n)
}

// ---------------------------------------------------------------------------------------------
// cases

func msgLens() []int {
	var l []int
	for i := 1; i <= 130; i++ {
		l = append(l, i)
	}
	// one length inside and at both edges of every KDF block-count class up to 13 blocks (every count mod 4 and mod 8:
	// the multi-lane KDF treats the classes <4, 4..7, 8k and the remainders 1..3 / 1..7 differently), then far out
	l = append(l, 160, 161, 176, 192, 193, 208, 224, 225, 240, 255, 256, 257, 272, 288, 289, 304, 320, 321, 336, 352, 353, 384, 385, 416)
	return append(l, 1000)
}

var chainLens = map[int]bool{1: true, 32: true, 33: true, 255: true}

func roundTripCase(t *engine.T, ki int, lens []int) {
	kc := newKctx(ki)
	for _, n := range lens {
		msg := c06.Pattern(n, byte(0x40+ki))
		blocks := [][]byte{ecref.Bytes32(scalarFor(fmt.Sprintf("verif/c07/k/%d", ki), n))}
		ref := kc.encryptAndRoundTrip(t, blocks, msg, "k=hash")
		for _, l := range layouts {
			t.Nontrivial(fmt.Sprintf("ref-ct/%s/len=%d/%s", kc.key.Name, n, l))
			mustDecrypt(t, "decrypt/reference-ciphertext-refused", kc.priv, l, l.encode(ref), msg, fmt.Sprintf("reference ciphertext key %s msgLen=%d", kc.key.Name, n))
		}
		kc.converters(t, ref, msg, chainLens[n])
	}
	if ki == 4 && lens[0] == 1 {
		t.Sample(map[string]any{"part": "roundtrip", "key": kc.key.Name, "lengths": lens, "encrypt_options": len(encOpts), "layouts": len(layouts)})
	}
}

func edgeScalarCase(t *engine.T, ki int) {
	kc := newKctx(ki)
	n := kc.c.N
	one := big.NewInt(1)
	vals := []struct {
		name string
		v    *big.Int
	}{{"0", big.NewInt(0)}, {"1", one}, {"n-2", new(big.Int).Sub(n, big.NewInt(2))}, {"n-1", new(big.Int).Sub(n, one)}, {"n", n}, {"n+1", new(big.Int).Add(n, one)},
		{"2^256-1", new(big.Int).Sub(new(big.Int).Lsh(one, 256), one)}, {"mid", scalarFor("verif/c07/mid", 1)}}
	second := ecref.Bytes32(scalarFor("verif/c07/mid", 2))
	for _, ml := range []int{1, 32, 33} {
		msg := c06.Pattern(ml, 0x6b)
		for _, v := range vals {
			b := ecref.Bytes32(v.v)
			kc.encryptAndRoundTrip(t, [][]byte{b, second}, msg, "k="+v.name)
			b2 := append([]byte{}, b...)
			b2[1] ^= 0x42
			kc.encryptAndRoundTrip(t, [][]byte{b2, second}, msg, "k="+v.name+"^0x42")
		}
	}
}

// zeroC2Case: M := t = KDF([k]P) so that C2 = M xor t is all zero — a legitimate output of the algorithm.
func zeroC2Case(t *engine.T, ki int, kmax int) {
	kc := newKctx(ki)
	s := ecref.Inf()
	for k := 1; k <= kmax; k++ {
		s = kc.c.Add(s, kc.key.Pub) // [k]P
		kb := big.NewInt(int64(k))
		c1 := kc.g.Mul(kb)
		for _, ml := range []int{1, 2, 3, 4, 32, 33} {
			msg := maskOf(s, ml)
			if allZero(msg) {
				continue // t all zero: the standard restarts with another k
			}
			ref, ok := sealWith(c1, s, msg)
			if !ok || !allZero(ref.C2) {
				t.Fail("HARNESS/zero-c2-construction", "k=%d len=%d", k, ml)
				return
			}
			t.Nontrivial(fmt.Sprintf("zero-c2/M=t/%s/k=%d/len=%d", kc.key.Name, k, ml))
			what := fmt.Sprintf("all-zero C2: key %s, k=%d, M=KDF([k]P,%d)=%x", kc.key.Name, k, ml, msg)
			for _, l := range layouts {
				mustDecrypt(t, "decrypt/all-zero-c2-refused", kc.priv, l, l.encode(ref), msg, what)
			}
			if k <= 4 {
				// the library's own Encrypt produces exactly this ciphertext when the reader hands it k
				kc.encryptAndRoundTripZero(t, ecref.Bytes32(kb), msg, ref, what)
				kc.converters(t, ref, msg, false)
			}
		}
	}
	if ki == 0 {
		t.Sample(map[string]any{"part": "all-zero-C2 (M := t)", "key": kc.key.Name, "k": fmt.Sprintf("1..%d", kmax), "lengths": []int{1, 2, 3, 4, 32, 33}})
	}
}

// encryptAndRoundTripZero is encryptAndRoundTrip with the dedicated finding key for the all-zero-C2 shape.
func (kc *kctx) encryptAndRoundTripZero(t *engine.T, block, msg []byte, ref refCT, what string) {
	for _, eo := range encOpts {
		var out []byte
		var err error
		if t.Guard("encrypt/"+eo.name, func() { out, err = eo.enc(engine.NewScriptReader(block), kc.pub, msg) }) {
			continue
		}
		t.Eval(1)
		if err != nil {
			t.Fail("encrypt/error", "%s (%s): %v", eo.name, what, err)
			continue
		}
		if eo.exact && !bytes.Equal(out, eo.lay.encode(ref)) {
			if m, acc, _ := kc.dc.open(out, eo.lay.order); !acc || !bytes.Equal(m, msg) {
				t.Fail("encrypt/ciphertext-not-decryptable-by-reference", "%s (%s) = %s", eo.name, what, engine.Hex(out))
				continue
			}
			t.Outcome("encrypt-avoided-all-zero-c2") // legal: another k may be drawn; still has to round-trip
		}
		mustDecrypt(t, "decrypt/all-zero-c2-refused", kc.priv, eo.lay, out, msg, "library's own ciphertext from "+eo.name+"; "+what)
	}
}

// searchMask walks k = 1,2,3,... until KDF([k]P, len(target)) == target. Returns k and S=[k]P.
func (kc *kctx) searchMask(target []byte, limit int) (int, ecref.Point, bool) {
	s := ecref.Inf()
	for k := 1; k <= limit; k++ {
		s = kc.c.Add(s, kc.key.Pub)
		if bytes.Equal(maskOfN(kc.bl, s, len(target)), target) {
			return k, s, true
		}
	}
	return 0, s, false
}

func searchedZeroC2Case(t *engine.T, ki int, msgs [][]byte, limit int) {
	kc := newKctx(ki)
	for _, msg := range msgs {
		k, s, ok := kc.searchMask(msg, limit)
		t.Extra("mask_search_trials", k)
		if !ok {
			t.Cap(fmt.Sprintf("no k <= %d with KDF([k]P)=%x for key %s", limit, msg, kc.key.Name))
			continue
		}
		ref, ok := sealWith(kc.g.Mul(big.NewInt(int64(k))), s, msg)
		if !ok || !allZero(ref.C2) {
			t.Fail("HARNESS/zero-c2-construction", "k=%d msg=%x", k, msg)
			return
		}
		t.Nontrivial(fmt.Sprintf("zero-c2/searched/%s/msg=%x", kc.key.Name, msg))
		what := fmt.Sprintf("all-zero C2: key %s, message %x, k=%d (first k with KDF([k]P)=M)", kc.key.Name, msg, k)
		for _, l := range layouts {
			mustDecrypt(t, "decrypt/all-zero-c2-refused", kc.priv, l, l.encode(ref), msg, what)
		}
		kc.encryptAndRoundTripZero(t, ecref.Bytes32(big.NewInt(int64(k))), msg, ref, what)
		if ki == 0 {
			t.Sample(map[string]any{"part": "all-zero-C2 (searched k)", "key": kc.key.Name, "message": fmt.Sprintf("%x", msg), "k": k, "ciphertext_C1C3C2": fmt.Sprintf("%x", layouts[0].encode(ref))})
		}
	}
}

// nearlyZeroMaskCase: k whose mask t = KDF([k]P, n) has exactly ONE non-zero byte, at position pos. Such a mask is
// not all zero: the ciphertext is an output of the encryption algorithm and must decrypt, and encryption with this k
// must use it. (An all-zero test that skips a byte position, a word or a tail takes it for all zero.) The search walks
// k = 1,2,... with the reference arithmetic: about 2^(8(n-1)) trials, so n <= 3.
func nearlyZeroMaskCase(t *engine.T, ki, n, pos, limit int) {
	kc := newKctx(ki)
	s := ecref.Inf()
	k := 0
	found := false
	for k = 1; k <= limit; k++ {
		s = kc.c.Add(s, kc.key.Pub)
		m := maskOfN(kc.bl, s, n)
		ok := m[pos] != 0
		for i := range m {
			if i != pos && m[i] != 0 {
				ok = false
			}
		}
		if ok {
			found = true
			break
		}
	}
	t.Extra("mask_search_trials", k)
	if !found {
		t.Cap(fmt.Sprintf("no k <= %d with a %d-byte mask that is zero except at byte %d for key %s", limit, n, pos, kc.key.Name))
		return
	}
	mask := maskOfN(kc.bl, s, n)
	for _, msg := range [][]byte{c06.Pattern(n, 0x5a), make([]byte, n), append([]byte{}, mask...)} {
		if bytes.Equal(msg, mask) {
			msg[pos] ^= 0xff // M = t would give an all-zero C2, which has its own family
		}
		ref, ok := sealWith(kc.g.Mul(big.NewInt(int64(k))), s, msg)
		if !ok {
			t.Fail("HARNESS/nearly-zero-mask-construction", "k=%d msg=%x", k, msg)
			return
		}
		what := fmt.Sprintf("mask with one non-zero byte: key %s, k=%d, t=KDF([k]P,%d)=%x, message %x", kc.key.Name, k, n, mask, msg)
		for _, l := range layouts {
			mustDecrypt(t, "decrypt/nearly-zero-mask-refused", kc.priv, l, l.encode(ref), msg, what)
		}
		kc.encryptAndRoundTripShape(t, [][]byte{ecref.Bytes32(big.NewInt(int64(k))), ecref.Bytes32(scalarFor("verif/c07/mid", 3))}, msg, what, "nearly-zero-mask")
	}
	t.Nontrivial(fmt.Sprintf("nearly-zero-mask/%s/len=%d/pos=%d", kc.key.Name, n, pos))
	if ki == 0 {
		t.Sample(map[string]any{"part": "mask with exactly one non-zero byte", "key": kc.key.Name, "k": k, "mask": fmt.Sprintf("%x", mask)})
	}
}

// zeroMaskCase: k with KDF([k]P, n) = 00..0. (C1=[k]G, C2=M, C3=SM3(x2||M||y2)) is NOT an output of the encryption
// algorithm (A5 restarts) and decryption step B4 rejects it.
func zeroMaskCase(t *engine.T, ki int, n int, limit int) {
	kc := newKctx(ki)
	k, s, ok := kc.searchMask(make([]byte, n), limit)
	t.Extra("mask_search_trials", k)
	if !ok {
		t.Cap(fmt.Sprintf("no k <= %d with all-zero %d-byte mask for key %s", limit, n, kc.key.Name))
		return
	}
	c1 := kc.g.Mul(big.NewInt(int64(k)))
	for _, msg := range [][]byte{c06.Pattern(n, 0x5a), bytes.Repeat([]byte{0xff}, n), append(make([]byte, n-1), 1)} {
		ct := refCT{C1: c1, C2: append([]byte{}, msg...), C3: c3Of(s, msg)}
		for _, l := range layouts {
			enc := l.encode(ct)
			if _, acc, _ := kc.dc.open(enc, l.order); acc {
				t.Fail("HARNESS/zero-mask-construction", "reference accepts the all-zero-mask string")
				return
			}
			t.Nontrivial(fmt.Sprintf("zero-t/%s/len=%d/%s", kc.key.Name, n, l))
			for _, de := range decEntries(l) {
				var got []byte
				var err error
				if t.Guard("decrypt/"+de.name, func() { got, err = de.f(kc.priv, enc) }) {
					continue
				}
				t.Eval(1)
				if err == nil {
					t.Fail("decrypt/all-zero-t-accepted", "%s returned %x for a string whose mask t=KDF(x2||y2,%d) is all zero (key %s, C1=[%d]G, layout %s): GB/T 32918.4 B4 rejects it and the encryption algorithm (A5) never emits it; ciphertext %s", de.name, got, n, kc.key.Name, k, l, engine.Hex(enc))
				} else {
					t.Outcome("zero-mask-rejected")
				}
			}
		}
	}
	// encrypting with this k must not use it: the library has to draw the next block
	second := ecref.Bytes32(scalarFor("verif/c07/mid", 3))
	kc.encryptAndRoundTripShape(t, [][]byte{ecref.Bytes32(big.NewInt(int64(k))), second}, c06.Pattern(n, 0x5a), fmt.Sprintf("first scripted block k=%d gives an all-zero mask t, so step A5 must restart with the next block", k), "retry-after-all-zero-mask")
}

func envelopedCase(t *engine.T, ki int) {
	kc := newKctx(ki)
	ks := c06.Keys()
	for j := 1; j <= 3; j++ {
		inner := ks[(ki+j)%len(ks)]
		innerPriv := c06.LibPriv(inner.D, inner.Pub)
		symKey := c06.Pattern(16, byte(0x90+j))
		kBlock := ecref.Bytes32(scalarFor(fmt.Sprintf("verif/c07/env/%d", ki), j))
		var blob []byte
		var err error
		if t.Guard("enveloped/marshal", func() {
			blob, err = sm2.MarshalEnvelopedPrivateKey(engine.NewScriptReader(symKey, kBlock), kc.pub, innerPriv)
		}) {
			continue
		}
		t.Eval(1)
		t.Nontrivial(fmt.Sprintf("enveloped/%s/%s", kc.key.Name, inner.Name))
		if err != nil {
			t.Fail("enveloped/marshal-error", "MarshalEnvelopedPrivateKey(recipient %s, key %s): %v", kc.key.Name, inner.Name, err)
			continue
		}
		// the SM2Cipher inside must be the reference ASN.1 ciphertext of the SM4 key under the scripted k
		ref, _ := kc.refEncryptStream([][]byte{kBlock}, symKey)
		if !bytes.Contains(blob, layout{asn1: true}.encode(ref)) {
			t.Fail("enveloped/sm2cipher-differs-from-reference", "enveloped blob %s does not contain the reference SM2Cipher %s", engine.Hex(blob), engine.Hex(layout{asn1: true}.encode(ref)))
		}
		var got *sm2.PrivateKey
		if t.Guard("enveloped/parse", func() { got, err = sm2.ParseEnvelopedPrivateKey(kc.priv, blob) }) {
			continue
		}
		if err != nil || got == nil {
			t.Fail("enveloped/parse-error", "ParseEnvelopedPrivateKey(recipient %s) of its own output: %v", kc.key.Name, err)
			continue
		}
		if got.D.Cmp(inner.D) != 0 || got.X.Cmp(inner.Pub.X) != 0 || got.Y.Cmp(inner.Pub.Y) != 0 {
			t.Fail("enveloped/wrong-key", "enveloped key %s came back as D=%x", inner.Name, got.D)
			continue
		}
		t.Outcome("enveloped-roundtrip")
		// wrong recipient must fail
		other := c06.LibPriv(inner.D, inner.Pub)
		var e2 error
		if !t.Guard("enveloped/parse-wrong-recipient", func() { _, e2 = sm2.ParseEnvelopedPrivateKey(other, blob) }) && e2 == nil && inner.D.Cmp(kc.key.D) != 0 {
			t.Fail("enveloped/wrong-recipient-accepted", "ParseEnvelopedPrivateKey succeeded with a key that is not the recipient")
		}
	}
}

// ---------------------------------------------------------------------------------------------
// rejection

type rejCtx struct {
	t       *engine.T
	kc      *kctx
	l       layout
	prefix  string // finding-key prefix ("" or "legacy/")
	entries []decEntry
	priv    *sm2.PrivateKey
	dc      *decryptor
	convs   bool
}

func mutClass(desc string) string {
	switch {
	case strings.HasPrefix(desc, "sub@"):
		return "sub"
	case strings.HasPrefix(desc, "trunc"):
		return "trunc"
	case strings.HasPrefix(desc, "dropfront"):
		return "dropfront"
	case strings.HasPrefix(desc, "extend"):
		return "extend"
	case strings.HasPrefix(desc, "der/"):
		return "der/nest"
	case strings.HasPrefix(desc, "der"):
		if j := strings.Index(desc, "/"); j >= 0 {
			e := desc[j+1:]
			if k := strings.IndexAny(e, "=:"); k >= 0 {
				e = e[:k]
			}
			return "der/" + e
		}
	}
	return desc
}

// check offers one byte string to every decryption entry point and compares with the specification's verdict.
func (rc *rejCtx) check(class, desc string, cand []byte) {
	t := rc.t
	want, accept, open_ := rc.dc.open(cand, rc.l.order)
	verdict := "spec-rejects"
	if accept {
		verdict = "spec-accepts"
	}
	if open_ {
		verdict = "open"
	}
	t.Nontrivial(rc.prefix + "reject/" + rc.l.String() + "/" + class + "/" + verdict)
	orig := append([]byte{}, cand...)
	for _, de := range rc.entries {
		var got []byte
		var err error
		pv, frame := c06.Guarded(func() { got, err = de.f(rc.priv, cand) })
		t.Eval(1)
		if !bytes.Equal(cand, orig) {
			// the byte string offered for decryption is the caller's, whatever the verdict
			t.Fail(rc.prefix+"decrypt/hostile/input-modified", "%s changed the byte string it was given [%s / %s on a %s ciphertext]: %s became %s", de.name, class, desc, rc.l, engine.Hex(orig), engine.Hex(cand))
			copy(cand, orig)
		}
		if pv != nil {
			t.Fail(rc.prefix+"decrypt/hostile/panic@"+frame, "%s panicked (%v) on [%s / %s on a %s ciphertext]: %s", de.name, pv, class, desc, rc.l, engine.Hex(cand))
			continue
		}
		switch {
		case err == nil && !accept:
			t.Fail(rc.prefix+"decrypt/accepts-invalid/"+class, "%s returned %s for a byte string the specification rejects [%s on a %s ciphertext]: %s", de.name, engine.Hex(got), desc, rc.l, engine.Hex(cand))
		case err == nil && !bytes.Equal(got, want):
			t.Fail(rc.prefix+"decrypt/wrong-plaintext/"+class, "%s returned %s, specification says %s [%s on a %s ciphertext]: %s", de.name, engine.Hex(got), engine.Hex(want), desc, rc.l, engine.Hex(cand))
		case err != nil && accept && !open_:
			t.Fail(rc.prefix+"decrypt/rejects-valid/"+class, "%s refused (%v) a byte string that the specification decrypts to %s [%s on a %s ciphertext]: %s", de.name, err, engine.Hex(want), desc, rc.l, engine.Hex(cand))
		case err != nil:
			t.Outcome("hostile-rejected")
		default:
			t.Outcome("hostile-accepted-as-spec")
		}
	}
	if rc.convs {
		// converters on hostile input: error or output, never a panic
		for _, op := range convOps() {
			if op.from(rc.l) {
				if pv, frame := c06.Guarded(func() { op.f(rc.l, append([]byte{}, cand...)) }); pv != nil {
					t.Fail(rc.prefix+"convert/hostile/panic@"+frame, "%s panicked (%v) on [%s / %s on a %s ciphertext]: %s", op.name, pv, class, desc, rc.l, engine.Hex(cand))
				}
				t.Eval(1)
			}
		}
	}
}

func (rc *rejCtx) mutants(seed []byte, thorough bool) {
	// every byte x {^01, ^80}
	buf := make([]byte, len(seed))
	for i := range seed {
		for _, x := range []byte{0x01, 0x80} {
			copy(buf, seed)
			buf[i] ^= x
			rc.check("flip", fmt.Sprintf("byte %d ^ %02x", i, x), buf)
		}
	}
	// every truncation, some extensions
	for n := 0; n < len(seed); n++ {
		rc.check("trunc", fmt.Sprintf("truncated to %d of %d bytes", n, len(seed)), seed[:n])
	}
	for _, e := range [][]byte{{0}, {0xff}, seed[len(seed)-1:]} {
		rc.check("extend", fmt.Sprintf("extended by %x", e), append(append([]byte{}, seed...), e...))
	}
	if thorough {
		engine.EachMutant(seed, engine.MutOpt{AllValues: false, DER: rc.l.asn1, NoTrunc: true}, func(desc string, m []byte) {
			rc.check(mutClass(desc), desc, m)
		})
	}
}

func rejectKeys(quick bool) []int {
	if quick {
		return []int{0, 2, 5}
	}
	return []int{0, 1, 2, 3, 4, 5, 6, 7, 8, 9, 10, 11}
}

func rejectLens(quick bool) []int {
	if quick {
		return []int{1, 16, 33, 100}
	}
	return []int{1, 2, 16, 32, 33, 100, 255}
}

// rejectSeed builds the seed ciphertext of a rejection case.
func rejectSeed(t *engine.T, ki, ml int, l layout) (*kctx, []byte, bool) {
	kc := newKctx(ki)
	msg := c06.Pattern(ml, 0x21)
	ref, _ := kc.refEncryptStream([][]byte{ecref.Bytes32(scalarFor(fmt.Sprintf("verif/c07/rej/%d", ki), ml))}, msg)
	seed := l.encode(ref)
	return kc, seed, mustDecrypt(t, "decrypt/reference-ciphertext-refused", kc.priv, l, seed, msg, "rejection seed")
}

// rejectAll255Case: every byte of the C1 region x all 255 other values (thorough).
func rejectAll255Case(t *engine.T, ki, ml int, l layout, from, to int) {
	kc, seed, ok := rejectSeed(t, ki, ml, l)
	if !ok {
		return
	}
	rc := &rejCtx{t: t, kc: kc, l: l, entries: decEntries(l), priv: kc.priv, dc: kc.dc}
	buf := make([]byte, len(seed))
	for i := from; i < to && i < len(seed); i++ {
		copy(buf, seed)
		for v := 0; v < 256; v++ {
			if byte(v) == seed[i] {
				continue
			}
			buf[i] = byte(v)
			rc.check("sub255", fmt.Sprintf("byte %d = %02x", i, v), buf)
		}
	}
	t.Extra("reference_generic_scalar_mults", kc.dc.muls)
}

// rejectPairsCase: all 2-deviation mutants (9-value substitution set) with the first position in [from,to) (thorough).
func rejectPairsCase(t *engine.T, ki, ml int, l layout, from, to int) {
	kc, seed, ok := rejectSeed(t, ki, ml, l)
	if !ok {
		return
	}
	rc := &rejCtx{t: t, kc: kc, l: l, entries: decEntries(l)[:1], priv: kc.priv, dc: kc.dc}
	buf := make([]byte, len(seed))
	for a := from; a < to && a < len(seed); a++ {
		for _, va := range engine.SmallSubs(seed[a]) {
			for b := a + 1; b < len(seed); b++ {
				for _, vb := range engine.SmallSubs(seed[b]) {
					copy(buf, seed)
					buf[a], buf[b] = va, vb
					rc.check("sub2", fmt.Sprintf("byte %d = %02x, byte %d = %02x", a, va, b, vb), buf)
				}
			}
		}
	}
	t.Extra("reference_generic_scalar_mults", kc.dc.muls)
}

func rejectCase(t *engine.T, ki, ml int, l layout) {
	kc, seed, ok := rejectSeed(t, ki, ml, l)
	if !ok {
		return
	}
	rc := &rejCtx{t: t, kc: kc, l: l, entries: decEntries(l), priv: kc.priv, dc: kc.dc, convs: true}
	rc.mutants(seed, !t.Quick())
	// wrong key
	ks := c06.Keys()
	other := ks[(ki+1)%len(ks)]
	wr := &rejCtx{t: t, kc: kc, l: l, entries: decEntries(l), priv: c06.LibPriv(other.D, other.Pub), dc: newDecryptor(kc.c, other.D)}
	wr.check("wrong-key", "valid ciphertext for another key", seed)
	t.Extra("reference_generic_scalar_mults", kc.dc.muls+wr.dc.muls)
	if ki == 0 && ml == 16 && l.asn1 {
		t.Sample(map[string]any{"part": "rejection", "key": kc.key.Name, "msg_len": ml, "layout": l.String(), "seed": fmt.Sprintf("%x", seed)})
	}
}

// smallXPoint returns the curve point with the smallest x >= 1 (x + p still fits 32 bytes).
func smallXPoint(c *ecref.Curve) ecref.Point {
	for x := int64(1); x < 1000; x++ {
		if p, ok := c.LiftX(big.NewInt(x), 0); ok {
			return p
		}
	}
	panic("c07: no small-x point")
}

// ctFor builds, with the private key, the ciphertext that the encryption algorithm emits when its C1 is q.
func ctFor(dc *decryptor, q ecref.Point, msg []byte) (refCT, bool) {
	return sealWithN(dc.bl, q, dc.shared(q), msg)
}

func structuredC1Case(t *engine.T, ki int) {
	kc := newKctx(ki)
	c := kc.c
	msg := c06.Pattern(20, 0x17)
	ref, _ := kc.refEncryptStream([][]byte{ecref.Bytes32(scalarFor("verif/c07/struct", ki))}, msg)
	q := smallXPoint(c)
	small, ok := ctFor(kc.dc, q, msg)
	if !ok {
		t.Fail("HARNESS/small-x-construction", "")
		return
	}
	one := big.NewInt(1)
	for _, l := range layouts {
		rc := &rejCtx{t: t, kc: kc, l: l, entries: decEntries(l), priv: kc.priv, dc: kc.dc, convs: true}
		// a legitimate ciphertext whose C1 is the small-x point (k unknown, but it is an output of the algorithm)
		mustDecrypt(t, "decrypt/reference-ciphertext-refused", kc.priv, l, l.encode(small), msg, fmt.Sprintf("C1 = point with x=%d", q.X))
		with := func(ct refCT, x, y *big.Int) refCT { return refCT{C1: ecref.Point{X: x, Y: y}, C2: ct.C2, C3: ct.C3} }
		xp := new(big.Int).Add(q.X, c.P)
		yneg := new(big.Int).Sub(c.P, ref.C1.Y)
		cands := []struct {
			name string
			ct   refCT
		}{
			{"c1/y+1(off-curve)", with(ref, ref.C1.X, new(big.Int).Mod(new(big.Int).Add(ref.C1.Y, one), c.P))},
			{"c1/x+1", with(ref, new(big.Int).Mod(new(big.Int).Add(ref.C1.X, one), c.P), ref.C1.Y)},
			{"c1/(0,0)", with(ref, big.NewInt(0), big.NewInt(0))},
			{"c1/(0,1)", with(ref, big.NewInt(0), one)},
			{"c1/x=p", with(ref, new(big.Int).Set(c.P), ref.C1.Y)},
			{"c1/x+p(small-x point)", with(small, xp, q.Y)},
			{"c1/negated-point", with(ref, ref.C1.X, yneg)},
			{"c1/swapped-coordinates", with(ref, ref.C1.Y, ref.C1.X)},
			{"c1/generator", with(ref, c.Gx, c.Gy)},
		}
		for _, cd := range cands {
			if l.comp && (strings.Contains(cd.name, "y+1") || strings.Contains(cd.name, "(0,") || strings.Contains(cd.name, "swapped")) {
				continue // y is not transmitted in compressed form
			}
			rc.check("structured/"+cd.name, cd.name, l.encode(cd.ct))
		}
		if l.asn1 {
			// negative and over-long coordinates only exist in the ASN.1 form
			rc.check("structured/c1/x-p(negative)", "x - p", l.encode(with(small, new(big.Int).Sub(q.X, c.P), q.Y)))
			rc.check("structured/c1/y-p(negative)", "y - p", l.encode(with(ref, ref.C1.X, new(big.Int).Sub(ref.C1.Y, c.P))))
			rc.check("structured/c1/x+2^256", "x + 2^256", l.encode(with(ref, new(big.Int).Add(ref.C1.X, new(big.Int).Lsh(one, 256)), ref.C1.Y)))
			rc.check("structured/c3-31-bytes", "C3 of 31 bytes", l.encode(refCT{C1: ref.C1, C2: ref.C2, C3: ref.C3[:31]}))
			rc.check("structured/c3-33-bytes", "C3 of 33 bytes", l.encode(refCT{C1: ref.C1, C2: ref.C2, C3: append(append([]byte{}, ref.C3...), 0)}))
			rc.check("structured/c2-empty", "empty C2", l.encode(refCT{C1: ref.C1, C2: nil, C3: ref.C3}))
			rc.check("structured/c2c3-swapped", "C2 and C3 swapped", l.encode(refCT{C1: ref.C1, C2: ref.C3, C3: ref.C2}))
		} else {
			// compressed x that is not the abscissa of a point
			x := new(big.Int).Set(ref.C1.X)
			for {
				x.Add(x, one)
				if _, ok := c.LiftX(x, 0); !ok {
					break
				}
			}
			if l.comp {
				rc.check("structured/c1/non-residue-x", "x with no square root", l.encode(with(ref, x, big.NewInt(0))))
				bad := l.encode(with(small, xp, big.NewInt(0)))
				bad[0] = 2 | byte(q.Y.Bit(0))
				rc.check("structured/c1/x+p(small-x point)", "compressed x + p", bad)
			}
			// first-byte forms: 00 (infinity), 01, 05, 06/07 hybrid with right and wrong parity
			enc := l.encode(ref)
			for _, b0 := range []byte{0x00, 0x01, 0x05, 0x08, 0x30, 0xff} {
				m := append([]byte{}, enc...)
				m[0] = b0
				rc.check(fmt.Sprintf("structured/c1/prefix-%02x", b0), fmt.Sprintf("first byte %02x", b0), m)
			}
			rc.check("structured/c1/infinity-single-00", "C1 = 00 (infinity) || rest", append([]byte{0}, enc[len(enc)-len(ref.C2)-32:]...))
			if !l.comp {
				rc.check("structured/c1/hybrid-right-parity", "hybrid C1", hybridEncode(ref, l.order, ref.C1.Y.Bit(0)))
				rc.check("structured/c1/hybrid-wrong-parity", "hybrid C1 with wrong parity bit", hybridEncode(ref, l.order, 1-ref.C1.Y.Bit(0)))
			}
		}
	}
	t.Extra("reference_generic_scalar_mults", kc.dc.muls)
}

// ---------------------------------------------------------------------------------------------
// Run

func (Prop) Run(c *engine.Ctx) {
	if liteConfig(c.Config) {
		runLite(c)
		return
	}
	lens := msgLens()
	nk := len(c06.Keys())
	for ki := 0; ki < nk; ki++ {
		ki := ki
		for from := 0; from < len(lens); from += 10 {
			to := from + 10
			if to > len(lens) {
				to = len(lens)
			}
			chunk := lens[from:to]
			c.Case(fmt.Sprintf("roundtrip/key=%d/len=%d..%d", ki, chunk[0], chunk[len(chunk)-1]), func(t *engine.T) { roundTripCase(t, ki, chunk) })
		}
		c.Case(fmt.Sprintf("roundtrip/key=%d/edge-ephemeral-blocks", ki), func(t *engine.T) { edgeScalarCase(t, ki) })
		kmax := 16
		if !c.Quick() {
			kmax = 64
		}
		c.Case(fmt.Sprintf("zero-c2/M=t/key=%d/k=1..%d", ki, kmax), func(t *engine.T) { zeroC2Case(t, ki, kmax) })
		c.Case(fmt.Sprintf("zero-c2/searched-1-byte/key=%d", ki), func(t *engine.T) {
			searchedZeroC2Case(t, ki, [][]byte{{0x01}, {'A'}, {0x80}, {0xff}}, 8192)
		})
		c.Case(fmt.Sprintf("zero-t/searched-1-byte/key=%d", ki), func(t *engine.T) { zeroMaskCase(t, ki, 1, 8192) })
		for _, np := range [][2]int{{2, 0}, {2, 1}, {3, 0}, {3, 1}, {3, 2}} {
			n, pos := np[0], np[1]
			if n == 3 && ki != 0 && c.Quick() {
				continue // ~65 000 trials each: one key in the quick tier
			}
			c.Case(fmt.Sprintf("nearly-zero-mask/key=%d/len=%d/pos=%d", ki, n, pos), func(t *engine.T) { nearlyZeroMaskCase(t, ki, n, pos, 2000000) })
		}
		if !c.Quick() {
			c.Case(fmt.Sprintf("zero-c2/searched-2-byte/key=%d", ki), func(t *engine.T) {
				searchedZeroC2Case(t, ki, [][]byte{[]byte("OK"), {0x00, 0x01}}, 2000000)
			})
			c.Case(fmt.Sprintf("zero-t/searched-2-byte/key=%d", ki), func(t *engine.T) { zeroMaskCase(t, ki, 2, 2000000) })
		}
		c.Case(fmt.Sprintf("enveloped/key=%d", ki), func(t *engine.T) { envelopedCase(t, ki) })
	}
	for _, ki := range rejectKeys(c.Quick()) {
		ki := ki
		for _, ml := range rejectLens(c.Quick()) {
			ml := ml
			for _, l := range layouts {
				l := l
				c.Case(fmt.Sprintf("reject/key=%d/len=%d/%s", ki, ml, l), func(t *engine.T) { rejectCase(t, ki, ml, l) })
			}
		}
		c.Case(fmt.Sprintf("reject/key=%d/structured", ki), func(t *engine.T) { structuredC1Case(t, ki) })
	}
	if !c.Quick() {
		for _, l := range layouts {
			l := l
			for _, ki := range []int{0, 5} {
				ki := ki
				for from := 0; from < 72; from += 8 {
					from := from
					c.Case(fmt.Sprintf("reject-all255/key=%d/len=16/%s/bytes=%d..%d", ki, l, from, from+7), func(t *engine.T) { rejectAll255Case(t, ki, 16, l, from, from+8) })
				}
			}
			for from := 0; from < 112; from += 4 {
				from := from
				c.Case(fmt.Sprintf("reject-pairs/key=5/len=1/%s/first=%d..%d", l, from, from+3), func(t *engine.T) { rejectPairsCase(t, 5, 1, l, from, from+4) })
			}
		}
	}
	runLegacy(c)
	runWiden(c)
	runRekey(c)
	runShapes(c)
	runCurves(c)
}
