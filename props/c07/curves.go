package c07

// Every curve the math/big path of sm2_legacy.go accepts, not only P-256: field sizes that are not 32 bytes (P-224: 28,
// P-384: 48) or not a whole number of bytes (P-521: 521 bits, 66 bytes, candidate scalars with 7 excess bits), and the
// SM2 parameters themselves handed over as a plain *elliptic.CurveParams (a different object than sm2.P256(), so the
// library takes the legacy path on the SM2 curve). GB/T 32918.4 is defined over any curve y^2 = x^3 + ax + b over F_p;
// field elements become byte strings of l = ceil(log2(p)/8) bytes (GB/T 32918.1 §4.2.5).

import (
	"bytes"
	"crypto/ecdsa"
	"crypto/elliptic"
	"fmt"
	"math/big"
	"sync"

	"github.com/emmansun/gmsm/sm2"

	"verif/engine"
	"verif/props/c06"
	"verif/ref/ecref"
	"verif/ref/sm3ref"
)

type curveSpec struct {
	name  string
	cv    elliptic.Curve // library-side curve object
	ref   *ecref.Curve   // reference-side parameters
	zeros int            // leading zero bytes asked of the shape walk
}

var (
	extraOnce   sync.Once
	extraSpecs  []curveSpec
	sm2ParamsCp elliptic.CurveParams
)

func nistRef(cv elliptic.Curve) *ecref.Curve {
	p := cv.Params()
	return &ecref.Curve{P: p.P, A: new(big.Int).Sub(p.P, big.NewInt(3)), B: p.B, N: p.N, Gx: p.Gx, Gy: p.Gy}
}

// extraCurves: NIST parameters come from the Go standard library (as for P-256 in c06), the SM2 parameters of the
// reference side from the harness' own constants.
func extraCurves() []curveSpec {
	extraOnce.Do(func() {
		sm2ParamsCp = *sm2.P256().Params() // same numbers and name, another object: not recognised as "the" SM2 curve
		extraSpecs = []curveSpec{
			{"P-224", elliptic.P224(), nistRef(elliptic.P224()), 1},
			{"P-384", elliptic.P384(), nistRef(elliptic.P384()), 1},
			{"P-521", elliptic.P521(), nistRef(elliptic.P521()), 2}, // the top byte of a 521-bit field holds one bit
			{"SM2-params-generic", &sm2ParamsCp, ecref.SM2(), 1},
		}
	})
	return extraSpecs
}

// memoMul is [k]base by the reference's plain double-and-add, remembered per scalar.
type memoMul struct {
	c    *ecref.Curve
	base ecref.Point
	memo map[string]ecref.Point
}

func (m *memoMul) Mul(k *big.Int) ecref.Point {
	key := k.String()
	if p, ok := m.memo[key]; ok {
		return p
	}
	p := m.c.Mul(k, m.base)
	m.memo[key] = p
	return p
}

// wide derives a scalar in [1, n-2] of the full width of n from three chained SM3 values.
func wide(c *ecref.Curve, label string, i int) *big.Int {
	var b []byte
	for j := 0; j < 3; j++ {
		h := sm3ref.Sum([]byte(fmt.Sprintf("%s/%d/%d", label, i, j)))
		b = append(b, h[:]...)
	}
	v := new(big.Int).SetBytes(b)
	v.Mod(v, new(big.Int).Sub(c.N, big.NewInt(2)))
	return v.Add(v, big.NewInt(1))
}

var (
	curveCtxMu sync.Mutex
	curveCtxs  = map[string]*kctx{}
)

// curveKctx: di = 0 full-width private scalar, di = 1 the scalar 5 (a legitimate key pair whose reference-side
// decryption is cheap: used where many different C1 have to be judged).
func curveKctx(sp curveSpec, di int) *kctx {
	curveCtxMu.Lock()
	defer curveCtxMu.Unlock()
	id := fmt.Sprintf("%s/%d", sp.name, di)
	if kc, ok := curveCtxs[id]; ok {
		return kc
	}
	c := sp.ref
	d := []*big.Int{wide(c, "verif/c07/curve-d/"+sp.name, 1), big.NewInt(5)}[di]
	g := &memoMul{c: c, base: c.G(), memo: map[string]ecref.Point{}}
	pubPt := g.Mul(d)
	pub := &ecdsa.PublicKey{Curve: sp.cv, X: new(big.Int).Set(pubPt.X), Y: new(big.Int).Set(pubPt.Y)}
	priv := &sm2.PrivateKey{PrivateKey: ecdsa.PrivateKey{PublicKey: *pub, D: new(big.Int).Set(d)}}
	bl := (c.P.BitLen() + 7) / 8
	kc := &kctx{pfx: "legacy/" + sp.name + "/", idx: di, key: c06.Key{Name: fmt.Sprintf("%s/d#%d", sp.name, di), D: d, Pub: pubPt}, c: c, g: g,
		p: &memoMul{c: c, base: pubPt, memo: map[string]ecref.Point{}}, bl: bl, pub: pub, priv: priv,
		dc: &decryptor{c: c, d: d, memo: map[string]ecref.Point{}, bl: bl}}
	curveCtxs[id] = kc
	return kc
}

// learn tells the reference decryptor the shared point of the ephemeral scalar k (saves a generic multiplication).
func (kc *kctx) learn(k *big.Int) {
	kc.dc.know(kc.g.Mul(k), kc.p.Mul(k))
}

func selfTestCurves() error {
	for _, sp := range extraCurves() {
		c := sp.ref
		if !c.OnCurve(c.G()) || !c.BaseMul(c.N).Inf {
			return fmt.Errorf("c07: reference parameters of %s inconsistent", sp.name)
		}
		// the reference arithmetic against the Go standard library's implementation of the same curve (independent of the
		// repository; the SM2 copy is covered by ecref's own self-test)
		if sp.name != "SM2-params-generic" {
			d := wide(c, "verif/c07/curve-selftest", 1)
			q := c.BaseMul(d)
			x, y := sp.cv.ScalarBaseMult(d.Bytes())
			if q.X.Cmp(x) != 0 || q.Y.Cmp(y) != 0 {
				return fmt.Errorf("c07: reference [d]G on %s differs from crypto/elliptic", sp.name)
			}
		}
	}
	// the size-generic reference at 32 bytes is the 32-byte reference
	c := ecref.SM2()
	g := c06.GTable()
	d := c06.HashChain("verif/c07/selftest", 2)
	pubT := c06.TableFor(c, g.Mul(d))
	k := c06.HashChain("verif/c07/selftest-k", 9)
	msg := c06.Pattern(70, 0x34)
	a, ok1 := fastEncryptWithKN(32, g, pubT, k, msg)
	b, ok2 := fastEncryptWithK(g, pubT, k, msg)
	if !ok1 || !ok2 {
		return fmt.Errorf("c07: size-generic reference refuses a scalar")
	}
	for _, l := range layouts {
		if !bytes.Equal(l.encode(a), l.encode(b)) {
			return fmt.Errorf("c07: size-generic reference differs from the 32-byte reference (layout %s)", l)
		}
		dc := &decryptor{c: c, d: d, memo: map[string]ecref.Point{}, bl: 32}
		if m, acc, _ := dc.open(l.encode(b), l.order); !acc || !bytes.Equal(m, msg) {
			return fmt.Errorf("c07: size-generic reference does not open layout %s", l)
		}
	}
	return nil
}

// ---------------------------------------------------------------------------------------------
// cases

func curveRoundTrip(t *engine.T, sp curveSpec) {
	kc := curveKctx(sp, 0)
	bl := kc.bl
	ks := []*big.Int{big.NewInt(2), big.NewInt(3), big.NewInt(7), big.NewInt(11), big.NewInt(300), wide(kc.c, "verif/c07/curve-k/"+sp.name, 1), wide(kc.c, "verif/c07/curve-k/"+sp.name, 2)}
	for i, n := range []int{1, 2, 31, 32, 33, 64, 100, 255, 257, bl - 1, bl, bl + 1, 2 * bl, 2*bl + 1} {
		k := ks[i%len(ks)]
		kc.learn(k)
		msg := c06.Pattern(n, 0x74)
		what := fmt.Sprintf("k=#%d", i%len(ks))
		ref := kc.encryptAndRoundTrip(t, [][]byte{kc.block(k)}, msg, what)
		if !ref.C1.Equal(kc.g.Mul(k)) {
			continue // the scripted scalar had an all-zero mask for this length: the stream went on
		}
		for _, l := range layouts {
			t.Nontrivial(fmt.Sprintf("%sref-ct/len=%d/%s", kc.pfx, n, l))
			mustDecrypt(t, kc.pfx+"decrypt/reference-ciphertext-refused", kc.priv, l, l.encode(ref), msg, fmt.Sprintf("reference ciphertext, %s, msgLen=%d", kc.key.Name, n))
		}
	}
	// edge candidate blocks: 0, n-1, n, all ones (on P-521 the excess bits are cleared first), then a good one
	one := big.NewInt(1)
	second := kc.block(big.NewInt(13))
	kc.learn(big.NewInt(13))
	nm1 := new(big.Int).Sub(kc.c.N, one)
	kc.learn(nm1)
	ones := bytes.Repeat([]byte{0xff}, kc.nb())
	for _, b := range [][]byte{kc.block(big.NewInt(0)), kc.block(nm1), kc.block(kc.c.N), ones} {
		kc.encryptAndRoundTrip(t, [][]byte{b, second}, c06.Pattern(33, 0x75), fmt.Sprintf("first block %x…", b[:4]))
	}
	kc.keyIntact(t, "the round trips")
}

func curveZero(t *engine.T, sp curveSpec) {
	kc := curveKctx(sp, 0)
	s := ecref.Inf()
	for k := 1; k <= 8; k++ {
		s = kc.c.Add(s, kc.key.Pub)
		kb := big.NewInt(int64(k))
		c1 := kc.g.Mul(kb)
		kc.dc.know(c1, s)
		for _, ml := range []int{1, 2, 32} {
			msg := maskOfN(kc.bl, s, ml)
			if allZero(msg) {
				continue
			}
			ref, ok := sealWithN(kc.bl, c1, s, msg)
			if !ok || !allZero(ref.C2) {
				t.Fail("HARNESS/zero-c2-construction", "%s k=%d len=%d", sp.name, k, ml)
				return
			}
			t.Nontrivial(fmt.Sprintf("%szero-c2/k=%d/len=%d", kc.pfx, k, ml))
			for _, l := range layouts {
				mustDecrypt(t, kc.pfx+"decrypt/all-zero-c2-refused", kc.priv, l, l.encode(ref), msg, fmt.Sprintf("all-zero C2: %s, k=%d, M=KDF([k]P,%d)=%x", kc.key.Name, k, ml, msg))
			}
		}
	}
	k, sz, ok := kc.searchMask([]byte{0}, 8192)
	t.Extra("mask_search_trials", k)
	if !ok {
		t.Cap(sp.name + ": no k <= 8192 with all-zero 1-byte mask")
		return
	}
	msg := []byte{0x5a}
	ct := refCT{C1: kc.g.Mul(big.NewInt(int64(k))), C2: msg, C3: c3OfN(kc.bl, sz, msg), bl: kc.bl}
	kc.dc.know(ct.C1, sz)
	for _, l := range layouts {
		enc := l.encode(ct)
		if _, acc, _ := kc.dc.open(enc, l.order); acc {
			t.Fail("HARNESS/zero-mask-construction", "reference accepts the all-zero-mask string")
			return
		}
		for _, de := range decEntries(l) {
			var got []byte
			var err error
			if t.Guard(kc.pfx+"decrypt/"+de.name, func() { got, err = de.f(kc.priv, enc) }) {
				continue
			}
			t.Eval(1)
			t.Nontrivial(fmt.Sprintf("%szero-t/%s", kc.pfx, l))
			if err == nil {
				t.Fail(kc.pfx+"decrypt/all-zero-t-accepted", "%s returned %x for a string whose mask t is all zero (%s, C1=[%d]G, layout %s): %s", de.name, got, kc.key.Name, k, l, engine.Hex(enc))
			} else {
				t.Outcome("zero-mask-rejected")
			}
		}
	}
	kc.learn(big.NewInt(17))
	kc.encryptAndRoundTripShape(t, [][]byte{kc.block(big.NewInt(int64(k))), kc.block(big.NewInt(17))}, msg, fmt.Sprintf("first scripted block k=%d gives an all-zero mask", k), "retry-after-all-zero-mask")
}

func curveReject(t *engine.T, sp curveSpec, l layout) {
	kc := curveKctx(sp, 1)
	c := kc.c
	pfx := kc.pfx
	for _, ml := range []int{1, 33} {
		msg := c06.Pattern(ml, 0x24)
		k := big.NewInt(int64(19 + ml))
		ref, _ := kc.refEncryptStream([][]byte{kc.block(k)}, msg)
		{
			seed := l.encode(ref)
			if !mustDecrypt(t, pfx+"decrypt/reference-ciphertext-refused", kc.priv, l, seed, msg, "rejection seed") {
				continue
			}
			rc := &rejCtx{t: t, kc: kc, l: l, prefix: pfx, entries: decEntries(l), priv: kc.priv, dc: kc.dc}
			if ml == 1 || !t.Quick() {
				rc.mutants(seed, !t.Quick())
			}
			if ml != 33 {
				continue
			}
			one := big.NewInt(1)
			with := func(x, y *big.Int) refCT {
				return refCT{C1: ecref.Point{X: x, Y: y}, C2: ref.C2, C3: ref.C3, bl: kc.bl}
			}
			if !l.comp {
				rc.check("structured/c1/y+1(off-curve)", "off-curve C1", l.encode(with(ref.C1.X, new(big.Int).Mod(new(big.Int).Add(ref.C1.Y, one), c.P))))
				rc.check("structured/c1/(0,0)", "C1 = (0,0)", l.encode(with(big.NewInt(0), big.NewInt(0))))
				rc.check("structured/c1/swapped-coordinates", "C1 = (y,x)", l.encode(with(ref.C1.Y, ref.C1.X)))
			}
			if c.P.BitLen()%8 != 0 || l.asn1 {
				// x = p fits the byte string only when the field does not fill its top byte (P-521) or in the ASN.1 form
				rc.check("structured/c1/x=p", "x = p", l.encode(with(new(big.Int).Set(c.P), ref.C1.Y)))
			}
			rc.check("structured/c1/negated-point", "C1 = -C1", l.encode(with(ref.C1.X, new(big.Int).Sub(c.P, ref.C1.Y))))
			if l.asn1 {
				rc.check("structured/c1/y-p(negative)", "y - p", l.encode(with(ref.C1.X, new(big.Int).Sub(ref.C1.Y, c.P))))
				rc.check("structured/c1/x+2^(8l)", "x + 2^(8l)", l.encode(with(new(big.Int).Add(ref.C1.X, new(big.Int).Lsh(one, uint(8*kc.bl))), ref.C1.Y)))
				rc.check("structured/c2-empty", "empty C2", l.encode(refCT{C1: ref.C1, C2: nil, C3: ref.C3, bl: kc.bl}))
			} else if !l.comp {
				if kc.bl > 32 {
					// a ciphertext of the 32-byte layout offered to a key of a larger field
					short := append([]byte{}, seed[:1+2*32]...)
					rc.check("structured/c1/32-byte-coordinates", "C1 cut to 32-byte coordinates", append(short, seed[1+2*kc.bl:]...))
				}
				rc.check("structured/c1/hybrid-right-parity", "hybrid C1", hybridEncode(ref, l.order, ref.C1.Y.Bit(0)))
				rc.check("structured/c1/hybrid-wrong-parity", "hybrid C1 with wrong parity bit", hybridEncode(ref, l.order, 1-ref.C1.Y.Bit(0)))
				for _, b0 := range []byte{0x00, 0x05, 0xff} {
					m := append([]byte{}, seed...)
					m[0] = b0
					rc.check(fmt.Sprintf("structured/c1/prefix-%02x", b0), fmt.Sprintf("first byte %02x", b0), m)
				}
			}
		}
	}
	other := curveKctx(sp, 0)
	ref, _ := kc.refEncryptStream([][]byte{kc.block(big.NewInt(23))}, []byte("wrong key"))
	{
		wr := &rejCtx{t: t, kc: other, l: l, prefix: pfx, entries: decEntries(l), priv: other.priv, dc: other.dc}
		wr.check("wrong-key", "valid ciphertext for another key", l.encode(ref))
	}
	t.Extra("reference_generic_scalar_mults", kc.dc.muls+other.dc.muls)
}

func runCurves(c *engine.Ctx) {
	if c.Quick() && (c.Config == "c-noavx2" || c.Config == "c-nobmi2") {
		// the arithmetic of this path is math/big and the Go standard library: no dispatch tier of the library under
		// test is involved beyond SM3, which the P-256 legacy cases reach in every configuration
		return
	}
	for _, sp := range extraCurves() {
		sp := sp
		c.Case("legacy/"+sp.name+"/roundtrip", func(t *engine.T) { curveRoundTrip(t, sp) })
		c.Case("legacy/"+sp.name+"/zero-c2+zero-t", func(t *engine.T) { curveZero(t, sp) })
		for _, l := range layouts {
			l := l
			c.Case("legacy/"+sp.name+"/reject/"+l.String(), func(t *engine.T) { curveReject(t, sp, l) })
		}
		c.Case("legacy/"+sp.name+"/shape/leading-zero", func(t *engine.T) { leadingZeroCase(t, curveKctx(sp, 0), sp.zeros, 6000) })
		c.Case("legacy/"+sp.name+"/shape/extreme-c1", func(t *engine.T) { extremeC1Case(t, curveKctx(sp, 1)) })
		c.Case("legacy/"+sp.name+"/own", func(t *engine.T) {
			kc := curveKctx(sp, 0)
			for _, n := range []int{33} {
				kc.learn(scalarForCurve(kc, "verif/c07/curve-own-dec", n))
				kc.learn(scalarForCurve(kc, "verif/c07/curve-own-enc", n))
			}
			ownDecryptK(t, kc, curveKctx(sp, 1).priv, []int{33}, func(n int) *big.Int { return scalarForCurve(kc, "verif/c07/curve-own-dec", n) })
			ownEncryptK(t, kc, []int{33}, func(n int) *big.Int { return scalarForCurve(kc, "verif/c07/curve-own-enc", n) })
		})
		c.Case("legacy/"+sp.name+"/retry-depth", func(t *engine.T) { retryDepthCase(t, curveKctx(sp, 0), 1, []int{2}) })
	}
}

// scalarForCurve: small deterministic ephemeral scalars (cheap on the reference side) for the extra curves.
func scalarForCurve(kc *kctx, label string, n int) *big.Int {
	h := sm3ref.Sum([]byte(fmt.Sprintf("%s/%s/%d", label, kc.key.Name, n)))
	return big.NewInt(int64(h[0])<<8 | int64(h[1]) | 0x100)
}
