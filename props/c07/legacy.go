package c07

import (
	"crypto/ecdsa"
	"crypto/elliptic"
	"fmt"
	"math/big"

	"github.com/emmansun/gmsm/sm2"

	"verif/engine"
	"verif/props/c06"
	"verif/ref/ecref"
)

// The math/big path of sm2_legacy.go (any curve other than sm2.P256()), exercised with NIST P-256.

func legacyKctx(cv elliptic.Curve, di int) *kctx {
	c := c06.NISTP256()
	g := c06.TableFor(c, c.G())
	d := []*big.Int{scalarFor("verif/c07/legacy-d", 1), big.NewInt(1), new(big.Int).Sub(c.N, big.NewInt(2))}[di]
	pubPt := g.Mul(d)
	pub := &ecdsa.PublicKey{Curve: cv, X: new(big.Int).Set(pubPt.X), Y: new(big.Int).Set(pubPt.Y)}
	priv := &sm2.PrivateKey{PrivateKey: ecdsa.PrivateKey{PublicKey: *pub, D: new(big.Int).Set(d)}}
	name := fmt.Sprintf("%s/d#%d", c06.CurveName(cv), di)
	return &kctx{pfx: "legacy/", idx: di, key: c06.Key{Name: name, D: d, Pub: pubPt}, c: c, g: g, p: c06.TableFor(c, pubPt), pub: pub, priv: priv, dc: newDecryptor(c, d)}
}

func legacyCurves() []elliptic.Curve { return []elliptic.Curve{elliptic.P256(), c06.WrappedP256()} }

func legacyRoundTrip(t *engine.T, cv elliptic.Curve, di int) {
	kc := legacyKctx(cv, di)
	for _, n := range []int{1, 2, 31, 32, 33, 64, 100, 255} {
		msg := c06.Pattern(n, 0x71)
		ref := kc.encryptAndRoundTrip(t, [][]byte{ecref.Bytes32(scalarFor("verif/c07/legacy-k", n))}, msg, "k=hash")
		for _, l := range layouts {
			t.Nontrivial(fmt.Sprintf("legacy/ref-ct/%s/len=%d/%s", kc.key.Name, n, l))
			mustDecrypt(t, "legacy/decrypt/reference-ciphertext-refused", kc.priv, l, l.encode(ref), msg, fmt.Sprintf("reference ciphertext, %s, msgLen=%d", kc.key.Name, n))
		}
	}
	// edge ephemeral blocks
	one := big.NewInt(1)
	second := ecref.Bytes32(scalarFor("verif/c07/legacy-k", 7))
	for _, v := range []*big.Int{big.NewInt(0), one, new(big.Int).Sub(kc.c.N, one), kc.c.N, new(big.Int).Sub(new(big.Int).Lsh(one, 256), one)} {
		kc.encryptAndRoundTrip(t, [][]byte{ecref.Bytes32(v), second}, c06.Pattern(33, 0x72), fmt.Sprintf("k=%x", v))
	}
}

func legacyZero(t *engine.T, cv elliptic.Curve) {
	kc := legacyKctx(cv, 0)
	s := ecref.Inf()
	for k := 1; k <= 8; k++ {
		s = kc.c.Add(s, kc.key.Pub)
		c1 := kc.g.Mul(big.NewInt(int64(k)))
		for _, ml := range []int{1, 2, 32} {
			msg := maskOf(s, ml)
			if allZero(msg) {
				continue
			}
			ref, ok := sealWith(c1, s, msg)
			if !ok || !allZero(ref.C2) {
				t.Fail("HARNESS/zero-c2-construction", "legacy k=%d len=%d", k, ml)
				return
			}
			t.Nontrivial(fmt.Sprintf("legacy/zero-c2/%s/k=%d/len=%d", kc.key.Name, k, ml))
			for _, l := range layouts {
				mustDecrypt(t, "legacy/decrypt/all-zero-c2-refused", kc.priv, l, l.encode(ref), msg, fmt.Sprintf("all-zero C2: %s, k=%d, M=KDF([k]P,%d)=%x", kc.key.Name, k, ml, msg))
			}
		}
	}
	// all-zero mask: not an output of the algorithm, B4 rejects
	k, sz, ok := kc.searchMask([]byte{0}, 8192)
	t.Extra("mask_search_trials", k)
	if !ok {
		t.Cap("legacy: no k with all-zero 1-byte mask")
		return
	}
	msg := []byte{0x5a}
	ct := refCT{C1: kc.g.Mul(big.NewInt(int64(k))), C2: msg, C3: c3Of(sz, msg)}
	for _, l := range layouts {
		enc := l.encode(ct)
		for _, de := range decEntries(l) {
			var got []byte
			var err error
			if t.Guard("legacy/decrypt/"+de.name, func() { got, err = de.f(kc.priv, enc) }) {
				continue
			}
			t.Eval(1)
			t.Nontrivial(fmt.Sprintf("legacy/zero-t/%s/%s", kc.key.Name, l))
			if err == nil {
				t.Fail("legacy/decrypt/all-zero-t-accepted", "%s returned %x for a string whose mask t is all zero (%s, C1=[%d]G, layout %s): %s", de.name, got, kc.key.Name, k, l, engine.Hex(enc))
			}
		}
	}
}

func legacyReject(t *engine.T, cv elliptic.Curve) {
	kc := legacyKctx(cv, 0)
	c := kc.c
	for _, ml := range []int{1, 33} {
		msg := c06.Pattern(ml, 0x23)
		ref, _ := kc.refEncryptStream([][]byte{ecref.Bytes32(scalarFor("verif/c07/legacy-rej", ml))}, msg)
		for _, l := range layouts {
			seed := l.encode(ref)
			if !mustDecrypt(t, "legacy/decrypt/reference-ciphertext-refused", kc.priv, l, seed, msg, "rejection seed") {
				continue
			}
			rc := &rejCtx{t: t, kc: kc, l: l, prefix: "legacy/", entries: decEntries(l), priv: kc.priv, dc: kc.dc}
			rc.mutants(seed, !t.Quick())
			if ml != 33 {
				continue
			}
			one := big.NewInt(1)
			with := func(x, y *big.Int) refCT { return refCT{C1: ecref.Point{X: x, Y: y}, C2: ref.C2, C3: ref.C3} }
			if !l.comp {
				rc.check("structured/c1/y+1(off-curve)", "off-curve C1", l.encode(with(ref.C1.X, new(big.Int).Mod(new(big.Int).Add(ref.C1.Y, one), c.P))))
				rc.check("structured/c1/(0,0)", "C1 = (0,0)", l.encode(with(big.NewInt(0), big.NewInt(0))))
				rc.check("structured/c1/swapped-coordinates", "C1 = (y,x)", l.encode(with(ref.C1.Y, ref.C1.X)))
			}
			rc.check("structured/c1/x=p", "x = p", l.encode(with(new(big.Int).Set(c.P), ref.C1.Y)))
			rc.check("structured/c1/negated-point", "C1 = -C1", l.encode(with(ref.C1.X, new(big.Int).Sub(c.P, ref.C1.Y))))
			if l.asn1 {
				rc.check("structured/c1/y-p(negative)", "y - p", l.encode(with(ref.C1.X, new(big.Int).Sub(ref.C1.Y, c.P))))
				rc.check("structured/c1/x+2^256", "x + 2^256", l.encode(with(new(big.Int).Add(ref.C1.X, new(big.Int).Lsh(one, 256)), ref.C1.Y)))
				rc.check("structured/c2-empty", "empty C2", l.encode(refCT{C1: ref.C1, C2: nil, C3: ref.C3}))
			} else if !l.comp {
				rc.check("structured/c1/hybrid-right-parity", "hybrid C1", hybridEncode(ref, l.order, ref.C1.Y.Bit(0)))
				rc.check("structured/c1/hybrid-wrong-parity", "hybrid C1 with wrong parity bit", hybridEncode(ref, l.order, 1-ref.C1.Y.Bit(0)))
				for _, b0 := range []byte{0x00, 0x05, 0xff} {
					m := append([]byte{}, seed...)
					m[0] = b0
					rc.check(fmt.Sprintf("structured/c1/prefix-%02x", b0), fmt.Sprintf("first byte %02x", b0), m)
				}
			}
		}
	}
	other := legacyKctx(cv, 2)
	ref, _ := kc.refEncryptStream([][]byte{ecref.Bytes32(scalarFor("verif/c07/legacy-rej", 5))}, []byte("wrong key"))
	for _, l := range layouts {
		wr := &rejCtx{t: t, kc: other, l: l, prefix: "legacy/", entries: decEntries(l), priv: other.priv, dc: other.dc}
		wr.check("wrong-key", "valid ciphertext for another key", l.encode(ref))
	}
}

func runLegacy(c *engine.Ctx) {
	for ci, cv := range legacyCurves() {
		cv := cv
		nm := []string{"P-256", "P-256-generic"}[ci]
		for di := 0; di < 3; di++ {
			di := di
			c.Case(fmt.Sprintf("legacy/roundtrip/%s/d#%d", nm, di), func(t *engine.T) { legacyRoundTrip(t, cv, di) })
		}
		c.Case("legacy/zero-c2+zero-t/"+nm, func(t *engine.T) { legacyZero(t, cv) })
		c.Case("legacy/reject/"+nm, func(t *engine.T) { legacyReject(t, cv) })
	}
}
