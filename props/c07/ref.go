// Package c07: SM2 public-key encryption — round trip over all layouts (E2), constructive all-zero-C2 / all-zero-t
// ciphertexts, converter chains (E1 over the converter alphabet) and rejection of every other byte string (E3).
package c07

import (
	"bytes"
	"fmt"
	"math/big"

	"verif/props/c06"
	"verif/ref/ecref"
	"verif/ref/sm3ref"
)

// refCT is a ciphertext as the standard defines it: the point C1 and the strings C2, C3.
type refCT struct {
	C1     ecref.Point
	C2, C3 []byte
}

func allZero(b []byte) bool {
	for _, x := range b {
		if x != 0 {
			return false
		}
	}
	return true
}

// shared is x2||y2 of S = [k]P (encryption side) or [d]C1 (decryption side).
func sharedBytes(s ecref.Point) (x2, y2 []byte) { return ecref.Bytes32(s.X), ecref.Bytes32(s.Y) }

func maskOf(s ecref.Point, n int) []byte {
	x2, y2 := sharedBytes(s)
	return sm3ref.KDF(append(append([]byte{}, x2...), y2...), n)
}

func c3Of(s ecref.Point, msg []byte) []byte {
	x2, y2 := sharedBytes(s)
	h := sm3ref.Sum(append(append(append([]byte{}, x2...), msg...), y2...))
	return h[:]
}

// sealWith is GB/T 32918.4 §6.1 steps A5-A7 given C1 and the shared point S; ok=false when t is all zero.
func sealWith(c1, s ecref.Point, msg []byte) (refCT, bool) {
	t := maskOf(s, len(msg))
	if len(msg) > 0 && allZero(t) {
		return refCT{}, false
	}
	c2 := make([]byte, len(msg))
	for i := range msg {
		c2[i] = msg[i] ^ t[i]
	}
	return refCT{C1: c1, C2: c2, C3: c3Of(s, msg)}, true
}

// fastEncryptWithK is ecref.EncryptWithK with [k]G and [k]P taken from window tables (cross-checked in SelfTest).
func fastEncryptWithK(g, p *c06.Table, k *big.Int, msg []byte) (refCT, bool) {
	s := p.Mul(k)
	if s.Inf {
		return refCT{}, false
	}
	return sealWith(g.Mul(k), s, msg)
}

// openWith is GB/T 32918.4 §7.1 steps B4-B6 given the shared point.
func openWith(s ecref.Point, c2, c3 []byte) ([]byte, bool) {
	t := maskOf(s, len(c2))
	if len(c2) > 0 && allZero(t) {
		return nil, false
	}
	m := make([]byte, len(c2))
	for i := range m {
		m[i] = c2[i] ^ t[i]
	}
	if !bytes.Equal(c3Of(s, m), c3) {
		return nil, false
	}
	return m, true
}

// ---------------------------------------------------------------------------------------------
// layouts

type layout struct {
	asn1  bool
	order int  // 0 = C1C3C2, 1 = C1C2C3 (plain only)
	comp  bool // compressed C1 (plain only)
}

var layouts = []layout{{false, 0, false}, {false, 1, false}, {false, 0, true}, {false, 1, true}, {asn1: true}}

func (l layout) String() string {
	if l.asn1 {
		return "asn1"
	}
	s := "C1C3C2"
	if l.order == 1 {
		s = "C1C2C3"
	}
	if l.comp {
		return s + "/compressed"
	}
	return s + "/uncompressed"
}

func (l layout) encode(ct refCT) []byte {
	if l.asn1 {
		var body []byte
		body = append(body, c06.TLV(0x02, c06.IntContent(ct.C1.X))...)
		body = append(body, c06.TLV(0x02, c06.IntContent(ct.C1.Y))...)
		body = append(body, c06.TLV(0x04, ct.C3)...)
		body = append(body, c06.TLV(0x04, ct.C2)...)
		return c06.TLV(0x30, body)
	}
	var out []byte
	if l.comp {
		out = ct.C1.Compressed()
	} else {
		out = ct.C1.Uncompressed()
	}
	if l.order == 0 {
		return append(append(out, ct.C3...), ct.C2...)
	}
	return append(append(out, ct.C2...), ct.C3...)
}

// hybridEncode is 06/07 || x || y with the given (possibly wrong) parity bit.
func hybridEncode(ct refCT, order int, parity uint) []byte {
	out := append([]byte{6 | byte(parity)}, ct.C1.Uncompressed()[1:]...)
	if order == 0 {
		return append(append(out, ct.C3...), ct.C2...)
	}
	return append(append(out, ct.C2...), ct.C3...)
}

// ---------------------------------------------------------------------------------------------
// strict parser of the supported layouts (specification side of the rejection oracle)

func derTLV(b []byte, tag byte) (val, rest []byte, ok bool) {
	if len(b) < 2 || b[0] != tag {
		return nil, nil, false
	}
	l := int(b[1])
	off := 2
	if l&0x80 != 0 {
		n := l & 0x7f
		if n == 0 || n > 4 || len(b) < 2+n {
			return nil, nil, false
		}
		if b[2] == 0 {
			return nil, nil, false
		}
		l = 0
		for i := 0; i < n; i++ {
			l = l<<8 | int(b[2+i])
		}
		if l < 0x80 {
			return nil, nil, false
		}
		off = 2 + n
	}
	if l < 0 || len(b)-off < l {
		return nil, nil, false
	}
	return b[off : off+l], b[off+l:], true
}

func derUint(b []byte) (*big.Int, bool) {
	if len(b) == 0 {
		return nil, false
	}
	if len(b) > 1 && (b[0] == 0 && b[1]&0x80 == 0 || b[0] == 0xff && b[1]&0x80 != 0) {
		return nil, false
	}
	if b[0]&0x80 != 0 {
		return nil, false // negative coordinates are never valid
	}
	return new(big.Int).SetBytes(b), true
}

// parseCT parses ct in the declared splicing order; the encoding (ASN.1 / uncompressed / compressed) is told by
// the first byte exactly as GB/T 32918.1 §4.2.9 / GM/T 0009 define it. hybrid=true reports a 06/07 prefix
// (a form the property does not list as supported: the oracle leaves it open).
func parseCT(c *ecref.Curve, ct []byte, order int) (r refCT, ok bool, hybrid bool) {
	if len(ct) == 0 {
		return refCT{}, false, false
	}
	switch ct[0] {
	case 0x30:
		body, rest, ok := derTLV(ct, 0x30)
		if !ok || len(rest) != 0 {
			return refCT{}, false, false
		}
		xb, rest, ok := derTLV(body, 0x02)
		if !ok {
			return refCT{}, false, false
		}
		yb, rest, ok := derTLV(rest, 0x02)
		if !ok {
			return refCT{}, false, false
		}
		c3, rest, ok := derTLV(rest, 0x04)
		if !ok {
			return refCT{}, false, false
		}
		c2, rest, ok := derTLV(rest, 0x04)
		if !ok || len(rest) != 0 {
			return refCT{}, false, false
		}
		x, ok1 := derUint(xb)
		y, ok2 := derUint(yb)
		if !ok1 || !ok2 {
			return refCT{}, false, false
		}
		p := ecref.Point{X: x, Y: y}
		if !c.OnCurve(p) {
			return refCT{}, false, false
		}
		return refCT{C1: p, C2: c2, C3: c3}, true, false
	case 0x04, 0x06, 0x07:
		if len(ct) < 65+32 {
			return refCT{}, false, false
		}
		p := ecref.Point{X: new(big.Int).SetBytes(ct[1:33]), Y: new(big.Int).SetBytes(ct[33:65])}
		if !c.OnCurve(p) {
			return refCT{}, false, false
		}
		c2, c3 := split(ct[65:], order)
		return refCT{C1: p, C2: c2, C3: c3}, true, ct[0] != 0x04
	case 0x02, 0x03:
		if len(ct) < 33+32 {
			return refCT{}, false, false
		}
		p, ok := c.LiftX(new(big.Int).SetBytes(ct[1:33]), uint(ct[0]&1))
		if !ok {
			return refCT{}, false, false
		}
		c2, c3 := split(ct[33:], order)
		return refCT{C1: p, C2: c2, C3: c3}, true, false
	}
	return refCT{}, false, false
}

func split(rest []byte, order int) (c2, c3 []byte) {
	if order == 0 {
		return rest[32:], rest[:32]
	}
	return rest[:len(rest)-32], rest[len(rest)-32:]
}

// decryptor is the specification-side decryption for one private key, with a cache of [d]C1.
type decryptor struct {
	c    *ecref.Curve
	d    *big.Int
	memo map[string]ecref.Point
	muls int
}

func newDecryptor(c *ecref.Curve, d *big.Int) *decryptor {
	return &decryptor{c: c, d: d, memo: map[string]ecref.Point{}}
}

func (dc *decryptor) shared(c1 ecref.Point) ecref.Point {
	k := c1.X.String() + "|" + c1.Y.String()
	if s, ok := dc.memo[k]; ok {
		return s
	}
	s := dc.c.Mul(dc.d, c1)
	dc.muls++
	dc.memo[k] = s
	return s
}

// open returns the specification's verdict on a byte string: (message, true) or rejection.
// open_ is true when the property leaves the verdict open (hybrid C1 form, empty C2).
func (dc *decryptor) open(ct []byte, order int) (msg []byte, accept bool, open_ bool) {
	r, ok, hybrid := parseCT(dc.c, ct, order)
	if !ok {
		return nil, false, false
	}
	s := dc.shared(r.C1)
	if s.Inf {
		return nil, false, false
	}
	m, ok := openWith(s, r.C2, r.C3)
	if !ok {
		return nil, false, false
	}
	return m, true, hybrid || len(r.C2) == 0
}

func selfTestRef() error {
	c := ecref.SM2()
	g := c06.GTable()
	d := c06.HashChain("verif/c07/selftest", 1)
	pub := g.Mul(d)
	p := c06.TableFor(c, pub)
	dc := newDecryptor(c, d)
	for i, n := range []int{1, 19, 32, 33, 100} {
		k := c06.HashChain("verif/c07/selftest-k", i+1)
		msg := c06.Pattern(n, 0x33)
		ct, ok := fastEncryptWithK(g, p, k, msg)
		c1, c2, c3, ok2 := c.EncryptWithK(pub, k, msg)
		if !ok || !ok2 || !ct.C1.Equal(c1) || !bytes.Equal(ct.C2, c2) || !bytes.Equal(ct.C3, c3) {
			return fmt.Errorf("c07: fastEncryptWithK differs from ecref.EncryptWithK (len %d)", n)
		}
		for _, l := range layouts {
			enc := l.encode(ct)
			m, acc, _ := dc.open(enc, l.order)
			m2, ok3 := c.Decrypt(d, c1, c2, c3)
			if !acc || !ok3 || !bytes.Equal(m, msg) || !bytes.Equal(m2, msg) {
				return fmt.Errorf("c07: reference does not round-trip layout %s len %d", l, n)
			}
			// a flipped bit anywhere must be rejected by the specification side
			for _, pos := range []int{0, 5, len(enc) / 2, len(enc) - 1} {
				bad := append([]byte{}, enc...)
				bad[pos] ^= 0x01
				if _, acc, _ := dc.open(bad, l.order); acc {
					return fmt.Errorf("c07: reference accepts a corrupted ciphertext (layout %s, byte %d)", l, pos)
				}
			}
		}
	}
	// the GB/T 32918.5 annex C example through the layout encoder and parser
	dd, _ := new(big.Int).SetString("3945208F7B2144B13F36E38AC6D39F95889393692860B51A42FB81EF4DF7C5B8", 16)
	kk, _ := new(big.Int).SetString("59276E27D506861A16680F3AD9C02DCCEF3CC1FA3CDBE4CE6D54B80DEAC1BC21", 16)
	ct, ok := fastEncryptWithK(g, c06.TableFor(c, g.Mul(dd)), kk, []byte("encryption standard"))
	if !ok || fmt.Sprintf("%X", ct.C2) != "21886CA989CA9C7D58087307CA93092D651EFA" || fmt.Sprintf("%X", ct.C3) != "59983C18F809E262923C53AEC295D30383B54E39D609D160AFCB1908D0BD8766" {
		return fmt.Errorf("c07: annex C example mismatch")
	}
	if m, acc, _ := newDecryptor(c, dd).open(layouts[0].encode(ct), 0); !acc || string(m) != "encryption standard" {
		return fmt.Errorf("c07: annex C example does not decrypt")
	}
	return nil
}
