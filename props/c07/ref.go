// Package c07: SM2 public-key encryption — round trip over all layouts (E2), constructive all-zero-C2 / all-zero-t
// ciphertexts, converter chains (E1 over the converter alphabet) and rejection of every other byte string (E3).
package c07

import (
	"bytes"
	"fmt"
	"math/big"

	"verif/props/c06"
	"verif/ref/ecref"
	"verif/ref/sm3ref"
)

// refCT is a ciphertext as the standard defines it: the point C1 and the strings C2, C3.
// bl is the byte length of a field element, l = ceil(log2(p)/8) (GB/T 32918.1 §4.2.5); 0 stands for 32.
type refCT struct {
	C1     ecref.Point
	C2, C3 []byte
	bl     int
}

func flOf(bl int) int {
	if bl == 0 {
		return 32
	}
	return bl
}

// bytesN is the fixed-width big-endian field-element-to-byte-string conversion.
func bytesN(bl int, v *big.Int) []byte { b := make([]byte, flOf(bl)); v.FillBytes(b); return b }

// encPoint is the point-to-byte-string conversion of GB/T 32918.1 §4.2.9: 04||x||y or (02|03)||x.
func encPoint(bl int, p ecref.Point, comp bool) []byte {
	if comp {
		return append([]byte{2 | byte(p.Y.Bit(0))}, bytesN(bl, p.X)...)
	}
	return append(append([]byte{4}, bytesN(bl, p.X)...), bytesN(bl, p.Y)...)
}

func allZero(b []byte) bool {
	for _, x := range b {
		if x != 0 {
			return false
		}
	}
	return true
}

// shared is x2||y2 of S = [k]P (encryption side) or [d]C1 (decryption side).
func sharedBytesN(bl int, s ecref.Point) (x2, y2 []byte) { return bytesN(bl, s.X), bytesN(bl, s.Y) }

func maskOf(s ecref.Point, n int) []byte { return maskOfN(0, s, n) }

func maskOfN(bl int, s ecref.Point, n int) []byte {
	x2, y2 := sharedBytesN(bl, s)
	return sm3ref.KDF(append(append([]byte{}, x2...), y2...), n)
}

func c3Of(s ecref.Point, msg []byte) []byte { return c3OfN(0, s, msg) }

func c3OfN(bl int, s ecref.Point, msg []byte) []byte {
	x2, y2 := sharedBytesN(bl, s)
	h := sm3ref.Sum(append(append(append([]byte{}, x2...), msg...), y2...))
	return h[:]
}

// sealWith is GB/T 32918.4 §6.1 steps A5-A7 given C1 and the shared point S; ok=false when t is all zero.
func sealWith(c1, s ecref.Point, msg []byte) (refCT, bool) { return sealWithN(0, c1, s, msg) }

func sealWithN(bl int, c1, s ecref.Point, msg []byte) (refCT, bool) {
	t := maskOfN(bl, s, len(msg))
	if len(msg) > 0 && allZero(t) {
		return refCT{}, false
	}
	c2 := make([]byte, len(msg))
	for i := range msg {
		c2[i] = msg[i] ^ t[i]
	}
	return refCT{C1: c1, C2: c2, C3: c3OfN(bl, s, msg), bl: bl}, true
}

// muler yields [k]Q for one fixed point Q (a window table, or a walk of small multiples).
type muler interface{ Mul(k *big.Int) ecref.Point }

// fastEncryptWithK is ecref.EncryptWithK with [k]G and [k]P taken from window tables (cross-checked in SelfTest).
func fastEncryptWithK(g, p muler, k *big.Int, msg []byte) (refCT, bool) {
	return fastEncryptWithKN(0, g, p, k, msg)
}

func fastEncryptWithKN(bl int, g, p muler, k *big.Int, msg []byte) (refCT, bool) {
	s := p.Mul(k)
	if s.Inf {
		return refCT{}, false
	}
	return sealWithN(bl, g.Mul(k), s, msg)
}

// openWith is GB/T 32918.4 §7.1 steps B4-B6 given the shared point.
func openWith(s ecref.Point, c2, c3 []byte) ([]byte, bool) { return openWithN(0, s, c2, c3) }

func openWithN(bl int, s ecref.Point, c2, c3 []byte) ([]byte, bool) {
	t := maskOfN(bl, s, len(c2))
	if len(c2) > 0 && allZero(t) {
		return nil, false
	}
	m := make([]byte, len(c2))
	for i := range m {
		m[i] = c2[i] ^ t[i]
	}
	if !bytes.Equal(c3OfN(bl, s, m), c3) {
		return nil, false
	}
	return m, true
}

// ---------------------------------------------------------------------------------------------
// layouts

type layout struct {
	asn1  bool
	order int  // 0 = C1C3C2, 1 = C1C2C3 (plain only)
	comp  bool // compressed C1 (plain only)
}

var layouts = []layout{{false, 0, false}, {false, 1, false}, {false, 0, true}, {false, 1, true}, {asn1: true}}

func (l layout) String() string {
	if l.asn1 {
		return "asn1"
	}
	s := "C1C3C2"
	if l.order == 1 {
		s = "C1C2C3"
	}
	if l.comp {
		return s + "/compressed"
	}
	return s + "/uncompressed"
}

func (l layout) encode(ct refCT) []byte {
	if l.asn1 {
		var body []byte
		body = append(body, derEnc(0x02, c06.IntContent(ct.C1.X))...)
		body = append(body, derEnc(0x02, c06.IntContent(ct.C1.Y))...)
		body = append(body, derEnc(0x04, ct.C3)...)
		body = append(body, derEnc(0x04, ct.C2)...)
		return derEnc(0x30, body)
	}
	out := encPoint(ct.bl, ct.C1, l.comp)
	if l.order == 0 {
		return append(append(out, ct.C3...), ct.C2...)
	}
	return append(append(out, ct.C2...), ct.C3...)
}

// derEnc is tag || definite minimal length octets (X.690 §8.1.3, any length below 2^32) || content.
func derEnc(tag byte, content []byte) []byte {
	n := len(content)
	out := []byte{tag}
	switch {
	case n < 0x80:
		out = append(out, byte(n))
	case n < 0x100:
		out = append(out, 0x81, byte(n))
	case n < 0x10000:
		out = append(out, 0x82, byte(n>>8), byte(n))
	case n < 0x1000000:
		out = append(out, 0x83, byte(n>>16), byte(n>>8), byte(n))
	default:
		out = append(out, 0x84, byte(n>>24), byte(n>>16), byte(n>>8), byte(n))
	}
	return append(out, content...)
}

// hybridEncode is 06/07 || x || y with the given (possibly wrong) parity bit.
func hybridEncode(ct refCT, order int, parity uint) []byte {
	out := append([]byte{6 | byte(parity)}, encPoint(ct.bl, ct.C1, false)[1:]...)
	if order == 0 {
		return append(append(out, ct.C3...), ct.C2...)
	}
	return append(append(out, ct.C2...), ct.C3...)
}

// ---------------------------------------------------------------------------------------------
// strict parser of the supported layouts (specification side of the rejection oracle)

func derTLV(b []byte, tag byte) (val, rest []byte, ok bool) {
	if len(b) < 2 || b[0] != tag {
		return nil, nil, false
	}
	l := int(b[1])
	off := 2
	if l&0x80 != 0 {
		n := l & 0x7f
		if n == 0 || n > 4 || len(b) < 2+n {
			return nil, nil, false
		}
		if b[2] == 0 {
			return nil, nil, false
		}
		l = 0
		for i := 0; i < n; i++ {
			l = l<<8 | int(b[2+i])
		}
		if l < 0x80 {
			return nil, nil, false
		}
		off = 2 + n
	}
	if l < 0 || len(b)-off < l {
		return nil, nil, false
	}
	return b[off : off+l], b[off+l:], true
}

func derUint(b []byte) (*big.Int, bool) {
	if len(b) == 0 {
		return nil, false
	}
	if len(b) > 1 && (b[0] == 0 && b[1]&0x80 == 0 || b[0] == 0xff && b[1]&0x80 != 0) {
		return nil, false
	}
	if b[0]&0x80 != 0 {
		return nil, false // negative coordinates are never valid
	}
	return new(big.Int).SetBytes(b), true
}

// parseCT parses ct in the declared splicing order; the encoding (ASN.1 / uncompressed / compressed) is told by
// the first byte exactly as GB/T 32918.1 §4.2.9 / GM/T 0009 define it. hybrid=true reports a 06/07 prefix
// (a form the property does not list as supported: the oracle leaves it open).
func parseCT(c *ecref.Curve, ct []byte, order int) (r refCT, ok bool, hybrid bool) {
	return parseCTN(c, 0, ct, order)
}

func parseCTN(c *ecref.Curve, bl0 int, ct []byte, order int) (r refCT, ok bool, hybrid bool) {
	bl := flOf(bl0)
	if len(ct) == 0 {
		return refCT{}, false, false
	}
	switch ct[0] {
	case 0x30:
		body, rest, ok := derTLV(ct, 0x30)
		if !ok || len(rest) != 0 {
			return refCT{}, false, false
		}
		xb, rest, ok := derTLV(body, 0x02)
		if !ok {
			return refCT{}, false, false
		}
		yb, rest, ok := derTLV(rest, 0x02)
		if !ok {
			return refCT{}, false, false
		}
		c3, rest, ok := derTLV(rest, 0x04)
		if !ok {
			return refCT{}, false, false
		}
		c2, rest, ok := derTLV(rest, 0x04)
		if !ok || len(rest) != 0 {
			return refCT{}, false, false
		}
		x, ok1 := derUint(xb)
		y, ok2 := derUint(yb)
		if !ok1 || !ok2 {
			return refCT{}, false, false
		}
		p := ecref.Point{X: x, Y: y}
		if !c.OnCurve(p) {
			return refCT{}, false, false
		}
		return refCT{C1: p, C2: c2, C3: c3, bl: bl0}, true, false
	case 0x04, 0x06, 0x07:
		if len(ct) < 1+2*bl+32 {
			return refCT{}, false, false
		}
		p := ecref.Point{X: new(big.Int).SetBytes(ct[1 : 1+bl]), Y: new(big.Int).SetBytes(ct[1+bl : 1+2*bl])}
		if !c.OnCurve(p) {
			return refCT{}, false, false
		}
		c2, c3 := split(ct[1+2*bl:], order)
		return refCT{C1: p, C2: c2, C3: c3, bl: bl0}, true, ct[0] != 0x04
	case 0x02, 0x03:
		if len(ct) < 1+bl+32 {
			return refCT{}, false, false
		}
		p, ok := c.LiftX(new(big.Int).SetBytes(ct[1:1+bl]), uint(ct[0]&1))
		if !ok {
			return refCT{}, false, false
		}
		c2, c3 := split(ct[1+bl:], order)
		return refCT{C1: p, C2: c2, C3: c3, bl: bl0}, true, false
	}
	return refCT{}, false, false
}

func split(rest []byte, order int) (c2, c3 []byte) {
	if order == 0 {
		return rest[32:], rest[:32]
	}
	return rest[:len(rest)-32], rest[len(rest)-32:]
}

// decryptor is the specification-side decryption for one private key, with a cache of [d]C1.
type decryptor struct {
	c    *ecref.Curve
	d    *big.Int
	memo map[string]ecref.Point
	muls int
	bl   int // byte length of a field element; 0 stands for 32
}

// know records a shared point [d]C1 that the caller obtained another way (e.g. [k]P for C1 = [k]G).
func (dc *decryptor) know(c1, s ecref.Point) { dc.memo[c1.X.String()+"|"+c1.Y.String()] = s }

func newDecryptor(c *ecref.Curve, d *big.Int) *decryptor {
	return &decryptor{c: c, d: d, memo: map[string]ecref.Point{}}
}

func (dc *decryptor) shared(c1 ecref.Point) ecref.Point {
	k := c1.X.String() + "|" + c1.Y.String()
	if s, ok := dc.memo[k]; ok {
		return s
	}
	s := dc.c.Mul(dc.d, c1)
	dc.muls++
	dc.memo[k] = s
	return s
}

// open returns the specification's verdict on a byte string: (message, true) or rejection.
// open_ is true when the property leaves the verdict open (hybrid C1 form, empty C2).
func (dc *decryptor) open(ct []byte, order int) (msg []byte, accept bool, open_ bool) {
	r, ok, hybrid := parseCTN(dc.c, dc.bl, ct, order)
	if !ok {
		return nil, false, false
	}
	s := dc.shared(r.C1)
	if s.Inf {
		return nil, false, false
	}
	m, ok := openWithN(dc.bl, s, r.C2, r.C3)
	if !ok {
		return nil, false, false
	}
	return m, true, hybrid || len(r.C2) == 0
}

func selfTestRef() error {
	c := ecref.SM2()
	g := c06.GTable()
	d := c06.HashChain("verif/c07/selftest", 1)
	pub := g.Mul(d)
	p := c06.TableFor(c, pub)
	dc := newDecryptor(c, d)
	for i, n := range []int{1, 19, 32, 33, 100} {
		k := c06.HashChain("verif/c07/selftest-k", i+1)
		msg := c06.Pattern(n, 0x33)
		ct, ok := fastEncryptWithK(g, p, k, msg)
		c1, c2, c3, ok2 := c.EncryptWithK(pub, k, msg)
		if !ok || !ok2 || !ct.C1.Equal(c1) || !bytes.Equal(ct.C2, c2) || !bytes.Equal(ct.C3, c3) {
			return fmt.Errorf("c07: fastEncryptWithK differs from ecref.EncryptWithK (len %d)", n)
		}
		for _, l := range layouts {
			enc := l.encode(ct)
			m, acc, _ := dc.open(enc, l.order)
			m2, ok3 := c.Decrypt(d, c1, c2, c3)
			if !acc || !ok3 || !bytes.Equal(m, msg) || !bytes.Equal(m2, msg) {
				return fmt.Errorf("c07: reference does not round-trip layout %s len %d", l, n)
			}
			// a flipped bit anywhere must be rejected by the specification side
			for _, pos := range []int{0, 5, len(enc) / 2, len(enc) - 1} {
				bad := append([]byte{}, enc...)
				bad[pos] ^= 0x01
				if _, acc, _ := dc.open(bad, l.order); acc {
					return fmt.Errorf("c07: reference accepts a corrupted ciphertext (layout %s, byte %d)", l, pos)
				}
			}
		}
	}
	// the GB/T 32918.5 annex C example through the layout encoder and parser
	dd, _ := new(big.Int).SetString("3945208F7B2144B13F36E38AC6D39F95889393692860B51A42FB81EF4DF7C5B8", 16)
	kk, _ := new(big.Int).SetString("59276E27D506861A16680F3AD9C02DCCEF3CC1FA3CDBE4CE6D54B80DEAC1BC21", 16)
	ct, ok := fastEncryptWithK(g, c06.TableFor(c, g.Mul(dd)), kk, []byte("encryption standard"))
	if !ok || fmt.Sprintf("%X", ct.C2) != "21886CA989CA9C7D58087307CA93092D651EFA" || fmt.Sprintf("%X", ct.C3) != "59983C18F809E262923C53AEC295D30383B54E39D609D160AFCB1908D0BD8766" {
		return fmt.Errorf("c07: annex C example mismatch")
	}
	if m, acc, _ := newDecryptor(c, dd).open(layouts[0].encode(ct), 0); !acc || string(m) != "encryption standard" {
		return fmt.Errorf("c07: annex C example does not decrypt")
	}
	return nil
}
