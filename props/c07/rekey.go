package c07

// One key OBJECT refilled with another key (FromECPrivateKey into a used receiver): whatever the object cached for the
// old key - a fixed-length copy of D, the inverse of d+1, the ecdh form - must not survive. After the refill a
// ciphertext for the new key decrypts and a ciphertext for the old key is refused, in every layout, whatever the
// object did before (decrypt, sign, ECDH conversion, a failing decrypt).

import (
	"bytes"
	"crypto/ecdsa"
	"fmt"

	"github.com/emmansun/gmsm/sm2"

	"verif/engine"
	c06 "verif/props/c06"
)

func runRekey(c *engine.Ctx) {
	ks := c06.Keys()
	pairs := [][2]int{{0, 1}, {4, 5}, {2, 6}, {7, 3}}
	for _, pr := range pairs {
		a, b := ks[pr[0]], ks[pr[1]]
		c.Case(fmt.Sprintf("rekey/FromECPrivateKey/%s->%s", a.Name, b.Name), func(t *engine.T) {
			msg := c06.Pattern(41, 0x33)
			type lay struct {
				name string
				enc  func(pub *ecdsa.PublicKey, lane byte) ([]byte, error)
				dec  func(k *sm2.PrivateKey, ct []byte) ([]byte, error)
			}
			lays := []lay{
				{"c1c3c2", func(pub *ecdsa.PublicKey, lane byte) ([]byte, error) {
					return sm2.Encrypt(&engine.DetReader{Lane: lane}, pub, msg, nil)
				}, func(k *sm2.PrivateKey, ct []byte) ([]byte, error) { return k.Decrypt(nil, ct, nil) }},
				{"asn1", func(pub *ecdsa.PublicKey, lane byte) ([]byte, error) {
					return sm2.EncryptASN1(&engine.DetReader{Lane: lane}, pub, msg)
				}, func(k *sm2.PrivateKey, ct []byte) ([]byte, error) { return k.Decrypt(nil, ct, sm2.ASN1DecrypterOpts) }},
				{"c1c2c3-compressed", func(pub *ecdsa.PublicKey, lane byte) ([]byte, error) {
					return sm2.Encrypt(&engine.DetReader{Lane: lane}, pub, msg, sm2.NewPlainEncrypterOpts(sm2.MarshalCompressed, sm2.C1C2C3))
				}, func(k *sm2.PrivateKey, ct []byte) ([]byte, error) {
					return k.Decrypt(nil, ct, sm2.NewPlainDecrypterOpts(sm2.C1C2C3))
				}},
			}
			warmups := []struct {
				name string
				do   func(k *sm2.PrivateKey, ctOwn []byte, l lay)
			}{
				{"cold", func(k *sm2.PrivateKey, ctOwn []byte, l lay) {}},
				{"decrypt", func(k *sm2.PrivateKey, ctOwn []byte, l lay) { l.dec(k, ctOwn) }},
				{"decrypt-twice+sign", func(k *sm2.PrivateKey, ctOwn []byte, l lay) {
					l.dec(k, ctOwn)
					l.dec(k, ctOwn)
					k.Sign(&engine.DetReader{Lane: 7}, msg[:32], nil)
				}},
				{"failing-decrypt", func(k *sm2.PrivateKey, ctOwn []byte, l lay) {
					bad := append([]byte{}, ctOwn...)
					bad[len(bad)-1] ^= 1
					l.dec(k, bad)
				}},
				{"ecdh-conversion", func(k *sm2.PrivateKey, ctOwn []byte, l lay) { k.ECDH(); l.dec(k, ctOwn) }},
			}
			for li, l := range lays {
				pubA, pubB := c06.LibPub(a.Pub), c06.LibPub(b.Pub)
				ctA, errA := l.enc(pubA, byte(0x40+li))
				ctB, errB := l.enc(pubB, byte(0x50+li))
				if errA != nil || errB != nil {
					t.Fail("rekey/setup", "encrypt: %v %v", errA, errB)
					return
				}
				for _, w := range warmups {
					key := "rekey/FromECPrivateKey/" + w.name
					obj, err := sm2.NewPrivateKeyFromInt(a.D)
					if err != nil {
						t.Fail("rekey/setup", "NewPrivateKeyFromInt: %v", err)
						return
					}
					if t.Guard(key, func() { w.do(obj, ctA, l) }) {
						continue
					}
					other := c06.LibPriv(b.D, b.Pub)
					var got []byte
					if t.Guard(key, func() {
						if _, err = obj.FromECPrivateKey(&other.PrivateKey); err != nil {
							return
						}
						got, err = l.dec(obj, ctB)
					}) {
						continue
					}
					t.Eval(2)
					if err != nil || !bytes.Equal(got, msg) {
						t.Fail(key+"/new-key-does-not-decrypt", "layout %s: after refilling a used key object (%s) with %s, a ciphertext for %s: err=%v got %x", l.name, a.Name, b.Name, b.Name, err, got)
						continue
					}
					var got2 []byte
					var err2 error
					if t.Guard(key, func() { got2, err2 = l.dec(obj, ctA) }) {
						continue
					}
					t.Eval(1)
					if err2 == nil {
						t.Fail(key+"/old-key-still-accepted", "layout %s: after the refill with %s the object still decrypts a ciphertext for the old key %s to %x", l.name, b.Name, a.Name, got2)
					}
					// and back again
					first := c06.LibPriv(a.D, a.Pub)
					if t.Guard(key, func() {
						if _, err = obj.FromECPrivateKey(&first.PrivateKey); err == nil {
							got, err = l.dec(obj, ctA)
						}
					}) {
						continue
					}
					t.Eval(1)
					if err != nil || !bytes.Equal(got, msg) {
						t.Fail(key+"/refilled-back-does-not-decrypt", "layout %s: after A -> B -> A the object does not decrypt a ciphertext for A: %v", l.name, err)
					}
					t.Nontrivial(fmt.Sprintf("rekey/%s/%s/%s/%s", a.Name, b.Name, l.name, w.name))
				}
			}
		})
	}
}
