package c07

// Boundary shapes of the ciphertext components and of the container:
//   leading-zero shapes of x1, y1 (C1) and of x2, y2 (the shared point that feeds the KDF and C3), found by walking k
//   C1 with x = 0 (a point of the curve: b is a square) and with a 30-zero-byte x, through every layout and converter
//   message lengths in the KDF block-count classes above 13 blocks and on both sides of the DER length-octet
//   boundaries of the ASN.1 form (SEQUENCE content 255/256 and 65535/65536, C2 length 65535/65536)

import (
	"bytes"
	"fmt"
	"math/big"

	"verif/engine"
	"verif/props/c06"
	"verif/ref/ecref"
)

// hexFull prints short byte strings completely (a reproducer needs them).
func hexFull(b []byte) string {
	if len(b) <= 160 {
		return fmt.Sprintf("%x", b)
	}
	return engine.Hex(b)
}

type shapeHit struct {
	name  string
	k     int
	c1, s ecref.Point
}

func leadingZeroBytes(v *big.Int, bl int) int { return bl - (v.BitLen()+7)/8 }

// walkShapes walks k = 1, 2, 3, ... keeping [k]G and [k]P by reference additions and returns, for each of the four
// coordinates x1, y1, x2, y2, the first k for which it has at least `zeros` leading zero bytes.
func (kc *kctx) walkShapes(limit, zeros int) (hits []shapeHit, steps int) {
	g := kc.c.G()
	c1, s := ecref.Inf(), ecref.Inf()
	names := []string{"x1", "y1", "x2", "y2"}
	found := map[string]bool{}
	for k := 1; k <= limit && len(found) < len(names); k++ {
		steps = k
		c1 = kc.c.Add(c1, g)
		s = kc.c.Add(s, kc.key.Pub)
		vals := []*big.Int{c1.X, c1.Y, s.X, s.Y}
		for i, nm := range names {
			if !found[nm] && leadingZeroBytes(vals[i], flOf(kc.bl)) >= zeros {
				found[nm] = true
				hits = append(hits, shapeHit{fmt.Sprintf("%s-%d-leading-zero-bytes", nm, zeros), k, c1, s})
			}
		}
	}
	return hits, steps
}

// leadingZeroCase: ephemeral scalars whose C1 or shared point has a coordinate with leading zero bytes.
func leadingZeroCase(t *engine.T, kc *kctx, zeros, limit int) {
	hits, steps := kc.walkShapes(limit, zeros)
	t.Extra("shape_walk_steps", steps)
	if len(hits) < 4 {
		t.Cap(fmt.Sprintf("only %d of 4 leading-zero shapes (%d bytes) found for key %s with k <= %d", len(hits), zeros, kc.key.Name, limit))
	}
	for _, h := range hits {
		kb := big.NewInt(int64(h.k))
		kc.dc.know(h.c1, h.s)
		for _, n := range []int{1, 32, 33, 100} {
			msg := c06.Pattern(n, 0x44)
			if allZero(maskOfN(kc.bl, h.s, n)) {
				continue // this k is not used for this length (A5)
			}
			what := fmt.Sprintf("k=%d: %s", h.k, h.name)
			t.Nontrivial(fmt.Sprintf("%sshape/%s/%s/len=%d", kc.pfx, kc.key.Name, h.name, n))
			ref := kc.encryptAndRoundTripShape(t, [][]byte{kc.block(kb)}, msg, what, "shape/"+h.name)
			if !ref.C1.Equal(h.c1) {
				t.Fail("HARNESS/shape-construction", "%s: reference C1 is not [k]G of the walk", what)
				return
			}
			for _, l := range layouts {
				mustDecrypt(t, kc.pfx+"decrypt/shape/"+h.name+"/reference-ciphertext-refused", kc.priv, l, l.encode(ref), msg, fmt.Sprintf("reference ciphertext, key %s, msgLen=%d, %s", kc.key.Name, n, what))
			}
			if kc.pfx == "" {
				kc.convertShape(t, ref, msg, h.name)
			}
		}
	}
}

// convertShape: every converter transition on the reference encodings of ref, with the shape in the finding key.
func (kc *kctx) convertShape(t *engine.T, ref refCT, msg []byte, shape string) {
	for _, l := range layouts {
		for _, op := range convOps() {
			if !op.from(l) {
				continue
			}
			in := l.encode(ref)
			keep := append([]byte{}, in...)
			var out []byte
			var err error
			if t.Guard("convert/"+op.name, func() { out, err = op.f(l, in) }) {
				continue
			}
			t.Eval(1)
			t.Nontrivial(fmt.Sprintf("convert-shape/%s/%s/%s", shape, l, op.name))
			K := "convert/shape/" + shape + "/"
			if !bytes.Equal(in, keep) {
				t.Fail("convert/"+op.name+"/input-modified", "%s modified its input (%s)", op.name, shape)
			}
			nl := op.to(l)
			if err != nil {
				t.Fail(K+"error-on-valid-ciphertext", "%s on a valid %s ciphertext (key %s, msgLen=%d, %s): %v; input %s", op.name, l, kc.key.Name, len(msg), shape, err, hexFull(in))
				continue
			}
			if op.exact {
				if want := nl.encode(ref); !bytes.Equal(out, want) {
					t.Fail(K+"wrong-output", "%s on a valid %s ciphertext (key %s, msgLen=%d, %s) = %s, want the %s encoding %s", op.name, l, kc.key.Name, len(msg), shape, engine.Hex(out), nl, engine.Hex(want))
					continue
				}
			} else if m, acc, _ := kc.dc.open(out, nl.order); !acc || !bytes.Equal(m, msg) {
				t.Fail(K+"output-refused", "%s on a valid %s ciphertext (%s) = %s is not decrypted to the message by the reference", op.name, l, shape, engine.Hex(out))
				continue
			}
			t.Outcome("converter-output=reference-encoding")
		}
	}
}

// extremeC1Case: ciphertexts whose C1 is a point with an extreme abscissa: x = 0 (both square roots of b) and the
// smallest x >= 1 on the curve. Every point of the group is [k]G for some k in [1, n-1], so these are outputs of the
// encryption algorithm; they are built with the private key (k stays unknown).
func extremeC1Case(t *engine.T, kc *kctx) {
	type pt struct {
		name string // shape class (finding key)
		p    ecref.Point
	}
	var pts []pt
	for bit := uint(0); bit < 2; bit++ {
		if p, ok := kc.c.LiftX(big.NewInt(0), bit); ok {
			pts = append(pts, pt{"c1-x=0", p})
		}
	}
	if len(pts) == 0 {
		t.Outcome("no-point-with-x=0-on-this-curve")
	}
	pts = append(pts, pt{"c1-x-30-leading-zero-bytes", smallXPoint(kc.c)})
	for _, q := range pts {
		for _, n := range []int{1, 33, 100} {
			msg := c06.Pattern(n, 0x45)
			ct, ok := ctFor(kc.dc, q.p, msg)
			if !ok {
				continue
			}
			t.Nontrivial(fmt.Sprintf("%sshape/%s/%s/len=%d", kc.pfx, kc.key.Name, q.name, n))
			for _, l := range layouts {
				enc := l.encode(ct)
				if m, acc, _ := kc.dc.open(enc, l.order); !acc || !bytes.Equal(m, msg) {
					t.Fail("HARNESS/extreme-c1-construction", "%s layout %s", q.name, l)
					return
				}
				mustDecrypt(t, kc.pfx+"decrypt/shape/"+q.name+"/legitimate-ciphertext-refused", kc.priv, l, enc, msg, fmt.Sprintf("key %s, msgLen=%d, C1 = (%x, %x)", kc.key.Name, n, q.p.X, q.p.Y))
			}
			if kc.pfx == "" {
				kc.convertShape(t, ct, msg, q.name)
			}
		}
	}
	t.Extra("reference_generic_scalar_mults", kc.dc.muls)
}

// ---------------------------------------------------------------------------------------------
// lengths

// kdfClassLens: one length at both edges of the KDF block-count classes 14..17 (8+4+2, 8+4+3, 2x8, 2x8+1), then
// 18, 20, 21, 24, 25, 31, 32, 33, 64, 65 blocks.
func kdfClassLens() []int {
	return []int{417, 448, 449, 480, 481, 512, 513, 544, 545, 640, 641, 768, 769, 992, 1024, 1025, 2048, 2049}
}

// derBoundaryLens: for 128 <= n < 256 the SEQUENCE content of the ASN.1 form is 105 + px + py + n bytes (px, py: the
// sign-padding octets of the two INTEGERs), so n = 145..152 puts it on both sides of 255/256 (length octets 81 ff /
// 82 01 00) for every padding combination.
func derBoundaryLens() []int { return []int{145, 146, 147, 148, 149, 150, 151, 152} }

// derBoundaryLens16: for 256 <= n < 65536 the content is 108 + px + py + n: n = 65424..65429 straddles 65535/65536
// (82 ff ff / 83 01 00 00); n = 65535, 65536, 65537 does the same for the C2 OCTET STRING (and is 2048 / 2049 KDF blocks).
func derBoundaryLens16() []int {
	return []int{65424, 65425, 65426, 65427, 65428, 65429, 65535, 65536, 65537}
}

func runShapes(c *engine.Ctx) {
	quick := c.Quick()
	nk := len(c06.Keys())
	for ki := 0; ki < nk; ki++ {
		ki := ki
		c.Case(fmt.Sprintf("roundtrip/key=%d/kdf-classes-14..65-blocks", ki), func(t *engine.T) { roundTripCase(t, ki, kdfClassLens()) })
		c.Case(fmt.Sprintf("roundtrip/key=%d/der-length-255-256", ki), func(t *engine.T) { roundTripCase(t, ki, derBoundaryLens()) })
	}
	big16 := []int{4}
	if !quick {
		big16 = []int{0, 4, 9}
	}
	for _, ki := range big16 {
		ki := ki
		for _, n := range derBoundaryLens16() {
			n := n
			c.Case(fmt.Sprintf("roundtrip/key=%d/der-length-65535-65536/len=%d", ki, n), func(t *engine.T) { roundTripCase(t, ki, []int{n}) })
		}
	}
	shapeKeys := []int{0, 4, 5}
	if !quick {
		shapeKeys = []int{0, 1, 2, 3, 4, 5, 6, 7, 8, 9, 10, 11}
	}
	for _, ki := range shapeKeys {
		ki := ki
		c.Case(fmt.Sprintf("shape/leading-zero-1/key=%d", ki), func(t *engine.T) { leadingZeroCase(t, newKctx(ki), 1, 6000) })
		c.Case(fmt.Sprintf("shape/extreme-c1/key=%d", ki), func(t *engine.T) { extremeC1Case(t, newKctx(ki)) })
	}
	c.Case("reject/nil-and-stub-inputs", func(t *engine.T) {
		kc := newKctx(0)
		for _, l := range layouts {
			rc := &rejCtx{t: t, kc: kc, l: l, entries: decEntries(l), priv: kc.priv, dc: kc.dc, convs: true}
			rc.check("stub/nil", "nil slice", nil)
			for _, b := range [][]byte{{}, {0x04}, {0x02}, {0x03}, {0x30}, {0x30, 0x00}, {0x30, 0x80}, {0x30, 0x84, 0xff, 0xff, 0xff, 0xff}, {0x00}} {
				rc.check("stub/short", fmt.Sprintf("%x", b), b)
			}
			// exactly the C1 and C3 parts with an empty C2, and one byte less: the shortest strings that pass the length gates
			ref, _ := kc.refEncryptStream([][]byte{kc.block(kc.eph("verif/c07/stub", 1))}, []byte{0x55})
			full := l.encode(ref)
			if !l.asn1 {
				rc.check("stub/c1+c3-only", "C1 || C3 with no C2", l.encode(refCT{C1: ref.C1, C3: ref.C3}))
				rc.check("stub/c1+c3-minus-1", "C1 || C3 cut by one byte", full[:len(full)-2])
			}
		}
	})
	if !quick {
		for _, ki := range []int{4, 7} {
			ki := ki
			c.Case(fmt.Sprintf("shape/leading-zero-2/key=%d", ki), func(t *engine.T) { leadingZeroCase(t, newKctx(ki), 2, 600000) })
		}
	}
	for ci, cv := range legacyCurves() {
		cv := cv
		nm := []string{"P-256", "P-256-generic"}[ci]
		c.Case("legacy/shape/leading-zero-1/"+nm, func(t *engine.T) { leadingZeroCase(t, legacyKctx(cv, 0), 1, 6000) })
		c.Case("legacy/shape/extreme-c1/"+nm, func(t *engine.T) { extremeC1Case(t, legacyKctx(cv, 0)) })
		c.Case("legacy/roundtrip/"+nm+"/kdf-classes+der-boundaries", func(t *engine.T) {
			kc := legacyKctx(cv, 0)
			for _, n := range []int{129, 148, 150, 152, 161, 200, 225, 257, 353, 385, 449, 481, 513, 1025} {
				msg := c06.Pattern(n, 0x73)
				ref := kc.encryptAndRoundTrip(t, [][]byte{kc.block(scalarFor("verif/c07/legacy-k2", n))}, msg, "k=hash")
				for _, l := range layouts {
					t.Nontrivial(fmt.Sprintf("legacy/ref-ct/%s/len=%d/%s", kc.key.Name, n, l))
					mustDecrypt(t, "legacy/decrypt/reference-ciphertext-refused", kc.priv, l, l.encode(ref), msg, fmt.Sprintf("reference ciphertext, %s, msgLen=%d", kc.key.Name, n))
				}
			}
		})
	}
}
